import J5V.Codec.EncTreeProofs
import J5V.Codec.CanonProofs
/-!
# `google.protobuf.Any` with `WithProtoToAny` (C01, one property, under an explicit depth hypothesis)

A protobuf `Any` can only be decoded by a codec built `WithProtoToAny`: reading
`{"!type": tn, "value": V}` it resolves `tn`, decodes `V` into a fresh message of that type (with
`anyDepth + 1`), marshals it and stores the bytes. In the model the bytes are represented by what
they unmarshal to (`ik / iroot / inner`), so no marshal / unmarshal law is needed beyond the
modelling assumption (trusted base: "proto.Marshal / Unmarshal for the bytes inside Any values").
-/
namespace J5V.Codec
open J5V.Go J5V.Json

theorem fieldNoJ5_of_noAny (fld : Field) (h : fieldNoAny fld = true) : fieldNoJ5 fld = true := by
  induction fld with
  | any pb => simp [fieldNoAny] at h
  | array i ih => simp only [fieldNoAny] at h; simp only [fieldNoJ5]; exact ih h
  | map i ih => simp only [fieldNoAny] at h; simp only [fieldNoJ5]; exact ih h
  | _ => rfl

/-- an environment without any `Any` field has no j5 `Any` field -/
theorem noJ5Any_of_noAny (env : Env) (h : env.noAny = true) : env.noJ5Any = true := by
  unfold Env.noAny at h
  unfold Env.noJ5Any
  apply List.all_eq_true.mpr
  intro d hd
  have := List.all_eq_true.mp h d hd
  obtain ⟨name, r⟩ := d
  cases r with
  | object ps =>
    simp only [] at this ⊢
    exact List.all_eq_true.mpr fun p hp => fieldNoJ5_of_noAny _ (List.all_eq_true.mp this p hp)
  | oneof ps =>
    simp only [] at this ⊢
    exact List.all_eq_true.mpr fun p hp => fieldNoJ5_of_noAny _ (List.all_eq_true.mp this p hp)
  | «enum» a b => rfl
  | noschema => rfl

/-- **protobuf `Any`, one property**: for a codec built `WithProtoToAny`, fewer than `maxAnyDepth`
enclosing `Any` values: a protobuf `Any` whose type URL is `type.googleapis.com/` + a resolvable
name and whose content is a non-empty representable message `fs` of the resolved root (which the
codec at `anyDepth + 1` can decode: `hMi`; nested at most 1664 messages deep: `hD`) is written as
`{"!type": name, "value": data}` with `data` the codec's encoding of `fs`, and the decoder reading
that value into a protobuf `Any` property stores `Any{type_url, content = fs}` again. (The
whole-message statement is `roundtrip_bytes`; this is its `Any` step in isolation.) -/
theorem any_pb_roundtrip' (c : Cfg) (hs : c.env.flat = true) (L : OracleLaws c.O)
    (hmode : c.protoToAny = true) (hdepth : c.anyDepth < maxAnyDepth)
    (props : List PropDef) (p : PropDef) (st : PS) (tn val : Bytes) (iroot : String) (fs : Fields)
    (hf : p.field = .any true) (hp : p.path ≠ []) (hseen : p.jsonName ∉ st.seen)
    (hgb : groupBusy props p st.m = false) (hu : isValidUtf8 tn = true)
    (hres : c.env.resolve tn = some iroot) (hne : fs ≠ [])
    (hok : valOk c.env c.O (.object iroot) (.msg fs) = true ∨
      valOk c.env c.O (.oneof iroot) (.msg fs) = true)
    (hMi : modeOkF c.protoToAny (6 * (depthFields fs + 1) + 9) (c.anyDepth + 1) fs = true)
    (hD : 6 * (depthFields fs + 1) + 10 ≤ 10000) :
    ∃ t, encValue c.env c.O (6 * (depthFields fs + 1) + 9 + 2) (.any true)
          (.anyPb (anyPrefix ++ tn) val .inn iroot (.msg fs)) = .ok t ∧
      decProp c props p t st =
        .ok { m := updPath props p (some (.anyPb (anyPrefixB ++ tn) [] .inn iroot (.msg fs))) st.m,
              seen := p.jsonName :: st.seen } := by
  obtain ⟨data, henc, hdec⟩ := roundtrip_tree_flat_fuel { c with anyDepth := c.anyDepth + 1 } hs L
    iroot fs hok (6 * (depthFields fs + 1) + 9) (Nat.le_refl _) hMi
  have hn5 : (PVal.msg fs).noJ5 = true := by
    have h := hMi
    rw [hmode] at h
    have := modeOkF_noJ5 _ _ fs h
    simpa [PVal.noJ5] using this
  obtain ⟨hdd, hcc⟩ := (TD_all c.env c.O _).root iroot (.msg fs) data hn5 henc
  obtain ⟨tlit, nlit, vlit, he⟩ := enc_any_pb c.env c.O (6 * (depthFields fs + 1) + 9)
    (anyPrefix ++ tn) val iroot (.msg fs) data henc (by rw [trimPrefix_append]; exact hu)
  rw [trimPrefix_append] at he
  exact ⟨_, he, dec_any_pb c hmode hdepth props p st tn tlit nlit vlit data iroot fs hf hp hseen hgb
    hcc (Nat.le_trans hdd hD) hres hdec hne⟩

/-! ## messages of an environment without `Any` can be decoded by every codec -/

theorem exposedOps_noAny (env : Env) (hna : env.noAny = true) (p0 q : PropDef)
    (hq : q ∈ exposedOps env p0) : fieldNoAny q.field = true := by
  unfold exposedOps at hq
  split at hq
  · next ref _ _ =>
    split at hq
    · next ops hfind => exact find_noAny env hna ref ops (Or.inr hfind) q hq
    · cases hq
  · cases hq

mutual
theorem valOk_modeOk (env : Env) (O : Oracle) (hna : env.noAny = true) (p : Bool) (F : Nat) :
    (v : PVal) → (fld : Field) → (d : Nat) → fieldNoAny fld = true → valOk env O fld v = true →
    modeOk p F d v = true
  | .msg fs, fld, d, hf, h => by
    simp only [modeOk]
    cases fld with
    | object ref =>
      obtain ⟨fs', props, hv, hfind, _, hfok, _, _⟩ := valOk_object env O ref _ h
      cases hv
      exact fieldsOk_modeOk env O hna p F fs props d (find_noAny env hna ref props (Or.inl hfind)) hfok
    | oneof ref =>
      obtain ⟨fs', ops, hv, hfind, _, hfok, _⟩ := valOk_oneof env O ref _ h
      cases hv
      exact fieldsOk_modeOk env O hna p F fs ops d (find_noAny env hna ref ops (Or.inr hfind)) hfok
    | _ => simp [valOk] at h
  | .list xs, fld, d, hf, h => by
    simp only [modeOk]
    cases fld with
    | array item =>
      obtain ⟨xs', hv, hl⟩ := valOk_array env O item _ h
      cases hv
      exact listOk_modeOk env O hna p F xs item d (by simpa [fieldNoAny] using hf) hl
    | _ => simp [valOk] at h
  | .map kvs, fld, d, hf, h => by
    simp only [modeOk]
    cases fld with
    | map item =>
      obtain ⟨kvs', hv, hm⟩ := valOk_map env O item _ h
      cases hv
      exact mapOk_modeOk env O hna p F kvs item [] d (by simpa [fieldNoAny] using hf) hm
    | _ => simp [valOk] at h
  | .anyJ5 a b c e f g, fld, d, hf, h => by
    cases fld with
    | any pb => simp [fieldNoAny] at hf
    | _ => simp [valOk] at h
  | .anyPb a b c e f, fld, d, hf, h => by
    cases fld with
    | any pb => simp [fieldNoAny] at hf
    | _ => simp [valOk] at h
  | .bool _, _, _, _, _ => by simp [modeOk]
  | .int _, _, _, _, _ => by simp [modeOk]
  | .uint _, _, _, _, _ => by simp [modeOk]
  | .f32 _, _, _, _, _ => by simp [modeOk]
  | .f64 _, _, _, _, _ => by simp [modeOk]
  | .str _, _, _, _, _ => by simp [modeOk]
  | .bytes _, _, _, _, _ => by simp [modeOk]
  | .enum _, _, _, _, _ => by simp [modeOk]
  | .ts _ _, _, _, _, _ => by simp [modeOk]
  | .date _ _ _, _, _, _, _ => by simp [modeOk]
  | .dec _, _, _, _, _ => by simp [modeOk]
termination_by v => sizeOf v

theorem fieldsOk_modeOk (env : Env) (O : Oracle) (hna : env.noAny = true) (p : Bool) (F : Nat) :
    (fs : Fields) → (props : List PropDef) → (d : Nat) →
    (∀ q ∈ props, fieldNoAny q.field = true) → fieldsOk env O props fs = true →
    modeOkF p F d fs = true
  | [], _, _, _, _ => by simp [modeOkF]
  | (k, v) :: rest, props, d, hp, h => by
    rw [fieldsOk_cons] at h
    simp only [Bool.and_eq_true] at h
    simp only [modeOkF, Bool.and_eq_true]
    refine ⟨?_, fieldsOk_modeOk env O hna p F rest props d hp h.2⟩
    have h1 := h.1
    split at h1
    · next q hq =>
      simp only [Bool.and_eq_true] at h1
      have hqf : fieldNoAny q.field = true := by
        rcases leafProp_inv' env props k q hq with ⟨hqm, _⟩ | ⟨p0, _, hq0, _⟩
        · exact hp q hqm
        · exact exposedOps_noAny env hna p0 q hq0
      exact valOk_modeOk env O hna p F v q.field d hqf h1.1
    · cases v with
      | msg sub =>
        simp only [Bool.and_eq_true] at h1
        simp only [modeOk]
        refine fieldsOk_modeOk env O hna p F sub _ d ?_ h1.2
        intro q' hq'
        obtain ⟨q, hqm, _, _, _, rfl⟩ := mem_propsUnder k props q' hq'
        exact hp q hqm
      | _ => cases h1
termination_by fs => sizeOf fs

theorem listOk_modeOk (env : Env) (O : Oracle) (hna : env.noAny = true) (p : Bool) (F : Nat) :
    (xs : List PVal) → (item : Field) → (d : Nat) → fieldNoAny item = true →
    listOk env O item xs = true → modeOkL p F d xs = true
  | [], _, _, _, _ => by simp [modeOkL]
  | x :: rest, item, d, hf, h => by
    simp only [listOk, Bool.and_eq_true] at h
    simp only [modeOkL, Bool.and_eq_true]
    exact ⟨valOk_modeOk env O hna p F x item d hf h.1, listOk_modeOk env O hna p F rest item d hf h.2⟩
termination_by xs => sizeOf xs

theorem mapOk_modeOk (env : Env) (O : Oracle) (hna : env.noAny = true) (p : Bool) (F : Nat) :
    (kvs : List (Bytes × PVal)) → (item : Field) → (seen : List Bytes) → (d : Nat) →
    fieldNoAny item = true → mapOk env O item seen kvs = true → modeOkM p F d kvs = true
  | [], _, _, _, _, _ => by simp [modeOkM]
  | (k, v) :: rest, item, seen, d, hf, h => by
    simp only [mapOk, Bool.and_eq_true] at h
    simp only [modeOkM, Bool.and_eq_true]
    exact ⟨valOk_modeOk env O hna p F v item d hf h.1.2,
      mapOk_modeOk env O hna p F rest item _ d hf h.2⟩
termination_by kvs => sizeOf kvs
end

/-- **a representable message of an environment without `Any` fields can be decoded by every
codec** (so for such environments the `canDecode` hypothesis of the round-trip theorems is void) -/
theorem canDecode_of_noAny (c : Cfg) (hna : c.env.noAny = true) (root : String) (m : Fields)
    (hok : valOk c.env c.O (.object root) (.msg m) = true ∨
      valOk c.env c.O (.oneof root) (.msg m) = true) : c.canDecode m := by
  unfold Cfg.canDecode
  rcases hok with h | h
  · have := valOk_modeOk c.env c.O hna c.protoToAny (6 * (depthFields m + 1) + 9) (.msg m)
      (.object root) c.anyDepth rfl h
    simpa [modeOk] using this
  · have := valOk_modeOk c.env c.O hna c.protoToAny (6 * (depthFields m + 1) + 9) (.msg m)
      (.oneof root) c.anyDepth rfl h
    simpa [modeOk] using this

end J5V.Codec
