import J5V.Codec.FlattenStore
/-!
# `Message.Set` at a proto path: what it stores and what it leaves alone (frame lemmas)

For arbitrary messages (not only restrictions): `updPath` stores the value at its path, and every
leaf at a path that is neither above nor below that path keeps its value — provided the other
members of the final field's proto oneof are unset (which `CreateField` has checked: 25c97b7).
-/
namespace J5V.Codec

theorem aget_aerase (k k' : Nat) (m : Fields) :
    aget k' (aerase k m) = if k' = k then none else aget k' m := by
  induction m with
  | nil => simp [aerase, aget]
  | cons kv t ih =>
    obtain ⟨k2, v2⟩ := kv
    simp only [aerase]
    by_cases h : k = k2
    · subst h
      rw [if_pos rfl, ih]
      by_cases h2 : k' = k
      · simp [h2]
      · simp [h2, aget]
    · rw [if_neg h]
      by_cases h2 : k' = k2
      · subst h2
        have : k' ≠ k := fun e => h e.symm
        simp [aget, this]
      · simp [aget, h2, ih]

theorem aget_setLeaf_ne (pres : Pres) (k k' : Nat) (v : PVal) (m : Fields) (h : k' ≠ k) :
    aget k' (setLeaf pres k v m) = aget k' m := by
  unfold setLeaf
  split
  · rw [aget_aerase, if_neg h]
  · rw [aget_aset, if_neg h]

theorem getPath_head_congr (m m' : Fields) (k : Nat) (t : List Nat) (h : aget k m = aget k m') :
    getPath m (k :: t) = getPath m' (k :: t) := by
  cases t with
  | nil => simp [getPath, h]
  | cons k2 r => rw [getPath_cons2, getPath_cons2, h]

theorem msgAt_cons (k : Nat) (rest : List Nat) (m : Fields) :
    msgAt (k :: rest) m = msgAt rest (PVal.asMsg (aget k m)) := rfl

theorem getPath_nil' (path : List Nat) : getPath [] path = none := by
  cases path with
  | nil => rfl
  | cons k t => cases t <;> simp [getPath, aget]

/-- leaves apart from the path keep their value -/
theorem getPath_go_frame (props : List PropDef) (p : PropDef) (v : Option PVal) (kl : Nat)
    (hkl : p.path.getLast? = some kl) :
    ∀ (rem pfx : List Nat) (m : Fields) (x : List Nat), pfx ++ rem = p.path → rem ≠ [] → x ≠ [] →
      ¬ rem <+: x → ¬ x <+: rem → SiblingsUnset props p kl (msgAt rem.dropLast m) →
      getPath (updPath.go props p v pfx rem m) x = getPath m x := by
  intro rem
  induction rem with
  | nil => intro pfx m x _ h; exact absurd rfl h
  | cons k t ih =>
    intro pfx m x hpath _ hx h1 h2 hsib
    cases x with
    | nil => exact absurd rfl hx
    | cons k' tx =>
      cases t with
      | nil =>
        have hne : k' ≠ k := by
          intro e; subst e; exact h1 (by simp)
        have hpl : p.path.getLast? = some k := by rw [← hpath]; simp
        have hkk : kl = k := by rw [hkl] at hpl; exact Option.some.inj hpl
        subst hkk
        have hpfx : pfx = p.path.dropLast := by rw [← hpath]; simp
        simp only [List.dropLast_singleton, msgAt] at hsib
        apply getPath_head_congr
        cases v with
        | some v' =>
          rw [updPath.go, hpfx, clearGroup_id_at props p kl m hsib]
          exact aget_setLeaf_ne _ _ _ _ _ hne
        | none =>
          rw [updPath.go]
          rw [aget_aerase, if_neg hne]
      | cons k2 r =>
        rw [updPath.go]
        · by_cases hk : k' = k
          · subst hk
            cases tx with
            | nil => exact absurd (by simp) h2
            | cons k3 r3 =>
              rw [getPath_cons2, aget_aset, if_pos rfl]
              simp only []
              have hsib' : SiblingsUnset props p kl
                  (msgAt (k2 :: r).dropLast (PVal.asMsg (aget k' m))) := by
                have : (k' :: k2 :: r).dropLast = k' :: (k2 :: r).dropLast := by simp [List.dropLast]
                rw [this, msgAt_cons] at hsib
                exact hsib
              rw [ih (pfx ++ [k']) (PVal.asMsg (aget k' m)) (k3 :: r3) (by rw [← hpath]; simp)
                (by simp) (by simp) (by intro hp; exact h1 (by simpa using hp))
                (by intro hp; exact h2 (by simpa using hp)) hsib']
              rw [getPath_cons2]
              cases hag : aget k' m with
              | none => simp [PVal.asMsg, getPath_nil']
              | some vk =>
                cases vk <;> simp [PVal.asMsg, getPath_nil']
          · apply getPath_head_congr
            rw [aget_aset, if_neg hk]
        · simp

theorem getPath_updPath_frame (props : List PropDef) (p : PropDef) (v : Option PVal) (kl : Nat)
    (hkl : p.path.getLast? = some kl) (m : Fields) (x : List Nat) (hne : p.path ≠ []) (hx : x ≠ [])
    (h1 : ¬ p.path <+: x) (h2 : ¬ x <+: p.path)
    (hsib : SiblingsUnset props p kl (msgAt p.path.dropLast m)) :
    getPath (updPath props p v m) x = getPath m x :=
  getPath_go_frame props p v kl hkl p.path [] m x rfl hne hx h1 h2 hsib

/-- the value is stored at its path -/
theorem getPath_go_self (props : List PropDef) (p : PropDef) (v : PVal) (kl : Nat)
    (hkl : p.path.getLast? = some kl)
    (hz : (p.pres == .imp && v.isZero) = false) (hec : v.isEmptyColl = false) :
    ∀ (rem pfx : List Nat) (m : Fields), pfx ++ rem = p.path → rem ≠ [] →
      getPath (updPath.go props p (some v) pfx rem m) rem = some v := by
  intro rem
  induction rem with
  | nil => intro pfx m _ h; exact absurd rfl h
  | cons k t ih =>
    intro pfx m hpath _
    cases t with
    | nil =>
      rw [updPath.go]
      simp only [getPath]
      unfold setLeaf
      simp [hz, hec, aget_aset]
    | cons k2 r =>
      rw [updPath.go]
      · rw [getPath_cons2, aget_aset, if_pos rfl]
        simp only []
        exact ih (pfx ++ [k]) _ (by rw [← hpath]; simp) (by simp)
      · simp

/-- an erased value (zero of an implicit-presence field, empty list / map) is absent -/
theorem getPath_go_erased (props : List PropDef) (p : PropDef) (v : PVal) (kl : Nat)
    (hkl : p.path.getLast? = some kl)
    (he : ((p.pres == .imp && v.isZero) || v.isEmptyColl) = true) :
    ∀ (rem pfx : List Nat) (m : Fields), pfx ++ rem = p.path → rem ≠ [] →
      SiblingsUnset props p kl (msgAt rem.dropLast m) →
      getPath (updPath.go props p (some v) pfx rem m) rem = none := by
  intro rem
  induction rem with
  | nil => intro pfx m _ h; exact absurd rfl h
  | cons k t ih =>
    intro pfx m hpath _ hsib
    cases t with
    | nil =>
      have hpl : p.path.getLast? = some k := by rw [← hpath]; simp
      have hkk : kl = k := by rw [hkl] at hpl; exact Option.some.inj hpl
      subst hkk
      have hpfx : pfx = p.path.dropLast := by rw [← hpath]; simp
      rw [updPath.go, hpfx]
      simp only [List.dropLast_singleton, msgAt] at hsib
      rw [clearGroup_id_at props p kl m hsib]
      simp only [getPath]
      unfold setLeaf
      rw [if_pos he, aget_aerase, if_pos rfl]
    | cons k2 r =>
      rw [updPath.go]
      · rw [getPath_cons2, aget_aset, if_pos rfl]
        simp only []
        have hsib' : SiblingsUnset props p kl (msgAt (k2 :: r).dropLast (PVal.asMsg (aget k m))) := by
          have : (k :: k2 :: r).dropLast = k :: (k2 :: r).dropLast := by simp [List.dropLast]
          rw [this, msgAt_cons] at hsib
          exact hsib
        exact ih (pfx ++ [k]) _ (by rw [← hpath]; simp) (by simp) hsib'
      · simp

end J5V.Codec
