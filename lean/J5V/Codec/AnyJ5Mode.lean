import J5V.Codec.AnyProofs
/-!
# A j5 `Any` under `WithProtoToAny` (C01, one property in isolation)

With `WithProtoToAny` the decoder does not only store `Any{type_name, j5_json}`: it also decodes
the value as the message type the name resolves to and stores the result as the `Any`'s proto
content. So `decode (encode a) ≠ a` for a j5 `Any` `a` that carries `j5_json` only — the result is
`a` **plus the expanded content** — but nothing observable through the codec changes: the encoder
prefers `j5_json` and writes it verbatim, so the decoded value is written as exactly the same
document again (`decode ∘ encode` is idempotent on it, and `encode ∘ decode ∘ encode = encode`).
-/
namespace J5V.Codec
open J5V.Go J5V.Json

/-- the decoder built `WithProtoToAny` reading `{"!type": tn, "value": V}` into a j5 `Any`
property: `Any{type_name, j5_json = compact V}` plus, as proto content, what `V` decodes to as a
message of the root `tn` resolves to (one `Any` level deeper) -/
theorem dec_any_j5_p (c : Cfg) (hmode : c.protoToAny = true) (hdepth : c.anyDepth < maxAnyDepth)
    (props : List PropDef) (p : PropDef) (st : PS) (tn tlit nlit vlit : Bytes) (tv : PTree)
    (iroot : String) (fs : Fields)
    (hf : p.field = .any false) (hp : p.path ≠ []) (hs : p.jsonName ∉ st.seen)
    (hgb : groupBusy props p st.m = false) (hc : tv.complete = true) (hd : tv.depth ≤ 10000)
    (hres : c.env.resolve tn = some iroot)
    (hdec : decRootTree { c with anyDepth := c.anyDepth + 1 } iroot tv = .ok fs)
    (hne : fs ≠ []) :
    decProp c props p
        (.obj (.cons typeKey tlit (.str tn nlit) (.cons valueKey vlit tv (.nil .closed)))) st =
      .ok { m := updPath props p (some (.anyJ5 tn [] tv.render .inn iroot (.msg fs))) st.m,
            seen := p.jsonName :: st.seen } := by
  have hpe : p.path.isEmpty = false := by
    cases hpp : p.path with
    | nil => exact absurd hpp hp
    | cons a b => rfl
  have hpop : popValueAsBytes tv = some tv.render := by
    unfold popValueAsBytes; simp [hc, hd]
  have hvk : ascii "value" ≠ ascii "!type" := by decide
  have hfe : fs.isEmpty = false := by
    cases fs with
    | nil => exact absurd rfl hne
    | cons a b => rfl
  have hnd : ¬ (c.anyDepth ≥ maxAnyDepth) := Nat.not_le.mpr hdepth
  unfold decProp; rw [hf]
  simp only [createField_fresh props p st hs hgb, Outcome.bind, hpe, Bool.false_eq_true, if_false]
  simp only [finalType, finalType.typeKeyB, decAnyMembers, typeKey, valueKey, if_true, hvk, if_false,
    ne_eq, not_true_eq_false, Option.isSome_none, Bool.false_eq_true, hpop, hnd, hres, hdec]
  simp [finishAnyProp, Outcome.bind, hmode, closeOk, hfe]

/-- … when the value decodes to the EMPTY message of its type, no content is stored: the result is
the `Any` the codec without `WithProtoToAny` stores -/
theorem dec_any_j5_p_empty (c : Cfg) (hmode : c.protoToAny = true) (hdepth : c.anyDepth < maxAnyDepth)
    (props : List PropDef) (p : PropDef) (st : PS) (tn tlit nlit vlit : Bytes) (tv : PTree)
    (iroot : String)
    (hf : p.field = .any false) (hp : p.path ≠ []) (hs : p.jsonName ∉ st.seen)
    (hgb : groupBusy props p st.m = false) (hc : tv.complete = true) (hd : tv.depth ≤ 10000)
    (hres : c.env.resolve tn = some iroot)
    (hdec : decRootTree { c with anyDepth := c.anyDepth + 1 } iroot tv = .ok []) :
    decProp c props p
        (.obj (.cons typeKey tlit (.str tn nlit) (.cons valueKey vlit tv (.nil .closed)))) st =
      .ok { m := updPath props p (some (.anyJ5 tn [] tv.render .none "" (.msg []))) st.m,
            seen := p.jsonName :: st.seen } := by
  have hpe : p.path.isEmpty = false := by
    cases hpp : p.path with
    | nil => exact absurd hpp hp
    | cons a b => rfl
  have hpop : popValueAsBytes tv = some tv.render := by
    unfold popValueAsBytes; simp [hc, hd]
  have hvk : ascii "value" ≠ ascii "!type" := by decide
  have hnd : ¬ (c.anyDepth ≥ maxAnyDepth) := Nat.not_le.mpr hdepth
  unfold decProp; rw [hf]
  simp only [createField_fresh props p st hs hgb, Outcome.bind, hpe, Bool.false_eq_true, if_false]
  simp only [finalType, finalType.typeKeyB, decAnyMembers, typeKey, valueKey, if_true, hvk, if_false,
    ne_eq, not_true_eq_false, Option.isSome_none, Bool.false_eq_true, hpop, hnd, hres, hdec]
  simp [finishAnyProp, Outcome.bind, hmode, closeOk]

/-- **stability**: what the encoder writes for a j5 `Any` that holds `j5_json` does not depend on
anything else the `Any` carries (proto bytes, expanded content) -/
theorem enc_any_j5_stable (env : Env) (O : Oracle) (f : Nat) (tn proto proto' j5 : Bytes)
    (ik ik' : InnerKind) (iroot iroot' : String) (inner inner' : PVal) (hj : j5 ≠ []) :
    encValue env O f (.any false) (.anyJ5 tn proto j5 ik iroot inner) =
      encValue env O f (.any false) (.anyJ5 tn proto' j5 ik' iroot' inner') := by
  have hne : j5.isEmpty = false := by
    cases j5 with
    | nil => exact absurd rfl hj
    | cons a b => rfl
  cases f with
  | zero => rfl
  | succ f => simp [encValue, hne]

end J5V.Codec
