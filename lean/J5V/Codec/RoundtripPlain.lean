import J5V.Codec.RoundtripProofs
/-!
# Structure-level round trip: one-element paths, proto oneof groups, the oneof body (C01)

Lemmas about `clearGroup` / `groupBusy` on one-element paths, the shape of what
`encodeOneofBody` writes (`OneShape`) and how `decodeOneofInner` reads it back into any message
that holds none of the oneof's members (`decOneof_one`) — used for wrapper oneofs (fresh message)
and exposed oneofs (the enclosing message). The member loop of an object is in
`RoundtripFlat.lean`, the fuel induction in `RoundtripInd.lean`.
-/
namespace J5V.Codec
open J5V.Go J5V.Json

/-! ## store facts -/

theorem aget_some_of_mem_akeys {α : Type} (k : Nat) (m : List (Nat × α)) (h : k ∈ akeys m) :
    ∃ v, aget k m = some v := by
  induction m with
  | nil => simp [akeys] at h
  | cons kv t ih =>
    obtain ⟨k', v'⟩ := kv
    simp only [akeys, List.map_cons, List.mem_cons] at h
    by_cases hk : k = k'
    · exact ⟨v', by simp [aget, hk]⟩
    · rcases h with h | h
      · exact absurd h hk
      · obtain ⟨v, hv⟩ := ih (by simpa [akeys] using h)
        exact ⟨v, by simp [aget, hk, hv]⟩

theorem not_mem_akeys_of_aget_none {α : Type} (k : Nat) (m : List (Nat × α)) (h : aget k m = none) :
    k ∉ akeys m := by
  intro hm
  obtain ⟨v, hv⟩ := aget_some_of_mem_akeys k m hm
  rw [h] at hv; cases hv

/-! ## proto oneof groups on one-element paths -/

theorem path_of_dropLast_nil (path : List Nat) (k : Nat) (h1 : path.dropLast = [])
    (h2 : path.getLast? = some k) : path = [k] := by
  cases path with
  | nil => simp at h2
  | cons a t =>
    cases t with
    | nil => simp at h2; rw [h2]
    | cons b r => simp [List.dropLast] at h1

/-- no other member of `p`'s proto oneof is set -/
def OthersUnset (props : List PropDef) (g : Option Nat) (k : Nat) (m : Fields) : Prop :=
  ∀ gi, g = some gi → ∀ q ∈ props, q.group = some gi → ∀ k', q.path = [k'] → k' ≠ k → aget k' m = none

theorem groupBusy_single_false (props : List PropDef) (p : PropDef) (k : Nat) (m : Fields)
    (hp : p.path = [k]) (h : OthersUnset props p.group k m) : groupBusy props p m = false := by
  unfold groupBusy
  split
  · next gi k0 hg hl =>
    rw [hp] at hl; simp at hl; subst hl
    simp only [hp, List.dropLast_singleton, msgAt, List.any_eq_false]
    intro q hq hcon
    simp only [Bool.and_eq_true, beq_iff_eq] at hcon
    obtain ⟨⟨hqg, hqd⟩, hmm⟩ := hcon
    cases hl : q.path.getLast? with
    | none => simp [hl] at hmm
    | some k' =>
      simp only [hl, Bool.and_eq_true, bne_iff_ne, ne_eq] at hmm
      have hqp := path_of_dropLast_nil q.path k' hqd hl
      have := h gi hg q hq hqg k' hqp hmm.1
      simp [this] at hmm
  · rfl

theorem clearGroup_id (props : List PropDef) (g : Option Nat) (k : Nat) (m : Fields)
    (h : OthersUnset props g k m) : clearGroup props [] g k m = m := by
  unfold clearGroup
  cases g with
  | none => rfl
  | some gi =>
    simp only []
    have : ∀ (l : List PropDef), (∀ q ∈ l, q ∈ props) →
        l.foldl (fun acc p =>
          if p.group == some gi && p.path.dropLast == [] then
            match p.path.getLast? with
            | some k' => if k' == k then acc else aerase k' acc
            | none => acc
          else acc) m = m := by
      intro l
      induction l with
      | nil => intro _; rfl
      | cons q t ih =>
        intro hsub
        rw [List.foldl_cons]
        have hstep : (if q.group == some gi && q.path.dropLast == [] then
            match q.path.getLast? with
            | some k' => if k' == k then m else aerase k' m
            | none => m
          else m) = m := by
          split
          · next hc =>
            simp only [Bool.and_eq_true, beq_iff_eq] at hc
            split
            · next k' hk' =>
              split
              · rfl
              · next hne =>
                have hqp := path_of_dropLast_nil q.path k' hc.2 hk'
                have hkk : k' ≠ k := by simpa using hne
                have := h gi rfl q (hsub q List.mem_cons_self) hc.1 k' hqp hkk
                exact aerase_of_not_mem k' m (not_mem_akeys_of_aget_none k' m this)
            · rfl
          · rfl
        rw [hstep]
        exact ih (fun x hx => hsub x (List.mem_cons_of_mem _ hx))
    exact this props (fun _ h => h)

/-- `Message.Set` of a stored value at a one-element path, when no other member of the proto
oneof is set -/
theorem updPath_store (props : List PropDef) (p : PropDef) (k : Nat) (v : PVal) (m : Fields)
    (hp : p.path = [k]) (h : OthersUnset props p.group k m)
    (hz : (p.pres == .imp && v.isZero) = false) (hec : v.isEmptyColl = false) :
    updPath props p (some v) m = aset k v m := by
  rw [updPath_single props p k v m hp, clearGroup_id props p.group k m h,
    setLeaf_store _ _ _ _ hz hec]

/-! ## lists -/

theorem flatMap_nodup_unique {α β : Type} (f : α → List β) :
    ∀ (l : List α), (l.flatMap f).Nodup → ∀ a ∈ l, ∀ b ∈ l, ∀ x, x ∈ f a → x ∈ f b → a = b := by
  intro l
  induction l with
  | nil => intro _ a ha; cases ha
  | cons c t ih =>
    intro hnd a ha b hb x hxa hxb
    rw [List.flatMap_cons, List.nodup_append] at hnd
    obtain ⟨_, htn, hdis⟩ := hnd
    rcases List.mem_cons.mp ha with rfl | ha'
    · rcases List.mem_cons.mp hb with rfl | hb'
      · rfl
      · exact absurd rfl (hdis x hxa x (List.mem_flatMap.mpr ⟨b, hb', hxb⟩))
    · rcases List.mem_cons.mp hb with rfl | hb'
      · exact absurd rfl (hdis x hxb x (List.mem_flatMap.mpr ⟨a, ha', hxa⟩))
      · exact ih htn a ha' b hb' x hxa hxb

theorem length_le_one_cases {α : Type} (l : List α) (h : l.length ≤ 1) : l = [] ∨ ∃ a, l = [a] := by
  cases l with
  | nil => exact Or.inl rfl
  | cons a t =>
    cases t with
    | nil => exact Or.inr ⟨a, rfl⟩
    | cons b r => simp at h

/-! ## properties and their keys -/

theorem propSimple_path (p : PropDef) (h : propSimple p = true) : ∃ k, p.path = [k] := by
  simp only [propSimple, Bool.and_eq_true, beq_iff_eq] at h
  cases hp : p.path with
  | nil => simp [hp] at h
  | cons k t =>
    cases t with
    | nil => exact ⟨k, rfl⟩
    | cons k2 t2 => simp [hp] at h

theorem propSimple_field (p : PropDef) (h : propSimple p = true) : fieldSimple p.field = true := by
  simp only [propSimple, Bool.and_eq_true] at h; exact h.2

theorem optionByNumber_mem (opts : List (Bytes × Int)) (n : Int) (name : Bytes)
    (h : optionByNumber opts n = some name) : ∃ o ∈ opts, o.1 = name := by
  unfold optionByNumber at h
  cases hf : opts.find? (fun o => o.2 == n) with
  | none => simp [hf] at h
  | some o =>
    simp only [hf, Option.map_some, Option.some.injEq] at h
    exact ⟨o, List.mem_of_find?_eq_some hf, h⟩

theorem exposedOps_eq (env : Env) (p : PropDef) (ref : String) (ops : List PropDef)
    (hp : p.path = []) (hf : p.field = .oneof ref) (hfind : env.find ref = some (.oneof ops)) :
    exposedOps env p = ops := by
  unfold exposedOps; rw [hp, hf]; simp only [hfind]

theorem exposedOps_nonempty_path (env : Env) (p : PropDef) (h : p.path ≠ []) :
    exposedOps env p = [] := by
  unfold exposedOps
  split
  · next hp _ => exact absurd hp h
  · rfl

/-- the owner of a leaf key is one of the properties, and the key is among its keys -/
theorem leafProp_inv (env : Env) (props : List PropDef) (k : Nat) (q : PropDef)
    (h : leafProp env props k = some q) :
    (q ∈ props ∧ q.path = [k]) ∨
    (∃ p ∈ props, q ∈ exposedOps env p ∧ q.path = [k]) := by
  unfold leafProp at h
  split at h
  · next p hf =>
    cases h
    exact Or.inl ⟨List.mem_of_find?_eq_some hf, by simpa using List.find?_some hf⟩
  · obtain ⟨p, hp, hq⟩ := List.exists_of_findSome?_eq_some h
    exact Or.inr ⟨p, hp, List.mem_of_find?_eq_some hq, by simpa using List.find?_some hq⟩

theorem leafProp_simple (env : Env) (props : List PropDef) (k : Nat) (q : PropDef)
    (hs : ∀ p ∈ props, propSimple p = true) (h : leafProp env props k = some q) :
    q ∈ props ∧ q.path = [k] := by
  rcases leafProp_inv env props k q h with h | ⟨p, hp, hq, _⟩
  · exact h
  · obtain ⟨k', hk'⟩ := propSimple_path p (hs p hp)
    rw [exposedOps_nonempty_path env p (by rw [hk']; simp)] at hq
    cases hq

end J5V.Codec

namespace J5V.Codec
open J5V.Go J5V.Json

/-! ## the oneof body -/

/-- what `encodeOneofBody` writes for the members `ops` over message `fs` -/
inductive OneShape (c : Cfg) (ops : List PropDef) (fs : Fields) : Outcome PTree → Prop
  | empty : ops.filter (isSet fs) = [] → OneShape c ops fs (.ok (.obj (.nil .closed)))
  | one (q : PropDef) (k : Nat) (v : PVal) (tlit nlit qlit : Bytes) (tv : PTree) :
      ops.filter (isSet fs) = [q] → q ∈ ops → q.path = [k] → aget k fs = some v →
      Dec c q.field v tv → (OracleWire c.O → Wire.Conforms c.env c.O q.field v tv) →
      (q.pres == .imp && v.isZero) = false → v.isEmptyColl = false →
      OneShape c ops fs
        (.ok (.obj (.cons typeKey tlit (.str q.jsonName nlit) (.cons q.jsonName qlit tv (.nil .closed)))))

theorem isSet_single (fs : Fields) (q : PropDef) (k : Nat) (hq : q.path = [k]) :
    isSet fs q = (aget k fs).isSome := by
  unfold isSet; rw [hq]; rfl

theorem oneof_root_facts (ops : List PropDef) (h : rootSimple (.oneof ops) = true) :
    (∀ p ∈ ops, propSimple p = true) ∧ (ops.map (·.jsonName)).Nodup ∧ (ops.map (·.path)).Nodup ∧
    (∀ p ∈ ops, p.jsonName ≠ ascii "!type") := by
  simp only [rootSimple, Bool.and_eq_true, decide_eq_true_eq, Bool.not_eq_true'] at h
  obtain ⟨⟨⟨hall, hnames⟩, hpaths⟩, hnotype⟩ := h
  refine ⟨fun p hp => List.all_eq_true.mp hall p hp, hnames, hpaths, ?_⟩
  intro p hp e
  have : typeKeyBytes ∈ ops.map (·.jsonName) := by
    rw [typeKeyBytes, ← e]; exact List.mem_map.mpr ⟨p, hp, rfl⟩
  have hc : (ops.map (·.jsonName)).contains typeKeyBytes = true := by simpa using this
  rw [hnotype] at hc; cases hc

/-- members of a oneof other than the one that is set are unset -/
theorem filter_one_others (ops : List PropDef) (fs : Fields) (q : PropDef) (k : Nat)
    (hf : ops.filter (isSet fs) = [q]) (hqk : q.path = [k]) :
    ∀ q' ∈ ops, ∀ k', q'.path = [k'] → k' ≠ k → aget k' fs = none := by
  intro q' hq' k' hk' hne
  cases hg : aget k' fs with
  | none => rfl
  | some v' =>
    have : q' ∈ ops.filter (isSet fs) := by
      apply List.mem_filter.mpr
      exact ⟨hq', by rw [isSet_single fs q' k' hk', hg]; rfl⟩
    rw [hf] at this
    simp only [List.mem_singleton] at this
    subst this
    rw [hqk] at hk'; cases hk'; exact absurd rfl hne

theorem filter_nil_unset (ops : List PropDef) (fs : Fields) (hf : ops.filter (isSet fs) = []) :
    ∀ q ∈ ops, ∀ k, q.path = [k] → aget k fs = none := by
  intro q hq k hk
  have := (List.filter_eq_nil_iff.mp hf) q hq
  rw [isSet_single fs q k hk] at this
  cases hg : aget k fs with
  | none => rfl
  | some v => simp [hg] at this

/-- the decoder reads the one-member oneof body back: into any message that holds neither the
member nor any other member of the oneof -/
theorem decOneof_one (c : Cfg) (ops : List PropDef) (hroot : rootSimple (.oneof ops) = true)
    (q : PropDef) (k : Nat) (v : PVal) (tlit nlit qlit : Bytes) (tv : PTree) (m : Fields)
    (hq : q ∈ ops) (hqk : q.path = [k]) (hdec : Dec c q.field v tv)
    (hz : (q.pres == .imp && v.isZero) = false) (hec : v.isEmptyColl = false)
    (hk : aget k m = none)
    (hothers : ∀ q' ∈ ops, ∀ k', q'.path = [k'] → k' ≠ k → aget k' m = none) :
    decOneofMembers c ops
        (.cons typeKey tlit (.str q.jsonName nlit) (.cons q.jsonName qlit tv (.nil .closed)))
        { m := m, seen := [] } [] none =
      .ok ({ m := aset k v m, seen := [q.jsonName] }, [q.jsonName], some q.jsonName, .closed) ∧
    oneofPost ops [q.jsonName] (some q.jsonName) (aset k v m) = .ok none := by
  obtain ⟨_, hnames, _, hnotype⟩ := oneof_root_facts ops hroot
  have hou : OthersUnset ops q.group k m := fun _ _ q' hq' _ k' hk' hne => hothers q' hq' k' hk' hne
  have hstep := hdec.prop ops q { m := m, seen := [] } rfl (by rw [hqk]; simp) (by simp)
    (by rw [hqk]; exact hk) (groupBusy_single_false ops q k m hqk hou)
  simp only [] at hstep
  rw [updPath_store ops q k v m hqk hou hz hec] at hstep
  constructor
  · simp [decOneofMembers, typeKey, hnotype q hq, findProp_self ops hnames q hq, hstep]
  · simp [oneofPost]

end J5V.Codec
