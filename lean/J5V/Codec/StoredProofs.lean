import J5V.Codec.ExactProofs
import J5V.Codec.RoundtripProofs
import J5V.Codec.RoundtripFlat
/-!
# C03: a successfully decoded document stored exactly what it says (`StoredRoot`)

`decRootTree c root t = .ok m → StoredRoot c root m t` for environments whose property sets
address unrelated leaves (`Env.apart`: every proto path non-empty — no exposed oneofs — and no
path a prefix of another; flattened objects, anonymous proto oneofs, wrapper oneofs, arrays, maps,
enums, `Any` are all allowed).

Organisation: `createField_inv` / `storedAt_of_upd` / `fresh_step` (one member), persistence of a
stored leaf through the rest of a member loop (`member_persists`, `oneof_persists`,
`map_persists`), then one mutual well-founded recursion on the document following the decoder's
own recursion (`stored_prop`, `stored_members`, `stored_oneof`, `elem_step`, `stored_elems`,
`mapv_step`, `stored_map`, `stored_object`, `stored_oneofv`).
-/
namespace J5V.Codec
open J5V.Go J5V.Json

/-- the properties of an object address unrelated leaves: an exposed oneof (empty path) is a oneof
root whose members have one-element paths, unrelated among themselves; the leaves of different
properties (`leavesOf`: the own path, or the members of the exposed oneof) are unrelated -/
structure ApartX (env : Env) (props : List PropDef) : Prop where
  exposed : ∀ p ∈ props, p.path = [] → ∃ ref ops, p.field = .oneof ref ∧
    env.find ref = some (.oneof ops) ∧ (∀ q ∈ ops, ∃ k, q.path = [k]) ∧ PathsApart ops
  apart : ∀ p ∈ props, ∀ p' ∈ props, p.jsonName ≠ p'.jsonName →
    ∀ q ∈ leavesOf env p, ∀ q' ∈ leavesOf env p', ¬ q.path <+: q'.path

/-- every named root of the environment addresses unrelated leaves with its properties -/
def Env.apart (env : Env) : Prop :=
  ∀ name props, (env.find name = some (.object props) → ApartX env props) ∧
    (env.find name = some (.oneof props) → PathsApart props)

/-- properties of an object not yet met have all their leaves unset -/
def FreshX (env : Env) (props : List PropDef) (st : PS) : Prop :=
  ∀ p ∈ props, p.jsonName ∉ st.seen → ∀ q ∈ leavesOf env p, getPath st.m q.path = none

theorem freshX_empty (env : Env) (props : List PropDef) : FreshX env props { m := [], seen := [] } :=
  fun _ _ _ q _ => getPath_nil' q.path

theorem leavesOf_ne (env : Env) (p : PropDef) (h : p.path ≠ []) : leavesOf env p = [p] := by
  unfold leavesOf; rw [if_neg h]

theorem leavesOf_exposed (env : Env) (p : PropDef) (ref : String) (ops : List PropDef)
    (h : p.path = []) (hf : p.field = .oneof ref) (hfind : env.find ref = some (.oneof ops)) :
    leavesOf env p = ops := by
  unfold leavesOf exposedOps; rw [if_pos h, h, hf]; simp [hfind]

theorem leaf_ne (env : Env) (props : List PropDef) (hA : ApartX env props) (p : PropDef)
    (hp : p ∈ props) (q : PropDef) (hq : q ∈ leavesOf env p) : q.path ≠ [] := by
  by_cases h : p.path = []
  · obtain ⟨ref, ops, hf, hfind, hsingle, _⟩ := hA.exposed p hp h
    rw [leavesOf_exposed env p ref ops h hf hfind] at hq
    obtain ⟨k, hk⟩ := hsingle q hq
    rw [hk]; simp
  · rw [leavesOf_ne env p h] at hq
    simp only [List.mem_singleton] at hq
    rw [hq]; exact h

/-- properties not yet met in this property set are unset -/
def Fresh (props : List PropDef) (st : PS) : Prop :=
  ∀ q ∈ props, q.jsonName ∉ st.seen → getPath st.m q.path = none

theorem fresh_empty (props : List PropDef) : Fresh props { m := [], seen := [] } :=
  fun q _ _ => getPath_nil' q.path

theorem createField_inv (props : List PropDef) (p : PropDef) (st st1 : PS)
    (h : createField props p st = .ok st1) :
    st1 = { m := st.m, seen := p.jsonName :: st.seen } ∧ p.jsonName ∉ st.seen ∧
      groupBusy props p st.m = false := by
  unfold createField at h
  split at h
  · cases h
  · next hns =>
    split at h
    · cases h
    · next hgb =>
      cases h
      refine ⟨rfl, ?_, by simpa using hgb⟩
      intro hmem
      exact hns (List.contains_iff_mem.mpr hmem)

theorem last_of_ne (path : List Nat) (h : path ≠ []) : ∃ kl, path.getLast? = some kl :=
  ⟨path.getLast h, List.getLast?_eq_some_getLast h⟩

theorem isEmpty_false_of_ne (path : List Nat) (h : path ≠ []) : path.isEmpty = false := by
  cases path with
  | nil => exact absurd rfl h
  | cons a b => rfl

/-- after `Message.Set` at the path of a property whose proto-oneof siblings are unset, the value
is there (or it is one protobuf does not keep) -/
theorem storedAt_of_upd (props : List PropDef) (p : PropDef) (vv : PVal) (m : Fields)
    (hne : p.path ≠ []) (hgb : groupBusy props p m = false) :
    storedAt (updPath props p (some vv) m) p vv := by
  obtain ⟨kl, hkl⟩ := last_of_ne p.path hne
  have hsib := siblingsUnset_of_not_busy props p kl m hkl hgb
  unfold storedAt
  cases he : ((p.pres == .imp && vv.isZero) || vv.isEmptyColl) with
  | false =>
    left
    simp only [Bool.or_eq_false_iff] at he
    exact getPath_go_self props p vv kl hkl he.1 he.2 p.path [] m rfl hne
  | true =>
    right
    exact ⟨rfl, getPath_go_erased props p vv kl hkl he p.path [] m rfl hne hsib⟩

theorem storedAt_congr (fs fs' : Fields) (p : PropDef) (vv : PVal)
    (h : getPath fs' p.path = getPath fs p.path) (hs : storedAt fs p vv) : storedAt fs' p vv := by
  unfold storedAt at hs ⊢; rw [h]; exact hs

/-- one member keeps the unseen properties unset -/
theorem fresh_step (c : Cfg) (props : List PropDef) (hpa : PathsApart props) (p : PropDef)
    (hp : p ∈ props) (t : PTree) (st st1 : PS) (h : decProp c props p t st = .ok st1)
    (hf : Fresh props st) : Fresh props st1 := by
  intro q hq hqs
  rcases decProp_shape c props p t st st1 h with ⟨_, rfl⟩ | ⟨_, hgb, hseen, hm⟩
  · exact hf q hq hqs
  · have hpne := hpa.1 p hp
    obtain ⟨X, hX⟩ := hm hpne
    rw [hseen] at hqs
    have hnn : q.jsonName ≠ p.jsonName := fun e => hqs (by rw [e]; exact List.mem_cons_self)
    have hqs' : q.jsonName ∉ st.seen := fun hmem => hqs (List.mem_cons_of_mem _ hmem)
    obtain ⟨kl, hkl⟩ := last_of_ne p.path hpne
    rw [hX, getPath_updPath_frame props p X kl hkl st.m q.path hpne (hpa.1 q hq)
      (hpa.2 p hp q hq (fun e => hnn e.symm)) (hpa.2 q hq p hp hnn)
      (siblingsUnset_of_not_busy props p kl st.m hkl hgb)]
    exact hf q hq hqs'

/-- one member leaves the leaf of a property already met alone -/
theorem persists_step (c : Cfg) (props : List PropDef) (hpa : PathsApart props) (p q : PropDef)
    (hp : p ∈ props) (hq : q ∈ props) (t : PTree) (st st1 : PS)
    (h : decProp c props q t st = .ok st1) (hseen : p.jsonName ∈ st.seen) :
    getPath st1.m p.path = getPath st.m p.path := by
  rcases decProp_shape c props q t st st1 h with ⟨_, rfl⟩ | ⟨hfresh, hgb, _, hm⟩
  · rfl
  · have hqne := hpa.1 q hq
    obtain ⟨X, hX⟩ := hm hqne
    have hnn : q.jsonName ≠ p.jsonName := fun e => hfresh (e ▸ hseen)
    obtain ⟨kl, hkl⟩ := last_of_ne q.path hqne
    rw [hX]
    exact getPath_updPath_frame props q X kl hkl st.m p.path hqne (hpa.1 p hp)
      (hpa.2 q hq p hp hnn) (hpa.2 p hp q hq (fun e => hnn e.symm))
      (siblingsUnset_of_not_busy props q kl st.m hkl hgb)

/-- once an arm is set, the rest of the oneof's member loop leaves its leaf alone -/
theorem oneof_persists (c : Cfg) (ops : List PropDef) (hpa : PathsApart ops) (p : PropDef)
    (hp : p ∈ ops) :
    ∀ (ms : PMembers) (st st' : PS) (found found' : List Bytes) (ct ct' : Option Bytes) (term : Term),
      decOneofMembers c ops ms st found ct = .ok (st', found', ct', term) → p.jsonName ∈ st.seen →
      getPath st'.m p.path = getPath st.m p.path
  | .nil t, st, st', found, found', ct, ct', term, h, _ => by
    unfold decOneofMembers at h; cases h; rfl
  | .cons k kr v rest, st, st', found, found', ct, ct', term, h, hseen => by
    unfold decOneofMembers at h
    split at h
    · split at h
      · exact oneof_persists c ops hpa p hp rest st st' found found' _ ct' term h hseen
      · cases h
    · cases hf : findProp ops k with
      | none => rw [hf] at h; cases h
      | some q =>
        rw [hf] at h
        simp only [] at h
        cases hd : decProp c ops q v st with
        | err e => rw [hd] at h; cases h
        | panic w => rw [hd] at h; cases h
        | ok st1 =>
          rw [hd] at h
          simp only [] at h
          have hq := findProp_mem ops k q hf
          have hmono := (decProp_seen c ops q v st st1 hd).1 p.jsonName hseen
          rw [oneof_persists c ops hpa p hp rest st1 st' _ found' ct ct' term h hmono]
          exact persists_step c ops hpa p q hp hq v st st1 hd hseen
termination_by ms => sizeOf ms

theorem mget_mset_ne {α : Type} (k k' : Bytes) (v : α) (acc : List (Bytes × α)) (hne : k ≠ k') :
    mget k (mset k' v acc) = mget k acc := by
  induction acc with
  | nil => simp [mset, mget, hne]
  | cons kv t ih =>
    obtain ⟨k2, v2⟩ := kv
    simp only [mset]
    split
    · next h2 => subst h2; simp [mget, hne]
    · simp only [mget, ih]

theorem mget_mset_self {α : Type} (k : Bytes) (v : α) (acc : List (Bytes × α)) :
    mget k (mset k v acc) = some v := by
  induction acc with
  | nil => simp [mset, mget]
  | cons kv t ih =>
    obtain ⟨k2, v2⟩ := kv
    simp only [mset]
    split
    · simp [mget]
    · next h2 => simp [mget, h2, ih]

theorem bind_ok_inv {α β : Type} (x : Outcome α) (f : α → Outcome β) (b : β)
    (h : x.bind f = .ok b) : ∃ a, x = .ok a ∧ f a = .ok b := by
  cases x with
  | ok a => exact ⟨a, rfl, h⟩
  | err e => simp [Outcome.bind] at h
  | panic w => simp [Outcome.bind] at h

theorem finishObject_inv (r : Outcome (PS × Term)) (fs : Fields) (h : finishObject r = .ok fs) :
    ∃ st term, r = .ok (st, term) ∧ fs = st.m := by
  unfold finishObject at h
  split at h
  · next st term =>
    split at h
    · cases h; exact ⟨st, term, rfl, rfl⟩
    · cases h
  · cases h
  · cases h

theorem finishOneof_inv (ops : List PropDef) (r : Outcome (PS × List Bytes × Option Bytes × Term))
    (fs : Fields) (h : finishOneof ops r = .ok fs) :
    ∃ st found ct term tp, r = .ok (st, found, ct, term) ∧ oneofPost ops found ct st.m = .ok tp ∧
      fs = applyPost ops tp st.m := by
  unfold finishOneof at h
  split at h
  · next st found ct term =>
    split at h
    · cases h
    · split at h
      · next tp hpost =>
        split at h
        · cases h; exact ⟨st, found, ct, term, tp, rfl, hpost, rfl⟩
        · cases h
      · cases h
      · cases h
  · cases h
  · cases h

theorem oneofPost_some (ops : List PropDef) (found : List Bytes) (ct : Option Bytes) (m : Fields)
    (q : PropDef) (h : oneofPost ops found ct m = .ok (some q)) : found = [] := by
  unfold oneofPost at h
  split at h
  · rfl
  · split at h
    · split at h
      · cases h
      · cases h
    · cases h
  · cases h

/-- what the decoder did with one array element / map value -/
def ItemDec (c : Cfg) (item : Field) (v : PTree) (pv : PVal) : Prop :=
  match item with
  | .scalar k => ∃ tok, goTok v = some tok ∧ decodeScalar c.O k tok = .ok (some pv)
  | .enum ref => ∃ s raw pfx opts n, v = .str s raw ∧ c.env.find ref = some (.enum pfx opts) ∧
      enumOptionByName pfx opts s = some n ∧ pv = .enum n
  | .object ref => ∃ sub fs, c.env.find ref = some (.object sub) ∧ decObject c sub v = .ok fs ∧
      pv = .msg fs
  | .oneof ref => ∃ ops fs, c.env.find ref = some (.oneof ops) ∧ decOneof c ops v = .ok fs ∧
      pv = .msg fs
  | _ => False

theorem elem_step_inv (c : Cfg) (item : Field) (v : PTree) (rest : PElems) (acc : List PVal)
    (r : List PVal × Term) (h : decElems c item (.cons v rest) acc = .ok r) :
    ∃ pv, ItemDec c item v pv ∧ decElems c item rest (acc ++ [pv]) = .ok r := by
  unfold decElems at h
  cases item with
  | scalar k =>
    simp only [] at h
    split at h
    · cases h
    · next tok htok =>
      split at h
      · next pv hd => exact ⟨pv, ⟨tok, htok, hd⟩, h⟩
      · cases h
      · cases h
      · cases h
  | «enum» ref =>
    simp only [] at h
    split at h
    · next _ _ s raw pfx opts hfind =>
      split at h
      · next n hn => exact ⟨.enum n, ⟨s, raw, pfx, opts, n, rfl, hfind, hn, rfl⟩, h⟩
      · cases h
    · cases h
  | object ref =>
    simp only [] at h
    split at h
    · next sub hfind =>
      split at h
      · next fs hd => exact ⟨.msg fs, ⟨sub, fs, hfind, hd, rfl⟩, h⟩
      · cases h
      · cases h
    · cases h
  | oneof ref =>
    simp only [] at h
    split at h
    · next ops hfind =>
      split at h
      · next fs hd => exact ⟨.msg fs, ⟨ops, fs, hfind, hd, rfl⟩, h⟩
      · cases h
      · cases h
    · cases h
  | any pb => cases h
  | array i => cases h
  | map i => cases h

theorem map_step_inv (c : Cfg) (item : Field) (k kr : Bytes) (v : PTree) (rest : PMembers)
    (acc : List (Bytes × PVal)) (r : List (Bytes × PVal) × Term)
    (h : decMapMembers c item (.cons k kr v rest) acc = .ok r) :
    mget k acc = none ∧ ∃ pv, ItemDec c item v pv ∧ decMapMembers c item rest (mset k pv acc) = .ok r := by
  unfold decMapMembers at h
  cases item with
  | scalar sk =>
    simp only [] at h
    split at h
    · cases h
    · next tok htok =>
      split at h
      · next pv hd =>
        split at h
        · cases h
        · next hk => exact ⟨by simpa using hk, pv, ⟨tok, htok, hd⟩, h⟩
      · cases h
      · cases h
      · cases h
  | «enum» ref =>
    simp only [] at h
    split at h
    · next _ _ s raw pfx opts hfind =>
      split at h
      · next n hn =>
        split at h
        · cases h
        · next hk => exact ⟨by simpa using hk, .enum n, ⟨s, raw, pfx, opts, n, rfl, hfind, hn, rfl⟩, h⟩
      · cases h
    · cases h
  | object ref =>
    simp only [] at h
    split at h
    · cases h
    · next hk =>
      split at h
      · next sub hfind =>
        split at h
        · next fs hd => exact ⟨by simpa using hk, .msg fs, ⟨sub, fs, hfind, hd, rfl⟩, h⟩
        · cases h
        · cases h
      · cases h
  | oneof ref =>
    simp only [] at h
    split at h
    · cases h
    · next hk =>
      split at h
      · next ops hfind =>
        split at h
        · next fs hd => exact ⟨by simpa using hk, .msg fs, ⟨ops, fs, hfind, hd, rfl⟩, h⟩
        · cases h
        · cases h
      · cases h
  | any pb => cases h
  | array i => cases h
  | map i => cases h

/-- a key once in the map keeps its value through the rest of the member loop -/
theorem map_persists (c : Cfg) (item : Field) (k0 : Bytes) (v0 : PVal) :
    ∀ (ms : PMembers) (acc l : List (Bytes × PVal)) (term : Term),
      decMapMembers c item ms acc = .ok (l, term) → mget k0 acc = some v0 → mget k0 l = some v0
  | .nil t, acc, l, term, h, hk => by
    unfold decMapMembers at h
    split at h
    · cases h
    · cases h; exact hk
  | .cons k kr v rest, acc, l, term, h, hk => by
    obtain ⟨hnone, pv, _, hrest⟩ := map_step_inv c item k kr v rest acc _ h
    have hne : k0 ≠ k := by
      intro e; rw [e, hnone] at hk; cases hk
    exact map_persists c item k0 v0 rest _ l term hrest (by rw [mget_mset_ne k0 k pv acc hne]; exact hk)
termination_by ms => sizeOf ms

/-! ## exposed oneofs: the whole oneof decode leaves foreign leaves alone -/

/-- the member loop of a oneof leaves every path unrelated to its members' paths alone -/
theorem oneof_frame (c : Cfg) (ops : List PropDef) (hpa : PathsApart ops) (x : List Nat)
    (hx : x ≠ []) (hap : ∀ q ∈ ops, ¬ q.path <+: x ∧ ¬ x <+: q.path) :
    ∀ (ms : PMembers) (st st' : PS) (found found' : List Bytes) (ct ct' : Option Bytes) (term : Term),
      decOneofMembers c ops ms st found ct = .ok (st', found', ct', term) →
      getPath st'.m x = getPath st.m x
  | .nil t, st, st', found, found', ct, ct', term, h => by
    unfold decOneofMembers at h; cases h; rfl
  | .cons k kr v rest, st, st', found, found', ct, ct', term, h => by
    unfold decOneofMembers at h
    split at h
    · split at h
      · exact oneof_frame c ops hpa x hx hap rest st st' found found' _ ct' term h
      · cases h
    · cases hf : findProp ops k with
      | none => rw [hf] at h; cases h
      | some q =>
        rw [hf] at h
        simp only [] at h
        cases hd : decProp c ops q v st with
        | err e => rw [hd] at h; cases h
        | panic w => rw [hd] at h; cases h
        | ok st1 =>
          rw [hd] at h
          simp only [] at h
          have hq := findProp_mem ops k q hf
          rw [oneof_frame c ops hpa x hx hap rest st1 st' _ found' ct ct' term h]
          rcases decProp_shape c ops q v st st1 hd with ⟨_, rfl⟩ | ⟨_, hgb, _, hm⟩
          · rfl
          · have hqne := hpa.1 q hq
            obtain ⟨X, hX⟩ := hm hqne
            obtain ⟨kl, hkl⟩ := last_of_ne q.path hqne
            rw [hX]
            exact getPath_updPath_frame ops q X kl hkl st.m x hqne hx (hap q hq).1 (hap q hq).2
              (siblingsUnset_of_not_busy ops q kl st.m hkl hgb)
termination_by ms => sizeOf ms

/-- a oneof body without arm members does not touch the message -/
theorem oneof_all_type (c : Cfg) (ops : List PropDef) :
    ∀ (ms : PMembers) (st st' : PS) (found found' : List Bytes) (ct ct' : Option Bytes) (term : Term),
      decOneofMembers c ops ms st found ct = .ok (st', found', ct', term) → oneofKeys ms = [] →
      st' = st
  | .nil t, st, st', found, found', ct, ct', term, h, _ => by
    unfold decOneofMembers at h; cases h; rfl
  | .cons k kr v rest, st, st', found, found', ct, ct', term, h, hk => by
    unfold decOneofMembers at h
    simp only [oneofKeys] at hk
    split at h
    · next hkt =>
      rw [if_pos hkt] at hk
      split at h
      · exact oneof_all_type c ops rest st st' found found' _ ct' term h hk
      · cases h
    · next hkt => rw [if_neg hkt] at hk; cases hk
termination_by ms => sizeOf ms

/-- `oneof.NewValue` for a member with a one-element path leaves foreign fields alone (the other
members of the oneof being unset) -/
theorem touch_frame (ops : List PropDef) (q : PropDef) (k : Nat) (hq : q.path = [k]) (m : Fields)
    (hsib : SiblingsUnset ops q k m) (k' : Nat) (xs : List Nat) (hne : k' ≠ k) :
    getPath (touchProp ops q m) (k' :: xs) = getPath m (k' :: xs) := by
  have hcg : clearGroup ops [] q.group k m = m := by
    have := clearGroup_id_at ops q k m hsib
    rw [hq] at this; simpa using this
  unfold touchProp
  rw [hq]
  unfold touchProp.go
  cases hf : q.field <;> simp only [hcg]
  all_goals first
    | rfl
    | (apply getPath_head_congr; rw [aget_setLeaf_ne _ _ _ _ _ hne])
    | (split
       · rfl
       · apply getPath_head_congr; rw [aget_setLeaf_ne _ _ _ _ _ hne])

theorem decProp_null_id (c : Cfg) (props : List PropDef) (p : PropDef) (st st1 : PS)
    (h : decProp c props p .null st = .ok st1) : st1 = st := by
  cases hf : p.field <;> simp [decProp, hf, decScalarProp, decEnumProp] at h <;> exact h.symm

theorem oneofPost_some_mem (ops : List PropDef) (found : List Bytes) (ct : Option Bytes) (m : Fields)
    (q : PropDef) (h : oneofPost ops found ct m = .ok (some q)) : q ∈ ops := by
  unfold oneofPost at h
  split at h
  · split at h
    · cases h
    · next name =>
      split at h
      · cases h
      · next p hfp =>
        split at h
        · cases h
        · cases h
        · split at h
          · cases h
          · cases h; exact findProp_mem ops name _ hfp
  · split at h
    · split at h <;> cases h
    · cases h
  · cases h

/-- what `decodeValue` does for an exposed oneof (empty path): the oneof is decoded over the same
message -/
theorem exposed_inv (c : Cfg) (props : List PropDef) (p : PropDef) (ref : String)
    (ops : List PropDef) (hpe : p.path = []) (hf : p.field = .oneof ref)
    (hfind : c.env.find ref = some (.oneof ops)) (v : PTree) (st st1 : PS)
    (h : decProp c props p v st = .ok st1) (hnn : v ≠ .null) :
    ∃ ms r found ct term tp, v = .obj ms ∧ p.jsonName ∉ st.seen ∧
      decOneofMembers c ops ms { m := st.m, seen := [] } [] none = .ok (r, found, ct, term) ∧
      oneofPost ops found ct r.m = .ok tp ∧
      st1 = { m := applyPost ops tp r.m, seen := p.jsonName :: st.seen } := by
  unfold decProp at h; rw [hf] at h
  cases v with
  | null => exact absurd rfl hnn
  | obj ms =>
    simp only [] at h
    obtain ⟨st1', hcf, h⟩ := bind_ok_inv _ _ _ h
    obtain ⟨rfl, hns, _⟩ := createField_inv props p st st1' hcf
    simp only [hfind] at h
    have hstart : oneofStart p { m := st.m, seen := p.jsonName :: st.seen } =
        { m := st.m, seen := [] } := by
      unfold oneofStart; simp [hpe]
    rw [hstart] at h
    unfold finishOneofProp at h
    obtain ⟨⟨r, found, ct, term⟩, hr, h⟩ := bind_ok_inv _ _ _ h
    simp only [] at h
    split at h
    · cases h
    · obtain ⟨tp, hpost, h⟩ := bind_ok_inv _ _ _ h
      split at h
      · simp only [hpe, List.isEmpty_nil, if_true] at h
        cases h
        exact ⟨ms, r, found, ct, term, tp, rfl, hns, hr, hpost, rfl⟩
      · cases h
  | str a b => simp only [] at h; cases h
  | num a => simp only [] at h; cases h
  | bool a => simp only [] at h; cases h
  | arr a => simp only [] at h; cases h
  | bad => simp only [] at h; cases h
  | raw a => simp only [] at h; cases h

theorem prefix_singleton_cons (k : Nat) (xs : List Nat) : [k] <+: k :: xs := ⟨xs, rfl⟩

/-- one member of an object leaves every leaf unrelated to the member's own leaves alone -/
theorem prop_frame (c : Cfg) (props : List PropDef) (hA : ApartX c.env props) (p : PropDef)
    (hp : p ∈ props) (v : PTree) (st st1 : PS) (h : decProp c props p v st = .ok st1)
    (hfr : FreshX c.env props st) (x : List Nat) (hx : x ≠ [])
    (hap : ∀ q ∈ leavesOf c.env p, ¬ q.path <+: x ∧ ¬ x <+: q.path) :
    getPath st1.m x = getPath st.m x := by
  by_cases hnull : v = .null
  · subst hnull; rw [decProp_null_id c props p st st1 h]
  by_cases hpe : p.path = []
  · obtain ⟨ref, ops, hf, hfind, hsingle, hpaops⟩ := hA.exposed p hp hpe
    have hl := leavesOf_exposed c.env p ref ops hpe hf hfind
    rw [hl] at hap
    obtain ⟨ms, r, found, ct, term, tp, _, hns, hr, hpost, rfl⟩ :=
      exposed_inv c props p ref ops hpe hf hfind v st st1 h hnull
    have hfrm := oneof_frame c ops hpaops x hx hap ms _ r [] found none ct term hr
    simp only [] at hfrm ⊢
    cases tp with
    | none => exact hfrm
    | some q0 =>
      simp only [applyPost]
      have hq0 := oneofPost_some_mem ops found ct r.m q0 hpost
      have hfe := oneofPost_some ops found ct r.m q0 hpost
      have hfk := (decOneofMembers_found c ops ms _ [] none r found ct term hr).1
      have hkeys : oneofKeys ms = [] := by rw [hfe] at hfk; simpa using hfk.symm
      have hreq := oneof_all_type c ops ms _ r [] found none ct term hr hkeys
      obtain ⟨k0, hk0⟩ := hsingle q0 hq0
      cases x with
      | nil => exact absurd rfl hx
      | cons k' xs =>
        have hne : k' ≠ k0 := by
          intro e
          have := (hap q0 hq0).1
          rw [hk0, e] at this
          exact this (prefix_singleton_cons k0 xs)
        rw [hreq]
        simp only []
        apply touch_frame ops q0 k0 hk0 st.m ?_ k' xs hne
        intro gi _ q' hq' _ _ k'' hk'' _
        obtain ⟨kq, hkq⟩ := hsingle q' hq'
        rw [hkq] at hk''
        simp only [List.getLast?_singleton, Option.some.injEq] at hk''
        have := hfr p hp hns q' (by rw [hl]; exact hq')
        rw [hkq, hk''] at this
        simpa [getPath] using this
  · have hl := leavesOf_ne c.env p hpe
    rw [hl] at hap
    rcases decProp_shape c props p v st st1 h with ⟨e, _⟩ | ⟨_, hgb, _, hm⟩
    · exact absurd e hnull
    · obtain ⟨X, hX⟩ := hm hpe
      obtain ⟨kl, hkl⟩ := last_of_ne p.path hpe
      rw [hX]
      exact getPath_updPath_frame props p X kl hkl st.m x hpe hx (hap p (by simp)).1 (hap p (by simp)).2
        (siblingsUnset_of_not_busy props p kl st.m hkl hgb)

/-- one member keeps the unseen properties unset and the leaves of the properties already met -/
theorem step_inv (c : Cfg) (props : List PropDef) (hA : ApartX c.env props) (p : PropDef)
    (hp : p ∈ props) (v : PTree) (st st1 : PS) (h : decProp c props p v st = .ok st1)
    (hfr : FreshX c.env props st) :
    FreshX c.env props st1 ∧
      ∀ p' ∈ props, p'.jsonName ∈ st.seen → ∀ q ∈ leavesOf c.env p',
        getPath st1.m q.path = getPath st.m q.path := by
  by_cases hnull : v = .null
  · subst hnull; rw [decProp_null_id c props p st st1 h]; exact ⟨hfr, fun _ _ _ _ _ => rfl⟩
  have hfresh : p.jsonName ∉ st.seen := by
    rcases decProp_shape c props p v st st1 h with ⟨e, _⟩ | ⟨hf, _⟩
    · exact absurd e hnull
    · exact hf
  have hseen := decProp_seen c props p v st st1 h
  have key : ∀ p' ∈ props, p'.jsonName ≠ p.jsonName → ∀ q' ∈ leavesOf c.env p',
      getPath st1.m q'.path = getPath st.m q'.path := by
    intro p' hp' hne q' hq'
    apply prop_frame c props hA p hp v st st1 h hfr q'.path (leaf_ne c.env props hA p' hp' q' hq')
    intro q hq
    exact ⟨hA.apart p hp p' hp' (fun e => hne e.symm) q hq q' hq', hA.apart p' hp' p hp hne q' hq' q hq⟩
  refine ⟨?_, ?_⟩
  · intro p' hp' hns q' hq'
    have hne : p'.jsonName ≠ p.jsonName := fun e => hns (e ▸ hseen.2 hnull)
    rw [key p' hp' hne q' hq']
    exact hfr p' hp' (fun hm => hns (hseen.1 _ hm)) q' hq'
  · intro p' hp' hs' q' hq'
    exact key p' hp' (fun e => hfresh (e ▸ hs')) q' hq'

/-- the member loop of an object keeps both invariants -/
theorem loop_inv (c : Cfg) (props : List PropDef) (hA : ApartX c.env props) :
    ∀ (ms : PMembers) (st st' : PS) (term : Term),
      decObjMembers c props ms st = .ok (st', term) → FreshX c.env props st →
      FreshX c.env props st' ∧
        ∀ p' ∈ props, p'.jsonName ∈ st.seen → ∀ q ∈ leavesOf c.env p',
          getPath st'.m q.path = getPath st.m q.path
  | .nil t, st, st', term, h, hf => by
    unfold decObjMembers at h
    split at h
    · cases h
    · cases h; exact ⟨hf, fun _ _ _ _ _ => rfl⟩
  | .cons k kr v rest, st, st', term, h, hf => by
    unfold decObjMembers at h
    cases hfp : findProp props k with
    | none => rw [hfp] at h; cases h
    | some p =>
      rw [hfp] at h
      simp only [] at h
      cases hd : decProp c props p v st with
      | err e => rw [hd] at h; cases h
      | panic w => rw [hd] at h; cases h
      | ok st1 =>
        rw [hd] at h
        simp only [] at h
        have hp := findProp_mem props k p hfp
        obtain ⟨hf1, hp1⟩ := step_inv c props hA p hp v st st1 hd hf
        obtain ⟨hf2, hp2⟩ := loop_inv c props hA rest st1 st' term h hf1
        refine ⟨hf2, ?_⟩
        intro p' hp' hs' q hq
        rw [hp2 p' hp' ((decProp_seen c props p v st st1 hd).1 _ hs') q hq]
        exact hp1 p' hp' hs' q hq
termination_by ms => sizeOf ms

theorem storedO_congr (c : Cfg) (ops : List PropDef) (fs fs' : Fields)
    (hc : ∀ q ∈ ops, getPath fs' q.path = getPath fs q.path) :
    ∀ (ms : PMembers), StoredO c ops fs ms → StoredO c ops fs' ms
  | .nil t, _ => by simp only [StoredO]
  | .cons k kr v rest, h => by
    simp only [StoredO] at h ⊢
    refine ⟨?_, storedO_congr c ops fs fs' hc rest h.2⟩
    rcases h.1 with h1 | h1 | ⟨p, vv, hfp, hsv, hst⟩
    · exact Or.inl h1
    · exact Or.inr (Or.inl h1)
    · exact Or.inr (Or.inr ⟨p, vv, hfp, hsv,
        storedAt_congr fs fs' p vv (hc p (findProp_mem ops k p hfp)) hst⟩)

theorem onlyO_congr (ops : List PropDef) (fs fs' : Fields) (ms : PMembers)
    (hc : ∀ q ∈ ops, getPath fs' q.path = getPath fs q.path) (h : OnlyO ops fs ms) :
    OnlyO ops fs' ms := by
  intro hk q hq hset
  rw [hc q hq] at hset
  exact h hk q hq hset

/-- a member whose value is a string / number / literal: scalar and enum properties -/
theorem stored_prop_leaf (c : Cfg) (props : List PropDef) (p : PropDef) (hne : p.path ≠ [])
    (t : PTree) (hl : ∀ ms, t ≠ .obj ms) (ha : ∀ xs, t ≠ .arr xs) (st st' : PS)
    (h : decProp c props p t st = .ok st') (hnn : t ≠ .null) :
    ∃ vv, StoredV c p.field vv t ∧ st'.m = updPath props p (some vv) st.m ∧
      groupBusy props p st.m = false := by
  have hpe := isEmpty_false_of_ne p.path hne
  cases hfld : p.field with
  | scalar k =>
    obtain ⟨vv, hsp, hm, _, _, hgb⟩ := scalar_member_exact c props p k t st st' hfld hnn h
    refine ⟨vv, ?_, hm, hgb⟩
    cases t <;> first
      | exact absurd rfl (hl _)
      | exact absurd rfl (ha _)
      | (simp only [StoredV]; exact hsp)
  | «enum» ref =>
    unfold decProp at h; rw [hfld] at h; simp only [] at h; unfold decEnumProp at h
    cases t with
    | str s raw =>
      simp only [] at h
      obtain ⟨st1, hcf, h⟩ := bind_ok_inv _ _ _ h
      obtain ⟨rfl, _, hgb⟩ := createField_inv props p st st1 hcf
      simp only [hpe, Bool.false_eq_true, if_false] at h
      cases hfind : c.env.find ref with
      | none => simp [hfind] at h
      | some rt =>
        cases rt with
        | «enum» pfx opts =>
          simp only [hfind] at h
          split at h
          · next n hn => cases h; exact ⟨.enum n, by simp [StoredV, hfind, hn], rfl, hgb⟩
          · cases h
        | object ps => simp [hfind] at h
        | oneof ps => simp [hfind] at h
        | noschema => simp [hfind] at h
    | num x =>
      simp only [] at h
      obtain ⟨st1, hcf, h⟩ := bind_ok_inv _ _ _ h
      simp [hpe] at h
    | bool b =>
      simp only [] at h
      obtain ⟨st1, hcf, h⟩ := bind_ok_inv _ _ _ h
      simp [hpe] at h
    | null => exact absurd rfl hnn
    | obj ms => exact absurd rfl (hl _)
    | arr xs => exact absurd rfl (ha _)
    | bad => simp at h
    | raw bs => simp at h
  | object ref =>
    unfold decProp at h; rw [hfld] at h
    cases t <;> first
      | exact absurd rfl hnn
      | exact absurd rfl (hl _)
      | exact absurd rfl (ha _)
      | (simp only [] at h; cases h)
  | oneof ref =>
    unfold decProp at h; rw [hfld] at h
    cases t <;> first
      | exact absurd rfl hnn
      | exact absurd rfl (hl _)
      | exact absurd rfl (ha _)
      | (simp only [] at h; cases h)
  | any pb =>
    unfold decProp at h; rw [hfld] at h
    cases t <;> first
      | exact absurd rfl hnn
      | exact absurd rfl (hl _)
      | exact absurd rfl (ha _)
      | (simp only [] at h; cases h)
  | array item =>
    unfold decProp at h; rw [hfld] at h
    cases t <;> first
      | exact absurd rfl hnn
      | exact absurd rfl (hl _)
      | exact absurd rfl (ha _)
      | (simp only [] at h; cases h)
  | map item =>
    unfold decProp at h; rw [hfld] at h
    cases t <;> first
      | exact absurd rfl hnn
      | exact absurd rfl (hl _)
      | exact absurd rfl (ha _)
      | (simp only [] at h; cases h)

/-- an array element / map value that is a string / number / literal -/
theorem stored_item_leaf (c : Cfg) (item : Field) (v : PTree) (pv : PVal)
    (hl : ∀ ms, v ≠ .obj ms) (ha : ∀ xs, v ≠ .arr xs) (h : ItemDec c item v pv) :
    StoredV c item pv v := by
  cases item with
  | scalar k =>
    obtain ⟨tok, htok, hd⟩ := h
    have hnn : v ≠ .null := by
      intro e; subst e
      simp only [goTok, Option.some.injEq] at htok; subst htok
      exact decodeScalar_null_not_some c.O k pv hd
    have hsp : scalarSpells c.O k pv v := ⟨hnn, tok, htok, hd⟩
    cases v <;> first
      | exact absurd rfl (hl _)
      | exact absurd rfl (ha _)
      | (simp only [StoredV]; exact hsp)
  | «enum» ref =>
    obtain ⟨s, raw, pfx, opts, n, rfl, hfind, hn, rfl⟩ := h
    simp [StoredV, hfind, hn]
  | object ref => obtain ⟨sub, fs, _, hd, _⟩ := h; cases v <;> first | exact absurd rfl (hl _) | simp [decObject] at hd
  | oneof ref => obtain ⟨ops, fs, _, hd, _⟩ := h; cases v <;> first | exact absurd rfl (hl _) | simp [decOneof] at hd
  | any pb => exact absurd h (by simp [ItemDec])
  | array i => exact absurd h (by simp [ItemDec])
  | map i => exact absurd h (by simp [ItemDec])

/-- every name in `s1` was already in `s0` or is the key of a non-null member -/
def SeenFrom (ms : PMembers) (s0 s1 : List Bytes) : Prop :=
  ∀ x ∈ s1, x ∈ s0 ∨ ∃ v, isMember x v ms ∧ v ≠ .null

theorem onlyM_of (env : Env) (props : List PropDef) (st' : PS) (ms : PMembers)
    (hf : FreshX env props st') (hs : SeenFrom ms [] st'.seen) : OnlyM env props st'.m ms := by
  intro p hp ⟨q, hq, hset⟩
  by_cases hmem : p.jsonName ∈ st'.seen
  · rcases hs _ hmem with h | h
    · cases h
    · exact h
  · rw [hf p hp hmem q hq] at hset; cases hset

theorem onlyO_of (ops : List PropDef) (st' : PS) (ms : PMembers) (hf : Fresh ops st')
    (hs : SeenFrom ms [] st'.seen) :
    ∀ q ∈ ops, (getPath st'.m q.path).isSome = true → ∃ v, isMember q.jsonName v ms ∧ v ≠ .null := by
  intro q hq hset
  by_cases hmem : q.jsonName ∈ st'.seen
  · rcases hs _ hmem with h | h
    · cases h
    · exact h
  · rw [hf q hq hmem] at hset; cases hset

/-- what one member adds to `seen` -/
theorem seen_step (c : Cfg) (props : List PropDef) (p : PropDef) (k : Bytes)
    (hfp : findProp props k = some p) (v : PTree) (st st1 : PS)
    (hd : decProp c props p v st = .ok st1) :
    ∀ x ∈ st1.seen, x ∈ st.seen ∨ (x = k ∧ v ≠ .null) := by
  intro x hx
  rcases decProp_shape c props p v st st1 hd with ⟨_, rfl⟩ | ⟨_, _, hseen, _⟩
  · exact Or.inl hx
  · rw [hseen] at hx
    rcases List.mem_cons.mp hx with rfl | hx
    · right
      refine ⟨findProp_name props k p hfp, ?_⟩
      intro hnull
      subst hnull
      have : st1 = st := by
        cases hf : p.field <;> simp [decProp, hf, decScalarProp, decEnumProp] at hd <;> exact hd.symm
      rw [this] at hseen
      exact absurd hseen (by intro e; have := congrArg List.length e; simp at this)
    · exact Or.inl hx

theorem onlyO_final (ops : List PropDef) (ms : PMembers) (r : PS) (found : List Bytes)
    (ct : Option Bytes) (tp : Option PropDef) (hfresh : Fresh ops r) (hs : SeenFrom ms [] r.seen)
    (hfound : found = oneofKeys ms) (hpost : oneofPost ops found ct r.m = .ok tp) :
    OnlyO ops (applyPost ops tp r.m) ms := by
  intro hk q hq hset
  cases tp with
  | none => exact onlyO_of ops r ms hfresh hs q hq hset
  | some q0 =>
    have := oneofPost_some ops found ct r.m q0 hpost
    rw [hfound] at this
    exact absurd this hk

/-- the final message of a oneof (after `oneofPost` / `applyPost`) still holds every arm member -/
theorem storedO_final (c : Cfg) (ops : List PropDef) (ms : PMembers) (r : PS)
    (found : List Bytes) (ct : Option Bytes) (tp : Option PropDef)
    (hso : StoredO c ops r.m ms) (hall : found = [] → ∀ fs, StoredO c ops fs ms)
    (hpost : oneofPost ops found ct r.m = .ok tp) : StoredO c ops (applyPost ops tp r.m) ms := by
  cases tp with
  | none => exact hso
  | some q => exact hall (oneofPost_some ops found ct r.m q hpost) _

mutual
/-- a member whose value is not `null`: what is written at the property's path is a value the
subtree is stored as -/
theorem stored_prop (c : Cfg) (hE : c.env.apart) (props : List PropDef) (p : PropDef)
    (hne : p.path ≠ []) :
    ∀ (t : PTree) (st st' : PS), decProp c props p t st = .ok st' → t ≠ .null →
      getPath st.m p.path = none →
      ∃ vv, StoredV c p.field vv t ∧ st'.m = updPath props p (some vv) st.m ∧
        groupBusy props p st.m = false
  | .obj ms, st, st', h, _, hfr => by
    have hpe := isEmpty_false_of_ne p.path hne
    cases hfld : p.field with
    | scalar k =>
      obtain ⟨vv, ⟨_, tok, htok, _⟩, _⟩ :=
        scalar_member_exact c props p k _ st st' hfld (by simp) h
      simp [goTok] at htok
    | «enum» ref =>
      unfold decProp at h; rw [hfld] at h; simp only [] at h; unfold decEnumProp at h
      simp only [] at h
      obtain ⟨st1, hcf, h⟩ := bind_ok_inv _ _ _ h
      simp [hpe] at h
    | object ref =>
      unfold decProp at h; rw [hfld] at h; simp only [] at h
      obtain ⟨st1, hcf, h⟩ := bind_ok_inv _ _ _ h
      obtain ⟨rfl, _, hgb⟩ := createField_inv props p st st1 hcf
      simp only [hpe, Bool.false_eq_true, if_false] at h
      split at h
      · next sub hfind =>
        rw [subStart_fresh p { m := st.m, seen := p.jsonName :: st.seen } hfr] at h
        unfold finishObjectProp at h
        obtain ⟨⟨r, term⟩, hr, h⟩ := bind_ok_inv _ _ _ h
        simp only [] at h
        split at h
        · cases h
          refine ⟨.msg r.m, ?_, rfl, hgb⟩
          obtain ⟨h1, h2, h3⟩ :=
            stored_members c hE sub ((hE ref sub).1 hfind) ms _ r term hr (freshX_empty c.env sub)
          simp only [StoredV, hfind]; exact ⟨h1, onlyM_of c.env sub r ms h2 h3⟩
        · cases h
      · cases h
    | oneof ref =>
      unfold decProp at h; rw [hfld] at h; simp only [] at h
      obtain ⟨st1, hcf, h⟩ := bind_ok_inv _ _ _ h
      obtain ⟨rfl, _, hgb⟩ := createField_inv props p st st1 hcf
      split at h
      · next ops hfind =>
        rw [oneofStart_fresh p { m := st.m, seen := p.jsonName :: st.seen } hpe hfr] at h
        unfold finishOneofProp at h
        obtain ⟨⟨r, found, ct, term⟩, hr, h⟩ := bind_ok_inv _ _ _ h
        simp only [] at h
        split at h
        · cases h
        · obtain ⟨tp, hpost, h⟩ := bind_ok_inv _ _ _ h
          split at h
          · simp only [hpe, Bool.false_eq_true, if_false] at h
            cases h
            refine ⟨.msg (applyPost ops tp r.m), ?_, rfl, hgb⟩
            obtain ⟨hso, hall, _, hfr', hsn⟩ := stored_oneof c hE ops ((hE ref ops).2 hfind) ms _ r [] found
              none ct term hr (fresh_empty ops)
            have hfk := (decOneofMembers_found c ops ms _ [] none r found ct term hr).1
            simp only [StoredV, hfind]
            exact ⟨storedO_final c ops ms r found ct tp hso (fun e => hall (by rw [e])) hpost,
              onlyO_final ops ms r found ct tp hfr' hsn (by simpa using hfk) hpost⟩
          · cases h
      · cases h
    | any pb =>
      unfold decProp at h; rw [hfld] at h; simp only [] at h
      obtain ⟨st1, hcf, h⟩ := bind_ok_inv _ _ _ h
      obtain ⟨rfl, _, hgb⟩ := createField_inv props p st st1 hcf
      simp only [hpe, Bool.false_eq_true, if_false] at h
      unfold finishAnyProp at h
      obtain ⟨⟨acc, term⟩, hr, h⟩ := bind_ok_inv _ _ _ h
      simp only [] at h
      split at h
      · cases h
      · split at h
        · cases h
        · cases h
        · obtain ⟨inner, hin, h⟩ := bind_ok_inv _ _ _ h
          try simp only [] at h
          repeat' split at h
          all_goals first
            | (cases h; refine ⟨_, ?_, rfl, hgb⟩; simp [StoredV])
            | cases h
    | array item =>
      unfold decProp at h; rw [hfld] at h; simp only [] at h; cases h
    | map item =>
      unfold decProp at h; rw [hfld] at h; simp only [] at h
      obtain ⟨st1, hcf, h⟩ := bind_ok_inv _ _ _ h
      obtain ⟨rfl, _, hgb⟩ := createField_inv props p st st1 hcf
      simp only [hpe, Bool.false_eq_true, if_false] at h
      obtain ⟨_, _, h⟩ := bind_ok_inv _ _ _ h
      rw [mapStart_fresh p { m := st.m, seen := p.jsonName :: st.seen } hfr] at h
      unfold finishMapProp at h
      obtain ⟨⟨l, term⟩, hr, h⟩ := bind_ok_inv _ _ _ h
      simp only [] at h
      split at h
      · cases h
        refine ⟨.map l, ?_, rfl, hgb⟩
        simp only [StoredV]
        obtain ⟨h1, h2⟩ := stored_map c hE item ms [] l term hr
        exact ⟨h1, by simpa using h2⟩
      · cases h
  | .arr xs, st, st', h, _, hfr => by
    have hpe := isEmpty_false_of_ne p.path hne
    cases hfld : p.field with
    | scalar k =>
      obtain ⟨vv, ⟨_, tok, htok, _⟩, _⟩ :=
        scalar_member_exact c props p k _ st st' hfld (by simp) h
      simp [goTok] at htok
    | «enum» ref =>
      unfold decProp at h; rw [hfld] at h; simp only [] at h; unfold decEnumProp at h
      simp only [] at h
      obtain ⟨st1, hcf, h⟩ := bind_ok_inv _ _ _ h
      simp [hpe] at h
    | object ref => unfold decProp at h; rw [hfld] at h; simp only [] at h; cases h
    | oneof ref => unfold decProp at h; rw [hfld] at h; simp only [] at h; cases h
    | any pb => unfold decProp at h; rw [hfld] at h; simp only [] at h; cases h
    | map item => unfold decProp at h; rw [hfld] at h; simp only [] at h; cases h
    | array item =>
      unfold decProp at h; rw [hfld] at h; simp only [] at h
      obtain ⟨st1, hcf, h⟩ := bind_ok_inv _ _ _ h
      obtain ⟨rfl, _, hgb⟩ := createField_inv props p st st1 hcf
      simp only [hpe, Bool.false_eq_true, if_false] at h
      obtain ⟨_, _, h⟩ := bind_ok_inv _ _ _ h
      rw [listStart_fresh p { m := st.m, seen := p.jsonName :: st.seen } hfr] at h
      unfold finishArrayProp at h
      obtain ⟨⟨l, term⟩, hr, h⟩ := bind_ok_inv _ _ _ h
      simp only [] at h
      split at h
      · cases h
        refine ⟨.list l, ?_, rfl, hgb⟩
        obtain ⟨vs, hl, hse⟩ := stored_elems c hE item xs [] l term hr
        simp only [List.nil_append] at hl
        subst hl
        simp only [StoredV]; exact hse
      · cases h
  | .str s raw, st, st', h, hnn, _ =>
    stored_prop_leaf c props p hne _ (fun _ e => by cases e) (fun _ e => by cases e) st st' h hnn
  | .num x, st, st', h, hnn, _ =>
    stored_prop_leaf c props p hne _ (fun _ e => by cases e) (fun _ e => by cases e) st st' h hnn
  | .bool b, st, st', h, hnn, _ =>
    stored_prop_leaf c props p hne _ (fun _ e => by cases e) (fun _ e => by cases e) st st' h hnn
  | .null, _, _, _, hnn, _ => absurd rfl hnn
  | .bad, st, st', h, hnn, _ =>
    stored_prop_leaf c props p hne _ (fun _ e => by cases e) (fun _ e => by cases e) st st' h hnn
  | .raw bs, st, st', h, hnn, _ =>
    stored_prop_leaf c props p hne _ (fun _ e => by cases e) (fun _ e => by cases e) st st' h hnn
termination_by t => sizeOf t

/-- the member loop of an object -/
theorem stored_members (c : Cfg) (hE : c.env.apart) (props : List PropDef)
    (hA : ApartX c.env props) :
    ∀ (ms : PMembers) (st st' : PS) (term : Term),
      decObjMembers c props ms st = .ok (st', term) → FreshX c.env props st →
      StoredM c props st'.m ms ∧ FreshX c.env props st' ∧ SeenFrom ms st.seen st'.seen
  | .nil t, st, st', term, h, hf => by
    unfold decObjMembers at h
    split at h
    · cases h
    · cases h
      exact ⟨by simp only [StoredM], hf, fun x hx => Or.inl hx⟩
  | .cons k kr v rest, st, st', term, h, hf => by
    unfold decObjMembers at h
    cases hfp : findProp props k with
    | none => rw [hfp] at h; cases h
    | some p =>
      rw [hfp] at h
      simp only [] at h
      cases hd : decProp c props p v st with
      | err e => rw [hd] at h; cases h
      | panic w => rw [hd] at h; cases h
      | ok st1 =>
        rw [hd] at h
        simp only [] at h
        have hp := findProp_mem props k p hfp
        obtain ⟨hf1, _⟩ := step_inv c props hA p hp v st st1 hd hf
        obtain ⟨hrest, hfr', hsn⟩ := stored_members c hE props hA rest st1 st' term h hf1
        obtain ⟨_, hper⟩ := loop_inv c props hA rest st1 st' term h hf1
        refine ⟨?_, hfr', ?_⟩
        · simp only [StoredM]
          refine ⟨?_, hrest⟩
          by_cases hnull : v = .null
          · exact Or.inl hnull
          · right
            have hns : p.jsonName ∉ st.seen := by
              rcases decProp_shape c props p v st st1 hd with ⟨e, _⟩ | ⟨hfresh, _⟩
              · exact absurd e hnull
              · exact hfresh
            have hseen := (decProp_seen c props p v st st1 hd).2 hnull
            by_cases hpe : p.path = []
            · -- exposed oneof: a oneof object over the same message
              right
              obtain ⟨ref, ops, hfo, hfind, _, hpaops⟩ := hA.exposed p hp hpe
              have hl := leavesOf_exposed c.env p ref ops hpe hfo hfind
              obtain ⟨ms', r, found, ct, term', tp, rfl, _, hr, hpost, rfl⟩ :=
                exposed_inv c props p ref ops hpe hfo hfind v st st1 hd hnull
              have hfo0 : Fresh ops { m := st.m, seen := [] } := by
                intro q hq _
                exact hf p hp hns q (by rw [hl]; exact hq)
              obtain ⟨hso, hall, _, hfr2, hsn2⟩ :=
                stored_oneof c hE ops hpaops ms' _ r [] found none ct term' hr hfo0
              have hfk := (decOneofMembers_found c ops ms' _ [] none r found ct term' hr).1
              have h1 := storedO_final c ops ms' r found ct tp hso (fun e => hall (by rw [e])) hpost
              have h2 := onlyO_final ops ms' r found ct tp hfr2 hsn2 (by simpa using hfk) hpost
              have hcg : ∀ q ∈ ops, getPath st'.m q.path = getPath (applyPost ops tp r.m) q.path := by
                intro q hq
                exact hper p hp hseen q (by rw [hl]; exact hq)
              refine ⟨p, hfp, hpe, ?_⟩
              have hx : exposedOps c.env p = ops := by
                have := hl; unfold leavesOf at this; rw [if_pos hpe] at this; exact this
              rw [hx]
              simp only [StoredX]
              exact ⟨storedO_congr c ops _ st'.m hcg ms' h1, onlyO_congr ops _ st'.m ms' hcg h2⟩
            · left
              obtain ⟨vv, hsv, hm, hgb⟩ :=
                stored_prop c hE props p hpe v st st1 hd hnull
                  (hf p hp hns p (by rw [leavesOf_ne c.env p hpe]; simp))
              refine ⟨p, vv, hfp, hpe, hsv, ?_⟩
              apply storedAt_congr st1.m st'.m p vv
                (hper p hp hseen p (by rw [leavesOf_ne c.env p hpe]; simp))
              rw [hm]
              exact storedAt_of_upd props p vv st.m hpe hgb
        · intro x hx
          rcases hsn x hx with h1 | ⟨v', hm', hn'⟩
          · rcases seen_step c props p k hfp v st st1 hd x h1 with h2 | ⟨rfl, hnn⟩
            · exact Or.inl h2
            · exact Or.inr ⟨v, by simp [isMember], hnn⟩
          · exact Or.inr ⟨v', by simp only [isMember]; exact Or.inr hm', hn'⟩
termination_by ms => sizeOf ms

/-- the member loop of a oneof -/
theorem stored_oneof (c : Cfg) (hE : c.env.apart) (ops : List PropDef) (hpa : PathsApart ops) :
    ∀ (ms : PMembers) (st st' : PS) (found found' : List Bytes) (ct ct' : Option Bytes) (term : Term),
      decOneofMembers c ops ms st found ct = .ok (st', found', ct', term) → Fresh ops st →
      StoredO c ops st'.m ms ∧ (found' = found → ∀ fs, StoredO c ops fs ms) ∧
        (∃ ks, found' = found ++ ks) ∧ Fresh ops st' ∧ SeenFrom ms st.seen st'.seen
  | .nil t, st, st', found, found', ct, ct', term, h, hf => by
    unfold decOneofMembers at h; cases h
    exact ⟨by simp only [StoredO], fun _ _ => by simp only [StoredO], ⟨[], by simp⟩, hf,
      fun x hx => Or.inl hx⟩
  | .cons k kr v rest, st, st', found, found', ct, ct', term, h, hf => by
    unfold decOneofMembers at h
    split at h
    · next hk =>
      split at h
      · obtain ⟨h1, h2, h3, h4, h5⟩ := stored_oneof c hE ops hpa rest st st' found found' _ ct' term h hf
        refine ⟨by simp only [StoredO]; exact ⟨Or.inl hk, h1⟩,
          fun e fs => by simp only [StoredO]; exact ⟨Or.inl hk, h2 e fs⟩, h3, h4, ?_⟩
        intro x hx
        rcases h5 x hx with h6 | ⟨v', hm', hn'⟩
        · exact Or.inl h6
        · exact Or.inr ⟨v', by simp only [isMember]; exact Or.inr hm', hn'⟩
      · cases h
    · cases hfp : findProp ops k with
      | none => rw [hfp] at h; cases h
      | some p =>
        rw [hfp] at h
        simp only [] at h
        cases hd : decProp c ops p v st with
        | err e => rw [hd] at h; cases h
        | panic w => rw [hd] at h; cases h
        | ok st1 =>
          rw [hd] at h
          simp only [] at h
          have hp := findProp_mem ops k p hfp
          have hf1 := fresh_step c ops hpa p hp v st st1 hd hf
          obtain ⟨h1, _, ⟨ks, hks⟩, hfr', hsn⟩ :=
            stored_oneof c hE ops hpa rest st1 st' _ found' ct ct' term h hf1
          refine ⟨?_, ?_, ⟨k :: ks, by rw [hks]; simp⟩, hfr', ?_⟩
          · simp only [StoredO]
            refine ⟨?_, h1⟩
            by_cases hnull : v = .null
            · exact Or.inr (Or.inl hnull)
            · right; right
              have hpne := hpa.1 p hp
              have hns : p.jsonName ∉ st.seen := by
                rcases decProp_shape c ops p v st st1 hd with ⟨e, _⟩ | ⟨hfresh, _⟩
                · exact absurd e hnull
                · exact hfresh
              obtain ⟨vv, hsv, hm, hgb⟩ := stored_prop c hE ops p hpne v st st1 hd hnull (hf p hp hns)
              have hseen := (decProp_seen c ops p v st st1 hd).2 hnull
              have hper := oneof_persists c ops hpa p hp rest st1 st' _ found' ct ct' term h hseen
              refine ⟨p, vv, hfp, hsv, ?_⟩
              apply storedAt_congr st1.m st'.m p vv hper
              rw [hm]
              exact storedAt_of_upd ops p vv st.m hpne hgb
          · intro e
            rw [hks] at e
            have : (found ++ [k] ++ ks).length = found.length := by rw [e]
            simp at this
          · intro x hx
            rcases hsn x hx with h6 | ⟨v', hm', hn'⟩
            · rcases seen_step c ops p k hfp v st st1 hd x h6 with h7 | ⟨rfl, hnn⟩
              · exact Or.inl h7
              · exact Or.inr ⟨v, by simp [isMember], hnn⟩
            · exact Or.inr ⟨v', by simp only [isMember]; exact Or.inr hm', hn'⟩
termination_by ms => sizeOf ms

/-- one array element / map value -/
theorem stored_item (c : Cfg) (hE : c.env.apart) (item : Field) :
    ∀ (v : PTree) (pv : PVal), ItemDec c item v pv → StoredV c item pv v
  | .obj ms, pv, h => by
    cases item with
    | scalar k => obtain ⟨tok, htok, _⟩ := h; simp [goTok] at htok
    | «enum» ref => obtain ⟨s, raw, _, _, _, hv, _⟩ := h; cases hv
    | object ref =>
      obtain ⟨sub, fs, hfind, hd, rfl⟩ := h
      unfold decObject at hd
      obtain ⟨r, term, hr, rfl⟩ := finishObject_inv _ _ hd
      obtain ⟨h1, h2, h3⟩ :=
        stored_members c hE sub ((hE ref sub).1 hfind) ms _ r term hr (freshX_empty c.env sub)
      simp only [StoredV, hfind]; exact ⟨h1, onlyM_of c.env sub r ms h2 h3⟩
    | oneof ref =>
      obtain ⟨ops, fs, hfind, hd, rfl⟩ := h
      unfold decOneof at hd
      obtain ⟨r, found, ct, term, tp, hr, hpost, rfl⟩ := finishOneof_inv ops _ _ hd
      obtain ⟨hso, hall, _, hfr', hsn⟩ := stored_oneof c hE ops ((hE ref ops).2 hfind) ms _ r [] found
        none ct term hr (fresh_empty ops)
      have hfk := (decOneofMembers_found c ops ms _ [] none r found ct term hr).1
      simp only [StoredV, hfind]
      exact ⟨storedO_final c ops ms r found ct tp hso (fun e => hall (by rw [e])) hpost,
        onlyO_final ops ms r found ct tp hfr' hsn (by simpa using hfk) hpost⟩
    | any pb => exact absurd h (by simp [ItemDec])
    | array i => exact absurd h (by simp [ItemDec])
    | map i => exact absurd h (by simp [ItemDec])
  | .arr xs, pv, h => by
    cases item with
    | scalar k => obtain ⟨tok, htok, _⟩ := h; simp [goTok] at htok
    | «enum» ref => obtain ⟨s, raw, _, _, _, hv, _⟩ := h; cases hv
    | object ref => obtain ⟨sub, fs, _, hd, _⟩ := h; simp [decObject] at hd
    | oneof ref => obtain ⟨ops, fs, _, hd, _⟩ := h; simp [decOneof] at hd
    | any pb => exact absurd h (by simp [ItemDec])
    | array i => exact absurd h (by simp [ItemDec])
    | map i => exact absurd h (by simp [ItemDec])
  | .str s raw, pv, h => stored_item_leaf c item _ pv (fun _ e => by cases e) (fun _ e => by cases e) h
  | .num x, pv, h => stored_item_leaf c item _ pv (fun _ e => by cases e) (fun _ e => by cases e) h
  | .bool b, pv, h => stored_item_leaf c item _ pv (fun _ e => by cases e) (fun _ e => by cases e) h
  | .null, pv, h => stored_item_leaf c item _ pv (fun _ e => by cases e) (fun _ e => by cases e) h
  | .bad, pv, h => stored_item_leaf c item _ pv (fun _ e => by cases e) (fun _ e => by cases e) h
  | .raw bs, pv, h => stored_item_leaf c item _ pv (fun _ e => by cases e) (fun _ e => by cases e) h
termination_by v => sizeOf v

/-- the element loop of an array -/
theorem stored_elems (c : Cfg) (hE : c.env.apart) (item : Field) :
    ∀ (xs : PElems) (acc l : List PVal) (term : Term),
      decElems c item xs acc = .ok (l, term) → ∃ vs, l = acc ++ vs ∧ StoredE c item vs xs
  | .nil t, acc, l, term, h => by
    unfold decElems at h
    split at h
    · cases h
    · cases h; exact ⟨[], by simp, by simp only [StoredE]⟩
  | .cons v rest, acc, l, term, h => by
    obtain ⟨pv, hid, hrest⟩ := elem_step_inv c item v rest acc _ h
    obtain ⟨vs, hl, hse⟩ := stored_elems c hE item rest _ l term hrest
    refine ⟨pv :: vs, by rw [hl]; simp, ?_⟩
    simp only [StoredE]
    exact ⟨pv, vs, rfl, stored_item c hE item v pv hid, hse⟩
termination_by xs => sizeOf xs

/-- the member loop of a map -/
theorem stored_map (c : Cfg) (hE : c.env.apart) (item : Field) :
    ∀ (ms : PMembers) (acc l : List (Bytes × PVal)) (term : Term),
      decMapMembers c item ms acc = .ok (l, term) →
      StoredMap c item l ms ∧ l.map (·.1) = acc.map (·.1) ++ memberKeys ms
  | .nil t, acc, l, term, h => by
    unfold decMapMembers at h
    split at h
    · cases h
    · cases h; exact ⟨by simp only [StoredMap], by simp [memberKeys]⟩
  | .cons k kr v rest, acc, l, term, h => by
    obtain ⟨hnone, pv, hid, hrest⟩ := map_step_inv c item k kr v rest acc _ h
    obtain ⟨h1, h2⟩ := stored_map c hE item rest _ l term hrest
    refine ⟨?_, ?_⟩
    · simp only [StoredMap]
      refine ⟨⟨pv, ?_, stored_item c hE item v pv hid⟩, h1⟩
      exact map_persists c item k pv rest _ l term hrest (mget_mset_self k pv acc)
    · rw [h2, mset_append k pv acc hnone]
      simp [memberKeys]
termination_by ms => sizeOf ms
end

/-- **C03, whole document**: whatever `Codec.JSONToProto` accepts is stored exactly -/
theorem stored_root (c : Cfg) (hE : c.env.apart) (root : String) (t : PTree) (m : Fields)
    (h : decRootTree c root t = .ok m) : StoredRoot c root m t := by
  unfold decRootTree at h
  unfold StoredRoot
  split at h
  · next props hfind =>
    split at h
    · next ms =>
      obtain ⟨r, term, hr, rfl⟩ := finishObject_inv _ _ h
      simp only [hfind]
      obtain ⟨h1, h2, h3⟩ :=
        stored_members c hE props ((hE root props).1 hfind) ms _ r term hr (freshX_empty c.env props)
      exact ⟨h1, onlyM_of c.env props r ms h2 h3⟩
    · cases h
  · next ops hfind =>
    split at h
    · next ms =>
      obtain ⟨r, found, ct, term, tp, hr, hpost, rfl⟩ := finishOneof_inv ops _ _ h
      obtain ⟨hso, hall, _, hfr', hsn⟩ := stored_oneof c hE ops ((hE root ops).2 hfind) ms _ r [] found
        none ct term hr (fresh_empty ops)
      have hfk := (decOneofMembers_found c ops ms _ [] none r found ct term hr).1
      simp only [hfind]
      exact ⟨storedO_final c ops ms r found ct tp hso (fun e => hall (by rw [e])) hpost,
        onlyO_final ops ms r found ct tp hfr' hsn (by simpa using hfk) hpost⟩
    · cases h
  · cases h

/-! ## a decidable check for `Env.apart` -/

instance (props : List PropDef) : Decidable (PathsApart props) := by
  unfold PathsApart; infer_instance

/-- decidable form of `ApartX` -/
def apartXB (env : Env) (props : List PropDef) : Bool :=
  props.all (fun p => p.path != [] ||
    (match p.field with
     | .oneof ref =>
       match env.find ref with
       | some (.oneof ops) => ops.all (fun q => q.path.length == 1) && decide (PathsApart ops)
       | _ => false
     | _ => false)) &&
  props.all (fun p => props.all (fun p' => p.jsonName == p'.jsonName ||
    (leavesOf env p).all (fun q => (leavesOf env p').all (fun q' => !(q.path.isPrefixOf q'.path)))))

theorem apartX_of_B (env : Env) (props : List PropDef) (h : apartXB env props = true) :
    ApartX env props := by
  unfold apartXB at h
  simp only [Bool.and_eq_true, List.all_eq_true, Bool.or_eq_true, bne_iff_ne, ne_eq,
    beq_iff_eq, Bool.not_eq_true', List.isPrefixOf_iff_prefix] at h
  refine ⟨?_, ?_⟩
  · intro p hp hpe
    rcases h.1 p hp with h1 | h1
    · exact absurd hpe h1
    · split at h1
      · next ref hf =>
        split at h1
        · next ops hfind =>
          simp only [Bool.and_eq_true, List.all_eq_true, beq_iff_eq, decide_eq_true_eq] at h1
          refine ⟨ref, ops, hf, hfind, ?_, h1.2⟩
          intro q hq
          have := h1.1 q hq
          cases hqp : q.path with
          | nil => rw [hqp] at this; simp at this
          | cons a b =>
            cases b with
            | nil => exact ⟨a, rfl⟩
            | cons b1 b2 => rw [hqp] at this; simp at this
        · cases h1
      · cases h1
  · intro p hp p' hp' hne q hq q' hq'
    rcases h.2 p hp p' hp' with h1 | h1
    · exact absurd h1 hne
    · have := h1 q hq q' hq'
      intro hpre
      have h2 := List.isPrefixOf_iff_prefix.mpr hpre
      rw [h2] at this; cases this

/-- decidable form of `Env.apart` -/
def Env.apartB (env : Env) : Bool :=
  env.defs.all fun d =>
    match d.2 with
    | .object ps => apartXB env ps
    | .oneof ps => decide (PathsApart ps)
    | _ => true

theorem apart_of_apartB (env : Env) (h : env.apartB = true) : env.apart := by
  intro name props
  unfold Env.apartB at h
  refine ⟨?_, ?_⟩
  · intro hf
    obtain ⟨d, hm, hd⟩ := find_mem env name _ hf
    have := List.all_eq_true.mp h d hm
    rw [hd] at this
    exact apartX_of_B env props this
  · intro hf
    obtain ⟨d, hm, hd⟩ := find_mem env name _ hf
    have := List.all_eq_true.mp h d hm
    rw [hd] at this
    simpa using this

end J5V.Codec
