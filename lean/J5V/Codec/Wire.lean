import J5V.Codec.Scalar
import J5V.Json.Tree
/-!
# The documented wire format (README "Scalar Types" + structure rules), written declaratively

This file is **independent of the encoder model**: it never mentions `encodeScalar`, `fmtInt`,
`dateString`, `b64Encode` or `escapeLoop`. Numbers are described by the JSON grammar plus a
positional evaluation, base64 by length / alphabet / decoded value, dates by their shape.

| J5 type | JSON |
|---|---|
| string, key | string |
| bool | `true` / `false` |
| int32, uint32, float32, float64 | unquoted literal |
| int64, uint64, decimal | quoted string |
| bytes | padded standard base64 string |
| timestamp | RFC3339 string, UTC |
| date | string `YYYY-MM-DD`, zero padded |
| enum | string, the short option name |
-/
namespace J5V.Codec.Wire
open J5V.Json J5V.Codec

/-- value of a digit string, most significant first; `none` if empty or not all digits -/
def digitsValue : Bytes → Option Nat
  | [] => none
  | s => s.foldl (fun acc c =>
      match acc with
      | some n => if 0x30 ≤ c.toNat ∧ c.toNat ≤ 0x39 then some (n * 10 + (c.toNat - 0x30)) else none
      | none => none) (some 0)

/-- JSON `int` production without sign: `0` or a non-zero digit followed by digits -/
def isJsonNat : Bytes → Bool
  | [] => false
  | [c] => 0x30 ≤ c.toNat && c.toNat ≤ 0x39
  | c :: rest => 0x31 ≤ c.toNat && c.toNat ≤ 0x39 && rest.all fun d => 0x30 ≤ d.toNat && d.toNat ≤ 0x39

/-- the integer a JSON integer literal (`-? int`, no fraction, no exponent) denotes -/
def jsonIntValue (t : Bytes) : Option Int :=
  match t with
  | 0x2D :: rest => if isJsonNat rest then (digitsValue rest).map fun n => -(n : Int) else none
  | _ => if isJsonNat t then (digitsValue t).map fun n => (n : Int) else none

def isStdAlphabet (c : UInt8) : Bool :=
  let n := c.toNat
  (65 ≤ n && n ≤ 90) || (97 ≤ n && n ≤ 122) || (48 ≤ n && n ≤ 57) || n = 0x2B || n = 0x2F

/-- padded standard base64 (RFC 4648 §4) of a byte string of length `len`: groups of four
alphabet characters for every three bytes; a final group for one byte is two characters and
`==`, for two bytes three characters and `=` -/
def isPaddedStdBase64 : Bytes → Nat → Bool
  | [], 0 => true
  | [c0, c1, p, q], 1 => isStdAlphabet c0 && isStdAlphabet c1 && p == 0x3D && q == 0x3D
  | [c0, c1, c2, q], 2 => isStdAlphabet c0 && isStdAlphabet c1 && isStdAlphabet c2 && q == 0x3D
  | c0 :: c1 :: c2 :: c3 :: rest, n + 3 =>
    isStdAlphabet c0 && isStdAlphabet c1 && isStdAlphabet c2 && isStdAlphabet c3 &&
      isPaddedStdBase64 rest n
  | _, _ => false

def isDigitB (c : UInt8) : Bool := 0x30 ≤ c.toNat && c.toNat ≤ 0x39

/-- `YYYY-MM-DD`, every part zero padded to its width -/
def isDateShape (s : Bytes) : Bool :=
  match s with
  | [y1, y2, y3, y4, d1, m1, m2, d2, dd1, dd2] =>
    isDigitB y1 && isDigitB y2 && isDigitB y3 && isDigitB y4 && d1 == 0x2D &&
    isDigitB m1 && isDigitB m2 && d2 == 0x2D && isDigitB dd1 && isDigitB dd2
  | _ => false

def dateParts (s : Bytes) : Option (Nat × Nat × Nat) :=
  match digitsValue (s.take 4), digitsValue ((s.drop 5).take 2), digitsValue ((s.drop 8).take 2) with
  | some y, some m, some d => some (y, m, d)
  | _, _, _ => none

/-- RFC 3339 `date-time` with the `Z` offset: `YYYY-MM-DDTHH:MM:SS[.f+]Z` -/
def isRfc3339Utc (s : Bytes) : Bool :=
  isDateShape (s.take 10) &&
  (match s.drop 10 with
   | t :: h1 :: h2 :: c1 :: mi1 :: mi2 :: c2 :: s1 :: s2 :: rest =>
     t == 0x54 && isDigitB h1 && isDigitB h2 && c1 == 0x3A && isDigitB mi1 && isDigitB mi2 &&
     c2 == 0x3A && isDigitB s1 && isDigitB s2 &&
     (match rest with
      | [z] => z == 0x5A
      | dot :: frac =>
        dot == 0x2E && frac.length ≥ 2 && (frac.dropLast).all isDigitB && frac.getLast? == some 0x5A
      | [] => false)
   | _ => false)

/-- is the text a JSON number (RFC 8259 `number`)? -/
def isJsonNumber (t : Bytes) : Bool :=
  match scanNumber t with
  | some (_, []) => true
  | _ => false

/-- the documented JSON representation of one scalar / enum value -/
def scalarConforms (O : Oracle) (k : ScalarKind) (v : PVal) (t : PTree) : Prop :=
  match k, v, t with
  | .string, .str s, .str s' _ => s' = s
  | .key, .str s, .str s' _ => s' = s
  | .bool, .bool b, .bool b' => b' = b
  | .int32, .int i, .num x => jsonIntValue x = some i
  | .uint32, .uint n, .num x => jsonIntValue x = some (n : Int)
  | .int64, .int i, .str x _ => jsonIntValue x = some i
  | .uint64, .uint n, .str x _ => jsonIntValue x = some (n : Int)
  | .float32, .f32 b, .num x => isJsonNumber x = true ∧ ∃ b64, O.parseFloat x = some (b64, some b)
  | .float64, .f64 b, .num x => isJsonNumber x = true ∧ ∃ b32, O.parseFloat x = some (b, b32)
  | .bytes, .bytes b, .str x _ => isPaddedStdBase64 x b.length = true ∧ b64Decode x [] = some b
  | .timestamp, .ts s n, .str x _ => isRfc3339Utc x = true ∧ O.parseTime x = some (s, n)
  | .date, .date y m d, .str x _ =>
    isDateShape x = true ∧ dateParts x = some (y.toNat, m.toNat, d.toNat) ∧ 0 ≤ y ∧ 0 ≤ m ∧ 0 ≤ d
  | .decimal, .dec s, .str x _ => x = s
  | _, _, _ => False

/-- the string literal is a JSON string denoting the bytes (checked by the JSON reader model) -/
def literalDenotes (raw s : Bytes) : Prop :=
  match raw with
  | 0x22 :: body => readString (body.length + 1) body = some (s, body, [])
  | _ => False

/-! ## structure rules

"Oneofs are objects with `!type` plus exactly the key it names, Any values are
`{"!type", "value"}`, flattened objects are inlined into their parent, unset members are omitted,
and member names are the schema's JSON names."

A property addresses its value by its proto path (`getPath`): a flattened object's properties
carry the full path, so they appear as members of the *parent* object (inlined); a property with
an empty path is an exposed oneof — a oneof object over the *same* message. -/

/-- (type name, the proto / json content is present) of an `Any` value -/
def anyTypeName : PVal → Option Bytes
  | .anyJ5 tn _ _ _ _ _ => some tn
  | .anyPb url _ _ _ _ => some (trimPrefix url (ascii "type.googleapis.com/"))
  | _ => none

mutual
/-- `t` is the documented JSON representation of value `v` of a field with schema `fld` -/
inductive Conforms (env : Env) (O : Oracle) : Field → PVal → PTree → Prop
  | scalar (k : ScalarKind) (v : PVal) (t : PTree) :
      scalarConforms O k v t → Conforms env O (.scalar k) v t
  /-- an enum is a string: the short option name of the number -/
  | enum (ref : String) (pfx : Bytes) (opts : List (Bytes × Int)) (n : Int) (name lit : Bytes) :
      env.find ref = some (.enum pfx opts) → (name, n) ∈ opts →
      Conforms env O (.enum ref) (.enum n) (.str name lit)
  | object (ref : String) (props : List PropDef) (fs : Fields) (ms : PMembers) :
      env.find ref = some (.object props) → MembersConform env O fs props ms →
      Conforms env O (.object ref) (.msg fs) (.obj ms)
  | oneof (ref : String) (ops : List PropDef) (fs : Fields) (t : PTree) :
      env.find ref = some (.oneof ops) → OneofConforms env O fs ops t →
      Conforms env O (.oneof ref) (.msg fs) t
  | array (item : Field) (xs : List PVal) (es : PElems) :
      ElemsConform env O item xs es → Conforms env O (.array item) (.list xs) (.arr es)
  | map (item : Field) (kvs : List (Bytes × PVal)) (ms : PMembers) :
      MapConform env O item kvs ms → Conforms env O (.map item) (.map kvs) (.obj ms)
  /-- a j5 `Any` that holds `j5_json` is `{"!type": typeName, "value": <the stored j5_json>}`: the
  value renders to exactly the stored bytes (whatever else the `Any` carries) -/
  | anyJ5 (tn proto j5 : Bytes) (ik : InnerKind) (iroot : String) (inner : PVal)
      (l1 l2 l3 : Bytes) (data : PTree) :
      j5 ≠ [] → data.render = j5 →
      Conforms env O (.any false) (.anyJ5 tn proto j5 ik iroot inner)
        (.obj (.cons (ascii "!type") l1 (.str tn l2) (.cons (ascii "value") l3 data (.nil .closed))))
  /-- a protobuf `Any` is `{"!type": name, "value": <the content>}`: `name` is the type URL without
  `type.googleapis.com/`, and the value is the documented representation of the content as a
  message of the type that name resolves to — an object … -/
  | anyPbObj (val tn : Bytes) (iroot : String) (fs : Fields) (props : List PropDef)
      (l1 l2 l3 : Bytes) (ms : PMembers) :
      env.resolve tn = some iroot → env.find iroot = some (.object props) →
      MembersConform env O fs props ms →
      Conforms env O (.any true) (.anyPb (ascii "type.googleapis.com/" ++ tn) val .inn iroot (.msg fs))
        (.obj (.cons (ascii "!type") l1 (.str tn l2) (.cons (ascii "value") l3 (.obj ms) (.nil .closed))))
  /-- … or a oneof -/
  | anyPbOne (val tn : Bytes) (iroot : String) (fs : Fields) (ops : List PropDef)
      (l1 l2 l3 : Bytes) (data : PTree) :
      env.resolve tn = some iroot → env.find iroot = some (.oneof ops) →
      OneofConforms env O fs ops data →
      Conforms env O (.any true) (.anyPb (ascii "type.googleapis.com/" ++ tn) val .inn iroot (.msg fs))
        (.obj (.cons (ascii "!type") l1 (.str tn l2) (.cons (ascii "value") l3 data (.nil .closed))))
/-- a oneof over the message `fs`: `{}` when no member is set, else `{"!type": name, name: value}`
— the type key plus exactly the key it names -/
inductive OneofConforms (env : Env) (O : Oracle) : Fields → List PropDef → PTree → Prop
  | empty (fs : Fields) (ops : List PropDef) : (∀ q ∈ ops, getPath fs q.path = none) →
      OneofConforms env O fs ops (.obj (.nil .closed))
  | set (fs : Fields) (ops : List PropDef) (p : PropDef) (v : PVal) (t : PTree) (l1 l2 l3 : Bytes) :
      p ∈ ops → getPath fs p.path = some v →
      (∀ q ∈ ops, q.path ≠ p.path → getPath fs q.path = none) → Conforms env O p.field v t →
      OneofConforms env O fs ops
        (.obj (.cons (ascii "!type") l1 (.str p.jsonName l2) (.cons p.jsonName l3 t (.nil .closed))))
/-- the members of an object: one member per *set* property, in schema order, named by the
property's JSON name; unset properties are omitted; flattened properties are looked up by their
full path (inlined); an exposed oneof is a oneof object over the same message -/
inductive MembersConform (env : Env) (O : Oracle) : Fields → List PropDef → PMembers → Prop
  | nil (fs : Fields) : MembersConform env O fs [] (.nil .closed)
  | skip (fs : Fields) (p : PropDef) (ps : List PropDef) (ms : PMembers) :
      p.path ≠ [] → getPath fs p.path = none → MembersConform env O fs ps ms →
      MembersConform env O fs (p :: ps) ms
  | emit (fs : Fields) (p : PropDef) (ps : List PropDef) (v : PVal) (t : PTree)
      (kraw : Bytes) (ms : PMembers) :
      p.path ≠ [] → getPath fs p.path = some v → Conforms env O p.field v t →
      MembersConform env O fs ps ms →
      MembersConform env O fs (p :: ps) (.cons p.jsonName kraw t ms)
  | skipExposed (fs : Fields) (p : PropDef) (ps : List PropDef) (ms : PMembers) :
      p.path = [] → (∀ q ∈ exposedOps env p, getPath fs q.path = none) →
      MembersConform env O fs ps ms → MembersConform env O fs (p :: ps) ms
  | emitExposed (fs : Fields) (p : PropDef) (ps : List PropDef) (t : PTree) (kraw : Bytes)
      (ms : PMembers) :
      p.path = [] → (∃ q ∈ exposedOps env p, (getPath fs q.path).isSome = true) →
      OneofConforms env O fs (exposedOps env p) t → MembersConform env O fs ps ms →
      MembersConform env O fs (p :: ps) (.cons p.jsonName kraw t ms)
inductive ElemsConform (env : Env) (O : Oracle) : Field → List PVal → PElems → Prop
  | nil (item : Field) : ElemsConform env O item [] (.nil .closed)
  | cons (item : Field) (x : PVal) (xs : List PVal) (t : PTree) (es : PElems) :
      Conforms env O item x t → ElemsConform env O item xs es →
      ElemsConform env O item (x :: xs) (.cons t es)
inductive MapConform (env : Env) (O : Oracle) : Field → List (Bytes × PVal) → PMembers → Prop
  | nil (item : Field) : MapConform env O item [] (.nil .closed)
  | cons (item : Field) (k : Bytes) (v : PVal) (kvs : List (Bytes × PVal)) (t : PTree)
      (kraw : Bytes) (ms : PMembers) :
      Conforms env O item v t → MapConform env O item kvs ms →
      MapConform env O item ((k, v) :: kvs) (.cons k kraw t ms)
end

/-- the whole document for a message of root `root`: an object's members, or a oneof object -/
def RootConforms (env : Env) (O : Oracle) (root : String) (m : Fields) (t : PTree) : Prop :=
  (∃ props ms, env.find root = some (.object props) ∧ t = .obj ms ∧ MembersConform env O m props ms) ∨
  (∃ ops, env.find root = some (.oneof ops) ∧ OneofConforms env O m ops t)

end J5V.Codec.Wire
