import J5V.Codec.DecodeProofs
/-!
# Structural faults are rejected (C03): unknown key, duplicate key, oneof with several keys,
`!type` contradicting the key, and propagation of a nested error to the enclosing container.
-/
namespace J5V.Codec
open J5V.Go J5V.Json

/-- an outcome that is an error -/
def IsErr {α} (o : Outcome α) : Prop := ∃ e, o = .err e

theorem IsErr_err {α} (e : String) : IsErr (Outcome.err e : Outcome α) := ⟨e, rfl⟩

theorem IsErr_bind_left {α β} (x : Outcome α) (f : α → Outcome β) (h : IsErr x) : IsErr (x.bind f) := by
  obtain ⟨e, rfl⟩ := h; exact ⟨e, rfl⟩

/-- unknown key in an object -/
theorem unknown_key_object (c : Cfg) (props : List PropDef) (k kr : Bytes) (v : PTree)
    (rest : PMembers) (st : PS) (h : findProp props k = none) :
    IsErr (decObjMembers c props (.cons k kr v rest) st) := by
  unfold decObjMembers; simp [h, IsErr]

/-- unknown key in a oneof -/
theorem unknown_key_oneof (c : Cfg) (ops : List PropDef) (k kr : Bytes) (v : PTree)
    (rest : PMembers) (st : PS) (found : List Bytes) (ct : Option Bytes)
    (hk : k ≠ ascii "!type") (h : findProp ops k = none) :
    IsErr (decOneofMembers c ops (.cons k kr v rest) st found ct) := by
  unfold decOneofMembers; simp [hk, h, IsErr]

theorem createField_dup (props : List PropDef) (p : PropDef) (st : PS) (h : p.jsonName ∈ st.seen) :
    createField props p st = .err "already set" := by
  unfold createField; simp [h]

theorem createField_busy (props : List PropDef) (p : PropDef) (st : PS)
    (h : groupBusy props p st.m = true) : IsErr (createField props p st) := by
  unfold createField; split
  · exact IsErr_err _
  · simp [h, IsErr]

/-- a second non-null value for a property that is already set (duplicate key) is an error,
whatever the field kind and whatever the value looks like -/
theorem duplicate_key (c : Cfg) (props : List PropDef) (p : PropDef) (t : PTree) (st : PS)
    (hseen : p.jsonName ∈ st.seen) (hnn : t ≠ .null) : IsErr (decProp c props p t st) := by
  have hcf := createField_dup props p st hseen
  unfold decProp
  split
  · unfold decScalarProp
    cases t <;> simp [hcf, Outcome.bind, IsErr] at hnn ⊢
  · unfold decEnumProp
    cases t <;> simp [hcf, Outcome.bind, IsErr] at hnn ⊢
  all_goals (cases t <;> simp [hcf, Outcome.bind, IsErr] at hnn ⊢)

/-- a non-null value for a member of a proto oneof while a *different* member of that oneof is
already set in the message is an error, whatever the field kind and whatever the value looks like
(25c97b7; before, protobuf silently dropped the first member) -/
theorem proto_oneof_second_member (c : Cfg) (props : List PropDef) (p : PropDef) (t : PTree) (st : PS)
    (hbusy : groupBusy props p st.m = true) (hnn : t ≠ .null) : IsErr (decProp c props p t st) := by
  obtain ⟨e, hcf⟩ := createField_busy props p st hbusy
  unfold decProp
  split
  · unfold decScalarProp
    cases t <;> simp [hcf, Outcome.bind, IsErr] at hnn ⊢
  · unfold decEnumProp
    cases t <;> simp [hcf, Outcome.bind, IsErr] at hnn ⊢
  all_goals (cases t <;> simp [hcf, Outcome.bind, IsErr] at hnn ⊢)

/-- an error at a member value is an error of the object (faults at any nesting position) -/
theorem object_propagates (c : Cfg) (props : List PropDef) (k kr : Bytes) (v : PTree)
    (rest : PMembers) (st : PS) (p : PropDef) (hf : findProp props k = some p)
    (h : IsErr (decProp c props p v st)) : IsErr (decObjMembers c props (.cons k kr v rest) st) := by
  obtain ⟨e, he⟩ := h
  unfold decObjMembers; simp [hf, he, IsErr]

/-- … and of every later position: once a member fails, the members before it do not matter -/
theorem object_propagates_later (c : Cfg) (props : List PropDef) (k kr : Bytes) (v : PTree)
    (rest : PMembers) (st st1 : PS) (p : PropDef) (hf : findProp props k = some p)
    (hok : decProp c props p v st = .ok st1) (h : IsErr (decObjMembers c props rest st1)) :
    IsErr (decObjMembers c props (.cons k kr v rest) st) := by
  obtain ⟨e, he⟩ := h
  conv => arg 1; unfold decObjMembers
  simp [hf, hok, he, IsErr]

theorem array_propagates_object (c : Cfg) (ref : String) (sub : List PropDef) (v : PTree)
    (rest : PElems) (acc : List PVal) (hfind : c.env.find ref = some (.object sub))
    (h : IsErr (decObject c sub v)) : IsErr (decElems c (.object ref) (.cons v rest) acc) := by
  obtain ⟨e, he⟩ := h
  unfold decElems; simp [hfind, he, IsErr]

theorem array_propagates_scalar (c : Cfg) (k : ScalarKind) (v : PTree) (tok : GoTok)
    (rest : PElems) (acc : List PVal) (hg : goTok v = some tok)
    (h : IsErr (decodeScalar c.O k tok)) : IsErr (decElems c (.scalar k) (.cons v rest) acc) := by
  obtain ⟨e, he⟩ := h
  unfold decElems; simp [hg, he, IsErr]

theorem map_propagates_scalar (c : Cfg) (k : ScalarKind) (key kr : Bytes) (v : PTree) (tok : GoTok)
    (rest : PMembers) (acc : List (Bytes × PVal)) (hg : goTok v = some tok)
    (h : IsErr (decodeScalar c.O k tok)) :
    IsErr (decMapMembers c (.scalar k) (.cons key kr v rest) acc) := by
  obtain ⟨e, he⟩ := h
  unfold decMapMembers; simp [hg, he, IsErr]

theorem scalar_prop_propagates (c : Cfg) (props : List PropDef) (p : PropDef) (k : ScalarKind)
    (t : PTree) (tok : GoTok) (st : PS) (hf : p.field = .scalar k) (hg : goTok t = some tok)
    (hnn : t ≠ .null) (h : IsErr (decodeScalar c.O k tok)) : IsErr (decProp c props p t st) := by
  obtain ⟨e, he⟩ := h
  unfold decProp; rw [hf]; simp only []
  unfold decScalarProp
  cases hcf : createField props p st with
  | panic w => exact absurd hcf (createField_np props p st w)
  | err e' => cases t <;> simp [Outcome.bind, IsErr, goTok] at hg hnn ⊢
  | ok st1 =>
    cases t <;> simp only [goTok, Option.some.injEq] at hg <;> try (cases hg)
    all_goals first
      | exact absurd rfl hnn
      | (simp only [goTok, Outcome.bind]
         split
         · exact ⟨_, rfl⟩
         · simp [he, IsErr])

/-- more than one key in a oneof -/
theorem oneof_multiple_keys (ops : List PropDef) (a b : Bytes) (rest : List Bytes) (ct : Option Bytes)
    (m : Fields) : IsErr (oneofPost ops (a :: b :: rest) ct m) := by
  unfold oneofPost; simp [IsErr]

/-- a `!type` that contradicts the key present -/
theorem oneof_type_mismatch (ops : List PropDef) (k name : Bytes) (m : Fields) (h : k ≠ name) :
    IsErr (oneofPost ops [k] (some name) m) := by
  unfold oneofPost; simp [h, IsErr]

/-- a `!type` naming no member (and no key) -/
theorem oneof_type_unknown (ops : List PropDef) (name : Bytes) (m : Fields)
    (h : findProp ops name = none) : IsErr (oneofPost ops [] (some name) m) := by
  unfold oneofPost; simp [h, IsErr]

/-- a failing post-check fails the oneof, whatever the closer -/
theorem finishOneof_post_err (ops : List PropDef) (st : PS) (found : List Bytes) (ct : Option Bytes)
    (term : Term) (h : IsErr (oneofPost ops found ct st.m)) :
    IsErr (finishOneof ops (.ok (st, found, ct, term))) := by
  obtain ⟨e, he⟩ := h
  unfold finishOneof
  simp only []
  split
  · exact IsErr_err _
  · simp [he, IsErr]

/-- the member loop of a oneof records every non-`!type` key it meets, so two keys give
`found.length ≥ 2` -/
theorem decOneofMembers_found_grows (c : Cfg) (ops : List PropDef) :
    ∀ (ms : PMembers) (st : PS) (found : List Bytes) (ct : Option Bytes) (st' : PS) (found' : List Bytes)
      (ct' : Option Bytes) (term : Term),
      decOneofMembers c ops ms st found ct = .ok (st', found', ct', term) →
      found.length ≤ found'.length
  | .nil t, st, found, ct, st', found', ct', term, h => by
    simp only [decOneofMembers] at h; cases h; exact Nat.le_refl _
  | .cons k kr v rest, st, found, ct, st', found', ct', term, h => by
    unfold decOneofMembers at h
    split at h
    · split at h
      · exact decOneofMembers_found_grows c ops rest _ _ _ _ _ _ _ h
      · cases h
    · split at h
      · cases h
      · split at h
        · have := decOneofMembers_found_grows c ops rest _ _ _ _ _ _ _ h
          simp at this; omega
        · cases h
        · cases h

end J5V.Codec
