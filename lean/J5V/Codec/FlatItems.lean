import J5V.Codec.StoredFlat
import J5V.Codec.DecodeProofs
/-!
# `Env.flat → Env.itemsOk`

The class C01 / C03 are proved for satisfies the schema well-formedness C06 needs (array / map items
are never arrays or maps), so theorems that combine both need only `Env.flat`.
-/
namespace J5V.Codec
open J5V.Go J5V.Json

theorem fieldOk_of_simple (f : Field) (h : fieldSimple f = true) : fieldOk f = true := by
  cases f with
  | array i => cases i <;> simp_all [fieldSimple, itemSimple, fieldOk]
  | map i => cases i <;> simp_all [fieldSimple, itemSimple, fieldOk]
  | _ => rfl

theorem fieldOk_of_exposed (env : Env) (p : PropDef) (h : propExposed env p = true) :
    fieldOk p.field = true := by
  unfold propExposed at h
  cases hf : p.field <;> simp_all [fieldOk]

theorem rootOk_of_flat (env : Env) (r : Root) (h : rootFlat env r = true) : rootOk r = true := by
  cases r with
  | object ps =>
    simp only [rootFlat, Bool.and_eq_true] at h
    obtain ⟨⟨⟨hall, _⟩, _⟩, _⟩ := h
    simp only [rootOk, propsOk]
    apply List.all_eq_true.mpr
    intro p hp
    have := List.all_eq_true.mp hall p hp
    simp only [Bool.or_eq_true] at this
    rcases this with h1 | h1
    · simp only [propFlat, Bool.and_eq_true] at h1
      exact fieldOk_of_simple _ h1.2
    · exact fieldOk_of_exposed env p h1
  | oneof ps =>
    simp only [rootFlat, rootSimple, Bool.and_eq_true] at h
    obtain ⟨⟨⟨hall, _⟩, _⟩, _⟩ := h
    simp only [rootOk, propsOk]
    apply List.all_eq_true.mpr
    intro p hp
    have := List.all_eq_true.mp hall p hp
    simp only [propSimple, Bool.and_eq_true] at this
    exact fieldOk_of_simple _ this.2
  | «enum» pfx opts => rfl
  | noschema => rfl

theorem itemsOk_of_flat (env : Env) (h : env.flat = true) : env.itemsOk = true := by
  unfold Env.flat at h
  simp only [Bool.and_eq_true] at h
  unfold Env.itemsOk
  apply List.all_eq_true.mpr
  intro d hd
  exact rootOk_of_flat env d.2 (List.all_eq_true.mp h.1 d hd)

end J5V.Codec
