import J5V.Codec.EncTotal
/-!
# The encoder model does not depend on its fuel (C08 / C01)

Above the bound of `EncTotal` (five levels per nesting level of the message) every function of the
encoder model returns the same result at every fuel: `encodeTree` computes the fuel-free semantics.
In particular the silent `false` of `hasProp` at fuel 0 (an exposed oneof would be omitted) is never
reached. Same hypothesis as `EncTotal`: `Env.oneofsPlain`.
-/
namespace J5V.Codec
open J5V.Go J5V.Json

theorem hasProp_plain (env : Env) (f : Nat) (p : PropDef) (m : Fields) (hp : p.path ≠ []) :
    hasProp env (f + 1) p m = (getPath m p.path).isSome := by
  unfold hasProp
  split
  · next h => exact absurd h hp
  · rfl

theorem oneofSet_stable (env : Env) (f g : Nat) (ops : List PropDef) (m : Fields)
    (hops : ∀ q ∈ ops, q.path ≠ []) :
    oneofSet env (f + 1) ops m = oneofSet env (g + 1) ops m := by
  funext q
  unfold oneofSet
  cases h : findProp ops q.jsonName with
  | none => rfl
  | some q' =>
    simp only []
    rw [hasProp_plain env f q' m (hops q' (findProp_mem ops _ q' h)),
      hasProp_plain env g q' m (hops q' (findProp_mem ops _ q' h))]

theorem hasProp_exposed_stable (env : Env) (hE : env.oneofsPlain = true) (f g : Nat) (p : PropDef)
    (m : Fields) (hp : p.path = []) : hasProp env (f + 2) p m = hasProp env (g + 2) p m := by
  unfold hasProp
  rw [hp]
  simp only []
  cases hf : p.field with
  | oneof ref =>
    simp only []
    cases hfind : env.find ref with
    | none => rfl
    | some r =>
      cases r with
      | oneof ops =>
        simp only []
        have := oneofSet_stable env f g ops m (oneofsPlain_find env hE ref ops hfind)
        unfold oneofSet at this
        rw [this]
      | _ => rfl
  | _ => rfl

structure ESt (env : Env) (O : Oracle) (f g : Nat) : Prop where
  val : ∀ fld v, 5 * v.depth + 1 ≤ f → encValue env O f fld v = encValue env O g fld v
  obj : ∀ props fs, 5 * depthFields fs + 5 ≤ f →
    encObjectBody env O f props fs = encObjectBody env O g props fs
  one : ∀ ops fs, (∀ q ∈ ops, q.path ≠ []) → 5 * depthFields fs + 3 ≤ f →
    encOneofBody env O f ops fs = encOneofBody env O g ops fs
  fldE : ∀ p fs, p.path = [] → 5 * depthFields fs + 4 ≤ f →
    encField env O f p fs = encField env O g p fs
  fldP : ∀ p fs, p.path ≠ [] → 5 * depthFields fs + 2 ≤ f →
    encField env O f p fs = encField env O g p fs
  root : ∀ r v, 5 * v.depth + 1 ≤ f → encRoot env O f r v = encRoot env O g r v

theorem ESt_fldP (env : Env) (O : Oracle) (f g : Nat) (ih : ESt env O f g) :
    ∀ p fs, p.path ≠ [] → 5 * depthFields fs + 2 ≤ f + 1 →
      encField env O (f + 1) p fs = encField env O (g + 1) p fs := by
  intro p fs hp hd
  unfold encField
  split
  · next h => exact absurd h hp
  · next path hne =>
    cases hg : getPath fs p.path with
    | none => rfl
    | some v =>
      have hv := depth_getPath p.path fs v hg
      simp only []
      rw [ih.val p.field v (by omega)]

theorem ESt_fldE (env : Env) (O : Oracle) (hE : env.oneofsPlain = true) (f g : Nat)
    (ih : ESt env O f g) (hfg : f ≤ g) :
    ∀ p fs, p.path = [] → 5 * depthFields fs + 4 ≤ f + 1 →
      encField env O (f + 1) p fs = encField env O (g + 1) p fs := by
  intro p fs hp hd
  obtain ⟨f', rfl⟩ : ∃ f', f = f' + 1 := ⟨f - 1, by omega⟩
  obtain ⟨g', rfl⟩ : ∃ g', g = g' + 1 := ⟨g - 1, by omega⟩
  unfold encField
  rw [hp]
  simp only []
  cases hf : p.field with
  | oneof ref =>
    simp only []
    cases hfind : env.find ref with
    | none => rfl
    | some r =>
      cases r with
      | oneof ops =>
        simp only []
        rw [hasProp_exposed_stable env hE f' g' p fs hp,
          ih.one ops fs (oneofsPlain_find env hE ref ops hfind) (by omega)]
      | _ => rfl
  | _ => rfl

theorem ESt_fld (env : Env) (O : Oracle) (f g : Nat) (ih : ESt env O f g) (p : PropDef) (fs : Fields)
    (hd : 5 * depthFields fs + 4 ≤ f) : encField env O f p fs = encField env O g p fs := by
  cases hp : p.path with
  | nil => exact ih.fldE p fs hp hd
  | cons a b => exact ih.fldP p fs (by rw [hp]; simp) (by omega)

theorem ESt_obj (env : Env) (O : Oracle) (f g : Nat) (ih : ESt env O f g) :
    ∀ props fs, 5 * depthFields fs + 5 ≤ f + 1 →
      encObjectBody env O (f + 1) props fs = encObjectBody env O (g + 1) props fs := by
  intro props fs hd
  unfold encObjectBody
  have hfld : ∀ q, encField env O f q fs = encField env O g q fs :=
    fun q => ESt_fld env O f g ih q fs (by omega)
  simp only [hfld]

theorem ESt_one (env : Env) (O : Oracle) (f g : Nat) (ih : ESt env O f g) :
    ∀ ops fs, (∀ q ∈ ops, q.path ≠ []) → 5 * depthFields fs + 3 ≤ f + 1 →
      encOneofBody env O (f + 1) ops fs = encOneofBody env O (g + 1) ops fs := by
  intro ops fs hops hd
  unfold encOneofBody
  rw [oneofSet_stable env f g ops fs hops]
  split
  · rfl
  · next q0 _ =>
    cases hq : findProp ops q0.jsonName with
    | none => rfl
    | some q =>
      simp only []
      rw [ih.fldP q fs (hops q (findProp_mem ops _ q hq)) (by omega)]
  · rfl

theorem ESt_root (env : Env) (O : Oracle) (hE : env.oneofsPlain = true) (f g : Nat)
    (ih : ESt env O f g) :
    ∀ r v, 5 * v.depth + 1 ≤ f + 1 → encRoot env O (f + 1) r v = encRoot env O (g + 1) r v := by
  intro r v hd
  unfold encRoot
  split
  · next props fs hfind =>
    simp only [PVal.depth] at hd
    exact ih.obj props fs (by omega)
  · next ops fs hfind =>
    simp only [PVal.depth] at hd
    exact ih.one ops fs (oneofsPlain_find env hE r ops hfind) (by omega)
  · rfl

theorem foldr_congr_mem {α β : Type} (g1 g2 : α → β → β) (b : β) (xs : List α)
    (h : ∀ x ∈ xs, g1 x = g2 x) : xs.foldr g1 b = xs.foldr g2 b := by
  induction xs with
  | nil => rfl
  | cons x t ih =>
    simp only [List.foldr_cons]
    rw [h x List.mem_cons_self, ih fun y hy => h y (List.mem_cons_of_mem _ hy)]

theorem ESt_val (env : Env) (O : Oracle) (hE : env.oneofsPlain = true) (f g : Nat)
    (ih : ESt env O f g) :
    ∀ fld v, 5 * v.depth + 1 ≤ f + 1 → encValue env O (f + 1) fld v = encValue env O (g + 1) fld v := by
  intro fld v hd
  unfold encValue
  cases fld with
  | scalar k => rfl
  | «enum» ref => rfl
  | object ref =>
    simp only []
    split
    · next props fs hfind =>
      simp only [PVal.depth] at hd
      exact ih.obj props fs (by omega)
    · rfl
  | oneof ref =>
    simp only []
    split
    · next ops fs hfind =>
      simp only [PVal.depth] at hd
      exact ih.one ops fs (oneofsPlain_find env hE ref ops hfind) (by omega)
    · rfl
  | array item =>
    simp only []
    split
    · rfl
    · rfl
    · rfl
    · next xs _ _ _ =>
      simp only [PVal.depth] at hd
      rw [foldr_congr_mem (fun x acc => consElem (encValue env O f item x) acc)
        (fun x acc => consElem (encValue env O g item x) acc) _ xs
        (fun x hx => by
          have := depthList_mem xs x hx
          rw [ih.val item x (by omega)])]
    · rfl
  | map item =>
    simp only []
    split
    · rfl
    · rfl
    · rfl
    · next kvs _ _ _ =>
      simp only [PVal.depth] at hd
      rw [foldr_congr_mem (fun kv acc => consMember (member kv.1 (encValue env O f item kv.2)) acc)
        (fun kv acc => consMember (member kv.1 (encValue env O g item kv.2)) acc) _ kvs
        (fun kv hkv => by
          have := depthMap_mem kvs kv.1 kv.2 hkv
          rw [ih.val item kv.2 (by omega)])]
    · rfl
  | any pb =>
    cases v with
    | anyJ5 tn proto j5 ik iroot inner =>
      simp only [PVal.depth] at hd
      simp only []
      cases ik with
      | inn => rw [ih.root iroot inner (by omega)]
      | _ => rfl
    | anyPb url val ik iroot inner =>
      simp only [PVal.depth] at hd
      simp only []
      cases ik with
      | inn => rw [ih.root iroot inner (by omega)]
      | _ => rfl
    | _ => rfl

theorem ESt_all (env : Env) (O : Oracle) (hE : env.oneofsPlain = true) :
    ∀ f g, f ≤ g → ESt env O f g := by
  intro f
  induction f with
  | zero =>
    intro g _
    refine ⟨?_, ?_, ?_, ?_, ?_, ?_⟩
    · intro _ _ h; omega
    · intro _ _ h; omega
    · intro _ _ _ h; omega
    · intro _ _ _ h; omega
    · intro _ _ _ h; omega
    · intro _ _ h; omega
  | succ f ih =>
    intro g hg
    obtain ⟨g', rfl⟩ : ∃ g', g = g' + 1 := ⟨g - 1, by omega⟩
    have ih' := ih g' (by omega)
    exact ⟨ESt_val env O hE f g' ih', ESt_obj env O f g' ih', ESt_one env O f g' ih',
      ESt_fldE env O hE f g' ih' (by omega), ESt_fldP env O f g' ih', ESt_root env O hE f g' ih'⟩

/-- **fuel independence**: at every fuel from `encFuel` on, the encoder model computes the same
tree — `encodeTree` is the fuel-free semantics of the encoder -/
theorem encRoot_fuel_stable (env : Env) (O : Oracle) (hE : env.oneofsPlain = true) (root : String)
    (v : PVal) (F : Nat) (hF : encFuel v ≤ F) : encRoot env O F root v = encodeTree env O root v := by
  unfold encodeTree
  exact ((ESt_all env O hE (encFuel v) F hF).root root v (by unfold encFuel; omega)).symm

end J5V.Codec
