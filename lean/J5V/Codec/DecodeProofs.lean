import J5V.Codec.Query
/-!
# Totality of the decoder model: no `.panic` outcome is reachable (C06)
-/
namespace J5V.Codec
open J5V.Go J5V.Json

/-- proto has no repeated-of-repeated / map-of-map fields: array and map items are never arrays or
maps (`newFieldFactory` panics on such a schema) -/
def fieldOk : Field → Bool
  | .array (.array _) | .array (.map _) | .map (.array _) | .map (.map _) => false
  | _ => true

def propsOk (ps : List PropDef) : Bool := ps.all fun p => fieldOk p.field

def rootOk : Root → Bool
  | .object ps => propsOk ps
  | .oneof ps => propsOk ps
  | _ => true

/-- the decidable well-formedness of an environment that C06 needs -/
def Env.itemsOk (env : Env) : Bool := env.defs.all fun d => rootOk d.2

def NP {α} (o : Outcome α) : Prop := ∀ w, o ≠ .panic w

theorem NP_ok {α} (a : α) : NP (Outcome.ok a) := by intro w h; cases h
theorem NP_err {α} (e : String) : NP (Outcome.err e : Outcome α) := by intro w h; cases h

/-- closes goals `NP (if … then .ok … else .err …)` by splitting to the leaves -/
macro "np_leaves" : tactic =>
  `(tactic| repeat' (first | exact NP_ok _ | exact NP_err _ | split))

theorem NP_bind {α β} (x : Outcome α) (f : α → Outcome β) (hx : NP x) (hf : ∀ a, NP (f a)) :
    NP (x.bind f) := by
  intro w
  cases x with
  | ok a => exact hf a w
  | err e => simp [Outcome.bind]
  | panic w' => exact absurd rfl (hx w')

theorem find_rootOk (env : Env) (h : env.itemsOk = true) (name : String) (r : Root)
    (hf : env.find name = some r) : rootOk r = true := by
  unfold Env.find at hf
  cases hd : env.defs.find? (fun d => d.1 == name) with
  | none => simp [hd] at hf
  | some d =>
    simp only [hd, Option.map_some, Option.some.injEq] at hf
    subst hf
    have hm := List.mem_of_find?_eq_some hd
    unfold Env.itemsOk at h
    exact List.all_eq_true.mp h d hm

theorem findProp_mem (props : List PropDef) (k : Bytes) (p : PropDef) (h : findProp props k = some p) :
    p ∈ props := by
  unfold findProp at h
  have := List.mem_of_find?_eq_some h
  simpa using this

theorem propsOk_mem (props : List PropDef) (h : propsOk props = true) (p : PropDef) (hp : p ∈ props) :
    fieldOk p.field = true := by
  unfold propsOk at h
  exact List.all_eq_true.mp h p hp

theorem decodeScalar_np (O : Oracle) (k : ScalarKind) (t : GoTok) : NP (decodeScalar O k t) := by
  intro w
  cases k <;> cases t <;> simp only [decodeScalar] <;> (repeat' split) <;> simp

theorem createField_np (props : List PropDef) (p : PropDef) (st : PS) :
    NP (createField props p st) := by
  intro w; unfold createField; (repeat' split) <;> simp

theorem oneofPost_np (ops : List PropDef) (found : List Bytes) (ct : Option Bytes) (m : Fields) :
    NP (oneofPost ops found ct m) := by
  intro w; unfold oneofPost; (repeat' split) <;> simp

theorem decScalarProp_np (c : Cfg) (props : List PropDef) (p : PropDef) (k : ScalarKind) (t : PTree)
    (st : PS) : NP (decScalarProp c props p k t st) := by
  unfold decScalarProp
  split
  · exact NP_err _
  · exact NP_err _
  · exact NP_ok _
  · apply NP_bind _ _ (createField_np _ p st)
    intro st1
    split
    · exact NP_err _
    · split
      · exact NP_err _
      · exact NP_bind _ _ (decodeScalar_np _ _ _) (fun v => NP_ok _)

theorem decEnumProp_np (c : Cfg) (props : List PropDef) (p : PropDef) (ref : String) (t : PTree)
    (st : PS) : NP (decEnumProp c props p ref t st) := by
  unfold decEnumProp
  split
  · exact NP_err _
  · exact NP_err _
  · exact NP_ok _
  · apply NP_bind _ _ (createField_np _ p st)
    intro st1
    split
    · exact NP_err _
    · split
      · split
        · exact NP_ok _
        · exact NP_err _
      · exact NP_err _

theorem finishObjectProp_np (props : List PropDef) (p : PropDef) (st1 : PS) (r : Outcome (PS × Term))
    (h : NP r) : NP (finishObjectProp props p st1 r) := by
  unfold finishObjectProp
  apply NP_bind _ _ h
  intro a
  np_leaves

theorem finishOneofProp_np (ops props : List PropDef) (p : PropDef) (st1 : PS)
    (r : Outcome (PS × List Bytes × Option Bytes × Term)) (h : NP r) :
    NP (finishOneofProp ops props p st1 r) := by
  unfold finishOneofProp
  apply NP_bind _ _ h
  intro a
  split
  split
  · exact NP_err _
  · apply NP_bind _ _ (oneofPost_np _ _ _ _)
    intro tp
    np_leaves

theorem finishArrayProp_np (props : List PropDef) (p : PropDef) (st1 : PS)
    (r : Outcome (List PVal × Term)) (h : NP r) : NP (finishArrayProp props p st1 r) := by
  unfold finishArrayProp
  apply NP_bind _ _ h
  intro a
  np_leaves

theorem finishMapProp_np (props : List PropDef) (p : PropDef) (st1 : PS)
    (r : Outcome (List (Bytes × PVal) × Term)) (h : NP r) : NP (finishMapProp props p st1 r) := by
  unfold finishMapProp
  apply NP_bind _ _ h
  intro a
  np_leaves

theorem finishObject_np (r : Outcome (PS × Term)) (h : NP r) : NP (finishObject r) := by
  intro w
  unfold finishObject
  split
  · split <;> simp
  · simp
  · rename_i w' ; exact absurd rfl (h w')

theorem finishOneof_np (ops : List PropDef) (r : Outcome (PS × List Bytes × Option Bytes × Term))
    (h : NP r) : NP (finishOneof ops r) := by
  intro w
  unfold finishOneof
  split
  · split
    · simp
    · split
      · split <;> simp
      · simp
      · rename_i w' heq; exact absurd heq (oneofPost_np _ _ _ _ w')
  · simp
  · rename_i w'; exact absurd rfl (h w')

/-- the accumulator of `decodeAny` never holds a panicking inner outcome -/
def AnyAcc.npInner (acc : AnyAcc) : Prop := NP acc.inner

theorem finishAnyProp_np (c : Cfg) (props : List PropDef) (p : PropDef) (pb : Bool) (st1 : PS)
    (r : Outcome (AnyAcc × Term)) (h : NP r) (hin : ∀ acc term, r = .ok (acc, term) → NP acc.inner) :
    NP (finishAnyProp c props p pb st1 r) := by
  unfold finishAnyProp
  intro w
  cases r with
  | err e => simp [Outcome.bind]
  | panic w' => exact absurd rfl (h w')
  | ok a =>
    obtain ⟨acc, term⟩ := a
    have hacc := hin acc term rfl
    simp only [Outcome.bind]
    revert w
    show NP _
    split
    · exact NP_err _
    · split
      · exact NP_err _
      · exact NP_err _
      · apply NP_bind
        · split
          · exact hacc
          · exact NP_ok _
        · intro inner
          np_leaves

theorem itemCheck_np (item : Field) (h : fieldOk (.array item) = true) : NP (itemCheck item) := by
  intro w
  cases item <;> simp [itemCheck, fieldOk] at h ⊢

theorem itemCheck_np_map (item : Field) (h : fieldOk (.map item) = true) : NP (itemCheck item) := by
  intro w
  cases item <;> simp [itemCheck, fieldOk] at h ⊢

end J5V.Codec

namespace J5V.Codec
open J5V.Go J5V.Json

theorem find_object_ok (c : Cfg) (hc : c.env.itemsOk = true) (ref : String) (sub : List PropDef)
    (h : c.env.find ref = some (.object sub)) : propsOk sub = true := by
  have := find_rootOk c.env hc ref _ h
  simpa [rootOk] using this

theorem find_oneof_ok (c : Cfg) (hc : c.env.itemsOk = true) (ref : String) (sub : List PropDef)
    (h : c.env.find ref = some (.oneof sub)) : propsOk sub = true := by
  have := find_rootOk c.env hc ref _ h
  simpa [rootOk] using this

mutual
theorem decProp_np (c : Cfg) (hc : c.env.itemsOk = true) (props : List PropDef) (p : PropDef)
    (hp : fieldOk p.field = true) (t : PTree) (st : PS) : NP (decProp c props p t st) := by
  unfold decProp
  split
  · exact decScalarProp_np _ _ _ _ _ _
  · exact decEnumProp_np _ _ _ _ _ _
  · -- object
    split
    · exact NP_ok _
    · rename_i ms
      apply NP_bind _ _ (createField_np _ p st)
      intro st1
      split
      · exact NP_err _
      · split
        · rename_i sub hfind
          exact finishObjectProp_np _ _ _ _
            (decObjMembers_np c hc sub (find_object_ok c hc _ sub hfind) ms _)
        · exact NP_err _
    · exact NP_err _
  · -- oneof
    split
    · exact NP_ok _
    · rename_i ms
      apply NP_bind _ _ (createField_np _ p st)
      intro st1
      split
      · rename_i ops hfind
        exact finishOneofProp_np _ _ _ _ _
          (decOneofMembers_np c hc ops (find_oneof_ok c hc _ ops hfind) ms _ _ _)
      · exact NP_err _
    · exact NP_err _
  · -- any
    split
    · exact NP_ok _
    · rename_i ms
      apply NP_bind _ _ (createField_np _ p st)
      intro st1
      split
      · exact NP_err _
      · have h := decAnyMembers_np c hc (finalType ms none) ms {} (NP_ok _)
        exact finishAnyProp_np _ _ _ _ _ _ h.1 h.2
    · exact NP_err _
  · -- array
    rename_i item hfield
    split
    · exact NP_ok _
    · rename_i xs
      apply NP_bind _ _ (createField_np _ p st)
      intro st1
      split
      · exact NP_err _
      · apply NP_bind _ _ (itemCheck_np item (by rw [← hfield]; exact hp))
        intro _
        exact finishArrayProp_np _ _ _ _ (decElems_np c hc item xs _)
    · exact NP_err _
  · -- map
    rename_i item hfield
    split
    · exact NP_ok _
    · rename_i ms
      apply NP_bind _ _ (createField_np _ p st)
      intro st1
      split
      · exact NP_err _
      · apply NP_bind _ _ (itemCheck_np_map item (by rw [← hfield]; exact hp))
        intro _
        exact finishMapProp_np _ _ _ _ (decMapMembers_np c hc item ms _)
    · exact NP_err _
termination_by sizeOf t

theorem decObjMembers_np (c : Cfg) (hc : c.env.itemsOk = true) (props : List PropDef)
    (hps : propsOk props = true) (ms : PMembers) (st : PS) : NP (decObjMembers c props ms st) := by
  intro w
  cases ms with
  | nil term => unfold decObjMembers; split <;> simp
  | cons k kr v rest =>
    unfold decObjMembers
    split
    · simp
    · rename_i p hfp
      split
      · exact decObjMembers_np c hc props hps rest _ w
      · simp
      · rename_i w' heq
        exact absurd heq
          (decProp_np c hc props p (propsOk_mem props hps p (findProp_mem props k p hfp)) v st w')
termination_by sizeOf ms

theorem decOneofMembers_np (c : Cfg) (hc : c.env.itemsOk = true) (ops : List PropDef)
    (hps : propsOk ops = true) (ms : PMembers) (st : PS) (found : List Bytes) (ct : Option Bytes) :
    NP (decOneofMembers c ops ms st found ct) := by
  intro w
  cases ms with
  | nil term => unfold decOneofMembers; simp
  | cons k kr v rest =>
    unfold decOneofMembers
    split
    · split
      · exact decOneofMembers_np c hc ops hps rest _ _ _ w
      · simp
    · split
      · simp
      · rename_i p hfp
        split
        · exact decOneofMembers_np c hc ops hps rest _ _ _ w
        · simp
        · rename_i w' heq
          exact absurd heq
            (decProp_np c hc ops p (propsOk_mem ops hps p (findProp_mem ops k p hfp)) v st w')
termination_by sizeOf ms

theorem decAnyMembers_np (c : Cfg) (hc : c.env.itemsOk = true) (ftype : Option Bytes) (ms : PMembers)
    (acc : AnyAcc) (hacc : NP acc.inner) :
    NP (decAnyMembers c ftype ms acc) ∧
      ∀ acc' term, decAnyMembers c ftype ms acc = .ok (acc', term) → NP acc'.inner := by
  cases ms with
  | nil term =>
    unfold decAnyMembers
    refine ⟨NP_ok _, ?_⟩
    intro acc' term' h
    cases h; exact hacc
  | cons k kr v rest =>
    unfold decAnyMembers
    split
    · split
      · exact decAnyMembers_np c hc ftype rest _ hacc
      · exact ⟨NP_err _, by intro _ _ h; cases h⟩
    · split
      · exact ⟨NP_err _, by intro _ _ h; cases h⟩
      · split
        · exact ⟨NP_err _, by intro _ _ h; cases h⟩
        · split
          · exact ⟨NP_err _, by intro _ _ h; cases h⟩
          · apply decAnyMembers_np c hc ftype rest
            simp only []
            split
            · exact NP_ok _
            · split
              · exact NP_err _
              · split
                · exact NP_err _
                · rename_i root hres
                  have := decRootTree_np { c with anyDepth := c.anyDepth + 1 } hc root v
                  intro w
                  split
                  · simp
                  · simp
                  · rename_i w' heq; exact absurd heq (this w')
termination_by sizeOf ms

theorem decElems_np (c : Cfg) (hc : c.env.itemsOk = true) (item : Field) (xs : PElems)
    (acc : List PVal) : NP (decElems c item xs acc) := by
  intro w
  cases xs with
  | nil term => unfold decElems; split <;> simp
  | cons v rest =>
    unfold decElems
    split
    · -- scalar
      split
      · simp
      · split
        · exact decElems_np c hc _ rest _ w
        · simp
        · simp
        · rename_i w' heq; exact absurd heq (decodeScalar_np _ _ _ w')
    · -- enum
      split
      · split
        · exact decElems_np c hc _ rest _ w
        · simp
      · simp
    · -- object
      split
      · rename_i sub hfind
        split
        · exact decElems_np c hc _ rest _ w
        · simp
        · rename_i w' heq
          exact absurd heq (decObject_np c hc sub (find_object_ok c hc _ sub hfind) v w')
      · simp
    · -- oneof
      split
      · rename_i ops hfind
        split
        · exact decElems_np c hc _ rest _ w
        · simp
        · rename_i w' heq
          exact absurd heq (decOneof_np c hc ops (find_oneof_ok c hc _ ops hfind) v w')
      · simp
    · simp
termination_by sizeOf xs

theorem decMapMembers_np (c : Cfg) (hc : c.env.itemsOk = true) (item : Field) (ms : PMembers)
    (acc : List (Bytes × PVal)) : NP (decMapMembers c item ms acc) := by
  intro w
  cases ms with
  | nil term => unfold decMapMembers; split <;> simp
  | cons k kr v rest =>
    unfold decMapMembers
    split
    · -- scalar
      split
      · simp
      · split
        · split
          · simp
          · exact decMapMembers_np c hc _ rest _ w
        · simp
        · simp
        · rename_i w' heq; exact absurd heq (decodeScalar_np _ _ _ w')
    · -- enum
      split
      · split
        · split
          · simp
          · exact decMapMembers_np c hc _ rest _ w
        · simp
      · simp
    · -- object
      split
      · simp
      · split
        · rename_i sub hfind
          split
          · exact decMapMembers_np c hc _ rest _ w
          · simp
          · rename_i w' heq
            exact absurd heq (decObject_np c hc sub (find_object_ok c hc _ sub hfind) v w')
        · simp
    · -- oneof
      split
      · simp
      · split
        · rename_i ops hfind
          split
          · exact decMapMembers_np c hc _ rest _ w
          · simp
          · rename_i w' heq
            exact absurd heq (decOneof_np c hc ops (find_oneof_ok c hc _ ops hfind) v w')
        · simp
    · simp
termination_by sizeOf ms

theorem decObject_np (c : Cfg) (hc : c.env.itemsOk = true) (props : List PropDef)
    (hps : propsOk props = true) (t : PTree) : NP (decObject c props t) := by
  unfold decObject
  split
  · rename_i ms
    exact finishObject_np _ (decObjMembers_np c hc props hps ms _)
  · exact NP_err _
termination_by sizeOf t

theorem decOneof_np (c : Cfg) (hc : c.env.itemsOk = true) (ops : List PropDef)
    (hps : propsOk ops = true) (t : PTree) : NP (decOneof c ops t) := by
  unfold decOneof
  split
  · rename_i ms
    exact finishOneof_np _ _ (decOneofMembers_np c hc ops hps ms _ _ _)
  · exact NP_err _
termination_by sizeOf t

theorem decRootTree_np (c : Cfg) (hc : c.env.itemsOk = true) (root : String) (t : PTree) :
    NP (decRootTree c root t) := by
  unfold decRootTree
  split
  · rename_i props hfind
    split
    · rename_i ms
      exact finishObject_np _ (decObjMembers_np c hc props (find_object_ok c hc _ props hfind) ms _)
    · exact NP_err _
  · rename_i ops hfind
    split
    · rename_i ms
      exact finishOneof_np _ _ (decOneofMembers_np c hc ops (find_oneof_ok c hc _ ops hfind) ms _ _ _)
    · exact NP_err _
  · exact NP_err _
termination_by sizeOf t
end

/-- `Codec.JSONToProto` never panics, on any byte string -/
theorem decodeBytes_np (c : Cfg) (hc : c.env.itemsOk = true) (root : String) (bs : Bytes) :
    NP (decodeBytes c root bs) := decRootTree_np c hc root _

end J5V.Codec

namespace J5V.Codec
open J5V.Go J5V.Json

theorem qCreate_np (props : List PropDef) (p : PropDef) (hp : fieldOk p.field = true)
    (loc : List Nat) (trail : List Bytes) (st : QS) :
    NP (qCreate props p loc trail st) := by
  intro w
  unfold qCreate
  split
  · simp
  · split
    · simp
    · split <;> simp_all [fieldOk]

theorem qEnter_np (props : List PropDef) (p : PropDef) (hp : fieldOk p.field = true) (loc : List Nat)
    (trail : List Bytes) (st : QS) : NP (qEnter props p loc trail st) := by
  unfold qEnter
  split
  · exact NP_ok _
  · apply NP_bind _ _ (qCreate_np props p hp loc trail st)
    intro s
    np_leaves

theorem foldl_np {α β} (f : Outcome α → β → Outcome α) (hf : ∀ a b, NP (f (.ok a) b))
    (hp : ∀ x b, (∀ a, x ≠ .ok a) → f x b = x) (l : List β) (init : Outcome α) (hi : NP init) :
    NP (l.foldl f init) := by
  induction l generalizing init with
  | nil => exact hi
  | cons b t ih =>
    simp only [List.foldl_cons]
    apply ih
    cases init with
    | ok a => exact hf a b
    | err e => rw [hp _ _ (by intro a h; cases h)]; exact NP_err _
    | panic w => exact absurd rfl (hi w)

theorem queryLeaf_np (c : Cfg) (hc : c.env.itemsOk = true) (props : List PropDef) (p : PropDef)
    (loc : List Nat) (trail : List Bytes) (values : List Bytes) (hv : values ≠ []) (st : QS) :
    NP (queryLeaf c props p loc trail values st) := by
  intro w
  unfold queryLeaf
  simp only []
  split
  · -- scalar
    split
    · simp
    · exact absurd rfl hv
    · split
      · simp
      · simp
      · rename_i w' heq; exact absurd heq (decodeScalar_np _ _ _ w')
  · -- enum
    split
    · simp
    · exact absurd rfl hv
    · split
      · split <;> simp
      · simp
  · -- array of scalar
    rename_i k _
    have : NP (values.foldl (fun (acc : Outcome (List PVal)) v =>
        match acc with
        | .ok l =>
          match decodeScalar c.O k (queryGoValue k v) with
          | .ok (some pv) => .ok (l ++ [pv])
          | .ok none => .err "cannot append a nil value"
          | .err e => .err e
          | .panic w => .panic w
        | other => other) (.ok [])) := by
      apply foldl_np
      · intro a b w
        simp only []
        split
        · simp
        · simp
        · simp
        · rename_i w' heq; exact absurd heq (decodeScalar_np _ _ _ w')
      · intro x b hx
        cases x with
        | ok a => exact absurd rfl (hx a)
        | err e => rfl
        | panic w => rfl
      · exact NP_ok _
    split
    · simp
    · simp
    · rename_i w' heq; exact absurd heq (this w')
  · -- array of enum
    split
    · rename_i pfx opts hfind
      have : NP (values.foldl (fun (acc : Outcome (List PVal)) v =>
          match acc with
          | .ok l =>
            match enumOptionByName pfx opts v with
            | some n => .ok (l ++ [.enum n])
            | none => .err "invalid value"
          | other => other) (.ok [])) := by
        apply foldl_np
        · intro a b w
          simp only []
          split <;> simp
        · intro x b hx
          cases x with
          | ok a => exact absurd rfl (hx a)
          | err e => rfl
          | panic w => rfl
        · exact NP_ok _
      split
      · simp
      · simp
      · rename_i w' heq; exact absurd heq (this w')
    · split <;> simp
  · -- object
    split
    · simp
    · exact absurd rfl hv
    · split
      · simp
      · split
        · rename_i sub hfind
          split
          · split
            · split <;> simp
            · simp
            · rename_i w' heq
              exact absurd heq (decObjMembers_np c hc sub (find_object_ok c hc _ sub hfind) _ _ w')
          · simp
        · simp
  · -- oneof
    split
    · simp
    · exact absurd rfl hv
    · split
      · simp
      · split
        · rename_i ops hfind
          split
          · split
            · split
              · simp
              · split
                · split <;> simp
                · simp
                · rename_i w' heq; exact absurd heq (oneofPost_np _ _ _ _ w')
            · simp
            · rename_i w' heq
              exact absurd heq (decOneofMembers_np c hc ops (find_oneof_ok c hc _ ops hfind) _ _ _ _ w')
          · simp
        · simp
  · simp

theorem queryKey_np (c : Cfg) (hc : c.env.itemsOk = true) (parts : List Bytes) (props : List PropDef)
    (hps : propsOk props = true) (loc : List Nat) (trail : List Bytes) (values : List Bytes)
    (hv : values ≠ []) (st : QS) : NP (queryKey c parts props loc trail values st) := by
  induction parts generalizing props loc trail st with
  | nil => unfold queryKey; exact NP_err _
  | cons part rest ih =>
    cases rest with
    | nil =>
      unfold queryKey
      intro w
      split
      · simp
      · rename_i p hfp
        have hpf := propsOk_mem props hps p (findProp_mem props _ p hfp)
        split
        · exact queryLeaf_np c hc props p loc trail values hv _ w
        · simp
        · rename_i w' heq; exact absurd heq (qCreate_np _ p hpf _ trail st w')
    | cons r2 rest2 =>
      unfold queryKey
      intro w
      split
      · simp
      · rename_i p hfp
        have hpf := propsOk_mem props hps p (findProp_mem props _ p hfp)
        simp only []
        split
        · rename_i s hs
          split
          · split
            · rename_i sub hfind
              exact ih sub (find_object_ok c hc _ sub hfind) _ _ _ w
            · simp
          · split
            · rename_i ops hfind
              exact ih ops (find_oneof_ok c hc _ ops hfind) _ _ _ w
            · simp
          · simp
        · simp
        · rename_i w' heq
          exact absurd heq (qEnter_np props p hpf loc trail st w')

/-- `Codec.QueryToProto` never panics, on any `url.Values` -/
theorem decodeQuery_np (c : Cfg) (hc : c.env.itemsOk = true) (root : String)
    (kvs : List (Bytes × List Bytes)) : NP (decodeQuery c root kvs) := by
  intro w
  unfold decodeQuery
  have key : ∀ props, propsOk props = true →
      NP (kvs.foldl (fun (acc : Outcome QS) kv =>
        match acc with
        | .ok st =>
          if kv.2.isEmpty then .err "no value provided for field"
          else queryKey c (splitDot kv.1) props [] [] kv.2 st
        | other => other) (.ok { m := [], seen := [] })) := by
    intro props hps
    apply foldl_np
    · intro a b
      simp only []
      split
      · exact NP_err _
      · rename_i hne
        exact queryKey_np c hc _ props hps _ _ _ (by intro h; rw [h] at hne; simp at hne) _
    · intro x b hx
      cases x with
      | ok a => exact absurd rfl (hx a)
      | err e => rfl
      | panic w => rfl
    · exact NP_ok _
  split
  · rename_i props hfind
    have := key props (find_object_ok c hc _ props hfind)
    simp only []
    split
    · simp
    · simp
    · rename_i w' heq; exact absurd heq (this w')
  · rename_i props hfind
    have := key props (find_oneof_ok c hc _ props hfind)
    simp only []
    split
    · simp
    · simp
    · rename_i w' heq; exact absurd heq (this w')
  · simp

end J5V.Codec
