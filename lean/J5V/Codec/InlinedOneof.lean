import J5V.Codec.RoundtripInd
/-!
# An exposed oneof inlined from a flattened object (C01, one property in isolation)

When an object `F` that declares an exposed oneof `kind` (members = fields `y` of `F` itself) is
flattened into its parent `M` at field `k`, `M` gets a property `kind` with the NON-empty proto path
`[k]` (in general: the path of the flattened message) and field `.oneof ref`, while the other
properties of `F` appear in `M` with the paths `[k, x]`. So the oneof's members live at `[k, y]`, in
the SAME sub-message as the siblings' leaves: the path of `kind` is a proper prefix of its
siblings' paths, which `Env.flat` (`prefixFree`) excludes from the whole-message induction.

This file proves what encoder and decoder do with such a property, for an arbitrary decoder state:
`decodeOneofProperty` starts from the sub-message that is ALREADY there (`oneofStart`), adds the
member and writes the whole sub-message back — the sibling leaves decoded before are kept.
-/
namespace J5V.Codec
open J5V.Go J5V.Json

/-- the decoder reading the one-member body `{"!type": name, name: value}` of a oneof property with
a proto path into ANY state: the member is added to the sub-message already stored at the path
(`S0`, which holds no member of the oneof — it may hold anything else), everything else in it is
kept -/
theorem dec_inlined_oneof_set (c : Cfg) (props : List PropDef) (p : PropDef) (st : PS)
    (ref : String) (ops : List PropDef) (hf : p.field = .oneof ref) (hp : p.path ≠ [])
    (hfind : c.env.find ref = some (.oneof ops)) (hroot : rootSimple (.oneof ops) = true)
    (hseen : p.jsonName ∉ st.seen) (hgb : groupBusy props p st.m = false)
    (q : PropDef) (k : Nat) (v : PVal) (tlit nlit qlit : Bytes) (tv : PTree)
    (hq : q ∈ ops) (hqk : q.path = [k]) (hdec : Dec c q.field v tv)
    (hz : (q.pres == .imp && v.isZero) = false) (hec : v.isEmptyColl = false)
    (hk : aget k (PVal.asMsg (getPath st.m p.path)) = none)
    (hothers : ∀ q' ∈ ops, ∀ k', q'.path = [k'] → k' ≠ k →
      aget k' (PVal.asMsg (getPath st.m p.path)) = none) :
    decProp c props p
        (.obj (.cons typeKey tlit (.str q.jsonName nlit) (.cons q.jsonName qlit tv (.nil .closed)))) st =
      .ok { m := updPath props p (some (.msg (aset k v (PVal.asMsg (getPath st.m p.path))))) st.m,
            seen := p.jsonName :: st.seen } := by
  obtain ⟨hloop, hpost⟩ := decOneof_one c ops hroot q k v tlit nlit qlit tv
    (PVal.asMsg (getPath st.m p.path)) hq hqk hdec hz hec hk hothers
  have hne : p.path.isEmpty = false := by
    cases hpp : p.path with
    | nil => exact absurd hpp hp
    | cons a b => rfl
  unfold decProp; rw [hf]; simp only []
  simp only [createField_fresh props p st hseen hgb, Outcome.bind, hfind]
  have hstart : oneofStart p { m := st.m, seen := p.jsonName :: st.seen } =
      { m := PVal.asMsg (getPath st.m p.path), seen := [] } := by
    unfold oneofStart; rw [hne]; rfl
  rw [hstart, hloop]
  simp [finishOneofProp, Outcome.bind, closeOk, hpost, applyPost, hne]

/-- … and the empty body `{}` (written when the flattened sub-message exists but no member of the
oneof is set): the sub-message already there is written back unchanged — created empty if it was
not there yet (the transient state the whole-message induction would have to carry) -/
theorem dec_inlined_oneof_empty (c : Cfg) (props : List PropDef) (p : PropDef) (st : PS)
    (ref : String) (ops : List PropDef) (hf : p.field = .oneof ref) (hp : p.path ≠ [])
    (hfind : c.env.find ref = some (.oneof ops))
    (hseen : p.jsonName ∉ st.seen) (hgb : groupBusy props p st.m = false) :
    decProp c props p (.obj (.nil .closed)) st =
      .ok { m := updPath props p (some (.msg (PVal.asMsg (getPath st.m p.path)))) st.m,
            seen := p.jsonName :: st.seen } := by
  have hne : p.path.isEmpty = false := by
    cases hpp : p.path with
    | nil => exact absurd hpp hp
    | cons a b => rfl
  unfold decProp; rw [hf]; simp only []
  simp only [createField_fresh props p st hseen hgb, Outcome.bind, hfind]
  have hstart : oneofStart p { m := st.m, seen := p.jsonName :: st.seen } =
      { m := PVal.asMsg (getPath st.m p.path), seen := [] } := by
    unfold oneofStart; rw [hne]; rfl
  rw [hstart]
  simp [decOneofMembers, finishOneofProp, Outcome.bind, closeOk, oneofPost, applyPost, hne]

/-- what the round trip of a member's value consists of (the facts the induction `RTP.val` provides
in a flat environment; here a hypothesis, so that the statement does not need `Env.flat` — an
environment that contains the inlined oneof is not flat) -/
def MemberFacts (c : Cfg) (f : Nat) (ops : List PropDef) (fs : Fields) : Prop :=
  ∀ q ∈ ops, ∀ k v, q.path = [k] → aget k fs = some v →
    ∃ tv, encValue c.env c.O f q.field v = .ok tv ∧ Dec c q.field v tv ∧
      (OracleWire c.O → Wire.Conforms c.env c.O q.field v tv) ∧
      (q.pres == .imp && v.isZero) = false ∧ v.isEmptyColl = false

/-- `encodeOneofBody` over ANY message `fs` in which at most one member of the oneof is set (the
other fields of `fs` are not looked at): `OneShape`, in every environment -/
theorem oneShape_of_members (c : Cfg) (f : Nat) (ops : List PropDef) (fs : Fields)
    (hroot : rootSimple (.oneof ops) = true) (hutf : ∀ p ∈ ops, isValidUtf8 p.jsonName = true)
    (hle : (ops.filter (isSet fs)).length ≤ 1) (hmem : MemberFacts c f ops fs) :
    OneShape c ops fs (encOneofBody c.env c.O (f + 2) ops fs) := by
  obtain ⟨hsimple, hnames, _, _⟩ := oneof_root_facts ops hroot
  simp only [encOneofBody]
  rw [oneofSet_eq c.env (f + 1) ops fs hroot]
  rcases length_le_one_cases _ hle with hnil | ⟨q, hone⟩
  · rw [hnil]; exact OneShape.empty hnil
  · rw [hone]
    have hqf : q ∈ ops.filter (isSet fs) := by rw [hone]; exact List.mem_singleton.mpr rfl
    obtain ⟨hq, hset⟩ := List.mem_filter.mp hqf
    obtain ⟨k, hqk⟩ := propSimple_path q (hsimple q hq)
    rw [isSet_single fs q k hqk] at hset
    cases hag : aget k fs with
    | none => simp [hag] at hset
    | some v =>
      obtain ⟨tv, htv, hdec, hcf, hz, hec⟩ := hmem q hq k v hqk hag
      simp only [findProp_self ops hnames q hq]
      obtain ⟨nlit, hnl⟩ := strNode_ok q.jsonName (hutf q hq)
      obtain ⟨tlit, htl⟩ := typeKey_lit
      simp only [hnl, htl]
      rw [encField_single c.env c.O f q k fs hqk]
      simp only [hag, htv]
      obtain ⟨qlit, hql⟩ := member_ok q.jsonName tv (hutf q hq)
      simp only [hql]
      exact OneShape.one q k v tlit nlit qlit tv hone hq hqk hag hdec hcf hz hec

/-- a scalar member provides the facts (every environment) -/
theorem memberFacts_scalar (c : Cfg) (L : OracleLaws c.O) (f : Nat) (q : PropDef) (k : ScalarKind)
    (v : PVal) (hqf : q.field = .scalar k) (hok : scalarOk c.O k v = true)
    (hz : (q.pres == .imp && v.isZero) = false) :
    ∃ tv, encValue c.env c.O (f + 1) q.field v = .ok tv ∧ Dec c q.field v tv ∧
      (OracleWire c.O → Wire.Conforms c.env c.O q.field v tv) ∧
      (q.pres == .imp && v.isZero) = false ∧ v.isEmptyColl = false := by
  obtain ⟨t, _, ht, _⟩ := scalarNode_roundtrip c.O L k v hok
  rw [hqf]
  refine ⟨t, by simp only [encValue]; exact ht, Dec_scalar c L k v t hok ht, ?_, hz, ?_⟩
  · intro W
    obtain ⟨t', ht', hc⟩ := scalar_conforms c.O L k (fun _ => W) v hok
    rw [ht] at ht'; cases ht'
    exact Wire.Conforms.scalar k v t hc
  · cases v <;> try rfl
    case list xs => cases k <;> simp [scalarOk, scalarRepr] at hok
    case map kvs => cases k <;> simp [scalarOk, scalarRepr] at hok

/-- **both directions, one property, every environment**: `S'` is the flattened sub-message as the
original message holds it (sibling leaves — not looked at — and at most one member of the oneof,
whose value round-trips: `MemberFacts`); the encoder writes the oneof body over `S'`; the decoder,
in a state whose sub-message `S0` at the property's path holds no member of the oneof and is `S'`
without the oneof's member (`hS`: `S' = S0`, or `S' = aset k v S0` for the member at field `k`),
reads that body back, and the sub-message becomes exactly `S'`: the member is restored next to the
sibling leaves decoded before. -/
theorem inlined_oneof_roundtrip (c : Cfg) (props : List PropDef) (p : PropDef) (st : PS)
    (ref : String) (ops : List PropDef) (hf : p.field = .oneof ref) (hp : p.path ≠ [])
    (hfind : c.env.find ref = some (.oneof ops)) (hroot : rootSimple (.oneof ops) = true)
    (hutf : ∀ q ∈ ops, isValidUtf8 q.jsonName = true)
    (hseen : p.jsonName ∉ st.seen) (hgb : groupBusy props p st.m = false)
    (S' : Fields) (f : Nat)
    (hone : (ops.filter (isSet S')).length ≤ 1) (hmem : MemberFacts c f ops S')
    (hS0 : ∀ q ∈ ops, ∀ k, q.path = [k] → aget k (PVal.asMsg (getPath st.m p.path)) = none)
    (hS : S' = PVal.asMsg (getPath st.m p.path) ∨
      ∃ q ∈ ops, ∃ k v, q.path = [k] ∧ S' = aset k v (PVal.asMsg (getPath st.m p.path))) :
    ∃ t, encValue c.env c.O (f + 3) (.oneof ref) (.msg S') = .ok t ∧
      decProp c props p t st =
        .ok { m := updPath props p (some (.msg S')) st.m, seen := p.jsonName :: st.seen } := by
  have hshape := oneShape_of_members c f ops S' hroot hutf hone hmem
  have henc : encValue c.env c.O (f + 3) (.oneof ref) (.msg S') =
      encOneofBody c.env c.O (f + 2) ops S' := by
    simp only [encValue, hfind]
  rw [henc]
  generalize encOneofBody c.env c.O (f + 2) ops S' = r at hshape
  cases hshape with
  | empty hnil =>
    refine ⟨_, rfl, ?_⟩
    have hS'0 : S' = PVal.asMsg (getPath st.m p.path) := by
      rcases hS with h | ⟨q, hq, k, v, hqk, h⟩
      · exact h
      · exfalso
        have := filter_nil_unset ops S' hnil q hq k hqk
        rw [h, aget_aset] at this
        simp at this
    rw [hS'0]
    exact dec_inlined_oneof_empty c props p st ref ops hf hp hfind hseen hgb
  | one q k v tlit nlit qlit tv hone' hq hqk hag hdec hcf hz hec =>
    refine ⟨_, rfl, ?_⟩
    have hS'1 : S' = aset k v (PVal.asMsg (getPath st.m p.path)) := by
      rcases hS with h | ⟨q2, hq2, k2, v2, hqk2, h⟩
      · exfalso
        rw [h, hS0 q hq k hqk] at hag
        cases hag
      · have hk2 : k2 = k := by
          cases Nat.decEq k2 k with
          | isTrue e => exact e
          | isFalse ne =>
            exfalso
            have := filter_one_others ops S' q k hone' hqk q2 hq2 k2 hqk2 ne
            rw [h, aget_aset] at this
            simp at this
        subst hk2
        have : v2 = v := by
          rw [h, aget_aset] at hag
          simpa using hag
        subst this
        exact h
    rw [hS'1]
    exact dec_inlined_oneof_set c props p st ref ops hf hp hfind hroot hseen hgb q k v tlit nlit qlit tv
      hq hqk hdec hz hec (hS0 q hq k hqk) (fun q' hq' k' hk' _ => hS0 q' hq' k' hk')

end J5V.Codec
