import J5V.Codec.RoundtripFlat
/-!
# One member of an object, read into a restriction (shared by the encoder-order loop and the
any-order loop of C03)
-/
namespace J5V.Codec
open J5V.Go J5V.Json

/-- what the member loop knows when it meets property `p`: the message so far is the restriction
to the leaf paths `S` read so far, and the paths of `p` are new -/
structure StepCtx (c : Cfg) (props : List PropDef) (fs : Fields) (p : PropDef) (st : PS)
    (S : List (List Nat)) : Prop where
  facts : StoreFacts c.env props fs
  mem : p ∈ props
  state : st.m = restrictP S fs
  fresh : p.jsonName ∉ st.seen
  apart : ∀ x ∈ propPaths c.env p, Apart x S
  along : ∀ x ∈ propPaths c.env p, SortedAlong x fs
  pathNe : ∀ x ∈ propPaths c.env p, x ≠ []

/-- a property with a proto path whose value `v` the message holds and the tree `t` spells -/
theorem step_leaf (c : Cfg) (props : List PropDef) (fs : Fields) (p : PropDef) (st : PS)
    (S : List (List Nat)) (hctx : StepCtx c props fs p st S) (v : PVal) (t : PTree)
    (hpne : p.path ≠ []) (hget : getPath fs p.path = some v) (hdec : Dec c p.field v t)
    (hz : (p.pres == .imp && v.isZero) = false) (hec : v.isEmptyColl = false) :
    decProp c props p t st =
      .ok { m := restrictP (propPaths c.env p ++ S) fs, seen := p.jsonName :: st.seen } := by
  obtain ⟨hsf, hpm, hm, hfresh, hapart, halong, _⟩ := hctx
  have hpp : propPaths c.env p = [p.path] := propPaths_nonempty c.env p hpne
  have hpin : p.path ∈ propPaths c.env p := by rw [hpp]; simp
  have hap := hapart p.path hpin
  obtain ⟨kl, hkl⟩ := getLast_some_of_ne p.path hpne
  have hsibfs : ∀ gi, p.group = some gi → ∀ q ∈ props, q.group = some gi →
      q.path.dropLast = p.path.dropLast → ∀ k', q.path.getLast? = some k' → k' ≠ kl →
      getPath fs q.path = none := by
    intro gi hg q hq hqg hqd k' hk' hne
    apply hsf.groups p hpm q hq (by rw [hg]; rfl) (by rw [hqg, hg]) hqd _ (by rw [hget]; rfl)
    intro e
    rw [e, hkl] at hk'
    exact hne (Option.some.inj hk').symm
  have hsib : SiblingsUnset props p kl (msgAt p.path.dropLast st.m) := by
    intro gi hg q hq hqg hqd k' hk' hne
    rw [aget_msgAt, ← hqd, dropLast_concat_last q.path k' hk', hm]
    have hqne : q.path ≠ [] := by intro e; rw [e] at hk'; simp at hk'
    apply getPath_restrictP_none q.path S fs _ (hsibfs gi hg q hq hqg hqd k' hk' hne)
    exact hsf.along (q.path, q.field, q.pres)
      (List.mem_flatMap.mpr ⟨q, hq, by rw [propLeaves_nonempty c.env q hqne]; simp⟩)
  rw [hdec.prop props p st rfl hpne hfresh
    (by rw [hm]; exact getPath_restrictP_apart p.path S fs (halong _ hpin) hpne hap)
    (groupBusy_false_at props p kl st.m hkl hsib)]
  rw [updPath_eq_go, hm,
    updGo_restrict props p v kl hkl hz hec p.path [] S fs rfl hpne (halong _ hpin) hget hap
      (by
        intro gi hg q hq hqg hqd k' hk' hne
        rw [← hqd, dropLast_concat_last q.path k' hk']
        exact hsibfs gi hg q hq hqg hqd k' hk' hne),
    hpp]
  rfl

/-- the facts about the enclosing message an exposed oneof's body is read into -/
theorem exposed_target (c : Cfg) (props : List PropDef) (fs : Fields) (p : PropDef) (st : PS)
    (S : List (List Nat)) (hctx : StepCtx c props fs p st S) (ops : List PropDef)
    (hp0 : p.path = []) (hops : exposedOps c.env p = ops) :
    (∀ q ∈ ops, ∀ k, q.path = [k] → [k] ∈ propPaths c.env p) ∧
    (∀ q ∈ ops, ∀ k, q.path = [k] → aget k st.m = none) := by
  have hin : ∀ q ∈ ops, ∀ k, q.path = [k] → [k] ∈ propPaths c.env p := by
    intro q hq k hqk
    unfold propPaths
    exact List.mem_map.mpr ⟨_, propLeaves_exposed_mem c.env p q k hp0 (by rw [hops]; exact hq) hqk, rfl⟩
  refine ⟨hin, ?_⟩
  intro q hq k hqk
  have hkin := hin q hq k hqk
  have := getPath_restrictP_apart [k] S fs (hctx.along _ hkin) (by simp) (hctx.apart _ hkin)
  rw [hctx.state]; simpa [getPath] using this

/-- an exposed oneof whose body set member `k` of the enclosing message -/
theorem step_exposed_set (c : Cfg) (props : List PropDef) (fs : Fields) (p : PropDef) (st : PS)
    (S : List (List Nat)) (hctx : StepCtx c props fs p st S) (ref : String) (ops : List PropDef)
    (ms : PMembers) (k : Nat) (v : PVal) (seen1 : List Bytes) (found : List Bytes)
    (ct : Option Bytes) (hp0 : p.path = []) (hpg : p.group = none) (hpf : p.field = .oneof ref)
    (hfind : c.env.find ref = some (.oneof ops)) (hkin : [k] ∈ propPaths c.env p)
    (hag : aget k fs = some v) (hoth : ∀ x ∈ propPaths c.env p, x ≠ [k] → getPath fs x = none)
    (hloop : decOneofMembers c ops ms { m := st.m, seen := [] } [] none =
      .ok ({ m := aset k v st.m, seen := seen1 }, found, ct, .closed))
    (hpost : oneofPost ops found ct (aset k v st.m) = .ok none) :
    decProp c props p (.obj ms) st =
      .ok { m := restrictP (propPaths c.env p ++ S) fs, seen := p.jsonName :: st.seen } := by
  obtain ⟨hsf, hpm, hm, hfresh, hapart, halong, hne_path⟩ := hctx
  unfold decProp; rw [hpf]; simp only []
  have hgb : groupBusy props p st.m = false := groupBusy_none props p st.m hpg
  simp only [createField_fresh props p st hfresh hgb, Outcome.bind, hfind]
  have hstart : oneofStart p { m := st.m, seen := p.jsonName :: st.seen } =
      { m := st.m, seen := [] } := by
    unfold oneofStart; rw [hp0]; rfl
  rw [hstart, hloop]
  have hpe : p.path.isEmpty = true := by rw [hp0]; rfl
  simp only [finishOneofProp, Outcome.bind, closeOk, hpost, applyPost, hpe]
  rw [hm, aset_restrictP_single S fs hsf.sorted k v hag,
    restrictP_append_one (propPaths c.env p) S fs k hkin
      (fun x hx hne => ⟨hne_path x hx, halong x hx, hoth x hx hne⟩)]
  simp

/-- an exposed oneof whose body is `{}` (no member of it is set in the message) -/
theorem step_exposed_empty (c : Cfg) (props : List PropDef) (fs : Fields) (p : PropDef) (st : PS)
    (S : List (List Nat)) (hctx : StepCtx c props fs p st S) (ref : String) (ops : List PropDef)
    (ms : PMembers) (seen1 : List Bytes) (found : List Bytes) (ct : Option Bytes)
    (hp0 : p.path = []) (hpg : p.group = none) (hpf : p.field = .oneof ref)
    (hfind : c.env.find ref = some (.oneof ops))
    (hunset : ∀ x ∈ propPaths c.env p, getPath fs x = none)
    (hloop : decOneofMembers c ops ms { m := st.m, seen := [] } [] none =
      .ok ({ m := st.m, seen := seen1 }, found, ct, .closed))
    (hpost : oneofPost ops found ct st.m = .ok none) :
    decProp c props p (.obj ms) st =
      .ok { m := restrictP (propPaths c.env p ++ S) fs, seen := p.jsonName :: st.seen } := by
  obtain ⟨hsf, hpm, hm, hfresh, hapart, halong, hne_path⟩ := hctx
  unfold decProp; rw [hpf]; simp only []
  have hgb : groupBusy props p st.m = false := groupBusy_none props p st.m hpg
  simp only [createField_fresh props p st hfresh hgb, Outcome.bind, hfind]
  have hstart : oneofStart p { m := st.m, seen := p.jsonName :: st.seen } =
      { m := st.m, seen := [] } := by
    unfold oneofStart; rw [hp0]; rfl
  rw [hstart, hloop]
  have hpe : p.path.isEmpty = true := by rw [hp0]; rfl
  simp only [finishOneofProp, Outcome.bind, closeOk, hpost, applyPost, hpe]
  rw [hm, restrictP_append_unset _ S fs (fun x hx => ⟨hne_path x hx, halong x hx, hunset x hx⟩)]
  simp

end J5V.Codec
