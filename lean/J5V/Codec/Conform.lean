import J5V.Codec.Repr
import J5V.Codec.Decode
/-!
# Decidable well-formedness predicates for the structure-level theorems

* `valOk` — "representable message" (C01's quantifier), schema directed and **general** (every
  construct of the schema language): stores are sorted and hold only fields the schema addresses —
  as the final field of a property (`path = [k]`), as the member of an exposed oneof (a property
  with an empty path whose oneof lives in the same message), or as a flattened sub-message (an
  interior field of longer paths; it must be non-empty: C01 treats an empty flattened sub-object
  as absent) — with values of the right shape; scalars are `scalarRepr` with valid UTF-8 and
  decimals in `decimal.String()` normal form; enum numbers are defined; lists and maps are
  non-empty, map keys distinct valid UTF-8; a oneof (wrapper, exposed or anonymous proto oneof) has
  at most one member set; implicit presence fields are never stored with their zero value.
* `Env.simple` — one-element proto paths only (no flattened objects, no exposed oneofs), no `Any`,
  no anonymous proto oneof in objects.
* `Env.flat` ⊇ `Env.simple` — the class the structure-level round trip is proved for:
  additionally **anonymous proto oneofs** in objects (`group`), **exposed oneofs** (empty path)
  and **flattened objects** (proto paths of any positive length, prefix-free), and **j5 `Any`**
  properties (`.any false`; not as array / map items, which the codec does not support);
  `google.protobuf.Any` properties (`.any true`) may be declared but no `valOk` message populates
  them (see `C01_any_pb_partial`). Still excluded: an exposed oneof inlined from a flattened object
  (its path is a prefix of its siblings' paths).
-/
namespace J5V.Codec
open J5V.Json

def itemSimple : Field → Bool
  | .scalar _ | .enum _ | .object _ | .oneof _ => true
  | _ => false

def fieldSimple : Field → Bool
  | .scalar _ | .enum _ | .object _ | .oneof _ => true
  | .array i => itemSimple i
  | .map i => itemSimple i
  | .any _ => true

def propSimple (p : PropDef) : Bool := p.path.length == 1 && fieldSimple p.field

def typeKeyBytes : Bytes := ascii "!type"

def rootSimple : Root → Bool
  | .object ps =>
    ps.all (fun p => propSimple p && p.group.isNone) &&
    decide ((ps.map (·.jsonName)).Nodup) && decide ((ps.map (·.path)).Nodup)
  | .oneof ps =>
    ps.all propSimple &&
    decide ((ps.map (·.jsonName)).Nodup) && decide ((ps.map (·.path)).Nodup) &&
    !(ps.map (·.jsonName)).contains typeKeyBytes
  | .enum _ opts =>
    decide ((opts.map (·.1)).Nodup) && decide ((opts.map (·.2)).Nodup) &&
    opts.all (fun o => isValidUtf8 o.1)
  | .noschema => true

def Env.simple (env : Env) : Bool :=
  env.defs.all (fun d => rootSimple d.2) &&
  env.defs.all (fun d => match d.2 with
    | .object ps | .oneof ps => ps.all (fun p => isValidUtf8 p.jsonName)
    | _ => true)

/-! ## exposed oneofs, flattened objects -/

/-- the property that owns top-level field `k` as a leaf -/
def leafProp (env : Env) (props : List PropDef) (k : Nat) : Option PropDef :=
  match props.find? (fun p => p.path == [k]) with
  | some p => some p
  | none => props.findSome? fun p => (exposedOps env p).find? (fun q => q.path == [k])

/-- the properties inlined from the flattened message at field `k`, re-rooted at that message -/
def propsUnder (k : Nat) (props : List PropDef) : List PropDef :=
  props.filterMap fun p =>
    match p.path with
    | k' :: k2 :: r => if k' = k then some { p with path := k2 :: r } else none
    | _ => none

def isSet (fs : Fields) (p : PropDef) : Bool := (getPath fs p.path).isSome

/-- at most one member of every real proto oneof is set -/
def groupsOk (props : List PropDef) (fs : Fields) : Bool :=
  props.all fun p => props.all fun q =>
    !(p.group.isSome && p.group == q.group && p.path.dropLast == q.path.dropLast && p.path != q.path &&
      isSet fs p && isSet fs q)

/-- at most one member of every exposed oneof is set -/
def exposedOk (env : Env) (props : List PropDef) (fs : Fields) : Bool :=
  props.all fun p => decide (((exposedOps env p).filter (isSet fs)).length ≤ 1)

/-- an exposed-oneof property whose reference resolves -/
def propExposed (env : Env) (p : PropDef) : Bool :=
  p.path.isEmpty && p.group.isNone &&
  (match p.field with
   | .oneof ref =>
     match env.find ref with
     | some (.oneof _) => true
     | _ => false
   | _ => false)

/-! ## flattened objects -/

/-- the leaves of the message a property addresses: (proto path, field schema, presence class) -/
def propLeaves (env : Env) (p : PropDef) : List (List Nat × Field × Pres) :=
  match p.path with
  | [] =>
    (exposedOps env p).filterMap fun q =>
      match q.path with
      | [k] => some ([k], q.field, q.pres)
      | _ => none
  | path => [(path, p.field, p.pres)]

def leafEntries (env : Env) (props : List PropDef) : List (List Nat × Field × Pres) :=
  props.flatMap (propLeaves env)

/-- no path is a proper prefix of another (a flattened message field is not itself a property) -/
def prefixFree (L : List (List Nat)) : Bool :=
  L.all fun a => L.all fun b => a == b || !(a.isPrefixOf b)

def propFlat (p : PropDef) : Bool := !p.path.isEmpty && fieldSimple p.field

/-- object roots of `Env.flat`: every property has a proto path of any positive length
(**flattened objects**: the sub-message's properties are inlined with the full path) or is an
exposed oneof; the leaf paths are distinct and prefix-free -/
def rootFlat (env : Env) : Root → Bool
  | .object ps =>
    ps.all (fun p => propFlat p || propExposed env p) &&
    decide ((ps.map (·.jsonName)).Nodup) &&
    decide (((leafEntries env ps).map (·.1)).Nodup) && prefixFree ((leafEntries env ps).map (·.1))
  | r => rootSimple r

def Env.flat (env : Env) : Bool :=
  env.defs.all (fun d => rootFlat env d.2) &&
  env.defs.all (fun d => match d.2 with
    | .object ps | .oneof ps => ps.all (fun p => isValidUtf8 p.jsonName)
    | _ => true)

def fieldNoAny : Field → Bool
  | .any _ => false
  | .array i => fieldNoAny i
  | .map i => fieldNoAny i
  | _ => true

/-- no `Any` field anywhere in the environment (an `Any` carries `j5_json` bytes that the encoder
inserts verbatim and unchecked) -/
def Env.noAny (env : Env) : Bool :=
  env.defs.all fun d => match d.2 with
    | .object ps | .oneof ps => ps.all fun p => fieldNoAny p.field
    | _ => true

def fieldNoJ5 : Field → Bool
  | .any pb => pb
  | .array i => fieldNoJ5 i
  | .map i => fieldNoJ5 i
  | _ => true

/-- no `j5.types.any.v1.Any` field anywhere in the environment (protobuf `Any` fields allowed) -/
def Env.noJ5Any (env : Env) : Bool :=
  env.defs.all fun d => match d.2 with
    | .object ps | .oneof ps => ps.all fun p => fieldNoJ5 p.field
    | _ => true

/-- scalar values: representable, strings valid UTF-8, decimals in normal form -/
def scalarOk (O : Oracle) (k : ScalarKind) (v : PVal) : Bool :=
  scalarRepr O k v &&
  (match k, v with
   | .string, .str s => isValidUtf8 s
   | .key, .str s => isValidUtf8 s
   | .decimal, .dec s => O.parseDec s == some s && isValidUtf8 s
   | _, _ => true)

mutual
def valOk (env : Env) (O : Oracle) : Field → PVal → Bool
  | fld, .msg fs =>
    match fld with
    | .object ref =>
      match env.find ref with
      | some (.object props) =>
        asorted fs && fieldsOk env O props fs && groupsOk props fs && exposedOk env props fs
      | _ => false
    | .oneof ref =>
      match env.find ref with
      | some (.oneof props) => asorted fs && fieldsOk env O props fs && fs.length ≤ 1
      | _ => false
    | _ => false
  | fld, .list xs =>
    match fld with
    | .array item => !xs.isEmpty && listOk env O item xs
    | _ => false
  | fld, .map kvs =>
    match fld with
    | .map item => !kvs.isEmpty && mapOk env O item [] kvs
    | _ => false
  | fld, .enum n =>
    match fld with
    | .enum ref =>
      match env.find ref with
      | some (.enum _ opts) => (optionByNumber opts n).isSome
      | _ => false
    | _ => false
  | fld, .anyJ5 tn proto j5 ik iroot inner =>
    -- a j5 `Any` that carries `j5_json` only: the stored bytes are the compact rendering of a
    -- complete JSON value of nesting depth ≤ 10000 (what `json.Compact` / the codec itself
    -- writes), recognised by the specification-side `O.chunk`; only in an environment that has
    -- j5 `Any` fields at all
    match fld, proto, ik, iroot, inner with
    | .any false, [], .none, "", .msg [] =>
      !env.noJ5Any && isValidUtf8 tn && !j5.isEmpty &&
        (match O.chunk j5 with
         | some V => V.render == j5 && V.complete && decide (V.depth ≤ 10000)
         | none => false)
    | _, _, _, _, _ => false
  | fld, .anyPb url value ik iroot inner =>
    -- a `google.protobuf.Any` whose content unmarshals to a non-empty representable message of the
    -- root its type URL resolves to (the wire bytes are represented by `ik / iroot / inner`)
    match fld, value, ik with
    | .any true, [], .inn =>
      (match inner with
       | .msg fs => !fs.isEmpty
       | _ => false) &&
      (url == anyPrefixB ++ url.drop anyPrefixB.length) &&
      isValidUtf8 (url.drop anyPrefixB.length) &&
      (env.resolve (url.drop anyPrefixB.length) == some iroot) &&
      (valOk env O (.object iroot) inner || valOk env O (.oneof iroot) inner)
    | _, _, _ => false
  | fld, v =>
    match fld with
    | .scalar k => scalarOk O k v
    | _ => false
def fieldsOk (env : Env) (O : Oracle) (props : List PropDef) : List (Nat × PVal) → Bool
  | [] => true
  | (k, v) :: rest =>
    (match leafProp env props k with
     | some p => valOk env O p.field v && !(p.pres == .imp && v.isZero)
     | none =>
       -- a flattened sub-message: non-empty, its fields belong to the inlined properties
       match v with
       | .msg sub =>
         !sub.isEmpty && asorted sub && !(propsUnder k props).isEmpty &&
           fieldsOk env O (propsUnder k props) sub
       | _ => false) && fieldsOk env O props rest
def listOk (env : Env) (O : Oracle) (item : Field) : List PVal → Bool
  | [] => true
  | v :: rest => valOk env O item v && listOk env O item rest
def mapOk (env : Env) (O : Oracle) (item : Field) (seen : List Bytes) : List (Bytes × PVal) → Bool
  | [] => true
  | (k, v) :: rest =>
    !seen.contains k && isValidUtf8 k && valOk env O item v && mapOk env O item (k :: seen) rest
end

/-! ## the `j5_json` chunks stored in a message (C08's quantifier for `Any`) -/

/-- the specification-side oracle recognises the chunk *as these very bytes* -/
def chunkKnown (O : Oracle) (bs : Bytes) : Bool :=
  match O.chunk bs with
  | some V => V.render == bs
  | none => false

mutual
/-- every `j5_json` stored anywhere in the value (at any depth, also inside the proto content of
an `Any`) is a recognised chunk; no schema involved, no other condition on the value -/
def PVal.chunksOk (O : Oracle) : PVal → Bool
  | .anyJ5 _ _ j5 _ _ inner => (j5.isEmpty || chunkKnown O j5) && inner.chunksOk O
  | .anyPb _ _ _ _ inner => inner.chunksOk O
  | .msg fs => chunksOkFields O fs
  | .list xs => chunksOkList O xs
  | .map kvs => chunksOkMap O kvs
  | _ => true
def chunksOkFields (O : Oracle) : List (Nat × PVal) → Bool
  | [] => true
  | (_, v) :: rest => v.chunksOk O && chunksOkFields O rest
def chunksOkList (O : Oracle) : List PVal → Bool
  | [] => true
  | v :: rest => v.chunksOk O && chunksOkList O rest
def chunksOkMap (O : Oracle) : List (Bytes × PVal) → Bool
  | [] => true
  | (_, v) :: rest => v.chunksOk O && chunksOkMap O rest
end

/-! ## which codec can decode the `Any` values of a message (per VALUE) -/

mutual
/-- `modeOk p d F v`: a codec with `protoToAny = p`, at `anyDepth = d`, decodes the `Any` values in
`v`: a j5 `Any` needs the codec without `WithProtoToAny`; a protobuf `Any` needs `WithProtoToAny`,
fewer than `maxAnyDepth` enclosing `Any` values, and (`F`: the fuel the encoder model runs with, an
upper bound of the nesting depth of the tree it builds) its encoding must stay within the 10000
levels of `encoding/json`. A value without `Any` satisfies it for every codec. -/
def modeOk (p : Bool) (F : Nat) : Nat → PVal → Bool
  | _, .anyJ5 _ _ _ _ _ _ => !p
  | d, .anyPb _ _ _ _ inner => p && decide (d < maxAnyDepth) && decide (F ≤ 10000) && modeOk p F (d + 1) inner
  | d, .msg fs => modeOkF p F d fs
  | d, .list xs => modeOkL p F d xs
  | d, .map kvs => modeOkM p F d kvs
  | _, _ => true
def modeOkF (p : Bool) (F : Nat) : Nat → List (Nat × PVal) → Bool
  | _, [] => true
  | d, (_, v) :: rest => modeOk p F d v && modeOkF p F d rest
def modeOkL (p : Bool) (F : Nat) : Nat → List PVal → Bool
  | _, [] => true
  | d, v :: rest => modeOk p F d v && modeOkL p F d rest
def modeOkM (p : Bool) (F : Nat) : Nat → List (Bytes × PVal) → Bool
  | _, [] => true
  | d, (_, v) :: rest => modeOk p F d v && modeOkM p F d rest
end

end J5V.Codec
