import J5V.Codec.Repr
import J5V.Codec.Decode
/-!
# Decidable well-formedness predicates for the structure-level theorems

* `Env.simple` — the class of environments the structure-level round trip is proved for so far:
  every property has a one-element proto path (no flattened objects, no exposed oneofs), no `Any`,
  array / map items are scalars, enums, objects or oneofs, JSON names and field numbers are distinct
  inside a root, object properties are not members of an anonymous proto oneof, and no member of a
  oneof is called `!type`.
* `valOk` — "representable message" (C01's quantifier), schema directed: stores are sorted and hold
  only fields the schema addresses, with values of the right shape; scalars are `scalarRepr` with
  valid UTF-8 and decimals in `decimal.String()` normal form; enum numbers are defined; lists and
  maps are non-empty, map keys distinct valid UTF-8; a oneof has at most one member set; implicit
  presence fields are never stored with their zero value.
-/
namespace J5V.Codec
open J5V.Json

def itemSimple : Field → Bool
  | .scalar _ | .enum _ | .object _ | .oneof _ => true
  | _ => false

def fieldSimple : Field → Bool
  | .scalar _ | .enum _ | .object _ | .oneof _ => true
  | .array i => itemSimple i
  | .map i => itemSimple i
  | .any _ => false

def propSimple (p : PropDef) : Bool := p.path.length == 1 && fieldSimple p.field

def typeKeyBytes : Bytes := ascii "!type"

def rootSimple : Root → Bool
  | .object ps =>
    ps.all (fun p => propSimple p && p.group.isNone) &&
    decide ((ps.map (·.jsonName)).Nodup) && decide ((ps.map (·.path)).Nodup)
  | .oneof ps =>
    ps.all propSimple &&
    decide ((ps.map (·.jsonName)).Nodup) && decide ((ps.map (·.path)).Nodup) &&
    !(ps.map (·.jsonName)).contains typeKeyBytes
  | .enum _ opts =>
    decide ((opts.map (·.1)).Nodup) && decide ((opts.map (·.2)).Nodup) &&
    opts.all (fun o => isValidUtf8 o.1)
  | .noschema => true

def Env.simple (env : Env) : Bool :=
  env.defs.all (fun d => rootSimple d.2) &&
  env.defs.all (fun d => match d.2 with
    | .object ps | .oneof ps => ps.all (fun p => isValidUtf8 p.jsonName)
    | _ => true)

def fieldNoAny : Field → Bool
  | .any _ => false
  | .array i => fieldNoAny i
  | .map i => fieldNoAny i
  | _ => true

/-- no `Any` field anywhere in the environment (an `Any` carries `j5_json` bytes that the encoder
inserts verbatim and unchecked) -/
def Env.noAny (env : Env) : Bool :=
  env.defs.all fun d => match d.2 with
    | .object ps | .oneof ps => ps.all fun p => fieldNoAny p.field
    | _ => true

/-- scalar values: representable, strings valid UTF-8, decimals in normal form -/
def scalarOk (O : Oracle) (k : ScalarKind) (v : PVal) : Bool :=
  scalarRepr O k v &&
  (match k, v with
   | .string, .str s => isValidUtf8 s
   | .key, .str s => isValidUtf8 s
   | .decimal, .dec s => O.parseDec s == some s && isValidUtf8 s
   | _, _ => true)

mutual
def valOk (env : Env) (O : Oracle) : Field → PVal → Bool
  | fld, .msg fs =>
    match fld with
    | .object ref =>
      match env.find ref with
      | some (.object props) => asorted fs && fieldsOk env O props fs
      | _ => false
    | .oneof ref =>
      match env.find ref with
      | some (.oneof props) => asorted fs && fieldsOk env O props fs && fs.length ≤ 1
      | _ => false
    | _ => false
  | fld, .list xs =>
    match fld with
    | .array item => !xs.isEmpty && listOk env O item xs
    | _ => false
  | fld, .map kvs =>
    match fld with
    | .map item => !kvs.isEmpty && mapOk env O item [] kvs
    | _ => false
  | fld, .enum n =>
    match fld with
    | .enum ref =>
      match env.find ref with
      | some (.enum _ opts) => (optionByNumber opts n).isSome
      | _ => false
    | _ => false
  | fld, v =>
    match fld with
    | .scalar k => scalarOk O k v
    | _ => false
def fieldsOk (env : Env) (O : Oracle) (props : List PropDef) : List (Nat × PVal) → Bool
  | [] => true
  | (k, v) :: rest =>
    (match props.find? (fun p => p.path == [k]) with
     | some p => valOk env O p.field v && !(p.pres == .imp && v.isZero)
     | none => false) && fieldsOk env O props rest
def listOk (env : Env) (O : Oracle) (item : Field) : List PVal → Bool
  | [] => true
  | v :: rest => valOk env O item v && listOk env O item rest
def mapOk (env : Env) (O : Oracle) (item : Field) (seen : List Bytes) : List (Bytes × PVal) → Bool
  | [] => true
  | (k, v) :: rest =>
    !seen.contains k && isValidUtf8 k && valOk env O item v && mapOk env O item (k :: seen) rest
end

end J5V.Codec
