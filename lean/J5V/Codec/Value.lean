import J5V.Codec.Schema
/-!
# Protobuf message store (the model of `protoreflect.Message` the codec reads and writes)

A message is an association list from proto field numbers to values, kept **sorted by field
number without duplicates** (`aset` inserts in place), so that two stores holding the same fields
are syntactically equal — `proto.Equal` is extensional and so is `=` on sorted stores
(`Store.ext` in `StoreProofs`). Presence follows protobuf-go:

* a field is present iff it is in the list (`Has` ⇔ `aget … ≠ none`);
* implicit-presence scalars are never stored with their zero value, lists and maps are never
  stored empty (`setField` erases instead) — `Has` is `≠ zero` / `len > 0` for them;
* setting a member of a real proto oneof clears the other members (`clearGroup`).

Well-known leaf messages (`Timestamp`, `Date`, `Decimal`, `Any`) are leaves, as on the wire of
the line protocol (`PROTOCOL-codec.md` §4).
-/
namespace J5V.Codec
open J5V.Json

/-! ## generic sorted association lists (field number ↦ value) -/

def aget {α} (k : Nat) : List (Nat × α) → Option α
  | [] => none
  | (k', v) :: rest => if k = k' then some v else aget k rest

/-- sorted insert-or-replace -/
def aset {α} (k : Nat) (v : α) : List (Nat × α) → List (Nat × α)
  | [] => [(k, v)]
  | (k', v') :: rest =>
    if k < k' then (k, v) :: (k', v') :: rest
    else if k = k' then (k, v) :: rest
    else (k', v') :: aset k v rest

def aerase {α} (k : Nat) : List (Nat × α) → List (Nat × α)
  | [] => []
  | (k', v') :: rest => if k = k' then aerase k rest else (k', v') :: aerase k rest

/-- strictly ascending keys -/
def asorted {α} : List (Nat × α) → Bool
  | [] => true
  | [_] => true
  | (k, _) :: (k', v') :: rest => k < k' && asorted ((k', v') :: rest)

/-! ## string-keyed maps: insertion order, `Set` replaces -/

def mget {α} (k : Bytes) : List (Bytes × α) → Option α
  | [] => none
  | (k', v) :: rest => if k = k' then some v else mget k rest

def mset {α} (k : Bytes) (v : α) : List (Bytes × α) → List (Bytes × α)
  | [] => [(k, v)]
  | (k', v') :: rest => if k = k' then (k, v) :: rest else (k', v') :: mset k v rest

/-! ## values -/

/-- outcome of resolving + `proto.Unmarshal`-ing the proto bytes carried by an `Any` -/
inductive InnerKind where
  | none | bad | inn
  deriving Repr, DecidableEq, Inhabited

inductive PVal where
  | bool (b : Bool)
  | int (v : Int)
  | uint (v : Nat)
  | f32 (bits : Nat)
  | f64 (bits : Nat)
  | str (s : Bytes)
  | bytes (s : Bytes)
  | enum (n : Int)
  | ts (secs nanos : Int)
  | date (y m d : Int)
  | dec (s : Bytes)
  /-- `j5.types.any.v1.Any`: `proto` / `j5json` empty = unset. `ik/iroot/inner`: the proto bytes
  unmarshalled with the resolver (the bytes themselves are opaque to the model). -/
  | anyJ5 (typeName proto j5json : Bytes) (ik : InnerKind) (iroot : String) (inner : PVal)
  /-- `google.protobuf.Any` -/
  | anyPb (typeUrl value : Bytes) (ik : InnerKind) (iroot : String) (inner : PVal)
  | msg (fields : List (Nat × PVal))
  | list (xs : List PVal)
  | map (kvs : List (Bytes × PVal))
  deriving Repr, Inhabited

abbrev Fields := List (Nat × PVal)

/-- `Message.Has` is false exactly when `setField` refuses to store: zero value of an
implicit-presence field, empty list / map. -/
def PVal.isZero : PVal → Bool
  | .bool b => !b
  | .int v => v == 0
  | .uint v => v == 0
  | .f32 b => b == 0
  | .f64 b => b == 0
  | .str s => s.isEmpty
  | .bytes s => s.isEmpty
  | .enum n => n == 0
  | _ => false

def PVal.isEmptyColl : PVal → Bool
  | .list xs => xs.isEmpty
  | .map kvs => kvs.isEmpty
  | _ => false

def PVal.asMsg : Option PVal → Fields
  | some (.msg fs) => fs
  | _ => []

/-- value at a proto path (`buildValue` walk with `create = false`): `none` as soon as a field on
the way is not populated. An empty path is not a field (exposed oneof). -/
def getPath (m : Fields) : List Nat → Option PVal
  | [] => none
  | [k] => aget k m
  | k :: rest =>
    match aget k m with
    | some (.msg sub) => getPath sub rest
    | _ => none

/-- clear the other members of proto oneof `g` among the properties that live in the same
message (`props` = the property set being decoded, `pfx` = the path prefix of that message). -/
def clearGroup (props : List PropDef) (pfx : List Nat) (g : Option Nat) (keep : Nat) (m : Fields) :
    Fields :=
  match g with
  | none => m
  | some gi =>
    props.foldl (fun acc p =>
      if p.group == some gi && p.path.dropLast == pfx then
        match p.path.getLast? with
        | some k => if k == keep then acc else aerase k acc
        | none => acc
      else acc) m

/-- the message reached from `m` along the proto path `loc` (an absent message reads as empty) -/
def msgAt : List Nat → Fields → Fields
  | [], m => m
  | k :: rest, m => msgAt rest (PVal.asMsg (aget k m))

/-- `buildValue(create = true)` since 25c97b7: the final field of `p` is a member of a real proto
oneof and `walkMessage.WhichOneof(oneof)` names a **different** member — creating the field is then
an error (before, `Message.Set` silently dropped the other member). The members of the proto oneof
are the properties of the same property set with the same `group` whose final field lives in the
same message (`clearGroup` uses the same reading). Never true for an empty path. -/
def groupBusy (props : List PropDef) (p : PropDef) (m : Fields) : Bool :=
  match p.group, p.path.getLast? with
  | some gi, some k =>
    let wm := msgAt p.path.dropLast m
    props.any fun q =>
      q.group == some gi && q.path.dropLast == p.path.dropLast &&
        (match q.path.getLast? with
         | some k' => k' != k && (aget k' wm).isSome
         | none => false)
  | _, _ => false

/-- `Message.Set(fd, v)` at the end of the walk -/
def setLeaf (pres : Pres) (k : Nat) (v : PVal) (m : Fields) : Fields :=
  if (pres == .imp && v.isZero) || v.isEmptyColl then aerase k m else aset k v m

/-- write at a proto path, creating the intermediate messages (`Mutable` walk of `buildValue`
with `create = true`): `some v` = `Message.Set` (clearing the sibling members of the final
field's proto oneof), `none` = `Message.Clear` (what `protoPair.setValue` does with an invalid
`protoreflect.Value`). -/
def updPath (props : List PropDef) (p : PropDef) (v : Option PVal) (m : Fields) : Fields :=
  let rec go (pfx : List Nat) : List Nat → Fields → Fields
    | [], m => m
    | [k], m =>
      match v with
      | some v => setLeaf p.pres k v (clearGroup props pfx p.group k m)
      | none => aerase k m
    | k :: rest, m => aset k (.msg (go (pfx ++ [k]) rest (PVal.asMsg (aget k m)))) m
  go [] p.path m

def setPath (props : List PropDef) (p : PropDef) (v : PVal) (m : Fields) : Fields :=
  updPath props p (some v) m

/-- `Mutable` walk only (the `create = true` walk of `buildValue` for a message-valued final
field, before anything is decoded into it): every message on the path exists afterwards. -/
def touchPath : List Nat → Fields → Fields
  | [], m => m
  | k :: rest, m => aset k (.msg (touchPath rest (PVal.asMsg (aget k m)))) m

end J5V.Codec
