import J5V.Go.Outcome
import J5V.Codec.Value
import J5V.Json.Token
import J5V.Json.Tree
/-!
# Scalars: `scalarGoFromReflect` / `encodeScalarField` and `scalarReflectFromGo`

Mirrors `/repo/lib/j5reflect/value_go.go`, `internal/codec/structure_encode.go`
(`encodeScalarField`), `internal/codec/encoder.go` (`addInt32` …), `j5types/date_j5t/date.go`
(`DateString`, `DateFromString`), `lib/j5schema/root_schema.go` (`OptionByName/ByNumber`) and the
library functions on the way: `strconv.ParseInt/ParseUint/Atoi/FormatInt`, `encoding/base64`
(`StdEncoding`), `fmt` `%4d` / `%02d`.

Floats, timestamps and decimals are **oracle** types (DESIGN §2.1): their text ↔ value functions
(`strconv.FormatFloat/ParseFloat`, `time.Format/Parse`, `decimal.NewFromString/String`) are the
fields of `Oracle`; theorems that need their round-trip law take it as a hypothesis.
-/
namespace J5V.Codec
open J5V.Go J5V.Json

/-! ## strconv -/

def natDigitsAux : Nat → Nat → Bytes → Bytes
  | 0, _, acc => acc
  | fuel + 1, n, acc =>
    if n < 10 then UInt8.ofNat (48 + n) :: acc
    else natDigitsAux fuel (n / 10) (UInt8.ofNat (48 + n % 10) :: acc)

/-- `strconv.FormatUint(n, 10)` -/
def fmtNat (n : Nat) : Bytes := natDigitsAux (n + 1) n []

/-- `strconv.FormatInt(v, 10)` -/
def fmtInt (v : Int) : Bytes :=
  if v < 0 then 0x2D :: fmtNat v.natAbs else fmtNat v.toNat

/-- all bytes are ASCII digits, at least one: the value (`ParseUint` digit loop, unbounded) -/
def parseDigits : Bytes → Option Nat
  | [] => none
  | s => s.foldl (fun acc c =>
      match acc with
      | none => none
      | some n => if isDigit c then some (n * 10 + (c.toNat - 48)) else none) (some 0)

/-- `strconv.ParseUint(s, 10, bits)`: `none` = `ErrSyntax` or `ErrRange` -/
def parseUint (s : Bytes) (bits : Nat) : Option Nat :=
  match parseDigits s with
  | some n => if n < 2 ^ bits then some n else none
  | none => none

/-- `strconv.ParseInt(s, 10, bits)` (also `Atoi` = `ParseInt(s, 10, 0)` with `int` = 64 bits,
whose fast path accepts and rejects the same strings) -/
def parseInt (s : Bytes) (bits : Nat) : Option Int :=
  match s with
  | [] => none
  | c :: rest =>
    let (neg, body) : Bool × Bytes :=
      if c = 0x2B then (false, rest) else if c = 0x2D then (true, rest) else (false, s)
    match parseDigits body with
    | none => none
    | some n =>
      if neg then (if n ≤ 2 ^ (bits - 1) then some (-(n : Int)) else none)
      else (if n < 2 ^ (bits - 1) then some (n : Int) else none)

/-- Go's `int32(x)` conversion of an `int` -/
def wrapInt32 (v : Int) : Int := (v + 2 ^ 31) % 2 ^ 32 - 2 ^ 31

/-! ## base64 (`encoding/base64.StdEncoding`) -/

def b64Char (v : Nat) : UInt8 :=
  if v < 26 then UInt8.ofNat (65 + v)
  else if v < 52 then UInt8.ofNat (97 + (v - 26))
  else if v < 62 then UInt8.ofNat (48 + (v - 52))
  else if v = 62 then 0x2B else 0x2F

def b64Val (c : UInt8) : Option Nat :=
  let n := c.toNat
  if 65 ≤ n ∧ n ≤ 90 then some (n - 65)
  else if 97 ≤ n ∧ n ≤ 122 then some (n - 97 + 26)
  else if 48 ≤ n ∧ n ≤ 57 then some (n - 48 + 52)
  else if n = 0x2B then some 62
  else if n = 0x2F then some 63
  else none

/-- `StdEncoding.EncodeToString` -/
def b64Encode : Bytes → Bytes
  | [] => []
  | [a] =>
    let n := a.toNat
    [b64Char (n / 4), b64Char (n % 4 * 16), 0x3D, 0x3D]
  | [a, b] =>
    let n := a.toNat * 256 + b.toNat
    [b64Char (n / 1024), b64Char (n / 16 % 64), b64Char (n % 16 * 4), 0x3D]
  | a :: b :: c :: rest =>
    let n := a.toNat * 65536 + b.toNat * 256 + c.toNat
    b64Char (n / 262144) :: b64Char (n / 4096 % 64) :: b64Char (n / 64 % 64) :: b64Char (n % 64)
      :: b64Encode rest

def isNl (c : UInt8) : Bool := c = 0x0A || c = 0x0D

def skipNl : Bytes → Bytes
  | [] => []
  | c :: rest => if isNl c then skipNl rest else c :: rest

/-- `StdEncoding.DecodeString` (non-strict: `\r` / `\n` are skipped, trailing bits ignored).
`acc` = sextets of the current quantum, most significant first. -/
def b64Decode : Bytes → List Nat → Option Bytes
  | [], acc => if acc.isEmpty then some [] else none
  | c :: rest, acc =>
    match b64Val c with
    | some v =>
      match acc with
      | [x, y, z] =>
        let n := x * 262144 + y * 4096 + z * 64 + v
        match b64Decode rest [] with
        | some out =>
          some (UInt8.ofNat (n / 65536) :: UInt8.ofNat (n / 256 % 256) :: UInt8.ofNat (n % 256) :: out)
        | none => none
      | _ => b64Decode rest (acc ++ [v])
    | none =>
      if isNl c then b64Decode rest acc
      else if c = 0x3D then
        match acc with
        | [x, y] =>
          -- "==" expected
          match skipNl rest with
          | p :: rest2 =>
            if p = 0x3D ∧ (skipNl rest2).isEmpty then some [UInt8.ofNat ((x * 64 + y) / 16)] else none
          | [] => none
        | [x, y, z] =>
          if (skipNl rest).isEmpty then
            let n := x * 4096 + y * 64 + z
            some [UInt8.ofNat (n / 1024), UInt8.ofNat (n / 4 % 256)]
          else none
        | _ => none
      else none

/-- `byteValueFromString`: `-`→`+`, `_`→`/`, re-pad to a multiple of four, std decode. -/
def byteValueFromString (s : Bytes) : Option Bytes :=
  let s1 := s.map fun c => if c = 0x2D then 0x2B else if c = 0x5F then 0x2F else c
  let s2 := if s1.length % 4 ≠ 0 then s1 ++ List.replicate (4 - s1.length % 4) 0x3D else s1
  b64Decode s2 []

/-! ## dates -/

/-- `fmt.Sprintf("%04d", v)`: zero-padded to width 4, the sign counts towards the width
(`-5` ↦ `-005`) -/
def fmtZero4 (v : Int) : Bytes :=
  if v < 0 then
    let d := fmtNat v.natAbs
    0x2D :: (List.replicate (3 - d.length) 0x30 ++ d)
  else
    let d := fmtNat v.toNat
    List.replicate (4 - d.length) 0x30 ++ d

/-- `fmt.Sprintf("%02d", v)`: zero-padded to width 2, the sign counts towards the width -/
def fmtZero2 (v : Int) : Bytes :=
  if 0 ≤ v ∧ v < 10 then 0x30 :: fmtInt v else fmtInt v

/-- `Date.DateString()` = `fmt.Sprintf("%04d-%02d-%02d", y, m, d)` -/
def dateString (y m d : Int) : Bytes :=
  fmtZero4 y ++ [0x2D] ++ fmtZero2 m ++ [0x2D] ++ fmtZero2 d

/-- `strings.Split(s, "-")` -/
def splitDash : Bytes → List Bytes
  | [] => [[]]
  | c :: rest =>
    match splitDash rest with
    | [] => [[]]   -- unreachable: `splitDash` never returns `[]`
    | h :: t => if c = 0x2D then [] :: h :: t else (c :: h) :: t

/-- Go's `isLeap` (proleptic Gregorian; `%` truncates towards zero, which does not matter for
divisibility) -/
def isLeapYear (y : Int) : Bool := y % 4 == 0 && (y % 100 != 0 || y % 400 == 0)

/-- number of days of a month, `1 ≤ m ≤ 12` -/
def daysInMonth (y m : Int) : Int :=
  if m = 2 then (if isLeapYear y then 29 else 28)
  else if m = 4 ∨ m = 6 ∨ m = 9 ∨ m = 11 then 30
  else 31

/-- `DateFromString`: three `-`-separated `Atoi`s; the year must fit `int32`, the month is 1–12,
the day 1–31 and `time.Date(y, m, d).Day() == d`, i.e. the day exists in that month. -/
def dateFromString (s : Bytes) : Option (Int × Int × Int) :=
  match splitDash s with
  | [a, b, c] =>
    match parseInt a 64, parseInt b 64, parseInt c 64 with
    | some y, some m, some d =>
      if y < -2147483648 ∨ y > 2147483647 then none
      else if m < 1 ∨ m > 12 ∨ d < 1 ∨ d > 31 then none
      else if d > daysInMonth y m then none
      else some (y, m, d)
    | _, _, _ => none
  | _ => none

/-! ## enums -/

/-- `strings.TrimPrefix` -/
def trimPrefix (s pfx : Bytes) : Bytes :=
  match stripPrefix pfx s with
  | some r => r
  | none => s

/-- `EnumSchema.OptionByName` -/
def optionByName (pfx : Bytes) (opts : List (Bytes × Int)) (name : Bytes) : Option Int :=
  let short := trimPrefix name pfx
  (opts.find? fun o => o.1 == short).map (·.2)

/-- `enumOptionByName` (`lib/j5reflect/type_enum.go`): the name as written first, then with the
enum's prefix removed -/
def enumOptionByName (pfx : Bytes) (opts : List (Bytes × Int)) (name : Bytes) : Option Int :=
  match opts.find? fun o => o.1 == name with
  | some o => some o.2
  | none => optionByName pfx opts name

/-- `EnumSchema.OptionByNumber` -/
def optionByNumber (opts : List (Bytes × Int)) (n : Int) : Option Bytes :=
  (opts.find? fun o => o.2 == n).map (·.1)

/-! ## oracle types -/

structure Oracle where
  /-- `strconv.FormatFloat(v, 'g', -1, 64)` of the float64 with these bits -/
  fmtF64 : Nat → Bytes
  /-- `strconv.FormatFloat(float64(v), 'g', -1, 32)` of the float32 with these bits -/
  fmtF32 : Nat → Bytes
  /-- `strconv.ParseFloat(text, 64)`: float64 bits and the bits of `float32(v)`, or `none` for the
  latter when `v` is finite and `float32(v)` overflows to ±Inf -/
  parseFloat : Bytes → Option (Nat × Option Nat)
  /-- `time.Unix(secs, nanos).In(time.UTC).Format(time.RFC3339Nano)` -/
  fmtTime : Int → Int → Bytes
  /-- `time.Parse(time.RFC3339, text)` as `timestamppb.New(t).{Seconds,Nanos}` -/
  parseTime : Bytes → Option (Int × Int)
  /-- `decimal.NewFromString(text)` then `.String()` -/
  parseDec : Bytes → Option Bytes
  /-- SPECIFICATION SIDE ONLY (the driver never sets it, the decoder never reads it): recognises the
  `j5_json` chunks a theorem speaks about and gives their parsed form. The encoder model keeps a
  recognised chunk in its tree in parsed form instead of as one `raw` node *only if it renders to
  exactly the same bytes* (`chunkNode`), so the bytes the model writes do not depend on this field
  (`chunkNode_render`). -/
  chunk : Bytes → Option J5V.Json.PTree := fun _ => none

instance : Inhabited Oracle :=
  ⟨⟨fun _ => [], fun _ => [], fun _ => none, fun _ _ => [], fun _ => none, fun _ => none, fun _ => none⟩⟩

/-- the node the encoder model puts into its tree for the `j5_json` bytes of an `Any`: one `raw`
chunk, or — same bytes — the parsed form when the specification-side oracle recognises it. -/
def chunkNode (O : Oracle) (bs : Bytes) : J5V.Json.PTree :=
  match O.chunk bs with
  | some V => if V.render = bs then V else .raw bs
  | none => .raw bs

theorem chunkNode_render (O : Oracle) (bs : Bytes) : (chunkNode O bs).render = bs := by
  unfold chunkNode
  split
  · split
    · assumption
    · rfl
  · rfl

/-! ## encode -/

/-- what the encoder writes for a scalar: a JSON string (to be escaped by `appendString`) or a
bare literal -/
inductive ScalarOut where
  | quoted (s : Bytes)
  | bare (text : Bytes)
  deriving Repr, DecidableEq

/-- `addFloat`: NaN, +Inf and -Inf are written as the quoted strings protojson uses; finite values
as the bare `strconv.FormatFloat(v, 'g', -1, bits)` text -/
def nonFinite (neg expAllOnes mantZero : Bool) (text : Bytes) : ScalarOut :=
  if expAllOnes then
    (if mantZero then (if neg then .quoted (ascii "-Infinity") else .quoted (ascii "Infinity"))
     else .quoted (ascii "NaN"))
  else .bare text

/-- `scalarGoFromReflect` followed by the `encodeScalarField` switch. The proto kind of the stored
value is fixed by the descriptor; a value of the wrong shape cannot occur in a real message and
is an error here. -/
def encodeScalar (O : Oracle) (k : ScalarKind) (v : PVal) : Outcome ScalarOut :=
  match k, v with
  | .string, .str s => .ok (.quoted s)
  | .key, .str s => .ok (.quoted s)
  | .bool, .bool b => .ok (.bare (if b then ascii "true" else ascii "false"))
  | .int32, .int i => .ok (.bare (fmtInt i))
  | .uint32, .uint n => .ok (.bare (fmtNat n))
  | .int64, .int i => .ok (.quoted (fmtInt i))
  | .uint64, .uint n => .ok (.quoted (fmtNat n))
  | .float32, .f32 b => .ok (nonFinite (b / 2 ^ 31 % 2 = 1) (b / 2 ^ 23 % 256 = 255) (b % 2 ^ 23 = 0) (O.fmtF32 b))
  | .float64, .f64 b => .ok (nonFinite (b / 2 ^ 63 % 2 = 1) (b / 2 ^ 52 % 2048 = 2047) (b % 2 ^ 52 = 0) (O.fmtF64 b))
  | .bytes, .bytes s => .ok (.quoted (b64Encode s))
  | .date, .date y m d => .ok (.quoted (dateString y m d))
  | .decimal, .dec s => .ok (.quoted s)
  | .timestamp, .ts s n => .ok (.quoted (O.fmtTime s n))
  | _, _ => .err "scalar kind mismatch"

/-! ## decode -/

/-- the Go value a JSON token is handed over as: `string | json.Number | bool | nil` -/
inductive GoTok where
  | str (s : Bytes)
  | num (text : Bytes)
  | bool (b : Bool)
  | null
  deriving Repr, DecidableEq

/-- `scalarReflectFromGo(schema, token)`: `.ok (some v)` a valid `protoreflect.Value`,
`.ok none` the invalid `protoreflect.Value{}` returned with a nil error, `.err` an error. -/
def decodeScalar (O : Oracle) (k : ScalarKind) (t : GoTok) : Outcome (Option PVal) :=
  match k with
  | .bool =>
    match t with
    | .bool b => .ok (some (.bool b))
    | .null => .ok none
    | _ => .err "expected bool"
  | .string | .key =>
    match t with
    | .str s => .ok (some (.str s))
    | .null => .ok none
    | _ => .err "expected string"
  | .int32 =>
    match t with
    | .num text =>
      match parseInt text 64 with
      | none => .err "json.Number.Int64"
      | some v => if v > 2147483647 ∨ v < -2147483648 then .err "out of range" else .ok (some (.int v))
    | .str s =>
      match parseInt s 32 with
      | none => .err "strconv.ParseInt"
      | some v => .ok (some (.int v))
    | _ => .err "expected int"
  | .int64 =>
    match t with
    | .num text =>
      match parseInt text 64 with
      | none => .err "json.Number.Int64"
      | some v => .ok (some (.int v))
    | .str s =>
      match parseInt s 64 with
      | none => .err "strconv.ParseInt"
      | some v => .ok (some (.int v))
    | _ => .err "expected int"
  | .uint32 =>
    match t with
    | .num text =>
      match parseInt text 64 with
      | none => .err "json.Number.Int64"
      | some v => if v < 0 ∨ v > 4294967295 then .err "out of range" else .ok (some (.uint v.toNat))
    | .str s =>
      match parseUint s 32 with
      | none => .err "strconv.ParseUint"
      | some v => .ok (some (.uint v))
    | _ => .err "expected uint32"
  | .uint64 =>
    match t with
    | .num text =>
      match parseUint text 64 with
      | none => .err "strconv.ParseUint"
      | some v => .ok (some (.uint v))
    | .str s =>
      match parseUint s 64 with
      | none => .err "strconv.ParseUint"
      | some v => .ok (some (.uint v))
    | _ => .err "expected uint64"
  | .float32 =>
    let text : Option Bytes := match t with
      | .num x => some x
      | .str s => some s
      | _ => none
    match text with
    | none => .err "value can't float"
    | some x =>
      match O.parseFloat x with
      | none => .err "ParseFloat"
      | some (_, none) => .err "out of range for float32"
      | some (_, some b32) => .ok (some (.f32 b32))
  | .float64 =>
    let text : Option Bytes := match t with
      | .num x => some x
      | .str s => some s
      | _ => none
    match text with
    | none => .err "value can't float"
    | some x =>
      match O.parseFloat x with
      | none => .err "ParseFloat"
      | some (b64, _) => .ok (some (.f64 b64))
  | .bytes =>
    match t with
    | .str s =>
      match byteValueFromString s with
      | some b => .ok (some (.bytes b))
      | none => .err "base64"
    | _ => .err "expected []byte"
  | .timestamp =>
    match t with
    | .str s =>
      match O.parseTime s with
      | some (secs, nanos) => .ok (some (.ts secs nanos))
      | none => .err "time.Parse"
    | _ => .err "expected timestamp"
  | .decimal =>
    let text : Option Bytes := match t with
      | .str s => some s
      | .num x => some x
      | _ => none
    match text with
    | none => .err "expected decimal"
    | some s =>
      match O.parseDec s with
      | some norm => .ok (some (.dec norm))
      | none => .err "decimal.NewFromString"
  | .date =>
    match t with
    | .str s =>
      match dateFromString s with
      | some (y, m, d) => .ok (some (.date y m d))
      | none => .err "Invalid date string"
    | _ => .err "expected date"

end J5V.Codec
