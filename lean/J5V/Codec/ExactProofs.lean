import J5V.Codec.Doc
import J5V.Codec.FrameProofs
import J5V.Codec.FaultDocProofs
/-!
# Exactness, one member at a time (C03, first sentence)

A successfully decoded non-null scalar / enum member is stored with exactly the value its token
denotes, at the proto path of its property; array elements are appended in order, each with the
value its token denotes; storing a later member leaves every leaf at an unrelated path alone.
-/
namespace J5V.Codec
open J5V.Go J5V.Json

theorem decodeScalar_nonnull_some (O : Oracle) (k : ScalarKind) (tok : GoTok) (x : Option PVal)
    (hn : tok ≠ .null) (h : decodeScalar O k tok = .ok x) : ∃ v, x = some v := by
  cases k <;> cases tok <;> simp only [decodeScalar] at h <;>
    first
    | exact absurd rfl hn
    | (cases h; exact ⟨_, rfl⟩)
    | (repeat' split at h) <;> first | (cases h; exact ⟨_, rfl⟩) | cases h

/-- a scalar member: what is stored is what the token denotes -/
theorem scalar_member_exact (c : Cfg) (props : List PropDef) (p : PropDef) (k : ScalarKind)
    (t : PTree) (st st' : PS) (hf : p.field = .scalar k) (hnn : t ≠ .null)
    (h : decProp c props p t st = .ok st') :
    ∃ vv, scalarSpells c.O k vv t ∧ st'.m = updPath props p (some vv) st.m ∧
      st'.seen = p.jsonName :: st.seen ∧ p.jsonName ∉ st.seen ∧ groupBusy props p st.m = false := by
  unfold decProp at h; rw [hf] at h; simp only [] at h
  unfold decScalarProp at h
  have hcf : ∀ st1, createField props p st = .ok st1 →
      st1 = { m := st.m, seen := p.jsonName :: st.seen } ∧ p.jsonName ∉ st.seen ∧
        groupBusy props p st.m = false := by
    intro st1 hc
    unfold createField at hc
    split at hc
    · cases hc
    · next hns =>
      split at hc
      · cases hc
      · next hgb =>
        cases hc
        exact ⟨rfl, by simpa using hns, by simpa using hgb⟩
  cases t with
  | null => exact absurd rfl hnn
  | bad => cases h
  | raw bs => cases h
  | obj ms =>
    simp only [] at h
    cases hc : createField props p st with
    | ok st1 => rw [hc] at h; simp only [Outcome.bind, goTok] at h; split at h <;> cases h
    | err e => rw [hc] at h; cases h
    | panic w => rw [hc] at h; cases h
  | arr xs =>
    simp only [] at h
    cases hc : createField props p st with
    | ok st1 => rw [hc] at h; simp only [Outcome.bind, goTok] at h; split at h <;> cases h
    | err e => rw [hc] at h; cases h
    | panic w => rw [hc] at h; cases h
  | str s raw =>
    simp only [] at h
    cases hc : createField props p st with
    | ok st1 =>
      obtain ⟨rfl, hns, hgb⟩ := hcf st1 hc
      rw [hc] at h
      simp only [Outcome.bind, goTok] at h
      split at h
      · cases h
      · cases hd : decodeScalar c.O k (.str s) with
        | ok x =>
          rw [hd] at h; simp only [] at h; cases h
          obtain ⟨v, rfl⟩ := decodeScalar_nonnull_some c.O k _ x (by simp) hd
          exact ⟨v, ⟨by simp, _, rfl, hd⟩, rfl, rfl, hns, hgb⟩
        | err e => rw [hd] at h; cases h
        | panic w => rw [hd] at h; cases h
    | err e => rw [hc] at h; cases h
    | panic w => rw [hc] at h; cases h
  | num x' =>
    simp only [] at h
    cases hc : createField props p st with
    | ok st1 =>
      obtain ⟨rfl, hns, hgb⟩ := hcf st1 hc
      rw [hc] at h
      simp only [Outcome.bind, goTok] at h
      split at h
      · cases h
      · cases hd : decodeScalar c.O k (.num x') with
        | ok x =>
          rw [hd] at h; simp only [] at h; cases h
          obtain ⟨v, rfl⟩ := decodeScalar_nonnull_some c.O k _ x (by simp) hd
          exact ⟨v, ⟨by simp, _, rfl, hd⟩, rfl, rfl, hns, hgb⟩
        | err e => rw [hd] at h; cases h
        | panic w => rw [hd] at h; cases h
    | err e => rw [hc] at h; cases h
    | panic w => rw [hc] at h; cases h
  | bool b =>
    simp only [] at h
    cases hc : createField props p st with
    | ok st1 =>
      obtain ⟨rfl, hns, hgb⟩ := hcf st1 hc
      rw [hc] at h
      simp only [Outcome.bind, goTok] at h
      split at h
      · cases h
      · cases hd : decodeScalar c.O k (.bool b) with
        | ok x =>
          rw [hd] at h; simp only [] at h; cases h
          obtain ⟨v, rfl⟩ := decodeScalar_nonnull_some c.O k _ x (by simp) hd
          exact ⟨v, ⟨by simp, _, rfl, hd⟩, rfl, rfl, hns, hgb⟩
        | err e => rw [hd] at h; cases h
        | panic w => rw [hd] at h; cases h
    | err e => rw [hc] at h; cases h
    | panic w => rw [hc] at h; cases h

/-- the other members of the proto oneof are unset when `CreateField` passed its check -/
theorem siblingsUnset_of_not_busy (props : List PropDef) (p : PropDef) (kl : Nat) (m : Fields)
    (hkl : p.path.getLast? = some kl) (h : groupBusy props p m = false) :
    SiblingsUnset props p kl (msgAt p.path.dropLast m) := by
  intro gi hg q hq hqg hqd k' hk' hne
  unfold groupBusy at h
  rw [hg, hkl] at h
  simp only [List.any_eq_false] at h
  have := h q hq
  simp only [hqg, hqd, hk', beq_self_eq_true, Bool.true_and, Bool.and_eq_true, bne_iff_ne, ne_eq,
    not_and, Bool.not_eq_true, Option.isSome_eq_false_iff, Option.isNone_iff_eq_none] at this
  exact this hne

/-- the stored scalar is found at its path (unless it is the zero value of an implicit-presence
field, which protobuf does not store), and every leaf at an unrelated path is untouched -/
theorem scalar_member_stored (c : Cfg) (props : List PropDef) (p : PropDef) (k : ScalarKind)
    (t : PTree) (st st' : PS) (hf : p.field = .scalar k) (hnn : t ≠ .null) (hne : p.path ≠ [])
    (h : decProp c props p t st = .ok st') :
    ∃ vv, scalarSpells c.O k vv t ∧
      (getPath st'.m p.path = some vv ∨
        ((p.pres == .imp && vv.isZero) = true ∧ getPath st'.m p.path = none)) ∧
      ∀ x, x ≠ [] → ¬ p.path <+: x → ¬ x <+: p.path → getPath st'.m x = getPath st.m x := by
  obtain ⟨vv, hsp, hm, _, _, hgb⟩ := scalar_member_exact c props p k t st st' hf hnn h
  obtain ⟨kl, hkl⟩ : ∃ kl, p.path.getLast? = some kl :=
    ⟨p.path.getLast hne, List.getLast?_eq_some_getLast hne⟩
  have hsib := siblingsUnset_of_not_busy props p kl st.m hkl hgb
  -- a scalar is never an empty collection
  have hec : vv.isEmptyColl = false := by
    obtain ⟨_, tok, _, hd⟩ := hsp
    cases k <;> cases tok <;> simp only [decodeScalar] at hd <;>
      first
      | (cases hd; rfl)
      | ((repeat' split at hd) <;> first | (cases hd; rfl) | cases hd)
  refine ⟨vv, hsp, ?_, ?_⟩
  · rw [hm]
    cases hz : (p.pres == .imp && vv.isZero) with
    | false =>
      left
      exact getPath_go_self props p vv kl hkl hz hec p.path [] st.m rfl hne
    | true =>
      right
      refine ⟨rfl, ?_⟩
      exact getPath_go_erased props p vv kl hkl (by simp [hz]) p.path [] st.m rfl hne hsib
  · intro x hx h1 h2
    rw [hm]
    exact getPath_updPath_frame props p (some vv) kl hkl st.m x hne hx h1 h2 hsib

/-- array elements of scalar type: the decoded list is the start list followed, in order, by the
values the element tokens denote — nothing dropped, nothing coerced -/
theorem scalar_elems_exact (c : Cfg) (k : ScalarKind) :
    ∀ (xs : PElems) (acc l : List PVal) (term : Term),
      decElems c (.scalar k) xs acc = .ok (l, term) →
      ∃ vs, l = acc ++ vs ∧ elemsDenote c.O k vs xs
  | .nil t, acc, l, term, h => by
    unfold decElems at h
    split at h
    · cases h
    · cases h; exact ⟨[], by simp, by simp [elemsDenote]⟩
  | .cons v rest, acc, l, term, h => by
    unfold decElems at h
    simp only [] at h
    cases hg : goTok v with
    | none => rw [hg] at h; cases h
    | some tok =>
      rw [hg] at h
      simp only [] at h
      cases hd : decodeScalar c.O k tok with
      | ok o =>
        rw [hd] at h
        cases o with
        | none => cases h
        | some pv =>
          simp only [] at h
          obtain ⟨vs, hl, hden⟩ := scalar_elems_exact c k rest _ l term h
          refine ⟨pv :: vs, by rw [hl]; simp, ?_⟩
          simp only [elemsDenote]
          exact ⟨⟨tok, hg, hd⟩, hden⟩
      | err e => rw [hd] at h; cases h
      | panic w => rw [hd] at h; cases h
termination_by xs => sizeOf xs

/-- the shape of a successful `decodeValue(prop)`: an explicit null changes nothing; otherwise the
property was not yet set, no other member of its proto oneof was set, and (for a property with a
proto path) the message is the old one with one `Message.Set` / `Clear` at that path -/
theorem decProp_shape (c : Cfg) (props : List PropDef) (p : PropDef) (t : PTree) (st st' : PS)
    (h : decProp c props p t st = .ok st') :
    (t = .null ∧ st' = st) ∨
    (p.jsonName ∉ st.seen ∧ groupBusy props p st.m = false ∧ st'.seen = p.jsonName :: st.seen ∧
      (p.path ≠ [] → ∃ X, st'.m = updPath props p X st.m)) := by
  have key : ∀ (tail : PS → Outcome PS),
      (∀ s1 s2, tail s1 = .ok s2 → s2.seen = s1.seen ∧ (p.path ≠ [] → ∃ X, s2.m = updPath props p X s1.m)) →
      (createField props p st).bind tail = .ok st' →
      (t = .null ∧ st' = st) ∨
      (p.jsonName ∉ st.seen ∧ groupBusy props p st.m = false ∧ st'.seen = p.jsonName :: st.seen ∧
        (p.path ≠ [] → ∃ X, st'.m = updPath props p X st.m)) := by
    intro tail htail hb
    cases hcf : createField props p st with
    | ok st1 =>
      rw [hcf] at hb
      simp only [Outcome.bind] at hb
      obtain ⟨hs, hm⟩ := createField_seen props p st st1 hcf
      obtain ⟨h1, h2⟩ := htail st1 st' hb
      have hfresh : p.jsonName ∉ st.seen ∧ groupBusy props p st.m = false := by
        unfold createField at hcf
        split at hcf
        · cases hcf
        · next hns =>
          split at hcf
          · cases hcf
          · next hgb => exact ⟨by simpa using hns, by simpa using hgb⟩
      right
      refine ⟨hfresh.1, hfresh.2, by rw [h1, hs], ?_⟩
      intro hne
      obtain ⟨X, hX⟩ := h2 hne
      exact ⟨X, by rw [hX, hm]⟩
    | err e => rw [hcf] at hb; simp [Outcome.bind] at hb
    | panic w => rw [hcf] at hb; simp [Outcome.bind] at hb
  unfold decProp at h
  split at h
  · -- scalar
    unfold decScalarProp at h
    split at h
    · cases h
    · cases h
    · cases h; exact Or.inl ⟨rfl, rfl⟩
    · have := key _ (by
        intro s1 s2 hs
        split at hs
        · cases hs
        · split at hs
          · cases hs
          · cases hd : decodeScalar c.O _ _ with
            | ok v => rw [hd] at hs; simp only [Outcome.bind] at hs; cases hs; exact ⟨rfl, fun _ => ⟨_, rfl⟩⟩
            | err e => rw [hd] at hs; simp [Outcome.bind] at hs
            | panic w => rw [hd] at hs; simp [Outcome.bind] at hs) h
      exact this
  · -- enum
    unfold decEnumProp at h
    split at h
    · cases h
    · cases h
    · cases h; exact Or.inl ⟨rfl, rfl⟩
    · have := key _ (by
        intro s1 s2 hs
        split at hs
        · cases hs
        · split at hs
          · split at hs
            · cases hs; exact ⟨rfl, fun _ => ⟨_, rfl⟩⟩
            · cases hs
          · cases hs) h
      exact this
  · -- object
    split at h
    · cases h; exact Or.inl ⟨rfl, rfl⟩
    · have := key _ (by
        intro s1 s2 hs
        split at hs
        · cases hs
        · split at hs
          · unfold finishObjectProp at hs
            cases hr : decObjMembers c _ _ (subStart p s1) with
            | ok a =>
              rw [hr] at hs; simp only [Outcome.bind] at hs
              split at hs
              · cases hs; exact ⟨rfl, fun _ => ⟨_, rfl⟩⟩
              · cases hs
            | err e => rw [hr] at hs; simp [Outcome.bind] at hs
            | panic w => rw [hr] at hs; simp [Outcome.bind] at hs
          · cases hs) h
      exact this
    · cases h
  · -- oneof
    split at h
    · cases h; exact Or.inl ⟨rfl, rfl⟩
    · have := key _ (by
        intro s1 s2 hs
        split at hs
        · unfold finishOneofProp at hs
          cases hr : decOneofMembers c _ _ (oneofStart p s1) [] none with
          | ok a =>
            rw [hr] at hs; simp only [Outcome.bind] at hs
            split at hs
            · cases hs
            · cases hpost : oneofPost _ a.2.1 a.2.2.1 a.1.m with
              | ok tp =>
                rw [hpost] at hs; simp only [Outcome.bind] at hs
                split at hs
                · cases hs
                  refine ⟨rfl, fun hne => ?_⟩
                  have hem : p.path.isEmpty = false := by
                    cases hpp : p.path with
                    | nil => exact absurd hpp hne
                    | cons a' t' => rfl
                  simp only [hem, Bool.false_eq_true, if_false]
                  exact ⟨_, rfl⟩
                · cases hs
              | err e => rw [hpost] at hs; simp [Outcome.bind] at hs
              | panic w => rw [hpost] at hs; simp [Outcome.bind] at hs
          | err e => rw [hr] at hs; simp [Outcome.bind] at hs
          | panic w => rw [hr] at hs; simp [Outcome.bind] at hs
        · cases hs) h
      exact this
    · cases h
  · -- any
    split at h
    · cases h; exact Or.inl ⟨rfl, rfl⟩
    · have := key _ (by
        intro s1 s2 hs
        split at hs
        · cases hs
        · unfold finishAnyProp at hs
          cases hr : decAnyMembers c _ _ ({} : AnyAcc) with
          | ok a =>
            rw [hr] at hs; simp only [Outcome.bind] at hs
            split at hs
            · cases hs
            · split at hs
              · cases hs
              · cases hs
              · cases hin : (if c.protoToAny = true then a.1.inner else Outcome.ok none) with
                | ok inner =>
                  rw [hin] at hs; simp only [Outcome.bind] at hs
                  split at hs
                  · split at hs
                    · cases hs
                    · split at hs
                      · cases hs; exact ⟨rfl, fun _ => ⟨_, rfl⟩⟩
                      · cases hs
                  · split at hs
                    · cases hs; exact ⟨rfl, fun _ => ⟨_, rfl⟩⟩
                    · cases hs
                | err e => rw [hin] at hs; simp [Outcome.bind] at hs
                | panic w => rw [hin] at hs; simp [Outcome.bind] at hs
          | err e => rw [hr] at hs; simp [Outcome.bind] at hs
          | panic w => rw [hr] at hs; simp [Outcome.bind] at hs) h
      exact this
    · cases h
  · -- array
    split at h
    · cases h; exact Or.inl ⟨rfl, rfl⟩
    · have := key _ (by
        intro s1 s2 hs
        split at hs
        · cases hs
        · cases hic : itemCheck _ with
          | ok u =>
            rw [hic] at hs; simp only [Outcome.bind] at hs
            unfold finishArrayProp at hs
            cases hr : decElems c _ _ (listStart p s1) with
            | ok a =>
              rw [hr] at hs; simp only [Outcome.bind] at hs
              split at hs
              · cases hs; exact ⟨rfl, fun _ => ⟨_, rfl⟩⟩
              · cases hs
            | err e => rw [hr] at hs; simp [Outcome.bind] at hs
            | panic w => rw [hr] at hs; simp [Outcome.bind] at hs
          | err e => rw [hic] at hs; simp [Outcome.bind] at hs
          | panic w => rw [hic] at hs; simp [Outcome.bind] at hs) h
      exact this
    · cases h
  · -- map
    split at h
    · cases h; exact Or.inl ⟨rfl, rfl⟩
    · have := key _ (by
        intro s1 s2 hs
        split at hs
        · cases hs
        · cases hic : itemCheck _ with
          | ok u =>
            rw [hic] at hs; simp only [Outcome.bind] at hs
            unfold finishMapProp at hs
            cases hr : decMapMembers c _ _ (mapStart p s1) with
            | ok a =>
              rw [hr] at hs; simp only [Outcome.bind] at hs
              split at hs
              · cases hs; exact ⟨rfl, fun _ => ⟨_, rfl⟩⟩
              · cases hs
            | err e => rw [hr] at hs; simp [Outcome.bind] at hs
            | panic w => rw [hr] at hs; simp [Outcome.bind] at hs
          | err e => rw [hic] at hs; simp [Outcome.bind] at hs
          | panic w => rw [hic] at hs; simp [Outcome.bind] at hs) h
      exact this
    · cases h


end J5V.Codec

namespace J5V.Codec
open J5V.Go J5V.Json

/-- distinct properties address unrelated leaves (what `Env.flat` gives for object roots without
exposed oneofs) -/
def PathsApart (props : List PropDef) : Prop :=
  (∀ p ∈ props, p.path ≠ []) ∧
  ∀ p ∈ props, ∀ q ∈ props, p.jsonName ≠ q.jsonName → ¬ p.path <+: q.path

/-- once a property is set, the rest of the member loop leaves its leaf alone -/
theorem member_persists (c : Cfg) (props : List PropDef) (hpa : PathsApart props) (p : PropDef)
    (hp : p ∈ props) :
    ∀ (ms : PMembers) (st st' : PS) (term : Term),
      decObjMembers c props ms st = .ok (st', term) → p.jsonName ∈ st.seen →
      getPath st'.m p.path = getPath st.m p.path
  | .nil t, st, st', term, h, _ => by
    unfold decObjMembers at h
    split at h
    · cases h
    · cases h; rfl
  | .cons k kr v rest, st, st', term, h, hseen => by
    unfold decObjMembers at h
    cases hf : findProp props k with
    | none => rw [hf] at h; cases h
    | some q =>
      rw [hf] at h
      simp only [] at h
      cases hd : decProp c props q v st with
      | err e => rw [hd] at h; cases h
      | panic w => rw [hd] at h; cases h
      | ok st1 =>
        rw [hd] at h
        simp only [] at h
        have hq := findProp_mem props k q hf
        have hmono := (decProp_seen c props q v st st1 hd).1 p.jsonName hseen
        rw [member_persists c props hpa p hp rest st1 st' term h hmono]
        rcases decProp_shape c props q v st st1 hd with ⟨_, rfl⟩ | ⟨hfresh, hgb, _, hm⟩
        · rfl
        · have hqne := hpa.1 q hq
          obtain ⟨X, hX⟩ := hm hqne
          have hnn : q.jsonName ≠ p.jsonName := fun e => hfresh (e ▸ hseen)
          obtain ⟨kl, hkl⟩ : ∃ kl, q.path.getLast? = some kl :=
            ⟨q.path.getLast hqne, List.getLast?_eq_some_getLast hqne⟩
          rw [hX]
          exact getPath_updPath_frame props q X kl hkl st.m p.path hqne (hpa.1 p hp)
            (hpa.2 q hq p hp hnn) (hpa.2 p hp q hq (fun e => hnn e.symm))
            (siblingsUnset_of_not_busy props q kl st.m hkl hgb)
termination_by ms => sizeOf ms

/-- **object level exactness for scalar members**: when the member loop of an object succeeds,
every non-null scalar member of that object is found in the resulting message, at the proto path
of its property, with exactly a value its token denotes (or it is the unstored zero value of an
implicit-presence field) — whatever the other members are, wherever in the document the object is -/
theorem object_scalar_members_exact (c : Cfg) (props : List PropDef) (hpa : PathsApart props) :
    ∀ (ms : PMembers) (st st' : PS) (term : Term),
      decObjMembers c props ms st = .ok (st', term) →
      ∀ k v p kk, isMember k v ms → v ≠ .null → findProp props k = some p → p.field = .scalar kk →
      ∃ vv, scalarSpells c.O kk vv v ∧
        (getPath st'.m p.path = some vv ∨
          ((p.pres == .imp && vv.isZero) = true ∧ getPath st'.m p.path = none))
  | .nil t, st, st', term, h, k, v, p, kk, hmem, _, _, _ => by simp [isMember] at hmem
  | .cons k0 kr v0 rest, st, st', term, h, k, v, p, kk, hmem, hnn, hfp, hfld => by
    unfold decObjMembers at h
    cases hf : findProp props k0 with
    | none => rw [hf] at h; cases h
    | some q =>
      rw [hf] at h
      simp only [] at h
      cases hd : decProp c props q v0 st with
      | err e => rw [hd] at h; cases h
      | panic w => rw [hd] at h; cases h
      | ok st1 =>
        rw [hd] at h
        simp only [] at h
        simp only [isMember] at hmem
        rcases hmem with ⟨rfl, rfl⟩ | hmem
        · -- this member
          rw [hfp] at hf; cases hf
          have hp := findProp_mem props k0 p hfp
          obtain ⟨vv, hsp, hst, _⟩ := scalar_member_stored c props p kk v0 st st1 hfld hnn (hpa.1 p hp) hd
          have hseen := (decProp_seen c props p v0 st st1 hd).2 hnn
          have hper := member_persists c props hpa p hp rest st1 st' term h hseen
          exact ⟨vv, hsp, by rw [hper]; exact hst⟩
        · exact object_scalar_members_exact c props hpa rest st1 st' term h k v p kk hmem hnn hfp hfld
termination_by ms => sizeOf ms

end J5V.Codec
