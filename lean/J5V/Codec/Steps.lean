import J5V.Codec.Decode
/-!
# Step count of the decoder (C06: "time bounded by the input size")

`decRootTreeN c root t` is the number of steps `decRootTree c root t` makes: one per call of
`decodeValue` (`decProp`), one per iteration of a member / element loop, one per terminator, plus
— for the value of an `Any` — the size of the subtree `Decoder.Decode(&raw)` + `json.Compact`
re-scan (`popValueAsBytes`) and, with `WithProtoToAny`, the steps of decoding that value again
into the named type (`codec.decode(valueBytes, msg)`), which happens only while fewer than
`maxAnyDepth` Any values enclose it (309b762).

The count functions have the same recursion as the decoder (structural on the tree) and take the
decoder's own intermediate results (`decProp … = .ok st1`) to continue a loop exactly where the
decoder continues; where the decoder stops, counting stops. Scalar conversion (`decodeScalar`,
linear in the token) is one step per token.
-/
namespace J5V.Codec
open J5V.Go J5V.Json

mutual
def decPropN (c : Cfg) (props : List PropDef) (p : PropDef) (t : PTree) (st : PS) : Nat :=
  match p.field with
  | .scalar _ => 1
  | .enum _ => 1
  | .object ref =>
    match t with
    | .obj ms =>
      match createField props p st with
      | .ok st1 =>
        match c.env.find ref with
        | some (.object sub) => 1 + decObjMembersN c sub ms (subStart p st1)
        | _ => 1
      | _ => 1
    | _ => 1
  | .oneof ref =>
    match t with
    | .obj ms =>
      match createField props p st with
      | .ok st1 =>
        match c.env.find ref with
        | some (.oneof ops) => 1 + decOneofMembersN c ops ms (oneofStart p st1)
        | _ => 1
      | _ => 1
    | _ => 1
  | .any _ =>
    match t with
    | .obj ms => 1 + decAnyMembersN c (finalType ms none) ms
    | _ => 1
  | .array item =>
    match t with
    | .arr xs => 1 + decElemsN c item xs
    | _ => 1
  | .map item =>
    match t with
    | .obj ms => 1 + decMapMembersN c item ms
    | _ => 1

def decObjMembersN (c : Cfg) (props : List PropDef) (ms : PMembers) (st : PS) : Nat :=
  match ms with
  | .nil _ => 1
  | .cons k _ v rest =>
    match findProp props k with
    | none => 1
    | some p =>
      1 + decPropN c props p v st +
        (match decProp c props p v st with
         | .ok st1 => decObjMembersN c props rest st1
         | _ => 0)

def decOneofMembersN (c : Cfg) (ops : List PropDef) (ms : PMembers) (st : PS) : Nat :=
  match ms with
  | .nil _ => 1
  | .cons k _ v rest =>
    if k = ascii "!type" then 1 + decOneofMembersN c ops rest st
    else
      match findProp ops k with
      | none => 1
      | some p =>
        1 + decPropN c ops p v st +
          (match decProp c ops p v st with
           | .ok st1 => decOneofMembersN c ops rest st1
           | _ => 0)

def decAnyMembersN (c : Cfg) (ftype : Option Bytes) (ms : PMembers) : Nat :=
  match ms with
  | .nil _ => 1
  | .cons k _ v rest =>
    if k = ascii "!type" then 1 + decAnyMembersN c ftype rest
    else if k ≠ ascii "value" then 1
    else
      -- `popValueAsBytes`: the scanner and `Compact` walk the value once each
      1 + 2 * v.size +
        (match ftype with
         | none => 0
         | some tn =>
           if c.protoToAny && decide (c.anyDepth < maxAnyDepth) then
             match c.env.resolve tn with
             | none => 0
             | some root => decRootTreeN { c with anyDepth := c.anyDepth + 1 } root v
           else 0) +
        decAnyMembersN c ftype rest

def decElemsN (c : Cfg) (item : Field) (xs : PElems) : Nat :=
  match xs with
  | .nil _ => 1
  | .cons v rest =>
    1 + (match item with
         | .object ref =>
           match c.env.find ref with
           | some (.object sub) => decObjectN c sub v
           | _ => 0
         | .oneof ref =>
           match c.env.find ref with
           | some (.oneof ops) => decOneofN c ops v
           | _ => 0
         | _ => 1) + decElemsN c item rest

def decMapMembersN (c : Cfg) (item : Field) (ms : PMembers) : Nat :=
  match ms with
  | .nil _ => 1
  | .cons _ _ v rest =>
    1 + (match item with
         | .object ref =>
           match c.env.find ref with
           | some (.object sub) => decObjectN c sub v
           | _ => 0
         | .oneof ref =>
           match c.env.find ref with
           | some (.oneof ops) => decOneofN c ops v
           | _ => 0
         | _ => 1) + decMapMembersN c item rest

def decObjectN (c : Cfg) (props : List PropDef) (t : PTree) : Nat :=
  match t with
  | .obj ms => 1 + decObjMembersN c props ms { m := [], seen := [] }
  | _ => 1

def decOneofN (c : Cfg) (ops : List PropDef) (t : PTree) : Nat :=
  match t with
  | .obj ms => 1 + decOneofMembersN c ops ms { m := [], seen := [] }
  | _ => 1

def decRootTreeN (c : Cfg) (root : String) (t : PTree) : Nat :=
  match c.env.find root with
  | some (.object props) =>
    match t with
    | .obj ms => 1 + decObjMembersN c props ms { m := [], seen := [] }
    | _ => 1
  | some (.oneof ops) =>
    match t with
    | .obj ms => 1 + decOneofMembersN c ops ms { m := [], seen := [] }
    | _ => 1
  | _ => 1
end

/-- steps of `Codec.JSONToProto` after tokenisation (which is one pass over the bytes) -/
def decodeBytesN (c : Cfg) (root : String) (bs : Bytes) : Nat :=
  decRootTreeN c root (readDoc bs)

end J5V.Codec
