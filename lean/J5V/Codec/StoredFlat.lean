import J5V.Codec.StoredProofs
import J5V.Codec.RoundtripInd
/-!
# `Env.flat → Env.apart`: C03's whole-document exactness holds for every flat environment
-/
namespace J5V.Codec
open J5V.Go J5V.Json

/-- members of a `flatMap` that come from different elements of a duplicate-free result differ -/
theorem flatMap_cross {α β : Type} (f : α → List β) :
    ∀ (l : List α), (l.flatMap f).Nodup → ∀ p ∈ l, ∀ p' ∈ l, p ≠ p' → ∀ x, x ∈ f p → x ∈ f p' → False := by
  intro l
  induction l with
  | nil => intro _ p hp; cases hp
  | cons a t ih =>
    intro hnd p hp p' hp' hne x hx hx'
    simp only [List.flatMap_cons] at hnd
    obtain ⟨_, h2, h3⟩ := List.nodup_append.mp hnd
    rcases List.mem_cons.mp hp with rfl | hpt
    · rcases List.mem_cons.mp hp' with rfl | hpt'
      · exact hne rfl
      · exact h3 x hx x (List.mem_flatMap.mpr ⟨p', hpt', hx'⟩) rfl
    · rcases List.mem_cons.mp hp' with rfl | hpt'
      · exact h3 x hx' x (List.mem_flatMap.mpr ⟨p, hpt, hx⟩) rfl
      · exact ih h2 p hpt p' hpt' hne x hx hx'

/-- a oneof root of a flat environment: one-element paths, unrelated -/
theorem oneof_root_apart (ops : List PropDef) (h : rootSimple (.oneof ops) = true) :
    (∀ q ∈ ops, ∃ k, q.path = [k]) ∧ PathsApart ops := by
  simp only [rootSimple, Bool.and_eq_true, decide_eq_true_eq] at h
  obtain ⟨⟨⟨hall, _⟩, hpaths⟩, _⟩ := h
  have hsingle : ∀ q ∈ ops, ∃ k, q.path = [k] := by
    intro q hq
    have := List.all_eq_true.mp hall q hq
    simp only [propSimple, Bool.and_eq_true, beq_iff_eq] at this
    cases hqp : q.path with
    | nil => rw [hqp] at this; simp at this
    | cons a b =>
      cases b with
      | nil => exact ⟨a, rfl⟩
      | cons b1 b2 => rw [hqp] at this; simp at this
  refine ⟨hsingle, ?_, ?_⟩
  · intro q hq
    obtain ⟨k, hk⟩ := hsingle q hq
    rw [hk]; simp
  · intro p hp q hq hne hpre
    obtain ⟨a, ha⟩ := hsingle p hp
    obtain ⟨b, hb⟩ := hsingle q hq
    rw [ha, hb] at hpre
    have hab : a = b := by
      obtain ⟨t, ht⟩ := hpre
      simp only [List.cons_append, List.nil_append, List.cons.injEq] at ht
      exact ht.1
    have : p.path = q.path := by rw [ha, hb, hab]
    exact hne (congrArg (·.jsonName) (nodup_map_inj (·.path) ops hpaths p hp q hq this))

theorem leaf_entry_mem (env : Env) (p q : PropDef) (hsingle : p.path = [] → ∀ q ∈ exposedOps env p, ∃ k, q.path = [k])
    (hq : q ∈ leavesOf env p) : (q.path, q.field, q.pres) ∈ propLeaves env p := by
  unfold leavesOf at hq
  unfold propLeaves
  by_cases hpe : p.path = []
  · rw [if_pos hpe] at hq
    rw [hpe]
    simp only [List.mem_filterMap]
    obtain ⟨k, hk⟩ := hsingle hpe q hq
    exact ⟨q, hq, by rw [hk]⟩
  · rw [if_neg hpe] at hq
    simp only [List.mem_singleton] at hq
    subst hq
    cases hqp : q.path with
    | nil => exact absurd hqp hpe
    | cons a b => simp

/-- an object root of a flat environment addresses unrelated leaves -/
theorem apartX_of_flat (env : Env) (hflat : env.flat = true) (props : List PropDef)
    (h : rootFlat env (.object props) = true) : ApartX env props := by
  obtain ⟨hall, hnames, hpaths, hleaf⟩ := object_root_facts env props h
  have hexp : ∀ p ∈ props, p.path = [] → ∃ ref ops, p.field = .oneof ref ∧
      env.find ref = some (.oneof ops) ∧ (∀ q ∈ ops, ∃ k, q.path = [k]) ∧ PathsApart ops := by
    intro p hp hpe
    rcases hall p hp with hf | hx
    · simp [propFlat, hpe] at hf
    · obtain ⟨_, _, ref, ops, hfld, hfind⟩ := propExposed_inv env p hx
      have hroot := rootFlat_oneof env ops (find_rootFlat env hflat ref _ hfind)
      obtain ⟨h1, h2⟩ := oneof_root_apart ops hroot
      exact ⟨ref, ops, hfld, hfind, h1, h2⟩
  have hsingle : ∀ p ∈ props, p.path = [] → ∀ q ∈ exposedOps env p, ∃ k, q.path = [k] := by
    intro p hp hpe q hq
    obtain ⟨ref, ops, hfld, hfind, h1, _⟩ := hexp p hp hpe
    have : exposedOps env p = ops := by
      have := leavesOf_exposed env p ref ops hpe hfld hfind
      unfold leavesOf at this; rw [if_pos hpe] at this; exact this
    rw [this] at hq
    exact h1 q hq
  refine ⟨hexp, ?_⟩
  intro p hp p' hp' hne q hq q' hq' hpre
  have ha := leaf_entry_mem env p q (hsingle p hp) hq
  have hb := leaf_entry_mem env p' q' (hsingle p' hp') hq'
  have hae : (q.path, q.field, q.pres) ∈ leafEntries env props :=
    List.mem_flatMap.mpr ⟨p, hp, ha⟩
  have hbe : (q'.path, q'.field, q'.pres) ∈ leafEntries env props :=
    List.mem_flatMap.mpr ⟨p', hp', hb⟩
  have heq := hleaf _ hae _ hbe hpre
  have hpq : q.path = q'.path := congrArg (·.1) heq
  have hnd : (props.flatMap (fun p => (propLeaves env p).map (·.1))).Nodup := by
    have : (leafEntries env props).map (·.1) = props.flatMap (fun p => (propLeaves env p).map (·.1)) := by
      unfold leafEntries; rw [List.map_flatMap]
    rw [← this]; exact hpaths
  exact flatMap_cross _ props hnd p hp p' hp' (fun e => hne (by rw [e])) q.path
    (List.mem_map.mpr ⟨_, ha, rfl⟩) (by rw [hpq]; exact List.mem_map.mpr ⟨_, hb, rfl⟩)

/-- **every flat environment is apart** -/
theorem apart_of_flat (env : Env) (hflat : env.flat = true) : env.apart := by
  intro name props
  refine ⟨?_, ?_⟩
  · intro hf
    exact apartX_of_flat env hflat props (find_rootFlat env hflat name _ hf)
  · intro hf
    exact (oneof_root_apart props (rootFlat_oneof env props (find_rootFlat env hflat name _ hf))).2

end J5V.Codec
