import J5V.Codec.RoundtripProofs
/-!
# `Any` values (C01, tree level): what the encoder writes and what the decoder recovers

A `j5.types.any.v1.Any` that carries `j5_json` is written as `{"!type": typeName, "value": <the
j5_json bytes verbatim>}`; reading `{"!type": typeName, "value": V}` (codec without
`WithProtoToAny`) stores `typeName` and the compact bytes of `V` (`Decode(&raw)` + `Compact`).
So the pair round-trips exactly when `j5_json` is the compact rendering of a JSON value of
nesting depth ≤ 10000. (Not yet connected through the byte level: the encoder's tree holds the
bytes as one `raw` chunk, the reader delivers the parsed value; see notes.)
-/
namespace J5V.Codec
open J5V.Go J5V.Json

theorem chunkNode_some (O : Oracle) (bs : Bytes) (V : PTree) (h : O.chunk bs = some V)
    (hr : V.render = bs) : chunkNode O bs = V := by
  unfold chunkNode; simp [h, hr]

theorem chunkNode_none (O : Oracle) (bs : Bytes) (h : O.chunk bs = none) : chunkNode O bs = .raw bs := by
  unfold chunkNode; simp [h]

/-- the encoder's tree for a j5 Any with `j5_json`: the bytes as one chunk (in parsed form when
the specification-side oracle recognises them — same bytes, `chunkNode_render`) -/
theorem enc_any_j5 (env : Env) (O : Oracle) (f : Nat) (tn proto j5 : Bytes) (ik : InnerKind)
    (iroot : String) (inner : PVal) (hj : j5 ≠ []) (hu : isValidUtf8 tn = true) :
    ∃ tlit nlit vlit, encValue env O (f + 1) (.any false) (.anyJ5 tn proto j5 ik iroot inner) =
      .ok (.obj (.cons typeKey tlit (.str tn nlit) (.cons valueKey vlit (chunkNode O j5) (.nil .closed)))) := by
  obtain ⟨tlit, htl⟩ := (appendString_total typeKey).2.1 (by decide)
  obtain ⟨vlit, hvl⟩ := (appendString_total valueKey).2.1 (by decide)
  obtain ⟨nlit, hnl⟩ := strNode_ok tn hu
  refine ⟨tlit, nlit, vlit, ?_⟩
  have hne : j5.isEmpty = false := by cases j5 with | nil => exact absurd rfl hj | cons a b => rfl
  simp [encValue, hne, htl, hvl, hnl]

/-- what `valOk` says about a j5 `Any` value -/
theorem valOk_any (env : Env) (O : Oracle) (v : PVal) (h : valOk env O (.any false) v = true) :
    ∃ tn j5 V, v = .anyJ5 tn [] j5 .none "" (.msg []) ∧ env.noJ5Any = false ∧ isValidUtf8 tn = true ∧
      j5 ≠ [] ∧ O.chunk j5 = some V ∧ V.render = j5 ∧ V.complete = true ∧ V.depth ≤ 10000 := by
  cases v with
  | anyJ5 tn proto j5 ik iroot inner =>
    unfold valOk at h
    split at h
    · next heq1 heq2 heq3 heq4 =>
      cases hch : O.chunk j5 with
      | none => simp [hch] at h
      | some V =>
        simp only [hch, Bool.and_eq_true, Bool.not_eq_true', beq_iff_eq, decide_eq_true_eq] at h
        obtain ⟨⟨⟨hna, hu⟩, hj⟩, ⟨hr, hc⟩, hd⟩ := h
        refine ⟨tn, j5, V, rfl, hna, hu, ?_, hch, hr, hc, hd⟩
        intro hnil; rw [hnil] at hj; cases hj
    · cases h
  | _ => simp [valOk] at h

/-- the decoder (without `WithProtoToAny`) recovers type name and value bytes from the framed
value, whatever the order of the two members is not needed here: canonical order -/
theorem dec_any_j5 (c : Cfg) (hmode : c.protoToAny = false) (props : List PropDef) (p : PropDef)
    (st : PS) (tn : Bytes) (tlit nlit vlit : Bytes) (tv : PTree)
    (hf : p.field = .any false) (hp : p.path ≠ []) (hs : p.jsonName ∉ st.seen)
    (hgb : groupBusy props p st.m = false) (hc : tv.complete = true) (hd : tv.depth ≤ 10000) :
    decProp c props p
        (.obj (.cons typeKey tlit (.str tn nlit) (.cons valueKey vlit tv (.nil .closed)))) st =
      .ok { m := updPath props p (some (.anyJ5 tn [] tv.render .none "" (.msg []))) st.m,
            seen := p.jsonName :: st.seen } := by
  have hne : p.path.isEmpty = false := by
    cases hpp : p.path with
    | nil => exact absurd hpp hp
    | cons a b => rfl
  have hpop : popValueAsBytes tv = some tv.render := by
    unfold popValueAsBytes; simp [hc, hd]
  have hvk : ascii "value" ≠ ascii "!type" := by decide
  unfold decProp; rw [hf]
  simp only [createField_fresh props p st hs hgb, Outcome.bind, hne, Bool.false_eq_true, if_false]
  simp only [decAnyMembers, typeKey, valueKey, if_true, hvk, if_false, ne_eq, not_true_eq_false,
    Option.isSome_none, Bool.false_eq_true, hpop]
  simp [finishAnyProp, Outcome.bind, hmode, closeOk]

/-- … and with the two members in the other order -/
theorem dec_any_j5_rev (c : Cfg) (hmode : c.protoToAny = false) (props : List PropDef) (p : PropDef)
    (st : PS) (tn : Bytes) (tlit nlit vlit : Bytes) (tv : PTree)
    (hf : p.field = .any false) (hp : p.path ≠ []) (hs : p.jsonName ∉ st.seen)
    (hgb : groupBusy props p st.m = false) (hc : tv.complete = true) (hd : tv.depth ≤ 10000) :
    decProp c props p
        (.obj (.cons valueKey vlit tv (.cons typeKey tlit (.str tn nlit) (.nil .closed)))) st =
      .ok { m := updPath props p (some (.anyJ5 tn [] tv.render .none "" (.msg []))) st.m,
            seen := p.jsonName :: st.seen } := by
  have hne : p.path.isEmpty = false := by
    cases hpp : p.path with
    | nil => exact absurd hpp hp
    | cons a b => rfl
  have hpop : popValueAsBytes tv = some tv.render := by
    unfold popValueAsBytes; simp [hc, hd]
  have hvk : ascii "value" ≠ ascii "!type" := by decide
  unfold decProp; rw [hf]
  simp only [createField_fresh props p st hs hgb, Outcome.bind, hne, Bool.false_eq_true, if_false]
  simp only [decAnyMembers, typeKey, valueKey, if_true, hvk, if_false, ne_eq, not_true_eq_false,
    Option.isSome_none, Bool.false_eq_true, hpop]
  simp [finishAnyProp, Outcome.bind, hmode, closeOk]

theorem Dec_any_rev (c : Cfg) (hmode : c.protoToAny = false) (tn tlit nlit vlit : Bytes) (tv : PTree)
    (hc : tv.complete = true) (hd : tv.depth ≤ 10000) :
    Dec c (.any false) (.anyJ5 tn [] tv.render .none "" (.msg []))
      (.obj (.cons valueKey vlit tv (.cons typeKey tlit (.str tn nlit) (.nil .closed)))) where
  prop := fun props p st hf hp hs _ hgb =>
    dec_any_j5_rev c hmode props p st tn tlit nlit vlit tv hf hp hs hgb hc hd
  elem := fun h => by simp [itemSimple] at h
  mapv := fun h => by simp [itemSimple] at h

/-- a framed value `{"!type": tn, "value": V}` decodes (codec without `WithProtoToAny`) to the j5
`Any` that holds the compact bytes of `V`, in the only decoding context an `Any` can stand in
(property value; arrays / maps of `Any` are not supported by the codec) -/
theorem Dec_any (c : Cfg) (hmode : c.protoToAny = false) (tn tlit nlit vlit : Bytes) (tv : PTree)
    (hc : tv.complete = true) (hd : tv.depth ≤ 10000) :
    Dec c (.any false) (.anyJ5 tn [] tv.render .none "" (.msg []))
      (.obj (.cons typeKey tlit (.str tn nlit) (.cons valueKey vlit tv (.nil .closed)))) where
  prop := fun props p st hf hp hs _ hgb =>
    dec_any_j5 c hmode props p st tn tlit nlit vlit tv hf hp hs hgb hc hd
  elem := fun h => by simp [itemSimple] at h
  mapv := fun h => by simp [itemSimple] at h

/-! ## `google.protobuf.Any` -/

theorem stripPrefix_append : ∀ (pfx s : Bytes), stripPrefix pfx (pfx ++ s) = some s
  | [], s => by simp [stripPrefix]
  | p :: ps, s => by simp [stripPrefix, stripPrefix_append ps s]

theorem trimPrefix_append (pfx s : Bytes) : trimPrefix (pfx ++ s) pfx = s := by
  unfold trimPrefix; rw [stripPrefix_append]

/-- what the encoder writes for a protobuf `Any` whose content unmarshals to `inner` -/
theorem enc_any_pb (env : Env) (O : Oracle) (F : Nat) (url val : Bytes) (iroot : String)
    (inner : PVal) (data : PTree) (hroot : encRoot env O (F + 1) iroot inner = .ok data)
    (hu : isValidUtf8 (trimPrefix url anyPrefix) = true) :
    ∃ tlit nlit vlit, encValue env O (F + 2) (.any true) (.anyPb url val .inn iroot inner) =
      .ok (.obj (.cons typeKey tlit (.str (trimPrefix url anyPrefix) nlit)
        (.cons valueKey vlit data (.nil .closed)))) := by
  obtain ⟨tlit, htl⟩ := (appendString_total typeKey).2.1 (by decide)
  obtain ⟨vlit, hvl⟩ := (appendString_total valueKey).2.1 (by decide)
  obtain ⟨nlit, hnl⟩ := strNode_ok _ hu
  refine ⟨tlit, nlit, vlit, ?_⟩
  simp [encValue, hroot, htl, hvl, hnl]

/-- the decoder built `WithProtoToAny` reading the framed value into a protobuf `Any` property -/
theorem dec_any_pb (c : Cfg) (hmode : c.protoToAny = true) (hdepth : c.anyDepth < maxAnyDepth)
    (props : List PropDef) (p : PropDef) (st : PS) (tn tlit nlit vlit : Bytes) (data : PTree)
    (iroot : String) (fs : Fields)
    (hf : p.field = .any true) (hp : p.path ≠ []) (hs : p.jsonName ∉ st.seen)
    (hgb : groupBusy props p st.m = false) (hc : data.complete = true) (hd : data.depth ≤ 10000)
    (hres : c.env.resolve tn = some iroot)
    (hdec : decRootTree { c with anyDepth := c.anyDepth + 1 } iroot data = .ok fs)
    (hne : fs ≠ []) :
    decProp c props p
        (.obj (.cons typeKey tlit (.str tn nlit) (.cons valueKey vlit data (.nil .closed)))) st =
      .ok { m := updPath props p (some (.anyPb (anyPrefixB ++ tn) [] .inn iroot (.msg fs))) st.m,
            seen := p.jsonName :: st.seen } := by
  have hpe : p.path.isEmpty = false := by
    cases hpp : p.path with
    | nil => exact absurd hpp hp
    | cons a b => rfl
  have hpop : popValueAsBytes data = some data.render := by
    unfold popValueAsBytes; simp [hc, hd]
  have hvk : ascii "value" ≠ ascii "!type" := by decide
  have hfe : fs.isEmpty = false := by
    cases fs with
    | nil => exact absurd rfl hne
    | cons a b => rfl
  have hnd : ¬ (c.anyDepth ≥ maxAnyDepth) := Nat.not_le.mpr hdepth
  unfold decProp; rw [hf]
  simp only [createField_fresh props p st hs hgb, Outcome.bind, hpe, Bool.false_eq_true, if_false]
  simp only [finalType, finalType.typeKeyB, decAnyMembers, typeKey, valueKey, if_true, hvk, if_false,
    ne_eq, not_true_eq_false, Option.isSome_none, Bool.false_eq_true, hpop, hnd, hres, hdec]
  simp [finishAnyProp, Outcome.bind, hmode, closeOk, hfe]

/-- what `valOk` says about a protobuf `Any` value -/
theorem valOk_anyPb (env : Env) (O : Oracle) (v : PVal) (h : valOk env O (.any true) v = true) :
    ∃ tn iroot fs, v = .anyPb (anyPrefixB ++ tn) [] .inn iroot (.msg fs) ∧ fs ≠ [] ∧
      isValidUtf8 tn = true ∧ env.resolve tn = some iroot ∧
      (valOk env O (.object iroot) (.msg fs) = true ∨ valOk env O (.oneof iroot) (.msg fs) = true) := by
  cases v with
  | anyPb url value ik iroot inner =>
    unfold valOk at h
    split at h
    · next heq1 heq2 =>
      simp only [Bool.and_eq_true, Bool.or_eq_true, beq_iff_eq] at h
      obtain ⟨⟨⟨⟨hin, hurl⟩, hu⟩, hres⟩, hok⟩ := h
      cases inner with
      | msg fs =>
        simp only [Bool.not_eq_true', List.isEmpty_eq_false_iff] at hin
        exact ⟨url.drop anyPrefixB.length, iroot, fs, by rw [← hurl], hin, hu, hres, hok⟩
      | _ => simp at hin
    · cases h
  | _ => simp [valOk] at h

/-- the framed value decodes (codec `WithProtoToAny`, fewer than `maxAnyDepth` enclosing `Any`
values) to the protobuf `Any` whose content is what the inner document decodes to -/
theorem Dec_anyPb (c : Cfg) (hmode : c.protoToAny = true) (hdepth : c.anyDepth < maxAnyDepth)
    (tn tlit nlit vlit : Bytes) (data : PTree) (iroot : String) (fs : Fields)
    (hc : data.complete = true) (hd : data.depth ≤ 10000) (hres : c.env.resolve tn = some iroot)
    (hdec : decRootTree { c with anyDepth := c.anyDepth + 1 } iroot data = .ok fs) (hne : fs ≠ []) :
    Dec c (.any true) (.anyPb (anyPrefixB ++ tn) [] .inn iroot (.msg fs))
      (.obj (.cons typeKey tlit (.str tn nlit) (.cons valueKey vlit data (.nil .closed)))) where
  prop := fun props p st hf hp hs _ hgb =>
    dec_any_pb c hmode hdepth props p st tn tlit nlit vlit data iroot fs hf hp hs hgb hc hd hres hdec hne
  elem := fun h => by simp [itemSimple] at h
  mapv := fun h => by simp [itemSimple] at h

/-! ## `modeOk`: propagation to the parts of a value -/

theorem modeOk_aget (p : Bool) (F d : Nat) : ∀ (m : Fields) (k : Nat) (v : PVal),
    modeOkF p F d m = true → aget k m = some v → modeOk p F d v = true
  | [], _, _, _, h => by simp [aget] at h
  | (k', v') :: rest, k, v, hm, h => by
    simp only [modeOkF, Bool.and_eq_true] at hm
    simp only [aget] at h
    split at h
    · cases h; exact hm.1
    · exact modeOk_aget p F d rest k v hm.2 h

theorem modeOk_getPath (p : Bool) (F d : Nat) : ∀ (path : List Nat) (m : Fields) (v : PVal),
    modeOkF p F d m = true → getPath m path = some v → modeOk p F d v = true
  | [], _, _, _, h => by simp [getPath] at h
  | [k], m, v, hm, h => by simp only [getPath] at h; exact modeOk_aget p F d m k v hm h
  | k :: k2 :: r, m, v, hm, h => by
    simp only [getPath] at h
    split at h
    · next sub hsub =>
      have := modeOk_aget p F d m k _ hm hsub
      simp only [modeOk] at this
      exact modeOk_getPath p F d (k2 :: r) sub v this h
    · cases h

theorem modeOk_mem_list (p : Bool) (F d : Nat) : ∀ (xs : List PVal) (x : PVal),
    modeOkL p F d xs = true → x ∈ xs → modeOk p F d x = true
  | [], _, _, h => by cases h
  | a :: r, x, hx, h => by
    simp only [modeOkL, Bool.and_eq_true] at hx
    rcases List.mem_cons.mp h with rfl | h'
    · exact hx.1
    · exact modeOk_mem_list p F d r x hx.2 h'

theorem modeOk_mem_map (p : Bool) (F d : Nat) : ∀ (kvs : List (Bytes × PVal)) (k : Bytes) (v : PVal),
    modeOkM p F d kvs = true → (k, v) ∈ kvs → modeOk p F d v = true
  | [], _, _, _, h => by cases h
  | (k', v') :: r, k, v, hx, h => by
    simp only [modeOkM, Bool.and_eq_true] at hx
    rcases List.mem_cons.mp h with heq | h'
    · cases heq; exact hx.1
    · exact modeOk_mem_map p F d r k v hx.2 h'

mutual
/-- a smaller fuel cap is easier -/
theorem modeOk_anti (p : Bool) (F F' : Nat) (hF : F' ≤ F) : (v : PVal) → (d : Nat) →
    modeOk p F d v = true → modeOk p F' d v = true
  | .anyJ5 .., d, h => by simpa [modeOk] using h
  | .anyPb a b c e inner, d, h => by
    simp only [modeOk, Bool.and_eq_true, decide_eq_true_eq] at h ⊢
    exact ⟨⟨⟨h.1.1.1, h.1.1.2⟩, Nat.le_trans hF h.1.2⟩, modeOk_anti p F F' hF inner (d + 1) h.2⟩
  | .msg fs, d, h => by
    simp only [modeOk] at h ⊢; exact modeOkF_anti p F F' hF fs d h
  | .list xs, d, h => by
    simp only [modeOk] at h ⊢; exact modeOkL_anti p F F' hF xs d h
  | .map kvs, d, h => by
    simp only [modeOk] at h ⊢; exact modeOkM_anti p F F' hF kvs d h
  | .bool _, _, _ => by simp [modeOk]
  | .int _, _, _ => by simp [modeOk]
  | .uint _, _, _ => by simp [modeOk]
  | .f32 _, _, _ => by simp [modeOk]
  | .f64 _, _, _ => by simp [modeOk]
  | .str _, _, _ => by simp [modeOk]
  | .bytes _, _, _ => by simp [modeOk]
  | .enum _, _, _ => by simp [modeOk]
  | .ts _ _, _, _ => by simp [modeOk]
  | .date _ _ _, _, _ => by simp [modeOk]
  | .dec _, _, _ => by simp [modeOk]
theorem modeOkF_anti (p : Bool) (F F' : Nat) (hF : F' ≤ F) : (fs : List (Nat × PVal)) → (d : Nat) →
    modeOkF p F d fs = true → modeOkF p F' d fs = true
  | [], _, _ => by simp [modeOkF]
  | (_, v) :: rest, d, h => by
    simp only [modeOkF, Bool.and_eq_true] at h ⊢
    exact ⟨modeOk_anti p F F' hF v d h.1, modeOkF_anti p F F' hF rest d h.2⟩
theorem modeOkL_anti (p : Bool) (F F' : Nat) (hF : F' ≤ F) : (xs : List PVal) → (d : Nat) →
    modeOkL p F d xs = true → modeOkL p F' d xs = true
  | [], _, _ => by simp [modeOkL]
  | v :: rest, d, h => by
    simp only [modeOkL, Bool.and_eq_true] at h ⊢
    exact ⟨modeOk_anti p F F' hF v d h.1, modeOkL_anti p F F' hF rest d h.2⟩
theorem modeOkM_anti (p : Bool) (F F' : Nat) (hF : F' ≤ F) : (kvs : List (Bytes × PVal)) → (d : Nat) →
    modeOkM p F d kvs = true → modeOkM p F' d kvs = true
  | [], _, _ => by simp [modeOkM]
  | (_, v) :: rest, d, h => by
    simp only [modeOkM, Bool.and_eq_true] at h ⊢
    exact ⟨modeOk_anti p F F' hF v d h.1, modeOkM_anti p F F' hF rest d h.2⟩
end

end J5V.Codec
