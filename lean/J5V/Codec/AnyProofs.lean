import J5V.Codec.RoundtripProofs
/-!
# `Any` values (C01, tree level): what the encoder writes and what the decoder recovers

A `j5.types.any.v1.Any` that carries `j5_json` is written as `{"!type": typeName, "value": <the
j5_json bytes verbatim>}`; reading `{"!type": typeName, "value": V}` (codec without
`WithProtoToAny`) stores `typeName` and the compact bytes of `V` (`Decode(&raw)` + `Compact`).
So the pair round-trips exactly when `j5_json` is the compact rendering of a JSON value of
nesting depth ≤ 10000. (Not yet connected through the byte level: the encoder's tree holds the
bytes as one `raw` chunk, the reader delivers the parsed value; see notes.)
-/
namespace J5V.Codec
open J5V.Go J5V.Json

theorem chunkNode_some (O : Oracle) (bs : Bytes) (V : PTree) (h : O.chunk bs = some V)
    (hr : V.render = bs) : chunkNode O bs = V := by
  unfold chunkNode; simp [h, hr]

theorem chunkNode_none (O : Oracle) (bs : Bytes) (h : O.chunk bs = none) : chunkNode O bs = .raw bs := by
  unfold chunkNode; simp [h]

/-- the encoder's tree for a j5 Any with `j5_json`: the bytes as one chunk (in parsed form when
the specification-side oracle recognises them — same bytes, `chunkNode_render`) -/
theorem enc_any_j5 (env : Env) (O : Oracle) (f : Nat) (tn proto j5 : Bytes) (ik : InnerKind)
    (iroot : String) (inner : PVal) (hj : j5 ≠ []) (hu : isValidUtf8 tn = true) :
    ∃ tlit nlit vlit, encValue env O (f + 1) (.any false) (.anyJ5 tn proto j5 ik iroot inner) =
      .ok (.obj (.cons typeKey tlit (.str tn nlit) (.cons valueKey vlit (chunkNode O j5) (.nil .closed)))) := by
  obtain ⟨tlit, htl⟩ := (appendString_total typeKey).2.1 (by decide)
  obtain ⟨vlit, hvl⟩ := (appendString_total valueKey).2.1 (by decide)
  obtain ⟨nlit, hnl⟩ := strNode_ok tn hu
  refine ⟨tlit, nlit, vlit, ?_⟩
  have hne : j5.isEmpty = false := by cases j5 with | nil => exact absurd rfl hj | cons a b => rfl
  simp [encValue, hne, htl, hvl, hnl]

/-- what `valOk` says about a j5 `Any` value -/
theorem valOk_any (env : Env) (O : Oracle) (v : PVal) (h : valOk env O (.any false) v = true) :
    ∃ tn j5 V, v = .anyJ5 tn [] j5 .none "" (.msg []) ∧ env.noJ5Any = false ∧ isValidUtf8 tn = true ∧
      j5 ≠ [] ∧ O.chunk j5 = some V ∧ V.render = j5 ∧ V.complete = true ∧ V.depth ≤ 10000 := by
  cases v with
  | anyJ5 tn proto j5 ik iroot inner =>
    unfold valOk at h
    split at h
    · next heq1 heq2 heq3 heq4 =>
      cases hch : O.chunk j5 with
      | none => simp [hch] at h
      | some V =>
        simp only [hch, Bool.and_eq_true, Bool.not_eq_true', beq_iff_eq, decide_eq_true_eq] at h
        obtain ⟨⟨⟨hna, hu⟩, hj⟩, ⟨hr, hc⟩, hd⟩ := h
        refine ⟨tn, j5, V, rfl, hna, hu, ?_, hch, hr, hc, hd⟩
        intro hnil; rw [hnil] at hj; cases hj
    · cases h
  | _ => simp [valOk] at h

/-- the decoder (without `WithProtoToAny`) recovers type name and value bytes from the framed
value, whatever the order of the two members is not needed here: canonical order -/
theorem dec_any_j5 (c : Cfg) (hmode : c.protoToAny = false) (props : List PropDef) (p : PropDef)
    (st : PS) (tn : Bytes) (tlit nlit vlit : Bytes) (tv : PTree)
    (hf : p.field = .any false) (hp : p.path ≠ []) (hs : p.jsonName ∉ st.seen)
    (hgb : groupBusy props p st.m = false) (hc : tv.complete = true) (hd : tv.depth ≤ 10000) :
    decProp c props p
        (.obj (.cons typeKey tlit (.str tn nlit) (.cons valueKey vlit tv (.nil .closed)))) st =
      .ok { m := updPath props p (some (.anyJ5 tn [] tv.render .none "" (.msg []))) st.m,
            seen := p.jsonName :: st.seen } := by
  have hne : p.path.isEmpty = false := by
    cases hpp : p.path with
    | nil => exact absurd hpp hp
    | cons a b => rfl
  have hpop : popValueAsBytes tv = some tv.render := by
    unfold popValueAsBytes; simp [hc, hd]
  have hvk : ascii "value" ≠ ascii "!type" := by decide
  unfold decProp; rw [hf]
  simp only [createField_fresh props p st hs hgb, Outcome.bind, hne, Bool.false_eq_true, if_false]
  simp only [decAnyMembers, typeKey, valueKey, if_true, hvk, if_false, ne_eq, not_true_eq_false,
    Option.isSome_none, Bool.false_eq_true, hpop]
  simp [finishAnyProp, Outcome.bind, hmode, closeOk]

/-- … and with the two members in the other order -/
theorem dec_any_j5_rev (c : Cfg) (hmode : c.protoToAny = false) (props : List PropDef) (p : PropDef)
    (st : PS) (tn : Bytes) (tlit nlit vlit : Bytes) (tv : PTree)
    (hf : p.field = .any false) (hp : p.path ≠ []) (hs : p.jsonName ∉ st.seen)
    (hgb : groupBusy props p st.m = false) (hc : tv.complete = true) (hd : tv.depth ≤ 10000) :
    decProp c props p
        (.obj (.cons valueKey vlit tv (.cons typeKey tlit (.str tn nlit) (.nil .closed)))) st =
      .ok { m := updPath props p (some (.anyJ5 tn [] tv.render .none "" (.msg []))) st.m,
            seen := p.jsonName :: st.seen } := by
  have hne : p.path.isEmpty = false := by
    cases hpp : p.path with
    | nil => exact absurd hpp hp
    | cons a b => rfl
  have hpop : popValueAsBytes tv = some tv.render := by
    unfold popValueAsBytes; simp [hc, hd]
  have hvk : ascii "value" ≠ ascii "!type" := by decide
  unfold decProp; rw [hf]
  simp only [createField_fresh props p st hs hgb, Outcome.bind, hne, Bool.false_eq_true, if_false]
  simp only [decAnyMembers, typeKey, valueKey, if_true, hvk, if_false, ne_eq, not_true_eq_false,
    Option.isSome_none, Bool.false_eq_true, hpop]
  simp [finishAnyProp, Outcome.bind, hmode, closeOk]

theorem Dec_any_rev (c : Cfg) (hmode : c.protoToAny = false) (tn tlit nlit vlit : Bytes) (tv : PTree)
    (hc : tv.complete = true) (hd : tv.depth ≤ 10000) :
    Dec c (.any false) (.anyJ5 tn [] tv.render .none "" (.msg []))
      (.obj (.cons valueKey vlit tv (.cons typeKey tlit (.str tn nlit) (.nil .closed)))) where
  prop := fun props p st hf hp hs _ hgb =>
    dec_any_j5_rev c hmode props p st tn tlit nlit vlit tv hf hp hs hgb hc hd
  elem := fun h => by simp [itemSimple] at h
  mapv := fun h => by simp [itemSimple] at h

/-- a framed value `{"!type": tn, "value": V}` decodes (codec without `WithProtoToAny`) to the j5
`Any` that holds the compact bytes of `V`, in the only decoding context an `Any` can stand in
(property value; arrays / maps of `Any` are not supported by the codec) -/
theorem Dec_any (c : Cfg) (hmode : c.protoToAny = false) (tn tlit nlit vlit : Bytes) (tv : PTree)
    (hc : tv.complete = true) (hd : tv.depth ≤ 10000) :
    Dec c (.any false) (.anyJ5 tn [] tv.render .none "" (.msg []))
      (.obj (.cons typeKey tlit (.str tn nlit) (.cons valueKey vlit tv (.nil .closed)))) where
  prop := fun props p st hf hp hs _ hgb =>
    dec_any_j5 c hmode props p st tn tlit nlit vlit tv hf hp hs hgb hc hd
  elem := fun h => by simp [itemSimple] at h
  mapv := fun h => by simp [itemSimple] at h

end J5V.Codec
