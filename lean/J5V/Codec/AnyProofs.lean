import J5V.Codec.RoundtripProofs
/-!
# `Any` values (C01, tree level): what the encoder writes and what the decoder recovers

A `j5.types.any.v1.Any` that carries `j5_json` is written as `{"!type": typeName, "value": <the
j5_json bytes verbatim>}`; reading `{"!type": typeName, "value": V}` (codec without
`WithProtoToAny`) stores `typeName` and the compact bytes of `V` (`Decode(&raw)` + `Compact`).
So the pair round-trips exactly when `j5_json` is the compact rendering of a JSON value of
nesting depth ≤ 10000. (Not yet connected through the byte level: the encoder's tree holds the
bytes as one `raw` chunk, the reader delivers the parsed value; see notes.)
-/
namespace J5V.Codec
open J5V.Go J5V.Json

/-- the encoder's tree for a j5 Any with `j5_json` -/
theorem enc_any_j5 (env : Env) (O : Oracle) (f : Nat) (tn proto j5 : Bytes) (ik : InnerKind)
    (iroot : String) (inner : PVal) (hj : j5 ≠ []) (hu : isValidUtf8 tn = true) :
    ∃ tlit nlit vlit, encValue env O (f + 1) (.any false) (.anyJ5 tn proto j5 ik iroot inner) =
      .ok (.obj (.cons typeKey tlit (.str tn nlit) (.cons valueKey vlit (.raw j5) (.nil .closed)))) := by
  obtain ⟨tlit, htl⟩ := (appendString_total typeKey).2.1 (by decide)
  obtain ⟨vlit, hvl⟩ := (appendString_total valueKey).2.1 (by decide)
  obtain ⟨nlit, hnl⟩ := strNode_ok tn hu
  refine ⟨tlit, nlit, vlit, ?_⟩
  have hne : j5.isEmpty = false := by cases j5 with | nil => exact absurd rfl hj | cons a b => rfl
  simp [encValue, hne, htl, hvl, hnl]

/-- the decoder (without `WithProtoToAny`) recovers type name and value bytes from the framed
value, whatever the order of the two members is not needed here: canonical order -/
theorem dec_any_j5 (c : Cfg) (hmode : c.protoToAny = false) (props : List PropDef) (p : PropDef)
    (st : PS) (tn : Bytes) (tlit nlit vlit : Bytes) (tv : PTree)
    (hf : p.field = .any false) (hp : p.path ≠ []) (hs : p.jsonName ∉ st.seen)
    (hgb : groupBusy props p st.m = false) (hc : tv.complete = true) (hd : tv.depth ≤ 10000) :
    decProp c props p
        (.obj (.cons typeKey tlit (.str tn nlit) (.cons valueKey vlit tv (.nil .closed)))) st =
      .ok { m := updPath props p (some (.anyJ5 tn [] tv.render .none "" (.msg []))) st.m,
            seen := p.jsonName :: st.seen } := by
  have hne : p.path.isEmpty = false := by
    cases hpp : p.path with
    | nil => exact absurd hpp hp
    | cons a b => rfl
  have hpop : popValueAsBytes tv = some tv.render := by
    unfold popValueAsBytes; simp [hc, hd]
  have hvk : ascii "value" ≠ ascii "!type" := by decide
  unfold decProp; rw [hf]
  simp only [createField_fresh props p st hs hgb, Outcome.bind, hne, Bool.false_eq_true, if_false]
  simp only [decAnyMembers, typeKey, valueKey, if_true, hvk, if_false, ne_eq, not_true_eq_false,
    Option.isSome_none, Bool.false_eq_true, hpop]
  simp [finishAnyProp, Outcome.bind, hmode, closeOk]

end J5V.Codec
