import J5V.Codec.Doc
import J5V.Codec.StepProofs
import J5V.Codec.RoundtripInd
import J5V.Codec.FaultDocProofs
/-!
# Every admissible spelling of a message decodes to that message (C03, first sentence)

`SpellsRoot c root m t → decRootTree c root t = .ok m`, for `Env.flat` environments and
representable messages: members in any order, explicit nulls, `"!type"` before / after / absent,
any accepted scalar spelling.
-/
namespace J5V.Codec
open J5V.Go J5V.Json

/-! ## leaves -/

theorem Dec_scalar_tok (c : Cfg) (k : ScalarKind) (v : PVal) (t : PTree) (h : scalarSpells c.O k v t) :
    Dec c (.scalar k) v t := by
  obtain ⟨hnn, tok, hgt, hdec⟩ := h
  have hsn : isScalarNode t = true := by
    cases t <;> simp only [goTok] at hgt <;> first | rfl | exact absurd rfl hnn | cases hgt
  refine ⟨?_, ?_, ?_⟩
  · intro props p st hf hp hs hg hgb
    unfold decProp; rw [hf]; simp only []
    unfold decScalarProp
    have hne : p.path.isEmpty = false := by
      cases hpp : p.path with
      | nil => exact absurd hpp hp
      | cons a b => rfl
    cases t <;> simp only [isScalarNode, Bool.false_eq_true] at hsn <;>
      simp [createField_fresh props p st hs hgb, Outcome.bind, hne, hgt, hdec]
  · intro _ rest acc
    conv => lhs; unfold decElems
    simp [hgt, hdec]
  · intro _ key kraw rest acc hm
    conv => lhs; unfold decMapMembers
    simp [hgt, hdec, hm]

/-- `decodeValue` skips an explicit `null`, whatever the field kind -/
theorem decProp_null (c : Cfg) (props : List PropDef) (p : PropDef) (st : PS) :
    decProp c props p .null st = .ok st := by
  unfold decProp
  cases p.field <;> simp [decScalarProp, decEnumProp]

/-! ## the one member of a oneof body -/

theorem oneof_member_step (c : Cfg) (ops : List PropDef) (q : PropDef) (k : Nat) (v : PVal)
    (tv : PTree) (m : Fields) (hqk : q.path = [k]) (hdec : Dec c q.field v tv)
    (hz : (q.pres == .imp && v.isZero) = false) (hec : v.isEmptyColl = false)
    (hk : aget k m = none)
    (hothers : ∀ q' ∈ ops, ∀ k', q'.path = [k'] → k' ≠ k → aget k' m = none) :
    decProp c ops q tv { m := m, seen := [] } = .ok { m := aset k v m, seen := [q.jsonName] } := by
  have hou : OthersUnset ops q.group k m := fun _ _ q' hq' _ k' hk' hne => hothers q' hq' k' hk' hne
  have hstep := hdec.prop ops q { m := m, seen := [] } rfl (by rw [hqk]; simp) (by simp)
    (by rw [hqk]; exact hk) (groupBusy_single_false ops q k m hqk hou)
  simp only [] at hstep
  rw [updPath_store ops q k v m hqk hou hz hec] at hstep
  exact hstep

/-- what reading a spelled oneof body into message `m` gives -/
inductive OneResult (c : Cfg) (ops : List PropDef) (fs : Fields) (ms : PMembers) (m : Fields) : Prop
  | empty (seen1 found ct) :
      (∀ q ∈ ops, getPath fs q.path = none) →
      decOneofMembers c ops ms { m := m, seen := [] } [] none =
        .ok ({ m := m, seen := seen1 }, found, ct, .closed) →
      oneofPost ops found ct m = .ok none → OneResult c ops fs ms m
  | set (q : PropDef) (k : Nat) (v : PVal) (seen1 found ct) :
      q ∈ ops → q.path = [k] → aget k fs = some v →
      (∀ q' ∈ ops, q'.path ≠ [k] → getPath fs q'.path = none) →
      decOneofMembers c ops ms { m := m, seen := [] } [] none =
        .ok ({ m := aset k v m, seen := seen1 }, found, ct, .closed) →
      oneofPost ops found ct (aset k v m) = .ok none → OneResult c ops fs ms m

end J5V.Codec

namespace J5V.Codec
open J5V.Go J5V.Json

/-! ## bookkeeping of the any-order loop -/

theorem restrictP_append_absorb (P S : List (List Nat)) (fs : Fields)
    (h : ∀ x ∈ P, x ∈ S ∨ (x ≠ [] ∧ SortedAlong x fs ∧ getPath fs x = none)) :
    restrictP (P ++ S) fs = restrictP S fs := by
  induction P with
  | nil => rfl
  | cons x t ih =>
    have iht := ih (fun y hy => h y (List.mem_cons_of_mem _ hy))
    rw [List.cons_append]
    rcases h x List.mem_cons_self with hx | ⟨h1, h2, h3⟩
    · rw [← iht]
      apply restrictP_congr_mem
      intro path
      simp only [List.mem_cons, List.mem_append]
      constructor
      · rintro (e | e)
        · subst e; exact Or.inr hx
        · exact e
      · exact Or.inr
    · rw [restrictP_cons_unset x _ fs h2 h1 h3]; exact iht

theorem propPaths_entry (env : Env) (props : List PropDef) (p : PropDef) (hp : p ∈ props)
    (x : List Nat) (hx : x ∈ propPaths env p) : ∃ a ∈ leafEntries env props, a.1 = x := by
  obtain ⟨b, hb, rfl⟩ := List.mem_map.mp hx
  exact ⟨b, List.mem_flatMap.mpr ⟨p, hp, hb⟩, rfl⟩

theorem apart_of_unused (env : Env) (props ups : List PropDef)
    (hpnd : (props.flatMap (propPaths env)).Nodup) (hLH : LeafH env props)
    (hups : ∀ q ∈ ups, q ∈ props) (p : PropDef) (hp : p ∈ props) (hpu : p ∉ ups) :
    ∀ x ∈ propPaths env p, Apart x (ups.flatMap (propPaths env)) := by
  intro x hx s hs
  obtain ⟨q, hq, hsq⟩ := List.mem_flatMap.mp hs
  obtain ⟨a, ha, rfl⟩ := propPaths_entry env props p hp x hx
  obtain ⟨b, hb, rfl⟩ := propPaths_entry env props q (hups q hq) s hsq
  have hne : p ≠ q := fun e => hpu (e ▸ hq)
  constructor
  · intro hpre
    have := hLH b hb a ha hpre
    subst this
    exact hne (flatMap_nodup_unique (propPaths env) props hpnd p hp q (hups q hq) _ hx hsq)
  · intro hpre
    have := hLH a ha b hb hpre
    subst this
    exact hne (flatMap_nodup_unique (propPaths env) props hpnd p hp q (hups q hq) _ hx hsq)

theorem unused_of_name (props ups : List PropDef) (hnames : (props.map (·.jsonName)).Nodup)
    (hups : ∀ q ∈ ups, q ∈ props) (p : PropDef) (hp : p ∈ props) :
    p.jsonName ∉ ups.map (·.jsonName) ↔ p ∉ ups := by
  constructor
  · intro h hm; exact h (List.mem_map.mpr ⟨p, hm, rfl⟩)
  · intro h hm
    obtain ⟨q, hq, hn⟩ := List.mem_map.mp hm
    have := nodup_map_inj (·.jsonName) props hnames q (hups q hq) p hp hn
    subst this; exact h hq

theorem propPaths_flat_nodup (env : Env) (props : List PropDef)
    (h : ((leafEntries env props).map (·.1)).Nodup) : (props.flatMap (propPaths env)).Nodup := by
  have : props.flatMap (propPaths env) = (leafEntries env props).map (·.1) := by
    unfold leafEntries propPaths
    rw [List.map_flatMap]
  rw [this]; exact h

/-- a oneof message with at most one field, none of whose members is set, is empty -/
theorem oneof_empty_store (c : Cfg) (ops : List PropDef) (fs : Fields)
    (hroot : rootSimple (.oneof ops) = true) (hfok : fieldsOk c.env c.O ops fs = true)
    (hnone : ∀ q ∈ ops, getPath fs q.path = none) : fs = [] := by
  obtain ⟨hsimple, _, _, _⟩ := oneof_root_facts ops hroot
  cases fs with
  | nil => rfl
  | cons kv rest =>
    exfalso
    obtain ⟨k0, v0⟩ := kv
    obtain ⟨p, hfp, _, _⟩ := fieldsOk_mem _ _ ops _ (simple_no_flatten ops hsimple) hfok k0 v0
      List.mem_cons_self
    obtain ⟨hp, hpk⟩ := leafProp_simple c.env ops k0 p hsimple hfp
    have := hnone p hp
    rw [hpk] at this
    simp [getPath, aget] at this

end J5V.Codec

namespace J5V.Codec
open J5V.Go J5V.Json

/-! ## the induction on the document -/

theorem SpellsM_nil (c : Cfg) (props : List PropDef) (fs : Fields) (used : List Bytes) (term : Term) :
    SpellsM c props fs used (.nil term) ↔
      (term = .closed ∧ ∀ p ∈ props, p.jsonName ∉ used →
        (p.path ≠ [] → getPath fs p.path = none) ∧
        (p.path = [] → ∀ q ∈ exposedOps c.env p, getPath fs q.path = none)) := by
  simp only [SpellsM]

theorem SpellsM_cons (c : Cfg) (props : List PropDef) (fs : Fields) (used : List Bytes)
    (k kr : Bytes) (v : PTree) (rest : PMembers) :
    SpellsM c props fs used (.cons k kr v rest) ↔
      ∃ p, findProp props k = some p ∧
        ((v = .null ∧ SpellsM c props fs used rest) ∨
         (k ∉ used ∧ p.path ≠ [] ∧
           (∃ vv, getPath fs p.path = some vv ∧ SpellsV c p.field vv v) ∧
           SpellsM c props fs (k :: used) rest) ∨
         (k ∉ used ∧ p.path = [] ∧ SpellsX c (exposedOps c.env p) fs v ∧
           SpellsM c props fs (k :: used) rest)) := by
  simp only [SpellsM]

mutual
theorem spellsV_dec (c : Cfg) (hs : c.env.flat = true)
    (hA : c.protoToAny = false ∨ c.env.noJ5Any = true) (fld : Field) (vv : PVal) (t : PTree)
    (hfs : fieldSimple fld = true) (hok : valOk c.env c.O fld vv = true) (h : SpellsV c fld vv t) :
    Dec c fld vv t := by
  cases t with
  | obj ms =>
    cases fld with
    | object ref =>
      obtain ⟨fs, props, rfl, hfind, hsort, hfok, hgrp, hexp⟩ := valOk_object _ _ ref vv hok
      simp only [SpellsV, hfind] at h
      obtain ⟨seen', hdec⟩ := spellsM_loop c hs hA props fs (find_rootFlat c.env hs ref _ hfind) hsort hfok
        hgrp ms [] h [] rfl (fun _ hq => by cases hq) { m := [], seen := [] }
        (by simp [restrictP_nil]) (fun _ _ _ => by simp)
      exact Dec_object c ref props fs ms seen' hfind hdec
    | oneof ref =>
      obtain ⟨fs, ops, rfl, hfind, hsort, hfok, hlen⟩ := valOk_oneof _ _ ref vv hok
      simp only [SpellsV, hfind] at h
      have hroot := rootFlat_oneof c.env ops (find_rootFlat c.env hs ref _ hfind)
      have hres := spellsO_dec c hs hA ops fs hroot (oneof_store_facts c ops fs hroot hfok) ms h []
        (fun _ _ _ _ => rfl)
      cases hres with
      | empty seen1 found ct hnone hloop hpost =>
        have hfs' : fs = [] := oneof_empty_store c ops fs hroot hfok hnone
        subst hfs'
        exact Dec_oneof c ref ops [] ms _ found ct hfind hloop rfl hpost
      | set q k v seen1 found ct hq hqk hag hoth hloop hpost =>
        have hfs' : fs = [(k, v)] := single_store fs k v hlen hag
        refine Dec_oneof c ref ops fs ms _ found ct hfind hloop ?_ ?_
        · rw [hfs']; rfl
        · rw [hfs']; exact hpost
    | map item =>
      obtain ⟨kvs, rfl, hmok⟩ := valOk_map _ _ item vv hok
      have hi : itemSimple item = true := by simpa [fieldSimple] using hfs
      simp only [SpellsV] at h
      have hdec := spellsMap_dec c hs hA item kvs ms hi [] hmok h [] (fun _ _ => rfl)
      simp only [List.nil_append] at hdec
      -- `Dec_map` is stated for `membersOf`; restate through the same unfolding
      refine ⟨?_, by intro h'; simp [itemSimple] at h', by intro h'; simp [itemSimple] at h'⟩
      intro props p st hf hp hsn hg hgb
      unfold decProp; rw [hf]; simp only []
      have hne : p.path.isEmpty = false := by
        cases hpp : p.path with
        | nil => exact absurd hpp hp
        | cons a b => rfl
      simp only [createField_fresh props p st hsn hgb, Outcome.bind, hne, itemCheck_simple item hi]
      rw [mapStart_fresh p { m := st.m, seen := p.jsonName :: st.seen } hg, hdec]
      simp [finishMapProp, Outcome.bind, closeOk]
    | scalar k => simp [SpellsV] at h
    | «enum» ref => simp [SpellsV] at h
    | any pb =>
      simp only [SpellsV] at h
      obtain ⟨rfl, tn, V, l1, l2, l3, rfl, hc, hd, hms⟩ := h
      obtain ⟨_, _, _, _, hna, _⟩ := valOk_any _ _ _ hok
      have hmode : c.protoToAny = false := by
        rcases hA with h1 | h1
        · exact h1
        · rw [h1] at hna; cases hna
      rcases hms with rfl | rfl
      · exact Dec_any c hmode tn l1 l2 l3 V hc hd
      · exact Dec_any_rev c hmode tn l1 l2 l3 V hc hd
    | array item => cases vv <;> simp [SpellsV] at h
  | arr xs =>
    cases fld with
    | array item =>
      obtain ⟨vs, rfl, hlok⟩ := valOk_array _ _ item vv hok
      have hi : itemSimple item = true := by simpa [fieldSimple] using hfs
      simp only [SpellsV] at h
      have hdec := spellsE_dec c hs hA item vs xs hi hlok h []
      simp only [List.nil_append] at hdec
      refine ⟨?_, by intro h'; simp [itemSimple] at h', by intro h'; simp [itemSimple] at h'⟩
      intro props p st hf hp hsn hg hgb
      unfold decProp; rw [hf]; simp only []
      have hne : p.path.isEmpty = false := by
        cases hpp : p.path with
        | nil => exact absurd hpp hp
        | cons a b => rfl
      simp only [createField_fresh props p st hsn hgb, Outcome.bind, hne, itemCheck_simple item hi]
      rw [listStart_fresh p { m := st.m, seen := p.jsonName :: st.seen } hg, hdec]
      simp [finishArrayProp, Outcome.bind, closeOk]
    | any pb => cases vv <;> simp [SpellsV] at h
    | _ => cases vv <;> simp [SpellsV] at h
  | str s raw =>
    cases fld with
    | scalar k => exact Dec_scalar_tok c k vv _ (by simpa [SpellsV] using h)
    | «enum» ref =>
      obtain ⟨n, pfx, opts, rfl, hfind, _⟩ := valOk_enum _ _ ref vv hok
      simp only [SpellsV, hfind] at h
      exact Dec_enum c ref pfx opts n s raw hfind h
    | any pb => cases vv <;> simp [SpellsV] at h
    | _ => simp [SpellsV] at h
  | num x =>
    cases fld with
    | scalar k => exact Dec_scalar_tok c k vv _ (by simpa [SpellsV] using h)
    | any pb => cases vv <;> simp [SpellsV] at h
    | _ => simp [SpellsV] at h
  | bool b =>
    cases fld with
    | scalar k => exact Dec_scalar_tok c k vv _ (by simpa [SpellsV] using h)
    | any pb => cases vv <;> simp [SpellsV] at h
    | _ => simp [SpellsV] at h
  | null =>
    cases fld with
    | scalar k => simp [SpellsV, scalarSpells] at h
    | any pb => cases vv <;> simp [SpellsV] at h
    | _ => simp [SpellsV] at h
  | bad =>
    cases fld with
    | scalar k => simp [SpellsV, scalarSpells, goTok] at h
    | any pb => cases vv <;> simp [SpellsV] at h
    | _ => simp [SpellsV] at h
  | raw bs =>
    cases fld with
    | scalar k => simp [SpellsV, scalarSpells, goTok] at h
    | any pb => cases vv <;> simp [SpellsV] at h
    | _ => simp [SpellsV] at h
termination_by sizeOf t

theorem spellsM_loop (c : Cfg) (hs : c.env.flat = true)
    (hA : c.protoToAny = false ∨ c.env.noJ5Any = true) (props : List PropDef) (fs : Fields)
    (hroot : rootFlat c.env (.object props) = true) (hsort : asorted fs = true)
    (hfok : fieldsOk c.env c.O props fs = true) (hgrp : groupsOk props fs = true)
    (ms : PMembers) (used : List Bytes) (h : SpellsM c props fs used ms)
    (ups : List PropDef) (hused : used = ups.map (·.jsonName)) (hups : ∀ q ∈ ups, q ∈ props)
    (st : PS) (hm : st.m = restrictP (ups.flatMap (propPaths c.env)) fs)
    (hseen : ∀ p ∈ props, p.jsonName ∉ used → p.jsonName ∉ st.seen) :
    ∃ seen', decObjMembers c props ms st = .ok ({ m := fs, seen := seen' }, .closed) := by
  obtain ⟨hkinds, hnames, hpathsnd, hLH⟩ := object_root_facts c.env props hroot
  have hpnd := propPaths_flat_nodup c.env props hpathsnd
  have hsf : StoreFacts c.env props fs :=
    { sorted := hsort
      along := fun x hx => (fieldsOk_path c.env c.O x.1 props fs x.2.1 x.2.2 hLH hfok hsort hx).1
      leafH := hLH
      groups := groupsExclF_of_groupsOk props fs hgrp }
  cases ms with
  | nil term =>
    obtain ⟨hterm, hunused⟩ := (SpellsM_nil c props fs used term).mp h
    subst hterm
    refine ⟨st.seen, ?_⟩
    unfold decObjMembers
    simp only [show (Term.closed == Term.errIn) = false from rfl, Bool.false_eq_true, if_false]
    have hfull : restrictP (ups.flatMap (propPaths c.env)) fs = fs := by
      rw [← restrictP_append_absorb (props.flatMap (propPaths c.env)) _ fs]
      · apply restrictP_all c.env c.O fs props _ hfok
        intro x hx
        obtain ⟨p, hp, hxp⟩ := List.mem_flatMap.mp hx
        exact List.mem_append.mpr (Or.inl (List.mem_flatMap.mpr ⟨p, hp, List.mem_map.mpr ⟨x, hxp, rfl⟩⟩))
      · intro x hx
        obtain ⟨p, hp, hxp⟩ := List.mem_flatMap.mp hx
        by_cases hpu : p ∈ ups
        · exact Or.inl (List.mem_flatMap.mpr ⟨p, hpu, hxp⟩)
        · right
          have hname : p.jsonName ∉ used := by
            rw [hused]; exact (unused_of_name props ups hnames hups p hp).mpr hpu
          obtain ⟨h1, h2⟩ := hunused p hp hname
          obtain ⟨a, ha, hax⟩ := propPaths_entry c.env props p hp x hxp
          refine ⟨by rw [← hax]; exact leafEntries_path_ne c.env props a ha,
            by rw [← hax]; exact hsf.along a ha, ?_⟩
          cases hpp : p.path with
          | nil =>
            obtain ⟨b, hb, rfl⟩ := List.mem_map.mp hxp
            obtain ⟨q, k, hq, hqk, rfl⟩ := propLeaves_exposed_inv c.env p b hpp hb
            have := h2 hpp q hq
            rw [hqk] at this; exact this
          | cons a' t' =>
            have hpne : p.path ≠ [] := by rw [hpp]; simp
            rw [propPaths_nonempty c.env p hpne] at hxp
            simp only [List.mem_singleton] at hxp
            rw [hxp]; exact h1 hpne
    have : st = { m := fs, seen := st.seen } := by
      cases st with
      | mk m' s' => simp only [] at hm; rw [hm, hfull]
    rw [this]
  | cons k kr v rest =>
    obtain ⟨p, hfp, halt⟩ := (SpellsM_cons c props fs used k kr v rest).mp h
    have hpm : p ∈ props := findProp_mem props k p hfp
    have hname : p.jsonName = k := findProp_name props k p hfp
    unfold decObjMembers
    rw [hfp]
    simp only []
    rcases halt with ⟨hnull, hrest⟩ | ⟨hku, hpne, ⟨vv, hget, hsp⟩, hrest⟩ | ⟨hku, hp0, hbody, hrest⟩
    · -- an explicit null
      subst hnull
      rw [decProp_null]
      simp only []
      exact spellsM_loop c hs hA props fs hroot hsort hfok hgrp rest used hrest ups hused hups st hm hseen
    · -- a property of the message
      have hpu : p ∉ ups := by
        apply (unused_of_name props ups hnames hups p hpm).mp
        rw [← hused, hname]; exact hku
      have hctx : StepCtx c props fs p st (ups.flatMap (propPaths c.env)) :=
        { facts := hsf, mem := hpm, state := hm
          fresh := hseen p hpm (by rw [hname]; exact hku)
          apart := apart_of_unused c.env props ups hpnd hLH hups p hpm hpu
          along := fun x hx => by
            obtain ⟨a, ha, hax⟩ := propPaths_entry c.env props p hpm x hx
            rw [← hax]; exact hsf.along a ha
          pathNe := fun x hx => by
            obtain ⟨a, ha, hax⟩ := propPaths_entry c.env props p hpm x hx
            rw [← hax]; exact leafEntries_path_ne c.env props a ha }
      have hentry : (p.path, p.field, p.pres) ∈ leafEntries c.env props :=
        List.mem_flatMap.mpr ⟨p, hpm, by rw [propLeaves_nonempty c.env p hpne]; simp⟩
      obtain ⟨hvok, hz, _⟩ := (fieldsOk_path c.env c.O p.path props fs p.field p.pres hLH hfok hsort
        hentry).2 vv hget
      have hfsimple : fieldSimple p.field = true := by
        rcases hkinds p hpm with h1 | h1
        · exact (propFlat_inv p h1).2
        · exact absurd (propExposed_inv c.env p h1).1 hpne
      have hdec := spellsV_dec c hs hA p.field vv v hfsimple hvok hsp
      rw [step_leaf c props fs p st _ hctx vv v hpne hget hdec hz (valOk_not_emptyColl _ _ _ _ hvok)]
      simp only []
      exact spellsM_loop c hs hA props fs hroot hsort hfok hgrp rest (k :: used) hrest (p :: ups)
        (by rw [hused, List.map_cons, hname]) (fun q hq => by
          rcases List.mem_cons.mp hq with rfl | hq'
          · exact hpm
          · exact hups q hq') _ (by rw [List.flatMap_cons]) (by
          intro p' hp' hn'
          simp only [List.mem_cons, not_or] at hn' ⊢
          exact ⟨by rw [hname]; exact hn'.1, hseen p' hp' hn'.2⟩)
    · -- an exposed oneof
      have hpu : p ∉ ups := by
        apply (unused_of_name props ups hnames hups p hpm).mp
        rw [← hused, hname]; exact hku
      have hctx : StepCtx c props fs p st (ups.flatMap (propPaths c.env)) :=
        { facts := hsf, mem := hpm, state := hm
          fresh := hseen p hpm (by rw [hname]; exact hku)
          apart := apart_of_unused c.env props ups hpnd hLH hups p hpm hpu
          along := fun x hx => by
            obtain ⟨a, ha, hax⟩ := propPaths_entry c.env props p hpm x hx
            rw [← hax]; exact hsf.along a ha
          pathNe := fun x hx => by
            obtain ⟨a, ha, hax⟩ := propPaths_entry c.env props p hpm x hx
            rw [← hax]; exact leafEntries_path_ne c.env props a ha }
      have hexposed : propExposed c.env p = true := by
        rcases hkinds p hpm with h1 | h1
        · exact absurd hp0 (propFlat_inv p h1).1
        · exact h1
      obtain ⟨_, hpg, ref, ops, hpf, hfind⟩ := propExposed_inv c.env p hexposed
      have hops : exposedOps c.env p = ops := exposedOps_eq c.env p ref ops hp0 hpf hfind
      have hopsroot := rootFlat_oneof c.env ops (find_rootFlat c.env hs ref _ hfind)
      obtain ⟨hin, htarget⟩ := exposed_target c props fs p st _ hctx ops hp0 hops
      have hvals : ∀ q ∈ ops, ∀ k v, q.path = [k] → aget k fs = some v →
          valOk c.env c.O q.field v = true ∧ (q.pres == .imp && v.isZero) = false := by
        intro q hq k' v' hqk hag
        have hent : ([k'], q.field, q.pres) ∈ leafEntries c.env props :=
          List.mem_flatMap.mpr ⟨p, hpm, propLeaves_exposed_mem c.env p q k' hp0 (by rw [hops]; exact hq) hqk⟩
        obtain ⟨h1, h2, _⟩ := (fieldsOk_path c.env c.O [k'] props fs q.field q.pres hLH hfok hsort
          hent).2 v' (by simpa [getPath] using hag)
        exact ⟨h1, h2⟩
      cases v with
      | obj ms' =>
        rw [hops] at hbody
        simp only [SpellsX] at hbody
        have hres := spellsO_dec c hs hA ops fs hopsroot hvals ms' hbody st.m htarget
        have hpaths_inv : ∀ x ∈ propPaths c.env p, ∃ q ∈ ops, ∃ k', q.path = [k'] ∧ x = [k'] := by
          intro x hx
          obtain ⟨b, hb, rfl⟩ := List.mem_map.mp hx
          obtain ⟨q, k', hq, hqk, rfl⟩ := propLeaves_exposed_inv c.env p b hp0 hb
          rw [hops] at hq
          exact ⟨q, hq, k', hqk, rfl⟩
        have hstep : decProp c props p (.obj ms') st =
            .ok { m := restrictP (propPaths c.env p ++ ups.flatMap (propPaths c.env)) fs,
                  seen := p.jsonName :: st.seen } := by
          cases hres with
          | empty seen1 found ct hnone hloop hpost =>
            exact step_exposed_empty c props fs p st _ hctx ref ops ms' seen1 found ct hp0 hpg hpf hfind
              (by
                intro x hx
                obtain ⟨q, hq, k', hqk, rfl⟩ := hpaths_inv x hx
                have := hnone q hq
                rw [hqk] at this; exact this) hloop hpost
          | set q k' v' seen1 found ct hq hqk hag hoth hloop hpost =>
            exact step_exposed_set c props fs p st _ hctx ref ops ms' k' v' seen1 found ct hp0 hpg hpf
              hfind (hin q hq k' hqk) hag (by
                intro x hx hne
                obtain ⟨q', hq', k2, hq'k, rfl⟩ := hpaths_inv x hx
                have := hoth q' hq' (by rw [hq'k]; exact hne)
                rw [hq'k] at this; exact this) hloop hpost
        rw [hstep]
        simp only []
        exact spellsM_loop c hs hA props fs hroot hsort hfok hgrp rest (k :: used) hrest (p :: ups)
          (by rw [hused, List.map_cons, hname]) (fun q hq => by
            rcases List.mem_cons.mp hq with rfl | hq'
            · exact hpm
            · exact hups q hq') _ (by rw [List.flatMap_cons]) (by
            intro p' hp' hn'
            simp only [List.mem_cons, not_or] at hn' ⊢
            exact ⟨by rw [hname]; exact hn'.1, hseen p' hp' hn'.2⟩)
      | _ => simp [SpellsX] at hbody
termination_by sizeOf ms

theorem spellsO_dec (c : Cfg) (hs : c.env.flat = true)
    (hA : c.protoToAny = false ∨ c.env.noJ5Any = true) (ops : List PropDef) (fs : Fields)
    (hroot : rootSimple (.oneof ops) = true)
    (hvals : ∀ q ∈ ops, ∀ k v, q.path = [k] → aget k fs = some v →
      valOk c.env c.O q.field v = true ∧ (q.pres == .imp && v.isZero) = false)
    (ms : PMembers) (h : SpellsO c ops fs ms) (m : Fields)
    (htarget : ∀ q ∈ ops, ∀ k, q.path = [k] → aget k m = none) : OneResult c ops fs ms m := by
  obtain ⟨hsimple, hnames, _, hnotype⟩ := oneof_root_facts ops hroot
  -- reading the member `k1 : v1` of the body into `m`
  have member : ∀ (k1 : Bytes) (v1 : PTree) (q : PropDef) (kk : Nat) (vv : PVal),
      sizeOf v1 < sizeOf ms → findProp ops k1 = some q → q.path = [kk] → aget kk fs = some vv →
      SpellsV c q.field vv v1 →
      q ∈ ops ∧ q.jsonName = k1 ∧
      decProp c ops q v1 { m := m, seen := [] } = .ok { m := aset kk vv m, seen := [q.jsonName] } := by
    intro k1 v1 q kk vv hsz hfq hqk hag hsp
    have hq := findProp_mem ops k1 q hfq
    obtain ⟨hvok, hz⟩ := hvals q hq kk vv hqk hag
    have hdec := spellsV_dec c hs hA q.field vv v1 (propSimple_field q (hsimple q hq)) hvok hsp
    refine ⟨hq, findProp_name ops k1 q hfq, ?_⟩
    exact oneof_member_step c ops q kk vv v1 m hqk hdec hz (valOk_not_emptyColl _ _ _ _ hvok)
      (htarget q hq kk hqk) (fun q' hq' k' hk' _ => htarget q' hq' k' hk')
  cases ms with
  | nil term =>
    simp only [SpellsO] at h
    obtain ⟨rfl, hnone⟩ := h
    exact OneResult.empty [] [] none hnone (by simp [decOneofMembers]) (by simp [oneofPost])
  | cons k1 kr1 v1 rest1 =>
    cases rest1 with
    | nil term =>
      simp only [SpellsO] at h
      obtain ⟨rfl, hk1, q, kk, vv, hfq, hqk, hag, hoth, hsp⟩ := h
      obtain ⟨hq, hqn, hstep⟩ := member k1 v1 q kk vv (by simp; omega) hfq hqk hag hsp
      refine OneResult.set q kk vv [q.jsonName] [k1] none hq hqk hag hoth ?_ (by simp [oneofPost])
      simp [decOneofMembers, hk1, hfq, hstep]
    | cons k2 kr2 v2 rest2 =>
      cases rest2 with
      | nil term =>
        simp only [SpellsO] at h
        obtain ⟨rfl, halt⟩ := h
        rcases halt with ⟨hk1, hk2, ⟨raw, hv1⟩, q, kk, vv, hfq, hqk, hag, hoth, hsp⟩ |
          ⟨hk2, hk1, ⟨raw, hv2⟩, q, kk, vv, hfq, hqk, hag, hoth, hsp⟩
        · subst hv1
          obtain ⟨hq, hqn, hstep⟩ := member k2 v2 q kk vv (by simp; omega) hfq hqk hag hsp
          refine OneResult.set q kk vv [q.jsonName] [k2] (some k2) hq hqk hag hoth ?_
            (by simp [oneofPost])
          simp [decOneofMembers, hk1, hk2, hfq, hstep]
        · subst hv2
          obtain ⟨hq, hqn, hstep⟩ := member k1 v1 q kk vv (by simp; omega) hfq hqk hag hsp
          refine OneResult.set q kk vv [q.jsonName] [k1] (some k1) hq hqk hag hoth ?_
            (by simp [oneofPost])
          simp [decOneofMembers, hk1, hk2, hfq, hstep]
      | cons k3 kr3 v3 rest3 => simp [SpellsO] at h
termination_by sizeOf ms

theorem spellsE_dec (c : Cfg) (hs : c.env.flat = true)
    (hA : c.protoToAny = false ∨ c.env.noJ5Any = true) (item : Field) (vs : List PVal) (xs : PElems)
    (hi : itemSimple item = true) (hlok : listOk c.env c.O item vs = true) (h : SpellsE c item vs xs)
    (acc : List PVal) : decElems c item xs acc = .ok (acc ++ vs, .closed) := by
  cases xs with
  | nil term =>
    simp only [SpellsE] at h
    obtain ⟨rfl, rfl⟩ := h
    simp [decElems]
  | cons t rest =>
    simp only [SpellsE] at h
    obtain ⟨v, vs', rfl, hsp, hrest⟩ := h
    simp only [listOk, Bool.and_eq_true] at hlok
    have hdec := spellsV_dec c hs hA item v t (itemSimple_field item hi) hlok.1 hsp
    rw [hdec.elem hi, spellsE_dec c hs hA item vs' rest hi hlok.2 hrest]
    simp
termination_by sizeOf xs

theorem spellsMap_dec (c : Cfg) (hs : c.env.flat = true)
    (hA : c.protoToAny = false ∨ c.env.noJ5Any = true) (item : Field) (kvs : List (Bytes × PVal))
    (ms : PMembers) (hi : itemSimple item = true) (seen : List Bytes)
    (hmok : mapOk c.env c.O item seen kvs = true) (h : SpellsMap c item kvs ms)
    (acc : List (Bytes × PVal)) (hacc : ∀ k, k ∉ seen → mget k acc = none) :
    decMapMembers c item ms acc = .ok (acc ++ kvs, .closed) := by
  cases ms with
  | nil term =>
    simp only [SpellsMap] at h
    obtain ⟨rfl, rfl⟩ := h
    simp [decMapMembers]
  | cons k kr t rest =>
    simp only [SpellsMap] at h
    obtain ⟨v, kvs', rfl, hsp, hrest⟩ := h
    obtain ⟨hks, _, hvok, hok'⟩ := mapOk_cons _ _ _ _ _ _ _ hmok
    have hmg : mget k acc = none := hacc k hks
    have hdec := spellsV_dec c hs hA item v t (itemSimple_field item hi) hvok hsp
    rw [hdec.mapv hi k kr _ acc hmg, mset_append k v acc hmg,
      spellsMap_dec c hs hA item kvs' rest hi (k :: seen) hok' hrest]
    · simp
    · intro k2 hk2
      simp only [List.mem_cons, not_or] at hk2
      exact mget_append_ne k2 k v acc hk2.1 (hacc k2 hk2.2)
termination_by sizeOf ms
end

end J5V.Codec

namespace J5V.Codec
open J5V.Go J5V.Json

/-- **every admissible spelling of a representable message decodes to exactly that message** -/
theorem spells_root_decodes (c : Cfg) (hs : c.env.flat = true)
    (hA : c.protoToAny = false ∨ c.env.noJ5Any = true) (root : String) (m : Fields) (t : PTree)
    (hok : valOk c.env c.O (.object root) (.msg m) = true ∨ valOk c.env c.O (.oneof root) (.msg m) = true)
    (h : SpellsRoot c root m t) : decRootTree c root t = .ok m := by
  unfold SpellsRoot at h
  rcases hok with hok | hok
  · obtain ⟨fs, props, hv, hfind, hsort, hfok, hgrp, hexp⟩ := valOk_object _ _ root _ hok
    cases hv
    rw [hfind] at h
    cases t with
    | obj ms =>
      simp only [] at h
      obtain ⟨seen', hdec⟩ := spellsM_loop c hs hA props m (find_rootFlat c.env hs root _ hfind) hsort hfok
        hgrp ms [] h [] rfl (fun _ hq => by cases hq) { m := [], seen := [] }
        (by simp [restrictP_nil]) (fun _ _ _ => by simp)
      simp [decRootTree, hfind, hdec, finishObject, closeOk]
    | _ => simp at h
  · obtain ⟨fs, ops, hv, hfind, hsort, hfok, hlen⟩ := valOk_oneof _ _ root _ hok
    cases hv
    rw [hfind] at h
    have hroot := rootFlat_oneof c.env ops (find_rootFlat c.env hs root _ hfind)
    cases t with
    | obj ms =>
      simp only [] at h
      have hres := spellsO_dec c hs hA ops m hroot (oneof_store_facts c ops m hroot hfok) ms h []
        (fun _ _ _ _ => rfl)
      cases hres with
      | empty seen1 found ct hnone hloop hpost =>
        have hfs' : m = [] := oneof_empty_store c ops m hroot hfok hnone
        subst hfs'
        simp [decRootTree, hfind, hloop, finishOneof, closeOk, hpost, applyPost]
      | set q k v seen1 found ct hq hqk hag hoth hloop hpost =>
        have hfs' : m = [(k, v)] := single_store m k v hlen hag
        have : aset k v ([] : Fields) = m := by rw [hfs']; rfl
        rw [this] at hloop hpost
        simp [decRootTree, hfind, hloop, finishOneof, closeOk, hpost, applyPost]
    | _ => simp at h

end J5V.Codec
