import J5V.Codec.RoundtripPlain
import J5V.Codec.FlattenConform
/-!
# The member loop of an object with flattened objects, exposed oneofs and proto oneofs (C01)

The decoder's message after it has read the members of a set of properties is the restriction of
the original message to the leaf paths of those properties (`restrictP`).
-/
namespace J5V.Codec
open J5V.Go J5V.Json

def propPaths (env : Env) (p : PropDef) : List (List Nat) := (propLeaves env p).map (·.1)

theorem propPaths_nonempty (env : Env) (p : PropDef) (hp : p.path ≠ []) : propPaths env p = [p.path] := by
  unfold propPaths; rw [propLeaves_nonempty env p hp]; rfl

/-- what one property of an object contributes to the body -/
inductive MemberSpecF (c : Cfg) (fs : Fields) (p : PropDef) : Option (Bytes × Bytes × PTree) → Prop
  | unset : p.path ≠ [] → getPath fs p.path = none → MemberSpecF c fs p none
  | leaf (v : PVal) (lit : Bytes) (t : PTree) : p.path ≠ [] → getPath fs p.path = some v →
      Dec c p.field v t → (OracleWire c.O → Wire.Conforms c.env c.O p.field v t) →
      (p.pres == .imp && v.isZero) = false → v.isEmptyColl = false →
      MemberSpecF c fs p (some (p.jsonName, lit, t))
  | exposedUnset : p.path = [] → (∀ x ∈ propPaths c.env p, getPath fs x = none) →
      (∀ q ∈ exposedOps c.env p, getPath fs q.path = none) → MemberSpecF c fs p none
  | exposedSet (ref : String) (ops : List PropDef) (q : PropDef) (k : Nat) (v : PVal)
      (lit tlit nlit qlit : Bytes) (tv : PTree) :
      p.path = [] → p.group = none → p.field = .oneof ref → c.env.find ref = some (.oneof ops) →
      rootSimple (.oneof ops) = true → q ∈ ops → q.path = [k] → aget k fs = some v →
      (∀ x ∈ propPaths c.env p, x ≠ [k] → getPath fs x = none) →
      Dec c q.field v tv → (OracleWire c.O → Wire.Conforms c.env c.O q.field v tv) →
      (q.pres == .imp && v.isZero) = false → v.isEmptyColl = false →
      MemberSpecF c fs p (some (p.jsonName, lit,
        .obj (.cons typeKey tlit (.str q.jsonName nlit) (.cons q.jsonName qlit tv (.nil .closed)))))

/-- the leaf paths of the properties processed so far -/
def pathsAcc (env : Env) : List PropDef → List (List Nat) → List (List Nat)
  | [], S => S
  | p :: ps, S => pathsAcc env ps (propPaths env p ++ S)

theorem pathsAcc_mono (env : Env) : ∀ (ps : List PropDef) (S : List (List Nat)) (x : List Nat),
    x ∈ S → x ∈ pathsAcc env ps S := by
  intro ps
  induction ps with
  | nil => intro S x hx; exact hx
  | cons p t ih => intro S x hx; exact ih _ x (List.mem_append.mpr (Or.inr hx))

theorem mem_pathsAcc (env : Env) (ps : List PropDef) (S : List (List Nat)) (p : PropDef)
    (x : List Nat) (hp : p ∈ ps) (hx : x ∈ propPaths env p) : x ∈ pathsAcc env ps S := by
  induction ps generalizing S with
  | nil => cases hp
  | cons q qs ih =>
    rcases List.mem_cons.mp hp with rfl | hp'
    · exact pathsAcc_mono env qs _ x (List.mem_append.mpr (Or.inl hx))
    · exact ih _ hp'

/-- two members of one proto oneof (same message) are not both set (from `groupsOk`) -/
def GroupsExclF (props : List PropDef) (fs : Fields) : Prop :=
  ∀ p ∈ props, ∀ q ∈ props, p.group.isSome = true → q.group = p.group →
    q.path.dropLast = p.path.dropLast → q.path ≠ p.path → (getPath fs p.path).isSome = true →
    getPath fs q.path = none

theorem groupsExclF_of_groupsOk (props : List PropDef) (fs : Fields) (h : groupsOk props fs = true) :
    GroupsExclF props fs := by
  intro p hp q hq hgs hg hdl hne hset
  unfold groupsOk at h
  have := List.all_eq_true.mp (List.all_eq_true.mp h p hp) q hq
  simp only [isSet, Bool.not_eq_true', Bool.and_eq_false_iff] at this
  cases hx : getPath fs q.path with
  | none => rfl
  | some v' =>
    exfalso
    rcases this with ((((h1 | h1) | h1) | h1) | h1) | h1
    · simp [hgs] at h1
    · simp [hg] at h1
    · simp [hdl] at h1
    · have : p.path ≠ q.path := fun e => hne e.symm
      simp [this] at h1
    · simp [hset] at h1
    · simp [hx] at h1

theorem dropLast_concat_last (path : List Nat) (k : Nat) (h : path.getLast? = some k) :
    path.dropLast ++ [k] = path := by
  have hne : path ≠ [] := by intro e; subst e; simp at h
  have := List.dropLast_concat_getLast hne
  rw [List.getLast?_eq_some_getLast hne] at h
  cases h
  exact this

theorem getLast_some_of_ne (path : List Nat) (h : path ≠ []) : ∃ k, path.getLast? = some k :=
  ⟨path.getLast h, List.getLast?_eq_some_getLast h⟩

theorem updPath_eq_go (props : List PropDef) (p : PropDef) (v : Option PVal) (m : Fields) :
    updPath props p v m = updPath.go props p v [] p.path m := rfl

/-- the facts about the store the loop needs -/
structure StoreFacts (env : Env) (props : List PropDef) (fs : Fields) : Prop where
  sorted : asorted fs = true
  along : ∀ x ∈ leafEntries env props, SortedAlong x.1 fs
  leafH : LeafH env props
  groups : GroupsExclF props fs

theorem decObjMembers_loopF (c : Cfg) (props : List PropDef) (fs : Fields)
    (hnames : (props.map (·.jsonName)).Nodup) (hsf : StoreFacts c.env props fs)
    (g : PropDef → Outcome (Option (Bytes × Bytes × PTree)))
    (hspec : ∀ p ∈ props, ∀ r, g p = .ok r → MemberSpecF c fs p r) :
    ∀ (ps : List PropDef) (es : List (Bytes × Bytes × PTree)) (st : PS) (S : List (List Nat)),
      AllEncProps g ps es → (∀ p ∈ ps, p ∈ props) → (ps.map (·.jsonName)).Nodup →
      (ps.flatMap (propPaths c.env)).Nodup → (∀ p ∈ ps, p.jsonName ∉ st.seen) →
      (∀ p ∈ ps, ∀ x ∈ propPaths c.env p, x ∉ S) →
      (∀ s ∈ S, ∃ b ∈ leafEntries c.env props, b.1 = s) → st.m = restrictP S fs →
      ∃ seen', decObjMembers c props (membersOf es) st =
        .ok ({ m := restrictP (pathsAcc c.env ps S) fs, seen := seen' }, .closed) := by
  intro ps
  induction ps with
  | nil =>
    intro es st S h _ _ _ _ _ _ hm
    simp only [AllEncProps] at h; subst h
    refine ⟨st.seen, ?_⟩
    simp [membersOf, decObjMembers, pathsAcc, ← hm]
  | cons p ps ih =>
    intro es st S h hsub hnd hkd hseen hS hSsub hm
    have hpm : p ∈ props := hsub p List.mem_cons_self
    simp only [List.map_cons, List.nodup_cons] at hnd
    rw [List.flatMap_cons, List.nodup_append] at hkd
    obtain ⟨_, hkd2, hkdis⟩ := hkd
    have hS' : ∀ q ∈ ps, ∀ x ∈ propPaths c.env q, x ∉ propPaths c.env p ++ S := by
      intro q hq x hx hmem
      rcases List.mem_append.mp hmem with hmem | hmem
      · exact hkdis x hmem x (List.mem_flatMap.mpr ⟨q, hq, hx⟩) rfl
      · exact hS q (List.mem_cons_of_mem _ hq) x hx hmem
    have hsub' : ∀ q ∈ ps, q ∈ props := fun q hq => hsub q (List.mem_cons_of_mem _ hq)
    -- every leaf path of `p` is an entry of the property set
    have hentry : ∀ x ∈ propPaths c.env p, ∃ b ∈ leafEntries c.env props, b.1 = x := by
      intro x hx
      obtain ⟨b, hb, rfl⟩ := List.mem_map.mp hx
      exact ⟨b, List.mem_flatMap.mpr ⟨p, hpm, hb⟩, rfl⟩
    have hSsub' : ∀ s ∈ propPaths c.env p ++ S, ∃ b ∈ leafEntries c.env props, b.1 = s := by
      intro s hs
      rcases List.mem_append.mp hs with hs | hs
      · exact hentry s hs
      · exact hSsub s hs
    -- a leaf path of `p` is apart from everything processed
    have hapart : ∀ x ∈ propPaths c.env p, Apart x S := by
      intro x hx s hs
      obtain ⟨a, ha, rfl⟩ := hentry x hx
      obtain ⟨b, hb, rfl⟩ := hSsub s hs
      have hne : a.1 ∉ S := hS p List.mem_cons_self a.1 hx
      constructor
      · intro hpre
        have := hsf.leafH b hb a ha hpre
        subst this; exact hne hs
      · intro hpre
        have := hsf.leafH a ha b hb hpre
        subst this; exact hne hs
    have halong : ∀ x ∈ propPaths c.env p, SortedAlong x fs := by
      intro x hx
      obtain ⟨a, ha, rfl⟩ := hentry x hx
      exact hsf.along a ha
    have hne_path : ∀ x ∈ propPaths c.env p, x ≠ [] := by
      intro x hx
      obtain ⟨a, ha, rfl⟩ := hentry x hx
      exact leafEntries_path_ne c.env props a ha
    rcases h with ⟨hgn, hrest⟩ | ⟨e, es', rfl, hgs, hrest⟩
    · -- no member written
      have hunset : ∀ x ∈ propPaths c.env p, getPath fs x = none := by
        have hsp := hspec p hpm none hgn
        cases hsp with
        | unset hpne hget =>
          intro x hx; rw [propPaths_nonempty c.env p hpne] at hx
          simp only [List.mem_singleton] at hx; subst hx; exact hget
        | exposedUnset _ hall _ => exact hall
      obtain ⟨seen', hs⟩ := ih es st (propPaths c.env p ++ S) hrest hsub' hnd.2 hkd2
        (fun q hq => hseen q (List.mem_cons_of_mem _ hq)) hS' hSsub'
        (by
          rw [restrictP_append_unset _ S fs (fun x hx => ⟨hne_path x hx, halong x hx, hunset x hx⟩)]
          exact hm)
      exact ⟨seen', by simpa [pathsAcc] using hs⟩
    · -- one member written
      have hseen' : ∀ q ∈ ps, q.jsonName ∉ p.jsonName :: st.seen := by
        intro q hq
        simp only [List.mem_cons, not_or]
        refine ⟨?_, hseen q (List.mem_cons_of_mem _ hq)⟩
        intro e
        exact hnd.1 (List.mem_map.mpr ⟨q, hq, e⟩)
      have hsp := hspec p hpm (some e) hgs
      have key : decProp c props p e.2.2 st =
          .ok { m := restrictP (propPaths c.env p ++ S) fs, seen := p.jsonName :: st.seen } ∧
          e.1 = p.jsonName := by
        cases hsp with
        | leaf v lit t hpne hget hdec hcf hz hec =>
          have hpp : propPaths c.env p = [p.path] := propPaths_nonempty c.env p hpne
          have hpin : p.path ∈ propPaths c.env p := by rw [hpp]; simp
          have hap := hapart p.path hpin
          obtain ⟨kl, hkl⟩ := getLast_some_of_ne p.path hpne
          -- the other members of the proto oneof are unset in the original message
          have hsibfs : ∀ gi, p.group = some gi → ∀ q ∈ props, q.group = some gi →
              q.path.dropLast = p.path.dropLast → ∀ k', q.path.getLast? = some k' → k' ≠ kl →
              getPath fs q.path = none := by
            intro gi hg q hq hqg hqd k' hk' hne
            apply hsf.groups p hpm q hq (by rw [hg]; rfl) (by rw [hqg, hg]) hqd _ (by rw [hget]; rfl)
            intro e
            rw [e, hkl] at hk'
            exact hne (Option.some.inj hk').symm
          have hsib : SiblingsUnset props p kl (msgAt p.path.dropLast st.m) := by
            intro gi hg q hq hqg hqd k' hk' hne
            rw [aget_msgAt, ← hqd, dropLast_concat_last q.path k' hk', hm]
            have hqne : q.path ≠ [] := by intro e; rw [e] at hk'; simp at hk'
            apply getPath_restrictP_none q.path S fs _ (hsibfs gi hg q hq hqg hqd k' hk' hne)
            exact hsf.along (q.path, q.field, q.pres)
              (List.mem_flatMap.mpr ⟨q, hq, by rw [propLeaves_nonempty c.env q hqne]; simp⟩)
          refine ⟨?_, rfl⟩
          rw [hdec.prop props p st rfl hpne (hseen p List.mem_cons_self)
            (by rw [hm]; exact getPath_restrictP_apart p.path S fs (halong _ hpin) hpne hap)
            (groupBusy_false_at props p kl st.m hkl hsib)]
          rw [updPath_eq_go, hm,
            updGo_restrict props p v kl hkl hz hec p.path [] S fs rfl hpne (halong _ hpin) hget hap
              (by
                intro gi hg q hq hqg hqd k' hk' hne
                rw [← hqd, dropLast_concat_last q.path k' hk']
                exact hsibfs gi hg q hq hqg hqd k' hk' hne),
            hpp]
          rfl
        | exposedSet ref ops q k v lit tlit nlit qlit tv hp0 hpg hpf hfind hroot hq hqk hag hoth hdec hcf hz hec =>
          have hops : exposedOps c.env p = ops := exposedOps_eq c.env p ref ops hp0 hpf hfind
          have hkin : [k] ∈ propPaths c.env p := by
            unfold propPaths
            exact List.mem_map.mpr ⟨_, propLeaves_exposed_mem c.env p q k hp0 (by rw [hops]; exact hq) hqk, rfl⟩
          have hk0 : aget k st.m = none := by
            have := getPath_restrictP_apart [k] S fs (halong _ hkin) (by simp) (hapart _ hkin)
            rw [hm]; simpa [getPath] using this
          have hothers : ∀ q' ∈ ops, ∀ k', q'.path = [k'] → k' ≠ k → aget k' st.m = none := by
            intro q' hq' k' hk' hne
            have hin : [k'] ∈ propPaths c.env p := by
              unfold propPaths
              exact List.mem_map.mpr ⟨_, propLeaves_exposed_mem c.env p q' k' hp0 (by rw [hops]; exact hq') hk', rfl⟩
            have := hoth [k'] hin (by intro e; cases e; exact hne rfl)
            simp only [getPath] at this
            rw [hm, aget_restrictP S fs hsf.sorted k', this]; rfl
          obtain ⟨hloop, hpost⟩ := decOneof_one c ops hroot q k v tlit nlit qlit tv st.m hq hqk hdec hz hec
            hk0 hothers
          refine ⟨?_, rfl⟩
          unfold decProp; rw [hpf]; simp only []
          have hgb : groupBusy props p st.m = false := groupBusy_none props p st.m hpg
          simp only [createField_fresh props p st (hseen p List.mem_cons_self) hgb, Outcome.bind, hfind]
          have hstart : oneofStart p { m := st.m, seen := p.jsonName :: st.seen } =
              { m := st.m, seen := [] } := by
            unfold oneofStart; rw [hp0]; rfl
          rw [hstart, hloop]
          have hpe : p.path.isEmpty = true := by rw [hp0]; rfl
          simp only [finishOneofProp, Outcome.bind, closeOk, hpost, applyPost, hpe]
          rw [hm, aset_restrictP_single S fs hsf.sorted k v hag,
            restrictP_append_one (propPaths c.env p) S fs k hkin
              (fun x hx hne => ⟨hne_path x hx, halong x hx, hoth x hx hne⟩)]
          simp
      obtain ⟨hstep, hname⟩ := key
      obtain ⟨seen', hs⟩ := ih es' { m := restrictP (propPaths c.env p ++ S) fs, seen := p.jsonName :: st.seen }
        (propPaths c.env p ++ S) hrest hsub' hnd.2 hkd2 hseen' hS' hSsub' rfl
      refine ⟨seen', ?_⟩
      obtain ⟨ek, elit, et⟩ := e
      simp only [] at hname hstep
      subst hname
      simp only [membersOf]
      rw [decObjMembers, findProp_self props hnames p hpm]
      simp only [hstep]
      simpa [pathsAcc] using hs

end J5V.Codec
