import J5V.Codec.ScalarProofs
/-!
# Lemmas for C03: alternate spellings are accepted, faults are rejected (scalar level)
-/
namespace J5V.Codec
open J5V.Go J5V.Json

/-! ## base64: URL-safe alphabet -/

def stdToUrl (c : UInt8) : UInt8 := if c = 0x2B then 0x2D else if c = 0x2F then 0x5F else c

theorem urlToStd_stdToUrl_of_fixed (c : UInt8) (h : urlToStd c = c) : urlToStd (stdToUrl c) = c := by
  unfold stdToUrl
  by_cases h1 : c = 0x2B
  · subst h1; decide
  · by_cases h2 : c = 0x2F
    · subst h2; decide
    · rw [if_neg h1, if_neg h2]; exact h

theorem map_fixed_mem {f : UInt8 → UInt8} : ∀ (l : Bytes), l.map f = l → ∀ c ∈ l, f c = c
  | [], _, c, hc => by cases hc
  | a :: t, h, c, hc => by
    simp only [List.map_cons, List.cons.injEq] at h
    rcases List.mem_cons.mp hc with rfl | hc
    · exact h.1
    · exact map_fixed_mem t h.2 c hc

/-- URL-safe base64 (`-` `_`) of any byte string is accepted and gives the same bytes -/
theorem byteValueFromString_url (bs : Bytes) :
    byteValueFromString ((b64Encode bs).map stdToUrl) = some bs := by
  rw [byteValueFromString_eq]
  have hfix := map_fixed_mem _ (b64Encode_urlToStd bs)
  have hmap : ((b64Encode bs).map stdToUrl).map urlToStd = b64Encode bs := by
    rw [List.map_map]
    conv => rhs; rw [← List.map_id (b64Encode bs)]
    apply List.map_congr_left
    intro c hc
    exact urlToStd_stdToUrl_of_fixed c (hfix c hc)
  simp only [hmap]
  rw [if_neg (by simp [b64Encode_length])]
  exact b64_inv bs

/-! ## base64: missing padding is restored -/

def stripPad (s : Bytes) : Bytes := s.filter (· ≠ 0x3D)

theorem b64Char_ne_pad : ∀ v, v < 64 → (b64Char v != 0x3D) = true := by decide

theorem stripPad_cons_char (v : Nat) (hv : v < 64) (l : Bytes) :
    stripPad (b64Char v :: l) = b64Char v :: stripPad l := by
  have h := b64Char_ne_pad v hv
  simp only [bne_iff_ne, ne_eq] at h
  simp [stripPad, List.filter_cons, h]

theorem stripPad_pad (l : Bytes) : stripPad (0x3D :: l) = stripPad l := by
  simp [stripPad, List.filter_cons]

theorem stripPad_nil : stripPad [] = [] := rfl

theorem stripPad_repad (bs : Bytes) :
    (if (stripPad (b64Encode bs)).length % 4 ≠ 0
      then stripPad (b64Encode bs) ++ List.replicate (4 - (stripPad (b64Encode bs)).length % 4) 0x3D
      else stripPad (b64Encode bs)) = b64Encode bs := by
  fun_induction b64Encode bs with
  | case1 => rfl
  | case2 a n =>
    have ha := a.toNat_lt
    have hn : n = a.toNat := rfl
    rw [stripPad_cons_char _ (by omega), stripPad_cons_char _ (by omega), stripPad_pad, stripPad_pad,
      stripPad_nil]
    rfl
  | case3 a b n =>
    have ha := a.toNat_lt
    have hb := b.toNat_lt
    have hn : n = a.toNat * 256 + b.toNat := rfl
    rw [stripPad_cons_char _ (by omega), stripPad_cons_char _ (by omega),
      stripPad_cons_char _ (by omega), stripPad_pad, stripPad_nil]
    rfl
  | case4 a b c rest n ih =>
    have ha := a.toNat_lt
    have hb := b.toNat_lt
    have hc := c.toNat_lt
    have hn : n = a.toNat * 65536 + b.toNat * 256 + c.toNat := rfl
    rw [stripPad_cons_char _ (by omega), stripPad_cons_char _ (by omega),
      stripPad_cons_char _ (by omega), stripPad_cons_char _ (by omega)]
    generalize stripPad (b64Encode rest) = sp at ih ⊢
    have e : (b64Char (n / 262144) :: b64Char (n / 4096 % 64) :: b64Char (n / 64 % 64) ::
        b64Char (n % 64) :: sp).length % 4 = sp.length % 4 := by
      simp only [List.length_cons]; omega
    rw [e]
    split
    · next hne => rw [if_pos hne] at ih; simp only [List.cons_append, ih]
    · next hne => rw [if_neg hne] at ih; simp only [ih]

theorem stripPad_urlToStd (bs : Bytes) : (stripPad (b64Encode bs)).map urlToStd = stripPad (b64Encode bs) := by
  have hfix := map_fixed_mem _ (b64Encode_urlToStd bs)
  conv => rhs; rw [← List.map_id (stripPad (b64Encode bs))]
  apply List.map_congr_left
  intro c hc
  exact hfix c (List.mem_filter.mp hc).1

/-- unpadded base64 of any byte string is accepted and gives the same bytes -/
theorem byteValueFromString_unpadded (bs : Bytes) :
    byteValueFromString (stripPad (b64Encode bs)) = some bs := by
  rw [byteValueFromString_eq]
  simp only [stripPad_urlToStd]
  rw [stripPad_repad bs]
  exact b64_inv bs

/-! ## enum names with and without the prefix -/

theorem stripPrefix_append (pfx name : Bytes) : stripPrefix pfx (pfx ++ name) = some name := by
  induction pfx with
  | nil => cases name <;> rfl
  | cons p ps ih => simp [stripPrefix, ih]

theorem trimPrefix_append (pfx name : Bytes) : trimPrefix (pfx ++ name) pfx = name := by
  unfold trimPrefix; rw [stripPrefix_append]

/-- the exact short name is always found first -/
theorem enumOptionByName_short (pfx : Bytes) (opts : List (Bytes × Int)) (name : Bytes) (n : Int)
    (h : (opts.find? fun o => o.1 == name) = some (name, n)) :
    enumOptionByName pfx opts name = some n := by
  unfold enumOptionByName; rw [h]

/-- the prefixed spelling denotes the same option, unless an option carries that full name -/
theorem enumOptionByName_prefixed (pfx : Bytes) (opts : List (Bytes × Int)) (name : Bytes) (n : Int)
    (h : (opts.find? fun o => o.1 == name) = some (name, n))
    (hfull : (opts.find? fun o => o.1 == pfx ++ name) = none) :
    enumOptionByName pfx opts (pfx ++ name) = some n := by
  unfold enumOptionByName; rw [hfull]
  simp only [optionByName, trimPrefix_append, h, Option.map_some]

/-! ## faults -/

/-- JSON value of a type the field kind does not take -/
def wrongType (k : ScalarKind) (t : GoTok) : Bool :=
  match k, t with
  | .bool, .str _ | .bool, .num _ => true
  | .string, .num _ | .string, .bool _ => true
  | .key, .num _ | .key, .bool _ => true
  | .int32, .bool _ | .int64, .bool _ | .uint32, .bool _ | .uint64, .bool _ => true
  | .float32, .bool _ | .float64, .bool _ => true
  | .bytes, .num _ | .bytes, .bool _ => true
  | .timestamp, .num _ | .timestamp, .bool _ => true
  | .date, .num _ | .date, .bool _ => true
  | .decimal, .bool _ => true
  | _, _ => false

theorem decodeScalar_wrongType (O : Oracle) (k : ScalarKind) (t : GoTok) (h : wrongType k t = true) :
    ∃ e, decodeScalar O k t = .err e := by
  cases k <;> cases t <;> simp only [wrongType, Bool.false_eq_true] at h <;>
    exact ⟨_, rfl⟩

/-- an integer text that `strconv` cannot parse (syntax or range) is rejected, quoted or bare -/
theorem decodeScalar_int_unparsable (O : Oracle) (text : Bytes) :
    (parseInt text 64 = none → ∃ e, decodeScalar O .int32 (.num text) = .err e) ∧
    (parseInt text 64 = none → ∃ e, decodeScalar O .int64 (.num text) = .err e) ∧
    (parseInt text 64 = none → ∃ e, decodeScalar O .uint32 (.num text) = .err e) ∧
    (parseUint text 64 = none → ∃ e, decodeScalar O .uint64 (.num text) = .err e) ∧
    (parseInt text 32 = none → ∃ e, decodeScalar O .int32 (.str text) = .err e) ∧
    (parseInt text 64 = none → ∃ e, decodeScalar O .int64 (.str text) = .err e) ∧
    (parseUint text 32 = none → ∃ e, decodeScalar O .uint32 (.str text) = .err e) ∧
    (parseUint text 64 = none → ∃ e, decodeScalar O .uint64 (.str text) = .err e) := by
  refine ⟨?_, ?_, ?_, ?_, ?_, ?_, ?_, ?_⟩ <;> intro h <;> simp only [decodeScalar, h] <;> exact ⟨_, rfl⟩

/-- a bare number outside the 32-bit range is rejected -/
theorem decodeScalar_int32_range (O : Oracle) (text : Bytes) (v : Int) (hp : parseInt text 64 = some v)
    (hr : v > 2147483647 ∨ v < -2147483648) : ∃ e, decodeScalar O .int32 (.num text) = .err e := by
  simp only [decodeScalar, hp, if_pos hr]; exact ⟨_, rfl⟩

theorem decodeScalar_uint32_range (O : Oracle) (text : Bytes) (v : Int) (hp : parseInt text 64 = some v)
    (hr : v < 0 ∨ v > 4294967295) : ∃ e, decodeScalar O .uint32 (.num text) = .err e := by
  simp only [decodeScalar, hp, if_pos hr]; exact ⟨_, rfl⟩

/-- whatever the oracle functions or the model's own parsers reject is rejected by the field -/
theorem decodeScalar_invalid_text (O : Oracle) (s : Bytes) :
    (byteValueFromString s = none → ∃ e, decodeScalar O .bytes (.str s) = .err e) ∧
    (dateFromString s = none → ∃ e, decodeScalar O .date (.str s) = .err e) ∧
    (O.parseDec s = none → ∃ e, decodeScalar O .decimal (.str s) = .err e) ∧
    (O.parseTime s = none → ∃ e, decodeScalar O .timestamp (.str s) = .err e) ∧
    (O.parseFloat s = none → ∃ e, decodeScalar O .float64 (.str s) = .err e) ∧
    (O.parseFloat s = none → ∃ e, decodeScalar O .float32 (.num s) = .err e) := by
  refine ⟨?_, ?_, ?_, ?_, ?_, ?_⟩ <;> intro h <;> simp only [decodeScalar, h] <;> exact ⟨_, rfl⟩

end J5V.Codec
