import J5V.Codec.RoundtripInd
import J5V.Codec.DecodeProofs
import J5V.Json.ReaderProofs
import J5V.Json.Strict
/-!
# Everything the encoder writes is read back by the JSON reader (C08 well-formedness, C01 on bytes)
-/
namespace J5V.Codec
open J5V.Go J5V.Json

/-! ## strict parsing of rendered encoder trees -/

mutual
theorem enc_complete (t : PTree) (h : t.Enc) : t.complete = true := by
  cases t <;> simp only [PTree.Enc] at h <;> simp only [PTree.complete]
  case obj ms => exact enc_complete_members ms h
  case arr xs => exact enc_complete_elems xs h
termination_by sizeOf t
theorem enc_complete_members (ms : PMembers) (h : ms.Enc) : ms.complete = true := by
  cases ms with
  | nil t => simp only [PMembers.Enc] at h; subst h; rfl
  | cons k kr v r =>
    simp only [PMembers.Enc] at h
    simp only [PMembers.complete, Bool.and_eq_true]
    exact ⟨enc_complete v h.2.1, enc_complete_members r h.2.2⟩
termination_by sizeOf ms
theorem enc_complete_elems (xs : PElems) (h : xs.Enc) : xs.complete = true := by
  cases xs with
  | nil t => simp only [PElems.Enc] at h; subst h; rfl
  | cons v r =>
    simp only [PElems.Enc] at h
    simp only [PElems.complete, Bool.and_eq_true]
    exact ⟨enc_complete v h.1, enc_complete_elems r h.2⟩
termination_by sizeOf xs
end

/-- the strict parser accepts the rendering of every encoder tree and returns that tree -/
theorem parse_render (t : PTree) (h : t.Enc) : parse t.render = some t := by
  unfold parse
  have htok : tokenize t.render = t.toks.map Item.tok := by
    rw [tokenize_eq]
    have := toks_value t h .top [] [] rfl trivial
    simp only [List.append_nil] at this
    rw [this, toksOf_step]
    simp [tokStep, skipWs]
  rw [htok]
  have := build_value t h ((t.toks.map Item.tok).length + 1) [] (by simp)
  simp only [List.append_nil] at this
  simp only [this, enc_complete t h]
  simp

/-! ## nodes the encoder writes -/

theorem strNode_enc (s : Bytes) (t : PTree) (h : strNode s = .ok t) : t.Enc := by
  unfold strNode at h
  cases ha : appendString s with
  | ok lit => simp only [ha] at h; cases h; exact LitOk_of_appendString s lit ha
  | err e => simp [ha] at h
  | panic w => simp [ha] at h

theorem numOk_fmtInt (v : Int) : NumOk (fmtInt v) := by
  refine ⟨fmtInt_head v, ?_⟩
  intro rest hr
  apply scanNumber_fmtInt v rest
  cases rest with
  | nil => trivial
  | cons c r => simp only [AfterValue] at hr; rcases hr with rfl | rfl | rfl <;> simp [numberEnd, isDigit]

theorem numOk_fmtNat (n : Nat) : NumOk (fmtNat n) := by
  refine ⟨fmtNat_head n, ?_⟩
  intro rest hr
  apply scanNumber_fmtNat n rest
  cases rest with
  | nil => trivial
  | cons c r => simp only [AfterValue] at hr; rcases hr with rfl | rfl | rfl <;> simp [numberEnd, isDigit]

theorem numOk_of_isJsonNumber (t : Bytes) (h : Wire.isJsonNumber t = true) : NumOk t := by
  apply numOk_of_scan
  unfold Wire.isJsonNumber at h
  cases hs : scanNumber t with
  | none => simp [hs] at h
  | some x =>
    obtain ⟨a, r⟩ := x
    cases r with
    | nil => exact ⟨a, rfl⟩
    | cons c r' => simp [hs] at h

theorem bareNode_enc (t : Bytes) (h : t = ascii "true" ∨ t = ascii "false" ∨ NumOk t) :
    (bareNode t).Enc := by
  unfold bareNode
  split
  · trivial
  · split
    · trivial
    · rcases h with h | h | h
      · contradiction
      · contradiction
      · exact h

/-- what is assumed of `FormatFloat` for the well-formedness of *all* outputs: the text written
for a finite value is a JSON number -/
def FloatTextOk (O : Oracle) : Prop :=
  (∀ b, finite64 b = true → Wire.isJsonNumber (O.fmtF64 b) = true) ∧
  (∀ b, finite32 b = true → Wire.isJsonNumber (O.fmtF32 b) = true)

theorem floatTextOk_of_laws (O : Oracle) (L : OracleLaws O) : FloatTextOk O :=
  ⟨fun b h => (L.f64 b h).1, fun b h => (L.f32 b h).1⟩

theorem nonFinite_cases (a e m : Bool) (t : Bytes) :
    (e = false ∧ nonFinite a e m t = .bare t) ∨ (e = true ∧ ∃ s, nonFinite a e m t = .quoted s) := by
  cases e
  · left; exact ⟨rfl, by simp [nonFinite]⟩
  · right; refine ⟨rfl, ?_⟩
    unfold nonFinite
    cases m <;> cases a <;> simp

theorem float64_bare_ok (O : Oracle) (hO : FloatTextOk O) (b : Nat) (x : Bytes)
    (he : nonFinite (decide (b / 2 ^ 63 % 2 = 1)) (decide (b / 2 ^ 52 % 2048 = 2047))
      (decide (b % 2 ^ 52 = 0)) (O.fmtF64 b) = .bare x) : NumOk x := by
  rcases nonFinite_cases (decide (b / 2 ^ 63 % 2 = 1)) (decide (b / 2 ^ 52 % 2048 = 2047))
    (decide (b % 2 ^ 52 = 0)) (O.fmtF64 b) with ⟨hfin, hb⟩ | ⟨_, s, hs⟩
  · rw [hb] at he; cases he
    have : finite64 b = true := by
      simp only [finite64, bne_iff_ne, ne_eq]
      simpa using hfin
    exact numOk_of_isJsonNumber _ (hO.1 b this)
  · rw [hs] at he; cases he

theorem float32_bare_ok (O : Oracle) (hO : FloatTextOk O) (b : Nat) (x : Bytes)
    (he : nonFinite (decide (b / 2 ^ 31 % 2 = 1)) (decide (b / 2 ^ 23 % 256 = 255))
      (decide (b % 2 ^ 23 = 0)) (O.fmtF32 b) = .bare x) : NumOk x := by
  rcases nonFinite_cases (decide (b / 2 ^ 31 % 2 = 1)) (decide (b / 2 ^ 23 % 256 = 255))
    (decide (b % 2 ^ 23 = 0)) (O.fmtF32 b) with ⟨hfin, hb⟩ | ⟨_, s, hs⟩
  · rw [hb] at he; cases he
    have : finite32 b = true := by
      simp only [finite32, bne_iff_ne, ne_eq]
      simpa using hfin
    exact numOk_of_isJsonNumber _ (hO.2 b this)
  · rw [hs] at he; cases he

theorem bare_ok (O : Oracle) (hO : FloatTextOk O) (k : ScalarKind) (v : PVal) (x : Bytes)
    (he : encodeScalar O k v = .ok (.bare x)) :
    x = ascii "true" ∨ x = ascii "false" ∨ NumOk x := by
  cases k <;> cases v <;> simp only [encodeScalar, Outcome.ok.injEq, ScalarOut.bare.injEq,
    reduceCtorEq] at he
  case bool.bool b => cases b <;> simp at he <;> simp [← he]
  case int32.int i => subst he; exact Or.inr (Or.inr (numOk_fmtInt i))
  case uint32.uint n => subst he; exact Or.inr (Or.inr (numOk_fmtNat n))
  case float32.f32 b => exact Or.inr (Or.inr (float32_bare_ok O hO b x he))
  case float64.f64 b => exact Or.inr (Or.inr (float64_bare_ok O hO b x he))

/-- every scalar node is an encoder node, for **every** value (non-finite floats included) -/
theorem scalarNode_enc (O : Oracle) (hO : FloatTextOk O) (k : ScalarKind) (v : PVal) (t : PTree)
    (h : scalarNode O k v = .ok t) : t.Enc := by
  unfold scalarNode at h
  cases he : encodeScalar O k v with
  | err e => simp [he] at h
  | panic w => simp [he] at h
  | ok out =>
    simp only [he] at h
    cases out with
    | quoted s => exact strNode_enc s t h
    | bare x =>
      cases h
      exact bareNode_enc x (bare_ok O hO k v x he)

end J5V.Codec

namespace J5V.Codec
open J5V.Go J5V.Json

/-! ## the whole tree -/

theorem membersOf_enc (es : List (Bytes × Bytes × PTree))
    (h : ∀ e ∈ es, LitOk e.1 e.2.1 ∧ e.2.2.Enc) : (membersOf es).Enc := by
  induction es with
  | nil => simp [membersOf, PMembers.Enc]
  | cons e t ih =>
    obtain ⟨k, kr, v⟩ := e
    simp only [membersOf, PMembers.Enc]
    have := h (k, kr, v) List.mem_cons_self
    exact ⟨this.1, this.2, ih (fun e he => h e (List.mem_cons_of_mem _ he))⟩

theorem elemsOf_enc (ts : List PTree) (h : ∀ t ∈ ts, t.Enc) : (elemsOf ts).Enc := by
  induction ts with
  | nil => simp [elemsOf, PElems.Enc]
  | cons t r ih =>
    simp only [elemsOf, PElems.Enc]
    exact ⟨h t List.mem_cons_self, ih (fun x hx => h x (List.mem_cons_of_mem _ hx))⟩

theorem allEnc_mem {α : Type} (g : α → Outcome PTree) :
    ∀ (xs : List α) (ts : List PTree), AllEnc g xs ts → ∀ t ∈ ts, ∃ x ∈ xs, g x = .ok t := by
  intro xs
  induction xs with
  | nil => intro ts h t ht; cases ts with
    | nil => cases ht
    | cons a b => exact absurd h (by simp [AllEnc])
  | cons x xs ih =>
    intro ts h t ht
    cases ts with
    | nil => cases ht
    | cons a b =>
      obtain ⟨hx, hr⟩ := h
      rcases List.mem_cons.mp ht with rfl | ht'
      · exact ⟨x, List.mem_cons_self, hx⟩
      · obtain ⟨y, hy, hg⟩ := ih b hr t ht'
        exact ⟨y, List.mem_cons_of_mem _ hy, hg⟩

theorem allEncMap_mem (g : PVal → Outcome PTree) :
    ∀ (kvs : List (Bytes × PVal)) (es : List (Bytes × Bytes × PTree)), AllEncMap g kvs es →
      ∀ e ∈ es, ∃ kv ∈ kvs, e.1 = kv.1 ∧ appendString kv.1 = .ok e.2.1 ∧ g kv.2 = .ok e.2.2 := by
  intro kvs
  induction kvs with
  | nil => intro es h e he; cases es with
    | nil => cases he
    | cons a b => obtain ⟨x, y, z⟩ := a; exact absurd h (by simp [AllEncMap])
  | cons kv kvs ih =>
    intro es h e he
    obtain ⟨k, v⟩ := kv
    cases es with
    | nil => cases he
    | cons a b =>
      obtain ⟨k', lit, t⟩ := a
      obtain ⟨hk, ha, hg, hr⟩ := h
      rcases List.mem_cons.mp he with rfl | he'
      · exact ⟨(k, v), List.mem_cons_self, hk, ha, hg⟩
      · obtain ⟨kv', hkv', h3⟩ := ih b hr e he'
        exact ⟨kv', List.mem_cons_of_mem _ hkv', h3⟩

theorem allEncProps_mem (g : PropDef → Outcome (Option (Bytes × Bytes × PTree))) :
    ∀ (ps : List PropDef) (es : List (Bytes × Bytes × PTree)), AllEncProps g ps es →
      ∀ e ∈ es, ∃ p ∈ ps, g p = .ok (some e) := by
  intro ps
  induction ps with
  | nil => intro es h e he; simp only [AllEncProps] at h; subst h; cases he
  | cons p ps ih =>
    intro es h e he
    rcases h with ⟨_, hr⟩ | ⟨e0, es', rfl, hg, hr⟩
    · obtain ⟨q, hq, h3⟩ := ih es hr e he
      exact ⟨q, List.mem_cons_of_mem _ hq, h3⟩
    · rcases List.mem_cons.mp he with rfl | he'
      · exact ⟨p, List.mem_cons_self, hg⟩
      · obtain ⟨q, hq, h3⟩ := ih es' hr e he'
        exact ⟨q, List.mem_cons_of_mem _ hq, h3⟩

theorem find_noAny (env : Env) (h : env.noAny = true) (name : String) (ps : List PropDef)
    (hf : env.find name = some (.object ps) ∨ env.find name = some (.oneof ps)) :
    ∀ p ∈ ps, fieldNoAny p.field = true := by
  unfold Env.noAny at h
  rcases hf with hf | hf
  · obtain ⟨d, hm, hd⟩ := find_mem env name _ hf
    have := List.all_eq_true.mp h d hm
    rw [hd] at this
    exact fun p hp => List.all_eq_true.mp this p hp
  · obtain ⟨d, hm, hd⟩ := find_mem env name _ hf
    have := List.all_eq_true.mp h d hm
    rw [hd] at this
    exact fun p hp => List.all_eq_true.mp this p hp

/-- the facts about encoder trees at fuel `f` -/
structure ET (env : Env) (O : Oracle) (f : Nat) : Prop where
  val : ∀ fld v t, fieldNoAny fld = true → encValue env O f fld v = .ok t → t.Enc
  fld : ∀ p m t, fieldNoAny p.field = true → encField env O f p m = .ok (some t) → t.Enc
  obj : ∀ props m t, (∀ p ∈ props, fieldNoAny p.field = true) →
    encObjectBody env O f props m = .ok t → t.Enc
  one : ∀ ops m t, (∀ p ∈ ops, fieldNoAny p.field = true) →
    encOneofBody env O f ops m = .ok t → t.Enc

theorem member_enc (name : Bytes) (t : PTree) (e : Bytes × Bytes × PTree) (ht : t.Enc)
    (h : member name (.ok t) = .ok (some e)) : LitOk e.1 e.2.1 ∧ e.2.2.Enc := by
  obtain ⟨lit, t', ha, ht', hr⟩ := member_ok_inv _ _ _ h
  cases ht'; cases hr
  exact ⟨LitOk_of_appendString name lit ha, ht⟩

theorem ET_all (env : Env) (O : Oracle) (hna : env.noAny = true) (hO : FloatTextOk O) :
    ∀ f, ET env O f := by
  intro f
  induction f with
  | zero =>
    refine ⟨?_, ?_, ?_, ?_⟩
    · intro fld v t _ h; simp [encValue] at h
    · intro p m t _ h; simp [encField] at h
    · intro props m t _ h; simp [encObjectBody] at h
    · intro ops m t _ h; simp [encOneofBody] at h
  | succ f ih =>
    refine ⟨?_, ?_, ?_, ?_⟩
    · -- values
      intro fld v t hfn h
      cases fld with
      | scalar k =>
        simp only [encValue] at h
        exact scalarNode_enc O hO k v t h
      | «enum» ref =>
        simp only [encValue] at h
        split at h
        · split at h
          · exact strNode_enc _ t h
          · cases h
        · cases h
      | object ref =>
        simp only [encValue] at h
        split at h
        · next props fs hfind =>
          exact ih.obj props fs t (find_noAny env hna ref props (Or.inl hfind)) h
        · cases h
      | oneof ref =>
        simp only [encValue] at h
        split at h
        · next ops fs hfind =>
          exact ih.one ops fs t (find_noAny env hna ref ops (Or.inr hfind)) h
        · cases h
      | any pb => simp [fieldNoAny] at hfn
      | array item =>
        have hin : fieldNoAny item = true := by simpa [fieldNoAny] using hfn
        simp only [encValue] at h
        split at h
        · cases h
        · cases h
        · cases h
        · next xs _ _ _ =>
          cases hr : xs.foldr (fun x acc => consElem (encValue env O f item x) acc)
              (.ok (.nil .closed)) with
          | err e => simp [hr] at h
          | panic w => simp [hr] at h
          | ok es =>
            simp only [hr] at h; cases h
            obtain ⟨ts, hall, rfl⟩ := foldr_consElem_inv _ xs es hr
            simp only [PTree.Enc]
            apply elemsOf_enc
            intro t' ht'
            obtain ⟨x, _, hg⟩ := allEnc_mem _ xs ts hall t' ht'
            exact ih.val item x t' hin hg
        · cases h
      | map item =>
        have hin : fieldNoAny item = true := by simpa [fieldNoAny] using hfn
        simp only [encValue] at h
        split at h
        · cases h
        · cases h
        · cases h
        · next kvs _ _ _ =>
          cases hr : kvs.foldr (fun kv acc =>
              consMember (member kv.1 (encValue env O f item kv.2)) acc) (.ok (.nil .closed)) with
          | err e => simp [hr] at h
          | panic w => simp [hr] at h
          | ok ms =>
            simp only [hr] at h; cases h
            obtain ⟨es, hall, rfl⟩ := foldr_consMember_map_inv _ kvs ms hr
            simp only [PTree.Enc]
            apply membersOf_enc
            intro e he
            obtain ⟨kv, _, hk, ha, hg⟩ := allEncMap_mem _ kvs es hall e he
            exact ⟨by rw [hk]; exact LitOk_of_appendString _ _ ha, ih.val item kv.2 e.2.2 hin hg⟩
        · cases h
    · -- a property
      intro p m t hfn h
      simp only [encField] at h
      split at h
      · -- exposed oneof
        split at h
        · split at h
          · next ops hfind =>
            split at h
            · split at h
              · next t' ht' =>
                cases h
                exact ih.one ops m _ (find_noAny env hna _ ops (Or.inr hfind)) ht'
              · cases h
              · cases h
            · cases h
          · cases h
        · cases h
      · split at h
        · cases h
        · next v _ =>
          split at h
          · next t' ht' => cases h; exact ih.val p.field v _ hfn ht'
          · cases h
          · cases h
    · -- object body
      intro props m t hps h
      simp only [encObjectBody] at h
      split at h
      · next ms hr =>
        cases h
        obtain ⟨es, hall, rfl⟩ := foldr_consMember_inv _ props ms hr
        simp only [PTree.Enc]
        apply membersOf_enc
        intro e he
        obtain ⟨p, hp, hg⟩ := allEncProps_mem _ props es hall e he
        split at hg
        · cases hg
        · next q hq =>
          have hqm := findProp_mem props _ q hq
          split at hg
          · cases hg
          · next t' ht' =>
            exact member_enc q.jsonName t' e (ih.fld q m t' (hps q hqm) ht') hg
          · cases hg
          · cases hg
      · cases h
      · cases h
    · -- oneof body
      intro ops m t hps h
      simp only [encOneofBody] at h
      split at h
      · cases h; simp [PTree.Enc, PMembers.Enc]
      · next q0 _ =>
        split at h
        · cases h
        · next q hq =>
          have hqm := findProp_mem ops _ q hq
          split at h
          · next nameNode hn =>
            split at h
            · next typeLit htl =>
              split at h
              · next t' ht' =>
                split at h
                · next k kraw v hmem =>
                  cases h
                  have hme := member_enc q.jsonName t' (k, kraw, v) (ih.fld q m t' (hps q hqm) ht') hmem
                  simp only [PTree.Enc, PMembers.Enc]
                  exact ⟨LitOk_of_appendString _ _ htl, strNode_enc _ _ hn, hme.1, hme.2, trivial⟩
                · cases h
                · cases h
                · cases h
              · cases h
              · cases h
              · cases h
            · cases h
            · cases h
          · cases h
          · cases h
      · cases h

/-- whatever tree the encoder produces (for any message at all, of an environment without `Any`)
is an encoder tree: closed containers, literals that read back -/
theorem encodeTree_enc (env : Env) (O : Oracle) (hna : env.noAny = true) (hO : FloatTextOk O)
    (root : String) (v : PVal) (t : PTree) (h : encodeTree env O root v = .ok t) : t.Enc := by
  unfold encodeTree at h
  generalize encFuel v = f at h
  cases f with
  | zero => simp [encRoot] at h
  | succ f =>
    simp only [encRoot] at h
    split at h
    · next props fs hfind =>
      exact (ET_all env O hna hO f).obj props fs t (find_noAny env hna root props (Or.inl hfind)) h
    · next ops fs hfind =>
      exact (ET_all env O hna hO f).one ops fs t (find_noAny env hna root ops (Or.inr hfind)) h
    · cases h

end J5V.Codec

namespace J5V.Codec
open J5V.Go J5V.Json

theorem fieldSimple_noAny (fld : Field) (h : fieldSimple fld = true) : fieldNoAny fld = true := by
  cases fld with
  | array i => cases i <;> simp [fieldSimple, itemSimple, fieldNoAny] at h ⊢
  | map i => cases i <;> simp [fieldSimple, itemSimple, fieldNoAny] at h ⊢
  | any pb => simp [fieldSimple] at h
  | _ => rfl

theorem flat_noAny (env : Env) (h : env.flat = true) : env.noAny = true := by
  unfold Env.flat at h
  simp only [Bool.and_eq_true] at h
  unfold Env.noAny
  apply List.all_eq_true.mpr
  intro d hd
  have hr := List.all_eq_true.mp h.1 d hd
  cases hroot : d.2 with
  | object ps =>
    rw [hroot] at hr
    simp only []
    apply List.all_eq_true.mpr
    intro p hp
    rcases (object_root_facts env ps hr).1 p hp with h1 | h1
    · exact fieldSimple_noAny _ (propFlat_inv p h1).2
    · obtain ⟨_, _, ref, ops, hpf, _⟩ := propExposed_inv env p h1
      rw [hpf]; rfl
  | oneof ps =>
    rw [hroot] at hr
    simp only []
    apply List.all_eq_true.mpr
    intro p hp
    exact fieldSimple_noAny _ (propSimple_field p ((oneof_root_facts ps hr).1 p hp))
  | «enum» a b => rfl
  | noschema => rfl

/-- **byte-level well-formedness**: every successful encoding (of any message whatsoever, in an
environment without `Any`) is accepted by the strict parser, which returns the encoder's tree -/
theorem encodeBytes_parses (env : Env) (O : Oracle) (hna : env.noAny = true) (hO : FloatTextOk O)
    (root : String) (v : PVal) (bs : Bytes) (h : encodeBytes env O root v = .ok bs) :
    ∃ t, encodeTree env O root v = .ok t ∧ bs = t.render ∧ parse bs = some t := by
  unfold encodeBytes at h
  cases ht : encodeTree env O root v with
  | err e => simp [ht] at h
  | panic w => simp [ht] at h
  | ok t =>
    simp only [ht] at h; cases h
    exact ⟨t, rfl, rfl, parse_render t (encodeTree_enc env O hna hO root v t ht)⟩

/-- **byte-level round trip with progress**: `Codec.ProtoToJSON` succeeds on every representable
message of a flat environment and `Codec.JSONToProto` maps the bytes back to exactly that message -/
theorem roundtrip_bytes (c : Cfg) (hs : c.env.flat = true) (L : OracleLaws c.O) (root : String)
    (m : Fields)
    (hok : valOk c.env c.O (.object root) (.msg m) = true ∨ valOk c.env c.O (.oneof root) (.msg m) = true) :
    ∃ bs, encodeBytes c.env c.O root (.msg m) = .ok bs ∧ decodeBytes c root bs = .ok m := by
  obtain ⟨t, ht, hdec⟩ := roundtrip_tree_flat c hs L root m hok
  refine ⟨t.render, by simp [encodeBytes, ht], ?_⟩
  unfold decodeBytes
  rw [readDoc_render t (encodeTree_enc c.env c.O (flat_noAny c.env hs) (floatTextOk_of_laws c.O L)
    root (.msg m) t ht)]
  exact hdec

/-- the shape of an encoded `Any` -/
theorem any_shape (env : Env) (O : Oracle) (f : Nat) (pb : Bool) (v : PVal) (t : PTree)
    (h : encValue env O f (.any pb) v = .ok t) :
    ∃ tn l1 l2 l3 data, Wire.anyTypeName v = some tn ∧
      t = .obj (.cons (ascii "!type") l1 (.str tn l2) (.cons (ascii "value") l3 data (.nil .closed))) := by
  cases f with
  | zero => simp [encValue] at h
  | succ f =>
    simp only [encValue] at h
    cases v <;> simp only [] at h <;> try (cases h)
    case anyJ5 tn proto j5 ik iroot inner =>
      split at h
      · next data hdata =>
        split at h
        · next typeLit tnNode valueLit h1 h2 h3 =>
          cases h
          unfold strNode at h2
          cases ha : appendString tn with
          | ok lit => simp only [ha] at h2; cases h2; exact ⟨tn, _, _, _, _, rfl, rfl⟩
          | err e => simp [ha] at h2
          | panic w => simp [ha] at h2
        all_goals cases h
      · cases h
      · cases h
    case anyPb url val ik iroot inner =>
      split at h
      · next data hdata =>
        split at h
        · next typeLit tnNode valueLit h1 h2 h3 =>
          cases h
          unfold strNode at h2
          cases ha : appendString (trimPrefix url anyPrefix) with
          | ok lit => simp only [ha] at h2; cases h2; exact ⟨_, _, _, _, _, rfl, rfl⟩
          | err e => simp [ha] at h2
          | panic w => simp [ha] at h2
        all_goals cases h
      · cases h
      · cases h

end J5V.Codec
