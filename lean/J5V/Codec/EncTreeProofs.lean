import J5V.Codec.RoundtripInd
import J5V.Codec.TreeDepth
import J5V.Codec.DecodeProofs
import J5V.Json.ReaderProofs
import J5V.Json.Strict
/-!
# Everything the encoder writes is read back by the JSON reader (C08 well-formedness, C01 on bytes)
-/
namespace J5V.Codec
open J5V.Go J5V.Json

/-! ## strict parsing of rendered encoder trees -/

mutual
theorem enc_complete (t : PTree) (h : t.Enc) : t.complete = true := by
  cases t <;> simp only [PTree.Enc] at h <;> simp only [PTree.complete]
  case obj ms => exact enc_complete_members ms h
  case arr xs => exact enc_complete_elems xs h
termination_by sizeOf t
theorem enc_complete_members (ms : PMembers) (h : ms.Enc) : ms.complete = true := by
  cases ms with
  | nil t => simp only [PMembers.Enc] at h; subst h; rfl
  | cons k kr v r =>
    simp only [PMembers.Enc] at h
    simp only [PMembers.complete, Bool.and_eq_true]
    exact ⟨enc_complete v h.2.1, enc_complete_members r h.2.2⟩
termination_by sizeOf ms
theorem enc_complete_elems (xs : PElems) (h : xs.Enc) : xs.complete = true := by
  cases xs with
  | nil t => simp only [PElems.Enc] at h; subst h; rfl
  | cons v r =>
    simp only [PElems.Enc] at h
    simp only [PElems.complete, Bool.and_eq_true]
    exact ⟨enc_complete v h.1, enc_complete_elems r h.2⟩
termination_by sizeOf xs
end

/-- the strict parser accepts the rendering of every encoder tree and returns that tree -/
theorem parse_render (t : PTree) (h : t.Enc) : parse t.render = some t := by
  unfold parse
  have htok : tokenize t.render = t.toks.map Item.tok := by
    rw [tokenize_eq]
    have := toks_value t h .top [] [] rfl trivial
    simp only [List.append_nil] at this
    rw [this, toksOf_step]
    simp [tokStep, skipWs]
  rw [htok]
  have := build_value t h ((t.toks.map Item.tok).length + 1) [] (by simp)
  simp only [List.append_nil] at this
  simp only [this, enc_complete t h]
  simp

/-! ## nodes the encoder writes -/

theorem strNode_enc (s : Bytes) (t : PTree) (h : strNode s = .ok t) : t.Enc := by
  unfold strNode at h
  cases ha : appendString s with
  | ok lit => simp only [ha] at h; cases h; exact LitOk_of_appendString s lit ha
  | err e => simp [ha] at h
  | panic w => simp [ha] at h

theorem numOk_fmtInt (v : Int) : NumOk (fmtInt v) := by
  refine ⟨fmtInt_head v, ?_⟩
  intro rest hr
  apply scanNumber_fmtInt v rest
  cases rest with
  | nil => trivial
  | cons c r => simp only [AfterValue] at hr; rcases hr with rfl | rfl | rfl <;> simp [numberEnd, isDigit]

theorem numOk_fmtNat (n : Nat) : NumOk (fmtNat n) := by
  refine ⟨fmtNat_head n, ?_⟩
  intro rest hr
  apply scanNumber_fmtNat n rest
  cases rest with
  | nil => trivial
  | cons c r => simp only [AfterValue] at hr; rcases hr with rfl | rfl | rfl <;> simp [numberEnd, isDigit]

theorem numOk_of_isJsonNumber (t : Bytes) (h : Wire.isJsonNumber t = true) : NumOk t := by
  apply numOk_of_scan
  unfold Wire.isJsonNumber at h
  cases hs : scanNumber t with
  | none => simp [hs] at h
  | some x =>
    obtain ⟨a, r⟩ := x
    cases r with
    | nil => exact ⟨a, rfl⟩
    | cons c r' => simp [hs] at h

theorem bareNode_enc (t : Bytes) (h : t = ascii "true" ∨ t = ascii "false" ∨ NumOk t) :
    (bareNode t).Enc := by
  unfold bareNode
  split
  · trivial
  · split
    · trivial
    · rcases h with h | h | h
      · contradiction
      · contradiction
      · exact h

/-- what is assumed of `FormatFloat` for the well-formedness of *all* outputs: the text written
for a finite value is a JSON number -/
def FloatTextOk (O : Oracle) : Prop :=
  (∀ b, finite64 b = true → Wire.isJsonNumber (O.fmtF64 b) = true) ∧
  (∀ b, finite32 b = true → Wire.isJsonNumber (O.fmtF32 b) = true)

theorem floatTextOk_of_laws (O : Oracle) (L : OracleLaws O) : FloatTextOk O :=
  ⟨fun b h => (L.f64 b h).1, fun b h => (L.f32 b h).1⟩

theorem nonFinite_cases (a e m : Bool) (t : Bytes) :
    (e = false ∧ nonFinite a e m t = .bare t) ∨ (e = true ∧ ∃ s, nonFinite a e m t = .quoted s) := by
  cases e
  · left; exact ⟨rfl, by simp [nonFinite]⟩
  · right; refine ⟨rfl, ?_⟩
    unfold nonFinite
    cases m <;> cases a <;> simp

theorem float64_bare_ok (O : Oracle) (hO : FloatTextOk O) (b : Nat) (x : Bytes)
    (he : nonFinite (decide (b / 2 ^ 63 % 2 = 1)) (decide (b / 2 ^ 52 % 2048 = 2047))
      (decide (b % 2 ^ 52 = 0)) (O.fmtF64 b) = .bare x) : NumOk x := by
  rcases nonFinite_cases (decide (b / 2 ^ 63 % 2 = 1)) (decide (b / 2 ^ 52 % 2048 = 2047))
    (decide (b % 2 ^ 52 = 0)) (O.fmtF64 b) with ⟨hfin, hb⟩ | ⟨_, s, hs⟩
  · rw [hb] at he; cases he
    have : finite64 b = true := by
      simp only [finite64, bne_iff_ne, ne_eq]
      simpa using hfin
    exact numOk_of_isJsonNumber _ (hO.1 b this)
  · rw [hs] at he; cases he

theorem float32_bare_ok (O : Oracle) (hO : FloatTextOk O) (b : Nat) (x : Bytes)
    (he : nonFinite (decide (b / 2 ^ 31 % 2 = 1)) (decide (b / 2 ^ 23 % 256 = 255))
      (decide (b % 2 ^ 23 = 0)) (O.fmtF32 b) = .bare x) : NumOk x := by
  rcases nonFinite_cases (decide (b / 2 ^ 31 % 2 = 1)) (decide (b / 2 ^ 23 % 256 = 255))
    (decide (b % 2 ^ 23 = 0)) (O.fmtF32 b) with ⟨hfin, hb⟩ | ⟨_, s, hs⟩
  · rw [hb] at he; cases he
    have : finite32 b = true := by
      simp only [finite32, bne_iff_ne, ne_eq]
      simpa using hfin
    exact numOk_of_isJsonNumber _ (hO.2 b this)
  · rw [hs] at he; cases he

theorem bare_ok (O : Oracle) (hO : FloatTextOk O) (k : ScalarKind) (v : PVal) (x : Bytes)
    (he : encodeScalar O k v = .ok (.bare x)) :
    x = ascii "true" ∨ x = ascii "false" ∨ NumOk x := by
  cases k <;> cases v <;> simp only [encodeScalar, Outcome.ok.injEq, ScalarOut.bare.injEq,
    reduceCtorEq] at he
  case bool.bool b => cases b <;> simp at he <;> simp [← he]
  case int32.int i => subst he; exact Or.inr (Or.inr (numOk_fmtInt i))
  case uint32.uint n => subst he; exact Or.inr (Or.inr (numOk_fmtNat n))
  case float32.f32 b => exact Or.inr (Or.inr (float32_bare_ok O hO b x he))
  case float64.f64 b => exact Or.inr (Or.inr (float64_bare_ok O hO b x he))

/-- every scalar node is an encoder node, for **every** value (non-finite floats included) -/
theorem scalarNode_enc (O : Oracle) (hO : FloatTextOk O) (k : ScalarKind) (v : PVal) (t : PTree)
    (h : scalarNode O k v = .ok t) : t.Enc := by
  unfold scalarNode at h
  cases he : encodeScalar O k v with
  | err e => simp [he] at h
  | panic w => simp [he] at h
  | ok out =>
    simp only [he] at h
    cases out with
    | quoted s => exact strNode_enc s t h
    | bare x =>
      cases h
      exact bareNode_enc x (bare_ok O hO k v x he)

end J5V.Codec

namespace J5V.Codec
open J5V.Go J5V.Json

/-! ## the whole tree -/

theorem membersOf_enc (es : List (Bytes × Bytes × PTree))
    (h : ∀ e ∈ es, LitOk e.1 e.2.1 ∧ e.2.2.Enc) : (membersOf es).Enc := by
  induction es with
  | nil => simp [membersOf, PMembers.Enc]
  | cons e t ih =>
    obtain ⟨k, kr, v⟩ := e
    simp only [membersOf, PMembers.Enc]
    have := h (k, kr, v) List.mem_cons_self
    exact ⟨this.1, this.2, ih (fun e he => h e (List.mem_cons_of_mem _ he))⟩

theorem elemsOf_enc (ts : List PTree) (h : ∀ t ∈ ts, t.Enc) : (elemsOf ts).Enc := by
  induction ts with
  | nil => simp [elemsOf, PElems.Enc]
  | cons t r ih =>
    simp only [elemsOf, PElems.Enc]
    exact ⟨h t List.mem_cons_self, ih (fun x hx => h x (List.mem_cons_of_mem _ hx))⟩

theorem find_noAny (env : Env) (h : env.noAny = true) (name : String) (ps : List PropDef)
    (hf : env.find name = some (.object ps) ∨ env.find name = some (.oneof ps)) :
    ∀ p ∈ ps, fieldNoAny p.field = true := by
  unfold Env.noAny at h
  rcases hf with hf | hf
  · obtain ⟨d, hm, hd⟩ := find_mem env name _ hf
    have := List.all_eq_true.mp h d hm
    rw [hd] at this
    exact fun p hp => List.all_eq_true.mp this p hp
  · obtain ⟨d, hm, hd⟩ := find_mem env name _ hf
    have := List.all_eq_true.mp h d hm
    rw [hd] at this
    exact fun p hp => List.all_eq_true.mp this p hp

/-! ## `Any`: recognised chunks -/

/-- every chunk the specification-side oracle recognises is an encoder tree (compact JSON as
`json.Compact` / the codec itself writes it) -/
def ChunkLaws (O : Oracle) : Prop := ∀ bs V, O.chunk bs = some V → V.Enc

/-- the laws about the text oracles do not involve the specification-side chunk recogniser -/
theorem oracleLaws_withChunk (O : Oracle) (L : OracleLaws O) (g : Bytes → Option PTree) :
    OracleLaws { O with chunk := g } :=
  ⟨L.f64, L.f32, L.time, L.dec, L.timeUtf8⟩

theorem chunkLaws_default (O : Oracle) (h : O.chunk = fun _ => none) : ChunkLaws O := by
  intro bs V hc; rw [h] at hc; cases hc

theorem chunkNode_enc (O : Oracle) (hC : ChunkLaws O) (bs : Bytes) (h : chunkKnown O bs = true) :
    (chunkNode O bs).Enc := by
  unfold chunkKnown at h
  cases hc : O.chunk bs with
  | none => simp [hc] at h
  | some V =>
    simp only [hc, beq_iff_eq] at h
    rw [chunkNode_some O bs V hc h]
    exact hC bs V hc

theorem chunksOk_aget (O : Oracle) : ∀ (m : Fields) (k : Nat) (v : PVal),
    chunksOkFields O m = true → aget k m = some v → v.chunksOk O = true := by
  intro m
  induction m with
  | nil => intro k v _ h; simp [aget] at h
  | cons e rest ih =>
    intro k v hm h
    obtain ⟨k', v'⟩ := e
    simp only [chunksOkFields, Bool.and_eq_true] at hm
    simp only [aget] at h
    split at h
    · cases h; exact hm.1
    · exact ih k v hm.2 h

theorem chunksOk_getPath (O : Oracle) : ∀ (path : List Nat) (m : Fields) (v : PVal),
    chunksOkFields O m = true → getPath m path = some v → v.chunksOk O = true := by
  intro path
  induction path with
  | nil => intro m v _ h; simp [getPath] at h
  | cons k rest ih =>
    intro m v hm h
    cases rest with
    | nil => simp only [getPath] at h; exact chunksOk_aget O m k v hm h
    | cons k2 r2 =>
      simp only [getPath] at h
      split at h
      · next sub hsub =>
        have := chunksOk_aget O m k _ hm hsub
        simp only [PVal.chunksOk] at this
        exact ih sub v this h
      · cases h

theorem chunksOk_mem_list (O : Oracle) : ∀ (xs : List PVal) (x : PVal), chunksOkList O xs = true →
    x ∈ xs → x.chunksOk O = true := by
  intro xs
  induction xs with
  | nil => intro x _ h; cases h
  | cons a r ih =>
    intro x hx h
    simp only [chunksOkList, Bool.and_eq_true] at hx
    rcases List.mem_cons.mp h with rfl | h'
    · exact hx.1
    · exact ih x hx.2 h'

theorem chunksOk_mem_map (O : Oracle) : ∀ (kvs : List (Bytes × PVal)) (kv : Bytes × PVal),
    chunksOkMap O kvs = true → kv ∈ kvs → kv.2.chunksOk O = true := by
  intro kvs
  induction kvs with
  | nil => intro x _ h; cases h
  | cons a r ih =>
    intro x hx h
    obtain ⟨k, v⟩ := a
    simp only [chunksOkMap, Bool.and_eq_true] at hx
    rcases List.mem_cons.mp h with rfl | h'
    · exact hx.1
    · exact ih x hx.2 h'

/-- the value is one the well-formedness theorem speaks about: either the environment has no `Any`
at all (then the message is arbitrary), or every `j5_json` stored in it is a recognised chunk -/
def GoodV (env : Env) (O : Oracle) (fld : Field) (v : PVal) : Prop :=
  (env.noAny = true ∧ fieldNoAny fld = true) ∨ (ChunkLaws O ∧ v.chunksOk O = true)

def GoodM (env : Env) (O : Oracle) (props : List PropDef) (m : Fields) : Prop :=
  (env.noAny = true ∧ ∀ p ∈ props, fieldNoAny p.field = true) ∨
    (ChunkLaws O ∧ chunksOkFields O m = true)

theorem goodM_of_find (env : Env) (O : Oracle) (fld : Field) (ref : String) (ps : List PropDef)
    (fs : Fields) (hg : GoodV env O fld (.msg fs))
    (hf : env.find ref = some (.object ps) ∨ env.find ref = some (.oneof ps)) : GoodM env O ps fs := by
  rcases hg with ⟨hna, _⟩ | ⟨hC, hc⟩
  · exact Or.inl ⟨hna, find_noAny env hna ref ps hf⟩
  · exact Or.inr ⟨hC, by simpa [PVal.chunksOk] using hc⟩

theorem goodV_of_goodM (env : Env) (O : Oracle) (props : List PropDef) (m : Fields) (p : PropDef)
    (v : PVal) (hg : GoodM env O props m) (hp : p ∈ props) (hv : getPath m p.path = some v) :
    GoodV env O p.field v := by
  rcases hg with ⟨hna, hall⟩ | ⟨hC, hc⟩
  · exact Or.inl ⟨hna, hall p hp⟩
  · exact Or.inr ⟨hC, chunksOk_getPath O p.path m v hc hv⟩

/-- the facts about encoder trees at fuel `f` -/
structure ET (env : Env) (O : Oracle) (f : Nat) : Prop where
  val : ∀ fld v t, GoodV env O fld v → encValue env O f fld v = .ok t → t.Enc
  fld : ∀ props p m t, GoodM env O props m → p ∈ props → encField env O f p m = .ok (some t) → t.Enc
  obj : ∀ props m t, GoodM env O props m → encObjectBody env O f props m = .ok t → t.Enc
  one : ∀ ops m t, GoodM env O ops m → encOneofBody env O f ops m = .ok t → t.Enc
  root : ∀ r v t, ChunkLaws O → v.chunksOk O = true → encRoot env O f r v = .ok t → t.Enc

theorem member_enc (name : Bytes) (t : PTree) (e : Bytes × Bytes × PTree) (ht : t.Enc)
    (h : member name (.ok t) = .ok (some e)) : LitOk e.1 e.2.1 ∧ e.2.2.Enc := by
  obtain ⟨lit, t', ha, ht', hr⟩ := member_ok_inv _ _ _ h
  cases ht'; cases hr
  exact ⟨LitOk_of_appendString name lit ha, ht⟩

theorem ET_all (env : Env) (O : Oracle) (hO : FloatTextOk O) :
    ∀ f, ET env O f := by
  intro f
  induction f with
  | zero =>
    refine ⟨?_, ?_, ?_, ?_, ?_⟩
    · intro fld v t _ h; simp [encValue] at h
    · intro props p m t _ _ h; simp [encField] at h
    · intro props m t _ h; simp [encObjectBody] at h
    · intro ops m t _ h; simp [encOneofBody] at h
    · intro r v t _ _ h; simp [encRoot] at h
  | succ f ih =>
    refine ⟨?_, ?_, ?_, ?_, ?_⟩
    · -- values
      intro fld v t hg h
      cases fld with
      | scalar k =>
        simp only [encValue] at h
        exact scalarNode_enc O hO k v t h
      | «enum» ref =>
        simp only [encValue] at h
        split at h
        · split at h
          · exact strNode_enc _ t h
          · cases h
        · cases h
      | object ref =>
        simp only [encValue] at h
        split at h
        · next props fs hfind =>
          exact ih.obj props fs t (goodM_of_find env O _ ref props fs hg (Or.inl hfind)) h
        · cases h
      | oneof ref =>
        simp only [encValue] at h
        split at h
        · next ops fs hfind =>
          exact ih.one ops fs t (goodM_of_find env O _ ref ops fs hg (Or.inr hfind)) h
        · cases h
      | any pb =>
        obtain ⟨hC, hc⟩ : ChunkLaws O ∧ v.chunksOk O = true := by
          rcases hg with ⟨_, hfn⟩ | hc
          · simp [fieldNoAny] at hfn
          · exact hc
        simp only [encValue] at h
        cases v <;> simp only [] at h <;> try (cases h)
        case anyJ5 tn proto j5 ik iroot inner =>
          simp only [PVal.chunksOk, Bool.and_eq_true, Bool.or_eq_true] at hc
          split at h
          · next data hdata =>
            have hde : data.Enc := by
              split at hdata
              · next hj =>
                cases hdata
                rcases hc.1 with he | hk
                · simp [he] at hj
                · exact chunkNode_enc O hC j5 hk
              · split at hdata
                · split at hdata
                  · cases hdata
                  · cases hdata
                  · exact ih.root iroot inner data hC hc.2 hdata
                · cases hdata
            split at h
            · next typeLit tnNode valueLit h1 h2 h3 =>
              cases h
              simp only [PTree.Enc, PMembers.Enc]
              exact ⟨LitOk_of_appendString _ _ h1, strNode_enc _ _ h2, LitOk_of_appendString _ _ h3,
                hde, trivial⟩
            all_goals cases h
          · cases h
          · cases h
        case anyPb url val ik iroot inner =>
          simp only [PVal.chunksOk] at hc
          split at h
          · next data hdata =>
            have hde : data.Enc := by
              split at hdata
              · next hj => simp at hj
              · split at hdata
                · split at hdata
                  · cases hdata
                  · cases hdata
                  · exact ih.root iroot inner data hC hc hdata
                · cases hdata
            split at h
            · next typeLit tnNode valueLit h1 h2 h3 =>
              cases h
              simp only [PTree.Enc, PMembers.Enc]
              exact ⟨LitOk_of_appendString _ _ h1, strNode_enc _ _ h2, LitOk_of_appendString _ _ h3,
                hde, trivial⟩
            all_goals cases h
          · cases h
          · cases h
      | array item =>
        simp only [encValue] at h
        split at h
        · cases h
        · cases h
        · cases h
        · next xs _ _ _ =>
          have hgi : ∀ x ∈ xs, GoodV env O item x := by
            intro x hx
            rcases hg with ⟨hna, hfn⟩ | ⟨hC, hc⟩
            · exact Or.inl ⟨hna, by simpa [fieldNoAny] using hfn⟩
            · exact Or.inr ⟨hC, chunksOk_mem_list O xs x (by simpa [PVal.chunksOk] using hc) hx⟩
          cases hr : xs.foldr (fun x acc => consElem (encValue env O f item x) acc)
              (.ok (.nil .closed)) with
          | err e => simp [hr] at h
          | panic w => simp [hr] at h
          | ok es =>
            simp only [hr] at h; cases h
            obtain ⟨ts, hall, rfl⟩ := foldr_consElem_inv _ xs es hr
            simp only [PTree.Enc]
            apply elemsOf_enc
            intro t' ht'
            obtain ⟨x, hx, hgx⟩ := allEnc_mem _ xs ts hall t' ht'
            exact ih.val item x t' (hgi x hx) hgx
        · cases h
      | map item =>
        simp only [encValue] at h
        split at h
        · cases h
        · cases h
        · cases h
        · next kvs _ _ _ =>
          have hgi : ∀ kv ∈ kvs, GoodV env O item kv.2 := by
            intro kv hkv
            rcases hg with ⟨hna, hfn⟩ | ⟨hC, hc⟩
            · exact Or.inl ⟨hna, by simpa [fieldNoAny] using hfn⟩
            · exact Or.inr ⟨hC, chunksOk_mem_map O kvs kv (by simpa [PVal.chunksOk] using hc) hkv⟩
          cases hr : kvs.foldr (fun kv acc =>
              consMember (member kv.1 (encValue env O f item kv.2)) acc) (.ok (.nil .closed)) with
          | err e => simp [hr] at h
          | panic w => simp [hr] at h
          | ok ms =>
            simp only [hr] at h; cases h
            obtain ⟨es, hall, rfl⟩ := foldr_consMember_map_inv _ kvs ms hr
            simp only [PTree.Enc]
            apply membersOf_enc
            intro e he
            obtain ⟨kv, hkv, hk, ha, hgx⟩ := allEncMap_mem _ kvs es hall e he
            exact ⟨by rw [hk]; exact LitOk_of_appendString _ _ ha, ih.val item kv.2 e.2.2 (hgi kv hkv) hgx⟩
        · cases h
    · -- a property
      intro props p m t hg hpm h
      simp only [encField] at h
      split at h
      · -- exposed oneof
        split at h
        · split at h
          · next ops hfind =>
            split at h
            · split at h
              · next t' ht' =>
                cases h
                refine ih.one ops m _ ?_ ht'
                rcases hg with ⟨hna, _⟩ | hc
                · exact Or.inl ⟨hna, find_noAny env hna _ ops (Or.inr hfind)⟩
                · exact Or.inr hc
              · cases h
              · cases h
            · cases h
          · cases h
        · cases h
      · next path hpath =>
        split at h
        · cases h
        · next v hv =>
          split at h
          · next t' ht' =>
            cases h
            exact ih.val p.field v _ (goodV_of_goodM env O props m p v hg hpm hv) ht'
          · cases h
          · cases h
    · -- object body
      intro props m t hg h
      simp only [encObjectBody] at h
      split at h
      · next ms hr =>
        cases h
        obtain ⟨es, hall, rfl⟩ := foldr_consMember_inv _ props ms hr
        simp only [PTree.Enc]
        apply membersOf_enc
        intro e he
        obtain ⟨p, hp, hgp⟩ := allEncProps_mem _ props es hall e he
        split at hgp
        · cases hgp
        · next q hq =>
          have hqm := findProp_mem props _ q hq
          split at hgp
          · cases hgp
          · next t' ht' =>
            exact member_enc q.jsonName t' e (ih.fld props q m t' hg hqm ht') hgp
          · cases hgp
          · cases hgp
      · cases h
      · cases h
    · -- oneof body
      intro ops m t hg h
      simp only [encOneofBody] at h
      split at h
      · cases h; simp [PTree.Enc, PMembers.Enc]
      · next q0 _ =>
        split at h
        · cases h
        · next q hq =>
          have hqm := findProp_mem ops _ q hq
          split at h
          · next nameNode hn =>
            split at h
            · next typeLit htl =>
              split at h
              · next t' ht' =>
                split at h
                · next k kraw v hmem =>
                  cases h
                  have hme := member_enc q.jsonName t' (k, kraw, v) (ih.fld ops q m t' hg hqm ht') hmem
                  simp only [PTree.Enc, PMembers.Enc]
                  exact ⟨LitOk_of_appendString _ _ htl, strNode_enc _ _ hn, hme.1, hme.2, trivial⟩
                · cases h
                · cases h
                · cases h
              · cases h
              · cases h
              · cases h
            · cases h
            · cases h
          · cases h
          · cases h
      · cases h
    · -- root
      intro r v t hC hc h
      simp only [encRoot] at h
      split at h
      · next props fs hfind =>
        exact ih.obj props fs t (Or.inr ⟨hC, by simpa [PVal.chunksOk] using hc⟩) h
      · next ops fs hfind =>
        exact ih.one ops fs t (Or.inr ⟨hC, by simpa [PVal.chunksOk] using hc⟩) h
      · cases h

/-- whatever tree the encoder produces — for any message at all of an environment without `Any`,
or for a message of any environment whose stored `j5_json` chunks are all recognised — is an
encoder tree: closed containers, literals that read back -/
theorem encodeTree_enc' (env : Env) (O : Oracle) (hO : FloatTextOk O)
    (root : String) (v : PVal) (t : PTree)
    (hg : env.noAny = true ∨ (ChunkLaws O ∧ v.chunksOk O = true))
    (h : encodeTree env O root v = .ok t) : t.Enc := by
  unfold encodeTree at h
  generalize encFuel v = f at h
  cases f with
  | zero => simp [encRoot] at h
  | succ f =>
    simp only [encRoot] at h
    split at h
    · next props fs hfind =>
      refine (ET_all env O hO f).obj props fs t ?_ h
      rcases hg with hna | ⟨hC, hc⟩
      · exact Or.inl ⟨hna, find_noAny env hna root props (Or.inl hfind)⟩
      · exact Or.inr ⟨hC, by simpa [PVal.chunksOk] using hc⟩
    · next ops fs hfind =>
      refine (ET_all env O hO f).one ops fs t ?_ h
      rcases hg with hna | ⟨hC, hc⟩
      · exact Or.inl ⟨hna, find_noAny env hna root ops (Or.inr hfind)⟩
      · exact Or.inr ⟨hC, by simpa [PVal.chunksOk] using hc⟩
    · cases h

end J5V.Codec

namespace J5V.Codec
open J5V.Go J5V.Json

/-! ## a representable message holds only recognised chunks -/

theorem scalarOk_not_any (O : Oracle) (k : ScalarKind) (v : PVal)
    (hv : (∃ a b c d e, v = .anyPb a b c d e) ∨ (∃ a b c d e f, v = .anyJ5 a b c d e f)) :
    scalarOk O k v = false := by
  rcases hv with ⟨a, b, c, d, e, rfl⟩ | ⟨a, b, c, d, e, f, rfl⟩ <;>
    cases k <;> simp [scalarOk, scalarRepr]

mutual
theorem valOk_chunksOk (env : Env) (O : Oracle) : (v : PVal) → (fld : Field) →
    valOk env O fld v = true → v.chunksOk O = true
  | .msg fs, fld, h => by
    simp only [PVal.chunksOk]
    cases fld with
    | object ref =>
      obtain ⟨fs', props, hv, _, _, hfok, _, _⟩ := valOk_object env O ref _ h
      cases hv
      exact fieldsOk_chunksOk env O fs props hfok
    | oneof ref =>
      obtain ⟨fs', ops, hv, _, _, hfok, _⟩ := valOk_oneof env O ref _ h
      cases hv
      exact fieldsOk_chunksOk env O fs ops hfok
    | _ => simp [valOk] at h
  | .list xs, fld, h => by
    simp only [PVal.chunksOk]
    cases fld with
    | array item =>
      obtain ⟨xs', hv, hl⟩ := valOk_array env O item _ h
      cases hv
      exact listOk_chunksOk env O xs item hl
    | _ => simp [valOk] at h
  | .map kvs, fld, h => by
    simp only [PVal.chunksOk]
    cases fld with
    | map item =>
      obtain ⟨kvs', hv, hm⟩ := valOk_map env O item _ h
      cases hv
      exact mapOk_chunksOk env O kvs item [] hm
    | _ => simp [valOk] at h
  | .anyJ5 tn proto j5 ik iroot inner, fld, h => by
    cases fld with
    | any pb =>
      cases pb with
      | true => simp [valOk] at h
      | false =>
        obtain ⟨tn', j5', V, hv, _, _, _, hch, hr, _, _⟩ := valOk_any env O _ h
        cases hv
        simp [PVal.chunksOk, chunksOkFields, chunkKnown, hch, hr]
    | _ => simp [valOk] at h
  | .anyPb a b c d e, fld, h => by
    cases fld with
    | any pb =>
      cases pb with
      | false => simp [valOk] at h
      | true =>
        obtain ⟨tn, iroot, fs, hv, _, _, _, hiok⟩ := valOk_anyPb env O _ h
        cases hv
        simp only [PVal.chunksOk]
        rcases hiok with h1 | h1
        · exact valOk_chunksOk env O _ _ h1
        · exact valOk_chunksOk env O _ _ h1
    | _ => simp [valOk] at h
  | .bool _, _, _ => rfl
  | .int _, _, _ => rfl
  | .uint _, _, _ => rfl
  | .f32 _, _, _ => rfl
  | .f64 _, _, _ => rfl
  | .str _, _, _ => rfl
  | .bytes _, _, _ => rfl
  | .enum _, _, _ => rfl
  | .ts _ _, _, _ => rfl
  | .date _ _ _, _, _ => rfl
  | .dec _, _, _ => rfl
termination_by v => sizeOf v

theorem fieldsOk_chunksOk (env : Env) (O : Oracle) : (fs : Fields) → (props : List PropDef) →
    fieldsOk env O props fs = true → chunksOkFields O fs = true
  | [], _, _ => rfl
  | (k, v) :: rest, props, h => by
    rw [fieldsOk_cons] at h
    simp only [Bool.and_eq_true] at h
    simp only [chunksOkFields, Bool.and_eq_true]
    refine ⟨?_, fieldsOk_chunksOk env O rest props h.2⟩
    have h1 := h.1
    split at h1
    · next p _ =>
      simp only [Bool.and_eq_true] at h1
      exact valOk_chunksOk env O v p.field h1.1
    · cases v with
      | msg sub =>
        simp only [Bool.and_eq_true] at h1
        simp only [PVal.chunksOk]
        exact fieldsOk_chunksOk env O sub _ h1.2
      | _ => cases h1
termination_by fs => sizeOf fs

theorem listOk_chunksOk (env : Env) (O : Oracle) : (xs : List PVal) → (item : Field) →
    listOk env O item xs = true → chunksOkList O xs = true
  | [], _, _ => rfl
  | x :: rest, item, h => by
    simp only [listOk, Bool.and_eq_true] at h
    simp only [chunksOkList, Bool.and_eq_true]
    exact ⟨valOk_chunksOk env O x item h.1, listOk_chunksOk env O rest item h.2⟩
termination_by xs => sizeOf xs

theorem mapOk_chunksOk (env : Env) (O : Oracle) : (kvs : List (Bytes × PVal)) → (item : Field) →
    (seen : List Bytes) → mapOk env O item seen kvs = true → chunksOkMap O kvs = true
  | [], _, _, _ => rfl
  | (k, v) :: rest, item, seen, h => by
    simp only [mapOk, Bool.and_eq_true] at h
    simp only [chunksOkMap, Bool.and_eq_true]
    exact ⟨valOk_chunksOk env O v item h.1.2, mapOk_chunksOk env O rest item _ h.2⟩
termination_by kvs => sizeOf kvs
end

/-- `Codec.ProtoToJSON` output parses with the strict reader — for ANY message of an environment
without `Any`, and for any message of any environment whose stored `j5_json` chunks are recognised -/
theorem encodeBytes_parses' (env : Env) (O : Oracle) (hO : FloatTextOk O)
    (root : String) (v : PVal) (bs : Bytes)
    (hg : env.noAny = true ∨ (ChunkLaws O ∧ v.chunksOk O = true))
    (h : encodeBytes env O root v = .ok bs) :
    ∃ t, encodeTree env O root v = .ok t ∧ bs = t.render ∧ parse bs = some t := by
  unfold encodeBytes at h
  cases ht : encodeTree env O root v with
  | err e => simp [ht] at h
  | panic w => simp [ht] at h
  | ok t =>
    simp only [ht] at h; cases h
    exact ⟨t, rfl, rfl, parse_render t (encodeTree_enc' env O hO root v t hg ht)⟩

/-- the codec `c` can decode the `Any` values of the message `m` (per VALUE, see `modeOk`): every
j5 `Any` in `m` needs `c` without `WithProtoToAny`; every protobuf `Any` needs `WithProtoToAny`,
fewer than `maxAnyDepth` enclosing `Any` values (counting `c.anyDepth`) and a message nested at
most 1664 deep (the fuel of the encoder model, an upper bound of the nesting depth of the encoding,
must stay within the 10000 levels of `encoding/json`). A message without `Any` values satisfies it
for every codec. -/
def Cfg.canDecode (c : Cfg) (m : Fields) : Prop :=
  modeOkF c.protoToAny (6 * (depthFields m + 1) + 9) c.anyDepth m = true

instance (c : Cfg) (m : Fields) : Decidable (c.canDecode m) := by
  unfold Cfg.canDecode; infer_instance

/-- **byte-level round trip with progress**: `Codec.ProtoToJSON` succeeds on every representable
message of a flat environment (j5 `Any` included, codec without `WithProtoToAny`) and
`Codec.JSONToProto` maps the bytes back to exactly that message -/
theorem roundtrip_bytes (c : Cfg) (hs : c.env.flat = true) (L : OracleLaws c.O)
    (hC : c.env.noAny = true ∨ ChunkLaws c.O)
    (root : String)
    (m : Fields)
    (hok : valOk c.env c.O (.object root) (.msg m) = true ∨ valOk c.env c.O (.oneof root) (.msg m) = true)
    (hM : modeOkF c.protoToAny (6 * (depthFields m + 1) + 9) c.anyDepth m = true) :
    ∃ bs, encodeBytes c.env c.O root (.msg m) = .ok bs ∧ decodeBytes c root bs = .ok m := by
  obtain ⟨t, ht, hdec⟩ := roundtrip_tree_flat c hs L root m hok hM
  refine ⟨t.render, by simp [encodeBytes, ht], ?_⟩
  unfold decodeBytes
  have hch : (PVal.msg m).chunksOk c.O = true := by
    rcases hok with hok | hok
    · exact valOk_chunksOk _ _ _ _ hok
    · exact valOk_chunksOk _ _ _ _ hok
  rw [readDoc_render t (encodeTree_enc' c.env c.O (floatTextOk_of_laws c.O L)
    root (.msg m) t (hC.elim Or.inl (fun h => Or.inr ⟨h, hch⟩)) ht)]
  exact hdec

/-- the shape of an encoded `Any` -/
theorem any_shape (env : Env) (O : Oracle) (f : Nat) (pb : Bool) (v : PVal) (t : PTree)
    (h : encValue env O f (.any pb) v = .ok t) :
    ∃ tn l1 l2 l3 data, Wire.anyTypeName v = some tn ∧
      t = .obj (.cons (ascii "!type") l1 (.str tn l2) (.cons (ascii "value") l3 data (.nil .closed))) := by
  cases f with
  | zero => simp [encValue] at h
  | succ f =>
    simp only [encValue] at h
    cases v <;> simp only [] at h <;> try (cases h)
    case anyJ5 tn proto j5 ik iroot inner =>
      split at h
      · next data hdata =>
        split at h
        · next typeLit tnNode valueLit h1 h2 h3 =>
          cases h
          unfold strNode at h2
          cases ha : appendString tn with
          | ok lit => simp only [ha] at h2; cases h2; exact ⟨tn, _, _, _, _, rfl, rfl⟩
          | err e => simp [ha] at h2
          | panic w => simp [ha] at h2
        all_goals cases h
      · cases h
      · cases h
    case anyPb url val ik iroot inner =>
      split at h
      · next data hdata =>
        split at h
        · next typeLit tnNode valueLit h1 h2 h3 =>
          cases h
          unfold strNode at h2
          cases ha : appendString (trimPrefix url anyPrefix) with
          | ok lit => simp only [ha] at h2; cases h2; exact ⟨_, _, _, _, _, rfl, rfl⟩
          | err e => simp [ha] at h2
          | panic w => simp [ha] at h2
        all_goals cases h
      · cases h
      · cases h

end J5V.Codec
