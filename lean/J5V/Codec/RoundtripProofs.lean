import J5V.Codec.ScalarProofs
import J5V.Codec.StoreProofs
import J5V.Codec.Conform
import J5V.Codec.Encode
import J5V.Json.EscapeProofs
/-!
# Structure-level round trip: `decode (encode m) = m` on JSON trees (C01)
-/
namespace J5V.Codec
open J5V.Go J5V.Json

/-! ## nodes -/

theorem strNode_ok (s : Bytes) (h : isValidUtf8 s = true) : ∃ lit, strNode s = .ok (.str s lit) := by
  obtain ⟨lit, hl⟩ := (appendString_total s).2.1 h
  exact ⟨lit, by simp [strNode, hl]⟩

theorem goTok_bareNode (t : Bytes) : goTok (bareNode t) = some (scalarTok (.bare t)) := by
  unfold bareNode scalarTok
  have hne : ascii "false" ≠ ascii "true" := by decide
  by_cases h1 : t = ascii "true"
  · simp [h1, goTok]
  · by_cases h2 : t = ascii "false"
    · subst h2; simp [hne, goTok]
    · simp [h1, h2, goTok]

/-- a node a scalar decoder accepts: string, number or bool -/
def isScalarNode : PTree → Bool
  | .str _ _ | .num _ | .bool _ => true
  | _ => false

theorem isScalarNode_bareNode (t : Bytes) : isScalarNode (bareNode t) = true := by
  unfold bareNode; split
  · rfl
  · split <;> rfl

/-- the text of every quoted scalar is valid UTF-8 -/
theorem quoted_valid (O : Oracle) (L : OracleLaws O) (k : ScalarKind) (v : PVal) (s : Bytes)
    (hok : scalarOk O k v = true) (he : encodeScalar O k v = .ok (.quoted s)) :
    isValidUtf8 s = true := by
  unfold scalarOk at hok
  simp only [Bool.and_eq_true] at hok
  obtain ⟨hr, hx⟩ := hok
  cases k <;> cases v <;> simp only [scalarRepr, Bool.false_eq_true] at hr <;>
    simp only [encodeScalar] at he
  case string.str s' => cases he; exact hx
  case key.str s' => cases he; exact hx
  case bool.bool b => cases he
  case int32.int i => cases he
  case uint32.uint n => cases he
  case int64.int i => cases he; exact isValidUtf8_ascii _ (fmtInt_ascii i)
  case uint64.uint n => cases he; exact isValidUtf8_ascii _ (fmtNat_ascii n)
  case float32.f32 b => rw [finite32_exp b hr, nonFinite_finite] at he; cases he
  case float64.f64 b => rw [finite64_exp b hr, nonFinite_finite] at he; cases he
  case bytes.bytes b => cases he; exact isValidUtf8_ascii _ (b64Encode_ascii b)
  case timestamp.ts s' n => cases he; exact L.timeUtf8 s' n hr
  case date.date y m d => cases he; exact isValidUtf8_ascii _ (dateString_ascii y m d)
  case decimal.dec s' =>
    cases he
    simp only [Bool.and_eq_true] at hx
    exact hx.2

theorem canonScalar_ok (O : Oracle) (k : ScalarKind) (v : PVal) (hok : scalarOk O k v = true) :
    canonScalar O v = v := by
  unfold scalarOk at hok
  simp only [Bool.and_eq_true] at hok
  obtain ⟨hr, hx⟩ := hok
  cases v <;> try rfl
  case dec s =>
    cases k <;> simp only [scalarRepr, Bool.false_eq_true] at hr
    simp only [Bool.and_eq_true, beq_iff_eq] at hx
    simp [canonScalar, hx.1]

/-- the scalar node round trip: what `encodeScalarField` writes is a scalar node whose token
`scalarReflectFromGo` maps back to the value -/
theorem scalarNode_roundtrip (O : Oracle) (L : OracleLaws O) (k : ScalarKind) (v : PVal)
    (hok : scalarOk O k v = true) :
    ∃ t tok, scalarNode O k v = .ok t ∧ isScalarNode t = true ∧ goTok t = some tok ∧
      decodeScalar O k tok = .ok (some v) := by
  have hr : scalarRepr O k v = true := by
    unfold scalarOk at hok; simp only [Bool.and_eq_true] at hok; exact hok.1
  obtain ⟨out, he, hd⟩ := scalar_roundtrip O L k v hr
  rw [canonScalar_ok O k v hok] at hd
  cases out with
  | quoted s =>
    obtain ⟨lit, hl⟩ := strNode_ok s (quoted_valid O L k v s hok he)
    exact ⟨.str s lit, .str s, by simp [scalarNode, he, hl], rfl, rfl, hd⟩
  | bare t =>
    exact ⟨bareNode t, _, by simp [scalarNode, he], isScalarNode_bareNode t, goTok_bareNode t, hd⟩

end J5V.Codec

namespace J5V.Codec
open J5V.Go J5V.Json

/-- `t` is the encoding of `v` for field schema `fld`, as far as the three decoding contexts
(property value, array element, map value) are concerned -/
structure Dec (c : Cfg) (fld : Field) (v : PVal) (t : PTree) : Prop where
  prop : ∀ (props : List PropDef) (p : PropDef) (st : PS),
      p.field = fld → p.path ≠ [] → p.jsonName ∉ st.seen → getPath st.m p.path = none →
      groupBusy props p st.m = false →
      decProp c props p t st =
        .ok { m := updPath props p (some v) st.m, seen := p.jsonName :: st.seen }
  elem : itemSimple fld = true → ∀ rest acc,
      decElems c fld (.cons t rest) acc = decElems c fld rest (acc ++ [v])
  mapv : itemSimple fld = true → ∀ key kraw rest acc, mget key acc = none →
      decMapMembers c fld (.cons key kraw t rest) acc = decMapMembers c fld rest (mset key v acc)

theorem createField_fresh (props : List PropDef) (p : PropDef) (st : PS) (h : p.jsonName ∉ st.seen)
    (hgb : groupBusy props p st.m = false) :
    createField props p st = .ok { st with seen := p.jsonName :: st.seen } := by
  unfold createField; simp [h, hgb]

theorem groupBusy_none (props : List PropDef) (p : PropDef) (m : Fields) (h : p.group = none) :
    groupBusy props p m = false := by
  unfold groupBusy; rw [h]

theorem groupBusy_nil (props : List PropDef) (p : PropDef) (k : Nat) (hp : p.path = [k]) :
    groupBusy props p [] = false := by
  unfold groupBusy
  split
  · simp only [hp, List.dropLast_singleton, msgAt, List.any_eq_false]
    intro q _
    split <;> simp [aget]
  · rfl

theorem Dec_scalar (c : Cfg) (L : OracleLaws c.O) (k : ScalarKind) (v : PVal) (t : PTree)
    (hok : scalarOk c.O k v = true) (ht : scalarNode c.O k v = .ok t) : Dec c (.scalar k) v t := by
  obtain ⟨t', tok, ht', hsn, hgt, hdec⟩ := scalarNode_roundtrip c.O L k v hok
  rw [ht] at ht'; cases ht'
  refine ⟨?_, ?_, ?_⟩
  · intro props p st hf hp hs hg hgb
    unfold decProp; rw [hf]; simp only []
    unfold decScalarProp
    have hne : p.path.isEmpty = false := by cases hpp : p.path with | nil => exact absurd hpp hp | cons a b => rfl
    cases t <;> simp only [isScalarNode, Bool.false_eq_true] at hsn <;>
      simp [createField_fresh props p st hs hgb, Outcome.bind, hne, hgt, hdec]
  · intro _ rest acc
    conv => lhs; unfold decElems
    simp [hgt, hdec]
  · intro _ key kraw rest acc hm
    conv => lhs; unfold decMapMembers
    simp [hgt, hdec, hm]

end J5V.Codec

namespace J5V.Codec
open J5V.Go J5V.Json

theorem find_unique {β γ : Type} [BEq γ] [LawfulBEq γ] (f : β → γ) :
    ∀ (l : List β), (l.map f).Nodup → ∀ x ∈ l, l.find? (fun y => f y == f x) = some x := by
  intro l
  induction l with
  | nil => intro _ x hx; cases hx
  | cons a t ih =>
    intro hnd x hx
    simp only [List.map_cons, List.nodup_cons] at hnd
    rcases List.mem_cons.mp hx with rfl | hx'
    · simp
    · have hne : f a ≠ f x := by
        intro e; exact hnd.1 (e ▸ List.mem_map.mpr ⟨x, hx', rfl⟩)
      rw [List.find?_cons]
      have : (f a == f x) = false := by simpa using hne
      rw [this]
      exact ih hnd.2 x hx'

theorem findProp_self (props : List PropDef) (hnd : (props.map (·.jsonName)).Nodup) (p : PropDef)
    (hp : p ∈ props) : findProp props p.jsonName = some p := by
  unfold findProp
  have hnd' : (props.reverse.map (·.jsonName)).Nodup := by
    rw [List.map_reverse]
    unfold List.Nodup at *
    rw [List.pairwise_reverse]
    exact hnd.imp (fun hab => Ne.symm hab)
  exact find_unique (·.jsonName) props.reverse hnd' p (List.mem_reverse.mpr hp)

theorem findPath_self (props : List PropDef) (hnd : (props.map (·.path)).Nodup) (p : PropDef)
    (hp : p ∈ props) : props.find? (fun q => q.path == p.path) = some p :=
  find_unique (·.path) props hnd p hp

/-- `OptionByNumber` followed by `enumOptionByName` is the identity on defined numbers -/
theorem enum_roundtrip (pfx : Bytes) (opts : List (Bytes × Int)) (hnd : (opts.map (·.1)).Nodup)
    (n : Int) (name : Bytes) (h : optionByNumber opts n = some name) :
    enumOptionByName pfx opts name = some n := by
  unfold optionByNumber at h
  cases hf : opts.find? (fun o => o.2 == n) with
  | none => simp [hf] at h
  | some o =>
    simp only [hf, Option.map_some, Option.some.injEq] at h
    have hm := List.mem_of_find?_eq_some hf
    have hn : o.2 = n := by simpa using List.find?_some hf
    have := find_unique (·.1) opts hnd o hm
    unfold enumOptionByName
    rw [← h, this]
    simp only [hn]

end J5V.Codec

namespace J5V.Codec
open J5V.Go J5V.Json

/-! ## environment facts -/

theorem find_mem (env : Env) (name : String) (r : Root) (hf : env.find name = some r) :
    ∃ d ∈ env.defs, d.2 = r := by
  unfold Env.find at hf
  cases hd : env.defs.find? (fun d => d.1 == name) with
  | none => simp [hd] at hf
  | some d =>
    simp only [hd, Option.map_some, Option.some.injEq] at hf
    exact ⟨d, List.mem_of_find?_eq_some hd, hf⟩

theorem find_rootSimple (env : Env) (h : env.simple = true) (name : String) (r : Root)
    (hf : env.find name = some r) : rootSimple r = true := by
  obtain ⟨d, hm, rfl⟩ := find_mem env name r hf
  unfold Env.simple at h
  simp only [Bool.and_eq_true] at h
  exact List.all_eq_true.mp h.1 d hm

theorem find_names_utf8 (env : Env) (h : env.simple = true) (name : String) (ps : List PropDef)
    (hf : env.find name = some (.object ps) ∨ env.find name = some (.oneof ps)) :
    ∀ p ∈ ps, isValidUtf8 p.jsonName = true := by
  unfold Env.simple at h
  simp only [Bool.and_eq_true] at h
  rcases hf with hf | hf
  · obtain ⟨d, hm, hd⟩ := find_mem env name _ hf
    have := List.all_eq_true.mp h.2 d hm
    rw [hd] at this
    exact fun p hp => List.all_eq_true.mp this p hp
  · obtain ⟨d, hm, hd⟩ := find_mem env name _ hf
    have := List.all_eq_true.mp h.2 d hm
    rw [hd] at this
    exact fun p hp => List.all_eq_true.mp this p hp

/-! ## enums -/

theorem Dec_enum (c : Cfg) (ref : String) (pfx : Bytes) (opts : List (Bytes × Int)) (n : Int)
    (name lit : Bytes) (hfind : c.env.find ref = some (.enum pfx opts))
    (hlook : enumOptionByName pfx opts name = some n) :
    Dec c (.enum ref) (.enum n) (.str name lit) := by
  refine ⟨?_, ?_, ?_⟩
  · intro props p st hf hp hs hg hgb
    unfold decProp; rw [hf]; simp only []
    unfold decEnumProp
    have hne : p.path.isEmpty = false := by cases hpp : p.path with | nil => exact absurd hpp hp | cons a b => rfl
    simp [createField_fresh props p st hs hgb, Outcome.bind, hne, hfind, hlook]
  · intro _ rest acc
    conv => lhs; unfold decElems
    simp [hfind, hlook]
  · intro _ key kraw rest acc hm
    conv => lhs; unfold decMapMembers
    simp [hfind, hlook, hm]

/-! ## objects and oneofs, given the member loops -/

theorem subStart_fresh (p : PropDef) (st1 : PS) (hg : getPath st1.m p.path = none) :
    subStart p st1 = { m := [], seen := [] } := by
  unfold subStart; rw [hg]; rfl

theorem oneofStart_fresh (p : PropDef) (st1 : PS) (hp : p.path.isEmpty = false)
    (hg : getPath st1.m p.path = none) :
    oneofStart p st1 = { m := [], seen := [] } := by
  unfold oneofStart; rw [hp, hg]; rfl

theorem Dec_object (c : Cfg) (ref : String) (sub : List PropDef) (fs : Fields) (ms : PMembers)
    (S : List Bytes) (hfind : c.env.find ref = some (.object sub))
    (hdec : decObjMembers c sub ms { m := [], seen := [] } = .ok ({ m := fs, seen := S }, .closed)) :
    Dec c (.object ref) (.msg fs) (.obj ms) := by
  refine ⟨?_, ?_, ?_⟩
  · intro props p st hf hp hs hg hgb
    unfold decProp; rw [hf]; simp only []
    have hne : p.path.isEmpty = false := by cases hpp : p.path with | nil => exact absurd hpp hp | cons a b => rfl
    simp only [createField_fresh props p st hs hgb, Outcome.bind, hne, hfind]
    rw [subStart_fresh p { m := st.m, seen := p.jsonName :: st.seen } hg, hdec]
    simp [finishObjectProp, Outcome.bind, closeOk]
  · intro _ rest acc
    conv => lhs; unfold decElems
    simp [hfind, decObject, hdec, finishObject, closeOk]
  · intro _ key kraw rest acc hm
    conv => lhs; unfold decMapMembers
    simp [hfind, decObject, hdec, finishObject, closeOk, hm]

theorem Dec_oneof (c : Cfg) (ref : String) (ops : List PropDef) (fs : Fields) (ms : PMembers)
    (st' : PS) (found : List Bytes) (ct : Option Bytes)
    (hfind : c.env.find ref = some (.oneof ops))
    (hdec : decOneofMembers c ops ms { m := [], seen := [] } [] none = .ok (st', found, ct, .closed))
    (hm : st'.m = fs) (hpost : oneofPost ops found ct fs = .ok none) :
    Dec c (.oneof ref) (.msg fs) (.obj ms) := by
  refine ⟨?_, ?_, ?_⟩
  · intro props p st hf hp hs hg hgb
    unfold decProp; rw [hf]; simp only []
    have hne : p.path.isEmpty = false := by cases hpp : p.path with | nil => exact absurd hpp hp | cons a b => rfl
    simp only [createField_fresh props p st hs hgb, Outcome.bind, hfind]
    rw [oneofStart_fresh p { m := st.m, seen := p.jsonName :: st.seen } hne hg, hdec]
    simp [finishOneofProp, Outcome.bind, closeOk, hpost, applyPost, hne, hm]
  · intro _ rest acc
    conv => lhs; unfold decElems
    simp [hfind, decOneof, hdec, finishOneof, closeOk, hpost, applyPost, hm]
  · intro _ key kraw rest acc hmg
    conv => lhs; unfold decMapMembers
    simp [hfind, decOneof, hdec, finishOneof, closeOk, hpost, applyPost, hm, hmg]

end J5V.Codec

namespace J5V.Codec
open J5V.Go J5V.Json

/-! ## arrays -/

def elemsOf : List PTree → PElems
  | [] => .nil .closed
  | t :: ts => .cons t (elemsOf ts)

/-- `g` maps the elements of `xs` to the trees `ts`, position by position -/
def AllEnc {α : Type} (g : α → Outcome PTree) : List α → List PTree → Prop
  | [], [] => True
  | x :: xs, t :: ts => g x = .ok t ∧ AllEnc g xs ts
  | _, _ => False

theorem foldr_consElem_inv {α : Type} (g : α → Outcome PTree) :
    ∀ (xs : List α) (es : PElems),
      xs.foldr (fun x acc => consElem (g x) acc) (.ok (.nil .closed)) = .ok es →
      ∃ ts, AllEnc g xs ts ∧ es = elemsOf ts := by
  intro xs
  induction xs with
  | nil => intro es h; simp only [List.foldr_nil] at h; cases h; exact ⟨[], trivial, rfl⟩
  | cons x xs ih =>
    intro es h
    simp only [List.foldr_cons] at h
    generalize hr : xs.foldr (fun x acc => consElem (g x) acc) (.ok (.nil .closed)) = r at h
    cases hg : g x with
    | err e => simp [consElem, hg] at h
    | panic w => simp [consElem, hg] at h
    | ok t =>
      cases r with
      | err e => simp [consElem, hg] at h
      | panic w => simp [consElem, hg] at h
      | ok es' =>
        simp only [consElem, hg] at h
        cases h
        obtain ⟨ts, hts, rfl⟩ := ih es' hr
        exact ⟨t :: ts, ⟨hg, hts⟩, rfl⟩

theorem decElems_all (c : Cfg) (item : Field) (hi : itemSimple item = true) (g : PVal → Outcome PTree) :
    ∀ (xs : List PVal) (ts : List PTree) (acc : List PVal),
      (∀ x ∈ xs, ∀ t, g x = .ok t → Dec c item x t) → AllEnc g xs ts →
      decElems c item (elemsOf ts) acc = .ok (acc ++ xs, .closed) := by
  intro xs
  induction xs with
  | nil =>
    intro ts acc _ h
    cases ts with
    | nil => simp [elemsOf, decElems]
    | cons t ts => exact absurd h (by simp [AllEnc])
  | cons x xs ih =>
    intro ts acc hdec h
    cases ts with
    | nil => exact absurd h (by simp [AllEnc])
    | cons t ts =>
      obtain ⟨hx, hrest⟩ := h
      simp only [elemsOf]
      rw [(hdec x List.mem_cons_self t hx).elem hi,
        ih ts _ (fun y hy => hdec y (List.mem_cons_of_mem _ hy)) hrest]
      simp

theorem itemCheck_simple (item : Field) (hi : itemSimple item = true) : itemCheck item = .ok () := by
  cases item <;> simp [itemSimple] at hi <;> rfl

theorem listStart_fresh (p : PropDef) (st1 : PS) (hg : getPath st1.m p.path = none) :
    listStart p st1 = [] := by
  unfold listStart; rw [hg]

theorem mapStart_fresh (p : PropDef) (st1 : PS) (hg : getPath st1.m p.path = none) :
    mapStart p st1 = [] := by
  unfold mapStart; rw [hg]

theorem Dec_array (c : Cfg) (item : Field) (hi : itemSimple item = true) (xs : List PVal)
    (ts : List PTree)
    (hdec : decElems c item (elemsOf ts) [] = .ok (xs, .closed)) :
    Dec c (.array item) (.list xs) (.arr (elemsOf ts)) := by
  refine ⟨?_, by intro h; simp [itemSimple] at h, by intro h; simp [itemSimple] at h⟩
  intro props p st hf hp hs hg hgb
  unfold decProp; rw [hf]; simp only []
  have hne : p.path.isEmpty = false := by cases hpp : p.path with | nil => exact absurd hpp hp | cons a b => rfl
  simp only [createField_fresh props p st hs hgb, Outcome.bind, hne, itemCheck_simple item hi]
  rw [listStart_fresh p { m := st.m, seen := p.jsonName :: st.seen } hg, hdec]
  simp [finishArrayProp, Outcome.bind, closeOk]

/-! ## maps -/

def membersOf : List (Bytes × Bytes × PTree) → PMembers
  | [] => .nil .closed
  | (k, kr, t) :: rest => .cons k kr t (membersOf rest)

/-- the entries of a map and their encodings, position by position -/
def AllEncMap (g : PVal → Outcome PTree) : List (Bytes × PVal) → List (Bytes × Bytes × PTree) → Prop
  | [], [] => True
  | (k, v) :: kvs, (k', lit, t) :: es =>
    k' = k ∧ appendString k = .ok lit ∧ g v = .ok t ∧ AllEncMap g kvs es
  | _, _ => False

theorem member_ok_inv (name : Bytes) (v : Outcome PTree) (r : Option (Bytes × Bytes × PTree))
    (h : member name v = .ok r) : ∃ lit t, appendString name = .ok lit ∧ v = .ok t ∧ r = some (name, lit, t) := by
  unfold member at h
  cases ha : appendString name with
  | err e => simp [ha] at h
  | panic w => simp [ha] at h
  | ok lit =>
    cases v with
    | err e => simp [ha] at h
    | panic w => simp [ha] at h
    | ok t => simp only [ha] at h; cases h; exact ⟨lit, t, rfl, rfl, rfl⟩

theorem foldr_consMember_map_inv (g : PVal → Outcome PTree) :
    ∀ (kvs : List (Bytes × PVal)) (ms : PMembers),
      kvs.foldr (fun kv acc => consMember (member kv.1 (g kv.2)) acc) (.ok (.nil .closed)) = .ok ms →
      ∃ es, AllEncMap g kvs es ∧ ms = membersOf es := by
  intro kvs
  induction kvs with
  | nil => intro ms h; simp only [List.foldr_nil] at h; cases h; exact ⟨[], trivial, rfl⟩
  | cons kv kvs ih =>
    intro ms h
    obtain ⟨k, v⟩ := kv
    simp only [List.foldr_cons] at h
    generalize hr : kvs.foldr (fun kv acc => consMember (member kv.1 (g kv.2)) acc)
      (.ok (.nil .closed)) = r at h
    cases hm : member k (g v) with
    | err e => simp [consMember, hm] at h
    | panic w => simp [consMember, hm] at h
    | ok r' =>
      obtain ⟨lit, t, ha, hg, rfl⟩ := member_ok_inv k (g v) r' hm
      cases r with
      | err e => simp [consMember, hm] at h
      | panic w => simp [consMember, hm] at h
      | ok ms' =>
        simp only [consMember, hm] at h
        cases h
        obtain ⟨es, hes, rfl⟩ := ih ms' hr
        exact ⟨(k, lit, t) :: es, ⟨rfl, ha, hg, hes⟩, rfl⟩

theorem mset_append {α : Type} (k : Bytes) (v : α) (acc : List (Bytes × α)) (h : mget k acc = none) :
    mset k v acc = acc ++ [(k, v)] := by
  induction acc with
  | nil => rfl
  | cons kv t ih =>
    obtain ⟨k', v'⟩ := kv
    simp only [mget] at h
    by_cases hk : k = k'
    · simp [hk] at h
    · rw [if_neg hk] at h
      simp [mset, hk, ih h]

theorem mget_append_ne {α : Type} (k k' : Bytes) (v : α) (acc : List (Bytes × α)) (hne : k ≠ k')
    (h : mget k acc = none) : mget k (acc ++ [(k', v)]) = none := by
  induction acc with
  | nil => simp [mget, hne]
  | cons kv t ih =>
    obtain ⟨k2, v2⟩ := kv
    simp only [mget] at h
    by_cases hk : k = k2
    · simp [hk] at h
    · rw [if_neg hk] at h
      simp [mget, hk, ih h]

/-- keys of the remaining entries are distinct and not among `seen` -/
theorem mapOk_cons (env : Env) (O : Oracle) (item : Field) (seen : List Bytes) (k : Bytes) (v : PVal)
    (rest : List (Bytes × PVal)) (h : mapOk env O item seen ((k, v) :: rest) = true) :
    k ∉ seen ∧ isValidUtf8 k = true ∧ valOk env O item v = true ∧ mapOk env O item (k :: seen) rest = true := by
  simp only [mapOk, Bool.and_eq_true, Bool.not_eq_true'] at h
  exact ⟨by simpa using h.1.1.1, h.1.1.2, h.1.2, h.2⟩

theorem decMapMembers_all (c : Cfg) (item : Field) (hi : itemSimple item = true)
    (g : PVal → Outcome PTree) :
    ∀ (kvs : List (Bytes × PVal)) (es : List (Bytes × Bytes × PTree)) (acc : List (Bytes × PVal))
      (seen : List Bytes),
      (∀ kv ∈ kvs, ∀ t, valOk c.env c.O item kv.2 = true → g kv.2 = .ok t → Dec c item kv.2 t) →
      AllEncMap g kvs es → mapOk c.env c.O item seen kvs = true →
      (∀ k, k ∉ seen → mget k acc = none) →
      decMapMembers c item (membersOf es) acc = .ok (acc ++ kvs, .closed) := by
  intro kvs
  induction kvs with
  | nil =>
    intro es acc seen _ h _ _
    cases es with
    | nil => simp [membersOf, decMapMembers]
    | cons e es => obtain ⟨a, b, c'⟩ := e; exact absurd h (by simp [AllEncMap])
  | cons kv kvs ih =>
    intro es acc seen hdec h hok hacc
    obtain ⟨k, v⟩ := kv
    cases es with
    | nil => exact absurd h (by simp [AllEncMap])
    | cons e es =>
      obtain ⟨k', lit, t⟩ := e
      obtain ⟨rfl, _, hg, hrest⟩ := h
      obtain ⟨hks, _, hvok, hok'⟩ := mapOk_cons _ _ _ _ _ _ _ hok
      have hm : mget k' acc = none := hacc k' hks
      simp only [membersOf]
      rw [(hdec (k', v) List.mem_cons_self t hvok hg).mapv hi k' lit _ acc hm, mset_append k' v acc hm,
        ih es _ (k' :: seen) (fun kv hkv => hdec kv (List.mem_cons_of_mem _ hkv)) hrest hok']
      · simp
      · intro k2 hk2
        simp only [List.mem_cons, not_or] at hk2
        exact mget_append_ne k2 k' v acc hk2.1 (hacc k2 hk2.2)

theorem Dec_map (c : Cfg) (item : Field) (hi : itemSimple item = true) (kvs : List (Bytes × PVal))
    (es : List (Bytes × Bytes × PTree))
    (hdec : decMapMembers c item (membersOf es) [] = .ok (kvs, .closed)) :
    Dec c (.map item) (.map kvs) (.obj (membersOf es)) := by
  refine ⟨?_, by intro h; simp [itemSimple] at h, by intro h; simp [itemSimple] at h⟩
  intro props p st hf hp hs hg hgb
  unfold decProp; rw [hf]; simp only []
  have hne : p.path.isEmpty = false := by cases hpp : p.path with | nil => exact absurd hpp hp | cons a b => rfl
  simp only [createField_fresh props p st hs hgb, Outcome.bind, hne, itemCheck_simple item hi]
  rw [mapStart_fresh p { m := st.m, seen := p.jsonName :: st.seen } hg, hdec]
  simp [finishMapProp, Outcome.bind, closeOk]

end J5V.Codec

namespace J5V.Codec
open J5V.Go J5V.Json

/-! ## single-element proto paths -/

theorem clearGroup_none (props : List PropDef) (pfx : List Nat) (k : Nat) (m : Fields) :
    clearGroup props pfx none k m = m := rfl

theorem updPath_single (props : List PropDef) (p : PropDef) (k : Nat) (v : PVal) (m : Fields)
    (hp : p.path = [k]) :
    updPath props p (some v) m = setLeaf p.pres k v (clearGroup props [] p.group k m) := by
  unfold updPath; rw [hp]; rfl

theorem valOk_not_emptyColl (env : Env) (O : Oracle) (fld : Field) (v : PVal)
    (h : valOk env O fld v = true) : v.isEmptyColl = false := by
  cases v <;> try rfl
  case list xs =>
    cases fld <;> simp only [valOk, Bool.false_eq_true] at h
    simp only [Bool.and_eq_true, Bool.not_eq_true'] at h
    simpa [PVal.isEmptyColl] using h.1
  case map kvs =>
    cases fld <;> simp only [valOk, Bool.false_eq_true] at h
    simp only [Bool.and_eq_true, Bool.not_eq_true'] at h
    simpa [PVal.isEmptyColl] using h.1

theorem setLeaf_store (pres : Pres) (k : Nat) (v : PVal) (m : Fields)
    (h1 : (pres == .imp && v.isZero) = false) (h2 : v.isEmptyColl = false) :
    setLeaf pres k v m = aset k v m := by
  unfold setLeaf; simp [h1, h2]

theorem encField_single (env : Env) (O : Oracle) (f : Nat) (p : PropDef) (k : Nat) (m : Fields)
    (hp : p.path = [k]) :
    encField env O (f + 1) p m =
      match aget k m with
      | none => .ok none
      | some v =>
        match encValue env O f p.field v with
        | .ok t => .ok (some t)
        | .err e => .err e
        | .panic w => .panic w := by
  rw [encField]
  rw [hp]
  simp only [getPath]
  cases aget k m <;> rfl

theorem hasProp_single (env : Env) (f : Nat) (p : PropDef) (k : Nat) (m : Fields) (hp : p.path = [k]) :
    hasProp env (f + 1) p m = (aget k m).isSome := by
  rw [hasProp, hp]; simp [getPath]

theorem filterKeys_cons_absent {α : Type} (S : List Nat) (m : List (Nat × α)) (k : Nat)
    (h : aget k m = none) : filterKeys (k :: S) m = filterKeys S m := by
  unfold filterKeys
  apply List.filter_congr
  intro kv hkv
  have hne : kv.1 ≠ k := by
    intro e
    have hm : k ∈ akeys m := e ▸ List.mem_map.mpr ⟨kv, hkv, rfl⟩
    -- a key of the store has a value
    clear hkv e
    induction m with
    | nil => simp [akeys] at hm
    | cons a t ih =>
      obtain ⟨k', v'⟩ := a
      simp only [aget] at h
      by_cases hk : k = k'
      · simp [hk] at h
      · rw [if_neg hk] at h
        simp only [akeys, List.map_cons, List.mem_cons] at hm
        rcases hm with hm | hm
        · exact hk hm
        · exact ih h hm
  simp [hne]

theorem aget_filterKeys_absent {α : Type} (S : List Nat) (m : List (Nat × α)) (k : Nat) (h : k ∉ S) :
    aget k (filterKeys S m) = none := by
  apply aget_none_of_not_mem
  intro hm
  exact h (akeys_filterKeys_subset S m k hm).1

end J5V.Codec

namespace J5V.Codec
open J5V.Go J5V.Json

/-! ## the member loop of an object -/

/-- members written for a property list: each property contributes nothing or one member -/
def AllEncProps (g : PropDef → Outcome (Option (Bytes × Bytes × PTree))) :
    List PropDef → List (Bytes × Bytes × PTree) → Prop
  | [], es => es = []
  | p :: ps, es =>
    (g p = .ok none ∧ AllEncProps g ps es) ∨
    (∃ e es', es = e :: es' ∧ g p = .ok (some e) ∧ AllEncProps g ps es')

theorem foldr_consMember_inv (g : PropDef → Outcome (Option (Bytes × Bytes × PTree))) :
    ∀ (ps : List PropDef) (ms : PMembers),
      ps.foldr (fun p acc => consMember (g p) acc) (.ok (.nil .closed)) = .ok ms →
      ∃ es, AllEncProps g ps es ∧ ms = membersOf es := by
  intro ps
  induction ps with
  | nil => intro ms h; simp only [List.foldr_nil] at h; cases h; exact ⟨[], rfl, rfl⟩
  | cons p ps ih =>
    intro ms h
    simp only [List.foldr_cons] at h
    generalize hr : ps.foldr (fun p acc => consMember (g p) acc) (.ok (.nil .closed)) = r at h
    cases hg : g p with
    | err e => simp [consMember, hg] at h
    | panic w => simp [consMember, hg] at h
    | ok o =>
      cases o with
      | none =>
        simp only [consMember, hg] at h
        subst h
        obtain ⟨es, hes, rfl⟩ := ih ms hr
        exact ⟨es, Or.inl ⟨hg, hes⟩, rfl⟩
      | some e =>
        obtain ⟨k, kr, t⟩ := e
        cases r with
        | err e => simp [consMember, hg] at h
        | panic w => simp [consMember, hg] at h
        | ok ms' =>
          simp only [consMember, hg] at h
          cases h
          obtain ⟨es, hes, rfl⟩ := ih ms' hr
          exact ⟨(k, kr, t) :: es, Or.inr ⟨_, _, rfl, hg, hes⟩, rfl⟩

end J5V.Codec

namespace J5V.Codec
open J5V.Go J5V.Json

/-! ## inversion of `valOk` -/

theorem valOk_scalar (env : Env) (O : Oracle) (k : ScalarKind) (v : PVal)
    (h : valOk env O (.scalar k) v = true) : scalarOk O k v = true := by
  cases v <;> simp only [valOk, Bool.false_eq_true] at h <;> exact h

theorem valOk_enum (env : Env) (O : Oracle) (ref : String) (v : PVal)
    (h : valOk env O (.enum ref) v = true) :
    ∃ n pfx opts, v = .enum n ∧ env.find ref = some (.enum pfx opts) ∧
      (optionByNumber opts n).isSome = true := by
  cases v <;> simp only [valOk, Bool.false_eq_true] at h
  case enum n =>
    cases hf : env.find ref with
    | none => simp [hf] at h
    | some r =>
      cases r <;> simp only [hf, Bool.false_eq_true] at h
      case enum pfx opts => exact ⟨n, pfx, opts, rfl, rfl, h⟩
  all_goals (cases h)

theorem valOk_object (env : Env) (O : Oracle) (ref : String) (v : PVal)
    (h : valOk env O (.object ref) v = true) :
    ∃ fs props, v = .msg fs ∧ env.find ref = some (.object props) ∧ asorted fs = true ∧
      fieldsOk env O props fs = true ∧ groupsOk props fs = true ∧ exposedOk env props fs = true := by
  cases v <;> simp only [valOk, Bool.false_eq_true] at h
  case msg fs =>
    cases hf : env.find ref with
    | none => simp [hf] at h
    | some r =>
      cases r <;> simp only [hf, Bool.false_eq_true] at h
      case object props =>
        simp only [Bool.and_eq_true] at h
        exact ⟨fs, props, rfl, rfl, h.1.1.1, h.1.1.2, h.1.2, h.2⟩
  all_goals (cases h)

theorem valOk_oneof (env : Env) (O : Oracle) (ref : String) (v : PVal)
    (h : valOk env O (.oneof ref) v = true) :
    ∃ fs ops, v = .msg fs ∧ env.find ref = some (.oneof ops) ∧ asorted fs = true ∧
      fieldsOk env O ops fs = true ∧ fs.length ≤ 1 := by
  cases v <;> simp only [valOk, Bool.false_eq_true] at h
  case msg fs =>
    cases hf : env.find ref with
    | none => simp [hf] at h
    | some r =>
      cases r <;> simp only [hf, Bool.false_eq_true] at h
      case oneof ops =>
        simp only [Bool.and_eq_true, decide_eq_true_eq] at h
        exact ⟨fs, ops, rfl, rfl, h.1.1, h.1.2, h.2⟩
  all_goals (cases h)

theorem valOk_array (env : Env) (O : Oracle) (item : Field) (v : PVal)
    (h : valOk env O (.array item) v = true) :
    ∃ xs, v = .list xs ∧ listOk env O item xs = true := by
  cases v <;> simp only [valOk, Bool.false_eq_true] at h
  case list xs =>
    simp only [Bool.and_eq_true] at h
    exact ⟨xs, rfl, h.2⟩
  all_goals (cases h)

theorem valOk_map (env : Env) (O : Oracle) (item : Field) (v : PVal)
    (h : valOk env O (.map item) v = true) :
    ∃ kvs, v = .map kvs ∧ mapOk env O item [] kvs = true := by
  cases v <;> simp only [valOk, Bool.false_eq_true] at h
  case map kvs =>
    simp only [Bool.and_eq_true] at h
    exact ⟨kvs, rfl, h.2⟩
  all_goals (cases h)

theorem listOk_mem (env : Env) (O : Oracle) (item : Field) (xs : List PVal)
    (h : listOk env O item xs = true) : ∀ x ∈ xs, valOk env O item x = true := by
  induction xs with
  | nil => intro x hx; cases hx
  | cons a t ih =>
    simp only [listOk, Bool.and_eq_true] at h
    intro x hx
    rcases List.mem_cons.mp hx with rfl | hx
    · exact h.1
    · exact ih h.2 x hx

theorem aget_mem {α : Type} (k : Nat) (v : α) (m : List (Nat × α)) (h : aget k m = some v) :
    (k, v) ∈ m := by
  induction m with
  | nil => simp [aget] at h
  | cons kv t ih =>
    obtain ⟨k', v'⟩ := kv
    simp only [aget] at h
    by_cases hk : k = k'
    · rw [if_pos hk] at h; cases h; subst hk; exact List.mem_cons_self
    · rw [if_neg hk] at h; exact List.mem_cons_of_mem _ (ih h)

theorem propsUnder_nil (k : Nat) (props : List PropDef) (h : ∀ p ∈ props, p.path.length ≤ 1) :
    propsUnder k props = [] := by
  unfold propsUnder
  apply List.filterMap_eq_nil_iff.mpr
  intro p hp
  have := h p hp
  split
  · next k' k2 r heq => rw [heq] at this; simp at this
  · rfl

theorem fieldsOk_cons (env : Env) (O : Oracle) (props : List PropDef) (k : Nat) (v : PVal)
    (rest : Fields) :
    fieldsOk env O props ((k, v) :: rest) =
      ((match leafProp env props k with
        | some p => valOk env O p.field v && !(p.pres == Pres.imp && v.isZero)
        | none =>
          match v with
          | PVal.msg sub =>
            !sub.isEmpty && asorted sub && !(propsUnder k props).isEmpty &&
              fieldsOk env O (propsUnder k props) sub
          | _ => false) && fieldsOk env O props rest) := by
  conv => lhs; rw [fieldsOk.eq_def]
  rfl

/-- without flattened objects every stored field is a leaf owned by a property (directly or
through an exposed oneof) -/
theorem fieldsOk_mem (env : Env) (O : Oracle) (props : List PropDef) (fs : Fields)
    (hflat : ∀ p ∈ props, p.path.length ≤ 1)
    (h : fieldsOk env O props fs = true) : ∀ k v, (k, v) ∈ fs →
      ∃ p, leafProp env props k = some p ∧ valOk env O p.field v = true ∧
        (p.pres == .imp && v.isZero) = false := by
  induction fs with
  | nil => intro k v hm; cases hm
  | cons kv t ih =>
    obtain ⟨k', v'⟩ := kv
    rw [fieldsOk_cons] at h
    simp only [Bool.and_eq_true] at h
    intro k v hm
    rcases List.mem_cons.mp hm with heq | hm'
    · cases heq
      cases hf : leafProp env props k' with
      | none =>
        simp only [hf] at h
        have hnil := propsUnder_nil k' props hflat
        cases v' <;> simp [hnil] at h
      | some p =>
        simp only [hf, Bool.and_eq_true] at h
        refine ⟨p, rfl, h.1.1, ?_⟩
        have := h.1.2
        cases hx : (p.pres == Pres.imp && v'.isZero) with
        | false => rfl
        | true => simp [hx] at this
    · exact ih h.2 k v hm'

end J5V.Codec
