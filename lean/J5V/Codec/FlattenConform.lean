import J5V.Codec.FlattenStore
import J5V.Codec.RoundtripProofs
/-!
# Representable messages with flattened objects: what `fieldsOk` says along a proto path
-/
namespace J5V.Codec
open J5V.Json

theorem depthFields_mem (fs : List (Nat × PVal)) (k : Nat) (v : PVal) (h : (k, v) ∈ fs) :
    v.depth ≤ depthFields fs := by
  induction fs with
  | nil => cases h
  | cons kv t ih =>
    obtain ⟨k', v'⟩ := kv
    simp only [depthFields]
    rcases List.mem_cons.mp h with heq | h'
    · cases heq; exact Nat.le_max_left _ _
    · exact Nat.le_trans (ih h') (Nat.le_max_right _ _)

/-! ## leaf entries -/

theorem exposedOps_nonempty_path' (env : Env) (p : PropDef) (h : p.path ≠ []) :
    exposedOps env p = [] := by
  unfold exposedOps
  split
  · next hp _ => exact absurd hp h
  · rfl

theorem propLeaves_nonempty (env : Env) (p : PropDef) (hp : p.path ≠ []) :
    propLeaves env p = [(p.path, p.field, p.pres)] := by
  unfold propLeaves
  split
  · next h => exact absurd h hp
  · rfl

theorem propLeaves_exposed_mem (env : Env) (p q : PropDef) (k : Nat) (hp : p.path = [])
    (hq : q ∈ exposedOps env p) (hqk : q.path = [k]) : ([k], q.field, q.pres) ∈ propLeaves env p := by
  unfold propLeaves; rw [hp]
  exact List.mem_filterMap.mpr ⟨q, hq, by rw [hqk]⟩

theorem propLeaves_exposed_inv (env : Env) (p : PropDef) (x : List Nat × Field × Pres)
    (hp : p.path = []) (h : x ∈ propLeaves env p) :
    ∃ q k, q ∈ exposedOps env p ∧ q.path = [k] ∧ x = ([k], q.field, q.pres) := by
  unfold propLeaves at h; rw [hp] at h
  obtain ⟨q, hq, hx⟩ := List.mem_filterMap.mp h
  split at hx
  · next k hk => cases hx; exact ⟨q, k, hq, hk, rfl⟩
  · cases hx

theorem leafEntries_path_ne (env : Env) (props : List PropDef) (x : List Nat × Field × Pres)
    (h : x ∈ leafEntries env props) : x.1 ≠ [] := by
  obtain ⟨p, _, hx⟩ := List.mem_flatMap.mp h
  cases hp : p.path with
  | nil =>
    obtain ⟨q, k, _, _, rfl⟩ := propLeaves_exposed_inv env p x hp hx
    simp
  | cons a t =>
    rw [propLeaves_nonempty env p (by rw [hp]; simp)] at hx
    simp only [List.mem_singleton] at hx
    rw [hx, hp]; simp

/-- entries with comparable paths coincide (from distinct, prefix-free leaf paths) -/
def LeafH (env : Env) (props : List PropDef) : Prop :=
  ∀ a ∈ leafEntries env props, ∀ b ∈ leafEntries env props, a.1 <+: b.1 → a = b

theorem mem_propsUnder (k : Nat) (props : List PropDef) (p' : PropDef) (h : p' ∈ propsUnder k props) :
    ∃ p ∈ props, ∃ k2 r, p.path = k :: k2 :: r ∧ p' = { p with path := k2 :: r } := by
  unfold propsUnder at h
  obtain ⟨p, hp, hx⟩ := List.mem_filterMap.mp h
  split at hx
  · next k' k2 r hpath =>
    split at hx
    · next hk => cases hx; subst hk; exact ⟨p, hp, k2, r, hpath, rfl⟩
    · cases hx
  · cases hx

theorem leafEntries_under (env : Env) (k : Nat) (props : List PropDef) (x : List Nat × Field × Pres)
    (h : x ∈ leafEntries env (propsUnder k props)) : (k :: x.1, x.2) ∈ leafEntries env props := by
  obtain ⟨p', hp', hx⟩ := List.mem_flatMap.mp h
  obtain ⟨p, hp, k2, r, hpath, rfl⟩ := mem_propsUnder k props p' hp'
  rw [propLeaves_nonempty env _ (by simp)] at hx
  simp only [List.mem_singleton] at hx
  subst hx
  apply List.mem_flatMap.mpr
  refine ⟨p, hp, ?_⟩
  rw [propLeaves_nonempty env p (by rw [hpath]; simp), hpath]
  simp

theorem leafEntries_under_mk (env : Env) (k k2 : Nat) (r : List Nat) (props : List PropDef)
    (f : Field) (pr : Pres) (h : (k :: k2 :: r, f, pr) ∈ leafEntries env props) :
    (k2 :: r, f, pr) ∈ leafEntries env (propsUnder k props) := by
  obtain ⟨p, hp, hx⟩ := List.mem_flatMap.mp h
  cases hpp : p.path with
  | nil =>
    obtain ⟨q, k', _, _, hx'⟩ := propLeaves_exposed_inv env p _ hpp hx
    cases hx'
  | cons a t =>
    rw [propLeaves_nonempty env p (by rw [hpp]; simp)] at hx
    simp only [List.mem_singleton, Prod.mk.injEq] at hx
    obtain ⟨h1, h2, h3⟩ := hx
    apply List.mem_flatMap.mpr
    refine ⟨{ p with path := k2 :: r }, ?_, ?_⟩
    · unfold propsUnder
      apply List.mem_filterMap.mpr
      refine ⟨p, hp, ?_⟩
      rw [← h1]; simp
    · rw [propLeaves_nonempty env _ (by simp)]
      simp [h2, h3]

theorem LeafH.under {env : Env} {props : List PropDef} (h : LeafH env props) (k : Nat) :
    LeafH env (propsUnder k props) := by
  intro a ha b hb hpre
  have ha' := leafEntries_under env k props a ha
  have hb' := leafEntries_under env k props b hb
  have := h _ ha' _ hb' (by simpa using hpre)
  simp only [Prod.mk.injEq, List.cons.injEq, true_and] at this
  exact Prod.ext this.1 this.2

theorem leafProp_inv' (env : Env) (props : List PropDef) (k : Nat) (q : PropDef)
    (h : leafProp env props k = some q) :
    (q ∈ props ∧ q.path = [k]) ∨
    (∃ p ∈ props, q ∈ exposedOps env p ∧ q.path = [k]) := by
  unfold leafProp at h
  split at h
  · next p hf =>
    cases h
    exact Or.inl ⟨List.mem_of_find?_eq_some hf, by simpa using List.find?_some hf⟩
  · obtain ⟨p, hp, hq⟩ := List.exists_of_findSome?_eq_some h
    exact Or.inr ⟨p, hp, List.mem_of_find?_eq_some hq, by simpa using List.find?_some hq⟩

theorem leafProp_entry (env : Env) (props : List PropDef) (k : Nat) (q : PropDef)
    (h : leafProp env props k = some q) : ([k], q.field, q.pres) ∈ leafEntries env props := by
  rcases leafProp_inv' env props k q h with ⟨hq, hqk⟩ | ⟨p, hp, hq, hqk⟩
  · apply List.mem_flatMap.mpr
    exact ⟨q, hq, by rw [propLeaves_nonempty env q (by rw [hqk]; simp), hqk]; simp⟩
  · have hp0 : p.path = [] := by
      cases hpp : p.path with
      | nil => rfl
      | cons a t => rw [exposedOps_nonempty_path' env p (by rw [hpp]; simp)] at hq; cases hq
    exact List.mem_flatMap.mpr ⟨p, hp, propLeaves_exposed_mem env p q k hp0 hq hqk⟩

theorem leafProp_some_of_entry (env : Env) (props : List PropDef) (k : Nat) (f : Field) (pr : Pres)
    (h : ([k], f, pr) ∈ leafEntries env props) : ∃ q, leafProp env props k = some q := by
  obtain ⟨p, hp, hx⟩ := List.mem_flatMap.mp h
  unfold leafProp
  cases hf : props.find? (fun p => p.path == [k]) with
  | some p' => exact ⟨p', rfl⟩
  | none =>
    simp only []
    cases hpp : p.path with
    | nil =>
      obtain ⟨q, k', hq, hqk, hx'⟩ := propLeaves_exposed_inv env p _ hpp hx
      simp only [Prod.mk.injEq, List.cons.injEq, and_true] at hx'
      obtain ⟨hk, _, _⟩ := hx'
      subst hk
      cases hfs : props.findSome? (fun p => (exposedOps env p).find? (fun q => q.path == [k])) with
      | some q' => exact ⟨q', rfl⟩
      | none =>
        exfalso
        have := (List.findSome?_eq_none_iff.mp hfs) p hp
        have := (List.find?_eq_none.mp this) q hq
        simp [hqk] at this
    | cons a t =>
      exfalso
      rw [propLeaves_nonempty env p (by rw [hpp]; simp)] at hx
      simp only [List.mem_singleton, Prod.mk.injEq] at hx
      have := (List.find?_eq_none.mp hf) p hp
      simp [← hx.1] at this

/-! ## one entry of a representable store -/

theorem fieldsOk_entry (env : Env) (O : Oracle) (props : List PropDef) (fs : Fields)
    (h : fieldsOk env O props fs = true) : ∀ k v, (k, v) ∈ fs →
      (match leafProp env props k with
       | some p => valOk env O p.field v && !(p.pres == Pres.imp && v.isZero)
       | none =>
         match v with
         | PVal.msg sub =>
           !sub.isEmpty && asorted sub && !(propsUnder k props).isEmpty &&
             fieldsOk env O (propsUnder k props) sub
         | _ => false) = true := by
  induction fs with
  | nil => intro k v hm; cases hm
  | cons kv t ih =>
    obtain ⟨k', v'⟩ := kv
    rw [fieldsOk_cons] at h
    simp only [Bool.and_eq_true] at h
    intro k v hm
    rcases List.mem_cons.mp hm with heq | hm'
    · cases heq; exact h.1
    · exact ih h.2 k v hm'

/-- what a representable store holds at the path of a leaf entry -/
theorem fieldsOk_path (env : Env) (O : Oracle) : ∀ (path : List Nat) (props : List PropDef)
    (fs : Fields) (f : Field) (pr : Pres), LeafH env props → fieldsOk env O props fs = true →
    asorted fs = true → (path, f, pr) ∈ leafEntries env props →
    SortedAlong path fs ∧ ∀ v, getPath fs path = some v →
      valOk env O f v = true ∧ (pr == .imp && v.isZero) = false ∧ v.depth ≤ depthFields fs := by
  intro path
  induction path with
  | nil => intro props fs f pr _ _ _ hm; exact absurd rfl (leafEntries_path_ne env props _ hm)
  | cons k t ih =>
    intro props fs f pr hH hfok hsort hm
    cases t with
    | nil =>
      refine ⟨hsort, ?_⟩
      intro v hget
      simp only [getPath] at hget
      have hmem := aget_mem k v fs hget
      have he := fieldsOk_entry env O props fs hfok k v hmem
      obtain ⟨q, hq⟩ := leafProp_some_of_entry env props k f pr hm
      rw [hq] at he
      simp only [Bool.and_eq_true, Bool.not_eq_true'] at he
      have := hH _ (leafProp_entry env props k q hq) _ hm (List.prefix_refl _)
      simp only [Prod.mk.injEq, true_and] at this
      rw [← this.1, ← this.2]
      exact ⟨he.1, he.2, depthFields_mem fs k v hmem⟩
    | cons k2 r =>
      -- the field `k` is a flattened sub-message: no leaf lives at `[k]`
      have hnoleaf : leafProp env props k = none := by
        cases hq : leafProp env props k with
        | none => rfl
        | some q =>
          have := hH _ (leafProp_entry env props k q hq) _ hm (by simp)
          simp at this
      have hsub : ∀ sub, aget k fs = some (.msg sub) →
          asorted sub = true ∧ fieldsOk env O (propsUnder k props) sub = true := by
        intro sub hag
        have he := fieldsOk_entry env O props fs hfok k _ (aget_mem k _ fs hag)
        rw [hnoleaf] at he
        simp only [Bool.and_eq_true] at he
        exact ⟨he.1.1.2, he.2⟩
      have hm' := leafEntries_under_mk env k k2 r props f pr hm
      constructor
      · refine ⟨hsort, ?_⟩
        intro sub hag
        obtain ⟨hs1, hs2⟩ := hsub sub hag
        exact (ih (propsUnder k props) sub f pr (hH.under k) hs2 hs1 hm').1
      · intro v hget
        rw [getPath_cons2] at hget
        cases hag : aget k fs with
        | none => rw [hag] at hget; cases hget
        | some vk =>
          rw [hag] at hget
          cases vk with
          | msg sub =>
            simp only [] at hget
            obtain ⟨hs1, hs2⟩ := hsub sub hag
            obtain ⟨h1, h2, h3⟩ := (ih (propsUnder k props) sub f pr (hH.under k) hs2 hs1 hm').2 v hget
            refine ⟨h1, h2, ?_⟩
            have := depthFields_mem fs k _ (aget_mem k _ fs hag)
            simp only [PVal.depth] at this
            omega
          | _ => cases hget

/-! ## the restriction to all leaf paths is the whole message -/

theorem restrictP_all (env : Env) (O : Oracle) : ∀ (fs : Fields) (props : List PropDef)
    (S : List (List Nat)), fieldsOk env O props fs = true →
    (∀ x ∈ leafEntries env props, x.1 ∈ S) → restrictP S fs = fs
  | [], _, _, _, _ => by rw [restrictP.eq_def]
  | (k, v) :: rest, props, S, hfok, hS => by
    have hfok' := hfok
    rw [fieldsOk_cons] at hfok'
    simp only [Bool.and_eq_true] at hfok'
    have hrest := restrictP_all env O rest props S hfok'.2 hS
    rw [restrictP.eq_def]
    simp only []
    have hE : restrictE S k v = some v := by
      cases hq : leafProp env props k with
      | some q => exact restrictE_leaf S k v (hS _ (leafProp_entry env props k q hq))
      | none =>
        have he := hfok'.1
        rw [hq] at he
        match v, he with
        | .msg sub, he =>
          simp only [Bool.and_eq_true, Bool.not_eq_true'] at he
          by_cases hk : [k] ∈ S
          · exact restrictE_leaf S k _ hk
          · have hsub := restrictP_all env O sub (propsUnder k props) (tailsAt k S) he.2 (by
              intro x hx
              exact (mem_tailsAt k S x.1).mpr ⟨leafEntries_path_ne env _ x hx,
                hS _ (leafEntries_under env k props x hx)⟩)
            rw [restrictE_msg S k sub hk, hsub]
            simp [he.1.1.1]
    rw [hE]
    simp only []
    rw [hrest]
termination_by fs => sizeOf fs
decreasing_by
  all_goals simp_wf
  all_goals omega

end J5V.Codec
