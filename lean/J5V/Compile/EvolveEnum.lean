import J5V.Compile.RefsPkg
import J5V.Compile.Congr
/-!
# Conversion is monotone in the value names of referenced enums (C13) — core only

Appending an option to an enum changes the enum's export entry: an `EnumRef` carries the value
names, against which `rules.in / notIn` and default filters of referring fields are checked
(`mapValuesOk`). A conversion that recorded no error stays exactly the same when referenced enums
get MORE value names (`AgreeUp`): every check that passed still passes, nothing else reads the
names. This is the congruence of `Congr.lean` "up to more enum names".
-/
namespace J5V.Compile
open J5V.Go

/-- the two contexts resolve the reference alike, or to the same enum with more value names -/
def RefUp (c c' : Ctx) (r : Str × Str) : Prop :=
  c.resolve r.1 r.2 = c'.resolve r.1 r.2 ∨
    ∃ t pfx names names', c.resolve r.1 r.2 = some t ∧ t.kind = .enum pfx names ∧
      c'.resolve r.1 r.2 = some { t with kind := .enum pfx names' } ∧ ∀ x ∈ names, x ∈ names'

def AgreeUp (c c' : Ctx) (refs : List (Str × Str)) : Prop := ∀ r ∈ refs, RefUp c c' r

theorem AgreeUp.of_mem {c c' : Ctx} {a b : List (Str × Str)} (h : AgreeUp c c' b)
    (hab : ∀ x ∈ a, x ∈ b) : AgreeUp c c' a := fun r hr => h r (hab r hr)

theorem AgreeOn.up {c c' : Ctx} {refs : List (Str × Str)} (h : AgreeOn c c' refs) :
    AgreeUp c c' refs := fun r hr => Or.inl (h r hr)

theorem mapValuesOk_mono (pfx : Str) (names names' vals : List Str) (h : ∀ x ∈ names, x ∈ names')
    (hok : mapValuesOk pfx names vals = true) : mapValuesOk pfx names' vals = true := by
  unfold mapValuesOk at hok ⊢
  rw [List.all_eq_true] at hok ⊢
  intro v hv
  have := hok v hv
  simp only [List.contains_iff_mem] at this ⊢
  exact h _ this

/-! ## leaves -/

theorem msgRefField_up (c c' : Ctx) (pkg schema ext : Str) (rules : Rules) (lr : Bool)
    (h : RefUp c c' (pkg, schema)) (hs : (msgRefField c pkg schema ext rules lr).res.isSome = true) :
    msgRefField c' pkg schema ext rules lr = msgRefField c pkg schema ext rules lr := by
  rcases h with h | ⟨t, pfx, names, names', h1, hk, _, _⟩
  · unfold msgRefField refField
    simp only [] at h
    rw [h]
  · exfalso
    unfold msgRefField refField at hs
    simp only [] at h1
    simp [h1, hk, TKind.isMessage] at hs

theorem enumFieldWith_up (pre walk : Eff) (tn pfx : Str) (names names' : List Str) (rules : Rules)
    (lr : Option (List Str)) (h : ∀ x ∈ names, x ∈ names')
    (hs : (enumFieldWith pre walk tn pfx names rules lr).res.isSome = true) :
    enumFieldWith pre walk tn pfx names' rules lr = enumFieldWith pre walk tn pfx names rules lr := by
  unfold enumFieldWith at hs ⊢
  cases h1 : mapValuesOk pfx names (enumRuleVals rules) with
  | false => simp [h1] at hs
  | true =>
    cases h2 : mapValuesOk pfx names (lr.getD []) with
    | false => simp [h1, h2] at hs
    | true =>
      simp [h1, h2, mapValuesOk_mono pfx names names' _ h h1, mapValuesOk_mono pfx names names' _ h h2]

theorem enumRefField_up (c c' : Ctx) (np : List Str) (d pkg schema : Str) (rules : Rules)
    (lr : Option (List Str)) (h : RefUp c c' (pkg, schema))
    (hs : (bField c np d (.enumRef pkg schema rules lr)).res.isSome = true) :
    bField c' np d (.enumRef pkg schema rules lr) = bField c np d (.enumRef pkg schema rules lr) := by
  rcases h with h | ⟨t, pfx, names, names', h1, hk, h2, hsub⟩
  · rw [bField, bField]
    unfold refField
    simp only [] at h
    rw [h]
  · obtain ⟨tp, tn, tf, tk⟩ := t
    simp only [] at hk
    subst hk
    rw [bField] at hs
    rw [bField, bField]
    unfold refField at hs ⊢
    simp only [] at h1 h2
    simp only [h1, h2, TKind.isMessage, Bool.not_true, if_true] at hs ⊢
    exact enumFieldWith_up _ _ _ pfx names names' rules lr hsub hs

/-! ## fields, properties, property lists -/

mutual
theorem bField_up (c c' : Ctx) (np : List Str) (d : Str) :
    ∀ f : Field, AgreeUp c c' (refsField f) → (bField c np d f).res.isSome = true →
      (bField c np d f).eff.errs = 0 → bField c' np d f = bField c np d f
  | .objectRef pkg schema fl rules, h, hs, _ => by
    rw [bField] at hs
    rw [bField, bField]
    exact msgRefField_up c c' pkg schema _ rules false (h (pkg, schema) (by simp [refsField])) hs
  | .oneofRef pkg schema rules lr, h, hs, _ => by
    rw [bField] at hs
    rw [bField, bField]
    exact msgRefField_up c c' pkg schema _ rules lr (h (pkg, schema) (by simp [refsField])) hs
  | .enumRef pkg schema rules lr, h, hs, _ =>
    enumRefField_up c c' np d pkg schema rules lr (h (pkg, schema) (by simp [refsField])) hs
  | .objectInl name props fl rules, h, _, he => by
    rw [bField] at he
    simp only [msgInlField] at he
    have hin : (bProps c (np ++ [if name = [] then d else name]) false 1 props).eff.errs = 0 := by
      simp at he; omega
    rw [bField, bField, bProps_up c c' (np ++ [if name = [] then d else name]) false 1 props
      (by simpa [refsField] using h) hin]
  | .oneofInl name props rules lr, h, _, he => by
    rw [bField] at he
    simp only [msgInlField] at he
    have hin : (bProps c (np ++ [if name = [] then d else name]) true 1 props).eff.errs = 0 := by
      simp at he; omega
    rw [bField, bField, bProps_up c c' (np ++ [if name = [] then d else name]) true 1 props
      (by simpa [refsField] using h) hin]
  | .enumInl e rules lr, _, _, _ => by rw [bField, bField]
  | .array items rules, _, hs, _ => by rw [bField] at hs; simp at hs
  | .map items rules, _, hs, _ => by rw [bField] at hs; simp at hs
  | .string rules lr, _, _, _ => by
    rw [bField_scalar c np d (.string rules lr) _ rfl, bField_scalar c' np d (.string rules lr) _ rfl]
  | .bool rules lr, _, _, _ => by
    rw [bField_scalar c np d (.bool rules lr) _ rfl, bField_scalar c' np d (.bool rules lr) _ rfl]
  | .bytes rules, _, _, _ => by
    rw [bField_scalar c np d (.bytes rules) _ rfl, bField_scalar c' np d (.bytes rules) _ rfl]
  | .date rules lr, _, _, _ => by
    rw [bField_scalar c np d (.date rules lr) _ rfl, bField_scalar c' np d (.date rules lr) _ rfl]
  | .decimal rules lr, _, _, _ => by
    rw [bField_scalar c np d (.decimal rules lr) _ rfl, bField_scalar c' np d (.decimal rules lr) _ rfl]
  | .timestamp rules, _, _, _ => by
    rw [bField_scalar c np d (.timestamp rules) _ rfl, bField_scalar c' np d (.timestamp rules) _ rfl]
  | .any, _, _, _ => by
    rw [bField_scalar c np d .any _ rfl, bField_scalar c' np d .any _ rfl]
  | .integer fmt rules lr, _, _, _ => by
    cases h : scalarField (.integer fmt rules lr) with
    | none => simp only [scalarField] at h; split at h <;> simp at h
    | some b => rw [bField_scalar c np d _ b h, bField_scalar c' np d _ b h]
  | .float fmt rules lr, _, _, _ => by
    cases h : scalarField (.float fmt rules lr) with
    | none => simp only [scalarField] at h; split at h <;> simp at h
    | some b => rw [bField_scalar c np d _ b h, bField_scalar c' np d _ b h]
  | .key fmt ek rules lr, _, _, _ => by
    rw [bField_scalar c np d (.key fmt ek rules lr) _ rfl,
      bField_scalar c' np d (.key fmt ek rules lr) _ rfl]

theorem bProperty_up (c c' : Ctx) (np : List Str) (io : Bool) (n : Nat) :
    ∀ p : Property, AgreeUp c c' (refsProperty p) → (bProperty c np io n p).eff.errs = 0 →
      bProperty c' np io n p = bProperty c np io n p
  | .mk name req opt schema, h, he => by
    obtain ⟨h1, h2, _⟩ := bProperty_ok c np io n name req opt schema he
    have hs : AgreeUp c c' (refsField (builtField schema)) := by
      rw [← refsProperty_built name req opt schema]; exact h
    cases schema <;> simp only [builtField] at hs h1 h2
    case map =>
      rw [bProperty, bProperty, bField_up c c' np (toCamel name) _ hs h1 h2]
    case array =>
      rw [bProperty, bProperty, bField_up c c' np (toCamel name) _ hs h1 h2]
    all_goals simp only [bProperty, bField_up c c' np (toCamel name) _ hs h1 h2]

theorem bProps_up (c c' : Ctx) (np : List Str) (io : Bool) (n : Nat) :
    ∀ ps : List Property, AgreeUp c c' (refsProps ps) → (bProps c np io n ps).eff.errs = 0 →
      bProps c' np io n ps = bProps c np io n ps
  | [], _, _ => by simp [bProps_nil]
  | p :: ps, h, he => by
    have h1 : AgreeUp c c' (refsProperty p) := h.of_mem (by intro r hr; simp [refsProps, hr])
    have h2 : AgreeUp c c' (refsProps ps) := h.of_mem (by intro r hr; simp [refsProps, hr])
    rw [bProps_cons] at he
    simp only [] at he
    have hee : (bProperty c np io n p).eff.errs = 0 ∧ (bProps c np io (n + 1) ps).eff.errs = 0 := by
      cases io <;> simp at he <;> omega
    rw [bProps_cons, bProps_cons, bProperty_up c c' np io n p h1 hee.1,
      bProps_up c c' np io (n + 1) ps h2 hee.2]
end

/-! ## declarations -/

mutual
theorem convDecl_up (c c' : Ctx) (np : List Str) (io : Bool) (virt : List Property)
    (hv : AgreeUp c c' (refsProps virt)) :
    ∀ o : ObjDecl, AgreeUp c c' (refsDecl o) → (convDecl c np io virt o).errs = 0 →
      convDecl c' np io virt o = convDecl c np io virt o
  | .mk name props nested psm, h, he => by
    have h1 : AgreeUp c c' (refsProps props) := h.of_mem (by intro r hr; simp [refsDecl, hr])
    have h2 : AgreeUp c c' (refsNested nested) := h.of_mem (by intro r hr; simp [refsDecl, hr])
    rw [convDecl] at he
    simp only [] at he
    rw [convDecl, convDecl, bProps_up c c' (np ++ [name]) io 1 virt hv (by omega),
      bProps_up c c' (np ++ [name]) io (1 + virt.length) props h1 (by omega),
      convNested_up c c' (np ++ [name]) nested h2 (by omega)]
theorem convNested_up (c c' : Ctx) (np : List Str) :
    ∀ ns : List Nested, AgreeUp c c' (refsNested ns) → (convNested c np ns).errs = 0 →
      convNested c' np ns = convNested c np ns
  | [], _, _ => by simp [convNested]
  | .object o :: rest, h, he => by
    have h1 : AgreeUp c c' (refsDecl o) := h.of_mem (by intro r hr; simp [refsNested, hr])
    have h2 : AgreeUp c c' (refsNested rest) := h.of_mem (by intro r hr; simp [refsNested, hr])
    rw [convNested] at he
    simp only [Eff.add_def, Eff.add_errs] at he
    rw [convNested, convNested,
      convDecl_up c c' np false [] (by intro r hr; simp [refsProps] at hr) o h1 (by omega),
      convNested_up c c' np rest h2 (by omega)]
  | .oneof o :: rest, h, he => by
    have h1 : AgreeUp c c' (refsDecl o) := h.of_mem (by intro r hr; simp [refsNested, hr])
    have h2 : AgreeUp c c' (refsNested rest) := h.of_mem (by intro r hr; simp [refsNested, hr])
    rw [convNested] at he
    simp only [Eff.add_def, Eff.add_errs] at he
    rw [convNested, convNested,
      convDecl_up c c' np true [] (by intro r hr; simp [refsProps] at hr) o h1 (by omega),
      convNested_up c c' np rest h2 (by omega)]
  | .enum e :: rest, h, he => by
    have h2 : AgreeUp c c' (refsNested rest) := h.of_mem (by intro r hr; simpa [refsNested] using hr)
    rw [convNested] at he
    simp only [Eff.add_def, Eff.add_errs] at he
    rw [convNested, convNested, convNested_up c c' np rest h2 (by omega)]
end

theorem convVirtual_up (c c' : Ctx) (name : Str) (virt props : List Property) (psm : Option Psm)
    (h : AgreeUp c c' (refsProps (virt ++ props))) (he : (convVirtual c name virt props psm).errs = 0) :
    convVirtual c' name virt props psm = convVirtual c name virt props psm := by
  rw [refsProps_append] at h
  unfold convVirtual at he ⊢
  exact convDecl_up c c' [] false virt (h.of_mem (by intro r hr; simp [hr])) _
    (h.of_mem (by intro r hr; simp only [refsDecl, refsNested, List.append_nil] at hr; simp [hr])) he

/-! ## services, topics, items, files -/

theorem walkMethod_up (c c' : Ctx) (bp : Option Str) (m : Method)
    (h : AgreeUp c c' ((serviceObjects { name := none, basePath := none, methods := [m] }).flatMap
      fun x => refsProps x.2))
    (he : (walkMethod c bp m).eff.errs = 0) :
    walkMethod c' bp m = walkMethod c bp m := by
  unfold walkMethod at he ⊢
  cases hr : m.request with
  | none => rfl
  | some req =>
    simp only [hr] at he ⊢
    have h1 : AgreeUp c c' (refsProps ([] ++ req)) := by
      intro r hrr
      apply h r
      simp only [serviceObjects, List.flatMap_cons, List.flatMap_nil, hr, List.append_nil,
        List.mem_append, List.mem_flatMap]
      exact ⟨(m.name ++ b!"Request", req), Or.inl (by simp), by simpa using hrr⟩
    cases hs : m.response with
    | none =>
      simp only [hs] at he ⊢
      simp only [Eff.add_def, Eff.add_errs] at he
      rw [convVirtual_up c c' _ [] req none h1 (by omega)]
    | some res =>
      have h2 : AgreeUp c c' (refsProps ([] ++ res)) := by
        intro r hrr
        apply h r
        simp only [serviceObjects, List.flatMap_cons, List.flatMap_nil, hr, hs, List.append_nil,
          List.mem_flatMap]
        exact ⟨(m.name ++ b!"Response", res), by simp, by simpa using hrr⟩
      simp only [hs] at he ⊢
      simp only [Eff.add_def, Eff.add_errs] at he
      rw [convVirtual_up c c' _ [] req none h1 (by omega),
        convVirtual_up c c' _ [] res none h2 (by omega)]

theorem isListRequest_up (c c' : Ctx) (req : List Property) (h : AgreeUp c c' (refsProps req)) :
    isListRequest c' req = isListRequest c req := by
  unfold isListRequest
  induction req with
  | nil => rfl
  | cons p rest ih =>
    have h1 : AgreeUp c c' (refsProperty p) := h.of_mem (by intro r hr; simp [refsProps, hr])
    have h2 : AgreeUp c c' (refsProps rest) := h.of_mem (by intro r hr; simp [refsProps, hr])
    simp only [List.any_cons, ih h2]
    congr 1
    cases p with
    | mk name req opt schema =>
      cases schema <;> simp only [Property.schema]
      case objectRef pkg sc fl rules =>
        rcases h1 (pkg, sc) (by simp [refsProperty, refsField]) with h0 | ⟨t, pfx, names, names', ha, _, hb, _⟩
        · simp only [] at h0
          rw [h0]
        · simp only [] at ha hb
          rw [ha, hb]

theorem listMethodErr_up (c c' : Ctx) (m : Method)
    (h : AgreeUp c c' ((serviceObjects { name := none, basePath := none, methods := [m] }).flatMap
      fun x => refsProps x.2)) :
    listMethodErr c' m = listMethodErr c m := by
  unfold listMethodErr
  cases hr : m.request with
  | none => rfl
  | some req =>
    simp only []
    rw [isListRequest_up c c' req]
    intro r hrr
    apply h r
    simp only [serviceObjects, List.flatMap_cons, List.flatMap_nil, hr, List.append_nil,
      List.mem_append, List.mem_flatMap]
    exact ⟨(m.name ++ b!"Request", req), Or.inl (by simp), by simpa using hrr⟩

theorem convService_errs_walk (c : Ctx) (s : Service) (he : (convService c s).eff.errs = 0) :
    ∀ m ∈ s.methods, (walkMethod c s.basePath m).eff.errs = 0 := by
  have key : ((s.methods.map (walkMethod c s.basePath)).foldl (fun e w => e ++ w.eff) ({} : Eff)).errs = 0 := by
    unfold convService at he
    cases hn : s.name with
    | none => simpa [hn] using he
    | some name =>
      simp only [hn, Eff.add_def, Eff.add_errs] at he
      simp only [Eff.add_def]
      omega
  rw [foldl_eff_errs (fun w : MethodWalk => w.eff)] at key
  intro m hm
  have : (({} : Eff).errs + ((s.methods.map (walkMethod c s.basePath)).map fun a => a.eff.errs).sum) = 0 := key
  have h0 : ((s.methods.map (walkMethod c s.basePath)).map fun a => a.eff.errs).sum = 0 := by
    simpa using this
  exact sum_eq_zero_mem h0 _ (List.mem_map_of_mem (List.mem_map_of_mem hm))

theorem convService_up (c c' : Ctx) (s : Service)
    (h : AgreeUp c c' ((serviceObjects s).flatMap fun x => refsProps x.2))
    (he : (convService c s).eff.errs = 0) :
    convService c' s = convService c s := by
  have hsub : ∀ m ∈ s.methods, AgreeUp c c' ((serviceObjects { name := none, basePath := none, methods := [m] }).flatMap
      fun x => refsProps x.2) := by
    intro m hm r hr
    apply h r
    rw [serviceObjects_methods]
    simp only [List.mem_flatMap] at hr ⊢
    obtain ⟨x, hx, hrx⟩ := hr
    exact ⟨x, ⟨m, hm, hx⟩, hrx⟩
  have hwe := convService_errs_walk c s he
  have hw : s.methods.map (walkMethod c' s.basePath) = s.methods.map (walkMethod c s.basePath) := by
    apply List.map_congr_left
    intro m hm
    exact walkMethod_up c c' s.basePath m (hsub m hm) (hwe m hm)
  have hl : s.methods.map (listMethodErr c') = s.methods.map (listMethodErr c) := by
    apply List.map_congr_left
    intro m hm
    exact listMethodErr_up c c' m (hsub m hm)
  unfold convService
  rw [hw, hl]

theorem acceptTopic_up (c c' : Ctx) (t : TopicNode)
    (h : AgreeUp c c' ((t.msgs.filterMap fun m =>
      (topicMethodName t m).map fun n => (n ++ b!"Message", t.prepend ++ m.props)).flatMap
        fun x => refsProps x.2))
    (he : ∀ s ∈ acceptTopic c t, s.eff.errs = 0) :
    acceptTopic c' t = acceptTopic c t := by
  unfold acceptTopic at he ⊢
  simp only [] at he ⊢
  congr 1
  apply List.map_congr_left
  intro m hm
  cases hn : topicMethodName t m with
  | none => rfl
  | some n =>
    simp only []
    rw [convVirtual_up c c' _ t.prepend m.props none]
    · intro r hr
      apply h r
      simp only [List.mem_flatMap, List.mem_filterMap]
      exact ⟨(n ++ b!"Message", t.prepend ++ m.props), ⟨m, hm, by simp [hn]⟩, hr⟩
    · have := he { target := .topic, eff := convVirtual c (n ++ b!"Message") t.prepend m.props }
        (by
          apply List.mem_append_left
          exact List.mem_map.mpr ⟨m, hm, by simp [hn]⟩)
      exact this

/-- **conversion of a visited item that recorded no error is unchanged by more enum names** -/
theorem convItem_up (c c' : Ctx) (i : Item) (h : AgreeUp c c' (itemRefs i))
    (he : ∀ s ∈ convItem c i, s.eff.errs = 0) :
    convItem c' i = convItem c i := by
  cases i with
  | object o =>
    have h0 := he { target := .main, eff := convDecl c [] false [] o } (by simp [convItem])
    simp only [convItem]
    rw [convDecl_up c c' [] false [] (by intro r hr; simp [refsProps] at hr) o h h0]
  | oneof o =>
    have h0 := he { target := .main, eff := convDecl c [] true [] o } (by simp [convItem])
    simp only [convItem]
    rw [convDecl_up c c' [] true [] (by intro r hr; simp [refsProps] at hr) o h h0]
  | enum e => rfl
  | abort => rfl
  | serviceFile ss =>
    simp only [convItem, convServiceFile]
    congr 1
    apply List.map_congr_left
    intro s hs
    apply convService_up
    · intro r hr
      apply h r
      simp only [itemRefs, List.mem_flatMap] at hr ⊢
      obtain ⟨x, hx, hrx⟩ := hr
      exact ⟨x, ⟨s, hs, hx⟩, hrx⟩
    · apply he
      simp only [convItem, convServiceFile, List.mem_cons, List.mem_map]
      exact Or.inr ⟨s, hs, rfl⟩
  | topicFile ts =>
    simp only [convItem, convTopicFile]
    congr 1
    apply flatMap_congr_mem
    intro t ht
    unfold convTopic
    apply flatMap_congr_mem
    intro tn htn
    apply acceptTopic_up
    · intro r hr
      apply h r
      simp only [itemRefs, topicObjects, List.mem_flatMap] at hr ⊢
      obtain ⟨x, hx, hrx⟩ := hr
      exact ⟨x, ⟨t, ht, tn, htn, hx⟩, hrx⟩
    · intro s hs
      apply he
      simp only [convItem, convTopicFile, convTopic, List.mem_cons, List.mem_flatMap]
      exact Or.inr ⟨t, ht, tn, htn, hs⟩

/-- **`ConvertJ5File` that succeeded gives the same files when referenced enums get more value
names** -/
theorem convertFile_up (res res' : Resolver) (path : Str) (imports : List Import)
    (elems : List Elem) (fs : List FileSkel) (h : convertFile res path imports elems = .ok fs)
    (hag : ∀ im, j5Imports (packageFromFilename (path ++ b!".proto")) imports = .ok im →
      AgreeUp { resolve := resolveTypeNoImport im res } { resolve := resolveTypeNoImport im res' }
        (fileRefs (packageFromFilename (path ++ b!".proto")) elems)) :
    convertFile res' path imports elems = .ok fs := by
  obtain ⟨im, hj, hinv⟩ := convertFile_ok_inv res path imports elems fs h
  simp only [] at hinv
  obtain ⟨_, herrs, _⟩ := hinv
  have hsum := (rootInv_run (path ++ b!".proto") (packageFromFilename (path ++ b!".proto"))
    (fileSteps { resolve := resolveTypeNoImport im res }
      (packageFromFilename (path ++ b!".proto")) elems)).errs
  rw [hsum] at herrs
  have hsteps : (elems.flatMap (itemsOfElem (packageFromFilename (path ++ b!".proto")))).flatMap
      (convItem { resolve := resolveTypeNoImport im res' }) =
      (elems.flatMap (itemsOfElem (packageFromFilename (path ++ b!".proto")))).flatMap
      (convItem { resolve := resolveTypeNoImport im res }) := by
    apply flatMap_congr_mem
    intro i hi
    apply convItem_up
    · intro r hr
      apply hag im hj r
      unfold fileRefs
      exact List.mem_flatMap.mpr ⟨i, hi, hr⟩
    · intro s hs
      have hmem : s ∈ fileSteps { resolve := resolveTypeNoImport im res }
          (packageFromFilename (path ++ b!".proto")) elems := List.mem_flatMap.mpr ⟨i, hi, hs⟩
      exact sum_eq_zero_mem herrs _ (List.mem_map_of_mem hmem)
  unfold convertFile at h ⊢
  simp only [hj] at h ⊢
  rw [hsteps]
  exact h

end J5V.Compile
