import J5V.Compile.LinkAssemble
/-!
# `NamesResolve`, site by site (core only)

`resolveMsgs` walks the message tree carrying the stack of enclosing message names. Flattened: the
list of *sites* — (scope stack, field) for every field of every (nested) message — and
`resolveMsgs … ≠ none` iff the type name at every site resolves. So the open bridge `NamesResolve`
is a statement about each site and each rpc separately, to which `resolveType_relative` /
`resolveType_absolute` apply one at a time.
-/
namespace J5V.Compile

mutual
/-- every field of a message tree with the scopes `resolveMsg` resolves it in -/
def msgSites (scopes : List Str) (pfx : Str) : MsgSkel → List (List Str × FieldSkel)
  | .mk name _ _ fields msgs _ =>
    fields.map (fun f => (scopes ++ [qual pfx name], f)) ++
      msgsSites (scopes ++ [qual pfx name]) (qual pfx name) msgs
def msgsSites (scopes : List Str) (pfx : Str) : List MsgSkel → List (List Str × FieldSkel)
  | [] => []
  | m :: rest => msgSites scopes pfx m ++ msgsSites scopes pfx rest
end

theorem mapM_isSome_iff {α β : Type} (f : α → Option β) (l : List α) :
    (l.mapM f).isSome = true ↔ ∀ a ∈ l, (f a).isSome = true := by
  constructor
  · intro h
    cases hm : l.mapM f with
    | none => rw [hm] at h; cases h
    | some ys => exact mapM_some_inv f l ys hm
  · exact mapM_some_all f l

mutual
theorem resolveMsg_isSome_iff (self : LFile) (vis : List LFile) (scopes : List Str) (pfx : Str) :
    ∀ m : MsgSkel, (resolveMsg self vis scopes pfx m).isSome = true ↔
      ∀ s ∈ msgSites scopes pfx m, (resolveField self vis s.1 s.2).isSome = true
  | .mk name kind psm fields msgs enums => by
    rw [resolveMsg, msgSites]
    have ih := resolveMsgs_isSome_iff self vis (scopes ++ [qual pfx name]) (qual pfx name) msgs
    have hf := mapM_isSome_iff (resolveField self vis (scopes ++ [qual pfx name])) fields
    simp only [List.mem_append, List.mem_map]
    constructor
    · intro h
      cases h1 : fields.mapM (resolveField self vis (scopes ++ [qual pfx name])) with
      | none => simp [h1] at h
      | some fs =>
        cases h2 : resolveMsgs self vis (scopes ++ [qual pfx name]) (qual pfx name) msgs with
        | none => simp [h1, h2] at h
        | some ms =>
          rintro s (⟨f, hfm, rfl⟩ | hs)
          · exact hf.mp (by rw [h1]; rfl) f hfm
          · exact ih.mp (by rw [h2]; rfl) s hs
    · intro h
      have a := hf.mpr (fun f hfm => h _ (Or.inl ⟨f, hfm, rfl⟩))
      have b := ih.mpr (fun s hs => h s (Or.inr hs))
      cases h1 : fields.mapM (resolveField self vis (scopes ++ [qual pfx name])) with
      | none => rw [h1] at a; cases a
      | some fs =>
        cases h2 : resolveMsgs self vis (scopes ++ [qual pfx name]) (qual pfx name) msgs with
        | none => rw [h2] at b; cases b
        | some ms => rfl
theorem resolveMsgs_isSome_iff (self : LFile) (vis : List LFile) (scopes : List Str) (pfx : Str) :
    ∀ ms : List MsgSkel, (resolveMsgs self vis scopes pfx ms).isSome = true ↔
      ∀ s ∈ msgsSites scopes pfx ms, (resolveField self vis s.1 s.2).isSome = true
  | [] => by simp [resolveMsgs, msgsSites]
  | m :: rest => by
    rw [resolveMsgs, msgsSites]
    have h1 := resolveMsg_isSome_iff self vis scopes pfx m
    have h2 := resolveMsgs_isSome_iff self vis scopes pfx rest
    simp only [List.mem_append]
    constructor
    · intro h
      cases a : resolveMsg self vis scopes pfx m with
      | none => simp [a] at h
      | some m' =>
        cases b : resolveMsgs self vis scopes pfx rest with
        | none => simp [a, b] at h
        | some r' =>
          rintro s (hs | hs)
          · exact h1.mp (by rw [a]; rfl) s hs
          · exact h2.mp (by rw [b]; rfl) s hs
    · intro h
      have a := h1.mpr (fun s hs => h s (Or.inl hs))
      have b := h2.mpr (fun s hs => h s (Or.inr hs))
      cases ha : resolveMsg self vis scopes pfx m with
      | none => rw [ha] at a; cases a
      | some m' =>
        cases hb : resolveMsgs self vis scopes pfx rest with
        | none => rw [hb] at b; cases b
        | some r' => rfl
end

theorem resolveSvc_isSome_iff (self : LFile) (vis : List LFile) (s : SvcSkel) :
    (resolveSvc self vis s).isSome = true ↔
      ∀ m ∈ s.methods, (resolveType self vis [] .msg m.input).isSome = true ∧
        (resolveType self vis [] .msg m.output).isSome = true := by
  unfold resolveSvc
  rw [Option.isSome_map, mapM_isSome_iff]
  constructor
  · intro h m hm
    have := h m hm
    cases hi : resolveType self vis [] .msg m.input <;>
      cases ho : resolveType self vis [] .msg m.output <;> simp [hi, ho] at this ⊢
  · intro h m hm
    obtain ⟨h1, h2⟩ := h m hm
    cases hi : resolveType self vis [] .msg m.input <;>
      cases ho : resolveType self vis [] .msg m.output <;> simp [hi, ho] at h1 h2 ⊢

/-- **`NamesResolve` is a statement about each field site and each rpc** -/
theorem namesResolve_iff (univ : List LFile) (f : FileSkel) :
    NamesResolve univ f ↔
      (∀ s ∈ msgsSites [] f.pkg f.msgs, (resolveField f.lfile (visOf univ f) s.1 s.2).isSome = true) ∧
      (∀ svc ∈ f.svcs, ∀ m ∈ svc.methods,
        (resolveType f.lfile (visOf univ f) [] .msg m.input).isSome = true ∧
        (resolveType f.lfile (visOf univ f) [] .msg m.output).isSome = true) := by
  unfold NamesResolve namesResolve
  rw [Bool.and_eq_true, resolveMsgs_isSome_iff, mapM_isSome_iff]
  apply and_congr Iff.rfl
  constructor
  · intro h svc hsvc
    exact (resolveSvc_isSome_iff _ _ svc).mp (h svc hsvc)
  · intro h svc hsvc
    exact (resolveSvc_isSome_iff _ _ svc).mpr (h svc hsvc)

end J5V.Compile
