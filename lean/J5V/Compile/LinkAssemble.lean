import J5V.Compile.LinkAcyclic
import J5V.Compile.UsesAll
/-!
# The link step, arm by arm (core only)

`linkFiles` succeeds iff none of its five failure arms is taken. `linkFiles_ok_of` states this
(one direction) in terms that separate the arms; `compileLinked_ok_of_bridges` discharges three of
them from the sources for valid bundles with a file rank — import cycle (`link_acyclic`), import
not found (`loadPkg_imports_lookup`), used extension file not imported
(`convertFile_uses_imported`) — and leaves the other two as explicit conditions on the generated
files: no duplicate symbol over the linked set (`NoDupSyms`) and scoped resolution of every type
name (`NamesResolve`).
-/
namespace J5V.Compile
open J5V.Go

/-- the universe `compileLinked` links a loaded package against -/
def linkUniv (l : Loaded) : List LFile :=
  (sortFiles l.files).map (·.lfile) ++ (l.depFiles.map (·.lfile) ++ l.protos.map protoLFile) ++ builtinFiles

/-- the files visible from `f`: itself, then its direct imports as found in the universe -/
def visOf (univ : List LFile) (f : FileSkel) : List LFile :=
  f.lfile :: ((f.deps.mapM fun d => univ.find? (·.name = d)).getD [])

/-- arm "type name does not resolve" not taken for `f` -/
def namesResolve (univ : List LFile) (f : FileSkel) : Bool :=
  (resolveMsgs f.lfile (visOf univ f) [] f.pkg f.msgs).isSome &&
    (f.svcs.mapM (resolveSvc f.lfile (visOf univ f))).isSome

def NamesResolve (univ : List LFile) (f : FileSkel) : Prop := namesResolve univ f = true

/-- arm "duplicate symbol" not taken -/
def NoDupSyms (univ : List LFile) (files : List FileSkel) : Prop :=
  hasDup ((linkedSet univ files).flatMap fun f => f.syms.map (·.1)) = false

theorem hasDup_append_false (a b : List Str) (h : hasDup (a ++ b) = false) :
    hasDup a = false ∧ hasDup b = false := by
  induction a with
  | nil => exact ⟨rfl, by simpa using h⟩
  | cons x rest ih =>
    simp only [List.cons_append, hasDup, Bool.or_eq_false_iff] at h ⊢
    obtain ⟨h1, h2⟩ := h
    obtain ⟨i1, i2⟩ := ih h2
    refine ⟨⟨?_, i1⟩, i2⟩
    rw [Bool.eq_false_iff] at h1 ⊢
    intro hc
    apply h1
    simp only [List.contains_iff_mem, List.mem_append] at hc ⊢
    exact Or.inl hc

theorem hasDup_flatMap_false {α : Type} (l : List α) (g : α → List Str)
    (h : hasDup (l.flatMap g) = false) : ∀ x ∈ l, hasDup (g x) = false := by
  induction l with
  | nil => intro x hx; cases hx
  | cons a rest ih =>
    intro x hx
    simp only [List.flatMap_cons] at h
    obtain ⟨h1, h2⟩ := hasDup_append_false _ _ h
    rcases List.mem_cons.mp hx with rfl | hx
    · exact h1
    · exact ih h2 x hx

theorem mapM_some_all {α β : Type} (f : α → Option β) (l : List α)
    (h : ∀ a ∈ l, (f a).isSome = true) : (l.mapM f).isSome = true := by
  induction l with
  | nil => rfl
  | cons a rest ih =>
    have ha := h a (by simp)
    have hr := ih (fun x hx => h x (List.mem_cons_of_mem _ hx))
    cases hfa : f a with
    | none => rw [hfa] at ha; cases ha
    | some y =>
      cases hrr : rest.mapM f with
      | none => rw [hrr] at hr; cases hr
      | some ys => simp [List.mapM_cons, hfa, hrr]

/-- **`linkFiles` succeeds when none of its five arms is taken** -/
theorem linkFiles_ok_of (others : List LFile) (files : List FileSkel)
    (hcyc : ∀ n, files.any (fun f =>
      reachesSelf (files.map (·.lfile) ++ others ++ builtinFiles) f.name n f.name) = false)
    (hdup : NoDupSyms (files.map (·.lfile) ++ others ++ builtinFiles) files)
    (himp : ∀ f ∈ files, (f.deps.mapM fun d =>
      (files.map (·.lfile) ++ others ++ builtinFiles).find? (·.name = d)).isSome = true)
    (huses : ∀ f ∈ files, (f.uses.all fun u => u = f.name || f.deps.contains u) = true)
    (hres : ∀ f ∈ files, NamesResolve (files.map (·.lfile) ++ others ++ builtinFiles) f) :
    ∃ out, linkFiles others files = .ok out := by
  unfold linkFiles
  simp only []
  rw [hcyc]
  simp only [Bool.false_eq_true, if_false]
  unfold NoDupSyms at hdup
  rw [hdup]
  simp only [Bool.false_eq_true, if_false]
  have hall : ∀ f ∈ files, (linkFile (files.map (·.lfile) ++ others ++ builtinFiles) f).isSome = true := by
    intro f hf
    unfold linkFile
    simp only []
    have hi := himp f hf
    cases hd : (f.deps.mapM fun d =>
      (files.map (·.lfile) ++ others ++ builtinFiles).find? (·.name = d)) with
    | none => rw [hd] at hi; cases hi
    | some deps =>
      simp only []
      have hself : hasDup (f.lfile.syms.map (·.1)) = false := by
        apply hasDup_flatMap_false _ _ hdup f.lfile
        unfold linkedSet
        simp only [List.mem_append, List.mem_map]
        exact Or.inl ⟨f, hf, rfl⟩
      rw [hself]
      simp only [Bool.false_eq_true, if_false]
      rw [huses f hf]
      simp only [Bool.not_true, Bool.false_eq_true, if_false]
      have hres' := hres f hf
      simp only [NamesResolve, namesResolve, Bool.and_eq_true] at hres'
      obtain ⟨h1, h2⟩ := hres'
      simp only [visOf, hd, Option.getD_some] at h1 h2
      cases hm : resolveMsgs f.lfile (f.lfile :: deps) [] f.pkg f.msgs with
      | none => rw [hm] at h1; cases h1
      | some ms =>
        cases hs : f.svcs.mapM (resolveSvc f.lfile (f.lfile :: deps)) with
        | none => rw [hs] at h2; cases h2
        | some ss => rfl
  have := mapM_some_all _ _ hall
  cases hm : files.mapM (linkFile (files.map (·.lfile) ++ others ++ builtinFiles)) with
  | none => rw [hm] at this; cases this
  | some fs => exact ⟨fs, rfl⟩

/-- **Acceptance including the link step, three arms from the sources.** Valid bundle, file rank,
plain services carry no annotation: `CompilePackage` succeeds INCLUDING the link step provided the
two remaining arms are not taken on the generated files (`NoDupSyms`, `NamesResolve`). -/
theorem compileLinked_ok_of_bridges (b : Bundle) (r : Str → Nat) (hv : ValidBundle b r)
    (rk : Str → Nat) (hrk : fileRankOk b rk = true) (p : Pkg) (hp : p ∈ b.pkgs)
    (hplain : ∀ path imports elems decl, SrcFile.j5s path imports elems decl ∈ p.files →
      ∀ s, Elem.service s ∈ elems → s.sopt = .none) :
    ∃ l, loadPkg b (b.pkgs.length + 1) [] p.name = .ok l ∧
      compilePkg b p.name = .ok (sortFiles l.files) ∧
      (NoDupSyms (linkUniv l) (sortFiles l.files) →
        (∀ f ∈ sortFiles l.files, NamesResolve (linkUniv l) f) →
        ∃ out, compileLinked b p.name = .ok out) := by
  obtain ⟨l, hl, hcyc⟩ := link_acyclic b r hv rk hrk p hp
  have hfind : b.find p.name = some p := (hv.2.2.2 p hp).1
  refine ⟨l, hl, by simp [compilePkg, hl], ?_⟩
  intro hdup hres
  have himp := loadPkg_imports_lookup b b.pkgs.length [] p.name p l hfind hl
  have huses : ∀ f ∈ sortFiles l.files, (f.uses.all fun u => u = f.name || f.deps.contains u) = true := by
    intro f hfm
    have hfm' : f ∈ l.files := (sortFiles_perm_self l.files).mem_iff.mp hfm
    obtain ⟨hfiles, hok⟩ := loadPkg_ok_inv b b.pkgs.length [] p.name p l hfind hl
    rw [hfiles] at hfm'
    obtain ⟨src, hsrc, hfs⟩ := List.mem_flatMap.mp hfm'
    cases src with
    | proto path msgs enums => simp [convOf] at hfs
    | j5s path imports elems decl =>
      obtain ⟨fs, hconv⟩ := hok _ hsrc
      simp only [convOf, hconv] at hfs
      have h := convertFile_uses_imported l.resolver path imports elems fs hconv
        (hplain path imports elems decl hsrc) f hfs
      simp only [List.all_eq_true, Bool.or_eq_true, decide_eq_true_eq, List.contains_iff_mem]
      exact h
  obtain ⟨out, hout⟩ := linkFiles_ok_of (l.depFiles.map (·.lfile) ++ l.protos.map protoLFile)
    (sortFiles l.files) hcyc hdup himp huses hres
  exact ⟨out, by simp [compileLinked, hl, hout]⟩

theorem mapM_some_inv {α β : Type} (f : α → Option β) (l : List α) (ys : List β)
    (h : l.mapM f = some ys) : ∀ a ∈ l, (f a).isSome = true := by
  induction l generalizing ys with
  | nil => intro a ha; cases ha
  | cons x rest ih =>
    intro a ha
    cases hx : f x with
    | none => simp [List.mapM_cons, hx] at h
    | some y =>
      cases hr : rest.mapM f with
      | none => simp [List.mapM_cons, hx, hr] at h
      | some zs =>
        rcases List.mem_cons.mp ha with rfl | ha'
        · simp [hx]
        · exact ih zs hr a ha'

/-- conversely: a successful link took neither the duplicate-symbol nor the resolution arm -/
theorem linkFiles_ok_inv (others : List LFile) (files out : List FileSkel)
    (h : linkFiles others files = .ok out) :
    NoDupSyms (files.map (·.lfile) ++ others ++ builtinFiles) files ∧
      ∀ f ∈ files, NamesResolve (files.map (·.lfile) ++ others ++ builtinFiles) f := by
  unfold linkFiles at h
  simp only [] at h
  split at h
  · cases h
  · split at h
    · cases h
    · rename_i hdup
      refine ⟨by simpa [NoDupSyms] using hdup, ?_⟩
      cases hm : files.mapM (linkFile (files.map (·.lfile) ++ others ++ builtinFiles)) with
      | none => rw [hm] at h; cases h
      | some fs =>
        intro f hf
        have hsome := mapM_some_inv _ _ fs hm f hf
        unfold linkFile at hsome
        simp only [] at hsome
        cases hd : (f.deps.mapM fun d =>
          (files.map (·.lfile) ++ others ++ builtinFiles).find? (·.name = d)) with
        | none => rw [hd] at hsome; cases hsome
        | some deps =>
          rw [hd] at hsome
          simp only [] at hsome
          split at hsome
          · cases hsome
          · split at hsome
            · cases hsome
            · simp only [NamesResolve, namesResolve, visOf, hd, Option.getD_some, Bool.and_eq_true]
              cases hr : resolveMsgs f.lfile (f.lfile :: deps) [] f.pkg f.msgs with
              | none => rw [hr] at hsome; cases hsome
              | some ms =>
                cases hs : f.svcs.mapM (resolveSvc f.lfile (f.lfile :: deps)) with
                | none => rw [hr, hs] at hsome; cases hsome
                | some ss => exact ⟨rfl, rfl⟩

/-- **a valid bundle with a file rank links exactly when the two remaining arms are not taken** -/
theorem compileLinked_ok_iff (b : Bundle) (r : Str → Nat) (hv : ValidBundle b r)
    (rk : Str → Nat) (hrk : fileRankOk b rk = true) (p : Pkg) (hp : p ∈ b.pkgs)
    (hplain : ∀ path imports elems decl, SrcFile.j5s path imports elems decl ∈ p.files →
      ∀ s, Elem.service s ∈ elems → s.sopt = .none) :
    ∃ l, loadPkg b (b.pkgs.length + 1) [] p.name = .ok l ∧
      ((∃ out, compileLinked b p.name = .ok out) ↔
        (NoDupSyms (linkUniv l) (sortFiles l.files) ∧
          ∀ f ∈ sortFiles l.files, NamesResolve (linkUniv l) f)) := by
  obtain ⟨l, hl, _, h⟩ := compileLinked_ok_of_bridges b r hv rk hrk p hp hplain
  refine ⟨l, hl, ?_, fun ⟨h1, h2⟩ => h h1 h2⟩
  rintro ⟨out, hout⟩
  simp only [compileLinked, hl] at hout
  exact linkFiles_ok_inv _ _ out hout

end J5V.Compile
