import J5V.Compile.ExactProofs
/-!
# What an entity adds to the generated files (core only)

`Entity.expand` composed with the per-item equations of `ExactProofs`: the messages, enums and
services an entity declaration contributes to the main file, the `.service` file and the `.topic`
file, in order.
-/
namespace J5V.Compile
open J5V.Go Entity

theorem bProperty_entries_objectRef (c : Ctx) (np : List Str) (n : Nat) (nm p sc : Str) (fl : Bool)
    (rules : Rules) :
    (bProperty c np true n (.mk nm false false (.objectRef p sc fl rules))).entries = [] := by
  rw [bProperty]
  · cases (bField c np (toCamel nm) (.objectRef p sc fl rules)).res with
    | none => rfl
    | some r => cases hp : r.primaryKey <;> simp [finishProperty, hp]
  all_goals (intro _ _ h; cases h)

/-- reference-typed options hand no map entry to the enclosing context -/
theorem bProps_entries_refs (c : Ctx) (np : List Str) (n : Nat) (l : List (Str × Str)) :
    (bProps c np true n (l.map fun x => .mk x.1 false false (.objectRef [] x.2 false []))).entries = [] := by
  induction l generalizing n with
  | nil => simp [bProps_nil]
  | cons x rest ih =>
    simp only [List.map_cons, bProps_cons, if_true, ih, List.append_nil,
      bProperty_entries_objectRef]

theorem itemMsgs_eventOneof (c : Ctx) (e : Entity) :
    itemMsgs c (.oneof (eventOneof e)) = [declMsgOf c [] true [] (eventOneof e)] := by
  simp only [itemMsgs, convItem, List.flatMap_cons, List.flatMap_nil, List.append_nil, eventOneof]
  rw [convDecl_msgs]
  have : (e.events.map fun ev => Property.mk (toLowerCamel ev.name) false false
        (.objectRef [] (eventTypeName e ++ b!"." ++ ev.name) false [])) =
      (e.events.map fun ev => (toLowerCamel ev.name, eventTypeName e ++ b!"." ++ ev.name)).map
        fun x => Property.mk x.1 false false (.objectRef [] x.2 false []) := by
    rw [List.map_map]; rfl
  simp only [this, List.nil_append, bProps_entries_refs]
  rfl

@[simp] theorem Item.target_object (o : ObjDecl) : (Item.object o).target = .main := rfl
@[simp] theorem Item.target_oneof (o : ObjDecl) : (Item.oneof o).target = .main := rfl
@[simp] theorem Item.target_enum (e : EnumDecl) : (Item.enum e).target = .main := rfl
@[simp] theorem Item.target_serviceFile (ss : List Service) : (Item.serviceFile ss).target = .service := rfl
@[simp] theorem Item.target_topicFile (ts : List Topic) : (Item.topicFile ts).target = .topic := rfl

theorem nestedItem_target (n : Nested) : (nestedItem n).target = .main := by
  cases n <;> rfl

theorem filter_nested (ns : List Nested) (t : Target) :
    (ns.map nestedItem).filter (·.target = t) = if t = .main then ns.map nestedItem else [] := by
  split
  · rename_i h
    apply filter_all_eq
    intro i hi
    obtain ⟨n, _, rfl⟩ := List.mem_map.mp hi
    simp [nestedItem_target, h]
  · rename_i h
    apply filter_all_ne
    intro i hi
    obtain ⟨n, _, rfl⟩ := List.mem_map.mp hi
    simp [nestedItem_target]
    exact fun e => h e.symm

/-- **what a valid entity contributes to the three generated files** -/
theorem entity_files (c : Ctx) (pkg : Str) (e : Entity)
    (hv : filtersOk e = true ∧ summariesDistinct e.summaries = true) :
    ((expand pkg e).filter (·.target = .main)).flatMap (itemMsgs c) =
      [ declMsgOf c [] false [] (keysObject e), declMsgOf c [] false [] (dataObject e),
        declMsgOf c [] false [] (stateObject e), declMsgOf c [] true [] (eventOneof e),
        declMsgOf c [] false [] (eventObject e) ] ++ (e.nested.map nestedItem).flatMap (itemMsgs c) ∧
    ((expand pkg e).filter (·.target = .main)).flatMap (itemEnums c) =
      convEnum (statusEnum e) :: (e.nested.map nestedItem).flatMap (itemEnums c) ∧
    ((expand pkg e).filter (·.target = .service)).flatMap (itemSvcs c) =
      serviceSvcs c (queryService pkg e) ++
        (e.commands.map (commandService pkg e)).flatMap (serviceSvcs c) ∧
    ((expand pkg e).filter (·.target = .topic)).flatMap (itemSvcs c) =
      (topicNodes (publishTopic pkg e)).map topicSvc ++
        (e.summaries.map (summaryTopic pkg e)).flatMap fun t => (topicNodes t).map topicSvc := by
  obtain ⟨hf, hs⟩ := hv
  refine ⟨?_, ?_, ?_, ?_⟩
  · simp only [expand, hf, hs, if_true, List.filter_append, List.filter_cons, Item.target_object,
      Item.target_oneof, Item.target_enum, Item.target_serviceFile, Item.target_topicFile, filter_nested, List.filter_nil, List.flatMap_append, List.flatMap_cons, List.flatMap_nil,
      decide_true, reduceCtorEq, decide_false, Bool.false_eq_true, if_false,
      itemMsgs_object, itemMsgs_enum, itemMsgs_eventOneof, List.append_nil, List.nil_append,
      List.cons_append]
  · simp only [expand, hf, hs, if_true, List.filter_append, List.filter_cons, Item.target_object,
      Item.target_oneof, Item.target_enum, Item.target_serviceFile, Item.target_topicFile, filter_nested, List.filter_nil, List.flatMap_append, List.flatMap_cons, List.flatMap_nil,
      decide_true, reduceCtorEq, decide_false, Bool.false_eq_true, if_false,
      itemEnums_object, itemEnums_enum, itemEnums_oneof, List.append_nil, List.nil_append,
      List.cons_append]
  · simp only [expand, hf, hs, if_true, List.filter_append, List.filter_cons, Item.target_object,
      Item.target_oneof, Item.target_enum, Item.target_serviceFile, Item.target_topicFile, filter_nested, List.filter_nil, List.flatMap_append, List.flatMap_cons, List.flatMap_nil,
      decide_true, reduceCtorEq, decide_false, Bool.false_eq_true, if_false,
      itemSvcs_serviceFile, List.append_nil, List.nil_append, List.cons_append]
  · simp only [expand, hf, hs, if_true, List.filter_append, List.filter_cons, Item.target_object,
      Item.target_oneof, Item.target_enum, Item.target_serviceFile, Item.target_topicFile, filter_nested, List.filter_nil, List.flatMap_append, List.flatMap_cons, List.flatMap_nil,
      decide_true, reduceCtorEq, decide_false, Bool.false_eq_true, if_false,
      itemSvcs_topicFile, List.append_nil, List.nil_append, List.cons_append]

/-- the query service on the skeleton: `<C>QueryService` with the entity annotation and the three
rpcs Get / List / Events in this order -/
theorem queryService_svcs (c : Ctx) (pkg : Str) (e : Entity) :
    serviceSvcs c (queryService pkg e) =
      [{ name := toCamel e.name ++ b!"Query" ++ b!"Service", sopt := .query (snakeName e),
         methods := [getMethod e, listMethod e, eventsMethod e].map
           (methodSkelOf (some (b!"/" ++ baseUrlPath pkg e ++ b!"/q"))) }] := by
  unfold serviceSvcs builtMethods
  simp only [queryService]
  rw [built_methods c _ [getMethod e, listMethod e, eventsMethod e]
    (by intro m hm; simp at hm; rcases hm with rfl | rfl | rfl <;> rfl)
    (by intro m hm; simp at hm; rcases hm with rfl | rfl | rfl <;> simp [getMethod, listMethod, eventsMethod])]
  rfl

end J5V.Compile
