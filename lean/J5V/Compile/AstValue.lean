import J5V.Go.Outcome
import J5V.Compile.Str
/-!
# AstValue — `lib/j5reflect/value_ast.go` + `internal/bcl/internal/parser/value.go` (core only)

`scalarReflectFromAST` converts a BCL literal token to the proto scalar of an attribute. The
integer paths go through `strconv.ParseInt/ParseUint` (base 10), modelled here on byte strings.
Floats are an oracle type and are not modelled.
-/
namespace J5V.Compile
open J5V.Go

abbrev Bytes := Str

/-! ## strconv, base 10 -/

def isDigitB (c : Nat) : Bool := decide (48 ≤ c) && decide (c ≤ 57)

def fmtNatAux : Nat → Nat → Str → Str
  | 0, _, acc => acc
  | fuel + 1, n, acc =>
    if n < 10 then (48 + n) :: acc else fmtNatAux fuel (n / 10) ((48 + n % 10) :: acc)

/-- `strconv.FormatUint(n, 10)` — the text of a decimal literal -/
def fmtNat (n : Nat) : Str := fmtNatAux (n + 1) n []

def pdStep (acc : Option Nat) (c : Nat) : Option Nat :=
  match acc with
  | none => none
  | some n => if isDigitB c then some (n * 10 + (c - 48)) else none

/-- all bytes ASCII digits, at least one: the value (unbounded) -/
def parseDigits : Str → Option Nat
  | [] => none
  | s => s.foldl pdStep (some 0)

/-- `strconv.ParseUint(s, 10, bits)`; `none` = ErrSyntax / ErrRange -/
def parseUint (s : Str) (bits : Nat) : Option Nat :=
  match parseDigits s with
  | some n => if n < 2 ^ bits then some n else none
  | none => none

/-- `strconv.ParseInt(s, 10, bits)` -/
def parseInt (s : Str) (bits : Nat) : Option Int :=
  match s with
  | [] => none
  | c :: rest =>
    let (neg, body) : Bool × Str :=
      if c = 43 then (false, rest) else if c = 45 then (true, rest) else (false, s)
    match parseDigits body with
    | none => none
    | some n =>
      if neg then (if n ≤ 2 ^ (bits - 1) then some (-(n : Int)) else none)
      else (if n < 2 ^ (bits - 1) then some (n : Int) else none)

/-- BCL token types a `parser.Value` can carry -/
inductive TokType where
  | int | decimal | string | description | ident | regex | bool | other
  deriving Repr, DecidableEq, Inhabited

structure AstTok where
  type : TokType
  lit : Bytes

/-- target scalar kinds of `scalarReflectFromAST` (no floats) -/
inductive ScalarFmt where
  | bool | string | key | int32 | int64 | uint32 | uint64
  | other                      -- bytes, timestamp, decimal, date, …: "unsupported scalar type"
  deriving Repr, DecidableEq, Inhabited

inductive AstScalar where
  | bool (b : Bool)
  | str (s : Bytes)
  | int (v : Int)
  | uint (v : Nat)
  deriving Repr, DecidableEq

/-- `Value.AsInt(size)` -/
def asInt (t : AstTok) (size : Nat) : Outcome Int :=
  if t.type ≠ .int then .err "type" else
  match parseInt t.lit size with
  | some v => .ok v
  | none => .err "range"

/-- `Value.AsUint(size)` -/
def asUint (t : AstTok) (size : Nat) : Outcome Nat :=
  if t.type ≠ .int then .err "type" else
  match parseUint t.lit size with
  | some v => .ok v
  | none => .err "range"

/-- `Value.AsString()` -/
def asString (t : AstTok) : Outcome Bytes :=
  if t.type = .string || t.type = .description || t.type = .ident || t.type = .regex then .ok t.lit
  else .err "type"

/-- `Value.AsBool()` -/
def asBool (t : AstTok) : Outcome Bool :=
  if t.type = .bool then .ok (t.lit = b!"true") else .err "type"

/-- the bit size `scalarReflectFromAST` passes for each integer format (INT64 passed 32 until
`fix: 6beb7c7`) -/
def astBits : ScalarFmt → Nat
  | .int32 => 32 | .int64 => 64 | .uint32 => 32 | .uint64 => 64
  | _ => 0

/-- `scalarReflectFromAST` -/
def astToScalar (fmt : ScalarFmt) (t : AstTok) : Outcome AstScalar :=
  match fmt with
  | .bool => (asBool t).map .bool
  | .string => (asString t).map .str
  | .key => (asString t).map .str
  | .int32 => (asInt t (astBits .int32)).map .int
  | .int64 => (asInt t (astBits .int64)).map .int
  | .uint32 => (asUint t (astBits .uint32)).map .uint
  | .uint64 => (asUint t (astBits .uint64)).map .uint
  | .other => .err "unsupported"

/-- the INT token the lexer produces for the decimal literal `n` (BCL has no negative literals) -/
def intLit (n : Nat) : AstTok := ⟨.int, fmtNat n⟩

/-- is `n` a value of the format -/
def inRange : ScalarFmt → Nat → Bool
  | .int32, n => n < 2 ^ 31
  | .int64, n => n < 2 ^ 63
  | .uint32, n => n < 2 ^ 32
  | .uint64, n => n < 2 ^ 64
  | _, _ => false

def intValue : ScalarFmt → Nat → AstScalar
  | .uint32, n => .uint n
  | .uint64, n => .uint n
  | _, n => .int n

end J5V.Compile
