import J5V.Codec.Scalar
/-!
# AstValue — `lib/j5reflect/value_ast.go` + `internal/bcl/internal/parser/value.go` (core only)

`scalarReflectFromAST` converts a BCL literal token to the proto scalar of an attribute. The
integer paths go through `strconv.ParseInt/ParseUint` (model shared with the codec cluster:
`J5V.Codec.parseInt/parseUint`). Floats are an oracle type and are not modelled here.
-/
namespace J5V.Compile
open J5V.Go J5V.Codec J5V.Json

/-- BCL token types a `parser.Value` can carry -/
inductive TokType where
  | int | decimal | string | description | ident | regex | bool | other
  deriving Repr, DecidableEq, Inhabited

structure AstTok where
  type : TokType
  lit : Bytes

/-- target scalar kinds of `scalarReflectFromAST` (no floats) -/
inductive ScalarFmt where
  | bool | string | key | int32 | int64 | uint32 | uint64
  | other                      -- bytes, timestamp, decimal, date, …: "unsupported scalar type"
  deriving Repr, DecidableEq, Inhabited

inductive AstScalar where
  | bool (b : Bool)
  | str (s : Bytes)
  | int (v : Int)
  | uint (v : Nat)
  deriving Repr, DecidableEq

/-- `Value.AsInt(size)` -/
def asInt (t : AstTok) (size : Nat) : Outcome Int :=
  if t.type ≠ .int then .err "type" else
  match parseInt t.lit size with
  | some v => .ok v
  | none => .err "range"

/-- `Value.AsUint(size)` -/
def asUint (t : AstTok) (size : Nat) : Outcome Nat :=
  if t.type ≠ .int then .err "type" else
  match parseUint t.lit size with
  | some v => .ok v
  | none => .err "range"

/-- `Value.AsString()` -/
def asString (t : AstTok) : Outcome Bytes :=
  if t.type = .string || t.type = .description || t.type = .ident || t.type = .regex then .ok t.lit
  else .err "type"

/-- `Value.AsBool()` -/
def asBool (t : AstTok) : Outcome Bool :=
  if t.type = .bool then .ok (t.lit = [0x74, 0x72, 0x75, 0x65]) else .err "type"

/-- the bit size `scalarReflectFromAST` passes for each integer format — **INT64 passes 32** -/
def astBits : ScalarFmt → Nat
  | .int32 => 32 | .int64 => 32 | .uint32 => 32 | .uint64 => 64
  | _ => 0

/-- `scalarReflectFromAST` -/
def astToScalar (fmt : ScalarFmt) (t : AstTok) : Outcome AstScalar :=
  match fmt with
  | .bool => (asBool t).map .bool
  | .string => (asString t).map .str
  | .key => (asString t).map .str
  | .int32 => (asInt t (astBits .int32)).map .int
  | .int64 => (asInt t (astBits .int64)).map .int
  | .uint32 => (asUint t (astBits .uint32)).map .uint
  | .uint64 => (asUint t (astBits .uint64)).map .uint
  | .other => .err "unsupported"

/-- the INT token the lexer produces for the decimal literal `n` (BCL has no negative literals) -/
def intLit (n : Nat) : AstTok := ⟨.int, fmtNat n⟩

/-- is `n` a value of the format -/
def inRange : ScalarFmt → Nat → Bool
  | .int32, n => n < 2 ^ 31
  | .int64, n => n < 2 ^ 63
  | .uint32, n => n < 2 ^ 32
  | .uint64, n => n < 2 ^ 64
  | _, _ => false

def intValue : ScalarFmt → Nat → AstScalar
  | .uint32, n => .uint n
  | .uint64, n => .uint n
  | _, n => .int n

end J5V.Compile
