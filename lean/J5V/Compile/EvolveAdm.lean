import J5V.Compile.EvolveSeq
import J5V.Compile.AppendEditSvc
import J5V.Compile.AppendFresh
import J5V.Compile.EvolveDeepPkg
import J5V.Compile.EvolveDeepSvc
/-!
# Admissible append edits (C13) — core only

The edits for which the package-level theorems of `Props/C13.lean` hold, as one predicate on
(bundle, edit); every constructor carries the (decidable, source-level) side condition of the
corresponding theorem, verbatim.
-/
namespace J5V.Compile

/-- names exported by the package before the edit -/
abbrev pkgExportNames (p : Pkg) : List Str :=
  (p.files.map sumOf).flatMap (fun s => s.exports.map (·.1))

inductive Admissible (pkg : Str) (b : Bundle) : Edit → Prop
  /-- a new top-level declaration whose exported names are new to the package -/
  | decl (fi : Nat) (el : Elem)
      (h : ∀ p path imports elems decl, b.find pkg = some p →
        p.files[fi]? = some (.j5s path imports elems decl) →
        ∀ n ∈ newExportNames path el, n ∉ pkgExportNames p) :
      Admissible pkg b (.appendDecl fi el)
  /-- a field at the end of a top-level object / oneof; its inline types are new names -/
  | field (fi i : Nat) (prop : Property)
      (h : ∀ p path imports E1 E2 io n ps ne psm decl, b.find pkg = some p →
        p.files[fi]? = some (.j5s path imports (E1 ++ [declElem io (.mk n ps ne psm)] ++ E2) decl) →
        E1.length = i → ∀ x ∈ newFieldExportNames n prop, x ∉ pkgExportNames p) :
      Admissible pkg b (.appendField fi [.el i] prop)
  /-- a field at the end of an object / oneof nested at any depth (`nest k`) below a top-level object /
  oneof, or of an inline object / oneof at any depth (`prop j`, through array / map items) -/
  | nested (fi i : Nat) (rest : List PStep) (prop : Property)
      (hk : ∀ p path imports elems decl, b.find pkg = some p →
        p.files[fi]? = some (.j5s path imports elems decl) → ∃ io o, elems[i]? = some (declElem io o))
      (h : ∀ p path imports E1 E2 io o decl, b.find pkg = some p →
        p.files[fi]? = some (.j5s path imports (E1 ++ [declElem io o] ++ E2) decl) → E1.length = i →
        ∀ x ∈ deepFieldExportNames rest o prop, x ∉ pkgExportNames p) :
      Admissible pkg b (.appendField fi (.el i :: rest) prop)
  /-- a field at the end of a request (`rq`) / response -/
  | method (fi i m : Nat) (rq : Bool) (prop : Property)
      (h : ∀ p path imports E1 E2 sv M1 M2 mt decl, b.find pkg = some p →
        p.files[fi]? = some (.j5s path imports (E1 ++ [.service sv] ++ E2) decl) → E1.length = i →
        sv.methods = M1 ++ [mt] ++ M2 → M1.length = m →
        ∀ x ∈ newFieldExportNames (methodObjName rq mt) prop, x ∉ pkgExportNames p) :
      Admissible pkg b (.appendField fi [.el i, .method m, reqStep rq] prop)
  /-- a field at the end of an inline object / oneof at any depth below a request / response -/
  | methodDeep (fi i m : Nat) (rq : Bool) (rest : List PStep) (prop : Property)
      (h : ∀ p path imports E1 E2 sv M1 M2 mt r decl, b.find pkg = some p →
        p.files[fi]? = some (.j5s path imports (E1 ++ [.service sv] ++ E2) decl) → E1.length = i →
        sv.methods = M1 ++ [mt] ++ M2 → M1.length = m →
        (if rq then mt.request else mt.response) = some r →
        ∀ x ∈ methodDeepExportNames rq mt rest r prop, x ∉ pkgExportNames p) :
      Admissible pkg b (.appendField fi (.el i :: .method m :: reqStep rq :: rest) prop)
  /-- a field at the end of a topic message -/
  | topic (fi i k m : Nat) (prop : Property)
      (h : ∀ p path imports E1 E2 t decl, b.find pkg = some p →
        p.files[fi]? = some (.j5s path imports (E1 ++ [.topic t] ++ E2) decl) → E1.length = i →
        ∀ tn ∈ topicNodes t, ∀ tm ∈ tn.msgs, ∀ x ∈ newFieldExportNames (topicObjName tn tm) prop,
          x ∉ pkgExportNames p) :
      Admissible pkg b (.appendField fi [.el i, topicStep k m] prop)
  /-- a field at the end of an inline object / oneof at any depth below a topic message -/
  | topicDeep (fi i k m : Nat) (rest : List PStep) (prop : Property)
      (h : ∀ p path imports E1 E2 t decl, b.find pkg = some p →
        p.files[fi]? = some (.j5s path imports (E1 ++ [.topic t] ++ E2) decl) → E1.length = i →
        ∀ tn ∈ topicNodes t, ∀ tm ∈ tn.msgs, ∀ x ∈ topicDeepExportNames tn tm rest prop,
          x ∉ pkgExportNames p) :
      Admissible pkg b (.appendField fi (.el i :: topicStep k m :: rest) prop)
  /-- an option at the end of a nested / inline enum at any depth below a top-level object / oneof -/
  | optionDeep (fi i : Nat) (rest : List PStep) (o : Str)
      (hk : ∀ p path imports elems decl, b.find pkg = some p →
        p.files[fi]? = some (.j5s path imports elems decl) → ∃ io d, elems[i]? = some (declElem io d)) :
      Admissible pkg b (.appendOption fi (.el i :: rest) o)
  /-- an option at the end of an inline enum below a request / response -/
  | optionMethodDeep (fi i m : Nat) (rq : Bool) (rest : List PStep) (o : Str) :
      Admissible pkg b (.appendOption fi (.el i :: .method m :: reqStep rq :: rest) o)
  /-- an option at the end of an inline enum below a topic message -/
  | optionTopicDeep (fi i k m : Nat) (rest : List PStep) (o : Str) :
      Admissible pkg b (.appendOption fi (.el i :: topicStep k m :: rest) o)
  /-- an option at the end of a top-level enum (referred to or not) -/
  | option (fi i : Nat) (o : Str) : Admissible pkg b (.appendOption fi [.el i] o)

end J5V.Compile
