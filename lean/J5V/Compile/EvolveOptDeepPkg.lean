import J5V.Compile.EvolveOptDeep
import J5V.Compile.EvolveEnumPkg
/-!
# An option appended to a nested / inline enum at any depth, package level (C13) — core only
-/
namespace J5V.Compile
open J5V.Go

/-- `convertFile_replace_main` where the relation between the main-file items is only asked for the
conversion context of the file, and may use that no step of the old conversion recorded an error -/
theorem convertFile_replace_main_c (res : Resolver) (path : Str) (imports : List Import)
    (elems elems' : List Elem) (fs fs' : List FileSkel)
    (h : convertFile res path imports elems = .ok fs)
    (h' : convertFile res path imports elems' = .ok fs')
    (RM : List MsgSkel → List MsgSkel → Prop) (RE : List EnumSkel → List EnumSkel → Prop)
    (hRM : ∀ x, RM x x) (hRE : ∀ x, RE x x)
    (hsub : ∀ t, t ≠ Target.main →
      (elems.flatMap (itemsOfElem (packageFromFilename (path ++ b!".proto")))).filter (·.target = t) =
      (elems'.flatMap (itemsOfElem (packageFromFilename (path ++ b!".proto")))).filter (·.target = t))
    (hmain : ∀ c : Ctx,
      (∀ s ∈ fileSteps c (packageFromFilename (path ++ b!".proto")) elems, s.eff.errs = 0) →
      RM (((elems.flatMap (itemsOfElem (packageFromFilename (path ++ b!".proto")))).filter
            (·.target = .main)).flatMap (itemMsgs c))
         (((elems'.flatMap (itemsOfElem (packageFromFilename (path ++ b!".proto")))).filter
            (·.target = .main)).flatMap (itemMsgs c)) ∧
      RE (((elems.flatMap (itemsOfElem (packageFromFilename (path ++ b!".proto")))).filter
            (·.target = .main)).flatMap (itemEnums c))
         (((elems'.flatMap (itemsOfElem (packageFromFilename (path ++ b!".proto")))).filter
            (·.target = .main)).flatMap (itemEnums c))) :
    ∀ f ∈ fs, ∃ f' ∈ fs', f'.name = f.name ∧ f'.pkg = f.pkg ∧ f.svcs = f'.svcs ∧
      RM f.msgs f'.msgs ∧ RE f.enums f'.enums := by
  obtain ⟨im, hj, hrest⟩ := convertFile_exact res path imports elems fs h
  obtain ⟨im', hj', hrest'⟩ := convertFile_exact res path imports elems' fs' h'
  have him : im' = im := by rw [hj] at hj'; exact (Outcome.ok.inj hj').symm
  subst him
  obtain ⟨im2, hj2, hinv⟩ := convertFile_ok_inv res path imports elems fs h
  have him2 : im2 = im' := by rw [hj] at hj2; exact (Outcome.ok.inj hj2).symm
  subst him2
  simp only [] at hrest hrest' hinv
  obtain ⟨_, herrs, _⟩ := hinv
  have hsum := (rootInv_run (path ++ b!".proto") (packageFromFilename (path ++ b!".proto"))
    (fileSteps { resolve := resolveTypeNoImport im2 res }
      (packageFromFilename (path ++ b!".proto")) elems)).errs
  rw [hsum] at herrs
  have hsteps : ∀ s ∈ fileSteps { resolve := resolveTypeNoImport im2 res }
      (packageFromFilename (path ++ b!".proto")) elems, s.eff.errs = 0 :=
    fun s hs => sum_eq_zero_mem herrs _ (List.mem_map_of_mem hs)
  obtain ⟨main, subs, hfs, hname, hpkg, hsvcs, hmsgs, henums, _, hsubs, _⟩ := hrest
  obtain ⟨main', subs', hfs', hname', hpkg', hsvcs', hmsgs', henums', _, hsubs', hall'⟩ := hrest'
  intro f hf
  rw [hfs] at hf
  rcases List.mem_cons.mp hf with rfl | hf
  · refine ⟨main', by rw [hfs']; simp, by rw [hname', hname], by rw [hpkg', hpkg], by rw [hsvcs, hsvcs'], ?_, ?_⟩
    · rw [hmsgs, hmsgs']; exact (hmain _ hsteps).1
    · rw [henums, henums']; exact (hmain _ hsteps).2
  · obtain ⟨t, k, htk, hex, hfn, hfp, hfm, hfe, hfsv⟩ := hsubs f hf
    have htm : t ≠ Target.main := by intro e; rw [e] at htk; cases htk
    have hex' : ∃ i ∈ elems'.flatMap (itemsOfElem (packageFromFilename (path ++ b!".proto"))), i.target = t := by
      obtain ⟨i, hi, hit⟩ := hex
      have : i ∈ (elems.flatMap (itemsOfElem (packageFromFilename (path ++ b!".proto")))).filter (·.target = t) := by
        simp [List.mem_filter, hi, hit]
      rw [hsub t htm] at this
      exact ⟨i, (List.mem_filter.mp this).1, hit⟩
    obtain ⟨f', hf', hf'p⟩ := hall' t k htk hex'
    obtain ⟨t', k', htk', _, hfn', hfp', hfm', hfe', hfsv'⟩ := hsubs' f' hf'
    have hk : k' = k := by
      rw [hfp'] at hf'p
      exact List.append_cancel_left hf'p
    subst hk
    have ht : t' = t := target_sub_inj t' t k' htk' htk
    subst ht
    refine ⟨f', by rw [hfs']; exact List.mem_cons_of_mem _ hf', by rw [hfn', hfn], by rw [hfp', hfp], ?_, ?_, ?_⟩
    · rw [hfsv, hfsv', hsub t' htm]
    · rw [hfm, hfm', hsub t' htm]; exact hRM _
    · rw [hfe, hfe']; exact hRE _

/-- `appendOption` with the path `el i :: rest` where the `i`-th element is an object or a oneof -/
theorem editElems_option_decl (o : Str) (i : Nat) (rest : List PStep) (elems elems' : List Elem)
    (io : Bool) (d : ObjDecl) (hk : elems[i]? = some (declElem io d))
    (h : editElems (.option o) (.el i :: rest) elems = some elems') :
    ∃ E1 E2 d', elems = E1 ++ [declElem io d] ++ E2 ∧ elems' = E1 ++ [declElem io d'] ++ E2 ∧
      E1.length = i ∧ editDecl (.option o) rest d = some d' := by
  simp only [editElems] at h
  obtain ⟨a, a', h1, hf, h2, h3⟩ := setAt_some _ _ _ _ h
  have ha : a = declElem io d := by
    have : elems[i]? = some a := by
      rw [h1, List.append_assoc, List.getElem?_append_right (by omega)]
      simp [h3]
    rw [hk] at this
    exact (Option.some.inj this).symm
  subst ha
  cases io with
  | false =>
    simp only [declElem, editElem] at hf
    obtain ⟨d', ho, rfl⟩ := Option.map_eq_some_iff.mp hf
    exact ⟨_, _, d', h1, h2, h3, ho⟩
  | true =>
    simp only [declElem, editElem] at hf
    obtain ⟨d', ho, rfl⟩ := Option.map_eq_some_iff.mp hf
    exact ⟨_, _, d', h1, h2, h3, ho⟩

theorem summary_append_option_deep (path : Str) (imports : List Import) (E1 E2 : List Elem)
    (io : Bool) (d d' : ObjDecl) (rest : List PStep) (o : Str)
    (he : editDecl (.option o) rest d = some d') (s s' : Summary')
    (hs : sourceSummary path imports (E1 ++ [declElem io d] ++ E2) = .ok s)
    (hs' : sourceSummary path imports (E1 ++ [declElem io d'] ++ E2) = .ok s') :
    (∀ (X Y : List (Str × TypeRef)) k,
      UpOrEq (mapGet (X ++ s.exports ++ Y) k) (mapGet (X ++ s'.exports ++ Y) k)) ∧
    (∀ x ∈ s.depPkgs, x ∈ s'.depPkgs) := by
  obtain ⟨im, ex, hj, hex, hexp, hdep⟩ := sourceSummary_ok_inv path imports _ s hs
  obtain ⟨im', ex', hj', hex', hexp', hdep'⟩ := sourceSummary_ok_inv path imports _ s' hs'
  have him : im' = im := by rw [hj] at hj'; exact (Outcome.ok.inj hj').symm
  subst him
  obtain ⟨⟨A, C, k0, pfx, names, names', hA, hB, hsub⟩, hrefs⟩ := editDecl_opt_exports o rest d d' he [] io
  constructor
  · intro X Y k
    rw [hexp, hexp']
    simp only [List.flatMap_append, List.flatMap_cons, List.flatMap_nil, List.append_nil, itemsOfElem_decl,
      itemExports_declItem, hA, hB, List.map_append, List.map_cons, List.map_nil]
    have := mapGet_update
      (X ++ (((E1.flatMap (itemsOfElem (packageFromFilename (path ++ b!".proto")))).flatMap itemExports).map
        (fun x => (x.1, (⟨packageFromFilename (path ++ b!".proto"), x.1, path ++ b!".proto", x.2⟩ : TypeRef))) ++
        A.map (fun x => (x.1, (⟨packageFromFilename (path ++ b!".proto"), x.1, path ++ b!".proto", x.2⟩ : TypeRef)))))
      (C.map (fun x => (x.1, (⟨packageFromFilename (path ++ b!".proto"), x.1, path ++ b!".proto", x.2⟩ : TypeRef))) ++
        (((E2.flatMap (itemsOfElem (packageFromFilename (path ++ b!".proto")))).flatMap itemExports).map
        (fun x => (x.1, (⟨packageFromFilename (path ++ b!".proto"), x.1, path ++ b!".proto", x.2⟩ : TypeRef))) ++ Y))
      k0 ⟨packageFromFilename (path ++ b!".proto"), k0, path ++ b!".proto", .enum pfx names⟩
      pfx names names' rfl hsub k
    simpa [List.append_assoc] using this
  · intro x hx
    rw [hdep] at hx
    rw [hdep']
    obtain ⟨y, hy, hyx⟩ := List.mem_map.mp hx
    obtain ⟨r, hr, hfr⟩ := (mapM_some_mem _ _ _ hex y).mp hy
    refine List.mem_map.mpr ⟨y, (mapM_some_mem _ _ _ hex' y).mpr ⟨r, ?_, hfr⟩, hyx⟩
    simpa [List.flatMap_append, itemsOfElem_decl, itemRefs_declItem, hrefs] using hr

theorem convertFile_append_option_deep (res : Resolver) (path : Str) (imports : List Import)
    (E1 E2 : List Elem) (io : Bool) (d d' : ObjDecl) (rest : List PStep) (o : Str)
    (he : editDecl (.option o) rest d = some d') (fs fs' : List FileSkel)
    (h : convertFile res path imports (E1 ++ [declElem io d] ++ E2) = .ok fs)
    (h' : convertFile res path imports (E1 ++ [declElem io d'] ++ E2) = .ok fs') :
    ∀ f ∈ fs, ∃ f' ∈ fs', f.LeDeep f' := by
  apply convertFile_replace_main_c res path imports _ _ fs fs' h h' MsgsLeDeep EnumsLe MsgsLeDeep.refl
    EnumsLe.refl
  · intro t ht
    have hd : ∀ o, decide ((declItem io o).target = t) = false := by
      intro o; rw [declItem_target]; simpa using fun e => ht e.symm
    simp only [List.flatMap_append, List.flatMap_cons, List.flatMap_nil, List.append_nil,
      itemsOfElem_decl, List.filter_append, List.filter_cons, hd, List.filter_nil]
    simp
  · intro c hsteps
    have hd : ∀ o, decide ((declItem io o).target = Target.main) = true := by
      intro o; rw [declItem_target]; simp
    have herr : (convDecl c [] io [] d).errs = 0 := by
      apply hsteps { target := .main, eff := convDecl c [] io [] d }
      simp only [fileSteps, List.flatMap_append, List.flatMap_cons, List.flatMap_nil, List.append_nil,
        itemsOfElem_decl, List.mem_append]
      refine Or.inl (Or.inr ?_)
      cases io <;> simp [declItem, convItem]
    simp only [List.flatMap_append, List.flatMap_cons, List.flatMap_nil, List.append_nil,
      itemsOfElem_decl, List.filter_append, List.filter_cons, hd, List.filter_nil, if_true,
      itemEnums_decl, itemMsgs_declItem]
    refine ⟨?_, EnumsLe.refl _⟩
    exact MsgsLeDeep.append (MsgsLeDeep.append (MsgsLeDeep.refl _)
      (editDecl_opt_deep c o rest d d' he [] io [] herr).1) (MsgsLeDeep.refl _)

end J5V.Compile
