import J5V.Compile.EntityProofs
import J5V.Compile.ShapeProofs
/-!
# Entity: command services, topics, the Keys message (C17) — core only, helpers
-/
namespace J5V.Compile
open J5V.Go Entity

/-- without errors the `i`-th field of a property list is the field of the `i`-th property,
converted with number `n + i` -/
theorem bProps_flds_getElem (c : Ctx) (np : List Str) (io : Bool) (n : Nat) (ps : List Property)
    (h : (bProps c np io n ps).eff.errs = 0) :
    ∀ i (hi : i < ps.length), (bProps c np io n ps).flds[i]? = (bProperty c np io (n + i) ps[i]).fld := by
  induction ps generalizing n with
  | nil => intro i hi; simp at hi
  | cons p ps ih =>
    have h0 := bProps_errs_zero c np io n (p :: ps) h 0 (by simp)
    simp only [Nat.add_zero, List.getElem_cons_zero] at h0
    rw [bProps_cons] at h
    simp only [Eff.add_def, Eff.add] at h
    have h2 : (bProps c np io (n + 1) ps).eff.errs = 0 := by
      cases io <;> simp at h <;> omega
    intro i hi
    cases hfld : (bProperty c np io n p).fld with
    | none => have := bProperty_none_errs c np io n p hfld; omega
    | some f =>
      rw [bProps_cons]
      simp only [hfld, List.singleton_append]
      cases i with
      | zero => simp [hfld]
      | succ j =>
        have := ih (n + 1) h2 j (by simpa using hi)
        simp only [List.getElem?_cons_succ, List.getElem_cons_succ, this]
        rw [show n + 1 + j = n + (j + 1) by omega]

/-- the field a flattened object reference produces -/
theorem flattenRef_fld (c : Ctx) (np : List Str) (io : Bool) (n : Nat) (nm sc : Str) (f : FieldSkel)
    (h : (bProperty c np io n (.mk nm true false (.objectRef [] sc true []))).fld = some f) :
    f.number = n ∧ f.name = toSnake nm ∧ f.type = .message ∧ f.ext = b!"object+flatten" ∧ f.req = true := by
  simp only [bProperty, bField, msgRefField] at h
  cases hr : refField c [] sc false with
  | mk e o =>
    cases o with
    | none => simp [hr] at h
    | some t =>
      simp only [hr] at h
      have := finishProperty_fld _ _ _ _ _ _ _ _ _ _ h
      refine ⟨this.1, this.2.1, this.2.2.2.2.2.2.2.1, ?_, ?_⟩
      · rw [this.2.2.2.2.2.2.2.2.2]; rfl
      · rw [this.2.2.2.2.2.2.1]; rfl


namespace Entity

/-- name of a command service: the declared name with the suffix `Command` (not doubled), or
`<C>Command` -/
def commandName (e : Entity) (s : Service) : Str :=
  match s.name with
  | some n => if hasSuffix b!"Command" n then n else n ++ b!"Command"
  | none => toCamel e.name ++ b!"Command"

/-- base path of a command service -/
def commandBase (pkg : Str) (e : Entity) (s : Service) : Str :=
  match s.basePath with
  | some bp => b!"/" ++ baseUrlPath pkg e ++ b!"/" ++ bp
  | none => b!"/" ++ baseUrlPath pkg e ++ b!"/c"

/-- fields of the message of the publish topic -/
def publishProps (e : Entity) : List Property :=
  [ .mk b!"metadata" true false (refField b!"j5.state.v1" b!"EventPublishMetadata"),
    .mk b!"keys" true false (refField [] (componentName e b!"Keys")),
    .mk b!"event" true false (.oneofRef [] (componentName e b!"EventType") [] false),
    .mk b!"data" true false (innerRef e b!"Data"),
    .mk b!"status" true false (.enumRef [] (componentName e b!"Status") [] none) ]

theorem publishTopic_type (pkg : Str) (e : Entity) :
    (publishTopic pkg e).type =
      .event (fullName pkg e) { name := some (toCamel e.name ++ b!"Event"), props := publishProps e } := rfl

end Entity
end J5V.Compile
