import J5V.Compile.Strcase
import J5V.Compile.SourceDef
import J5V.Go.Outcome
/-!
# Imports, type references, the import map (core only)

Mirrors `j5convert/imports.go` (constants, `implicitImports`, `j5Imports`, `importMap.expand`,
`resolveTypeNoImport`), `j5convert/summary.go` (`TypeRef`, `protoTypeName`, `EnumRef.mapValues`)
and `protobuild/packages.go` (`Package.ResolveType`).
-/
namespace J5V.Compile
open J5V.Go

def bufValidateImport : Str := b!"buf/validate/validate.proto"
def j5ExtImport : Str := b!"j5/ext/v1/annotations.proto"
def j5DateImport : Str := b!"j5/types/date/v1/date.proto"
def j5DecimalImport : Str := b!"j5/types/decimal/v1/decimal.proto"
def j5ListAnnotationsImport : Str := b!"j5/list/v1/annotations.proto"
def pbTimestampImport : Str := b!"google/protobuf/timestamp.proto"
def j5AnyImport : Str := b!"j5/types/any/v1/any.proto"
def googleApiHttpBodyImport : Str := b!"google/api/httpbody.proto"
def googleApiAnnotationsImport : Str := b!"google/api/annotations.proto"
def googleProtoEmptyImport : Str := b!"google/protobuf/empty.proto"
def messagingAnnotationsImport : Str := b!"j5/messaging/v1/annotations.proto"
def googleProtoEmptyType : Str := b!".google.protobuf.Empty"

/-- `MessageRef` / `EnumRef` of a `TypeRef` -/
inductive TKind where
  | message (oneof : Bool)
  /-- `EnumRef`: prefix and the keys of `ValMap` -/
  | enum (pfx : Str) (names : List Str)
  deriving Repr, DecidableEq, Inhabited

def TKind.isMessage : TKind → Bool
  | .message _ => true
  | _ => false

structure TypeRef where
  pkg : Str
  name : Str
  file : Str
  kind : TKind
  deriving Repr, DecidableEq, Inhabited

/-- `TypeRef.protoTypeName` -/
def TypeRef.protoTypeName (t : TypeRef) : Str :=
  if t.pkg = [] then t.name else b!"." ++ t.pkg ++ b!"." ++ t.name

/-- `EnumRef.mapValues`: `ok` iff every value (after prefixing) is a key of `ValMap` -/
def mapValuesOk (pfx : Str) (names : List Str) (vals : List Str) : Bool :=
  vals.all fun v =>
    let v' := if hasPrefix pfx v then v else pfx ++ v
    names.contains v'

private def mref (pkg name file : Str) : TypeRef := ⟨pkg, name, file, .message false⟩

/-- `implicitImports` -/
def implicitImports : List (Str × List TypeRef) :=
  [ (b!"j5.state.v1",
      [ mref b!"j5.state.v1" b!"StateMetadata" b!"j5/state/v1/metadata.proto",
        mref b!"j5.state.v1" b!"EventMetadata" b!"j5/state/v1/metadata.proto",
        mref b!"j5.state.v1" b!"EventPublishMetadata" b!"j5/state/v1/metadata.proto" ]),
    (b!"j5.list.v1",
      [ mref b!"j5.list.v1" b!"PageRequest" b!"j5/list/v1/page.proto",
        mref b!"j5.list.v1" b!"PageResponse" b!"j5/list/v1/page.proto",
        mref b!"j5.list.v1" b!"QueryRequest" b!"j5/list/v1/query.proto" ]),
    (b!"j5.messaging.v1",
      [ mref b!"j5.messaging.v1" b!"UpsertMetadata" b!"j5/messaging/v1/upsert.proto",
        mref b!"j5.messaging.v1" b!"RequestMetadata" b!"j5/messaging/v1/reqres.proto" ]) ]

/-- `implicitRef` -/
def implicitRef (pkg schema : Str) : Option TypeRef :=
  match implicitImports.lookup pkg with
  | some exports => exports.find? (·.name = schema)
  | none => none

/-- `PackageFromFilename`: directory with `/` → `.` -/
def packageFromFilename (filename : Str) : Str :=
  let dir := trimSuffix (pathSplit filename).1 b!"/"
  joinWith b!"." (splitOnByte 47 dir)

/-- a Go `map[string]V` written in program order: the last write for a key wins -/
def mapGet {V : Type} (m : List (Str × V)) (k : Str) : Option V :=
  (m.reverse.find? (·.1 = k)).map (·.2)

structure ImportMap where
  vals : List (Str × Str)      -- key → fullPath, in insertion order (`mapGet`)
  thisPackage : Str

/-- the loop of `j5Imports`: `none` = "empty import" (immediate return), otherwise the entries
and the number of collected errors -/
def j5ImportsGo : List Import → Option (List (Str × Str) × Nat)
  | [] => some ([], 0)
  | imp :: rest =>
    if imp.path = [] then none else
    match j5ImportsGo rest with
    | none => none
    | some (vals, errs) =>
      if containsByte 47 imp.path then
        let pkg := packageFromFilename imp.path
        some ((pkg, pkg) :: vals, errs)
      else if imp.alias ≠ [] then
        some ((imp.alias, imp.path) :: vals, errs)
      else
        let parts := splitOnByte 46 imp.path
        if parts.length < 2 then some (vals, errs + 1)
        else
          let withoutVersion := parts.getD (parts.length - 2) []
          some ((withoutVersion, imp.path) :: (imp.path, imp.path) :: vals, errs)

/-- `j5Imports` -/
def j5Imports (thisPackage : Str) (imports : List Import) : Outcome ImportMap :=
  match j5ImportsGo imports with
  | none => .err "empty-import"
  | some (vals, errs) => if errs > 0 then .err "invalid-import" else .ok ⟨vals, thisPackage⟩

/-- result of `importMap.expand` -/
inductive Expanded where
  | implicit (t : TypeRef)
  | ref (pkg schema : Str)
  deriving Repr, DecidableEq

/-- `importMap.expand`; `none` = package not imported -/
def ImportMap.expand (im : ImportMap) (pkg schema : Str) : Option Expanded :=
  if pkg = [] || pkg = im.thisPackage then some (.ref im.thisPackage schema)
  else match implicitRef pkg schema with
    | some t => some (.implicit t)
    | none =>
      match mapGet im.vals pkg with
      | none => none
      | some full =>
        match implicitRef full schema with
        | some t => some (.implicit t)
        | none => some (.ref full schema)

/-- the package a reference makes the file depend on (`FileSummary.TypeDependencies`) -/
def Expanded.pkg : Expanded → Str
  | .implicit t => t.pkg
  | .ref p _ => p

/-- what `Package.ResolveType` consults: own exports and the exports of each direct dependency,
both in map-write order -/
structure Resolver where
  pkgName : Str
  exports : List (Str × TypeRef)
  deps : List (Str × List (Str × TypeRef))

/-- `Package.ResolveType` -/
def Resolver.resolveType (r : Resolver) (pkg name : Str) : Option TypeRef :=
  if pkg = r.pkgName then mapGet r.exports name
  else match mapGet r.deps pkg with
    | none => none
    | some ex => mapGet ex name

/-- `rootContext.resolveTypeNoImport` -/
def resolveTypeNoImport (im : ImportMap) (r : Resolver) (pkg schema : Str) : Option TypeRef :=
  match im.expand pkg schema with
  | none => none
  | some (.implicit t) => some t
  | some (.ref p s) => r.resolveType p s

end J5V.Compile
