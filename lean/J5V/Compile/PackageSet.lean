import J5V.Compile.Link
/-!
# PackageSet — the cache shared by `CompilePackage` calls, listing permutations (C14, core only)

`PSet` is `PackageSet.Packages`: packages loaded so far. `loadPkgS` is `loadPackage` with the
cache (cycle check first, then cache lookup, then load, then store — dependencies are stored even
when the package itself fails later). `compileCalls` runs a sequence of `CompilePackage` calls on
one set or on fresh sets; `permuteBundle` applies the listing permutations of a `variant`.

Not modelled: `SearchResult.Linked` (link results cached on the file): the link step is recomputed,
which gives the same answer whenever the files of the package have no duplicate symbols.
-/
namespace J5V.Compile
open J5V.Go

abbrev PSet := List (Str × Loaded)

def PSet.get (ps : PSet) (name : Str) : Option Loaded := (ps.find? (·.1 = name)).map (·.2)

/-- `resolveDependencies` with the cache threaded through -/
def seqLoadS (load : Str → PSet → PSet × Outcome Loaded) : List Str → PSet → PSet × Outcome (List Loaded)
  | [], ps => (ps, .ok [])
  | d :: ds, ps =>
    match load d ps with
    | (ps1, .err t) => (ps1, .err t)
    | (ps1, .panic w) => (ps1, .panic w)
    | (ps1, .ok l) =>
      match seqLoadS load ds ps1 with
      | (ps2, .ok more) => (ps2, .ok (l :: more))
      | (ps2, .err t) => (ps2, .err t)
      | (ps2, .panic w) => (ps2, .panic w)

/-- `loadPackage` with the cache -/
def loadPkgS (b : Bundle) : Nat → List Str → Str → PSet → PSet × Outcome Loaded
  | 0, _, _, ps => (ps, .err "fuel")
  | fuel + 1, chain, name, ps =>
    if chain.contains name then (ps, .err "circular") else
    match ps.get name with
    | some l => (ps, .ok l)
    | none =>
      match b.find name with
      | none =>
        if builtinPkgs.contains name then
          let l : Loaded := { name := name, exports := [], deps := [], files := [] }
          (ps ++ [(name, l)], .ok l)
        else (ps, .err "no-package")
      | some pkg =>
        match summaries pkg.files with
        | .err t => (ps, .err t)
        | .panic w => (ps, .panic w)
        | .ok sums =>
          match seqLoadS (fun d ps => loadPkgS b fuel (chain ++ [name]) d ps) (depNamesOf name sums) ps with
          | (ps1, .err t) => (ps1, .err t)
          | (ps1, .panic w) => (ps1, .panic w)
          | (ps1, .ok ls) =>
            match convertAll (mkResolver name sums ls) pkg.files with
            | .err t => (ps1, .err t)
            | .panic w => (ps1, .panic w)
            | .ok files =>
              let l := mkLoaded name pkg sums ls files
              (ps1 ++ [(name, l)], .ok l)

/-- `CompilePackage` on an existing set -/
def compileOn (b : Bundle) (ps : PSet) (name : Str) : PSet × Outcome (List FileSkel) :=
  match loadPkgS b (b.pkgs.length + 1) [] name ps with
  | (ps', .err t) => (ps', .err t)
  | (ps', .panic w) => (ps', .panic w)
  | (ps', .ok l) => (ps', linkFiles (l.depFiles.map (·.lfile) ++ l.protos.map protoLFile) (sortFiles l.files))

/-- a sequence of `CompilePackage` calls; the last result per package is kept -/
def compileCalls (b : Bundle) (reuse : Bool) : List Str → PSet → List (Str × Outcome (List FileSkel))
  | [], _ => []
  | n :: rest, ps =>
    let (ps', r) := compileOn b (if reuse then ps else []) n
    (n, r) :: compileCalls b reuse rest ps'

def permuteList {α : Type} [Inhabited α] (l : List α) (perm : List Nat) : List α := perm.map (l.getD · default)

instance : Inhabited SrcFile := ⟨.proto [] [] []⟩
instance : Inhabited Pkg := ⟨⟨[], []⟩⟩

/-- apply the listing permutations of a variant: package order, per-package file order -/
def permuteBundle (b : Bundle) (pkgPerm : List Nat) (filePerms : List (Nat × List Nat)) : Bundle :=
  let pkgs := b.pkgs.zipIdx.map fun (p, i) =>
    match filePerms.lookup i with
    | some perm => { p with files := permuteList p.files perm }
    | none => p
  { pkgs := permuteList pkgs pkgPerm }

def isPermOf (perm : List Nat) (n : Nat) : Bool :=
  perm.length = n && (List.range n).all fun i => perm.contains i

/-- the `det` op: compile under a variant; one entry per package, sorted by package name -/
def detRun (b : Bundle) (pkgPerm : List Nat) (filePerms : List (Nat × List Nat)) (calls : List Nat)
    (reuse : Bool) : List (Str × Outcome (List FileSkel)) :=
  let b' := permuteBundle b pkgPerm filePerms
  let names := b.pkgs.map (·.name)
  let callNames := calls.map (names.getD · [])
  let missing := names.filter fun n => !callNames.contains n
  let results := compileCalls b' reuse (callNames ++ missing) []
  let last (n : Str) : Outcome (List FileSkel) :=
    match results.reverse.find? (·.1 = n) with
    | some r => r.2
    | none => .err "not-called"
  (sortStrings (dedup names)).map fun n => (n, last n)

end J5V.Compile
