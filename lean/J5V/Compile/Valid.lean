import J5V.Compile.RefsPkg
/-!
# A decidable "within the supported language" predicate, and acceptance by the converter (core only)

`okProps c ps` says, by recursion over the source alone (the conversion context `c` is only asked
to resolve references): every reference resolves to a type of the right kind; `in` / `notIn` /
default-filter values of an enum field name options of the enum; no array / map directly inside
an array / map; integer `exclusive*` rules come with their bound; no float rules (recorded
finding); nothing is both required (or a primary key) and explicitly optional.
Then `buildProperty` records no error: `bProps_accepts`.
-/
namespace J5V.Compile
open J5V.Go

/-- a `key` field marked as primary key (directly or as array items: the `(j5.ext.v1.key)` option
sits on the item descriptor, which becomes the field) -/
def keyPrimary : Field → Bool
  | .key _ ek _ _ => ek.isPrimary
  | _ => false

def isPrimaryField : Field → Bool
  | .array items _ => keyPrimary items
  | f => keyPrimary f

def okRef (c : Ctx) (pkg schema : Str) : Bool :=
  match c.resolve pkg schema with
  | some t => t.kind.isMessage
  | none => false

def okEnumVals (pfx : Str) (names : List Str) (rules : Rules) (lr : Option (List Str)) : Bool :=
  mapValuesOk pfx names (enumRuleVals rules) && mapValuesOk pfx names (lr.getD [])

mutual
/-- a field as `buildField` sees it (the field of a property, or the items of an array / map);
`d` = default nesting name -/
def okField (c : Ctx) (d : Str) : Field → Bool
  | .objectRef pkg schema _ _ => okRef c pkg schema
  | .oneofRef pkg schema _ _ => okRef c pkg schema
  | .enumRef pkg schema rules lr =>
    match c.resolve pkg schema with
    | some t =>
      match t.kind with
      | .enum pfx names => okEnumVals pfx names rules lr
      | .message _ => false
    | none => false
  | .objectInl _ props _ _ => okProps c props
  | .oneofInl _ props _ _ => okProps c props
  | .enumInl e rules lr =>
    let e' : EnumDecl := if e.name = [] then { e with name := d } else e
    okEnumVals (enumPrefix e')
      ((enumPrefix e' ++ b!"UNSPECIFIED") :: (enumValues (enumPrefix e') e'.opts).map (·.1)) rules lr
  | .array _ _ => false
  | .map _ _ => false
  | .integer _ rules _ => rules.isEmpty || !intRulesErr rules
  | .float _ rules _ => rules.isEmpty
  | _ => true
def okProperty (c : Ctx) : Property → Bool
  | .mk name req opt schema =>
    !(opt && (req || isPrimaryField schema)) &&
    (match schema with
     | .array items _ => okField c (toCamel name) items
     | .map items _ => okField c (toCamel name) items
     | f => okField c (toCamel name) f)
def okProps (c : Ctx) : List Property → Bool
  | [] => true
  | p :: ps => okProperty c p && okProps c ps
end

theorem okProperty_built (c : Ctx) (name : Str) (req opt : Bool) (schema : Field) :
    okProperty c (.mk name req opt schema) =
      (!(opt && (req || isPrimaryField schema)) && okField c (toCamel name) (builtField schema)) := by
  cases schema <;> simp [okProperty, builtField]

@[simp] theorem j5Ext_errs : j5Ext.errs = 0 := by simp [j5Ext, Eff.imp, Eff.use]
@[simp] theorem validateWithImport_errs (b : Bool) : (validateWithImport b).errs = 0 := by
  cases b <;> simp [validateWithImport, Compile.when, Eff.imp, Eff.use]
@[simp] theorem listRulesEff_errs (b : Bool) : (listRulesEff b).errs = 0 := by
  cases b <;> simp [listRulesEff, Compile.when, Eff.imp, Eff.use]
@[simp] theorem Eff.imp_errs (p : Str) : (Eff.imp p).errs = 0 := rfl
@[simp] theorem Eff.use_errs (p : Str) : (Eff.use p).errs = 0 := rfl
@[simp] theorem when_errs (b : Bool) (e : Eff) : (Compile.when b e).errs = if b then e.errs else 0 := by
  cases b <;> rfl

theorem refField_of_ok (c : Ctx) (pkg schema : Str) (h : okRef c pkg schema = true) :
    ∃ t, refField c pkg schema false = (Eff.imp t.file, some t) := by
  unfold okRef at h
  unfold refField
  cases hr : c.resolve pkg schema with
  | none => simp [hr] at h
  | some t =>
    simp only [hr] at h
    exact ⟨t, by simp [h]⟩

theorem msgRefField_accepts (c : Ctx) (pkg schema ext : Str) (rules : Rules) (lr : Bool)
    (h : okRef c pkg schema = true) :
    (msgRefField c pkg schema ext rules lr).res.isSome = true ∧
    (msgRefField c pkg schema ext rules lr).eff.errs = 0 ∧
    (∀ r, (msgRefField c pkg schema ext rules lr).res = some r → r.primaryKey = false) := by
  obtain ⟨t, ht⟩ := refField_of_ok c pkg schema h
  unfold msgRefField
  rw [ht]
  refine ⟨rfl, ?_, ?_⟩
  · simp
  · intro r hr
    simp only [Option.some.injEq] at hr
    subst hr; rfl

theorem enumFieldWith_accepts (pre walk : Eff) (tn pfx : Str) (names : List Str) (rules : Rules)
    (lr : Option (List Str)) (h : okEnumVals pfx names rules lr = true) :
    (enumFieldWith pre walk tn pfx names rules lr).res.isSome = true ∧
    (enumFieldWith pre walk tn pfx names rules lr).eff.errs = pre.errs ∧
    (∀ r, (enumFieldWith pre walk tn pfx names rules lr).res = some r → r.primaryKey = false) := by
  simp only [okEnumVals, Bool.and_eq_true] at h
  unfold enumFieldWith
  simp only [h.1, h.2, Bool.not_true, Bool.false_eq_true, if_false]
  refine ⟨rfl, by simp, ?_⟩
  intro r hr
  simp only [Option.some.injEq] at hr
  subst hr; rfl

/-- scalar branches: accepted unless integer / float rules say otherwise; only `key` fields can
be primary keys -/
theorem scalarField_accepts (d : Str) (c : Ctx) (f : Field) (b : BF) (hs : scalarField f = some b)
    (hok : okField c d f = true) :
    b.res.isSome = true ∧ b.eff.errs = 0 ∧ (∀ r, b.res = some r → r.primaryKey = keyPrimary f) := by
  cases f <;> simp only [scalarField, Option.some.injEq, reduceCtorEq] at hs
  case integer fmt rules lr =>
    simp only [okField, Bool.or_eq_true, Bool.not_eq_true'] at hok
    split at hs
    · rename_i hbad
      simp only [Bool.and_eq_true, Bool.not_eq_true'] at hbad
      rcases hok with h | h
      · rw [h] at hbad; simp at hbad
      · rw [h] at hbad; simp at hbad
    · simp only [Option.some.injEq] at hs
      subst hs
      exact ⟨rfl, by simp, by intro r hr; simp only [Option.some.injEq] at hr; subst hr; rfl⟩
  case float fmt rules lr =>
    simp only [okField] at hok
    split at hs
    · rename_i hbad; simp [hok] at hbad
    · simp only [Option.some.injEq] at hs
      subst hs
      exact ⟨rfl, by simp, by intro r hr; simp only [Option.some.injEq] at hr; subst hr; rfl⟩
  all_goals
    (subst hs
     refine ⟨rfl, by simp, ?_⟩
     intro r hr
     simp only [Option.some.injEq] at hr
     subst hr
     first | rfl | simp [keyPrimary])

theorem finishProperty_errs_eq (name : Str) (req opt : Bool) (number : Nat) (io : Bool) (pre : Eff)
    (entries : List MsgSkel) (r : FieldRes) (rep : Bool) (h : (opt && (req || r.primaryKey)) = false) :
    (finishProperty name req opt number io pre entries r rep).eff.errs = pre.errs := by
  unfold finishProperty
  simp only [h, Bool.false_eq_true, if_false]
  split <;> simp

/-- the default branch of `buildProperty` (neither map nor array) -/
theorem bProperty_accepts_default (c : Ctx) (np : List Str) (io : Bool) (n : Nat) (name : Str)
    (req opt : Bool) (f : Field) (r : FieldRes)
    (hres : (bField c np (toCamel name) f).res = some r)
    (herr : (bField c np (toCamel name) f).eff.errs = 0)
    (hclash : (opt && (req || r.primaryKey)) = false)
    (hm : ∀ i a, f ≠ .map i a) (ha : ∀ i a, f ≠ .array i a) :
    (bProperty c np io n (.mk name req opt f)).eff.errs = 0 := by
  rw [bProperty]
  · simp only [hres]
    rw [finishProperty_errs_eq _ _ _ _ _ _ _ _ _ hclash]
    exact herr
  · intro i a e; exact hm i a e
  · intro i a e; exact ha i a e

mutual
theorem bField_accepts (c : Ctx) (np : List Str) (d : Str) :
    ∀ f : Field, okField c d f = true →
      (bField c np d f).res.isSome = true ∧ (bField c np d f).eff.errs = 0 ∧
      (∀ r, (bField c np d f).res = some r → r.primaryKey = keyPrimary f)
  | .objectRef pkg schema fl rules, h => by
    rw [bField]
    obtain ⟨a, b, c'⟩ := msgRefField_accepts c pkg schema (objExt fl) rules false (by simpa [okField] using h)
    exact ⟨a, b, fun r hr => by rw [c' r hr]; rfl⟩
  | .oneofRef pkg schema rules lr, h => by
    rw [bField]
    obtain ⟨a, b, c'⟩ := msgRefField_accepts c pkg schema b!"oneof" rules lr (by simpa [okField] using h)
    exact ⟨a, b, fun r hr => by rw [c' r hr]; rfl⟩
  | .enumRef pkg schema rules lr, h => by
    rw [bField]
    simp only [okField] at h
    cases hr : c.resolve pkg schema with
    | none => simp [hr] at h
    | some t =>
      simp only [hr] at h
      cases hk : t.kind with
      | message o => simp [hk] at h
      | enum pfx names =>
        simp only [hk] at h
        have hrf : refField c pkg schema true = (Eff.imp t.file, some t) := by
          unfold refField
          simp [hr, hk, TKind.isMessage]
        rw [hrf]
        simp only []
        obtain ⟨a, b, c'⟩ := enumFieldWith_accepts (Eff.imp t.file) {} t.protoTypeName pfx names rules lr h
        split
        · rename_i pfx' names' heq
          have e := hk.symm.trans heq
          simp only [TKind.enum.injEq] at e
          obtain ⟨e1, e2⟩ := e
          subst e1; subst e2
          exact ⟨a, by rw [b]; rfl, fun r hr => by rw [c' r hr]; rfl⟩
        · rename_i o heq
          rw [hk] at heq; cases heq
  | .objectInl name props fl rules, h => by
    rw [bField]
    have ih := bProps_accepts c (np ++ [if name = [] then d else name]) false 1 props
      (by simpa [okField] using h)
    simp only [msgInlField]
    refine ⟨rfl, by simp [ih], ?_⟩
    intro r hr
    simp only [Option.some.injEq] at hr
    subst hr; rfl
  | .oneofInl name props rules lr, h => by
    rw [bField]
    have ih := bProps_accepts c (np ++ [if name = [] then d else name]) true 1 props
      (by simpa [okField] using h)
    simp only [msgInlField]
    refine ⟨rfl, by simp [ih], ?_⟩
    intro r hr
    simp only [Option.some.injEq] at hr
    subst hr; rfl
  | .enumInl e rules lr, h => by
    rw [bField]
    simp only [okField] at h
    simp only [enumTKind]
    obtain ⟨a, b, c'⟩ := enumFieldWith_accepts
      { enums := [convEnum (if e.name = [] then { e with name := d } else e)] }
      { enums := [convEnum (if e.name = [] then { e with name := d } else e)] }
      (relName np (if e.name = [] then { e with name := d } else e).name) _ _ rules lr h
    exact ⟨a, by rw [b], fun r hr => by rw [c' r hr]; rfl⟩
  | .array items rules, h => by simp [okField] at h
  | .map items rules, h => by simp [okField] at h
  | .string rules lr, h => by
    rw [bField_scalar c np d (.string rules lr) _ rfl]; exact scalarField_accepts d c _ _ rfl h
  | .bool rules lr, h => by
    rw [bField_scalar c np d (.bool rules lr) _ rfl]; exact scalarField_accepts d c _ _ rfl h
  | .bytes rules, h => by
    rw [bField_scalar c np d (.bytes rules) _ rfl]; exact scalarField_accepts d c _ _ rfl h
  | .date rules lr, h => by
    rw [bField_scalar c np d (.date rules lr) _ rfl]; exact scalarField_accepts d c _ _ rfl h
  | .decimal rules lr, h => by
    rw [bField_scalar c np d (.decimal rules lr) _ rfl]; exact scalarField_accepts d c _ _ rfl h
  | .timestamp rules, h => by
    rw [bField_scalar c np d (.timestamp rules) _ rfl]; exact scalarField_accepts d c _ _ rfl h
  | .any, h => by
    rw [bField_scalar c np d .any _ rfl]; exact scalarField_accepts d c _ _ rfl h
  | .integer fmt rules lr, h => by
    cases hs : scalarField (.integer fmt rules lr) with
    | none => simp only [scalarField] at hs; split at hs <;> simp at hs
    | some b => rw [bField_scalar c np d _ b hs]; exact scalarField_accepts d c _ b hs h
  | .float fmt rules lr, h => by
    cases hs : scalarField (.float fmt rules lr) with
    | none => simp only [scalarField] at hs; split at hs <;> simp at hs
    | some b => rw [bField_scalar c np d _ b hs]; exact scalarField_accepts d c _ b hs h
  | .key fmt ek rules lr, h => by
    rw [bField_scalar c np d (.key fmt ek rules lr) _ rfl]; exact scalarField_accepts d c _ _ rfl h

theorem bProperty_accepts (c : Ctx) (np : List Str) (io : Bool) (n : Nat) :
    ∀ p : Property, okProperty c p = true → (bProperty c np io n p).eff.errs = 0
  | .mk name req opt schema, h => by
    rw [okProperty_built] at h
    simp only [Bool.and_eq_true, Bool.not_eq_true'] at h
    obtain ⟨hopt, hf⟩ := h
    -- what buildField below says
    have hb : (bField c np (toCamel name) (builtField schema)).res.isSome = true ∧
        (bField c np (toCamel name) (builtField schema)).eff.errs = 0 ∧
        (∀ r, (bField c np (toCamel name) (builtField schema)).res = some r →
          r.primaryKey = keyPrimary (builtField schema)) := by
      cases schema with
      | map items rules => exact bField_accepts c np (toCamel name) items hf
      | array items rules => exact bField_accepts c np (toCamel name) items hf
      | string rules lr => exact bField_accepts c np (toCamel name) _ hf
      | bool rules lr => exact bField_accepts c np (toCamel name) _ hf
      | bytes rules => exact bField_accepts c np (toCamel name) _ hf
      | date rules lr => exact bField_accepts c np (toCamel name) _ hf
      | decimal rules lr => exact bField_accepts c np (toCamel name) _ hf
      | timestamp rules => exact bField_accepts c np (toCamel name) _ hf
      | any => exact bField_accepts c np (toCamel name) _ hf
      | integer fmt rules lr => exact bField_accepts c np (toCamel name) _ hf
      | float fmt rules lr => exact bField_accepts c np (toCamel name) _ hf
      | key fmt ek rules lr => exact bField_accepts c np (toCamel name) _ hf
      | objectRef pkg sc fl rules => exact bField_accepts c np (toCamel name) _ hf
      | objectInl nm props fl rules => exact bField_accepts c np (toCamel name) _ hf
      | oneofRef pkg sc rules lr => exact bField_accepts c np (toCamel name) _ hf
      | oneofInl nm props rules lr => exact bField_accepts c np (toCamel name) _ hf
      | enumRef pkg sc rules lr => exact bField_accepts c np (toCamel name) _ hf
      | enumInl e rules lr => exact bField_accepts c np (toCamel name) _ hf
    obtain ⟨h1, h2, h3⟩ := hb
    cases hres : (bField c np (toCamel name) (builtField schema)).res with
    | none => rw [hres] at h1; cases h1
    | some r =>
      have hpk := h3 r hres
      unfold bProperty
      cases schema with
      | map items rules =>
        simp only [builtField] at hres h2
        simp only [hres]
        rw [finishProperty_errs_eq]
        · simp [h2]
        · simpa [isPrimaryField, keyPrimary] using hopt
      | array items rules =>
        simp only [builtField] at hres h2 hpk
        simp only [hres]
        rw [finishProperty_errs_eq]
        · simp [h2]
        · simpa [isPrimaryField, hpk] using hopt
      | string rules lr => exact bProperty_accepts_default c np io n name req opt _ r hres h2 (by simpa [isPrimaryField, hpk, builtField] using hopt) (by intro i a e; cases e) (by intro i a e; cases e)
      | bool rules lr => exact bProperty_accepts_default c np io n name req opt _ r hres h2 (by simpa [isPrimaryField, hpk, builtField] using hopt) (by intro i a e; cases e) (by intro i a e; cases e)
      | bytes rules => exact bProperty_accepts_default c np io n name req opt _ r hres h2 (by simpa [isPrimaryField, hpk, builtField] using hopt) (by intro i a e; cases e) (by intro i a e; cases e)
      | date rules lr => exact bProperty_accepts_default c np io n name req opt _ r hres h2 (by simpa [isPrimaryField, hpk, builtField] using hopt) (by intro i a e; cases e) (by intro i a e; cases e)
      | decimal rules lr => exact bProperty_accepts_default c np io n name req opt _ r hres h2 (by simpa [isPrimaryField, hpk, builtField] using hopt) (by intro i a e; cases e) (by intro i a e; cases e)
      | timestamp rules => exact bProperty_accepts_default c np io n name req opt _ r hres h2 (by simpa [isPrimaryField, hpk, builtField] using hopt) (by intro i a e; cases e) (by intro i a e; cases e)
      | any => exact bProperty_accepts_default c np io n name req opt _ r hres h2 (by simpa [isPrimaryField, hpk, builtField] using hopt) (by intro i a e; cases e) (by intro i a e; cases e)
      | integer fmt rules lr => exact bProperty_accepts_default c np io n name req opt _ r hres h2 (by simpa [isPrimaryField, hpk, builtField] using hopt) (by intro i a e; cases e) (by intro i a e; cases e)
      | float fmt rules lr => exact bProperty_accepts_default c np io n name req opt _ r hres h2 (by simpa [isPrimaryField, hpk, builtField] using hopt) (by intro i a e; cases e) (by intro i a e; cases e)
      | key fmt ek rules lr => exact bProperty_accepts_default c np io n name req opt _ r hres h2 (by simpa [isPrimaryField, hpk, builtField] using hopt) (by intro i a e; cases e) (by intro i a e; cases e)
      | objectRef pkg sc fl rules => exact bProperty_accepts_default c np io n name req opt _ r hres h2 (by simpa [isPrimaryField, hpk, builtField] using hopt) (by intro i a e; cases e) (by intro i a e; cases e)
      | objectInl nm props fl rules => exact bProperty_accepts_default c np io n name req opt _ r hres h2 (by simpa [isPrimaryField, hpk, builtField] using hopt) (by intro i a e; cases e) (by intro i a e; cases e)
      | oneofRef pkg sc rules lr => exact bProperty_accepts_default c np io n name req opt _ r hres h2 (by simpa [isPrimaryField, hpk, builtField] using hopt) (by intro i a e; cases e) (by intro i a e; cases e)
      | oneofInl nm props rules lr => exact bProperty_accepts_default c np io n name req opt _ r hres h2 (by simpa [isPrimaryField, hpk, builtField] using hopt) (by intro i a e; cases e) (by intro i a e; cases e)
      | enumRef pkg sc rules lr => exact bProperty_accepts_default c np io n name req opt _ r hres h2 (by simpa [isPrimaryField, hpk, builtField] using hopt) (by intro i a e; cases e) (by intro i a e; cases e)
      | enumInl e rules lr => exact bProperty_accepts_default c np io n name req opt _ r hres h2 (by simpa [isPrimaryField, hpk, builtField] using hopt) (by intro i a e; cases e) (by intro i a e; cases e)

theorem bProps_accepts (c : Ctx) (np : List Str) (io : Bool) (n : Nat) :
    ∀ ps : List Property, okProps c ps = true → (bProps c np io n ps).eff.errs = 0
  | [], _ => by simp [bProps_nil]
  | p :: ps, h => by
    simp only [okProps, Bool.and_eq_true] at h
    rw [bProps_cons]
    have a := bProperty_accepts c np io n p h.1
    have b := bProps_accepts c np io (n + 1) ps h.2
    cases io <;> simp [a, b]
end

/-! ## declarations, services, topics, items -/

theorem okProps_append (c : Ctx) (a b : List Property) :
    okProps c (a ++ b) = (okProps c a && okProps c b) := by
  induction a with
  | nil => simp [okProps]
  | cons p ps ih => simp [okProps, ih, Bool.and_assoc]

mutual
def okDecl (c : Ctx) : ObjDecl → Bool
  | .mk _ props nested _ => okProps c props && okNested c nested
def okNested (c : Ctx) : List Nested → Bool
  | [] => true
  | .object o :: rest => okDecl c o && okNested c rest
  | .oneof o :: rest => okDecl c o && okNested c rest
  | .enum _ :: rest => okNested c rest
end

mutual
theorem convDecl_accepts (c : Ctx) (np : List Str) (io : Bool) (virt : List Property)
    (hv : okProps c virt = true) :
    ∀ o : ObjDecl, okDecl c o = true → (convDecl c np io virt o).errs = 0
  | .mk name props nested psm, h => by
    simp only [okDecl, Bool.and_eq_true] at h
    rw [convDecl_errs, bProps_accepts c _ io 1 (virt ++ props) (by rw [okProps_append]; simp [hv, h.1]),
      convNested_accepts c (np ++ [name]) nested h.2]
theorem convNested_accepts (c : Ctx) (np : List Str) :
    ∀ ns : List Nested, okNested c ns = true → (convNested c np ns).errs = 0
  | [], _ => by simp [convNested]
  | .object o :: rest, h => by
    simp only [okNested, Bool.and_eq_true] at h
    rw [convNested]
    simp [convDecl_accepts c np false [] rfl o h.1, convNested_accepts c np rest h.2]
  | .oneof o :: rest, h => by
    simp only [okNested, Bool.and_eq_true] at h
    rw [convNested]
    simp [convDecl_accepts c np true [] rfl o h.1, convNested_accepts c np rest h.2]
  | .enum e :: rest, h => by
    simp only [okNested] at h
    rw [convNested]
    simp [convNested_accepts c np rest h]
end

theorem convVirtual_accepts (c : Ctx) (name : Str) (virt props : List Property) (psm : Option Psm)
    (h : okProps c (virt ++ props) = true) : (convVirtual c name virt props psm).errs = 0 := by
  rw [okProps_append, Bool.and_eq_true] at h
  unfold convVirtual
  exact convDecl_accepts c [] false virt h.1 _ (by simp [okDecl, okNested, h.2])

/-- a method within the language: request given, its fields (and the response's) valid, a verb,
every `:name` path part names a request field and no literal part holds one of `{ } * :`; a list
method has a list-shaped response -/
def okMethod (c : Ctx) (bp : Option Str) (m : Method) : Bool :=
  match m.request with
  | none => false
  | some req =>
    okProps c req &&
    (match m.response with | none => true | some res => okProps c res) &&
    decide (m.verb ≠ .unspecified) &&
    decide ((rewritePath req (resolvedPath bp m)).2 = 0) &&
    -- a list method (request takes `j5.list.v1.QueryRequest`) answers one array of objects
    (!isListRequest c req || listShaped m.response)

def okService (c : Ctx) (s : Service) : Bool := s.name.isSome && s.methods.all (okMethod c s.basePath)

theorem walkMethod_accepts (c : Ctx) (bp : Option Str) (m : Method) (h : okMethod c bp m = true) :
    (walkMethod c bp m).eff.errs = 0 := by
  unfold okMethod at h
  unfold walkMethod
  cases hr : m.request with
  | none => simp [hr] at h
  | some req =>
    simp only [hr, Bool.and_eq_true] at h
    obtain ⟨⟨⟨⟨h1, h2⟩, _⟩, _⟩, _⟩ := h
    cases hs : m.response with
    | none => simp [convVirtual_accepts c _ [] req none (by simpa using h1)]
    | some res =>
      simp only [hs] at h2
      simp [convVirtual_accepts c _ [] req none (by simpa using h1),
        convVirtual_accepts c _ [] res none (by simpa using h2)]

theorem convMethod_accepts (c : Ctx) (bp : Option Str) (m : Method) (h : okMethod c bp m = true) :
    ∀ node, (walkMethod c bp m).node = some node → (convMethod node).1.errs = 0 := by
  intro node hn
  unfold okMethod at h
  cases hr : m.request with
  | none => simp [hr] at h
  | some req =>
    simp only [hr, Bool.and_eq_true, decide_eq_true_eq] at h
    obtain ⟨⟨⟨⟨_, _⟩, hv⟩, hp⟩, _⟩ := h
    rw [walkMethod_node c bp m req hr] at hn
    simp only [Option.some.injEq] at hn
    subst hn
    unfold convMethod
    simp only [hr, hv, if_false]
    simp [hp]

theorem sum_zero_of_forall' (l : List Nat) (h : ∀ x ∈ l, x = 0) : l.sum = 0 := by
  induction l with
  | nil => rfl
  | cons a rest ih =>
    simp only [List.sum_cons]
    rw [h a (by simp), ih (fun x hx => h x (List.mem_cons_of_mem _ hx))]

theorem listMethodErr_accepts (c : Ctx) (bp : Option Str) (m : Method) (h : okMethod c bp m = true) :
    listMethodErr c m = 0 := by
  unfold okMethod at h
  unfold listMethodErr
  cases hr : m.request with
  | none => rfl
  | some req =>
    simp only [hr, Bool.and_eq_true, Bool.or_eq_true, Bool.not_eq_true'] at h
    obtain ⟨_, hl⟩ := h
    simp only []
    rcases hl with hl | hl <;> simp [hl]

theorem foldl_errs_zero {α : Type} (f : α → Eff) (l : List α) (h : ∀ a ∈ l, (f a).errs = 0) :
    (l.foldl (fun e a => e ++ f a) ({} : Eff)).errs = 0 := by
  rw [foldl_eff_errs]
  have : (l.map fun a => (f a).errs) = l.map fun _ => 0 :=
    List.map_congr_left fun a ha => h a ha
  rw [this]
  have hz : ∀ l : List α, (l.map fun _ => 0).sum = 0 := by
    intro l; induction l with
    | nil => rfl
    | cons a rest ih => simp [ih]
  simp [hz]

theorem convService_accepts (c : Ctx) (s : Service) (h : okService c s = true) :
    (convService c s).hard = false ∧ (convService c s).eff.errs = 0 := by
  simp only [okService, Bool.and_eq_true, List.all_eq_true] at h
  obtain ⟨hn, hm⟩ := h
  unfold convService
  cases hname : s.name with
  | none => simp [hname] at hn
  | some name =>
    refine ⟨by first | rfl | trivial, ?_⟩
    have hw : ((s.methods.map (walkMethod c s.basePath)).foldl (fun e w => e ++ w.eff) ({} : Eff)).errs = 0 :=
      foldl_errs_zero (fun w : MethodWalk => w.eff) _ (by
        intro w hw
        obtain ⟨m, hmm, rfl⟩ := List.mem_map.mp hw
        exact walkMethod_accepts c _ m (hm m hmm))
    have hb : ((((s.methods.map (walkMethod c s.basePath)).filterMap (·.node)).map convMethod).foldl
        (fun e b => e ++ b.1) ({} : Eff)).errs = 0 :=
      foldl_errs_zero (fun b : Eff × Option MethodSkel => b.1) _ (by
        intro b hb
        obtain ⟨node, hnode, rfl⟩ := List.mem_map.mp hb
        obtain ⟨w, hw, hwn⟩ := List.mem_filterMap.mp hnode
        obtain ⟨m, hmm, rfl⟩ := List.mem_map.mp hw
        exact convMethod_accepts c _ m (hm m hmm) node hwn)
    have hlist : (s.methods.map (listMethodErr c)).sum = 0 :=
      sum_zero_of_forall' _ (by
        intro x hx
        obtain ⟨m, hmm, rfl⟩ := List.mem_map.mp hx
        exact listMethodErr_accepts c _ m (hm m hmm))
    simp only [Eff.errs_append, hw, hb, when_errs, Eff.use_errs, hlist]
    simp

def okTopicNode (c : Ctx) (tn : TopicNode) : Bool :=
  tn.msgs.all fun m => (topicMethodName tn m).isSome && okProps c (tn.prepend ++ m.props)

theorem acceptTopic_accepts (c : Ctx) (tn : TopicNode) (h : okTopicNode c tn = true) :
    ∀ s ∈ acceptTopic c tn, s.hard = false ∧ s.eff.errs = 0 := by
  simp only [okTopicNode, List.all_eq_true, Bool.and_eq_true] at h
  intro s hs
  simp only [acceptTopic, List.mem_append, List.mem_map, List.mem_singleton] at hs
  rcases hs with ⟨m, hm, rfl⟩ | rfl
  · obtain ⟨h1, h2⟩ := h m hm
    cases hn : topicMethodName tn m with
    | none => simp [hn] at h1
    | some n => exact ⟨rfl, convVirtual_accepts c _ _ _ none h2⟩
  · exact ⟨rfl, by simp⟩

/-- an item the file visitor receives, within the language -/
def okItem (c : Ctx) : Item → Bool
  | .object o => okDecl c o
  | .oneof o => okDecl c o
  | .enum _ => true
  | .serviceFile ss => ss.all (okService c)
  | .topicFile ts => ts.all fun t => (topicNodes t).all (okTopicNode c)
  | .abort => false

theorem convItem_accepts (c : Ctx) (i : Item) (h : okItem c i = true) :
    ∀ s ∈ convItem c i, s.hard = false ∧ s.eff.errs = 0 := by
  intro s hs
  cases i with
  | object o =>
    simp only [convItem, List.mem_singleton] at hs; subst hs
    exact ⟨rfl, convDecl_accepts c [] false [] rfl o h⟩
  | oneof o =>
    simp only [convItem, List.mem_singleton] at hs; subst hs
    exact ⟨rfl, convDecl_accepts c [] true [] rfl o h⟩
  | enum e => simp only [convItem, List.mem_singleton] at hs; subst hs; exact ⟨rfl, rfl⟩
  | abort => simp [okItem] at h
  | serviceFile ss =>
    simp only [okItem, List.all_eq_true] at h
    simp only [convItem, convServiceFile, List.mem_cons, List.mem_map] at hs
    rcases hs with rfl | ⟨x, hx, rfl⟩
    · exact ⟨rfl, rfl⟩
    · exact convService_accepts c x (h x hx)
  | topicFile ts =>
    simp only [okItem, List.all_eq_true] at h
    simp only [convItem, convTopicFile, convTopic, List.mem_cons, List.mem_flatMap] at hs
    rcases hs with rfl | ⟨t, ht, tn, htn, hs⟩
    · exact ⟨rfl, rfl⟩
    · exact acceptTopic_accepts c tn (h t ht tn htn) s hs

/-! ## a whole file -/

/-- the imports `j5Imports` accepts -/
def okImports (imports : List Import) : Bool :=
  imports.all fun imp => decide (imp.path ≠ []) && !importBad imp

/-- every visited item of the file (entities expanded) is well formed and within the language -/
def okElems (c : Ctx) (pkg : Str) (elems : List Elem) : Bool :=
  (elems.flatMap (itemsOfElem pkg)).all fun i => WfItem i && okItem c i

theorem sum_zero_of_forall (l : List Nat) (h : ∀ x ∈ l, x = 0) : l.sum = 0 := by
  induction l with
  | nil => rfl
  | cons a rest ih =>
    simp only [List.sum_cons]
    rw [h a (by simp), ih (fun x hx => h x (List.mem_cons_of_mem _ hx))]

/-- the conversion context of a file: its import map over the package's resolver -/
def fileCtx (res : Resolver) (path : Str) (imports : List Import) : Ctx :=
  { resolve := resolveTypeNoImport ⟨imports.flatMap importEntries, packageFromFilename (path ++ b!".proto")⟩ res }

/-- **the converter accepts**: a file with acceptable imports whose items are all within the
language converts, for any resolver that returns well-formed file names -/
theorem convertFile_accepts (res : Resolver) (path : Str) (imports : List Import) (elems : List Elem)
    (hres : ∀ im, WfCtx { resolve := resolveTypeNoImport im res })
    (himp : okImports imports = true)
    (hel : okElems (fileCtx res path imports) (packageFromFilename (path ++ b!".proto")) elems = true) :
    ∃ fs, convertFile res path imports elems = .ok fs := by
  simp only [okImports, List.all_eq_true, Bool.and_eq_true, decide_eq_true_eq,
    Bool.not_eq_true'] at himp
  have hj := j5Imports_ok (packageFromFilename (path ++ b!".proto")) imports
    (fun imp h => (himp imp h).1) (fun imp h => (himp imp h).2)
  simp only [okElems, fileCtx, List.all_eq_true, Bool.and_eq_true] at hel
  refine ⟨_, convertFile_of_clean res path imports elems _ hj ?_ ?_⟩
  · intro s hs
    obtain ⟨i, hi, hsi⟩ := List.mem_flatMap.mp hs
    exact ⟨convItem_ok _ (hres _) i (hel i hi).1 s hsi, (convItem_accepts _ i (hel i hi).2 s hsi).1⟩
  · apply sum_zero_of_forall
    · intro x hx
      obtain ⟨s, hs, rfl⟩ := List.mem_map.mp hx
      obtain ⟨i, hi, hsi⟩ := List.mem_flatMap.mp hs
      exact (convItem_accepts _ i (hel i hi).2 s hsi).2

end J5V.Compile
