import J5V.Compile.Walk
/-!
# Lemmas about numbering, naming and prefix stability (core only)

* `mapProperties` numbers by position, from 1, virtual prepends first;
* `bProps` (the property loop of `visitObjectNode` / `visitOneofNode`) distributes over `++`:
  everything produced for a prefix of the property list is unchanged when properties are
  appended (`bProps_append`) — the root of C13;
* each emitted field carries the number it was handed, `snake(name)` and `name`;
* enum values: implicit zero, then position + 1; stable under appending options.
-/
namespace J5V.Compile

/-! ## `mapProperties` -/

theorem numberFrom_length (n : Nat) (ps : List Property) : (numberFrom n ps).length = ps.length := by
  induction ps generalizing n with
  | nil => rfl
  | cons p ps ih => simp [numberFrom, ih]

theorem numberFrom_snd (n : Nat) (ps : List Property) : (numberFrom n ps).map (·.2) = ps := by
  induction ps generalizing n with
  | nil => rfl
  | cons p ps ih => simp [numberFrom, ih]

theorem numberFrom_fst (n : Nat) (ps : List Property) :
    (numberFrom n ps).map (·.1) = List.range' (n + 1) ps.length := by
  induction ps generalizing n with
  | nil => rfl
  | cons p ps ih => simp [numberFrom, ih, List.range'_succ]

theorem numberFrom_append (n : Nat) (a b : List Property) :
    numberFrom n (a ++ b) = numberFrom n a ++ numberFrom (n + a.length) b := by
  induction a generalizing n with
  | nil => simp [numberFrom]
  | cons p ps ih =>
    simp only [List.cons_append, numberFrom, ih, List.length_cons]
    rw [show n + (ps.length + 1) = n + 1 + ps.length by omega]

/-- numbers handed out by `mapProperties`: 1, 2, …, |virtual| + |declared| -/
theorem mapProperties_fst (virt props : List Property) :
    (mapProperties virt props).map (·.1) = List.range' 1 (virt.length + props.length) := by
  unfold mapProperties
  rw [List.map_append, numberFrom_fst, numberFrom_fst,
    show virt.length + 1 = (0 + 1) + virt.length by omega, List.range'_append_1]

/-- the properties themselves: virtual prepends, then the declared ones, in order -/
theorem mapProperties_snd (virt props : List Property) :
    (mapProperties virt props).map (·.2) = virt ++ props := by
  unfold mapProperties
  rw [List.map_append, numberFrom_snd, numberFrom_snd]

/-- appending declared properties leaves every existing (number, property) pair in place -/
theorem mapProperties_prefix (virt props extra : List Property) :
    mapProperties virt (props ++ extra) =
      mapProperties virt props ++ numberFrom (virt.length + props.length) extra := by
  unfold mapProperties
  rw [numberFrom_append, List.append_assoc]

/-! ## the property loop -/

@[simp] theorem Eff.add_def (a b : Eff) : a ++ b = Eff.add a b := rfl

theorem Eff.add_assoc (a b c : Eff) : Eff.add (Eff.add a b) c = Eff.add a (Eff.add b c) := by
  simp [Eff.add, List.append_assoc, Nat.add_assoc, Bool.or_assoc]

theorem Eff.add_empty (a : Eff) : Eff.add a {} = a := by
  simp [Eff.add]

theorem Eff.empty_add (a : Eff) : Eff.add {} a = a := by
  simp [Eff.add]

theorem bProps_nil (c : Ctx) (np : List Str) (io : Bool) (n : Nat) :
    bProps c np io n [] = {} := by
  simp [bProps]

theorem bProps_cons (c : Ctx) (np : List Str) (io : Bool) (n : Nat) (p : Property)
    (ps : List Property) :
    bProps c np io n (p :: ps) =
      let r := bProperty c np io n p
      let rs := bProps c np io (n + 1) ps
      { eff := (if io then r.eff else { r.eff with msgs := r.eff.msgs ++ r.entries }) ++ rs.eff,
        entries := (if io then r.entries else []) ++ rs.entries,
        flds := (match r.fld with | some f => [f] | none => []) ++ rs.flds } := by
  rw [bProps]; rfl

/-- fields of a property list: the fields of a prefix are unchanged by what follows -/
theorem bProps_append_flds (c : Ctx) (np : List Str) (io : Bool) (n : Nat) (a b : List Property) :
    (bProps c np io n (a ++ b)).flds =
      (bProps c np io n a).flds ++ (bProps c np io (n + a.length) b).flds := by
  induction a generalizing n with
  | nil => simp [bProps_nil]
  | cons p ps ih =>
    simp only [List.cons_append, bProps_cons, ih, List.length_cons, List.append_assoc]
    rw [show n + (ps.length + 1) = n + 1 + ps.length by omega]

theorem bProps_append_entries (c : Ctx) (np : List Str) (io : Bool) (n : Nat) (a b : List Property) :
    (bProps c np io n (a ++ b)).entries =
      (bProps c np io n a).entries ++ (bProps c np io (n + a.length) b).entries := by
  induction a generalizing n with
  | nil => simp [bProps_nil]
  | cons p ps ih =>
    simp only [List.cons_append, bProps_cons, ih, List.length_cons, List.append_assoc]
    rw [show n + (ps.length + 1) = n + 1 + ps.length by omega]

theorem bProps_append_eff (c : Ctx) (np : List Str) (io : Bool) (n : Nat) (a b : List Property) :
    (bProps c np io n (a ++ b)).eff =
      Eff.add (bProps c np io n a).eff (bProps c np io (n + a.length) b).eff := by
  induction a generalizing n with
  | nil => simp [bProps_nil, Eff.empty_add]
  | cons p ps ih =>
    simp only [List.cons_append, bProps_cons, ih, List.length_cons, Eff.add_def, Eff.add_assoc]
    rw [show n + (ps.length + 1) = n + 1 + ps.length by omega]

/-! ## a single property -/

theorem finishProperty_fld (name : Str) (req opt : Bool) (number : Nat) (io : Bool) (pre : Eff)
    (entries : List MsgSkel) (r : FieldRes) (rep : Bool) (f : FieldSkel)
    (h : (finishProperty name req opt number io pre entries r rep).fld = some f) :
    f.number = number ∧ f.name = toSnake name ∧ f.jsonName = name ∧
      f.oneof = (if io then some 0 else none) ∧ f.repeated = rep ∧ f.p3opt = opt ∧
      f.req = (req || r.primaryKey) ∧ f.type = r.type ∧ f.typeName = r.typeName ∧
      f.ext = r.ext := by
  by_cases hc : (opt && (req || r.primaryKey)) = true
  · simp [finishProperty, hc] at h
  · simp only [finishProperty, hc, Bool.false_eq_true, if_false, Option.some.injEq] at h
    subst h
    simp

theorem finishProperty_none (name : Str) (req opt : Bool) (number : Nat) (io : Bool) (pre : Eff)
    (entries : List MsgSkel) (r : FieldRes) (rep : Bool)
    (h : (finishProperty name req opt number io pre entries r rep).fld = none) :
    1 ≤ (finishProperty name req opt number io pre entries r rep).eff.errs := by
  by_cases hc : (opt && (req || r.primaryKey)) = true
  · simp [finishProperty, hc, Eff.add, Eff.err]
  · simp [finishProperty, hc] at h

/-- `finishProperty` adds imports / errors only: the messages are those of `pre` -/
theorem finishProperty_msgs (name : Str) (req opt : Bool) (number : Nat) (io : Bool) (pre : Eff)
    (entries : List MsgSkel) (r : FieldRes) (rep : Bool) :
    (finishProperty name req opt number io pre entries r rep).eff.msgs = pre.msgs := by
  cases opt <;> cases req <;> cases hpk : r.primaryKey <;>
    simp [finishProperty, hpk, Eff.add, Eff.err, validateWithImport, when, Eff.imp, Eff.use]

/-- `buildFieldNode` + `buildField` on an inline object: the nested message is named by the
override or the default nesting name, and the field refers to it by the path-qualified name -/
theorem bField_objectInl (c : Ctx) (np : List Str) (d name : Str) (props : List Property)
    (fl : Bool) (rules : Rules) :
    let nm := if name = [] then d else name
    (∃ msg : MsgSkel, msg.name = nm ∧
      (bField c np d (.objectInl name props fl rules)).eff.msgs = [msg]) ∧
    (∃ hv : Bool, (bField c np d (.objectInl name props fl rules)).res =
        some { type := .message, typeName := relName np nm, ext := objExt fl, hasValidate := hv }) := by
  intro nm
  rw [bField]
  constructor
  · refine ⟨mkMsg nm false none (bProps c (np ++ [nm]) false 1 props).flds
      (bProps c (np ++ [nm]) false 1 props).eff.msgs (bProps c (np ++ [nm]) false 1 props).eff.enums,
      rfl, ?_⟩
    cases hr : rules.isEmpty <;>
      simp [msgInlField, Eff.add, j5Ext, Eff.imp, Eff.use, validateWithImport, listRulesEff, when,
        hr, nm]
  · exact ⟨!rules.isEmpty, rfl⟩

/-- `buildProperty` on a property whose schema is an inline object -/
theorem bProperty_objectInl (c : Ctx) (np : List Str) (io : Bool) (number : Nat) (fname : Str)
    (req opt : Bool) (name : Str) (props : List Property) (fl : Bool) (rules : Rules) :
    ∃ r : FieldRes, r.type = .message ∧
      r.typeName = relName np (if name = [] then toCamel fname else name) ∧
      bProperty c np io number (.mk fname req opt (.objectInl name props fl rules)) =
        finishProperty fname req opt number io
          (bField c np (toCamel fname) (.objectInl name props fl rules)).eff [] r false := by
  obtain ⟨_, hv, hres⟩ := bField_objectInl c np (toCamel fname) name props fl rules
  refine ⟨{ type := .message, typeName := relName np (if name = [] then toCamel fname else name),
            ext := objExt fl, hasValidate := hv }, rfl, rfl, ?_⟩
  rw [bProperty]
  · simp only [hres]
  · intro items r h; cases h
  · intro items r h; cases h

/-- shape of `buildProperty`'s result: an error, or the common tail `finishProperty` -/
theorem bProperty_cases (c : Ctx) (np : List Str) (io : Bool) (number : Nat) (name : Str)
    (req opt : Bool) (schema : Field) :
    (∃ e : Eff, bProperty c np io number (.mk name req opt schema) = { eff := e ++ Eff.err }) ∨
    (∃ pre entries r rep, bProperty c np io number (.mk name req opt schema) =
      finishProperty name req opt number io pre entries r rep) := by
  unfold bProperty
  cases schema <;> dsimp only <;>
    (split <;> first | exact Or.inl ⟨_, rfl⟩ | exact Or.inr ⟨_, _, _, _, rfl⟩)

/-- **what `buildProperty` writes**: a converted property carries the number it was handed by
`mapProperties`, the snake-cased name, and the source name as JSON name -/
theorem bProperty_fld (c : Ctx) (np : List Str) (io : Bool) (number : Nat) (p : Property)
    (f : FieldSkel) (h : (bProperty c np io number p).fld = some f) :
    f.number = number ∧ f.name = toSnake p.name ∧ f.jsonName = p.name ∧
      f.oneof = (if io then some 0 else none) ∧ f.p3opt = p.explicitlyOptional := by
  cases p with
  | mk name req opt schema =>
    simp only [Property.name, Property.explicitlyOptional]
    rcases bProperty_cases c np io number name req opt schema with ⟨e, he⟩ | ⟨pre, en, r, rp, he⟩
    · rw [he] at h; simp at h
    · rw [he] at h
      have := finishProperty_fld _ _ _ _ _ _ _ _ _ _ h
      simp [this]

/-- a property that yields no field has recorded an error (`addError`) -/
theorem bProperty_none_errs (c : Ctx) (np : List Str) (io : Bool) (number : Nat) (p : Property)
    (h : (bProperty c np io number p).fld = none) : 1 ≤ (bProperty c np io number p).eff.errs := by
  cases p with
  | mk name req opt schema =>
    rcases bProperty_cases c np io number name req opt schema with ⟨e, he⟩ | ⟨pre, en, r, rp, he⟩
    · rw [he]; simp [Eff.add, Eff.err]
    · rw [he] at h ⊢
      exact finishProperty_none _ _ _ _ _ _ _ _ _ h

/-- errors of a property list are at least the errors of each member -/
theorem bProps_errs_zero (c : Ctx) (np : List Str) (io : Bool) (n : Nat) (ps : List Property)
    (h : (bProps c np io n ps).eff.errs = 0) :
    ∀ i (hi : i < ps.length), (bProperty c np io (n + i) ps[i]).eff.errs = 0 := by
  induction ps generalizing n with
  | nil => intro i hi; simp at hi
  | cons p ps ih =>
    rw [bProps_cons] at h
    simp only [Eff.add_def, Eff.add] at h
    have h1 : (bProperty c np io n p).eff.errs = 0 := by
      cases io <;> simp at h <;> omega
    have h2 : (bProps c np io (n + 1) ps).eff.errs = 0 := by
      cases io <;> simp at h <;> omega
    intro i hi
    cases i with
    | zero => simpa using h1
    | succ j =>
      have := ih (n + 1) h2 j (by simpa using hi)
      simpa [Nat.add_assoc, Nat.add_comm 1 j] using this

/-- **field numbering of a property list**: when no error was recorded, there is exactly one field
per property, in order, and the `i`-th one has number `n + i`, name `snake(name)`, JSON name `name` -/
theorem bProps_numbering (c : Ctx) (np : List Str) (io : Bool) (n : Nat) (ps : List Property)
    (h : (bProps c np io n ps).eff.errs = 0) :
    (bProps c np io n ps).flds.length = ps.length ∧
    ∀ i (hi : i < ps.length) (hf : i < (bProps c np io n ps).flds.length),
      ((bProps c np io n ps).flds[i]).number = n + i ∧
      ((bProps c np io n ps).flds[i]).name = toSnake ps[i].name ∧
      ((bProps c np io n ps).flds[i]).jsonName = ps[i].name := by
  induction ps generalizing n with
  | nil => simp [bProps_nil]
  | cons p ps ih =>
    have h0 := bProps_errs_zero c np io n (p :: ps) h 0 (by simp)
    simp only [Nat.add_zero, List.getElem_cons_zero] at h0
    rw [bProps_cons] at h
    simp only [Eff.add_def, Eff.add] at h
    have h2 : (bProps c np io (n + 1) ps).eff.errs = 0 := by
      cases io <;> simp at h <;> omega
    obtain ⟨ihl, ihn⟩ := ih (n + 1) h2
    cases hfld : (bProperty c np io n p).fld with
    | none => have := bProperty_none_errs c np io n p hfld; omega
    | some f =>
      have hf := bProperty_fld c np io n p f hfld
      rw [bProps_cons]
      simp only [hfld, List.singleton_append, List.length_cons, ihl, true_and]
      intro i hi _
      cases i with
      | zero => simp [hf.1, hf.2.1, hf.2.2.1]
      | succ j =>
        have := ihn j (by simpa using hi) (by rw [ihl]; simpa using hi)
        simp only [List.getElem_cons_succ]
        refine ⟨by rw [this.1]; omega, this.2.1, this.2.2⟩

/-- every field emitted for a oneof carries oneof index 0, none of an object's does -/
theorem bProps_fld_oneof (c : Ctx) (np : List Str) (io : Bool) (n : Nat) (ps : List Property) :
    ∀ f ∈ (bProps c np io n ps).flds, f.oneof = (if io then some 0 else none) := by
  induction ps generalizing n with
  | nil => intro f hf; simp [bProps_nil] at hf
  | cons p ps ih =>
    intro f hf
    rw [bProps_cons] at hf
    simp only [List.mem_append] at hf
    rcases hf with hf | hf
    · cases hfld : (bProperty c np io n p).fld with
      | none => simp [hfld] at hf
      | some g =>
        simp only [hfld, List.mem_singleton] at hf
        subst hf
        exact (bProperty_fld c np io n p f hfld).2.2.2.1
    · exact ih (n + 1) f hf

/-! ## enums -/

theorem zipIdx_append_one {α : Type} (l : List α) (a : α) (k : Nat) :
    (l ++ [a]).zipIdx k = l.zipIdx k ++ [(a, k + l.length)] := by
  induction l generalizing k with
  | nil => simp
  | cons x xs ih => simp [List.zipIdx_cons, ih]; omega

/-- appending an option to a non-empty option list keeps every existing value (name and number)
and adds one value at the end -/
theorem enumValues_prefix (pfx : Str) (opts : List Str) (o : Str) (h : opts ≠ []) :
    ∃ v, enumValues pfx (opts ++ [o]) = enumValues pfx opts ++ [v] := by
  cases opts with
  | nil => exact absurd rfl h
  | cons first rest =>
    simp only [enumValues, List.cons_append]
    by_cases hs : isExplicitUnspecified pfx first = true
    · simp only [hs, if_true]
      exact ⟨(enumFull pfx o, rest.length + 1), by simp [zipIdx_append_one]⟩
    · simp only [hs]
      refine ⟨(enumFull pfx o, rest.length + 1 + 1), ?_⟩
      rw [show first :: (rest ++ [o]) = (first :: rest) ++ [o] by simp, zipIdx_append_one]
      simp [zipIdx_append_one, Nat.add_comm]

/-- on an empty option list the only value is the implicit zero -/
theorem enumValues_nil (pfx : Str) : enumValues pfx [] = [(pfx ++ b!"UNSPECIFIED", 0)] := rfl

/-- enum numbering without an explicit leading zero: implicit
`<PREFIX>UNSPECIFIED = 0`, then option `k` ↦ `k + 1` -/
theorem enumValues_implicit (pfx : Str) (opts : List Str)
    (h : ∀ first rest, opts = first :: rest → isExplicitUnspecified pfx first = false) :
    enumValues pfx opts =
      (pfx ++ b!"UNSPECIFIED", 0) :: opts.zipIdx.map fun (n, i) => (enumFull pfx n, i + 1) := by
  cases opts with
  | nil => rfl
  | cons first rest => simp [enumValues, h first rest rfl]

/-- …and with one: that option is value 0, the others follow from 1 -/
theorem enumValues_explicit (pfx : Str) (first : Str) (rest : List Str)
    (h : isExplicitUnspecified pfx first = true) :
    enumValues pfx (first :: rest) =
      (enumFull pfx first, 0) :: rest.zipIdx.map fun (n, i) => (enumFull pfx n, i + 1) := by
  simp [enumValues, h]

/-- the explicit zero is emitted under the name of the implicit one -/
theorem enumFull_explicit (pfx name : Str) (h : isExplicitUnspecified pfx name = true) :
    enumFull pfx name = pfx ++ b!"UNSPECIFIED" := by
  unfold isExplicitUnspecified trimPrefix at h
  unfold enumFull
  by_cases hp : hasPrefix pfx name = true
  · simp only [hp, if_true, decide_eq_true_eq] at h ⊢
    have hpre : pfx <+: name := by simpa [hasPrefix] using hp
    obtain ⟨t, ht⟩ := hpre
    subst ht
    simp only [List.drop_left] at h
    rw [h]
  · simp only [hp, Bool.false_eq_true, if_false, decide_eq_true_eq] at h ⊢
    rw [h]

/-- value 0 is always `<PREFIX>UNSPECIFIED`, whatever the options -/
theorem enumValues_head (pfx : Str) (opts : List Str) :
    ∃ tl, enumValues pfx opts = (pfx ++ b!"UNSPECIFIED", 0) :: tl := by
  cases opts with
  | nil => exact ⟨[], rfl⟩
  | cons first rest =>
    simp only [enumValues]
    by_cases hs : isExplicitUnspecified pfx first = true
    · simp only [hs, if_true, enumFull_explicit pfx first hs]; exact ⟨_, rfl⟩
    · simp only [hs]; exact ⟨_, rfl⟩

/-- appending an option to ANY option list keeps every existing value -/
theorem enumValues_prefix_all (pfx : Str) (opts : List Str) (o : Str) :
    enumValues pfx opts <+: enumValues pfx (opts ++ [o]) := by
  cases opts with
  | nil =>
    obtain ⟨tl, htl⟩ := enumValues_head pfx [o]
    rw [List.nil_append, htl, enumValues_nil]
    exact ⟨tl, rfl⟩
  | cons first rest =>
    obtain ⟨v, hv⟩ := enumValues_prefix pfx (first :: rest) o (by simp)
    rw [hv]
    exact List.prefix_append _ _

theorem convEnum_name (e : EnumDecl) : (convEnum e).name = e.name := rfl

/-! ## declared objects / oneofs -/

/-- the message `visitObjectNode` / `visitOneofNode` adds for a declared schema -/
def declMsg (c : Ctx) (np : List Str) (isOneof : Bool) (virt : List Property) (name : Str)
    (props : List Property) (nested : List Nested) (psm : Option Psm) : MsgSkel :=
  let all := bProps c (np ++ [name]) isOneof 1 (virt ++ props)
  let ne := convNested c (np ++ [name]) nested
  mkMsg name isOneof psm all.flds (all.eff.msgs ++ ne.msgs) (all.eff.enums ++ ne.enums)

theorem convDecl_msgs (c : Ctx) (np : List Str) (io : Bool) (virt : List Property) (name : Str)
    (props : List Property) (nested : List Nested) (psm : Option Psm) :
    (convDecl c np io virt (.mk name props nested psm)).msgs =
      (bProps c (np ++ [name]) io 1 (virt ++ props)).entries ++
        [declMsg c np io virt name props nested psm] := by
  rw [convDecl]
  simp only [declMsg, bProps_append_flds, bProps_append_entries, bProps_append_eff, Eff.add,
    List.append_assoc, Nat.add_comm 1 virt.length]

theorem convDecl_errs (c : Ctx) (np : List Str) (io : Bool) (virt : List Property) (name : Str)
    (props : List Property) (nested : List Nested) (psm : Option Psm) :
    (convDecl c np io virt (.mk name props nested psm)).errs =
      (bProps c (np ++ [name]) io 1 (virt ++ props)).eff.errs
        + (convNested c (np ++ [name]) nested).errs := by
  rw [convDecl]
  simp only [bProps_append_eff, Eff.add, Nat.add_comm 1 virt.length]

/-- the message of a declaration, whatever way the declaration is written -/
def declMsgOf (c : Ctx) (np : List Str) (io : Bool) (virt : List Property) (o : ObjDecl) : MsgSkel :=
  declMsg c np io virt o.name o.props o.nested o.psm

theorem convDecl_msgOf (c : Ctx) (np : List Str) (io : Bool) (virt : List Property) (o : ObjDecl) :
    declMsgOf c np io virt o ∈ (convDecl c np io virt o).msgs := by
  cases o with
  | mk name props nested psm =>
    rw [convDecl_msgs]
    simp [declMsgOf, ObjDecl.name, ObjDecl.props, ObjDecl.nested, ObjDecl.psm]

/-- **names and numbers of all fields of a declaration's message**, as one list equation -/
theorem declMsgOf_fields (c : Ctx) (np : List Str) (io : Bool) (virt : List Property) (o : ObjDecl)
    (h : (convDecl c np io virt o).errs = 0) :
    (declMsgOf c np io virt o).fields.map (fun f => (f.name, f.number)) =
      (virt ++ o.props).zipIdx.map fun (p, i) => (toSnake p.name, i + 1) := by
  cases o with
  | mk name props nested psm =>
    rw [convDecl_errs] at h
    have herr : (bProps c (np ++ [name]) io 1 (virt ++ props)).eff.errs = 0 := by omega
    obtain ⟨hl, hn⟩ := bProps_numbering c (np ++ [name]) io 1 (virt ++ props) herr
    simp only [declMsgOf, declMsg, mkMsg, MsgSkel.fields, ObjDecl.name, ObjDecl.props]
    apply List.ext_getElem
    · simp [hl]
    · intro i h1 h2
      have hi : i < (virt ++ props).length := by simpa using h2
      have hf : i < (bProps c (np ++ [name]) io 1 (virt ++ props)).flds.length := by rw [hl]; exact hi
      have := hn i hi hf
      simp only [List.getElem_map, List.getElem_zipIdx, this.1, this.2.1]
      simp [Nat.add_comm]

end J5V.Compile
