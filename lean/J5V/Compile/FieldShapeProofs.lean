import J5V.Compile.ConvertProofs
import J5V.Compile.NoPanic
/-!
# Shape of an emitted field (C02, core only)

What `buildProperty` writes besides name / JSON name / number (`bProperty_fld`): cardinality
(`repeated` exactly for arrays and maps), optionality (`proto3_optional` exactly for properties
marked explicitly optional — never together with required), required-ness (`required` mark or a
primary key), the oneof wrapper (`oneof_index = 0` exactly inside a oneof) and the proto type of
every scalar field kind.
-/
namespace J5V.Compile

/-- arrays and maps are the repeated fields -/
def Field.isRepeated : Field → Bool
  | .array _ _ => true
  | .map _ _ => true
  | _ => false

/-- the branch of `buildProperty` a property takes, with the `repeated` flag it passes on -/
theorem bProperty_cases_rep (c : Ctx) (np : List Str) (io : Bool) (number : Nat) (name : Str)
    (req opt : Bool) (schema : Field) :
    (∃ e : Eff, bProperty c np io number (.mk name req opt schema) = { eff := e ++ Eff.err }) ∨
    (∃ pre entries r, bProperty c np io number (.mk name req opt schema) =
      finishProperty name req opt number io pre entries r schema.isRepeated) := by
  unfold bProperty
  cases schema <;> dsimp only [Field.isRepeated] <;>
    (split <;> first | exact Or.inl ⟨_, rfl⟩ | exact Or.inr ⟨_, _, _, rfl⟩)

/-- **cardinality, optionality, oneof membership of an emitted field** -/
theorem bProperty_shape (c : Ctx) (np : List Str) (io : Bool) (number : Nat) (p : Property)
    (f : FieldSkel) (h : (bProperty c np io number p).fld = some f) :
    f.repeated = p.schema.isRepeated ∧ f.p3opt = p.explicitlyOptional ∧
      f.oneof = (if io then some 0 else none) ∧
      (p.required = true → f.req = true) ∧ (f.p3opt = true → f.req = false) := by
  cases p with
  | mk name req opt schema =>
    simp only [Property.schema, Property.explicitlyOptional, Property.required]
    rcases bProperty_cases_rep c np io number name req opt schema with ⟨e, he⟩ | ⟨pre, en, r, he⟩
    · rw [he] at h; simp at h
    · rw [he] at h
      have hne : ¬ (opt && (req || r.primaryKey)) = true := by
        intro hc
        simp [finishProperty, hc] at h
      have := finishProperty_fld _ _ _ _ _ _ _ _ _ _ h
      obtain ⟨_, _, _, ho, hr, hp, hq, _⟩ := this
      refine ⟨hr, hp, ho, ?_, ?_⟩
      · intro hreq; rw [hq, hreq]; rfl
      · intro hopt
        rw [hp] at hopt
        rw [hq]
        cases hx : (req || r.primaryKey) with
        | false => rfl
        | true => exact absurd (by simp [hopt, hx]) hne

/-- **proto type of a scalar field**: a property whose schema is one of the scalar kinds (not an
array, map, reference or inline type) is emitted with exactly the type, type name and j5 extension
member that `scalarField` lists for the kind -/
theorem bProperty_scalar_type (c : Ctx) (np : List Str) (io : Bool) (number : Nat) (name : Str)
    (req opt : Bool) (schema : Field) (b : BF) (r : FieldRes) (hs : scalarField schema = some b)
    (hr : b.res = some r) (f : FieldSkel)
    (h : (bProperty c np io number (.mk name req opt schema)).fld = some f) :
    f.type = r.type ∧ f.typeName = r.typeName ∧ f.ext = r.ext ∧ f.repeated = false := by
  have hb := bField_scalar c np (toCamel name) schema b hs
  have hm : ∀ (i : Field) (ru : Rules), schema = .map i ru → False := by
    intro i ru he; subst he; simp [scalarField] at hs
  have ha : ∀ (i : Field) (ru : Rules), schema = .array i ru → False := by
    intro i ru he; subst he; simp [scalarField] at hs
  rw [bProperty] at h
  · rw [hb, hr] at h
    simp only [] at h
    have := finishProperty_fld _ _ _ _ _ _ _ _ _ _ h
    exact ⟨this.2.2.2.2.2.2.2.1, this.2.2.2.2.2.2.2.2.1, this.2.2.2.2.2.2.2.2.2, this.2.2.2.2.1⟩
  · exact hm
  · exact ha

/-- the scalar table: kind ↦ proto type / well-known message -/
theorem scalar_type_table (rules : Rules) (lr : Bool) (ifmt : IntFmt) (kf : KeyFmt) (ek : EntKey) :
    ((scalarField (.string rules lr)).bind (·.res)).map (fun r => (r.type, r.typeName)) = some (.string, []) ∧
    ((scalarField (.bool rules lr)).bind (·.res)).map (fun r => (r.type, r.typeName)) = some (.bool, []) ∧
    ((scalarField (.bytes rules)).bind (·.res)).map (fun r => (r.type, r.typeName)) = some (.bytes, []) ∧
    ((scalarField (.key kf ek rules lr)).bind (·.res)).map (fun r => (r.type, r.typeName)) = some (.string, []) ∧
    ((scalarField (.date rules lr)).bind (·.res)).map (fun r => (r.type, r.typeName)) =
      some (.message, b!".j5.types.date.v1.Date") ∧
    ((scalarField (.decimal rules lr)).bind (·.res)).map (fun r => (r.type, r.typeName)) =
      some (.message, b!".j5.types.decimal.v1.Decimal") ∧
    ((scalarField (.timestamp rules)).bind (·.res)).map (fun r => (r.type, r.typeName)) =
      some (.message, b!".google.protobuf.Timestamp") ∧
    ((scalarField .any).bind (·.res)).map (fun r => (r.type, r.typeName)) =
      some (.message, b!".j5.types.any.v1.Any") ∧
    (intRulesErr rules = false →
      ((scalarField (.integer ifmt rules lr)).bind (·.res)).map (fun r => (r.type, r.typeName)) =
        some (intType ifmt, [])) := by
  refine ⟨rfl, rfl, rfl, rfl, rfl, rfl, rfl, rfl, ?_⟩
  intro h
  simp [scalarField, h]

/-- the fields of a property list that converted without error are the fields of its properties,
one by one -/
theorem bProps_get (c : Ctx) (np : List Str) (io : Bool) (n : Nat) (ps : List Property)
    (h : (bProps c np io n ps).eff.errs = 0) :
    ∀ i (hi : i < ps.length) (hf : i < (bProps c np io n ps).flds.length),
      (bProperty c np io (n + i) ps[i]).fld = some ((bProps c np io n ps).flds[i]) := by
  induction ps generalizing n with
  | nil => intro i hi; simp at hi
  | cons p ps ih =>
    have h' := h
    rw [bProps_cons] at h
    simp only [Eff.add_def, Eff.add] at h
    have h2 : (bProps c np io (n + 1) ps).eff.errs = 0 := by
      cases io <;> simp at h <;> omega
    have h1 : (bProperty c np io n p).eff.errs = 0 := by
      cases io <;> simp at h <;> omega
    cases hfld : (bProperty c np io n p).fld with
    | none => have := bProperty_none_errs c np io n p hfld; omega
    | some f =>
      intro i hi hf
      have hflds : (bProps c np io n (p :: ps)).flds = f :: (bProps c np io (n + 1) ps).flds := by
        rw [bProps_cons]; simp [hfld]
      cases i with
      | zero => simp [hflds, hfld]
      | succ j =>
        have hj : j < ps.length := by simpa using hi
        have hjf : j < (bProps c np io (n + 1) ps).flds.length := by
          rw [(bProps_numbering c np io (n + 1) ps h2).1]; exact hj
        have := ih (n + 1) h2 j hj hjf
        simp only [List.getElem_cons_succ, hflds]
        rw [← this]
        congr 2
        omega

/-- **a map property**: one map-entry message `<CamelSnake(name)>Entry` (key = string 1, value = 2 with
the item's type) handed to the enclosing context, and a repeated message field of that type -/
theorem bProperty_map (c : Ctx) (np : List Str) (io : Bool) (number : Nat) (name : Str) (req opt : Bool)
    (items : Field) (mrules : Rules) (r : FieldRes)
    (hr : (bField c np (toCamel name) items).res = some r) (f : FieldSkel)
    (h : (bProperty c np io number (.mk name req opt (.map items mrules))).fld = some f) :
    (bProperty c np io number (.mk name req opt (.map items mrules))).entries =
        [mkEntry (mapName (toSnake name)) r] ∧
      f.type = .message ∧ f.typeName = mapName (toSnake name) ∧ f.repeated = true ∧ f.ext = b!"map" := by
  rw [bProperty] at h ⊢
  simp only [hr] at h ⊢
  have hf := finishProperty_fld _ _ _ _ _ _ _ _ _ _ h
  refine ⟨?_, hf.2.2.2.2.2.2.2.1, hf.2.2.2.2.2.2.2.2.1, hf.2.2.2.2.1, hf.2.2.2.2.2.2.2.2.2⟩
  unfold finishProperty
  simp only []
  split <;> rfl

/-- float fields (rules are rejected — recorded finding — so the table is for the rule-free form) -/
theorem scalar_type_float (ffmt : FloatFmt) (lr : Bool) :
    ((scalarField (.float ffmt [] lr)).bind (·.res)).map (fun r => (r.type, r.typeName)) =
      some (floatType ffmt, []) := by
  simp [scalarField]

/-- **an array property**: a repeated field with the ITEM's proto type and type name, ext `array` -/
theorem bProperty_array (c : Ctx) (np : List Str) (io : Bool) (number : Nat) (name : Str) (req opt : Bool)
    (items : Field) (arules : Rules) (r : FieldRes)
    (hr : (bField c np (toCamel name) items).res = some r) (f : FieldSkel)
    (h : (bProperty c np io number (.mk name req opt (.array items arules))).fld = some f) :
    f.type = r.type ∧ f.typeName = r.typeName ∧ f.repeated = true ∧ f.ext = b!"array" := by
  rw [bProperty] at h
  simp only [hr] at h
  have hf := finishProperty_fld _ _ _ _ _ _ _ _ _ _ h
  exact ⟨hf.2.2.2.2.2.2.2.1, hf.2.2.2.2.2.2.2.2.1, hf.2.2.2.2.1, hf.2.2.2.2.2.2.2.2.2⟩

/-- a oneof reference that resolves to a message: absolute type name of the declared type -/
theorem bField_oneofRef_res (c : Ctx) (np : List Str) (d pkg schema : Str) (rules : Rules) (lr : Bool)
    (t : TypeRef) (h : c.resolve pkg schema = some t) (hm : t.kind.isMessage = true) :
    ∃ r, (bField c np d (.oneofRef pkg schema rules lr)).res = some r ∧
      r.type = .message ∧ r.typeName = t.protoTypeName ∧ r.ext = b!"oneof" := by
  rw [bField]
  simp [msgRefField, refField, h, hm]

/-- an enum reference that resolves to an enum whose rule values / default filters name options:
enum-typed, absolute type name of the declared enum -/
theorem bField_enumRef_res (c : Ctx) (np : List Str) (d pkg schema : Str) (rules : Rules)
    (lr : Option (List Str)) (t : TypeRef) (pfx : Str) (names : List Str)
    (h : c.resolve pkg schema = some t) (hk : t.kind = .enum pfx names)
    (h1 : mapValuesOk pfx names (enumRuleVals rules) = true)
    (h2 : mapValuesOk pfx names (lr.getD []) = true) :
    ∃ r, (bField c np d (.enumRef pkg schema rules lr)).res = some r ∧
      r.type = .enum ∧ r.typeName = t.protoTypeName ∧ r.ext = b!"enum" := by
  rw [bField]
  simp [refField, h, hk, TKind.isMessage, enumFieldWith, h1, h2]

/-- an inline enum / oneof / object field refers to the nested type by its relative dotted name -/
theorem bField_inline_typeName (c : Ctx) (np : List Str) (d : Str) :
    (∀ name props fl rules, ((bField c np d (.objectInl name props fl rules)).res.map (fun r => (r.type, r.typeName))) =
      some (.message, relName np (if name = [] then d else name))) ∧
    (∀ name props rules lr, ((bField c np d (.oneofInl name props rules lr)).res.map (fun r => (r.type, r.typeName))) =
      some (.message, relName np (if name = [] then d else name))) := by
  constructor
  · intro name props fl rules
    rw [bField]; simp [msgInlField]
  · intro name props rules lr
    rw [bField]; simp [msgInlField]

end J5V.Compile
