import J5V.Compile.AppendEdit
/-!
# Field appends to service requests / responses and topic messages, package level (C13) — core only

The containers are virtual objects (`<Method>Request`, `<Method>Response`, `<Name>Message`) that live
in the sub-package files; `convertFile_replace_items` is the twin of `convertFile_replace_main` for
edits of items of any target.
-/
namespace J5V.Compile
open J5V.Go

/-- the items of every target are related: messages by `RM`, enums by `RE`, services equal, and no
target loses its last item — the generated files correspond one to one -/
theorem convertFile_replace_items (res : Resolver) (path : Str) (imports : List Import)
    (elems elems' : List Elem) (fs fs' : List FileSkel)
    (h : convertFile res path imports elems = .ok fs)
    (h' : convertFile res path imports elems' = .ok fs')
    (RM : List MsgSkel → List MsgSkel → Prop) (RE : List EnumSkel → List EnumSkel → Prop)
    (hex : ∀ t, (∃ i ∈ elems.flatMap (itemsOfElem (packageFromFilename (path ++ b!".proto"))), i.target = t) →
      ∃ i ∈ elems'.flatMap (itemsOfElem (packageFromFilename (path ++ b!".proto"))), i.target = t)
    (hrel : ∀ (c : Ctx) (t : Target),
      RM (((elems.flatMap (itemsOfElem (packageFromFilename (path ++ b!".proto")))).filter
            (·.target = t)).flatMap (itemMsgs c))
         (((elems'.flatMap (itemsOfElem (packageFromFilename (path ++ b!".proto")))).filter
            (·.target = t)).flatMap (itemMsgs c)) ∧
      RE (((elems.flatMap (itemsOfElem (packageFromFilename (path ++ b!".proto")))).filter
            (·.target = t)).flatMap (itemEnums c))
         (((elems'.flatMap (itemsOfElem (packageFromFilename (path ++ b!".proto")))).filter
            (·.target = t)).flatMap (itemEnums c)) ∧
      ((elems.flatMap (itemsOfElem (packageFromFilename (path ++ b!".proto")))).filter
            (·.target = t)).flatMap (itemSvcs c) =
      ((elems'.flatMap (itemsOfElem (packageFromFilename (path ++ b!".proto")))).filter
            (·.target = t)).flatMap (itemSvcs c))
    (hRE : RE [] []) :
    ∀ f ∈ fs, ∃ f' ∈ fs', f'.name = f.name ∧ f'.pkg = f.pkg ∧ f.svcs = f'.svcs ∧
      RM f.msgs f'.msgs ∧ RE f.enums f'.enums := by
  obtain ⟨im, hj, hrest⟩ := convertFile_exact res path imports elems fs h
  obtain ⟨im', hj', hrest'⟩ := convertFile_exact res path imports elems' fs' h'
  have him : im' = im := by rw [hj] at hj'; exact (Outcome.ok.inj hj').symm
  subst him
  simp only [] at hrest hrest'
  obtain ⟨main, subs, hfs, hname, hpkg, hsvcs, hmsgs, henums, _, hsubs, _⟩ := hrest
  obtain ⟨main', subs', hfs', hname', hpkg', hsvcs', hmsgs', henums', _, hsubs', hall'⟩ := hrest'
  intro f hf
  rw [hfs] at hf
  rcases List.mem_cons.mp hf with rfl | hf
  · refine ⟨main', by rw [hfs']; simp, by rw [hname', hname], by rw [hpkg', hpkg], by rw [hsvcs, hsvcs'], ?_, ?_⟩
    · rw [hmsgs, hmsgs']; exact (hrel _ .main).1
    · rw [henums, henums']; exact (hrel _ .main).2.1
  · obtain ⟨t, k, htk, hext, hfn, hfp, hfm, hfe, hfsv⟩ := hsubs f hf
    obtain ⟨f', hf', hf'p⟩ := hall' t k htk (hex t hext)
    obtain ⟨t', k', htk', _, hfn', hfp', hfm', hfe', hfsv'⟩ := hsubs' f' hf'
    have hk : k' = k := by
      rw [hfp'] at hf'p
      exact List.append_cancel_left hf'p
    subst hk
    have ht : t' = t := target_sub_inj t' t k' htk' htk
    subst ht
    refine ⟨f', by rw [hfs']; exact List.mem_cons_of_mem _ hf', by rw [hfn', hfn], by rw [hfp', hfp], ?_, ?_, ?_⟩
    · rw [hfsv, hfsv']; exact (hrel _ t').2.2
    · rw [hfm, hfm']; exact (hrel _ t').1
    · rw [hfe, hfe']; exact hRE

/-- the message of a (virtual or declared) object with one more property -/
theorem declMsg_append_le1 (c : Ctx) (np : List Str) (io : Bool) (virt : List Property) (n : Str)
    (ps : List Property) (prop : Property) (ne : List Nested) (psm : Option Psm) :
    (declMsg c np io virt n ps ne psm).Le1 (declMsg c np io virt n (ps ++ [prop]) ne psm) := by
  simp only [declMsg, mkMsg, ← List.append_assoc, bProps_append_flds, bProps_append_eff, Eff.add]
  refine ⟨rfl, rfl, rfl, List.prefix_append _ _, ?_, ?_⟩
  · intro x hx
    simp only [MsgSkel.msgs, List.mem_append] at hx ⊢
    rcases hx with hx | hx
    · exact Or.inl (Or.inl hx)
    · exact Or.inr hx
  · intro x hx
    simp only [MsgSkel.enums, List.mem_append] at hx ⊢
    rcases hx with hx | hx
    · exact Or.inl (Or.inl hx)
    · exact Or.inr hx

/-! ## virtual objects: one of them gets a property -/

theorem virtualExports_append (a b : List (Str × List Property)) :
    virtualExports (a ++ b) = virtualExports a ++ virtualExports b := by
  simp [virtualExports, List.flatMap_append]

theorem virtualExports_ext (O1 O2 : List (Str × List Property)) (n : Str) (r : List Property)
    (prop : Property) :
    virtualExports (O1 ++ [(n, r)] ++ O2) =
      (virtualExports O1 ++ ((n, TKind.message false) :: exportsProps [n] r)) ++ virtualExports O2 ∧
    virtualExports (O1 ++ [(n, r ++ [prop])] ++ O2) =
      (virtualExports O1 ++ ((n, TKind.message false) :: exportsProps [n] r)) ++
        exportsProps [n] [prop] ++ virtualExports O2 := by
  constructor
  · simp [virtualExports, List.flatMap_append]
  · simp [virtualExports, List.flatMap_append, exportsProps_append]

theorem virtualRefs_ext (O1 O2 : List (Str × List Property)) (n : Str) (r : List Property)
    (prop : Property) :
    ∀ x ∈ (O1 ++ [(n, r)] ++ O2).flatMap (fun o => refsProps o.2),
      x ∈ (O1 ++ [(n, r ++ [prop])] ++ O2).flatMap (fun o => refsProps o.2) := by
  intro x hx
  simp only [List.flatMap_append, List.flatMap_cons, List.flatMap_nil, List.append_nil,
    refsProps_append, List.mem_append] at hx ⊢
  rcases hx with (hx | hx) | hx
  · exact Or.inl (Or.inl hx)
  · exact Or.inl (Or.inr (Or.inl hx))
  · exact Or.inr hx

/-! ## one item of the file changes -/

theorem MsgsLe_append3 (a b b' c : List MsgSkel) (h : MsgsLe b b') :
    MsgsLe (a ++ b ++ c) (a ++ b' ++ c) := by
  intro m hm
  simp only [List.mem_append] at hm ⊢
  rcases hm with (hm | hm) | hm
  · exact ⟨m, Or.inl (Or.inl hm), MsgSkel.Le1.refl m⟩
  · obtain ⟨m', hm', hle⟩ := h m hm
    exact ⟨m', Or.inl (Or.inr hm'), hle⟩
  · exact ⟨m, Or.inr hm, MsgSkel.Le1.refl m⟩

theorem items_rel_single (c : Ctx) (t : Target) (I1 I2 : List Item) (it it' : Item)
    (htg : it'.target = it.target)
    (hm : MsgsLe (itemMsgs c it) (itemMsgs c it')) (he : itemEnums c it = itemEnums c it')
    (hs : itemSvcs c it = itemSvcs c it') :
    MsgsLe (((I1 ++ [it] ++ I2).filter (·.target = t)).flatMap (itemMsgs c))
      (((I1 ++ [it'] ++ I2).filter (·.target = t)).flatMap (itemMsgs c)) ∧
    EnumsLe (((I1 ++ [it] ++ I2).filter (·.target = t)).flatMap (itemEnums c))
      (((I1 ++ [it'] ++ I2).filter (·.target = t)).flatMap (itemEnums c)) ∧
    ((I1 ++ [it] ++ I2).filter (·.target = t)).flatMap (itemSvcs c) =
      ((I1 ++ [it'] ++ I2).filter (·.target = t)).flatMap (itemSvcs c) := by
  by_cases h : it.target = t
  · have h' : it'.target = t := by rw [htg]; exact h
    simp only [List.filter_append, List.filter_cons, h, h', decide_true, if_true, List.filter_nil,
      List.flatMap_append, List.flatMap_cons, List.flatMap_nil, List.append_nil, he, hs]
    exact ⟨MsgsLe_append3 _ _ _ _ hm, EnumsLe.refl _, trivial⟩
  · have h' : ¬ it'.target = t := by rw [htg]; exact h
    simp only [List.filter_append, List.filter_cons, h, h', decide_false, Bool.false_eq_true,
      if_false, List.filter_nil, List.append_nil]
    exact ⟨MsgsLe.refl _, EnumsLe.refl _, trivial⟩

/-- file level: elems = E1 ++ [x] ++ E2 where `x` expands to the single item `it` (resp. `it'`) -/
theorem convertFile_single_item (res : Resolver) (path : Str) (imports : List Import)
    (E1 E2 : List Elem) (x x' : Elem) (it it' : Item)
    (hx : itemsOfElem (packageFromFilename (path ++ b!".proto")) x = [it])
    (hx' : itemsOfElem (packageFromFilename (path ++ b!".proto")) x' = [it'])
    (htg : it'.target = it.target)
    (hm : ∀ c, MsgsLe (itemMsgs c it) (itemMsgs c it')) (he : ∀ c, itemEnums c it = itemEnums c it')
    (hs : ∀ c, itemSvcs c it = itemSvcs c it')
    (fs fs' : List FileSkel)
    (h : convertFile res path imports (E1 ++ [x] ++ E2) = .ok fs)
    (h' : convertFile res path imports (E1 ++ [x'] ++ E2) = .ok fs') :
    ∀ f ∈ fs, ∃ f' ∈ fs', f.LeEdit f' := by
  apply convertFile_replace_items res path imports _ _ fs fs' h h' MsgsLe EnumsLe
  · intro t ⟨i, hi, hit⟩
    simp only [List.flatMap_append, List.flatMap_cons, List.flatMap_nil, List.append_nil, hx, hx',
      List.mem_append, List.mem_singleton] at hi ⊢
    rcases hi with (hi | hi) | hi
    · exact ⟨i, Or.inl (Or.inl hi), hit⟩
    · subst hi; exact ⟨it', Or.inl (Or.inr rfl), by rw [htg]; exact hit⟩
    · exact ⟨i, Or.inr hi, hit⟩
  · intro c t
    simp only [List.flatMap_append, List.flatMap_cons, List.flatMap_nil, List.append_nil, hx, hx']
    exact items_rel_single c t _ _ it it' htg (hm c) (he c) (hs c)
  · exact EnumsLe.refl _

theorem summary_single_item (path : Str) (imports : List Import) (E1 E2 : List Elem) (x x' : Elem)
    (it it' : Item)
    (hx : itemsOfElem (packageFromFilename (path ++ b!".proto")) x = [it])
    (hx' : itemsOfElem (packageFromFilename (path ++ b!".proto")) x' = [it'])
    (A0 N C0 : List (Str × TKind))
    (hA : itemExports it = A0 ++ C0) (hB : itemExports it' = A0 ++ N ++ C0)
    (hr : ∀ r ∈ itemRefs it, r ∈ itemRefs it')
    (s s' : Summary') (hs : sourceSummary path imports (E1 ++ [x] ++ E2) = .ok s)
    (hs' : sourceSummary path imports (E1 ++ [x'] ++ E2) = .ok s') :
    (∀ (X Y : List (Str × TypeRef)) k, k ∉ N.map (·.1) →
      mapGet (X ++ s'.exports ++ Y) k = mapGet (X ++ s.exports ++ Y) k) ∧
    (∀ d ∈ s.depPkgs, d ∈ s'.depPkgs) := by
  apply summary_rel_insert path imports _ _ s s' hs hs'
    ((E1.flatMap (itemsOfElem (packageFromFilename (path ++ b!".proto")))).flatMap itemExports ++ A0)
    N (C0 ++ (E2.flatMap (itemsOfElem (packageFromFilename (path ++ b!".proto")))).flatMap itemExports)
  · simp only [List.flatMap_append, List.flatMap_cons, List.flatMap_nil, List.append_nil, hx, hA,
      List.append_assoc]
  · simp only [List.flatMap_append, List.flatMap_cons, List.flatMap_nil, List.append_nil, hx', hB,
      List.append_assoc]
  · intro r hrr
    simp only [List.flatMap_append, List.flatMap_cons, List.flatMap_nil, List.append_nil, hx, hx',
      List.mem_append] at hrr ⊢
    rcases hrr with (h | h) | h
    · exact Or.inl (Or.inl h)
    · exact Or.inl (Or.inr (hr r h))
    · exact Or.inr h

/-! ## service methods -/

/-- the virtual objects of one method (the summand of `serviceObjects`) -/
def methodObjs (m : Method) : List (Str × List Property) :=
  (match m.request with | some r => [(m.name ++ b!"Request", r)] | none => []) ++
  (match m.response with | some r => [(m.name ++ b!"Response", r)] | none => [])

theorem serviceObjects_eq (s : Service) : serviceObjects s = s.methods.flatMap methodObjs := rfl

/-- `mt'` is `mt` with `prop` at the end of its request (`true`) / response (`false`), which was `r` -/
def MethodExt : Bool → Method → Method → List Property → Property → Prop
  | true, mt, mt', r, prop => mt.request = some r ∧ mt' = { mt with request := some (r ++ [prop]) }
  | false, mt, mt', r, prop => mt.response = some r ∧ mt' = { mt with response := some (r ++ [prop]) }

/-- name of the virtual object -/
def methodObjName : Bool → Method → Str
  | true, mt => mt.name ++ b!"Request"
  | false, mt => mt.name ++ b!"Response"

def reqStep : Bool → PStep
  | true => .req
  | false => .res

theorem methodObjs_ext (rq : Bool) (mt mt' : Method) (r : List Property) (prop : Property)
    (h : MethodExt rq mt mt' r prop) :
    ∃ X Y, methodObjs mt = X ++ [(methodObjName rq mt, r)] ++ Y ∧
      methodObjs mt' = X ++ [(methodObjName rq mt, r ++ [prop])] ++ Y := by
  cases rq with
  | true =>
    obtain ⟨h1, rfl⟩ := h
    refine ⟨[], (match mt.response with | some r => [(mt.name ++ b!"Response", r)] | none => []), ?_, ?_⟩
    · simp [methodObjs, h1, methodObjName]
    · simp [methodObjs, methodObjName]
  | false =>
    obtain ⟨h1, rfl⟩ := h
    refine ⟨(match mt.request with | some r => [(mt.name ++ b!"Request", r)] | none => []), [], ?_, ?_⟩
    · simp [methodObjs, h1, methodObjName]
    · simp [methodObjs, methodObjName]

theorem methodMsgs_ext (c : Ctx) (rq : Bool) (mt mt' : Method) (r : List Property) (prop : Property)
    (h : MethodExt rq mt mt' r prop) : MsgsLe (methodMsgs c mt) (methodMsgs c mt') := by
  cases rq with
  | true =>
    obtain ⟨h1, rfl⟩ := h
    intro m hm
    simp only [methodMsgs, h1, List.mem_append, List.mem_singleton] at hm ⊢
    rcases hm with hm | hm
    · subst hm
      exact ⟨_, Or.inl rfl, declMsg_append_le1 c [] false [] _ r prop [] none⟩
    · refine ⟨m, Or.inr ?_, MsgSkel.Le1.refl m⟩
      cases hrs : mt.response with
      | none => simp [hrs] at hm
      | some q => simpa [hrs] using hm
  | false =>
    obtain ⟨h1, rfl⟩ := h
    intro m hm
    cases hq : mt.request with
    | none => simp [methodMsgs, hq] at hm
    | some q =>
      simp only [methodMsgs, hq, h1, List.mem_append, List.mem_singleton] at hm ⊢
      rcases hm with hm | hm
      · exact ⟨m, Or.inl hm, MsgSkel.Le1.refl m⟩
      · subst hm
        exact ⟨_, Or.inr rfl, declMsg_append_le1 c [] false [] _ r prop [] none⟩

/-- the rpc of one method as `visitServiceMethodNode` builds it -/
def methodBuilt (c : Ctx) (bp : Option Str) (m : Method) : List MethodSkel :=
  (([walkMethod c bp m].filterMap (·.node)).map convMethod).filterMap (·.2)

theorem builtMethods_flatMap (c : Ctx) (s : Service) :
    builtMethods c s = s.methods.flatMap (methodBuilt c s.basePath) := by
  unfold builtMethods
  induction s.methods with
  | nil => rfl
  | cons m ms ih =>
    simp only [List.map_cons, List.flatMap_cons, ← ih]
    simp only [methodBuilt, List.filterMap_cons, List.filterMap_nil]
    cases (walkMethod c s.basePath m).node with
    | none => simp
    | some nd =>
      simp only [List.map_cons, List.map_nil, List.filterMap_cons, List.filterMap_nil]
      cases (convMethod nd).2 <;> simp

theorem convMethod_snd (m : Method) (req : List Property) (hr : m.request = some req)
    (i o rp : Str) :
    (convMethod (m, i, o, rp)).2 =
      if m.verb = .unspecified then none else
        some { name := m.name, input := i, output := o,
               http := some { verb := m.verb, path := (rewritePath req rp).1, body := verbBody m.verb },
               mopt := m.mopt } := by
  unfold convMethod
  simp only [hr]
  split <;> rfl

theorem methodBuilt_some (c : Ctx) (bp : Option Str) (m : Method) (req : List Property)
    (hr : m.request = some req) :
    methodBuilt c bp m = if m.verb = .unspecified then [] else [methodSkelOf bp m] := by
  simp only [methodBuilt, List.filterMap_cons, List.filterMap_nil, walkMethod_node c bp m req hr,
    List.map_cons, List.map_nil]
  rw [convMethod_snd m req hr]
  by_cases hv : m.verb = .unspecified
  · simp only [hv, if_true]
  · simp only [hv, if_false]
    simp only [methodSkelOf, hr, Option.getD]

theorem methodBuilt_none (c : Ctx) (bp : Option Str) (m : Method) (hr : m.request = none) :
    methodBuilt c bp m = [] := by
  simp [methodBuilt, walkMethod, hr]

/-- the rpc does not depend on the properties of the request / response -/
theorem methodBuilt_ext (c : Ctx) (bp : Option Str) (rq : Bool) (mt mt' : Method) (r : List Property)
    (prop : Property) (h : MethodExt rq mt mt' r prop) :
    methodBuilt c bp mt' = methodBuilt c bp mt := by
  cases rq with
  | true =>
    obtain ⟨h1, rfl⟩ := h
    rw [methodBuilt_some c bp mt r h1, methodBuilt_some c bp _ (r ++ [prop]) rfl]
    rfl
  | false =>
    obtain ⟨h1, rfl⟩ := h
    cases hq : mt.request with
    | none => rw [methodBuilt_none c bp mt hq, methodBuilt_none c bp _ rfl]
    | some q =>
      rw [methodBuilt_some c bp mt q hq, methodBuilt_some c bp _ q rfl]
      simp only [methodSkelOf, resolvedPath, h1, hq]

theorem editService_field (prop : Property) (m : Nat) (rq : Bool) (sv sv' : Service)
    (h : editService (.field prop) [.method m, reqStep rq] sv = some sv') :
    ∃ M1 M2 mt mt' r, sv.methods = M1 ++ [mt] ++ M2 ∧
      sv' = { sv with methods := M1 ++ [mt'] ++ M2 } ∧ M1.length = m ∧ MethodExt rq mt mt' r prop := by
  cases rq with
  | true =>
    simp only [reqStep, editService] at h
    obtain ⟨ms, hsa, rfl⟩ := Option.map_eq_some_iff.mp h
    obtain ⟨mt, mt', g1, gf, g2, g3⟩ := setAt_some _ _ _ _ hsa
    cases hr : mt.request with
    | none => simp [hr] at gf
    | some r =>
      simp only [hr, editProps, Option.map_some, Option.some.injEq] at gf
      subst gf
      exact ⟨_, _, mt, _, r, g1, by rw [g2], g3, hr, rfl⟩
  | false =>
    simp only [reqStep, editService] at h
    obtain ⟨ms, hsa, rfl⟩ := Option.map_eq_some_iff.mp h
    obtain ⟨mt, mt', g1, gf, g2, g3⟩ := setAt_some _ _ _ _ hsa
    cases hr : mt.response with
    | none => simp [hr] at gf
    | some r =>
      simp only [hr, editProps, Option.map_some, Option.some.injEq] at gf
      subst gf
      exact ⟨_, _, mt, _, r, g1, by rw [g2], g3, hr, rfl⟩

/-- `appendField` with the path `[el i, method m, req | res]` -/
theorem editElems_field_method (prop : Property) (i m : Nat) (rq : Bool) (elems elems' : List Elem)
    (h : editElems (.field prop) [.el i, .method m, reqStep rq] elems = some elems') :
    ∃ E1 E2 sv M1 M2 mt mt' r, elems = E1 ++ [.service sv] ++ E2 ∧
      elems' = E1 ++ [.service { sv with methods := M1 ++ [mt'] ++ M2 }] ++ E2 ∧ E1.length = i ∧
      sv.methods = M1 ++ [mt] ++ M2 ∧ M1.length = m ∧ MethodExt rq mt mt' r prop := by
  simp only [editElems] at h
  obtain ⟨a, a', h1, hf, h2, h3⟩ := setAt_some _ _ _ _ h
  cases a with
  | object ob => cases ob with | mk n ps ne psm => cases rq <;> simp [editElem, editDecl, reqStep] at hf
  | oneof ob => cases ob with | mk n ps ne psm => cases rq <;> simp [editElem, editDecl, reqStep] at hf
  | enum e => simp [editElem, editEnum] at hf
  | topic t => cases rq <;> simp [editElem, editTopic, reqStep] at hf
  | entity en => cases rq <;> simp [editElem, editEntity, reqStep] at hf
  | service sv =>
    simp only [editElem] at hf
    obtain ⟨sv', hsv, rfl⟩ := Option.map_eq_some_iff.mp hf
    obtain ⟨M1, M2, mt, mt', r, g1, rfl, g3, g4⟩ := editService_field prop m rq sv sv' hsv
    exact ⟨_, _, sv, M1, M2, mt, mt', r, h1, h2, h3, g1, g3, g4⟩

/-! ### the service item -/

theorem serviceItem_msgs (c : Ctx) (sv : Service) (M1 M2 : List Method) (mt mt' : Method) (rq : Bool)
    (r : List Property) (prop : Property) (hm : sv.methods = M1 ++ [mt] ++ M2)
    (hx : MethodExt rq mt mt' r prop) :
    MsgsLe (itemMsgs c (.serviceFile [sv]))
      (itemMsgs c (.serviceFile [{ sv with methods := M1 ++ [mt'] ++ M2 }])) := by
  rw [itemMsgs_serviceFile, itemMsgs_serviceFile]
  simp only [List.flatMap_cons, List.flatMap_nil, List.append_nil, hm, List.flatMap_append]
  exact MsgsLe_append3 _ _ _ _ (methodMsgs_ext c rq mt mt' r prop hx)

theorem serviceItem_svcs (c : Ctx) (sv : Service) (M1 M2 : List Method) (mt mt' : Method) (rq : Bool)
    (r : List Property) (prop : Property) (hm : sv.methods = M1 ++ [mt] ++ M2)
    (hx : MethodExt rq mt mt' r prop) :
    itemSvcs c (.serviceFile [sv]) =
      itemSvcs c (.serviceFile [{ sv with methods := M1 ++ [mt'] ++ M2 }]) := by
  rw [itemSvcs_serviceFile, itemSvcs_serviceFile]
  simp only [List.flatMap_cons, List.flatMap_nil, List.append_nil, serviceSvcs]
  have : builtMethods c { sv with methods := M1 ++ [mt'] ++ M2 } = builtMethods c sv := by
    rw [builtMethods_flatMap, builtMethods_flatMap, hm]
    simp only [List.flatMap_append, List.flatMap_cons, List.flatMap_nil, List.append_nil,
      methodBuilt_ext c sv.basePath rq mt mt' r prop hx]
  rw [this]

theorem serviceItem_exports (sv : Service) (M1 M2 : List Method) (mt mt' : Method) (rq : Bool)
    (r : List Property) (prop : Property) (hm : sv.methods = M1 ++ [mt] ++ M2)
    (hx : MethodExt rq mt mt' r prop) :
    ∃ A0 C0, itemExports (.serviceFile [sv]) = A0 ++ C0 ∧
      itemExports (.serviceFile [{ sv with methods := M1 ++ [mt'] ++ M2 }]) =
        A0 ++ exportsProps [methodObjName rq mt] [prop] ++ C0 ∧
      ∀ x ∈ itemRefs (.serviceFile [sv]),
        x ∈ itemRefs (.serviceFile [{ sv with methods := M1 ++ [mt'] ++ M2 }]) := by
  obtain ⟨X, Y, hX, hX'⟩ := methodObjs_ext rq mt mt' r prop hx
  have hobj : [sv].flatMap serviceObjects =
      (M1.flatMap methodObjs ++ X) ++ [(methodObjName rq mt, r)] ++ (Y ++ M2.flatMap methodObjs) := by
    simp [serviceObjects_eq, hm, hX, List.flatMap_append]
  have hobj' : [({ sv with methods := M1 ++ [mt'] ++ M2 } : Service)].flatMap serviceObjects =
      (M1.flatMap methodObjs ++ X) ++ [(methodObjName rq mt, r ++ [prop])] ++ (Y ++ M2.flatMap methodObjs) := by
    simp [serviceObjects_eq, hX', List.flatMap_append]
  obtain ⟨e1, e2⟩ := virtualExports_ext (M1.flatMap methodObjs ++ X) (Y ++ M2.flatMap methodObjs)
    (methodObjName rq mt) r prop
  refine ⟨virtualExports (M1.flatMap methodObjs ++ X) ++
      ((methodObjName rq mt, TKind.message false) :: exportsProps [methodObjName rq mt] r),
    virtualExports (Y ++ M2.flatMap methodObjs), ?_, ?_, ?_⟩
  · simp only [itemExports]; rw [hobj]; exact e1
  · simp only [itemExports]; rw [hobj']; exact e2
  · intro x hxm
    simp only [itemRefs] at hxm ⊢
    rw [hobj] at hxm
    rw [hobj']
    exact virtualRefs_ext _ _ _ r prop x hxm

/-! ## topic messages -/

/-- the message with one more property -/
def TopicMsg.ext (tm : TopicMsg) (prop : Property) : TopicMsg := { tm with props := tm.props ++ [prop] }

/-- node `tn'` is `tn` with `prop` at the end of one of its messages -/
def NodeExt (tn tn' : TopicNode) (T1 T2 : List TopicMsg) (tm : TopicMsg) (prop : Property) : Prop :=
  tn.msgs = T1 ++ [tm] ++ T2 ∧ tn' = { tn with msgs := T1 ++ [tm.ext prop] ++ T2 }

def nodeObjs (tn : TopicNode) : List (Str × List Property) :=
  tn.msgs.filterMap fun m =>
    (topicMethodName tn m).map fun n => (n ++ b!"Message", tn.prepend ++ m.props)

theorem topicObjects_eq (t : Topic) : topicObjects t = (topicNodes t).flatMap nodeObjs := rfl

/-- name of the virtual object of a topic message (`[]` when the walker rejects the message) -/
def topicObjName (tn : TopicNode) (tm : TopicMsg) : Str := (topicMethodName tn tm).getD [] ++ b!"Message"

theorem topicMethodName_ext (tn tn' : TopicNode) (T1 T2 : List TopicMsg) (tm : TopicMsg)
    (prop : Property) (h : NodeExt tn tn' T1 T2 tm prop) (m : TopicMsg) :
    topicMethodName tn' m = topicMethodName tn m := by
  obtain ⟨h1, rfl⟩ := h
  simp [topicMethodName, h1]

theorem topicMethodName_msg_ext (tn : TopicNode) (tm : TopicMsg) (prop : Property) :
    topicMethodName tn (tm.ext prop) = topicMethodName tn tm := rfl

theorem topicSvc_ext (tn tn' : TopicNode) (T1 T2 : List TopicMsg) (tm : TopicMsg)
    (prop : Property) (h : NodeExt tn tn' T1 T2 tm prop) : topicSvc tn' = topicSvc tn := by
  have hn := topicMethodName_ext tn tn' T1 T2 tm prop h
  obtain ⟨h1, rfl⟩ := h
  simp only [topicSvc, h1, List.filterMap_append, List.filterMap_cons, List.filterMap_nil] at hn ⊢
  simp only [hn, topicMethodName_msg_ext]

theorem topicMsgs_ext (c : Ctx) (tn tn' : TopicNode) (T1 T2 : List TopicMsg) (tm : TopicMsg)
    (prop : Property) (h : NodeExt tn tn' T1 T2 tm prop) : MsgsLe (topicMsgs c tn) (topicMsgs c tn') := by
  have hn := topicMethodName_ext tn tn' T1 T2 tm prop h
  obtain ⟨h1, rfl⟩ := h
  simp only [topicMsgs, h1, List.filterMap_append, List.filterMap_cons, List.filterMap_nil, hn,
    topicMethodName_msg_ext]
  apply MsgsLe_append3
  cases hnm : topicMethodName tn tm with
  | none => exact MsgsLe.refl _
  | some n =>
    intro x hx
    simp only [Option.map_some, List.mem_singleton] at hx
    subst hx
    exact ⟨_, by simp [TopicMsg.ext], declMsg_append_le1 c [] false tn.prepend _ tm.props prop [] none⟩

theorem nodeObjs_ext (tn tn' : TopicNode) (T1 T2 : List TopicMsg) (tm : TopicMsg)
    (prop : Property) (h : NodeExt tn tn' T1 T2 tm prop) :
    (nodeObjs tn' = nodeObjs tn) ∨
    ∃ X Y, nodeObjs tn = X ++ [(topicObjName tn tm, tn.prepend ++ tm.props)] ++ Y ∧
      nodeObjs tn' = X ++ [(topicObjName tn tm, (tn.prepend ++ tm.props) ++ [prop])] ++ Y := by
  have hn := topicMethodName_ext tn tn' T1 T2 tm prop h
  obtain ⟨h1, rfl⟩ := h
  cases hnm : topicMethodName tn tm with
  | none =>
    left
    simp only [nodeObjs, h1, List.filterMap_append, List.filterMap_cons, List.filterMap_nil, hn,
      topicMethodName_msg_ext, hnm, Option.map_none]
  | some n =>
    right
    refine ⟨T1.filterMap (fun m => (topicMethodName tn m).map fun n => (n ++ b!"Message", tn.prepend ++ m.props)),
      T2.filterMap (fun m => (topicMethodName tn m).map fun n => (n ++ b!"Message", tn.prepend ++ m.props)), ?_, ?_⟩
    · simp only [nodeObjs, h1, List.filterMap_append, List.filterMap_cons, List.filterMap_nil, hnm,
        Option.map_some, topicObjName, Option.getD_some]
    · simp only [nodeObjs, List.filterMap_append, List.filterMap_cons, List.filterMap_nil, hn,
        topicMethodName_msg_ext, hnm, Option.map_some, topicObjName, Option.getD_some]
      simp [TopicMsg.ext, List.append_assoc]

def topicStep : Nat → Nat → PStep
  | 0, m => .msg m
  | 1, m => .reqm m
  | _, m => .repm m

theorem editMsgs_field (prop : Property) (m : Nat) (msgs ms : List TopicMsg)
    (h : editMsgs (.field prop) m [] msgs = some ms) :
    ∃ T1 T2 tm, msgs = T1 ++ [tm] ++ T2 ∧ ms = T1 ++ [tm.ext prop] ++ T2 := by
  unfold editMsgs at h
  obtain ⟨tm, tm', g1, gf, g2, _⟩ := setAt_some _ _ _ _ h
  simp only [editProps, Option.map_some, Option.some.injEq] at gf
  subst gf
  exact ⟨_, _, tm, g1, g2⟩

/-- `appendField` at a topic message (`msg m`, `reqm m`, `repm m`): one node of the topic gets the
property at the end of one of its messages -/
theorem editTopic_field (prop : Property) (k m : Nat) (t t' : Topic)
    (h : editTopic (.field prop) [topicStep k m] t = some t') :
    ∃ N1 N2 tn tn' T1 T2 tm, topicNodes t = N1 ++ [tn] ++ N2 ∧ topicNodes t' = N1 ++ [tn'] ++ N2 ∧
      NodeExt tn tn' T1 T2 tm prop := by
  match k with
  | 0 =>
    simp only [topicStep, editTopic] at h
    cases ht : t.type with
    | publish msgs =>
      simp only [ht] at h
      obtain ⟨ms, hms, rfl⟩ := Option.map_eq_some_iff.mp h
      obtain ⟨T1, T2, tm, g1, g2⟩ := editMsgs_field prop m msgs ms hms
      refine ⟨[], [], { name := t.name, msgs := msgs, topicName := toSnake t.name, role := .publish },
        _, T1, T2, tm, ?_, ?_, ⟨g1, rfl⟩⟩
      · simp [topicNodes, ht]
      · simp [topicNodes, g2]
    | reqres reqs reps => simp [ht] at h
    | upsert en msg =>
      simp only [ht] at h
      by_cases hm : m = 0
      · simp only [hm, if_true, editMsgs, setAt, editProps, List.getElem?_cons_zero, Option.map_some,
          List.set_cons_zero, Option.bind_some, List.head?_cons, Option.some.injEq] at h
        subst h
        refine ⟨[], [], { name := t.name, msgs := [{ msg with name := some (msg.name.getD t.name) }], topicName := toSnake t.name, role := .upsert, entityName := en, prepend := upsertPrepend },
          _, [], [], { msg with name := some (msg.name.getD t.name) }, ?_, ?_, ⟨rfl, rfl⟩⟩
        · simp [topicNodes, ht]
        · simp [topicNodes, TopicMsg.ext]
      · simp [hm] at h
    | event en msg =>
      simp only [ht] at h
      by_cases hm : m = 0
      · simp only [hm, if_true, editMsgs, setAt, editProps, List.getElem?_cons_zero, Option.map_some,
          List.set_cons_zero, Option.bind_some, List.head?_cons, Option.some.injEq] at h
        subst h
        refine ⟨[], [], { name := t.name, msgs := [msg], topicName := toSnake t.name, role := .event, entityName := en },
          _, [], [], msg, ?_, ?_, ⟨rfl, rfl⟩⟩
        · simp [topicNodes, ht]
        · simp [topicNodes, TopicMsg.ext]
      · simp [hm] at h
  | 1 =>
    simp only [topicStep, editTopic] at h
    cases ht : t.type with
    | reqres reqs reps =>
      simp only [ht] at h
      obtain ⟨ms, hms, rfl⟩ := Option.map_eq_some_iff.mp h
      obtain ⟨T1, T2, tm, g1, g2⟩ := editMsgs_field prop m reqs ms hms
      refine ⟨[], [{ name := t.name ++ b!"Reply", msgs := reps, topicName := toSnake t.name, role := .reply, prepend := requestPrepend }],
        { name := t.name ++ b!"Request", msgs := reqs, topicName := toSnake t.name, role := .request, prepend := requestPrepend },
        _, T1, T2, tm, ?_, ?_, ⟨g1, rfl⟩⟩
      · simp [topicNodes, ht]
      · simp [topicNodes, g2]
    | publish msgs => simp [ht] at h
    | upsert en msg => simp [ht] at h
    | event en msg => simp [ht] at h
  | k + 2 =>
    simp only [topicStep, editTopic] at h
    cases ht : t.type with
    | reqres reqs reps =>
      simp only [ht] at h
      obtain ⟨ms, hms, rfl⟩ := Option.map_eq_some_iff.mp h
      obtain ⟨T1, T2, tm, g1, g2⟩ := editMsgs_field prop m reps ms hms
      refine ⟨[{ name := t.name ++ b!"Request", msgs := reqs, topicName := toSnake t.name, role := .request, prepend := requestPrepend }], [],
        { name := t.name ++ b!"Reply", msgs := reps, topicName := toSnake t.name, role := .reply, prepend := requestPrepend },
        _, T1, T2, tm, ?_, ?_, ⟨g1, rfl⟩⟩
      · simp [topicNodes, ht]
      · simp [topicNodes, g2]
    | publish msgs => simp [ht] at h
    | upsert en msg => simp [ht] at h
    | event en msg => simp [ht] at h

/-- `appendField` with the path `[el i, msg m | reqm m | repm m]` -/
theorem editElems_field_topic (prop : Property) (i k m : Nat) (elems elems' : List Elem)
    (h : editElems (.field prop) [.el i, topicStep k m] elems = some elems') :
    ∃ E1 E2 t t', elems = E1 ++ [.topic t] ++ E2 ∧ elems' = E1 ++ [.topic t'] ++ E2 ∧ E1.length = i ∧
      editTopic (.field prop) [topicStep k m] t = some t' := by
  simp only [editElems] at h
  obtain ⟨a, a', h1, hf, h2, h3⟩ := setAt_some _ _ _ _ h
  have hst : ∀ o : ObjDecl, editDecl (.field prop) [topicStep k m] o = none := by
    intro o
    cases o with
    | mk n ps ne psm =>
      match k with
      | 0 => simp [topicStep, editDecl]
      | 1 => simp [topicStep, editDecl]
      | k + 2 => simp [topicStep, editDecl]
  cases a with
  | object ob => simp [editElem, hst] at hf
  | oneof ob => simp [editElem, hst] at hf
  | enum e => simp [editElem, editEnum] at hf
  | service sv =>
    match k with
    | 0 => simp [editElem, editService, topicStep] at hf
    | 1 => simp [editElem, editService, topicStep] at hf
    | k + 2 => simp [editElem, editService, topicStep] at hf
  | entity en =>
    match k with
    | 0 => simp [editElem, editEntity, topicStep] at hf
    | 1 => simp [editElem, editEntity, topicStep] at hf
    | k + 2 => simp [editElem, editEntity, topicStep] at hf
  | topic t =>
    simp only [editElem] at hf
    obtain ⟨t', ht, rfl⟩ := Option.map_eq_some_iff.mp hf
    exact ⟨_, _, t, t', h1, h2, h3, ht⟩

theorem topicItem_msgs (c : Ctx) (t t' : Topic) (N1 N2 : List TopicNode) (tn tn' : TopicNode)
    (T1 T2 : List TopicMsg) (tm : TopicMsg) (prop : Property)
    (h1 : topicNodes t = N1 ++ [tn] ++ N2) (h2 : topicNodes t' = N1 ++ [tn'] ++ N2)
    (hx : NodeExt tn tn' T1 T2 tm prop) :
    MsgsLe (itemMsgs c (.topicFile [t])) (itemMsgs c (.topicFile [t'])) := by
  rw [itemMsgs_topicFile, itemMsgs_topicFile]
  simp only [List.flatMap_cons, List.flatMap_nil, List.append_nil, h1, h2, List.flatMap_append]
  exact MsgsLe_append3 _ _ _ _ (topicMsgs_ext c tn tn' T1 T2 tm prop hx)

theorem topicItem_svcs (c : Ctx) (t t' : Topic) (N1 N2 : List TopicNode) (tn tn' : TopicNode)
    (T1 T2 : List TopicMsg) (tm : TopicMsg) (prop : Property)
    (h1 : topicNodes t = N1 ++ [tn] ++ N2) (h2 : topicNodes t' = N1 ++ [tn'] ++ N2)
    (hx : NodeExt tn tn' T1 T2 tm prop) :
    itemSvcs c (.topicFile [t]) = itemSvcs c (.topicFile [t']) := by
  rw [itemSvcs_topicFile, itemSvcs_topicFile]
  simp only [List.flatMap_cons, List.flatMap_nil, List.append_nil, h1, h2, List.map_append,
    List.map_cons, List.map_nil, topicSvc_ext tn tn' T1 T2 tm prop hx]

theorem topicItem_exports (t t' : Topic) (N1 N2 : List TopicNode) (tn tn' : TopicNode)
    (T1 T2 : List TopicMsg) (tm : TopicMsg) (prop : Property)
    (h1 : topicNodes t = N1 ++ [tn] ++ N2) (h2 : topicNodes t' = N1 ++ [tn'] ++ N2)
    (hx : NodeExt tn tn' T1 T2 tm prop) :
    ∃ A0 N C0, itemExports (.topicFile [t]) = A0 ++ C0 ∧
      itemExports (.topicFile [t']) = A0 ++ N ++ C0 ∧
      (∀ k ∈ N.map (·.1), k ∈ newFieldExportNames (topicObjName tn tm) prop) ∧
      ∀ x ∈ itemRefs (.topicFile [t]), x ∈ itemRefs (.topicFile [t']) := by
  have hobj : [t].flatMap topicObjects = N1.flatMap nodeObjs ++ nodeObjs tn ++ N2.flatMap nodeObjs := by
    simp [topicObjects_eq, h1, List.flatMap_append]
  have hobj' : [t'].flatMap topicObjects = N1.flatMap nodeObjs ++ nodeObjs tn' ++ N2.flatMap nodeObjs := by
    simp [topicObjects_eq, h2, List.flatMap_append]
  rcases nodeObjs_ext tn tn' T1 T2 tm prop hx with heq | ⟨X, Y, hX, hX'⟩
  · refine ⟨itemExports (.topicFile [t]), [], [], by simp, ?_, by simp, ?_⟩
    · simp only [itemExports, hobj, hobj', heq, List.append_nil]
    · intro x hxm
      simpa only [itemRefs, hobj, hobj', heq] using hxm
  · have hobj2 : [t].flatMap topicObjects =
        (N1.flatMap nodeObjs ++ X) ++ [(topicObjName tn tm, tn.prepend ++ tm.props)] ++
          (Y ++ N2.flatMap nodeObjs) := by
      rw [hobj, hX]; simp [List.append_assoc]
    have hobj2' : [t'].flatMap topicObjects =
        (N1.flatMap nodeObjs ++ X) ++ [(topicObjName tn tm, (tn.prepend ++ tm.props) ++ [prop])] ++
          (Y ++ N2.flatMap nodeObjs) := by
      rw [hobj', hX']; simp [List.append_assoc]
    obtain ⟨e1, e2⟩ := virtualExports_ext (N1.flatMap nodeObjs ++ X) (Y ++ N2.flatMap nodeObjs)
      (topicObjName tn tm) (tn.prepend ++ tm.props) prop
    refine ⟨virtualExports (N1.flatMap nodeObjs ++ X) ++
        ((topicObjName tn tm, TKind.message false) :: exportsProps [topicObjName tn tm] (tn.prepend ++ tm.props)),
      exportsProps [topicObjName tn tm] [prop], virtualExports (Y ++ N2.flatMap nodeObjs), ?_, ?_, ?_, ?_⟩
    · simp only [itemExports]; rw [hobj2]; exact e1
    · simp only [itemExports]; rw [hobj2']; exact e2
    · intro k hk; exact hk
    · intro x hxm
      simp only [itemRefs] at hxm ⊢
      rw [hobj2] at hxm
      rw [hobj2']
      exact virtualRefs_ext _ _ _ _ prop x hxm

end J5V.Compile
