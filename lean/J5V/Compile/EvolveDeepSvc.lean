import J5V.Compile.EvolveDeepPkg
/-!
# A field appended at any depth below a request / response (C13) — core only

Path `[el i, method m, req | res] ++ rest`, `rest` any path of `prop j` steps through inline objects /
oneofs of the request (response). The rpc never reads the property list (only whether there is a
request), the virtual object `<Method>Request` grows as any declaration does (`editProps_deep`), the
export list gets one block inserted (`editProps_exports`).
-/
namespace J5V.Compile
open J5V.Go

/-- `mt'` is `mt` with the request (`true`) / response (`false`) `r` replaced by `r'` -/
def MethodRepl : Bool → Method → Method → List Property → List Property → Prop
  | true, mt, mt', r, r' => mt.request = some r ∧ mt' = { mt with request := some r' }
  | false, mt, mt', r, r' => mt.response = some r ∧ mt' = { mt with response := some r' }

theorem methodObjs_repl (rq : Bool) (mt mt' : Method) (r r' : List Property)
    (h : MethodRepl rq mt mt' r r') :
    ∃ X Y, methodObjs mt = X ++ [(methodObjName rq mt, r)] ++ Y ∧
      methodObjs mt' = X ++ [(methodObjName rq mt, r')] ++ Y := by
  cases rq with
  | true =>
    obtain ⟨h1, rfl⟩ := h
    refine ⟨[], (match mt.response with | some r => [(mt.name ++ b!"Response", r)] | none => []), ?_, ?_⟩
    · simp only [methodObjs, h1, methodObjName, List.nil_append]
      cases mt.response <;> rfl
    · simp only [methodObjs, methodObjName, List.nil_append]
      cases mt.response <;> rfl
  | false =>
    obtain ⟨h1, rfl⟩ := h
    refine ⟨(match mt.request with | some r => [(mt.name ++ b!"Request", r)] | none => []), [], ?_, ?_⟩
    · simp only [methodObjs, h1, methodObjName, List.append_nil]
      cases mt.request <;> rfl
    · simp only [methodObjs, methodObjName, List.append_nil]
      cases mt.request <;> rfl

/-- the rpc does not depend on the properties of the request / response -/
theorem methodBuilt_repl (c : Ctx) (bp : Option Str) (rq : Bool) (mt mt' : Method) (r r' : List Property)
    (h : MethodRepl rq mt mt' r r') :
    methodBuilt c bp mt' = methodBuilt c bp mt := by
  cases rq with
  | true =>
    obtain ⟨h1, rfl⟩ := h
    rw [methodBuilt_some c bp mt r h1, methodBuilt_some c bp _ r' rfl]
    rfl
  | false =>
    obtain ⟨h1, rfl⟩ := h
    cases hq : mt.request with
    | none => rw [methodBuilt_none c bp mt hq, methodBuilt_none c bp _ rfl]
    | some q =>
      rw [methodBuilt_some c bp mt q hq, methodBuilt_some c bp _ q rfl]
      simp only [methodSkelOf, resolvedPath, h1, hq]

theorem declMsg_deep (c : Ctx) (np : List Str) (io : Bool) (virt : List Property) (n : Str)
    (ps ps' : List Property) (ne : List Nested) (psm : Option Psm)
    (h : PRsLe (bProps c (np ++ [n]) io 1 (virt ++ ps)) (bProps c (np ++ [n]) io 1 (virt ++ ps'))) :
    (declMsg c np io virt n ps ne psm).LeDeep (declMsg c np io virt n ps' ne psm) := by
  simp only [declMsg]
  exact mkMsg_deep n io psm _ _ _ _ _ _ h (MsgsLeDeep.refl _) (EnumsLe.refl _)

theorem methodMsgs_repl (c : Ctx) (rq : Bool) (mt mt' : Method) (r r' : List Property)
    (h : MethodRepl rq mt mt' r r')
    (hle : ∀ np io n, PRsLe (bProps c np io n r) (bProps c np io n r')) :
    MsgsLeDeep (methodMsgs c mt) (methodMsgs c mt') := by
  have hd : ∀ n, (declMsg c [] false [] n r [] none).LeDeep (declMsg c [] false [] n r' [] none) := by
    intro n
    apply declMsg_deep
    simpa using hle [n] false 1
  cases rq with
  | true =>
    obtain ⟨h1, rfl⟩ := h
    intro m hm
    simp only [methodMsgs, h1, List.mem_append, List.mem_singleton] at hm ⊢
    rcases hm with hm | hm
    · subst hm
      exact ⟨_, Or.inl rfl, hd _⟩
    · refine ⟨m, Or.inr ?_, MsgSkel.LeDeep.refl m⟩
      cases hrs : mt.response with
      | none => simp [hrs] at hm
      | some q => simpa [hrs] using hm
  | false =>
    obtain ⟨h1, rfl⟩ := h
    intro m hm
    cases hq : mt.request with
    | none => simp [methodMsgs, hq] at hm
    | some q =>
      simp only [methodMsgs, hq, h1, List.mem_append, List.mem_singleton] at hm ⊢
      rcases hm with hm | hm
      · exact ⟨m, Or.inl hm, MsgSkel.LeDeep.refl m⟩
      · subst hm
        exact ⟨_, Or.inr rfl, hd _⟩

theorem editService_field_deep (act : Act) (m : Nat) (rq : Bool) (rest : List PStep)
    (sv sv' : Service)
    (h : editService act (.method m :: reqStep rq :: rest) sv = some sv') :
    ∃ M1 M2 mt mt' r r', sv.methods = M1 ++ [mt] ++ M2 ∧
      sv' = { sv with methods := M1 ++ [mt'] ++ M2 } ∧ M1.length = m ∧ MethodRepl rq mt mt' r r' ∧
      editProps act rest r = some r' := by
  cases rq with
  | true =>
    simp only [reqStep, editService] at h
    obtain ⟨ms, hsa, rfl⟩ := Option.map_eq_some_iff.mp h
    obtain ⟨mt, mt', g1, gf, g2, g3⟩ := setAt_some _ _ _ _ hsa
    cases hr : mt.request with
    | none => simp [hr] at gf
    | some r =>
      simp only [hr] at gf
      obtain ⟨r', he, rfl⟩ := Option.map_eq_some_iff.mp gf
      exact ⟨_, _, mt, _, r, r', g1, by rw [g2], g3, ⟨hr, rfl⟩, he⟩
  | false =>
    simp only [reqStep, editService] at h
    obtain ⟨ms, hsa, rfl⟩ := Option.map_eq_some_iff.mp h
    obtain ⟨mt, mt', g1, gf, g2, g3⟩ := setAt_some _ _ _ _ hsa
    cases hr : mt.response with
    | none => simp [hr] at gf
    | some r =>
      simp only [hr] at gf
      obtain ⟨r', he, rfl⟩ := Option.map_eq_some_iff.mp gf
      exact ⟨_, _, mt, _, r, r', g1, by rw [g2], g3, ⟨hr, rfl⟩, he⟩

/-- `appendField` with the path `el i :: method m :: (req | res) :: rest` -/
theorem editElems_field_method_deep (act : Act) (i m : Nat) (rq : Bool) (rest : List PStep)
    (elems elems' : List Elem)
    (h : editElems act (.el i :: .method m :: reqStep rq :: rest) elems = some elems') :
    ∃ E1 E2 sv M1 M2 mt mt' r r', elems = E1 ++ [.service sv] ++ E2 ∧
      elems' = E1 ++ [.service { sv with methods := M1 ++ [mt'] ++ M2 }] ++ E2 ∧ E1.length = i ∧
      sv.methods = M1 ++ [mt] ++ M2 ∧ M1.length = m ∧ MethodRepl rq mt mt' r r' ∧
      editProps act rest r = some r' := by
  simp only [editElems] at h
  obtain ⟨a, a', h1, hf, h2, h3⟩ := setAt_some _ _ _ _ h
  cases a with
  | object ob => cases ob with | mk n ps ne psm => cases rq <;> simp [editElem, editDecl, reqStep] at hf
  | oneof ob => cases ob with | mk n ps ne psm => cases rq <;> simp [editElem, editDecl, reqStep] at hf
  | enum e => simp [editElem, editEnum] at hf
  | topic t => cases rq <;> simp [editElem, editTopic, reqStep] at hf
  | entity en => cases rq <;> simp [editElem, editEntity, reqStep] at hf
  | service sv =>
    simp only [editElem] at hf
    obtain ⟨sv', hsv, rfl⟩ := Option.map_eq_some_iff.mp hf
    obtain ⟨M1, M2, mt, mt', r, r', g1, rfl, g3, g4, g5⟩ := editService_field_deep act m rq rest sv sv' hsv
    exact ⟨_, _, sv, M1, M2, mt, mt', r, r', h1, h2, h3, g1, g3, g4, g5⟩

/-! ### the service item -/

theorem MsgsLeDeep_append3 (a b b' c : List MsgSkel) (h : MsgsLeDeep b b') :
    MsgsLeDeep (a ++ b ++ c) (a ++ b' ++ c) :=
  MsgsLeDeep.append (MsgsLeDeep.append (MsgsLeDeep.refl _) h) (MsgsLeDeep.refl _)

theorem serviceItem_msgs_deep (c : Ctx) (sv : Service) (M1 M2 : List Method) (mt mt' : Method) (rq : Bool)
    (r r' : List Property) (hm : sv.methods = M1 ++ [mt] ++ M2)
    (hx : MethodRepl rq mt mt' r r')
    (hle : ∀ np io n, PRsLe (bProps c np io n r) (bProps c np io n r')) :
    MsgsLeDeep (itemMsgs c (.serviceFile [sv]))
      (itemMsgs c (.serviceFile [{ sv with methods := M1 ++ [mt'] ++ M2 }])) := by
  rw [itemMsgs_serviceFile, itemMsgs_serviceFile]
  simp only [List.flatMap_cons, List.flatMap_nil, List.append_nil, hm, List.flatMap_append]
  exact MsgsLeDeep_append3 _ _ _ _ (methodMsgs_repl c rq mt mt' r r' hx hle)

theorem serviceItem_svcs_deep (c : Ctx) (sv : Service) (M1 M2 : List Method) (mt mt' : Method) (rq : Bool)
    (r r' : List Property) (hm : sv.methods = M1 ++ [mt] ++ M2)
    (hx : MethodRepl rq mt mt' r r') :
    itemSvcs c (.serviceFile [sv]) =
      itemSvcs c (.serviceFile [{ sv with methods := M1 ++ [mt'] ++ M2 }]) := by
  rw [itemSvcs_serviceFile, itemSvcs_serviceFile]
  simp only [List.flatMap_cons, List.flatMap_nil, List.append_nil, serviceSvcs]
  have : builtMethods c { sv with methods := M1 ++ [mt'] ++ M2 } = builtMethods c sv := by
    rw [builtMethods_flatMap, builtMethods_flatMap, hm]
    simp only [List.flatMap_append, List.flatMap_cons, List.flatMap_nil, List.append_nil,
      methodBuilt_repl c sv.basePath rq mt mt' r r' hx]
  rw [this]

theorem serviceItem_exports_deep (sv : Service) (M1 M2 : List Method) (mt mt' : Method) (rq : Bool)
    (r r' : List Property) (N : List (Str × TKind)) (hm : sv.methods = M1 ++ [mt] ++ M2)
    (hx : MethodRepl rq mt mt' r r')
    (hexp : ExpIns N (exportsProps [methodObjName rq mt] r) (exportsProps [methodObjName rq mt] r')
      (refsProps r) (refsProps r')) :
    ∃ A0 C0, itemExports (.serviceFile [sv]) = A0 ++ C0 ∧
      itemExports (.serviceFile [{ sv with methods := M1 ++ [mt'] ++ M2 }]) = A0 ++ N ++ C0 ∧
      ∀ x ∈ itemRefs (.serviceFile [sv]),
        x ∈ itemRefs (.serviceFile [{ sv with methods := M1 ++ [mt'] ++ M2 }]) := by
  obtain ⟨X, Y, hX, hX'⟩ := methodObjs_repl rq mt mt' r r' hx
  have hobj : [sv].flatMap serviceObjects =
      (M1.flatMap methodObjs ++ X) ++ [(methodObjName rq mt, r)] ++ (Y ++ M2.flatMap methodObjs) := by
    simp [serviceObjects_eq, hm, hX, List.flatMap_append]
  have hobj' : [({ sv with methods := M1 ++ [mt'] ++ M2 } : Service)].flatMap serviceObjects =
      (M1.flatMap methodObjs ++ X) ++ [(methodObjName rq mt, r')] ++ (Y ++ M2.flatMap methodObjs) := by
    simp [serviceObjects_eq, hX', List.flatMap_append]
  obtain ⟨⟨A, C, hA, hB⟩, hrefs⟩ := hexp
  refine ⟨virtualExports (M1.flatMap methodObjs ++ X) ++ ((methodObjName rq mt, TKind.message false) :: A),
    C ++ virtualExports (Y ++ M2.flatMap methodObjs), ?_, ?_, ?_⟩
  · simp only [itemExports]; rw [hobj]
    simp [virtualExports, List.flatMap_append, hA]
  · simp only [itemExports]; rw [hobj']
    simp [virtualExports, List.flatMap_append, hB]
  · intro x hxm
    simp only [itemRefs] at hxm ⊢
    rw [hobj] at hxm
    rw [hobj']
    simp only [List.flatMap_append, List.flatMap_cons, List.flatMap_nil, List.append_nil,
      List.mem_append] at hxm ⊢
    rcases hxm with (hxm | hxm) | hxm
    · exact Or.inl (Or.inl hxm)
    · exact Or.inl (Or.inr (hrefs x hxm))
    · exact Or.inr hxm

/-! ## one item of the file changes, recursive relation -/

theorem items_rel_single_deep (c : Ctx) (t : Target) (I1 I2 : List Item) (it it' : Item)
    (htg : it'.target = it.target)
    (hm : MsgsLeDeep (itemMsgs c it) (itemMsgs c it')) (he : itemEnums c it = itemEnums c it')
    (hs : itemSvcs c it = itemSvcs c it') :
    MsgsLeDeep (((I1 ++ [it] ++ I2).filter (·.target = t)).flatMap (itemMsgs c))
      (((I1 ++ [it'] ++ I2).filter (·.target = t)).flatMap (itemMsgs c)) ∧
    EnumsLe (((I1 ++ [it] ++ I2).filter (·.target = t)).flatMap (itemEnums c))
      (((I1 ++ [it'] ++ I2).filter (·.target = t)).flatMap (itemEnums c)) ∧
    ((I1 ++ [it] ++ I2).filter (·.target = t)).flatMap (itemSvcs c) =
      ((I1 ++ [it'] ++ I2).filter (·.target = t)).flatMap (itemSvcs c) := by
  by_cases h : it.target = t
  · have h' : it'.target = t := by rw [htg]; exact h
    simp only [List.filter_append, List.filter_cons, h, h', decide_true, if_true, List.filter_nil,
      List.flatMap_append, List.flatMap_cons, List.flatMap_nil, List.append_nil, he, hs]
    exact ⟨MsgsLeDeep_append3 _ _ _ _ hm, EnumsLe.refl _, trivial⟩
  · have h' : ¬ it'.target = t := by rw [htg]; exact h
    simp only [List.filter_append, List.filter_cons, h, h', decide_false, Bool.false_eq_true,
      if_false, List.filter_nil, List.append_nil]
    exact ⟨MsgsLeDeep.refl _, EnumsLe.refl _, trivial⟩

theorem convertFile_single_item_deep (res : Resolver) (path : Str) (imports : List Import)
    (E1 E2 : List Elem) (x x' : Elem) (it it' : Item)
    (hx : itemsOfElem (packageFromFilename (path ++ b!".proto")) x = [it])
    (hx' : itemsOfElem (packageFromFilename (path ++ b!".proto")) x' = [it'])
    (htg : it'.target = it.target)
    (hm : ∀ c, MsgsLeDeep (itemMsgs c it) (itemMsgs c it')) (he : ∀ c, itemEnums c it = itemEnums c it')
    (hs : ∀ c, itemSvcs c it = itemSvcs c it')
    (fs fs' : List FileSkel)
    (h : convertFile res path imports (E1 ++ [x] ++ E2) = .ok fs)
    (h' : convertFile res path imports (E1 ++ [x'] ++ E2) = .ok fs') :
    ∀ f ∈ fs, ∃ f' ∈ fs', f.LeDeep f' := by
  apply convertFile_replace_items res path imports _ _ fs fs' h h' MsgsLeDeep EnumsLe
  · intro t ⟨i, hi, hit⟩
    simp only [List.flatMap_append, List.flatMap_cons, List.flatMap_nil, List.append_nil, hx, hx',
      List.mem_append, List.mem_singleton] at hi ⊢
    rcases hi with (hi | hi) | hi
    · exact ⟨i, Or.inl (Or.inl hi), hit⟩
    · subst hi; exact ⟨it', Or.inl (Or.inr rfl), by rw [htg]; exact hit⟩
    · exact ⟨i, Or.inr hi, hit⟩
  · intro c t
    simp only [List.flatMap_append, List.flatMap_cons, List.flatMap_nil, List.append_nil, hx, hx']
    exact items_rel_single_deep c t _ _ it it' htg (hm c) (he c) (hs c)
  · exact EnumsLe.refl _

/-- names the appended property adds to the export table, below a request / response -/
def methodDeepExportNames (rq : Bool) (mt : Method) (rest : List PStep) (r : List Property)
    (prop : Property) : List Str :=
  (exportsProps (propsNestPath rest [methodObjName rq mt] r) [prop]).map (·.1)

end J5V.Compile

namespace J5V.Compile
open J5V.Go

/-! ## topic messages, any depth -/

/-- node `tn'` is `tn` with the properties of one of its messages replaced by `ps'` -/
def NodeRepl (tn tn' : TopicNode) (T1 T2 : List TopicMsg) (tm : TopicMsg) (ps' : List Property) : Prop :=
  tn.msgs = T1 ++ [tm] ++ T2 ∧ tn' = { tn with msgs := T1 ++ [{ tm with props := ps' }] ++ T2 }

theorem topicMethodName_repl (tn tn' : TopicNode) (T1 T2 : List TopicMsg) (tm : TopicMsg)
    (ps' : List Property) (h : NodeRepl tn tn' T1 T2 tm ps') (m : TopicMsg) :
    topicMethodName tn' m = topicMethodName tn m := by
  obtain ⟨h1, rfl⟩ := h
  simp [topicMethodName, h1]

theorem topicMethodName_msg_repl (tn : TopicNode) (tm : TopicMsg) (ps' : List Property) :
    topicMethodName tn { tm with props := ps' } = topicMethodName tn tm := rfl

theorem topicSvc_repl (tn tn' : TopicNode) (T1 T2 : List TopicMsg) (tm : TopicMsg)
    (ps' : List Property) (h : NodeRepl tn tn' T1 T2 tm ps') : topicSvc tn' = topicSvc tn := by
  have hn := topicMethodName_repl tn tn' T1 T2 tm ps' h
  obtain ⟨h1, rfl⟩ := h
  simp only [topicSvc, h1, List.filterMap_append, List.filterMap_cons, List.filterMap_nil] at hn ⊢
  simp only [hn, topicMethodName_msg_repl]

theorem topicMsgs_repl (c : Ctx) (tn tn' : TopicNode) (T1 T2 : List TopicMsg) (tm : TopicMsg)
    (ps' : List Property) (h : NodeRepl tn tn' T1 T2 tm ps')
    (hle : ∀ np io n, PRsLe (bProps c np io n tm.props) (bProps c np io n ps')) :
    MsgsLeDeep (topicMsgs c tn) (topicMsgs c tn') := by
  have hn := topicMethodName_repl tn tn' T1 T2 tm ps' h
  obtain ⟨h1, rfl⟩ := h
  simp only [topicMsgs, h1, List.filterMap_append, List.filterMap_cons, List.filterMap_nil, hn,
    topicMethodName_msg_repl]
  apply MsgsLeDeep_append3
  cases hnm : topicMethodName tn tm with
  | none => exact MsgsLeDeep.refl _
  | some n =>
    intro x hx
    simp only [Option.map_some, List.mem_singleton] at hx
    subst hx
    refine ⟨declMsg c [] false tn.prepend (n ++ b!"Message") ps' [] none, by simp, ?_⟩
    apply declMsg_deep
    exact PRsLe_append_left c _ false 1 tn.prepend tm.props ps' (hle _ false _)

theorem nodeObjs_repl (tn tn' : TopicNode) (T1 T2 : List TopicMsg) (tm : TopicMsg)
    (ps' : List Property) (h : NodeRepl tn tn' T1 T2 tm ps') :
    (nodeObjs tn' = nodeObjs tn) ∨
    ∃ X Y, nodeObjs tn = X ++ [(topicObjName tn tm, tn.prepend ++ tm.props)] ++ Y ∧
      nodeObjs tn' = X ++ [(topicObjName tn tm, tn.prepend ++ ps')] ++ Y := by
  have hn := topicMethodName_repl tn tn' T1 T2 tm ps' h
  obtain ⟨h1, rfl⟩ := h
  cases hnm : topicMethodName tn tm with
  | none =>
    left
    simp only [nodeObjs, h1, List.filterMap_append, List.filterMap_cons, List.filterMap_nil, hn,
      topicMethodName_msg_repl, hnm, Option.map_none]
  | some n =>
    right
    refine ⟨T1.filterMap (fun m => (topicMethodName tn m).map fun n => (n ++ b!"Message", tn.prepend ++ m.props)),
      T2.filterMap (fun m => (topicMethodName tn m).map fun n => (n ++ b!"Message", tn.prepend ++ m.props)), ?_, ?_⟩
    · simp only [nodeObjs, h1, List.filterMap_append, List.filterMap_cons, List.filterMap_nil, hnm,
        Option.map_some, topicObjName, Option.getD_some]
    · simp only [nodeObjs, List.filterMap_append, List.filterMap_cons, List.filterMap_nil, hn,
        topicMethodName_msg_repl, hnm, Option.map_some, topicObjName, Option.getD_some]

theorem editMsgs_field_deep (act : Act) (m : Nat) (rest : List PStep) (msgs ms : List TopicMsg)
    (h : editMsgs act m rest msgs = some ms) :
    ∃ T1 T2 tm ps', msgs = T1 ++ [tm] ++ T2 ∧ ms = T1 ++ [{ tm with props := ps' }] ++ T2 ∧
      editProps act rest tm.props = some ps' := by
  unfold editMsgs at h
  obtain ⟨tm, tm', g1, gf, g2, _⟩ := setAt_some _ _ _ _ h
  obtain ⟨ps', he, rfl⟩ := Option.map_eq_some_iff.mp gf
  exact ⟨_, _, tm, ps', g1, g2, he⟩

/-- `appendField` below a topic message (`msg m`, `reqm m`, `repm m`, then `rest`): one node of the
topic gets new properties in one of its messages -/
theorem editTopic_field_deep (act : Act) (k m : Nat) (rest : List PStep) (t t' : Topic)
    (h : editTopic act (topicStep k m :: rest) t = some t') :
    ∃ N1 N2 tn tn' T1 T2 tm ps', topicNodes t = N1 ++ [tn] ++ N2 ∧ topicNodes t' = N1 ++ [tn'] ++ N2 ∧
      NodeRepl tn tn' T1 T2 tm ps' ∧ editProps act rest tm.props = some ps' := by
  match k with
  | 0 =>
    simp only [topicStep, editTopic] at h
    cases ht : t.type with
    | publish msgs =>
      simp only [ht] at h
      obtain ⟨ms, hms, rfl⟩ := Option.map_eq_some_iff.mp h
      obtain ⟨T1, T2, tm, ps', g1, g2, g3⟩ := editMsgs_field_deep act m rest msgs ms hms
      refine ⟨[], [], { name := t.name, msgs := msgs, topicName := toSnake t.name, role := .publish },
        _, T1, T2, tm, ps', ?_, ?_, ⟨g1, rfl⟩, g3⟩
      · simp [topicNodes, ht]
      · simp [topicNodes, g2]
    | reqres reqs reps => simp [ht] at h
    | upsert en msg =>
      simp only [ht] at h
      by_cases hm : m = 0
      · simp only [hm, if_true] at h
        obtain ⟨ms, hms, hh⟩ := Option.bind_eq_some_iff.mp h
        obtain ⟨T1, T2, tm, ps', g1, g2, g3⟩ := editMsgs_field_deep act 0 rest [msg] ms hms
        have hT : T1 = [] ∧ tm = msg ∧ T2 = [] := by
          cases T1 with
          | nil => simp at g1; exact ⟨rfl, g1.1.symm, g1.2⟩
          | cons a l => simp at g1
        obtain ⟨rfl, rfl, rfl⟩ := hT
        subst g2
        simp only [List.nil_append, List.append_nil, List.head?_cons, Option.map_some,
          Option.some.injEq] at hh
        subst hh
        refine ⟨[], [], { name := t.name, msgs := [{ tm with name := some (tm.name.getD t.name) }], topicName := toSnake t.name, role := .upsert, entityName := en, prepend := upsertPrepend },
          _, [], [], { tm with name := some (tm.name.getD t.name) }, ps', ?_, ?_, ⟨rfl, rfl⟩, g3⟩
        · simp [topicNodes, ht]
        · simp [topicNodes]
      · simp [hm] at h
    | event en msg =>
      simp only [ht] at h
      by_cases hm : m = 0
      · simp only [hm, if_true] at h
        obtain ⟨ms, hms, hh⟩ := Option.bind_eq_some_iff.mp h
        obtain ⟨T1, T2, tm, ps', g1, g2, g3⟩ := editMsgs_field_deep act 0 rest [msg] ms hms
        have hT : T1 = [] ∧ tm = msg ∧ T2 = [] := by
          cases T1 with
          | nil => simp at g1; exact ⟨rfl, g1.1.symm, g1.2⟩
          | cons a l => simp at g1
        obtain ⟨rfl, rfl, rfl⟩ := hT
        subst g2
        simp only [List.nil_append, List.append_nil, List.head?_cons, Option.map_some,
          Option.some.injEq] at hh
        subst hh
        refine ⟨[], [], { name := t.name, msgs := [tm], topicName := toSnake t.name, role := .event, entityName := en },
          _, [], [], tm, ps', ?_, ?_, ⟨rfl, rfl⟩, g3⟩
        · simp [topicNodes, ht]
        · simp [topicNodes]
      · simp [hm] at h
  | 1 =>
    simp only [topicStep, editTopic] at h
    cases ht : t.type with
    | reqres reqs reps =>
      simp only [ht] at h
      obtain ⟨ms, hms, rfl⟩ := Option.map_eq_some_iff.mp h
      obtain ⟨T1, T2, tm, ps', g1, g2, g3⟩ := editMsgs_field_deep act m rest reqs ms hms
      refine ⟨[], [{ name := t.name ++ b!"Reply", msgs := reps, topicName := toSnake t.name, role := .reply, prepend := requestPrepend }],
        { name := t.name ++ b!"Request", msgs := reqs, topicName := toSnake t.name, role := .request, prepend := requestPrepend },
        _, T1, T2, tm, ps', ?_, ?_, ⟨g1, rfl⟩, g3⟩
      · simp [topicNodes, ht]
      · simp [topicNodes, g2]
    | publish msgs => simp [ht] at h
    | upsert en msg => simp [ht] at h
    | event en msg => simp [ht] at h
  | k + 2 =>
    simp only [topicStep, editTopic] at h
    cases ht : t.type with
    | reqres reqs reps =>
      simp only [ht] at h
      obtain ⟨ms, hms, rfl⟩ := Option.map_eq_some_iff.mp h
      obtain ⟨T1, T2, tm, ps', g1, g2, g3⟩ := editMsgs_field_deep act m rest reps ms hms
      refine ⟨[{ name := t.name ++ b!"Request", msgs := reqs, topicName := toSnake t.name, role := .request, prepend := requestPrepend }], [],
        { name := t.name ++ b!"Reply", msgs := reps, topicName := toSnake t.name, role := .reply, prepend := requestPrepend },
        _, T1, T2, tm, ps', ?_, ?_, ⟨g1, rfl⟩, g3⟩
      · simp [topicNodes, ht]
      · simp [topicNodes, g2]
    | publish msgs => simp [ht] at h
    | upsert en msg => simp [ht] at h
    | event en msg => simp [ht] at h

/-- `appendField` with the path `el i :: (msg m | reqm m | repm m) :: rest` -/
theorem editElems_field_topic_deep (act : Act) (i k m : Nat) (rest : List PStep)
    (elems elems' : List Elem)
    (h : editElems act (.el i :: topicStep k m :: rest) elems = some elems') :
    ∃ E1 E2 t t', elems = E1 ++ [.topic t] ++ E2 ∧ elems' = E1 ++ [.topic t'] ++ E2 ∧ E1.length = i ∧
      editTopic act (topicStep k m :: rest) t = some t' := by
  simp only [editElems] at h
  obtain ⟨a, a', h1, hf, h2, h3⟩ := setAt_some _ _ _ _ h
  have hst : ∀ o : ObjDecl, editDecl act (topicStep k m :: rest) o = none := by
    intro o
    cases o with
    | mk n ps ne psm =>
      match k with
      | 0 => simp [topicStep, editDecl]
      | 1 => simp [topicStep, editDecl]
      | k + 2 => simp [topicStep, editDecl]
  cases a with
  | object ob => simp [editElem, hst] at hf
  | oneof ob => simp [editElem, hst] at hf
  | enum e => cases rest <;> simp [editElem, editEnum] at hf
  | service sv =>
    match k with
    | 0 => simp [editElem, editService, topicStep] at hf
    | 1 => simp [editElem, editService, topicStep] at hf
    | k + 2 => simp [editElem, editService, topicStep] at hf
  | entity en =>
    match k with
    | 0 => simp [editElem, editEntity, topicStep] at hf
    | 1 => simp [editElem, editEntity, topicStep] at hf
    | k + 2 => simp [editElem, editEntity, topicStep] at hf
  | topic t =>
    simp only [editElem] at hf
    obtain ⟨t', ht, rfl⟩ := Option.map_eq_some_iff.mp hf
    exact ⟨_, _, t, t', h1, h2, h3, ht⟩

theorem topicItem_msgs_deep (c : Ctx) (t t' : Topic) (N1 N2 : List TopicNode) (tn tn' : TopicNode)
    (T1 T2 : List TopicMsg) (tm : TopicMsg) (ps' : List Property)
    (h1 : topicNodes t = N1 ++ [tn] ++ N2) (h2 : topicNodes t' = N1 ++ [tn'] ++ N2)
    (hx : NodeRepl tn tn' T1 T2 tm ps')
    (hle : ∀ np io n, PRsLe (bProps c np io n tm.props) (bProps c np io n ps')) :
    MsgsLeDeep (itemMsgs c (.topicFile [t])) (itemMsgs c (.topicFile [t'])) := by
  rw [itemMsgs_topicFile, itemMsgs_topicFile]
  simp only [List.flatMap_cons, List.flatMap_nil, List.append_nil, h1, h2, List.flatMap_append]
  exact MsgsLeDeep_append3 _ _ _ _ (topicMsgs_repl c tn tn' T1 T2 tm ps' hx hle)

theorem topicItem_svcs_deep (c : Ctx) (t t' : Topic) (N1 N2 : List TopicNode) (tn tn' : TopicNode)
    (T1 T2 : List TopicMsg) (tm : TopicMsg) (ps' : List Property)
    (h1 : topicNodes t = N1 ++ [tn] ++ N2) (h2 : topicNodes t' = N1 ++ [tn'] ++ N2)
    (hx : NodeRepl tn tn' T1 T2 tm ps') :
    itemSvcs c (.topicFile [t]) = itemSvcs c (.topicFile [t']) := by
  rw [itemSvcs_topicFile, itemSvcs_topicFile]
  simp only [List.flatMap_cons, List.flatMap_nil, List.append_nil, h1, h2, List.map_append,
    List.map_cons, List.map_nil, topicSvc_repl tn tn' T1 T2 tm ps' hx]

theorem virtualRefs_repl (O1 O2 : List (Str × List Property)) (n : Str) (r r' : List Property)
    (h : ∀ x ∈ refsProps r, x ∈ refsProps r') :
    ∀ x ∈ (O1 ++ [(n, r)] ++ O2).flatMap (fun o => refsProps o.2),
      x ∈ (O1 ++ [(n, r')] ++ O2).flatMap (fun o => refsProps o.2) := by
  intro x hx
  simp only [List.flatMap_append, List.flatMap_cons, List.flatMap_nil, List.append_nil,
    List.mem_append] at hx ⊢
  rcases hx with (hx | hx) | hx
  · exact Or.inl (Or.inl hx)
  · exact Or.inl (Or.inr (h x hx))
  · exact Or.inr hx

theorem exportsProps_nil (np : List Str) : exportsProps np [] = [] := by simp [exportsProps]

theorem topicItem_exports_deep (t t' : Topic) (N1 N2 : List TopicNode) (tn tn' : TopicNode)
    (T1 T2 : List TopicMsg) (tm : TopicMsg) (ps' : List Property) (N : List (Str × TKind))
    (h1 : topicNodes t = N1 ++ [tn] ++ N2) (h2 : topicNodes t' = N1 ++ [tn'] ++ N2)
    (hx : NodeRepl tn tn' T1 T2 tm ps')
    (hexp : ExpIns N (exportsProps [topicObjName tn tm] tm.props) (exportsProps [topicObjName tn tm] ps')
      (refsProps tm.props) (refsProps ps')) :
    ∃ A0 N' C0, itemExports (.topicFile [t]) = A0 ++ C0 ∧
      itemExports (.topicFile [t']) = A0 ++ N' ++ C0 ∧
      (∀ k ∈ N'.map (·.1), k ∈ N.map (·.1)) ∧
      ∀ x ∈ itemRefs (.topicFile [t]), x ∈ itemRefs (.topicFile [t']) := by
  have hobj : [t].flatMap topicObjects = N1.flatMap nodeObjs ++ nodeObjs tn ++ N2.flatMap nodeObjs := by
    simp [topicObjects_eq, h1, List.flatMap_append]
  have hobj' : [t'].flatMap topicObjects = N1.flatMap nodeObjs ++ nodeObjs tn' ++ N2.flatMap nodeObjs := by
    simp [topicObjects_eq, h2, List.flatMap_append]
  rcases nodeObjs_repl tn tn' T1 T2 tm ps' hx with heq | ⟨X, Y, hX, hX'⟩
  · refine ⟨itemExports (.topicFile [t]), [], [], by simp, ?_, by simp, ?_⟩
    · simp only [itemExports, hobj, hobj', heq, List.append_nil]
    · intro x hxm
      simpa only [itemRefs, hobj, hobj', heq] using hxm
  · obtain ⟨⟨A, C, hA, hB⟩, hrefs⟩ := hexp
    refine ⟨virtualExports (N1.flatMap nodeObjs ++ X) ++
        ((topicObjName tn tm, TKind.message false) :: (exportsProps [topicObjName tn tm] tn.prepend ++ A)),
      N, C ++ virtualExports (Y ++ N2.flatMap nodeObjs), ?_, ?_, fun k hk => hk, ?_⟩
    · simp only [itemExports]; rw [hobj, hX]
      simp [virtualExports, List.flatMap_append, exportsProps_append, hA]
    · simp only [itemExports]; rw [hobj', hX']
      simp [virtualExports, List.flatMap_append, exportsProps_append, hB]
    · intro x hxm
      simp only [itemRefs] at hxm ⊢
      have e1 : N1.flatMap nodeObjs ++ (X ++ [(topicObjName tn tm, tn.prepend ++ tm.props)] ++ Y) ++
          N2.flatMap nodeObjs = (N1.flatMap nodeObjs ++ X) ++ [(topicObjName tn tm, tn.prepend ++ tm.props)] ++
            (Y ++ N2.flatMap nodeObjs) := by simp [List.append_assoc]
      have e2 : N1.flatMap nodeObjs ++ (X ++ [(topicObjName tn tm, tn.prepend ++ ps')] ++ Y) ++
          N2.flatMap nodeObjs = (N1.flatMap nodeObjs ++ X) ++ [(topicObjName tn tm, tn.prepend ++ ps')] ++
            (Y ++ N2.flatMap nodeObjs) := by simp [List.append_assoc]
      rw [hobj, hX, e1] at hxm
      rw [hobj', hX', e2]
      exact virtualRefs_repl _ _ _ _ _ (by
        intro y hy
        rw [refsProps_append] at hy ⊢
        exact (List.mem_append.mp hy).elim (fun h => List.mem_append_left _ h)
          (fun h => List.mem_append_right _ (hrefs y h))) x hxm

/-- names the appended property adds to the export table, below a topic message -/
def topicDeepExportNames (tn : TopicNode) (tm : TopicMsg) (rest : List PStep) (prop : Property) : List Str :=
  (exportsProps (propsNestPath rest [topicObjName tn tm] tm.props) [prop]).map (·.1)

end J5V.Compile
