import J5V.Compile.PermFiles
import J5V.Compile.Link
/-!
# Permuting the package listing, and the files offered to the link step (C14, core only)

`ListPackages()` only decides which names are local (`find?` by name); with distinct package
names its order is irrelevant. The link step looks files up by name in the universe of converted
files; with distinct file names the order of the other packages' files is irrelevant.
-/
namespace J5V.Compile
open J5V.Go

theorem find_perm (b b' : Bundle) (hperm : b.pkgs.Perm b'.pkgs)
    (hnd : (b.pkgs.map (·.name)).Nodup) (n : Str) : b.find n = b'.find n := by
  unfold Bundle.find
  apply find?_perm_of_unique _ hperm
  intro p hp q hq h1 h2
  have e1 : p.name = n := by simpa using h1
  have e2 : q.name = n := by simpa using h2
  exact inj_of_nodup_map (·.name) b.pkgs hnd p hp q hq (e1.trans e2.symm)

/-- the loader reads the bundle only through `find` -/
theorem loadPkg_congr_find (b b' : Bundle) (h : ∀ n, b.find n = b'.find n) :
    ∀ (fuel : Nat) (chain : List Str) (name : Str),
      loadPkg b fuel chain name = loadPkg b' fuel chain name := by
  intro fuel
  induction fuel with
  | zero => intro chain name; rfl
  | succ fuel ih =>
    intro chain name
    rw [loadPkg, loadPkg, h name]
    have : (fun d => loadPkg b fuel (chain ++ [name]) d) = fun d => loadPkg b' fuel (chain ++ [name]) d :=
      funext fun d => ih _ d
    rw [this]

/-- **permuting the package listing** -/
theorem compile_perm_pkgs (b b' : Bundle) (hperm : b.pkgs.Perm b'.pkgs)
    (hnd : (b.pkgs.map (·.name)).Nodup) (name : Str) :
    compilePkg b name = compilePkg b' name ∧ compileLinked b name = compileLinked b' name := by
  have hl := loadPkg_congr_find b b' (find_perm b b' hperm hnd) (b.pkgs.length + 1) [] name
  have hlen : b.pkgs.length = b'.pkgs.length := hperm.length_eq
  unfold compilePkg compileLinked
  rw [hl, hlen]
  exact ⟨rfl, rfl⟩

/-! ## the link step -/

theorem reachesSelf_congr (u u' : List LFile) (h : ∀ d, u.find? (·.name = d) = u'.find? (·.name = d))
    (start : Str) : ∀ (fuel : Nat) (cur : Str), reachesSelf u start fuel cur = reachesSelf u' start fuel cur := by
  intro fuel
  induction fuel with
  | zero => intro cur; rfl
  | succ fuel ih =>
    intro cur
    rw [reachesSelf, reachesSelf, h cur]
    cases u'.find? (·.name = cur) with
    | none => rfl
    | some f =>
      simp only []
      congr 1
      funext d
      rw [ih d]

theorem reachNames_congr (u u' : List LFile) (h : ∀ d, u.find? (·.name = d) = u'.find? (·.name = d)) :
    ∀ (fuel : Nat) (work seen : List Str), reachNames u fuel work seen = reachNames u' fuel work seen := by
  intro fuel
  induction fuel with
  | zero => intro work seen; rfl
  | succ fuel ih =>
    intro work seen
    cases work with
    | nil => rfl
    | cons n rest =>
      rw [reachNames, reachNames, h n]
      split
      · exact ih _ _
      · cases u'.find? (·.name = n) with
        | none => exact ih _ _
        | some f => exact ih _ _

theorem linkFile_congr (u u' : List LFile) (h : ∀ d, u.find? (·.name = d) = u'.find? (·.name = d))
    (f : FileSkel) : linkFile u f = linkFile u' f := by
  unfold linkFile
  have : (fun d => u.find? (·.name = d)) = fun d => u'.find? (·.name = d) := funext h
  simp only [this]

/-- **the link step does not depend on the order in which the other packages' files are offered**
(distinct file names) -/
theorem linkFiles_perm_others (others others' : List LFile) (files : List FileSkel)
    (hp : others.Perm others')
    (hnd : ((files.map (·.lfile) ++ others ++ builtinFiles).map (·.name)).Nodup) :
    linkFiles others files = linkFiles others' files := by
  have hperm : (files.map (·.lfile) ++ others ++ builtinFiles).Perm
      (files.map (·.lfile) ++ others' ++ builtinFiles) :=
    List.Perm.append_right _ (List.Perm.append_left _ hp)
  have hfind : ∀ d, (files.map (·.lfile) ++ others ++ builtinFiles).find? (·.name = d) =
      (files.map (·.lfile) ++ others' ++ builtinFiles).find? (·.name = d) := by
    intro d
    apply find?_perm_of_unique _ hperm
    intro p hp' q hq h1 h2
    have e1 : p.name = d := by simpa using h1
    have e2 : q.name = d := by simpa using h2
    exact inj_of_nodup_map (·.name) _ hnd p hp' q hq (e1.trans e2.symm)
  unfold linkFiles
  simp only []
  have hlen := hperm.length_eq
  have hr : ∀ f : FileSkel,
      reachesSelf (files.map (·.lfile) ++ others ++ builtinFiles) f.name
        (files.map (·.lfile) ++ others ++ builtinFiles).length f.name =
      reachesSelf (files.map (·.lfile) ++ others' ++ builtinFiles) f.name
        (files.map (·.lfile) ++ others' ++ builtinFiles).length f.name := by
    intro f
    rw [hlen]
    exact reachesSelf_congr _ _ hfind f.name _ f.name
  have hl : (fun f => linkFile (files.map (·.lfile) ++ others ++ builtinFiles) f) =
      fun f => linkFile (files.map (·.lfile) ++ others' ++ builtinFiles) f :=
    funext fun f => linkFile_congr _ _ hfind f
  have hls : linkedSet (files.map (·.lfile) ++ others ++ builtinFiles) files =
      linkedSet (files.map (·.lfile) ++ others' ++ builtinFiles) files := by
    unfold linkedSet
    simp only []
    have hfl : ((files.map (·.lfile) ++ others ++ builtinFiles).flatMap (·.deps)).length =
        ((files.map (·.lfile) ++ others' ++ builtinFiles).flatMap (·.deps)).length :=
      (hperm.flatMap_right (·.deps)).length_eq
    rw [hfl, reachNames_congr _ _ hfind]
    congr 2
    funext n
    rw [hfind n]
  simp only [hr, hls]
  rw [show files.mapM (linkFile (files.map (·.lfile) ++ others ++ builtinFiles)) =
      files.mapM (linkFile (files.map (·.lfile) ++ others' ++ builtinFiles)) from by
    have := hl; simp only [] at this; rw [show linkFile (files.map (·.lfile) ++ others ++ builtinFiles) =
      linkFile (files.map (·.lfile) ++ others' ++ builtinFiles) from funext fun f => linkFile_congr _ _ hfind f]]

end J5V.Compile
