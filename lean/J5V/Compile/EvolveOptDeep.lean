import J5V.Compile.EvolveDeepDecl
import J5V.Compile.EvolveEnum
/-!
# An option appended to an inline / nested enum at any depth (C13) — core only, conversion level

`editProps (.option o) path ps = some ps'`: the path walks through inline objects / oneofs and ends at
a property holding an inline enum (directly or as array / map item). Same context, and the OLD
conversion recorded no error (so every `in` / `notIn` / default-filter check of the field passed and
still passes with one more value name): fields and map entries are unchanged, nested messages are
found again (recursively), the enum is found again with its values a prefix.
-/
namespace J5V.Compile

/-- results of a property list before / after an option append somewhere below it -/
def PRsLeE (r r' : PRs) : Prop :=
  r'.flds = r.flds ∧ MsgsLeDeep r.eff.msgs r'.eff.msgs ∧ EnumsLe r.eff.enums r'.eff.enums ∧
    r'.entries = r.entries

/-- results of one property -/
def PRLeE (r r' : PR) : Prop :=
  r'.fld = r.fld ∧ r'.entries = r.entries ∧ MsgsLeDeep r.eff.msgs r'.eff.msgs ∧
    EnumsLe r.eff.enums r'.eff.enums

/-- results of `buildField` -/
def BFLeE (b b' : BF) : Prop :=
  b'.res = b.res ∧ MsgsLeDeep b.eff.msgs b'.eff.msgs ∧ EnumsLe b.eff.enums b'.eff.enums

theorem EnumsLe.append {a a' b b' : List EnumSkel} (h1 : EnumsLe a a') (h2 : EnumsLe b b') :
    EnumsLe (a ++ b) (a' ++ b') := by
  intro e he
  rcases List.mem_append.mp he with he | he
  · obtain ⟨e', he', hh⟩ := h1 e he
    exact ⟨e', List.mem_append_left _ he', hh⟩
  · obtain ⟨e', he', hh⟩ := h2 e he
    exact ⟨e', List.mem_append_right _ he', hh⟩

theorem PRsLeE.refl (r : PRs) : PRsLeE r r := ⟨rfl, MsgsLeDeep.refl _, EnumsLe.refl _, rfl⟩

theorem mkMsgE (nm : Str) (io : Bool) (psm : Option Psm) (r r' : PRs) (X X' : List MsgSkel)
    (Y Y' : List EnumSkel) (h : PRsLeE r r') (hX : MsgsLeDeep X X') (hY : EnumsLe Y Y') :
    (mkMsg nm io psm r.flds (r.eff.msgs ++ X) (r.eff.enums ++ Y)).LeDeep
      (mkMsg nm io psm r'.flds (r'.eff.msgs ++ X') (r'.eff.enums ++ Y')) := by
  apply MsgSkel.LeDeep.mk
  · rfl
  · rfl
  · rfl
  · simp only [mkMsg, MsgSkel.fields, h.1]; exact List.prefix_refl _
  · exact MsgsLeDeep.append h.2.1 hX
  · exact EnumsLe.append h.2.2.1 hY

theorem mkMsgE0 (nm : Str) (io : Bool) (psm : Option Psm) (r r' : PRs) (h : PRsLeE r r') :
    (mkMsg nm io psm r.flds r.eff.msgs r.eff.enums).LeDeep
      (mkMsg nm io psm r'.flds r'.eff.msgs r'.eff.enums) := by
  have := mkMsgE nm io psm r r' [] [] [] [] h (MsgsLeDeep.refl _) (EnumsLe.refl _)
  simpa using this

/-! ## the leaf: a field holding an inline enum -/

theorem convEnum_append_le (e : EnumDecl) (o : Str) :
    EnumsLe [convEnum e] [convEnum { e with opts := e.opts ++ [o] }] := by
  intro x hx
  simp only [List.mem_singleton] at hx
  subst hx
  exact ⟨convEnum { e with opts := e.opts ++ [o] }, by simp, rfl,
    enumValues_prefix_all (enumPrefix e) e.opts o⟩

theorem enumNames_append (e : EnumDecl) (o : Str) :
    ∀ x ∈ (enumPrefix e ++ b!"UNSPECIFIED") :: (enumValues (enumPrefix e) e.opts).map (·.1),
      x ∈ (enumPrefix e ++ b!"UNSPECIFIED") :: (enumValues (enumPrefix e) (e.opts ++ [o])).map (·.1) := by
  intro x hx
  simp only [List.mem_cons, List.mem_map] at hx ⊢
  rcases hx with hx | ⟨y, hy, hyx⟩
  · exact Or.inl hx
  · exact Or.inr ⟨y, (enumValues_prefix_all (enumPrefix e) e.opts o).subset hy, hyx⟩

/-- `enumFieldWith` whose checks passed: more names and a grown `pre` change only the enums of `pre` -/
theorem enumFieldWith_grow (en en' : List EnumSkel) (tn pfx : Str) (names names' : List Str)
    (rules : Rules) (lr : Option (List Str)) (h : ∀ x ∈ names, x ∈ names') (hE : EnumsLe en en')
    (hs : (enumFieldWith { enums := en } { enums := en } tn pfx names rules lr).res.isSome = true) :
    BFLeE (enumFieldWith { enums := en } { enums := en } tn pfx names rules lr)
      (enumFieldWith { enums := en' } { enums := en' } tn pfx names' rules lr) := by
  unfold enumFieldWith at hs ⊢
  cases h1 : mapValuesOk pfx names (enumRuleVals rules) with
  | false => simp [h1] at hs
  | true =>
    cases h2 : mapValuesOk pfx names (lr.getD []) with
    | false => simp [h1, h2] at hs
    | true =>
      simp only [h1, h2, mapValuesOk_mono pfx names names' _ h h1, mapValuesOk_mono pfx names names' _ h h2,
        Bool.not_true, Bool.false_eq_true, if_false]
      refine ⟨rfl, ?_, ?_⟩
      · simp
        exact MsgsLeDeep.refl _
      · simpa using hE

theorem bField_enumInl_append (c : Ctx) (np : List Str) (d : Str) (e : EnumDecl) (o : Str)
    (rules : Rules) (lr : Option (List Str))
    (hs : (bField c np d (.enumInl e rules lr)).res.isSome = true) :
    BFLeE (bField c np d (.enumInl e rules lr))
      (bField c np d (.enumInl { e with opts := e.opts ++ [o] } rules lr)) := by
  rw [bField] at hs
  rw [bField, bField]
  simp only [enumTKind] at hs ⊢
  by_cases hn : e.name = []
  · simp only [hn, if_true] at hs ⊢
    exact enumFieldWith_grow _ _ _ _ _ _ rules lr
      (enumNames_append { e with name := d } o) (convEnum_append_le { e with name := d } o) hs
  · simp only [hn, if_false] at hs ⊢
    exact enumFieldWith_grow _ _ _ _ _ _ rules lr (enumNames_append e o) (convEnum_append_le e o) hs

/-- the tail of `buildProperty` for two field results related by `BFLeE` -/
theorem propTailE (b b' : BF) (hb : BFLeE b b') (nm : Str) (r o : Bool) (n : Nat) (io : Bool)
    (pre pre' : FieldRes → Eff)
    (hpre : ∀ r0, MsgsLeDeep (pre r0).msgs (pre' r0).msgs ∧ EnumsLe (pre r0).enums (pre' r0).enums)
    (E : FieldRes → List MsgSkel) (F : FieldRes → FieldRes) (rep : Bool) :
    PRLeE (match b.res with
          | none => ({ eff := b.eff ++ Eff.err } : PR)
          | some r0 => finishProperty nm r o n io (pre r0) (E r0) (F r0) rep)
         (match b'.res with
          | none => ({ eff := b'.eff ++ Eff.err } : PR)
          | some r0 => finishProperty nm r o n io (pre' r0) (E r0) (F r0) rep) := by
  obtain ⟨hres, hmsgs, henums⟩ := hb
  rw [hres]
  cases b.res with
  | none =>
    refine ⟨rfl, rfl, ?_, ?_⟩
    · simpa [Eff.err] using hmsgs
    · simpa [Eff.err] using henums
  | some r0 =>
    refine ⟨finishProperty_fld_indep _ _ _ _ _ _ _ _ _ _ _, ?_, ?_, ?_⟩
    · rw [finishProperty_entries, finishProperty_entries]
    · rw [finishProperty_msgs, finishProperty_msgs]; exact (hpre r0).1
    · rw [finishProperty_enums, finishProperty_enums]; exact (hpre r0).2

/-- the property at the end of the path: it holds an inline enum, directly or as array / map item -/
theorem bProperty_enum_append (c : Ctx) (np : List Str) (io : Bool) (n : Nat) (nm : Str) (r0 o0 : Bool)
    (f f' : Field) (o : Str) (h : inlineEnumAppend o f = some f')
    (he : (bProperty c np io n (.mk nm r0 o0 f)).eff.errs = 0) :
    PRLeE (bProperty c np io n (.mk nm r0 o0 f)) (bProperty c np io n (.mk nm r0 o0 f')) := by
  obtain ⟨hs, _, _⟩ := bProperty_ok c np io n nm r0 o0 f he
  cases f with
  | enumInl e rules lr =>
    simp only [inlineEnumAppend, Option.some.injEq] at h
    subst h
    simp only [builtField] at hs
    have hb := bField_enumInl_append c np (toCamel nm) e o rules lr hs
    simp only [bProperty]
    exact propTailE _ _ hb nm r0 o0 n io (fun _ => _) (fun _ => _) (fun _ => ⟨hb.2.1, hb.2.2⟩)
      (fun _ => []) (fun r => r) false
  | array items ar =>
    simp only [inlineEnumAppend] at h
    obtain ⟨items', hi, rfl⟩ := Option.map_eq_some_iff.mp h
    simp only [builtField] at hs
    cases items with
    | enumInl e rules lr =>
      simp only [inlineEnumAppend, Option.some.injEq] at hi
      subst hi
      have hb := bField_enumInl_append c np (toCamel nm) e o rules lr hs
      simp only [bProperty]
      exact propTailE _ _ hb nm r0 o0 n io
        (fun r => (bField c np (toCamel nm) (.enumInl e rules lr)).eff ++ j5Ext ++
          validateWithImport (r.hasValidate || !ar.isEmpty))
        (fun r => (bField c np (toCamel nm) (.enumInl { e with opts := e.opts ++ [o] } rules lr)).eff ++ j5Ext ++
          validateWithImport (r.hasValidate || !ar.isEmpty))
        (fun r => by simp [hb.2.1, hb.2.2])
        (fun _ => []) (fun r => { r with ext := b!"array", hasValidate := r.hasValidate || !ar.isEmpty }) true
    | array x y => rw [bField] at hs; simp at hs
    | map x y => rw [bField] at hs; simp at hs
    | string _ _ => simp [inlineEnumAppend] at hi
    | bool _ _ => simp [inlineEnumAppend] at hi
    | bytes _ => simp [inlineEnumAppend] at hi
    | date _ _ => simp [inlineEnumAppend] at hi
    | decimal _ _ => simp [inlineEnumAppend] at hi
    | timestamp _ => simp [inlineEnumAppend] at hi
    | any => simp [inlineEnumAppend] at hi
    | integer _ _ _ => simp [inlineEnumAppend] at hi
    | float _ _ _ => simp [inlineEnumAppend] at hi
    | key _ _ _ _ => simp [inlineEnumAppend] at hi
    | objectRef _ _ _ _ => simp [inlineEnumAppend] at hi
    | objectInl _ _ _ _ => simp [inlineEnumAppend] at hi
    | oneofRef _ _ _ _ => simp [inlineEnumAppend] at hi
    | oneofInl _ _ _ _ => simp [inlineEnumAppend] at hi
    | enumRef _ _ _ _ => simp [inlineEnumAppend] at hi
  | map items mr =>
    simp only [inlineEnumAppend] at h
    obtain ⟨items', hi, rfl⟩ := Option.map_eq_some_iff.mp h
    simp only [builtField] at hs
    cases items with
    | enumInl e rules lr =>
      simp only [inlineEnumAppend, Option.some.injEq] at hi
      subst hi
      have hb := bField_enumInl_append c np (toCamel nm) e o rules lr hs
      simp only [bProperty]
      exact propTailE _ _ hb nm r0 o0 n io
        (fun r => (bField c np (toCamel nm) (.enumInl e rules lr)).eff ++ j5Ext ++
          validateWithImport (r.hasValidate || !mr.isEmpty))
        (fun r => (bField c np (toCamel nm) (.enumInl { e with opts := e.opts ++ [o] } rules lr)).eff ++ j5Ext ++
          validateWithImport (r.hasValidate || !mr.isEmpty))
        (fun r => by simp [hb.2.1, hb.2.2])
        (fun r => [mkEntry (mapName (toSnake nm)) r])
        (fun r => { type := .message, typeName := mapName (toSnake nm), ext := b!"map",
                    hasValidate := r.hasValidate || !mr.isEmpty }) true
    | array x y => rw [bField] at hs; simp at hs
    | map x y => rw [bField] at hs; simp at hs
    | string _ _ => simp [inlineEnumAppend] at hi
    | bool _ _ => simp [inlineEnumAppend] at hi
    | bytes _ => simp [inlineEnumAppend] at hi
    | date _ _ => simp [inlineEnumAppend] at hi
    | decimal _ _ => simp [inlineEnumAppend] at hi
    | timestamp _ => simp [inlineEnumAppend] at hi
    | any => simp [inlineEnumAppend] at hi
    | integer _ _ _ => simp [inlineEnumAppend] at hi
    | float _ _ _ => simp [inlineEnumAppend] at hi
    | key _ _ _ _ => simp [inlineEnumAppend] at hi
    | objectRef _ _ _ _ => simp [inlineEnumAppend] at hi
    | objectInl _ _ _ _ => simp [inlineEnumAppend] at hi
    | oneofRef _ _ _ _ => simp [inlineEnumAppend] at hi
    | oneofInl _ _ _ _ => simp [inlineEnumAppend] at hi
    | enumRef _ _ _ _ => simp [inlineEnumAppend] at hi
  | string _ _ => simp [inlineEnumAppend] at h
  | bool _ _ => simp [inlineEnumAppend] at h
  | bytes _ => simp [inlineEnumAppend] at h
  | date _ _ => simp [inlineEnumAppend] at h
  | decimal _ _ => simp [inlineEnumAppend] at h
  | timestamp _ => simp [inlineEnumAppend] at h
  | any => simp [inlineEnumAppend] at h
  | integer _ _ _ => simp [inlineEnumAppend] at h
  | float _ _ _ => simp [inlineEnumAppend] at h
  | key _ _ _ _ => simp [inlineEnumAppend] at h
  | objectRef _ _ _ _ => simp [inlineEnumAppend] at h
  | objectInl _ _ _ _ => simp [inlineEnumAppend] at h
  | oneofRef _ _ _ _ => simp [inlineEnumAppend] at h
  | oneofInl _ _ _ _ => simp [inlineEnumAppend] at h
  | enumRef _ _ _ _ => simp [inlineEnumAppend] at h

/-! ## on the path: inline objects / oneofs, with the no-error hypothesis threaded through -/

theorem bField_objInl_c (c : Ctx) (np : List Str) (d name : Str) (ps qs' : List Property) (fl : Bool)
    (rules : Rules)
    (ih : ∀ np io n, (bProps c np io n ps).eff.errs = 0 → PRsLeE (bProps c np io n ps) (bProps c np io n qs'))
    (he : (bField c np d (.objectInl name ps fl rules)).eff.errs = 0) :
    BFLeE (bField c np d (.objectInl name ps fl rules)) (bField c np d (.objectInl name qs' fl rules)) := by
  rw [bField] at he
  simp only [msgInlField] at he
  have hin : (bProps c (np ++ [if name = [] then d else name]) false 1 ps).eff.errs = 0 := by
    simp at he; omega
  have hle := ih _ false 1 hin
  have hm := mkMsgE0 (if name = [] then d else name) false none _ _ hle
  rw [bField, bField]
  refine ⟨?_, ?_, ?_⟩
  · rw [(msgInlField_parts _ _ _ _ _).2.2.2, (msgInlField_parts _ _ _ _ _).2.2.2]
  · rw [(msgInlField_parts _ _ _ _ _).1, (msgInlField_parts _ _ _ _ _).1]
    intro m hm'
    simp only [List.mem_singleton] at hm'
    subst hm'
    exact ⟨_, List.mem_singleton.mpr rfl, hm⟩
  · rw [(msgInlField_parts _ _ _ _ _).2.1, (msgInlField_parts _ _ _ _ _).2.1]
    exact EnumsLe.refl _

theorem bField_oneofInl_c (c : Ctx) (np : List Str) (d name : Str) (ps qs' : List Property)
    (rules : Rules) (lr : Bool)
    (ih : ∀ np io n, (bProps c np io n ps).eff.errs = 0 → PRsLeE (bProps c np io n ps) (bProps c np io n qs'))
    (he : (bField c np d (.oneofInl name ps rules lr)).eff.errs = 0) :
    BFLeE (bField c np d (.oneofInl name ps rules lr)) (bField c np d (.oneofInl name qs' rules lr)) := by
  rw [bField] at he
  simp only [msgInlField] at he
  have hin : (bProps c (np ++ [if name = [] then d else name]) true 1 ps).eff.errs = 0 := by
    simp at he; omega
  have hle := ih _ true 1 hin
  have hm := mkMsgE0 (if name = [] then d else name) true none _ _ hle
  rw [bField, bField]
  refine ⟨?_, ?_, ?_⟩
  · rw [(msgInlField_parts _ _ _ _ _).2.2.2, (msgInlField_parts _ _ _ _ _).2.2.2]
  · rw [(msgInlField_parts _ _ _ _ _).1, (msgInlField_parts _ _ _ _ _).1]
    simp only [hle.2.2.2]
    apply MsgsLeDeep.append (MsgsLeDeep.refl _)
    intro m hm'
    simp only [List.mem_singleton] at hm'
    subst hm'
    exact ⟨_, List.mem_singleton.mpr rfl, hm⟩
  · rw [(msgInlField_parts _ _ _ _ _).2.1, (msgInlField_parts _ _ _ _ _).2.1]
    exact EnumsLe.refl _

/-- a field whose inline property list is edited below: one layer of array / map at most (more
layers are an error of `buildField`, excluded by `he`) -/
theorem bField_built_c (c : Ctx) (np : List Str) (d : Str) (f : Field) (qs : List Property)
    (k : List Property → Field) (h : inlineProps f = some (qs, k)) (qs' : List Property)
    (ih : ∀ np io n, (bProps c np io n qs).eff.errs = 0 → PRsLeE (bProps c np io n qs) (bProps c np io n qs'))
    (hs : (bField c np d (builtField f)).res.isSome = true)
    (he : (bField c np d (builtField f)).eff.errs = 0) :
    BFLeE (bField c np d (builtField f)) (bField c np d (builtField (k qs'))) := by
  have direct : ∀ g : Field, ∀ kk, inlineProps g = some (qs, kk) → (bField c np d g).res.isSome = true →
      (bField c np d g).eff.errs = 0 → BFLeE (bField c np d g) (bField c np d (kk qs')) := by
    intro g kk hg hsg heg
    cases g with
    | objectInl name ps fl rules =>
      simp only [inlineProps, Option.some.injEq, Prod.mk.injEq] at hg
      obtain ⟨rfl, rfl⟩ := hg
      exact bField_objInl_c c np d name _ qs' fl rules ih heg
    | oneofInl name ps rules lr =>
      simp only [inlineProps, Option.some.injEq, Prod.mk.injEq] at hg
      obtain ⟨rfl, rfl⟩ := hg
      exact bField_oneofInl_c c np d name _ qs' rules lr ih heg
    | array x y => rw [bField] at hsg; simp at hsg
    | map x y => rw [bField] at hsg; simp at hsg
    | string _ _ => simp [inlineProps] at hg
    | bool _ _ => simp [inlineProps] at hg
    | bytes _ => simp [inlineProps] at hg
    | date _ _ => simp [inlineProps] at hg
    | decimal _ _ => simp [inlineProps] at hg
    | timestamp _ => simp [inlineProps] at hg
    | any => simp [inlineProps] at hg
    | integer _ _ _ => simp [inlineProps] at hg
    | float _ _ _ => simp [inlineProps] at hg
    | key _ _ _ _ => simp [inlineProps] at hg
    | objectRef _ _ _ _ => simp [inlineProps] at hg
    | oneofRef _ _ _ _ => simp [inlineProps] at hg
    | enumRef _ _ _ _ => simp [inlineProps] at hg
    | enumInl _ _ _ => simp [inlineProps] at hg
  cases f with
  | array items ar =>
    simp only [inlineProps] at h
    cases hi : inlineProps items with
    | none => simp [hi] at h
    | some pk =>
      obtain ⟨qs0, k0⟩ := pk
      simp only [hi, Option.map_some, Option.some.injEq, Prod.mk.injEq] at h
      obtain ⟨rfl, rfl⟩ := h
      simp only [builtField] at hs he ⊢
      exact direct items k0 hi hs he
  | map items mr =>
    simp only [inlineProps] at h
    cases hi : inlineProps items with
    | none => simp [hi] at h
    | some pk =>
      obtain ⟨qs0, k0⟩ := pk
      simp only [hi, Option.map_some, Option.some.injEq, Prod.mk.injEq] at h
      obtain ⟨rfl, rfl⟩ := h
      simp only [builtField] at hs he ⊢
      exact direct items k0 hi hs he
  | objectInl name ps fl rules =>
    have := direct _ k h (by simpa [builtField] using hs) (by simpa [builtField] using he)
    simp only [inlineProps, Option.some.injEq, Prod.mk.injEq] at h
    obtain ⟨rfl, rfl⟩ := h
    simpa [builtField] using this
  | oneofInl name ps rules lr =>
    have := direct _ k h (by simpa [builtField] using hs) (by simpa [builtField] using he)
    simp only [inlineProps, Option.some.injEq, Prod.mk.injEq] at h
    obtain ⟨rfl, rfl⟩ := h
    simpa [builtField] using this
  | string _ _ => simp [inlineProps] at h
  | bool _ _ => simp [inlineProps] at h
  | bytes _ => simp [inlineProps] at h
  | date _ _ => simp [inlineProps] at h
  | decimal _ _ => simp [inlineProps] at h
  | timestamp _ => simp [inlineProps] at h
  | any => simp [inlineProps] at h
  | integer _ _ _ => simp [inlineProps] at h
  | float _ _ _ => simp [inlineProps] at h
  | key _ _ _ _ => simp [inlineProps] at h
  | objectRef _ _ _ _ => simp [inlineProps] at h
  | oneofRef _ _ _ _ => simp [inlineProps] at h
  | enumRef _ _ _ _ => simp [inlineProps] at h
  | enumInl _ _ _ => simp [inlineProps] at h

/-- `buildProperty` in terms of `buildField` on the built field (array / map stripped once) -/
theorem bProperty_of_built (c : Ctx) (np : List Str) (io : Bool) (n : Nat) (nm : Str) (r o : Bool)
    (f f' : Field)
    (hb : BFLeE (bField c np (toCamel nm) (builtField f)) (bField c np (toCamel nm) (builtField f')))
    (hkind : (∃ y z y', f = .array y z ∧ f' = .array y' z) ∨ (∃ y z y', f = .map y z ∧ f' = .map y' z) ∨
      ((∀ y z, f ≠ .array y z) ∧ (∀ y z, f ≠ .map y z) ∧ (∀ y z, f' ≠ .array y z) ∧ (∀ y z, f' ≠ .map y z))) :
    PRLeE (bProperty c np io n (.mk nm r o f)) (bProperty c np io n (.mk nm r o f')) := by
  rcases hkind with ⟨y, z, y', rfl, rfl⟩ | ⟨y, z, y', rfl, rfl⟩ | ⟨h1, h2, h3, h4⟩
  · simp only [builtField] at hb
    simp only [bProperty]
    exact propTailE _ _ hb nm r o n io
      (fun r0 => (bField c np (toCamel nm) y).eff ++ j5Ext ++ validateWithImport (r0.hasValidate || !z.isEmpty))
      (fun r0 => (bField c np (toCamel nm) y').eff ++ j5Ext ++ validateWithImport (r0.hasValidate || !z.isEmpty))
      (fun r0 => by simp [hb.2.1, hb.2.2])
      (fun _ => []) (fun r0 => { r0 with ext := b!"array", hasValidate := r0.hasValidate || !z.isEmpty }) true
  · simp only [builtField] at hb
    simp only [bProperty]
    exact propTailE _ _ hb nm r o n io
      (fun r0 => (bField c np (toCamel nm) y).eff ++ j5Ext ++ validateWithImport (r0.hasValidate || !z.isEmpty))
      (fun r0 => (bField c np (toCamel nm) y').eff ++ j5Ext ++ validateWithImport (r0.hasValidate || !z.isEmpty))
      (fun r0 => by simp [hb.2.1, hb.2.2])
      (fun r0 => [mkEntry (mapName (toSnake nm)) r0])
      (fun r0 => { type := .message, typeName := mapName (toSnake nm), ext := b!"map",
                   hasValidate := r0.hasValidate || !z.isEmpty }) true
  · have e1 : builtField f = f := by
      cases f <;> first | rfl | (exfalso; exact h1 _ _ rfl) | (exfalso; exact h2 _ _ rfl)
    have e2 : builtField f' = f' := by
      cases f' <;> first | rfl | (exfalso; exact h3 _ _ rfl) | (exfalso; exact h4 _ _ rfl)
    rw [e1, e2] at hb
    have d1 : bProperty c np io n (.mk nm r o f) =
        (match (bField c np (toCamel nm) f).res with
          | none => ({ eff := (bField c np (toCamel nm) f).eff ++ Eff.err } : PR)
          | some r0 => finishProperty nm r o n io (bField c np (toCamel nm) f).eff [] r0 false) := by
      cases f <;> first | (exfalso; exact h1 _ _ rfl) | (exfalso; exact h2 _ _ rfl) | (simp only [bProperty] <;> rfl)
    have d2 : bProperty c np io n (.mk nm r o f') =
        (match (bField c np (toCamel nm) f').res with
          | none => ({ eff := (bField c np (toCamel nm) f').eff ++ Eff.err } : PR)
          | some r0 => finishProperty nm r o n io (bField c np (toCamel nm) f').eff [] r0 false) := by
      cases f' <;> first | (exfalso; exact h3 _ _ rfl) | (exfalso; exact h4 _ _ rfl) | (simp only [bProperty] <;> rfl)
    rw [d1, d2]
    exact propTailE _ _ hb nm r o n io (fun _ => _) (fun _ => _) (fun _ => ⟨hb.2.1, hb.2.2⟩)
      (fun _ => []) (fun r0 => r0) false

theorem inlineProps_kind (f : Field) (qs : List Property) (k : List Property → Field)
    (h : inlineProps f = some (qs, k)) (qs' : List Property) :
    (∃ y z y', f = .array y z ∧ k qs' = .array y' z) ∨ (∃ y z y', f = .map y z ∧ k qs' = .map y' z) ∨
      ((∀ y z, f ≠ .array y z) ∧ (∀ y z, f ≠ .map y z) ∧ (∀ y z, k qs' ≠ .array y z) ∧
        (∀ y z, k qs' ≠ .map y z)) := by
  cases f with
  | array items ar =>
    simp only [inlineProps] at h
    obtain ⟨⟨qs0, k0⟩, _, hk⟩ := Option.map_eq_some_iff.mp h
    simp only [Prod.mk.injEq] at hk
    obtain ⟨_, rfl⟩ := hk
    exact Or.inl ⟨items, ar, k0 qs', rfl, rfl⟩
  | map items mr =>
    simp only [inlineProps] at h
    obtain ⟨⟨qs0, k0⟩, _, hk⟩ := Option.map_eq_some_iff.mp h
    simp only [Prod.mk.injEq] at hk
    obtain ⟨_, rfl⟩ := hk
    exact Or.inr (Or.inl ⟨items, mr, k0 qs', rfl, rfl⟩)
  | objectInl name ps fl rules =>
    simp only [inlineProps, Option.some.injEq, Prod.mk.injEq] at h
    obtain ⟨_, rfl⟩ := h
    refine Or.inr (Or.inr ⟨?_, ?_, ?_, ?_⟩) <;> (intro y z hh; cases hh)
  | oneofInl name ps rules lr =>
    simp only [inlineProps, Option.some.injEq, Prod.mk.injEq] at h
    obtain ⟨_, rfl⟩ := h
    refine Or.inr (Or.inr ⟨?_, ?_, ?_, ?_⟩) <;> (intro y z hh; cases hh)
  | string _ _ => simp [inlineProps] at h
  | bool _ _ => simp [inlineProps] at h
  | bytes _ => simp [inlineProps] at h
  | date _ _ => simp [inlineProps] at h
  | decimal _ _ => simp [inlineProps] at h
  | timestamp _ => simp [inlineProps] at h
  | any => simp [inlineProps] at h
  | integer _ _ _ => simp [inlineProps] at h
  | float _ _ _ => simp [inlineProps] at h
  | key _ _ _ _ => simp [inlineProps] at h
  | objectRef _ _ _ _ => simp [inlineProps] at h
  | oneofRef _ _ _ _ => simp [inlineProps] at h
  | enumRef _ _ _ _ => simp [inlineProps] at h
  | enumInl _ _ _ => simp [inlineProps] at h

theorem bProperty_inline_c (c : Ctx) (f : Field) (qs : List Property) (k : List Property → Field)
    (h : inlineProps f = some (qs, k)) (qs' : List Property)
    (ih : ∀ np io n, (bProps c np io n qs).eff.errs = 0 → PRsLeE (bProps c np io n qs) (bProps c np io n qs'))
    (np : List Str) (io : Bool) (n : Nat) (nm : Str) (r o : Bool)
    (he : (bProperty c np io n (.mk nm r o f)).eff.errs = 0) :
    PRLeE (bProperty c np io n (.mk nm r o f)) (bProperty c np io n (.mk nm r o (k qs'))) := by
  obtain ⟨hs, hee, _⟩ := bProperty_ok c np io n nm r o f he
  have hb := bField_built_c c np (toCamel nm) f qs k h qs' ih hs hee
  exact bProperty_of_built c np io n nm r o f (k qs') hb
    (inlineProps_kind f qs k h qs')

/-! ## the property list -/

theorem bProps_replace_leE (c : Ctx) (np : List Str) (io : Bool) (n : Nat) (P1 P2 : List Property)
    (pr pr' : Property)
    (h : PRLeE (bProperty c np io (n + P1.length) pr) (bProperty c np io (n + P1.length) pr')) :
    PRsLeE (bProps c np io n (P1 ++ [pr] ++ P2)) (bProps c np io n (P1 ++ [pr'] ++ P2)) := by
  obtain ⟨hfld, hent, hmsgs, henums⟩ := h
  refine ⟨?_, ?_, ?_, ?_⟩
  · simp only [bProps_append_flds, bProps_cons, bProps_nil, List.length_append, List.length_cons,
      List.length_nil, hfld]
  · simp only [bProps_append_eff, bProps_cons, bProps_nil, List.length_append, List.length_cons,
      List.length_nil, Eff.add_def, Eff.add_msgs, Eff.add_empty]
    apply MsgsLeDeep.append
    · apply MsgsLeDeep.append (MsgsLeDeep.refl _)
      cases io
      · simp only [Bool.false_eq_true, if_false, hent]
        exact MsgsLeDeep.append hmsgs (MsgsLeDeep.refl _)
      · simpa using hmsgs
    · exact MsgsLeDeep.refl _
  · simp only [bProps_append_eff, bProps_cons, bProps_nil, List.length_append, List.length_cons,
      List.length_nil, Eff.add_def, Eff.add_enums, Eff.add_empty]
    apply EnumsLe.append
    · apply EnumsLe.append (EnumsLe.refl _)
      cases io
      · simpa using henums
      · simpa using henums
    · exact EnumsLe.refl _
  · simp only [bProps_append_entries, bProps_cons, bProps_nil, List.length_append, List.length_cons,
      List.length_nil, hent]

/-- **An option appended to an inline enum at any depth, same context, old conversion clean.** -/
theorem editProps_opt_deep (c : Ctx) (o : Str) :
    ∀ (path : List PStep) (ps ps' : List Property), editProps (.option o) path ps = some ps' →
      ∀ np io n, (bProps c np io n ps).eff.errs = 0 → PRsLeE (bProps c np io n ps) (bProps c np io n ps') := by
  intro path
  induction path with
  | nil =>
    intro ps ps' h
    simp [editProps] at h
  | cons st rest ih =>
    intro ps ps' h np io n he
    cases st with
    | prop j =>
      simp only [editProps] at h
      obtain ⟨a, a', h1, hf, h2, h3⟩ := setAt_some _ _ _ _ h
      have hj : j < ps.length := by
        have : ps.length = (ps.take j ++ [a] ++ ps.drop (j + 1)).length := by rw [← h1]
        rw [this]; simp only [List.length_append, List.length_cons, List.length_nil, h3]; omega
      have hget : ps[j] = a := by
        have : ps[j]? = some a := by
          rw [h1, List.append_assoc, List.getElem?_append_right (by omega)]
          simp [h3]
        rw [List.getElem?_eq_getElem hj] at this
        exact Option.some.inj this
      have hea := bProps_errs_zero c np io n ps he j hj
      rw [hget] at hea
      have hea' : (bProperty c np io (n + (ps.take j).length) a).eff.errs = 0 := by rw [h3]; exact hea
      cases a with
      | mk nm r0 o0 f =>
        simp only [] at hf
        cases hin : inlineProps f with
        | none =>
          simp only [hin] at hf
          cases rest with
          | nil =>
            simp only [] at hf
            obtain ⟨f', hf', rfl⟩ := Option.map_eq_some_iff.mp hf
            have hle := bProperty_enum_append c np io (n + (ps.take j).length) nm r0 o0 f f' o hf' hea'
            rw [h1, h2]
            exact bProps_replace_leE c np io n _ _ _ _ hle
          | cons s2 r2 => simp at hf
        | some pk =>
          obtain ⟨qs, k⟩ := pk
          simp only [hin] at hf
          obtain ⟨qs', hq, rfl⟩ := Option.map_eq_some_iff.mp hf
          have hle := bProperty_inline_c c f qs k hin qs' (ih qs qs' hq) np io
            (n + (ps.take j).length) nm r0 o0 hea'
          rw [h1, h2]
          exact bProps_replace_leE c np io n _ _ _ _ hle
    | el i => simp [editProps] at h
    | nest k => simp [editProps] at h
    | method m => simp [editProps] at h
    | req => simp [editProps] at h
    | res => simp [editProps] at h
    | msg m => simp [editProps] at h
    | reqm m => simp [editProps] at h
    | repm m => simp [editProps] at h
    | edata => simp [editProps] at h
    | estatus => simp [editProps] at h
    | event k => simp [editProps] at h
    | command c => simp [editProps] at h
    | summary s => simp [editProps] at h

/-- the value names of an enum are kept by an appended option -/
theorem enumTKind_append' (e : EnumDecl) (o : Str) :
    ∃ pfx names names', enumTKind e = .enum pfx names ∧
      enumTKind { e with opts := e.opts ++ [o] } = .enum pfx names' ∧ ∀ x ∈ names, x ∈ names' :=
  ⟨enumPrefix e, _, _, rfl, rfl, enumNames_append e o⟩

/-! ## declarations -/

/-- what a declaration adds to its parent, before / after an option append below it -/
def DeclLeE (e e' : Eff) : Prop := MsgsLeDeep e.msgs e'.msgs ∧ EnumsLe e.enums e'.enums

theorem DeclLeE.refl (e : Eff) : DeclLeE e e := ⟨MsgsLeDeep.refl _, EnumsLe.refl _⟩

theorem PRsLeE_append_left (c : Ctx) (np : List Str) (io : Bool) (n : Nat) (a ps ps' : List Property)
    (h : PRsLeE (bProps c np io (n + a.length) ps) (bProps c np io (n + a.length) ps')) :
    PRsLeE (bProps c np io n (a ++ ps)) (bProps c np io n (a ++ ps')) := by
  obtain ⟨h1, h2, h3, h4⟩ := h
  refine ⟨?_, ?_, ?_, ?_⟩
  · rw [bProps_append_flds, bProps_append_flds, h1]
  · rw [bProps_append_eff, bProps_append_eff]
    exact MsgsLeDeep.append (MsgsLeDeep.refl _) h2
  · rw [bProps_append_eff, bProps_append_eff]
    exact EnumsLe.append (EnumsLe.refl _) h3
  · rw [bProps_append_entries, bProps_append_entries, h4]

theorem convDecl_props_leE (c : Ctx) (np : List Str) (io : Bool) (virt : List Property) (n : Str)
    (ps ps' : List Property) (ne ne' : List Nested) (psm : Option Psm)
    (hp : PRsLeE (bProps c (np ++ [n]) io 1 (virt ++ ps)) (bProps c (np ++ [n]) io 1 (virt ++ ps')))
    (hn : DeclLeE (convNested c (np ++ [n]) ne) (convNested c (np ++ [n]) ne')) :
    DeclLeE (convDecl c np io virt (.mk n ps ne psm)) (convDecl c np io virt (.mk n ps' ne' psm)) := by
  refine ⟨?_, by rw [convDecl_enums, convDecl_enums]; exact EnumsLe.refl _⟩
  rw [convDecl_msgs, convDecl_msgs, hp.2.2.2]
  apply MsgsLeDeep.append (MsgsLeDeep.refl _)
  intro m hm
  simp only [List.mem_singleton] at hm
  subst hm
  refine ⟨declMsg c np io virt n ps' ne' psm, List.mem_singleton.mpr rfl, ?_⟩
  simp only [declMsg]
  exact mkMsgE n io psm _ _ _ _ _ _ hp hn.1 hn.2

theorem bProps_errs_split (c : Ctx) (np : List Str) (io : Bool) (n : Nat) (a b : List Property)
    (h : (bProps c np io n (a ++ b)).eff.errs = 0) :
    (bProps c np io n a).eff.errs = 0 ∧ (bProps c np io (n + a.length) b).eff.errs = 0 := by
  rw [bProps_append_eff] at h
  simp only [Eff.add_errs] at h
  omega

/-- **An option appended to a nested / inline enum at any depth of a declaration, same context, old
conversion clean.** -/
theorem editDecl_opt_deep (c : Ctx) (o : Str) :
    ∀ (path : List PStep) (d d' : ObjDecl), editDecl (.option o) path d = some d' →
      ∀ np io virt, (convDecl c np io virt d).errs = 0 →
        DeclLeE (convDecl c np io virt d) (convDecl c np io virt d') := by
  intro path
  induction path with
  | nil =>
    intro d d' h
    cases d with
    | mk n ps ne psm => simp [editDecl, editProps] at h
  | cons st rest ih =>
    intro d d' h np io virt he
    cases d with
    | mk n ps ne psm =>
      rw [convDecl_errs] at he
      cases st with
      | prop j =>
        simp only [editDecl] at h
        obtain ⟨ps', hq, rfl⟩ := Option.map_eq_some_iff.mp h
        have hps := (bProps_errs_split c (np ++ [n]) io 1 virt ps (by omega)).2
        exact convDecl_props_leE c np io virt n ps ps' ne ne psm
          (PRsLeE_append_left c _ io 1 virt ps ps' (editProps_opt_deep c o _ ps ps' hq _ io _ hps))
          (DeclLeE.refl _)
      | nest k =>
        simp only [editDecl] at h
        obtain ⟨ne', hq, rfl⟩ := Option.map_eq_some_iff.mp h
        obtain ⟨x, x', h1, hf, h2, _⟩ := setAt_some _ _ _ _ hq
        apply convDecl_props_leE c np io virt n ps ps ne ne' psm (PRsLeE.refl _)
        have hne : (convNested c (np ++ [n]) ne).errs = 0 := by omega
        rw [h1] at hne
        rw [h1, h2]
        simp only [convNested_append, Eff.add_errs] at hne ⊢
        have hxe : (convNested c (np ++ [n]) [x]).errs = 0 := by omega
        have hmid : DeclLeE (convNested c (np ++ [n]) [x]) (convNested c (np ++ [n]) [x']) := by
          cases x with
          | object o1 =>
            simp only [] at hf
            obtain ⟨o1', ho, rfl⟩ := Option.map_eq_some_iff.mp hf
            simp only [convNested, Eff.add_def, Eff.add_empty] at hxe ⊢
            exact ih o1 o1' ho _ false [] hxe
          | oneof o1 =>
            simp only [] at hf
            obtain ⟨o1', ho, rfl⟩ := Option.map_eq_some_iff.mp hf
            simp only [convNested, Eff.add_def, Eff.add_empty] at hxe ⊢
            exact ih o1 o1' ho _ true [] hxe
          | enum e =>
            simp only [] at hf
            cases rest with
            | nil =>
              simp only [editEnum, Option.map_some, Option.some.injEq] at hf
              subst hf
              simp only [convNested, Eff.add_def, Eff.add_empty]
              exact ⟨MsgsLeDeep.refl _, convEnum_append_le e o⟩
            | cons s2 r2 => simp [editEnum] at hf
        constructor
        · simp only [Eff.add_msgs]
          exact MsgsLeDeep.append (MsgsLeDeep.append (MsgsLeDeep.refl _) hmid.1) (MsgsLeDeep.refl _)
        · simp only [Eff.add_enums]
          exact EnumsLe.append (EnumsLe.append (EnumsLe.refl _) hmid.2) (EnumsLe.refl _)
      | el i => simp [editDecl] at h
      | method m => simp [editDecl] at h
      | req => simp [editDecl] at h
      | res => simp [editDecl] at h
      | msg m => simp [editDecl] at h
      | reqm m => simp [editDecl] at h
      | repm m => simp [editDecl] at h
      | edata => simp [editDecl] at h
      | estatus => simp [editDecl] at h
      | event k => simp [editDecl] at h
      | command c => simp [editDecl] at h
      | summary s => simp [editDecl] at h

/-! ## the export list: one enum entry gets more value names -/

def ExpUpd (ex ex' : List (Str × TKind)) : Prop :=
  ∃ A C k0 pfx names names', ex = A ++ [(k0, TKind.enum pfx names)] ++ C ∧
    ex' = A ++ [(k0, TKind.enum pfx names')] ++ C ∧ ∀ x ∈ names, x ∈ names'

theorem ExpUpd.wrap {ex ex' : List (Str × TKind)} (h : ExpUpd ex ex') (X Y : List (Str × TKind)) :
    ExpUpd (X ++ ex ++ Y) (X ++ ex' ++ Y) := by
  obtain ⟨A, C, k0, pfx, names, names', rfl, rfl, hs⟩ := h
  exact ⟨X ++ A, C ++ Y, k0, pfx, names, names', by simp, by simp, hs⟩

theorem exportsField_enum_append (np : List Str) (d : Str) (o : Str) :
    ∀ f f' : Field, inlineEnumAppend o f = some f' →
      ExpUpd (exportsField np d f) (exportsField np d f') ∧ refsField f' = refsField f
  | .enumInl e rules lr, f', h => by
    simp only [inlineEnumAppend, Option.some.injEq] at h
    subst h
    refine ⟨?_, by simp [refsField]⟩
    simp only [exportsField]
    obtain ⟨pfx, names, names', hk, hk', hsub⟩ :=
      enumTKind_append' { e with name := if e.name = [] then d else e.name } o
    exact ⟨[], [], relName np (if e.name = [] then d else e.name), pfx, names, names',
      by simp [hk], by simpa using congrArg (fun t => [(relName np (if e.name = [] then d else e.name), t)]) hk', hsub⟩
  | .array items r, f', h => by
    simp only [inlineEnumAppend] at h
    obtain ⟨i', hi, rfl⟩ := Option.map_eq_some_iff.mp h
    have := exportsField_enum_append np d o items i' hi
    simpa [exportsField, refsField] using this
  | .map items r, f', h => by
    simp only [inlineEnumAppend] at h
    obtain ⟨i', hi, rfl⟩ := Option.map_eq_some_iff.mp h
    have := exportsField_enum_append np d o items i' hi
    simpa [exportsField, refsField] using this
  | .string _ _, _, h => by simp [inlineEnumAppend] at h
  | .bool _ _, _, h => by simp [inlineEnumAppend] at h
  | .bytes _, _, h => by simp [inlineEnumAppend] at h
  | .date _ _, _, h => by simp [inlineEnumAppend] at h
  | .decimal _ _, _, h => by simp [inlineEnumAppend] at h
  | .timestamp _, _, h => by simp [inlineEnumAppend] at h
  | .any, _, h => by simp [inlineEnumAppend] at h
  | .integer _ _ _, _, h => by simp [inlineEnumAppend] at h
  | .float _ _ _, _, h => by simp [inlineEnumAppend] at h
  | .key _ _ _ _, _, h => by simp [inlineEnumAppend] at h
  | .objectRef _ _ _ _, _, h => by simp [inlineEnumAppend] at h
  | .objectInl _ _ _ _, _, h => by simp [inlineEnumAppend] at h
  | .oneofRef _ _ _ _, _, h => by simp [inlineEnumAppend] at h
  | .oneofInl _ _ _ _, _, h => by simp [inlineEnumAppend] at h
  | .enumRef _ _ _ _, _, h => by simp [inlineEnumAppend] at h

theorem editProps_opt_exports (o : Str) :
    ∀ (path : List PStep) (ps ps' : List Property), editProps (.option o) path ps = some ps' →
      ∀ np, ExpUpd (exportsProps np ps) (exportsProps np ps') ∧ refsProps ps' = refsProps ps := by
  intro path
  induction path with
  | nil => intro ps ps' h; simp [editProps] at h
  | cons st rest ih =>
    intro ps ps' h np
    cases st with
    | prop j =>
      simp only [editProps] at h
      obtain ⟨a, a', h1, hf, h2, h3⟩ := setAt_some _ _ _ _ h
      have key : ExpUpd (exportsProperty np a) (exportsProperty np a') ∧ refsProperty a' = refsProperty a := by
        cases a with
        | mk nm r0 o0 f =>
          simp only [] at hf
          cases hin : inlineProps f with
          | none =>
            simp only [hin] at hf
            cases rest with
            | nil =>
              simp only [] at hf
              obtain ⟨f', hf', rfl⟩ := Option.map_eq_some_iff.mp hf
              simpa [exportsProperty, refsProperty] using exportsField_enum_append np (toCamel nm) o f f' hf'
            | cons s2 r2 => simp at hf
          | some pk =>
            obtain ⟨qs, k⟩ := pk
            simp only [hin] at hf
            obtain ⟨qs', hq, rfl⟩ := Option.map_eq_some_iff.mp hf
            obtain ⟨inm, hd, _, hn2, hn3, hn4⟩ := exportsField_inline np (toCamel nm) f qs k hin
            obtain ⟨hu, hr⟩ := ih qs qs' hq (np ++ [inm])
            simp only [exportsProperty, refsProperty, hn2, hn3, (hn4 qs').1, (hn4 qs').2, hr]
            have := hu.wrap [hd] []
            exact ⟨by simpa using this, trivial⟩
      rw [h1, h2]
      simp only [exportsProps_append, refsProps_append, exportsProps_single, refsProps_single, key.2]
      exact ⟨key.1.wrap _ _, trivial⟩
    | el i => simp [editProps] at h
    | nest k => simp [editProps] at h
    | method m => simp [editProps] at h
    | req => simp [editProps] at h
    | res => simp [editProps] at h
    | msg m => simp [editProps] at h
    | reqm m => simp [editProps] at h
    | repm m => simp [editProps] at h
    | edata => simp [editProps] at h
    | estatus => simp [editProps] at h
    | event k => simp [editProps] at h
    | command c => simp [editProps] at h
    | summary s => simp [editProps] at h

theorem editDecl_opt_exports (o : Str) :
    ∀ (path : List PStep) (d d' : ObjDecl), editDecl (.option o) path d = some d' →
      ∀ np io, ExpUpd (exportsDecl np io d) (exportsDecl np io d') ∧ refsDecl d' = refsDecl d := by
  intro path
  induction path with
  | nil =>
    intro d d' h
    cases d with
    | mk n ps ne psm => simp [editDecl, editProps] at h
  | cons st rest ih =>
    intro d d' h np io
    cases d with
    | mk n ps ne psm =>
      cases st with
      | prop j =>
        simp only [editDecl] at h
        obtain ⟨ps', hq, rfl⟩ := Option.map_eq_some_iff.mp h
        obtain ⟨hu, hr⟩ := editProps_opt_exports o _ ps ps' hq (np ++ [n])
        have := hu.wrap [(relName np n, .message io)] (exportsNested (np ++ [n]) ne)
        simp only [exportsDecl, refsDecl, hr]
        exact ⟨by simpa using this, trivial⟩
      | nest k =>
        simp only [editDecl] at h
        obtain ⟨ne', hq, rfl⟩ := Option.map_eq_some_iff.mp h
        obtain ⟨x, x', h1, hf, h2, h3⟩ := setAt_some _ _ _ _ hq
        generalize List.take k ne = L1 at h1 h2 h3
        generalize List.drop (k + 1) ne = L2 at h1 h2
        subst h1
        subst h2
        have hmid : ExpUpd (exportsNested (np ++ [n]) [x]) (exportsNested (np ++ [n]) [x']) ∧
            refsNested [x'] = refsNested [x] := by
          cases x with
          | object o1 =>
            simp only [] at hf
            obtain ⟨o1', ho, rfl⟩ := Option.map_eq_some_iff.mp hf
            simpa [exportsNested, refsNested] using ih o1 o1' ho (np ++ [n]) false
          | oneof o1 =>
            simp only [] at hf
            obtain ⟨o1', ho, rfl⟩ := Option.map_eq_some_iff.mp hf
            simpa [exportsNested, refsNested] using ih o1 o1' ho (np ++ [n]) true
          | enum e =>
            simp only [] at hf
            cases rest with
            | nil =>
              simp only [editEnum, Option.map_some, Option.some.injEq] at hf
              subst hf
              obtain ⟨pfx, names, names', hk, hk', hsub⟩ := enumTKind_append' e o
              refine ⟨⟨[], [], relName (np ++ [n]) e.name, pfx, names, names', ?_, ?_, hsub⟩, by simp [refsNested]⟩
              · simp [exportsNested, hk]
              · simp [exportsNested, hk']
            | cons s2 r2 => simp [editEnum] at hf
        have e1 : ∀ y, exportsNested (np ++ [n]) (L1 ++ [y] ++ L2) =
            exportsNested (np ++ [n]) L1 ++ exportsNested (np ++ [n]) [y] ++ exportsNested (np ++ [n]) L2 := by
          intro y; rw [exportsNested_append, exportsNested_append]
        have r1 : ∀ y, refsNested (L1 ++ [y] ++ L2) = refsNested L1 ++ refsNested [y] ++ refsNested L2 := by
          intro y; rw [refsNested_append, refsNested_append]
        have := (hmid.1.wrap (exportsNested (np ++ [n]) L1) (exportsNested (np ++ [n]) L2)).wrap
          ((relName np n, .message io) :: exportsProps (np ++ [n]) ps) []
        simp only [exportsDecl, refsDecl, e1, r1, hmid.2]
        refine ⟨?_, trivial⟩
        simp only [List.append_assoc, List.cons_append, List.nil_append, List.append_nil] at this ⊢
        exact this
      | el i => simp [editDecl] at h
      | method m => simp [editDecl] at h
      | req => simp [editDecl] at h
      | res => simp [editDecl] at h
      | msg m => simp [editDecl] at h
      | reqm m => simp [editDecl] at h
      | repm m => simp [editDecl] at h
      | edata => simp [editDecl] at h
      | estatus => simp [editDecl] at h
      | event k => simp [editDecl] at h
      | command c => simp [editDecl] at h
      | summary s => simp [editDecl] at h

end J5V.Compile
