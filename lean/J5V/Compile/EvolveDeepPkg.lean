import J5V.Compile.EvolveDeepDecl
/-!
# A field appended at any depth of a top-level object / oneof, package level (C13) — core only
-/
namespace J5V.Compile
open J5V.Go

/-! ## `replace_elems_pkg` / `replace_elems_compile` for any reflexive relation on files -/

theorem replace_elems_pkg_R (R : FileSkel → FileSkel → Prop) (hR : ∀ f, R f f)
    (b b' : Bundle) (name : Str) (p : Pkg) (fuel : Nat) (chain : List Str)
    (pre post : List SrcFile) (path : Str) (imports : List Import) (elems elems' : List Elem)
    (decl : Str) (hp : p.files = pre ++ [.j5s path imports elems decl] ++ post)
    (hf : b.find name = some p)
    (hf' : b'.find name = some { p with files := pre ++ [.j5s path imports elems' decl] ++ post })
    (hother : ∀ n, n ≠ name → b.find n = b'.find n)
    (l l' : Loaded) (hl : loadPkg b (fuel + 1) chain name = .ok l)
    (hl' : loadPkg b' (fuel + 1) chain name = .ok l')
    (P : Str → Prop)
    (hsum : ∀ s s', sourceSummary path imports elems = .ok s →
      sourceSummary path imports elems' = .ok s' →
      (∀ (X Y : List (Str × TypeRef)) k, P k →
        mapGet (X ++ s'.exports ++ Y) k = mapGet (X ++ s.exports ++ Y) k) ∧
      (∀ x ∈ s.depPkgs, x ∈ s'.depPkgs))
    (hP : ∀ f ∈ p.files, ∀ r ∈ srcFileRefs f, r.2 ∈ l.exports.map (·.1) → P r.2)
    (hconv : ∀ res fs fs', convertFile res path imports elems = .ok fs →
      convertFile res path imports elems' = .ok fs' → ∀ f ∈ fs, ∃ f' ∈ fs', R f f') :
    ∀ f ∈ l.files, ∃ f' ∈ l'.files, R f f' :=
  replace_file_pkg R hR b b' name p _ l l' fuel fuel chain chain hf hf'
    hl hl' pre post _ _ hp rfl
    (agree_of_replace b b' name p fuel chain pre post path imports elems elems' decl hp hf hf' hother
      l l' hl hl' P hsum hP)
    (convOf_rel l'.resolver path imports elems elems' decl R (hconv l'.resolver))

theorem replace_elems_compile_R (R : FileSkel → FileSkel → Prop) (hR : ∀ f, R f f)
    (b b' : Bundle) (pkg : Str) (p : Pkg)
    (pre post : List SrcFile) (path : Str) (imports : List Import) (elems elems' : List Elem)
    (decl : Str) (hp : p.files = pre ++ [.j5s path imports elems decl] ++ post)
    (hf : b.find pkg = some p)
    (hf' : b'.find pkg = some { p with files := pre ++ [.j5s path imports elems' decl] ++ post })
    (hother : ∀ n, n ≠ pkg → b.find n = b'.find n) (hlen : b'.pkgs.length = b.pkgs.length)
    (fs fs' : List FileSkel) (h : compilePkg b pkg = .ok fs) (h' : compilePkg b' pkg = .ok fs')
    (P : Str → Prop)
    (hsum : ∀ s s', sourceSummary path imports elems = .ok s →
      sourceSummary path imports elems' = .ok s' →
      (∀ (X Y : List (Str × TypeRef)) k, P k →
        mapGet (X ++ s'.exports ++ Y) k = mapGet (X ++ s.exports ++ Y) k) ∧
      (∀ x ∈ s.depPkgs, x ∈ s'.depPkgs))
    (hP : ∀ f ∈ p.files, ∀ r ∈ srcFileRefs f,
      r.2 ∈ (p.files.map sumOf).flatMap (fun s => s.exports.map (·.1)) → P r.2)
    (hconv : ∀ res fs fs', convertFile res path imports elems = .ok fs →
      convertFile res path imports elems' = .ok fs' → ∀ f ∈ fs, ∃ f' ∈ fs', R f f') :
    ∀ f ∈ fs, ∃ f' ∈ fs', R f f' := by
  unfold compilePkg at h h'
  rw [hlen] at h'
  cases hld : loadPkg b (b.pkgs.length + 1) [] pkg with
  | err t => simp [hld] at h
  | panic w => simp [hld] at h
  | ok l =>
    cases hld' : loadPkg b' (b.pkgs.length + 1) [] pkg with
    | err t => simp [hld'] at h'
    | panic w => simp [hld'] at h'
    | ok l' =>
      simp only [hld, Outcome.ok.injEq] at h
      simp only [hld', Outcome.ok.injEq] at h'
      subst h; subst h'
      obtain ⟨_, _, hex, _, _⟩ := loadPkg_ok_struct b _ [] pkg p l hf hld
      have hP' : ∀ f ∈ p.files, ∀ r ∈ srcFileRefs f, r.2 ∈ l.exports.map (·.1) → P r.2 := by
        intro f hfm r hr hmem
        apply hP f hfm r hr
        rw [hex, List.map_flatMap] at hmem
        exact hmem
      have := replace_elems_pkg_R R hR b b' pkg p _ [] pre post path imports elems elems' decl hp hf hf'
        hother l l' hld hld' P hsum hP' hconv
      intro f hfm
      obtain ⟨f', hf'm, hle⟩ := this f ((sortFiles_perm_self l.files).mem_iff.mp hfm)
      exact ⟨f', (sortFiles_perm_self l'.files).mem_iff.mpr hf'm, hle⟩

/-! ## the edit on the element list -/

/-- `appendField` with the path `el i :: rest` where the `i`-th element is an object or a oneof -/
theorem editElems_field_decl (prop : Property) (i : Nat) (rest : List PStep) (elems elems' : List Elem)
    (io : Bool) (o : ObjDecl) (hk : elems[i]? = some (declElem io o))
    (h : editElems (.field prop) (.el i :: rest) elems = some elems') :
    ∃ E1 E2 o', elems = E1 ++ [declElem io o] ++ E2 ∧ elems' = E1 ++ [declElem io o'] ++ E2 ∧
      E1.length = i ∧ editDecl (.field prop) rest o = some o' := by
  simp only [editElems] at h
  obtain ⟨a, a', h1, hf, h2, h3⟩ := setAt_some _ _ _ _ h
  have ha : a = declElem io o := by
    have : elems[i]? = some a := by
      rw [h1, List.append_assoc, List.getElem?_append_right (by omega)]
      simp [h3]
    rw [hk] at this
    exact (Option.some.inj this).symm
  subst ha
  cases io with
  | false =>
    simp only [declElem, editElem] at hf
    obtain ⟨o', ho, rfl⟩ := Option.map_eq_some_iff.mp hf
    exact ⟨_, _, o', h1, h2, h3, ho⟩
  | true =>
    simp only [declElem, editElem] at hf
    obtain ⟨o', ho, rfl⟩ := Option.map_eq_some_iff.mp hf
    exact ⟨_, _, o', h1, h2, h3, ho⟩

theorem itemExports_declItem (io : Bool) (o : ObjDecl) :
    itemExports (declItem io o) = exportsDecl [] io o := by cases io <;> rfl

theorem itemRefs_declItem (io : Bool) (o : ObjDecl) : itemRefs (declItem io o) = refsDecl o := by
  cases io <;> rfl

theorem itemMsgs_declItem (c : Ctx) (io : Bool) (o : ObjDecl) :
    itemMsgs c (declItem io o) = (convDecl c [] io [] o).msgs := by
  cases io <;> simp [declItem, itemMsgs, convItem]

/-- names the appended property adds to the export table: its inline types, under the nest path of
the object / oneof / inline type the path ends in -/
def deepFieldExportNames (rest : List PStep) (o : ObjDecl) (prop : Property) : List Str :=
  (exportsProps (declNestPath rest [] o) [prop]).map (·.1)

theorem summary_append_field_deep (path : Str) (imports : List Import) (E1 E2 : List Elem)
    (io : Bool) (o o' : ObjDecl) (rest : List PStep) (prop : Property)
    (he : editDecl (.field prop) rest o = some o') (s s' : Summary')
    (hs : sourceSummary path imports (E1 ++ [declElem io o] ++ E2) = .ok s)
    (hs' : sourceSummary path imports (E1 ++ [declElem io o'] ++ E2) = .ok s') :
    (∀ (X Y : List (Str × TypeRef)) k, k ∉ deepFieldExportNames rest o prop →
      mapGet (X ++ s'.exports ++ Y) k = mapGet (X ++ s.exports ++ Y) k) ∧
    (∀ x ∈ s.depPkgs, x ∈ s'.depPkgs) := by
  obtain ⟨⟨A0, C0, hA, hB⟩, hrefs⟩ := editDecl_exports prop rest o o' he [] io
  apply summary_rel_insert path imports _ _ s s' hs hs'
    ((E1.flatMap (itemsOfElem (packageFromFilename (path ++ b!".proto")))).flatMap itemExports ++ A0)
    (exportsProps (declNestPath rest [] o) [prop])
    (C0 ++ (E2.flatMap (itemsOfElem (packageFromFilename (path ++ b!".proto")))).flatMap itemExports)
  · simp only [List.flatMap_append, List.flatMap_cons, List.flatMap_nil, List.append_nil,
      itemsOfElem_decl, itemExports_declItem, hA, List.append_assoc]
  · simp only [List.flatMap_append, List.flatMap_cons, List.flatMap_nil, List.append_nil,
      itemsOfElem_decl, itemExports_declItem, hB, List.append_assoc]
  · intro r hr
    simp only [List.flatMap_append, List.flatMap_cons, List.flatMap_nil, List.append_nil,
      itemsOfElem_decl, itemRefs_declItem, List.mem_append] at hr ⊢
    rcases hr with (hr | hr) | hr
    · exact Or.inl (Or.inl hr)
    · exact Or.inl (Or.inr (hrefs r hr))
    · exact Or.inr hr

theorem convertFile_append_field_deep (res : Resolver) (path : Str) (imports : List Import)
    (E1 E2 : List Elem) (io : Bool) (o o' : ObjDecl) (rest : List PStep) (prop : Property)
    (he : editDecl (.field prop) rest o = some o') (fs fs' : List FileSkel)
    (h : convertFile res path imports (E1 ++ [declElem io o] ++ E2) = .ok fs)
    (h' : convertFile res path imports (E1 ++ [declElem io o'] ++ E2) = .ok fs') :
    ∀ f ∈ fs, ∃ f' ∈ fs', f.LeDeep f' := by
  apply convertFile_replace_main res path imports _ _ fs fs' h h' MsgsLeDeep EnumsLe MsgsLeDeep.refl
    EnumsLe.refl
  · intro t ht
    have hd : ∀ o, decide ((declItem io o).target = t) = false := by
      intro o; rw [declItem_target]; simpa using fun e => ht e.symm
    simp only [List.flatMap_append, List.flatMap_cons, List.flatMap_nil, List.append_nil,
      itemsOfElem_decl, List.filter_append, List.filter_cons, hd, List.filter_nil]
    simp
  · intro c
    have hd : ∀ o, decide ((declItem io o).target = Target.main) = true := by
      intro o; rw [declItem_target]; simp
    simp only [List.flatMap_append, List.flatMap_cons, List.flatMap_nil, List.append_nil,
      itemsOfElem_decl, List.filter_append, List.filter_cons, hd, List.filter_nil, if_true,
      itemEnums_decl, itemMsgs_declItem]
    refine ⟨?_, EnumsLe.refl _⟩
    exact MsgsLeDeep.append (MsgsLeDeep.append (MsgsLeDeep.refl _)
      (editDecl_deep c prop rest o o' he [] io []).1) (MsgsLeDeep.refl _)

end J5V.Compile
