import J5V.Compile.Convert
/-!
# Walk — declared schemas, services, topics (core only)

Mirrors `sourcewalk/schema.go` (`mapProperties`, `newObjectNode`, `mapNested`,
`RangeNestedSchemas`, `NestPath`, `NameInPackage`), `sourcewalk/service.go`
(`serviceBuilder.accept`) with `j5convert/service.go` (`visitServiceNode`,
`visitServiceMethodNode`), and `sourcewalk/topic.go` (`topicRef.accept`, `acceptTopic`,
`acceptMultiReqResTopic`) with `visitTopicNode` of `j5convert/conversion.go`.
-/
namespace J5V.Compile

/-! ## `mapProperties`: position-based numbering -/

/-- the counter loop of `mapProperties`: `n` is `fieldNumber` before the loop -/
def numberFrom (n : Nat) : List Property → List (Nat × Property)
  | [] => []
  | p :: ps => (n + 1, p) :: numberFrom (n + 1) ps

/-- `mapProperties`: virtual prepends first, then the declared properties, one counter -/
def mapProperties (virt props : List Property) : List (Nat × Property) :=
  numberFrom 0 virt ++ numberFrom virt.length props

/-! ## declared objects / oneofs with nested schemas -/

mutual
/-- `newObjectNode`/`newOneofNode` + `visitObjectNode`/`visitOneofNode` for a declared (or
virtual) schema. `np` is the parent's `NestPath()` (`[]` at top level), `virt` the virtual
prepends. The message is the last entry of `.msgs`; for a oneof its map entries precede it. -/
def convDecl (c : Ctx) (np : List Str) (isOneof : Bool) (virt : List Property) : ObjDecl → Eff
  | .mk name props nested psm =>
    let np' := np ++ [name]
    let vr := bProps c np' isOneof 1 virt
    let pr := bProps c np' isOneof (1 + virt.length) props
    let ne := convNested c np' nested
    let msg := mkMsg name isOneof psm (vr.flds ++ pr.flds)
      (vr.eff.msgs ++ pr.eff.msgs ++ ne.msgs) (vr.eff.enums ++ pr.eff.enums ++ ne.enums)
    { msgs := vr.entries ++ pr.entries ++ [msg],
      imports := (if isOneof then msgEff none else msgEff psm).imports ++ vr.eff.imports
                  ++ pr.eff.imports ++ ne.imports,
      errs := vr.eff.errs + pr.eff.errs + ne.errs,
      panic := vr.eff.panic || pr.eff.panic || ne.panic
                -- `ww.field.name` with `ww.field == nil`
                || (isOneof && name = []),
      uses := (msgEff psm).uses ++ vr.eff.uses ++ pr.eff.uses ++ ne.uses }

/-- `RangeNestedSchemas` -/
def convNested (c : Ctx) (np : List Str) : List Nested → Eff
  | [] => {}
  | .object o :: rest => convDecl c np false [] o ++ convNested c np rest
  | .oneof o :: rest => convDecl c np true [] o ++ convNested c np rest
  | .enum e :: rest => ({ enums := [convEnum e] } : Eff) ++ convNested c np rest
end

/-- a virtual object (`newVirtualObjectNode` / request, response objects): no nested, no parent -/
def convVirtual (c : Ctx) (name : Str) (virt props : List Property) (psm : Option Psm := none) : Eff :=
  convDecl c [] false virt (.mk name props [] psm)

/-! ## services -/

/-- a step of the file walk: effects on one of the (sub-)files, then possibly a walker error
that aborts `RangeRootElements` -/
inductive Target where
  | main | service | topic
  deriving Repr, DecidableEq, Inhabited

structure Step where
  target : Target
  eff : Eff := {}
  svcs : List SvcSkel := []
  hard : Bool := false

/-- `:name` → `{snake_name}` for one path part (visitServiceMethodNode) -/
def rewritePart (part : Str) : Str :=
  match part with
  | 58 :: nm => b!"{" ++ toSnake nm ++ b!"}"
  | _ => part

/-- the path of the HTTP rule: every part rewritten; the second component counts the `addError`
calls: `:name` parts whose field is missing from the request, literal parts with a special
character -/
def rewritePath (reqProps : List Property) (resolved : Str) : Str × Nat :=
  let parts := splitOnByte 47 resolved
  let missing := (parts.filter fun part =>
    match part with
    | 58 :: nm => !(reqProps.any (·.name = nm))
    -- a literal part containing one of `{ } * :` is rejected (`fix: 5ac34d8`)
    | _ => part.any fun c => c = 123 || c = 125 || c = 42 || c = 58).length
  (joinWith b!"/" (parts.map rewritePart), missing)

def verbBody : Verb → Str
  | .get => []
  | _ => b!"*"

/-- `serviceBuilder.accept` for one method: request / response objects and the method node -/
structure MethodWalk where
  eff : Eff
  node : Option (Method × Str × Str × Str)   -- schema, input, output, resolved path; none ⇔ panic

def walkMethod (c : Ctx) (basePath : Option Str) (m : Method) : MethodWalk :=
  match m.request with
  | none => { eff := Eff.panicked, node := none }   -- `method.Request.Properties` on nil
  | some req =>
    let reqName := m.name ++ b!"Request"
    let e1 := convVirtual c reqName [] req
    let (e2, out) : Eff × Str := match m.response with
      | none => ({}, b!"google.api.HttpBody")
      | some res => (convVirtual c (m.name ++ b!"Response") [] res, m.name ++ b!"Response")
    let resolved := match basePath with
      | some bp => pathJoin [bp, m.path]
      | none => m.path
    { eff := e1 ++ e2, node := some (m, reqName, out, resolved) }

/-- `visitServiceMethodNode` -/
def convMethod (node : Method × Str × Str × Str) : Eff × Option MethodSkel :=
  let (m, input, output, resolved) := node
  let e0 := Eff.imp googleApiAnnotationsImport
  let eOpt := Eff.use googleApiAnnotationsImport ++ when (m.mopt ≠ .none) (Eff.use j5ExtImport)
  match m.request with
  | none => (e0 ++ Eff.err, none)
  | some req =>
    let e1 := when (output = b!"google.api.HttpBody") (Eff.imp googleApiHttpBodyImport)
    let (path, missing) := rewritePath req resolved
    let eMissing : Eff := { errs := missing }
    if m.verb = .unspecified then (e0 ++ e1 ++ eMissing ++ Eff.err, none) else
    (e0 ++ e1 ++ eMissing ++ eOpt,
      some { name := m.name, input := input, output := output,
             http := some { verb := m.verb, path := path, body := verbBody m.verb },
             mopt := m.mopt })

/-- `checkListMethod` (`fix:` list-response-shape): the request has a property that refers,
directly, to `j5.list.v1.QueryRequest` -/
def isListRequest (c : Ctx) (req : List Property) : Bool :=
  req.any fun p =>
    match p.schema with
    | .objectRef pkg schema _ _ =>
      match c.resolve pkg schema with
      | some t => t.pkg = b!"j5.list.v1" && t.name = b!"QueryRequest"
      | none => false
    | _ => false

/-- items of the array properties of a property list -/
def arrayItems (ps : List Property) : List Field :=
  ps.filterMap fun p =>
    match p.schema with
    | .array items _ => some items
    | _ => none

/-- the response has exactly one array property, and it holds objects -/
def listShaped : Option (List Property) → Bool
  | none => false
  | some ps =>
    match arrayItems ps with
    | [.objectRef _ _ _ _] => true
    | [.objectInl _ _ _ _] => true
    | _ => false

/-- errors `checkListMethod` adds for a method -/
def listMethodErr (c : Ctx) (m : Method) : Nat :=
  match m.request with
  | some req => if isListRequest c req && !listShaped m.response then 1 else 0
  | none => 0

def soptSkel : SOpt → SvcOpt
  | .none => .none
  | .query e => .query e
  | .command e => .command e

/-- one service of a `ServiceFileNode`: `serviceBuilder.accept` then `visitServiceNode` -/
def convService (c : Ctx) (s : Service) : Step :=
  let walks := s.methods.map (walkMethod c s.basePath)
  let effWalk := walks.foldl (fun e w => e ++ w.eff) ({} : Eff)
  match s.name with
  | none => { target := .service, eff := effWalk, hard := true }   -- "missing service name"
  | some name =>
    let built := walks.filterMap (·.node) |>.map convMethod
    let effBuild := built.foldl (fun e b => e ++ b.1) ({} : Eff)
    { target := .service,
      eff := effWalk ++ effBuild ++ ({ errs := (s.methods.map (listMethodErr c)).sum } : Eff)
              ++ when (s.sopt ≠ .none) (Eff.use j5ExtImport),
      svcs := [{ name := name ++ b!"Service", sopt := soptSkel s.sopt,
                 methods := built.filterMap (·.2) }] }

/-- `ServiceFileNode.Accept`: the sub-file is created first, even without services -/
def convServiceFile (c : Ctx) (services : List Service) : List Step :=
  { target := .service } :: services.map (convService c)

/-! ## topics -/

structure TopicNode where
  name : Str
  msgs : List TopicMsg
  topicName : Str
  role : Role
  entityName : Str := []
  prepend : List Property := []

def metaField (pkg name : Str) : Field := .objectRef pkg name false []

/-- the method / message name `acceptTopic` uses: the given one, or the topic's name when the
topic has a single message; `none` = walker error "method name is required" -/
def topicMethodName (t : TopicNode) (m : TopicMsg) : Option Str :=
  match m.name with
  | some n => some n
  | none => if t.msgs.length = 1 then some t.name else none

/-- `acceptTopic`: one step per message (a missing name aborts before the message is visited),
then the topic service -/
def acceptTopic (c : Ctx) (t : TopicNode) : List Step :=
  let msgSteps : List Step := t.msgs.map fun m =>
    match topicMethodName t m with
    | none => { target := .topic, hard := true }
    | some n => { target := .topic, eff := convVirtual c (n ++ b!"Message") t.prepend m.props }
  let methods : List MethodSkel := t.msgs.filterMap fun m =>
    (topicMethodName t m).map fun n =>
      { name := n, input := n ++ b!"Message", output := googleProtoEmptyType, http := none,
        mopt := .none }
  msgSteps ++
    [{ target := .topic,
       eff := Eff.use messagingAnnotationsImport ++ Eff.imp messagingAnnotationsImport
                ++ Eff.imp googleProtoEmptyImport,
       svcs := [{ name := toCamel t.name ++ b!"Topic",
                  sopt := .topic t.topicName t.role t.entityName, methods := methods }] }]

def requestPrepend : List Property :=
  [.mk b!"request" true false (metaField b!"j5.messaging.v1" b!"RequestMetadata")]

def upsertPrepend : List Property :=
  [.mk b!"upsert" true false (metaField b!"j5.messaging.v1" b!"UpsertMetadata")]

/-- `topicRef.accept`: the `topicNode`s a topic declaration stands for (one, or two for reqres) -/
def topicNodes (t : Topic) : List TopicNode :=
  match t.type with
  | .publish msgs =>
    [{ name := t.name, msgs := msgs, topicName := toSnake t.name, role := .publish }]
  | .reqres reqs reps =>
    [ { name := t.name ++ b!"Request", msgs := reqs, topicName := toSnake t.name,
        role := .request, prepend := requestPrepend },
      { name := t.name ++ b!"Reply", msgs := reps, topicName := toSnake t.name,
        role := .reply, prepend := requestPrepend } ]
  | .event entityName msg =>
    [{ name := t.name, msgs := [msg], topicName := toSnake t.name, role := .event,
       entityName := entityName }]
  | .upsert entityName msg =>
    [{ name := t.name, msgs := [{ msg with name := some (msg.name.getD t.name) }],
       topicName := toSnake t.name, role := .upsert, entityName := entityName,
       prepend := upsertPrepend }]

def convTopic (c : Ctx) (t : Topic) : List Step := (topicNodes t).flatMap (acceptTopic c)

/-- `TopicFileNode.Accept`: sub-file first -/
def convTopicFile (c : Ctx) (topics : List Topic) : List Step :=
  { target := .topic } :: topics.flatMap (convTopic c)

end J5V.Compile
