import J5V.Compile.Imports
import J5V.Compile.Skel
/-!
# Convert — schema level (core only)

Mirrors `sourcewalk/property.go` (`propertyNode.accept`, `buildFieldNode`, `replaceNested*`: inline
types are visited first and replaced by a reference named parent-path + default nesting name) fused
with `j5convert/fields.go` (`buildProperty`, `buildField`, `setJ5Ext`), `j5convert/conversion.go`
(`visitObjectNode`, `visitOneofNode`, `visitEnumNode`, `resolveType`), `j5convert/enum.go` and the
message half of `j5convert/builders.go`.

Effects of the Go visitor are returned, not threaded: an `Eff` lists what a visit adds to its
parent context (`addMessage`, `addEnum`), the `ensureImport` calls on the current file, the number
of `addError` calls and whether a panic is reached. None of the schema-level code returns a Go
`error` that aborts the walk (callbacks return `nil`), so a flag is enough for panics: the final
outcome of a file is `panic` if the flag is set anywhere before a walker error, `err` if any error
was recorded, `ok` otherwise (`Compile.File`).

Go's partial operations on this path, as explicit panic arms:
* (until `fix: 9a528a0`: date / decimal rules passed `*DateField` / `*DecimalField` to
  `proto.SetExtension(…, ext_j5pb.E_Field, …)` — wrong Go type; the repaired code wraps them
  in `FieldOptions`, the arm is gone)
* `ensureImport("")` / `ensureImport(path without "/")` (explicit `panic` in builders.go);
* `ww.field.name` with `ww.field == nil` for a oneof without a name.
-/
namespace J5V.Compile

/-- effects of a visit -/
structure Eff where
  msgs : List MsgSkel := []
  enums : List EnumSkel := []
  imports : List Str := []
  errs : Nat := 0
  panic : Bool := false
  /-- files whose extensions are set on an option message of the current file
  (`proto.SetExtension`): the link step looks each of them up among the file's imports -/
  uses : List Str := []

instance : Inhabited Eff := ⟨{}⟩

def Eff.add (a b : Eff) : Eff :=
  { msgs := a.msgs ++ b.msgs, enums := a.enums ++ b.enums, imports := a.imports ++ b.imports,
    errs := a.errs + b.errs, panic := a.panic || b.panic, uses := a.uses ++ b.uses }

instance : Append Eff := ⟨Eff.add⟩

/-- `fileContext.ensureImport` as seen from the caller: the call, and its two explicit panics -/
def Eff.imp (p : Str) : Eff :=
  { imports := [p], panic := p = [] || !containsByte 47 p }

def Eff.imps (ps : List Str) : Eff := ps.foldl (fun e p => e ++ Eff.imp p) {}

def Eff.err : Eff := { errs := 1 }
/-- an extension defined in file `p` is set -/
def Eff.use (p : Str) : Eff := { uses := [p] }
def Eff.panicked : Eff := { panic := true }

/-- conversion context of one file: `rootContext.resolveTypeNoImport` (import map, implicit
imports, `Package.ResolveType`) as a function of the reference -/
structure Ctx where
  resolve : Str → Str → Option TypeRef

/-- what `buildField` leaves in the descriptor, as far as later code looks at it -/
structure FieldRes where
  type : PType
  typeName : Str := []
  ext : Str := []
  hasValidate : Bool := false       -- (buf.validate.field) is set
  primaryKey : Bool := false        -- (j5.ext.v1.key).primary_key
  deriving Repr, DecidableEq, Inhabited

/-- result of `buildField`: `res = none` ⇔ an error was returned -/
structure BF where
  eff : Eff := {}
  res : Option FieldRes := none
  /-- the part of `eff` that comes from `buildFieldNode` visiting inline types (it happens even
  when `buildField` is never reached, e.g. for an array of arrays) -/
  walk : Eff := {}

instance : Inhabited BF := ⟨{}⟩

/-- `setJ5Ext` on its success path: sets the typed member, imports the extension file -/
def j5Ext : Eff := Eff.imp j5ExtImport ++ Eff.use j5ExtImport

def when (b : Bool) (e : Eff) : Eff := if b then e else {}

/-- list rules: import + `(j5.list.v1.field)` -/
def listRulesEff (lr : Bool) : Eff :=
  when lr (Eff.imp j5ListAnnotationsImport ++ Eff.use j5ListAnnotationsImport)

/-- `(buf.validate.field)` set with its import -/
def validateWithImport (b : Bool) : Eff :=
  when b (Eff.imp bufValidateImport ++ Eff.use bufValidateImport)

/-- `resolveType` for a non-inline reference followed by the kind check of the caller -/
def refField (c : Ctx) (pkg schema : Str) (wantEnum : Bool) : Eff × Option TypeRef :=
  match c.resolve pkg schema with
  | none => ({}, none)
  | some t =>
    -- ensureImport(typeRef.File) happens before the kind check
    if t.kind.isMessage = !wantEnum then (Eff.imp t.file, some t) else (Eff.imp t.file, none)

/-- integer rules: the two "exclusive … requires …" errors of `buildField`.
`exclusiveMinimum = false` given explicitly without `minimum` is rejected (and likewise max). -/
def intRulesErr (rules : Rules) : Bool :=
  let has (n : Str) := rules.any (·.name = n)
  let isFalse (n : Str) := rules.any fun r => r.name = n && r.lit = .bool false
  (isFalse b!"exclusiveMinimum" && !has b!"minimum") ||
    (isFalse b!"exclusiveMaximum" && !has b!"maximum")

def intType : IntFmt → PType
  | .int32 => .int32 | .int64 => .int64 | .uint32 => .uint32 | .uint64 => .uint64

def floatType : FloatFmt → PType
  | .float32 => .float | .float64 => .double

/-- enum rules `in` / `notIn`, as lists of names -/
def enumRuleVals (rules : Rules) : List Str :=
  rules.flatMap fun r =>
    if r.name = b!"in" || r.name = b!"notIn" then
      match r.lit with
      | .strs l => l
      | .str s => [s]
      | _ => []
    else []

def relName (np : List Str) (name : Str) : Str := joinWith b!"." (np ++ [name])

/-- enum value prefix: given, or `SCREAMING_SNAKE(name)_` -/
def enumPrefix (e : EnumDecl) : Str :=
  if e.pfx = [] then toScreamingSnake e.name ++ b!"_" else e.pfx

/-- `enumBuilder.addValue`: the prefix is added unless already there -/
def enumFull (pfx n : Str) : Str := if hasPrefix pfx n then n else pfx ++ n

/-- `strings.TrimPrefix` -/
def trimPrefix (s pfx : Str) : Str := if hasPrefix pfx s then s.drop pfx.length else s

/-- `isExplicitUnspecified` (`fix: 50e59b3`): the option is `UNSPECIFIED` or `<PREFIX>UNSPECIFIED`
(`Enum.Option.number` is 0 for every option of a parsed file) -/
def isExplicitUnspecified (pfx name : Str) : Bool := trimPrefix name pfx = b!"UNSPECIFIED"

/-- values of `visitEnumNode`: implicit `<PREFIX>UNSPECIFIED = 0` (a leading option that is the
explicit zero takes its place), then `idx + 1` -/
def enumValues (pfx : Str) (opts : List Str) : List (Str × Nat) :=
  match opts with
  | first :: rest =>
    if isExplicitUnspecified pfx first then
      (enumFull pfx first, 0) :: rest.zipIdx.map fun (n, i) => (enumFull pfx n, i + 1)
    else
      (pfx ++ b!"UNSPECIFIED", 0) :: opts.zipIdx.map fun (n, i) => (enumFull pfx n, i + 1)
  | [] => [(pfx ++ b!"UNSPECIFIED", 0)]

/-- `visitEnumNode` + `enumBuilder.addValue` -/
def convEnum (e : EnumDecl) : EnumSkel :=
  { name := e.name, values := enumValues (enumPrefix e) e.opts }

/-- the `TypeRef` of an inline / declared enum as `enumTypeRef` builds it: defaulted prefix, the
implicit zero and the value names of `visitEnumNode` -/
def enumTKind (e : EnumDecl) : TKind :=
  .enum (enumPrefix e) ((enumPrefix e ++ b!"UNSPECIFIED") :: (enumValues (enumPrefix e) e.opts).map (·.1))

/-- scalar (non-reference) branches of `buildField` -/
def scalarField : Field → Option BF
  | .string rules lr => some
    { eff := j5Ext ++ validateWithImport (!rules.isEmpty) ++ listRulesEff lr,
      res := some { type := .string, ext := b!"string", hasValidate := !rules.isEmpty } }
  | .bool rules lr => some
    { eff := j5Ext ++ validateWithImport (!rules.isEmpty) ++ listRulesEff lr,
      res := some { type := .bool, ext := b!"bool", hasValidate := !rules.isEmpty } }
  | .bytes rules => some
    { eff := j5Ext ++ validateWithImport (!rules.isEmpty),
      res := some { type := .bytes, ext := b!"bytes", hasValidate := !rules.isEmpty } }
  | .date rules lr => some
    { eff := Eff.imp j5DateImport ++ when (!rules.isEmpty) j5Ext ++ listRulesEff lr,
      res := some { type := .message, typeName := b!".j5.types.date.v1.Date",
                    ext := if rules.isEmpty then [] else b!"date" } }
  | .decimal rules lr => some
    { eff := Eff.imp j5DecimalImport ++ when (!rules.isEmpty) j5Ext ++ listRulesEff lr,
      res := some { type := .message, typeName := b!".j5.types.decimal.v1.Decimal",
                    ext := if rules.isEmpty then [] else b!"decimal" } }
  | .timestamp rules => some
    { eff := Eff.imp pbTimestampImport ++ j5Ext ++ validateWithImport (!rules.isEmpty),
      res := some { type := .message, typeName := b!".google.protobuf.Timestamp",
                    ext := b!"timestamp", hasValidate := !rules.isEmpty } }
  | .any => some
    { eff := Eff.imp j5AnyImport ++ Eff.use j5ExtImport,
      res := some { type := .message, typeName := b!".j5.types.any.v1.Any", ext := b!"any" } }
  | .integer fmt rules lr =>
    if !rules.isEmpty && intRulesErr rules then some { eff := j5Ext } else some
    { eff := j5Ext ++ validateWithImport (!rules.isEmpty) ++ listRulesEff lr,
      res := some { type := intType fmt, ext := b!"integer", hasValidate := !rules.isEmpty } }
  | .float fmt rules lr =>
    if !rules.isEmpty then some {} else some
    { eff := j5Ext ++ listRulesEff lr,
      res := some { type := floatType fmt, ext := b!"float" } }
  | .key fmt ek _ lr => some
    { eff := Eff.imp j5ExtImport ++ j5Ext ++ listRulesEff lr
              ++ validateWithImport (fmt ≠ .none),
      res := some { type := .string, ext := b!"key", hasValidate := fmt ≠ .none,
                    primaryKey := ek.isPrimary } }
  | _ => none

/-- message-typed reference (object / oneof field pointing at a declared type) -/
def msgRefField (c : Ctx) (pkg schema : Str) (ext : Str) (rules : Rules) (lr : Bool) : BF :=
  match refField c pkg schema false with
  | (e, none) => { eff := e }
  | (e, some t) =>
    { eff := e ++ j5Ext ++ validateWithImport (!rules.isEmpty) ++ listRulesEff lr,
      res := some { type := .message, typeName := t.protoTypeName, ext := ext,
                    hasValidate := !rules.isEmpty } }

/-- message-typed field pointing at an inline type already converted (`ref.Inline`) -/
def msgInlField (inner : Eff) (typeName ext : Str) (rules : Rules) (lr : Bool) : BF :=
  { eff := inner ++ j5Ext ++ validateWithImport (!rules.isEmpty) ++ listRulesEff lr,
    res := some { type := .message, typeName := typeName, ext := ext,
                  hasValidate := !rules.isEmpty },
    walk := inner }

/-- enum field once the `EnumRef` is known -/
def enumFieldWith (pre walk : Eff) (typeName : Str) (pfx : Str) (names : List Str) (rules : Rules)
    (lr : Option (List Str)) : BF :=
  if !mapValuesOk pfx names (enumRuleVals rules) then { eff := pre ++ j5Ext, walk := walk } else
  -- `fix: b6c593a`: the default filters of the list rules go through `EnumRef.mapValues` too
  -- (after `(buf.validate.field)` is set and its file imported)
  if !mapValuesOk pfx names (lr.getD []) then
    { eff := pre ++ j5Ext ++ validateWithImport true, walk := walk } else
  { eff := pre ++ j5Ext ++ validateWithImport true ++ listRulesEff lr.isSome,
    res := some { type := .enum, typeName := typeName, ext := b!"enum", hasValidate := true },
    walk := walk }

def objExt (flatten : Bool) : Str := if flatten then b!"object+flatten" else b!"object"

/-- result of converting one property -/
structure PR where
  eff : Eff := {}                 -- inline nested types, imports, errors, panics
  entries : List MsgSkel := []    -- map-entry messages (`ww.parentContext.addMessage(mb)`)
  fld : Option FieldSkel := none  -- `none` ⇔ `buildProperty` returned an error

instance : Inhabited PR := ⟨{}⟩

/-- results of converting a property list -/
structure PRs where
  eff : Eff := {}
  entries : List MsgSkel := []
  flds : List FieldSkel := []

instance : Inhabited PRs := ⟨{}⟩

/-- the tail of `buildProperty` after the type switch: required / optional / names / number -/
def finishProperty (name : Str) (required explicitlyOptional : Bool) (number : Nat)
    (inOneof : Bool) (pre : Eff) (entries : List MsgSkel) (r : FieldRes) (repeated : Bool) : PR :=
  let req := required || r.primaryKey
  let effReq :=
    if req then
      validateWithImport true ++ Eff.imp j5ExtImport
    else {}
  if explicitlyOptional && req then { eff := pre ++ effReq ++ Eff.err, entries := entries } else
  { eff := pre ++ effReq, entries := entries,
    fld := some
      { name := toSnake name, jsonName := name, number := number, type := r.type,
        repeated := repeated, p3opt := explicitlyOptional, typeName := r.typeName,
        oneof := if inOneof then some 0 else none, req := req, ext := r.ext } }

/-- message descriptor of an object / oneof, `blankMessage` + options -/
def mkMsg (name : Str) (isOneof : Bool) (psm : Option Psm) (flds : List FieldSkel)
    (msgs : List MsgSkel) (enums : List EnumSkel) : MsgSkel :=
  .mk name (if isOneof then .oneof else .object) psm flds msgs enums

/-- the map-entry message of `buildProperty` -/
def mkEntry (entryName : Str) (item : FieldRes) : MsgSkel :=
  .mk entryName .mapentry none
    [ { name := b!"key", jsonName := [], number := 1, type := .string, repeated := false,
        p3opt := false, typeName := [], oneof := none, req := false, ext := [] },
      { name := b!"value", jsonName := [], number := 2, type := item.type, repeated := false,
        p3opt := false, typeName := item.typeName, oneof := none, req := false, ext := item.ext } ]
    [] []

/-- imports that `visitObjectNode` / `visitOneofNode` add for the message itself -/
def msgEff (psm : Option Psm) : Eff :=
  when psm.isSome (Eff.imp j5ExtImport) ++ Eff.imp j5ExtImport ++ Eff.use j5ExtImport

mutual
/-- `buildFieldNode` (visits inline types) followed by `buildField`.
`np` = `NestPath()` of the message that owns the property; `defName` = default nesting name. -/
def bField (c : Ctx) (np : List Str) (defName : Str) : Field → BF
  | .objectRef pkg schema flatten rules => msgRefField c pkg schema (objExt flatten) rules false
  | .oneofRef pkg schema rules lr => msgRefField c pkg schema b!"oneof" rules lr
  | .enumRef pkg schema rules lr =>
    match refField c pkg schema true with
    | (e, none) => { eff := e }
    | (e, some t) =>
      match t.kind with
      | .enum pfx names => enumFieldWith e {} t.protoTypeName pfx names rules lr
      | .message _ => { eff := e }
  | .objectInl name props flatten rules =>
    let nm := if name = [] then defName else name
    let inner := bProps c (np ++ [nm]) false 1 props
    let msg := mkMsg nm false none inner.flds inner.eff.msgs inner.eff.enums
    let e : Eff := { msgs := [msg], imports := (msgEff none).imports ++ inner.eff.imports,
                     errs := inner.eff.errs, panic := inner.eff.panic,
                     uses := (msgEff none).uses ++ inner.eff.uses }
    msgInlField e (relName np nm) (objExt flatten) rules false
  | .oneofInl name props rules lr =>
    let nm := if name = [] then defName else name
    let inner := bProps c (np ++ [nm]) true 1 props
    let msg := mkMsg nm true none inner.flds inner.eff.msgs inner.eff.enums
    -- map entries of a oneof go to the oneof's own parent context, before the oneof message
    let e : Eff := { msgs := inner.entries ++ [msg],
                     imports := (msgEff none).imports ++ inner.eff.imports,
                     errs := inner.eff.errs, panic := inner.eff.panic,
                     uses := (msgEff none).uses ++ inner.eff.uses }
    msgInlField e (relName np nm) b!"oneof" rules lr
  | .enumInl e rules lr =>
    let e' : EnumDecl := if e.name = [] then { e with name := defName } else e
    match enumTKind e' with
    | .enum pfx names =>
      enumFieldWith { enums := [convEnum e'] } { enums := [convEnum e'] } (relName np e'.name) pfx
        names rules lr
    | .message _ => {}
  | .array items _ =>
    -- `buildFieldNode` still visits inline types below; `buildField` then fails
    let inner := bField c np defName items
    { eff := inner.walk, walk := inner.walk }
  | .map items _ =>
    let inner := bField c np defName items
    { eff := inner.walk, walk := inner.walk }
  | f => (scalarField f).getD {}

/-- `propertyNode.accept` + `buildProperty` -/
def bProperty (c : Ctx) (np : List Str) (inOneof : Bool) (number : Nat) : Property → PR
  | .mk name required explicitlyOptional schema =>
    let defName := toCamel name
    match schema with
    | .map items mrules =>
      let item := bField c np defName items
      match item.res with
      | none => { eff := item.eff ++ Eff.err }
      | some r =>
        let entryName := mapName (toSnake name)
        -- `fix: d9448b1`: like an array, the map field carries `(j5.ext.v1.field).map` and, when
        -- the value has a `(buf.validate.field)` or the map has rules, `map` rules wrapping it
        let hv := r.hasValidate || !mrules.isEmpty
        let eff := item.eff ++ j5Ext ++ validateWithImport hv
        finishProperty name required explicitlyOptional number inOneof eff
          [mkEntry entryName r]
          { type := .message, typeName := entryName, ext := b!"map", hasValidate := hv } true
    | .array items arules =>
      let item := bField c np defName items
      match item.res with
      | none => { eff := item.eff ++ Eff.err }
      | some r =>
        -- repeated rules wrap the item's (buf.validate.field) when it has one or the array has rules
        let hv := r.hasValidate || !arules.isEmpty
        let eff := item.eff ++ j5Ext ++ validateWithImport hv
        finishProperty name required explicitlyOptional number inOneof eff []
          { r with ext := b!"array", hasValidate := hv } true
    | f =>
      let b := bField c np defName f
      match b.res with
      | none => { eff := b.eff ++ Eff.err }
      | some r => finishProperty name required explicitlyOptional number inOneof b.eff [] r false

/-- `RangeProperties` with the `Property` callback of `visitObjectNode` / `visitOneofNode`;
`number` is the field number of the first property (`mapProperties` counts from 1) -/
def bProps (c : Ctx) (np : List Str) (inOneof : Bool) (number : Nat) : List Property → PRs
  | [] => {}
  | p :: ps =>
    let r := bProperty c np inOneof number p
    let rs := bProps c np inOneof (number + 1) ps
    -- in an object the map entry lands in the message itself, right after the property's inline
    -- types; in a oneof it is handed to the enclosing context (`buildProperty(ww, …)`)
    { eff := (if inOneof then r.eff else { r.eff with msgs := r.eff.msgs ++ r.entries }) ++ rs.eff,
      entries := (if inOneof then r.entries else []) ++ rs.entries,
      flds := (match r.fld with | some f => [f] | none => []) ++ rs.flds }
end

end J5V.Compile
