import J5V.Compile.ExactProofs
import J5V.Compile.UsesFile
/-!
# Every reference of an accepted file resolves, and its declaring file is imported (core only)

If a property list converts without recording an error, every type reference in it (at any
depth: inline objects / oneofs, array and map items) is resolved by the conversion context and the
file that declares the referenced type is handed to `ensureImport`. Lifted through declarations,
services, topics and entities to the files `ConvertJ5File` returns: the declaring file is among
the dependencies of the generated file that holds the reference (or is that file).
-/
namespace J5V.Compile
open J5V.Go

/-- the reference resolves and the declaring file is among `imps` -/
def RefOk (c : Ctx) (imps : List Str) (r : Str × Str) : Prop :=
  ∃ t, c.resolve r.1 r.2 = some t ∧ t.file ∈ imps

theorem RefOk.mono {c : Ctx} {a b : List Str} {r : Str × Str} (h : RefOk c a r)
    (hab : ∀ x ∈ a, x ∈ b) : RefOk c b r := by
  obtain ⟨t, h1, h2⟩ := h
  exact ⟨t, h1, hab _ h2⟩

@[simp] theorem Eff.add_errs (a b : Eff) : (Eff.add a b).errs = a.errs + b.errs := rfl
@[simp] theorem Eff.add_imports (a b : Eff) : (Eff.add a b).imports = a.imports ++ b.imports := rfl

theorem refField_ok (c : Ctx) (pkg schema : Str) (we : Bool) (t : TypeRef)
    (h : (refField c pkg schema we).2 = some t) :
    c.resolve pkg schema = some t ∧ t.file ∈ (refField c pkg schema we).1.imports := by
  unfold refField at h ⊢
  cases hr : c.resolve pkg schema with
  | none => simp [hr] at h
  | some t' =>
    simp only [hr] at h ⊢
    split at h
    · simp only [Option.some.injEq] at h
      subst h
      rename_i hk
      simp [hk, Eff.imp]
    · cases h

theorem msgRefField_ok (c : Ctx) (pkg schema ext : Str) (rules : Rules) (lr : Bool)
    (h : (msgRefField c pkg schema ext rules lr).res.isSome = true) :
    RefOk c (msgRefField c pkg schema ext rules lr).eff.imports (pkg, schema) := by
  unfold msgRefField at h ⊢
  cases hr : refField c pkg schema false with
  | mk e o =>
    cases o with
    | none => simp [hr] at h
    | some t =>
      have := refField_ok c pkg schema false t (by rw [hr])
      rw [hr] at this
      simp only []
      exact ⟨t, this.1, by simp [this.2]⟩

theorem enumFieldWith_imports (pre walk : Eff) (tn pfx : Str) (names : List Str) (rules : Rules)
    (lr : Option (List Str)) : ∀ x ∈ pre.imports,
      x ∈ (enumFieldWith pre walk tn pfx names rules lr).eff.imports := by
  intro x hx
  unfold enumFieldWith
  split
  · simp [hx]
  · split <;> simp [hx]

theorem finishProperty_errs (name : Str) (req opt : Bool) (number : Nat) (io : Bool) (pre : Eff)
    (entries : List MsgSkel) (r : FieldRes) (rep : Bool) :
    pre.errs ≤ (finishProperty name req opt number io pre entries r rep).eff.errs := by
  unfold finishProperty
  simp only []
  split <;> split <;> simp [validateWithImport, Compile.when, Eff.imp, Eff.use, Eff.err]

theorem finishProperty_imports (name : Str) (req opt : Bool) (number : Nat) (io : Bool) (pre : Eff)
    (entries : List MsgSkel) (r : FieldRes) (rep : Bool) :
    ∀ x ∈ pre.imports, x ∈ (finishProperty name req opt number io pre entries r rep).eff.imports := by
  intro x hx
  unfold finishProperty
  simp only []
  split <;> split <;> simp [hx]

/-- what a property that converted without error tells about `buildField` below it -/
theorem bProperty_ok (c : Ctx) (np : List Str) (io : Bool) (n : Nat) (name : Str)
    (req opt : Bool) (schema : Field)
    (h : (bProperty c np io n (.mk name req opt schema)).eff.errs = 0) :
    (bField c np (toCamel name) (builtField schema)).res.isSome = true ∧
    (bField c np (toCamel name) (builtField schema)).eff.errs = 0 ∧
    ∀ x ∈ (bField c np (toCamel name) (builtField schema)).eff.imports,
      x ∈ (bProperty c np io n (.mk name req opt schema)).eff.imports := by
  unfold bProperty at h ⊢
  cases schema <;> dsimp only [builtField] at h ⊢ <;>
    (split at h
     · simp [Eff.err] at h
     · rename_i r hr
       have h1 := Nat.le_trans (finishProperty_errs name req opt n io _ _ _ _) (Nat.le_of_eq h)
       refine ⟨by rw [hr]; rfl, ?_, ?_⟩
       · first | omega | (simp at h1; omega)
       · intro x hx
         exact finishProperty_imports _ _ _ _ _ _ _ _ _ x (by simp [hx]))

theorem refsProperty_built (name : Str) (req opt : Bool) (schema : Field) :
    refsProperty (.mk name req opt schema) = refsField (builtField schema) := by
  cases schema <;> simp [refsProperty, refsField, builtField]

mutual
theorem bField_refs (c : Ctx) (np : List Str) (d : Str) :
    ∀ f : Field, (bField c np d f).res.isSome = true → (bField c np d f).eff.errs = 0 →
      ∀ r ∈ refsField f, RefOk c (bField c np d f).eff.imports r
  | .objectRef pkg schema fl rules, hs, _ => by
    intro r hr
    simp only [refsField, List.mem_singleton] at hr
    subst hr
    rw [bField] at hs ⊢
    exact msgRefField_ok c pkg schema _ rules false hs
  | .oneofRef pkg schema rules lr, hs, _ => by
    intro r hr
    simp only [refsField, List.mem_singleton] at hr
    subst hr
    rw [bField] at hs ⊢
    exact msgRefField_ok c pkg schema _ rules lr hs
  | .enumRef pkg schema rules lr, hs, _ => by
    intro r hr
    simp only [refsField, List.mem_singleton] at hr
    subst hr
    rw [bField] at hs ⊢
    cases hrf : refField c pkg schema true with
    | mk e o =>
      rw [hrf] at hs
      cases o with
      | none => simp at hs
      | some t =>
        have hok := refField_ok c pkg schema true t (by rw [hrf])
        rw [hrf] at hok
        simp only [] at hs ⊢
        cases hk : t.kind with
        | message o => simp [hk] at hs
        | enum pfx names =>
          simp only [hk] at hs ⊢
          exact ⟨t, hok.1, enumFieldWith_imports _ _ _ _ _ _ _ _ hok.2⟩
  | .objectInl name props fl rules, _, he => by
    intro r hr
    rw [bField] at he ⊢
    simp only [msgInlField] at he ⊢
    have hin : (bProps c (np ++ [if name = [] then d else name]) false 1 props).eff.errs = 0 := by
      simp at he; omega
    have := bProps_refs c (np ++ [if name = [] then d else name]) false 1 props hin r
      (by simpa [refsField] using hr)
    exact this.mono (by intro x hx; simp [hx])
  | .oneofInl name props rules lr, _, he => by
    intro r hr
    rw [bField] at he ⊢
    simp only [msgInlField] at he ⊢
    have hin : (bProps c (np ++ [if name = [] then d else name]) true 1 props).eff.errs = 0 := by
      simp at he; omega
    have := bProps_refs c (np ++ [if name = [] then d else name]) true 1 props hin r
      (by simpa [refsField] using hr)
    exact this.mono (by intro x hx; simp [hx])
  | .enumInl e rules lr, _, _ => by intro r hr; simp [refsField] at hr
  | .array items rules, hs, _ => by rw [bField] at hs; simp at hs
  | .map items rules, hs, _ => by rw [bField] at hs; simp at hs
  | .string rules lr, _, _ => by intro r hr; simp [refsField] at hr
  | .bool rules lr, _, _ => by intro r hr; simp [refsField] at hr
  | .bytes rules, _, _ => by intro r hr; simp [refsField] at hr
  | .date rules lr, _, _ => by intro r hr; simp [refsField] at hr
  | .decimal rules lr, _, _ => by intro r hr; simp [refsField] at hr
  | .timestamp rules, _, _ => by intro r hr; simp [refsField] at hr
  | .any, _, _ => by intro r hr; simp [refsField] at hr
  | .integer fmt rules lr, _, _ => by intro r hr; simp [refsField] at hr
  | .float fmt rules lr, _, _ => by intro r hr; simp [refsField] at hr
  | .key fmt ek rules lr, _, _ => by intro r hr; simp [refsField] at hr

theorem bProperty_refs (c : Ctx) (np : List Str) (io : Bool) (n : Nat) :
    ∀ p : Property, (bProperty c np io n p).eff.errs = 0 →
      ∀ r ∈ refsProperty p, RefOk c (bProperty c np io n p).eff.imports r
  | .mk name req opt schema, h => by
    obtain ⟨h1, h2, h3⟩ := bProperty_ok c np io n name req opt schema h
    intro r hr
    rw [refsProperty_built] at hr
    have : RefOk c (bField c np (toCamel name) (builtField schema)).eff.imports r := by
      cases schema with
      | map items rules => exact bField_refs c np (toCamel name) items h1 h2 r hr
      | array items rules => exact bField_refs c np (toCamel name) items h1 h2 r hr
      | string rules lr => simp [builtField, refsField] at hr
      | bool rules lr => simp [builtField, refsField] at hr
      | bytes rules => simp [builtField, refsField] at hr
      | date rules lr => simp [builtField, refsField] at hr
      | decimal rules lr => simp [builtField, refsField] at hr
      | timestamp rules => simp [builtField, refsField] at hr
      | any => simp [builtField, refsField] at hr
      | integer fmt rules lr => simp [builtField, refsField] at hr
      | float fmt rules lr => simp [builtField, refsField] at hr
      | key fmt ek rules lr => simp [builtField, refsField] at hr
      | objectRef pkg sc fl rules => exact bField_refs c np (toCamel name) _ h1 h2 r hr
      | objectInl nm props fl rules => exact bField_refs c np (toCamel name) _ h1 h2 r hr
      | oneofRef pkg sc rules lr => exact bField_refs c np (toCamel name) _ h1 h2 r hr
      | oneofInl nm props rules lr => exact bField_refs c np (toCamel name) _ h1 h2 r hr
      | enumRef pkg sc rules lr => exact bField_refs c np (toCamel name) _ h1 h2 r hr
      | enumInl e rules lr => simp [builtField, refsField] at hr
    exact this.mono h3

theorem bProps_refs (c : Ctx) (np : List Str) (io : Bool) (n : Nat) :
    ∀ ps : List Property, (bProps c np io n ps).eff.errs = 0 →
      ∀ r ∈ refsProps ps, RefOk c (bProps c np io n ps).eff.imports r
  | [], _ => by intro r hr; simp [refsProps] at hr
  | p :: ps, h => by
    rw [bProps_cons] at h ⊢
    simp only [] at h ⊢
    have he : (bProperty c np io n p).eff.errs = 0 ∧ (bProps c np io (n + 1) ps).eff.errs = 0 := by
      cases io <;> simp at h <;> omega
    intro r hr
    simp only [refsProps, List.mem_append] at hr
    rcases hr with hr | hr
    · exact (bProperty_refs c np io n p he.1 r hr).mono (by intro x hx; cases io <;> simp [hx])
    · exact (bProps_refs c np io (n + 1) ps he.2 r hr).mono (by intro x hx; cases io <;> simp [hx])
end

/-! ## declarations -/

mutual
theorem convDecl_refs (c : Ctx) (np : List Str) (io : Bool) (virt : List Property) :
    ∀ o : ObjDecl, (convDecl c np io virt o).errs = 0 →
      ∀ r ∈ refsProps virt ++ refsDecl o, RefOk c (convDecl c np io virt o).imports r
  | .mk name props nested psm, h => by
    rw [convDecl] at h ⊢
    simp only [] at h ⊢
    have h1 : (bProps c (np ++ [name]) io 1 virt).eff.errs = 0 := by omega
    have h2 : (bProps c (np ++ [name]) io (1 + virt.length) props).eff.errs = 0 := by omega
    have h3 : (convNested c (np ++ [name]) nested).errs = 0 := by omega
    intro r hr
    simp only [refsDecl, List.mem_append] at hr
    rcases hr with hr | hr | hr
    · exact (bProps_refs c _ io 1 virt h1 r hr).mono (by intro x hx; simp [hx])
    · exact (bProps_refs c _ io _ props h2 r hr).mono (by intro x hx; simp [hx])
    · exact (convNested_refs c _ nested h3 r hr).mono (by intro x hx; simp [hx])
theorem convNested_refs (c : Ctx) (np : List Str) :
    ∀ ns : List Nested, (convNested c np ns).errs = 0 →
      ∀ r ∈ refsNested ns, RefOk c (convNested c np ns).imports r
  | [], _ => by intro r hr; simp [refsNested] at hr
  | .object o :: rest, h => by
    rw [convNested] at h ⊢
    have h1 : (convDecl c np false [] o).errs = 0 := by simp at h; omega
    have h2 : (convNested c np rest).errs = 0 := by simp at h; omega
    intro r hr
    simp only [refsNested, List.mem_append] at hr
    rcases hr with hr | hr
    · exact (convDecl_refs c np false [] o h1 r (by simp [refsProps, hr])).mono
        (by intro x hx; simp [hx])
    · exact (convNested_refs c np rest h2 r hr).mono (by intro x hx; simp [hx])
  | .oneof o :: rest, h => by
    rw [convNested] at h ⊢
    have h1 : (convDecl c np true [] o).errs = 0 := by simp at h; omega
    have h2 : (convNested c np rest).errs = 0 := by simp at h; omega
    intro r hr
    simp only [refsNested, List.mem_append] at hr
    rcases hr with hr | hr
    · exact (convDecl_refs c np true [] o h1 r (by simp [refsProps, hr])).mono
        (by intro x hx; simp [hx])
    · exact (convNested_refs c np rest h2 r hr).mono (by intro x hx; simp [hx])
  | .enum e :: rest, h => by
    rw [convNested] at h ⊢
    have h2 : (convNested c np rest).errs = 0 := by simp at h; omega
    intro r hr
    simp only [refsNested] at hr
    exact (convNested_refs c np rest h2 r hr).mono (by intro x hx; simp [hx])
end

theorem convVirtual_refs (c : Ctx) (name : Str) (virt props : List Property) (psm : Option Psm)
    (h : (convVirtual c name virt props psm).errs = 0) :
    ∀ r ∈ refsProps (virt ++ props), RefOk c (convVirtual c name virt props psm).imports r := by
  intro r hr
  unfold convVirtual at h ⊢
  apply convDecl_refs c [] false virt _ h r
  rw [refsProps_append] at hr
  simpa [refsDecl, refsNested] using hr

/-! ## folds -/

theorem foldl_eff_imports {α : Type} (f : α → Eff) (l : List α) (init : Eff) :
    (l.foldl (fun e a => e ++ f a) init).imports = init.imports ++ l.flatMap fun a => (f a).imports := by
  induction l generalizing init with
  | nil => simp
  | cons a rest ih =>
    simp only [List.foldl_cons, List.flatMap_cons]
    rw [ih]
    simp

theorem sum_eq_zero_mem {l : List Nat} (h : l.sum = 0) : ∀ a ∈ l, a = 0 := by
  induction l with
  | nil => intro a ha; cases ha
  | cons b rest ih =>
    simp only [List.sum_cons] at h
    intro a ha
    rcases List.mem_cons.mp ha with rfl | ha
    · omega
    · exact ih (by omega) a ha

/-! ## services -/

theorem walkMethod_refs (c : Ctx) (bp : Option Str) (m : Method)
    (hp : (walkMethod c bp m).eff.panic = false) (he : (walkMethod c bp m).eff.errs = 0) :
    ∀ r ∈ (serviceObjects { name := none, basePath := none, methods := [m] }).flatMap
        (fun x => refsProps x.2),
      RefOk c (walkMethod c bp m).eff.imports r := by
  unfold walkMethod at hp he ⊢
  cases hr : m.request with
  | none => simp [hr, Eff.panicked] at hp
  | some req =>
    simp only [hr] at he ⊢
    intro r hrr
    cases hs : m.response with
    | none =>
      simp only [hs] at he ⊢
      have hrr' : r ∈ refsProps req := by
        simpa [serviceObjects, hr, hs] using hrr
      have h1 : (convVirtual c (m.name ++ b!"Request") [] req).errs = 0 := by simp at he; omega
      exact (convVirtual_refs c _ [] req none h1 r (by simpa using hrr')).mono
          (by intro x hx; simp [hx])
    | some res =>
      simp only [hs] at he ⊢
      have hrr' : r ∈ refsProps req ∨ r ∈ refsProps res := by
        simpa [serviceObjects, hr, hs] using hrr
      have h1 : (convVirtual c (m.name ++ b!"Request") [] req).errs = 0 := by simp at he; omega
      have h2 : (convVirtual c (m.name ++ b!"Response") [] res).errs = 0 := by simp at he; omega
      rcases hrr' with hrr | hrr
      · exact (convVirtual_refs c _ [] req none h1 r (by simpa using hrr)).mono
          (by intro x hx; simp [hx])
      · exact (convVirtual_refs c _ [] res none h2 r (by simpa using hrr)).mono
          (by intro x hx; simp [hx])

theorem foldl_eff_panic' {α : Type} (f : α → Eff) (l : List α) (init : Eff)
    (h : (l.foldl (fun e a => e ++ f a) init).panic = false) :
    init.panic = false ∧ ∀ a ∈ l, (f a).panic = false := by
  induction l generalizing init with
  | nil => exact ⟨h, by intro a ha; cases ha⟩
  | cons a rest ih =>
    simp only [List.foldl_cons] at h
    obtain ⟨h1, h2⟩ := ih _ h
    have : (Eff.add init (f a)).panic = false := h1
    simp only [Eff.add_panic, Bool.or_eq_false_iff] at this
    refine ⟨this.1, ?_⟩
    intro x hx
    rcases List.mem_cons.mp hx with rfl | hx
    · exact this.2
    · exact h2 x hx

theorem convService_refs (c : Ctx) (s : Service)
    (hp : (convService c s).eff.panic = false) (he : (convService c s).eff.errs = 0) :
    ∀ r ∈ (serviceObjects s).flatMap (fun x => refsProps x.2),
      RefOk c (convService c s).eff.imports r := by
  -- everything hangs off the walk part of the effect
  have key : ∀ (ew : Eff), ew = (s.methods.map (walkMethod c s.basePath)).foldl (fun e w => e ++ w.eff) ({} : Eff) →
      ew.panic = false → ew.errs = 0 →
      ∀ r ∈ (serviceObjects s).flatMap (fun x => refsProps x.2), RefOk c ew.imports r := by
    intro ew hew hpw hee r hr
    subst hew
    rw [foldl_eff_imports (fun w : MethodWalk => w.eff)]
    rw [foldl_eff_errs (fun w : MethodWalk => w.eff)] at hee
    have hpan := (foldl_eff_panic' (fun w : MethodWalk => w.eff) _ _ hpw).2
    rw [serviceObjects_methods] at hr
    simp only [List.mem_flatMap] at hr
    obtain ⟨x, ⟨m, hm, hx⟩, hrx⟩ := hr
    have hm' : walkMethod c s.basePath m ∈ s.methods.map (walkMethod c s.basePath) :=
      List.mem_map_of_mem hm
    have hz : (walkMethod c s.basePath m).eff.errs = 0 := by
      have : ((s.methods.map (walkMethod c s.basePath)).map fun w => w.eff.errs).sum = 0 := by
        simp at hee; simpa using hee
      exact sum_eq_zero_mem this _ (List.mem_map_of_mem hm')
    have := walkMethod_refs c s.basePath m (hpan _ hm') hz r
      (List.mem_flatMap.mpr ⟨x, hx, hrx⟩)
    refine this.mono ?_
    intro y hy
    simp only [List.nil_append, List.mem_flatMap, List.mem_map]
    exact ⟨_, ⟨m, hm, rfl⟩, hy⟩
  unfold convService at hp he ⊢
  cases hn : s.name with
  | none =>
    simp only [hn] at hp he ⊢
    exact key _ rfl hp he
  | some name =>
    simp only [hn] at hp he ⊢
    intro r hr
    have hpw : ((s.methods.map (walkMethod c s.basePath)).foldl (fun e w => e ++ w.eff) ({} : Eff)).panic = false := by
      have : (Eff.add (Eff.add (Eff.add _ _) _) _).panic = false := hp
      simp only [Eff.add_panic, Bool.or_eq_false_iff] at this
      exact this.1.1.1
    have hew : ((s.methods.map (walkMethod c s.basePath)).foldl (fun e w => e ++ w.eff) ({} : Eff)).errs = 0 := by
      have : (Eff.add (Eff.add (Eff.add _ _) _) _).errs = 0 := he
      simp only [Eff.add_errs] at this
      omega
    refine (key _ rfl hpw hew r hr).mono ?_
    intro x hx
    exact List.mem_append_left _ (List.mem_append_left _ (List.mem_append_left _ hx))

/-! ## topics -/

theorem acceptTopic_refs (c : Ctx) (tn : TopicNode)
    (he : ∀ s ∈ acceptTopic c tn, s.eff.errs = 0) :
    ∀ r ∈ (tn.msgs.filterMap fun m =>
        (topicMethodName tn m).map fun n => (n ++ b!"Message", tn.prepend ++ m.props)).flatMap
          (fun x => refsProps x.2),
      RefOk c ((acceptTopic c tn).flatMap (·.eff.imports)) r := by
  intro r hr
  simp only [List.mem_flatMap, List.mem_filterMap] at hr
  obtain ⟨x, ⟨m, hm, hx⟩, hrx⟩ := hr
  cases hn : topicMethodName tn m with
  | none => simp [hn] at hx
  | some n =>
    simp only [hn, Option.map_some, Option.some.injEq] at hx
    subst hx
    -- the step of this message
    have hstep : ({ target := .topic, eff := convVirtual c (n ++ b!"Message") tn.prepend m.props } : Step)
        ∈ acceptTopic c tn := by
      unfold acceptTopic
      simp only [List.mem_append, List.mem_map]
      exact Or.inl ⟨m, hm, by simp [hn]⟩
    have h0 := he _ hstep
    have := convVirtual_refs c (n ++ b!"Message") tn.prepend m.props none h0 r hrx
    refine this.mono ?_
    intro y hy
    exact List.mem_flatMap.mpr ⟨_, hstep, hy⟩

/-! ## items and files -/

/-- **every reference of a visited item resolves and the declaring file is handed to
`ensureImport`** when the item's steps are clean and record no error -/
theorem convItem_refs (c : Ctx) (i : Item)
    (hc : ∀ s ∈ convItem c i, s.eff.panic = false ∧ s.eff.errs = 0) :
    ∀ r ∈ itemRefs i, RefOk c ((convItem c i).flatMap (·.eff.imports)) r := by
  cases i with
  | object o =>
    intro r hr
    have h0 := (hc { target := .main, eff := convDecl c [] false [] o } (by simp [convItem])).2
    have := convDecl_refs c [] false [] o h0 r (by simpa [refsProps, itemRefs] using hr)
    simpa [convItem] using this
  | oneof o =>
    intro r hr
    have h0 := (hc { target := .main, eff := convDecl c [] true [] o } (by simp [convItem])).2
    have := convDecl_refs c [] true [] o h0 r (by simpa [refsProps, itemRefs] using hr)
    simpa [convItem] using this
  | enum e => intro r hr; simp [itemRefs] at hr
  | abort => intro r hr; simp [itemRefs] at hr
  | serviceFile ss =>
    intro r hr
    simp only [itemRefs, List.mem_flatMap] at hr
    obtain ⟨x, ⟨s, hs, hx⟩, hrx⟩ := hr
    have hstep : convService c s ∈ convItem c (.serviceFile ss) := by
      simp only [convItem, convServiceFile, List.mem_cons, List.mem_map]
      exact Or.inr ⟨s, hs, rfl⟩
    have h0 := hc _ hstep
    have := convService_refs c s h0.1 h0.2 r (List.mem_flatMap.mpr ⟨x, hx, hrx⟩)
    refine this.mono ?_
    intro y hy
    exact List.mem_flatMap.mpr ⟨_, hstep, hy⟩
  | topicFile ts =>
    intro r hr
    simp only [itemRefs, topicObjects, List.mem_flatMap] at hr
    obtain ⟨x, ⟨t, ht, tn, htn, hx⟩, hrx⟩ := hr
    have hsub : ∀ s ∈ acceptTopic c tn, s ∈ convItem c (.topicFile ts) := by
      intro s hs
      simp only [convItem, convTopicFile, convTopic, List.mem_cons, List.mem_flatMap]
      exact Or.inr ⟨t, ht, tn, htn, hs⟩
    have := acceptTopic_refs c tn (fun s hs => (hc s (hsub s hs)).2) r
      (List.mem_flatMap.mpr ⟨x, hx, hrx⟩)
    refine this.mono ?_
    intro y hy
    obtain ⟨s, hs, hys⟩ := List.mem_flatMap.mp hy
    exact List.mem_flatMap.mpr ⟨s, hsub s hs, hys⟩

/-- the package of the file an item's output goes to -/
def targetPkg (pkg : Str) (t : Target) : Str :=
  match t.sub with
  | none => pkg
  | some k => pkg ++ b!"." ++ k

theorem targetFile_deps_mem (c : Ctx) (f0 : FileB) (t : Target) (items : List Item) (i : Item)
    (hi : i ∈ items) (ht : i.target = t) (x : Str)
    (hx : x ∈ (convItem c i).flatMap (·.eff.imports)) :
    x = f0.name ∨ x ∈ (targetFile c f0 t items).deps := by
  by_cases hown : x = f0.name
  · exact Or.inl hown
  · right
    rw [targetFile, FileB.run_deps, mem_foldl_ensureImport]
    refine Or.inr ⟨?_, hown⟩
    rw [stepsOf_flatMap, flatMap_flatMap']
    exact List.mem_flatMap.mpr ⟨i, List.mem_filter.mpr ⟨hi, by simpa using ht⟩, hx⟩

/-- **`ConvertJ5File`: references resolve and their files are imported.** For a file that
converts, every type reference of every visited item (objects, oneofs, request / response /
message objects of services and topics, everything an entity expands to) resolves in the
conversion context, and the file declaring the referenced type is the generated file that holds
the reference or one of its dependencies. -/
theorem convertFile_refs (res : Resolver) (path : Str) (imports : List Import) (elems : List Elem)
    (fs : List FileSkel) (h : convertFile res path imports elems = .ok fs) :
    ∃ im, j5Imports (packageFromFilename (path ++ b!".proto")) imports = .ok im ∧
      let c : Ctx := { resolve := resolveTypeNoImport im res }
      let pkg := packageFromFilename (path ++ b!".proto")
      ∀ i ∈ elems.flatMap (itemsOfElem pkg), ∀ r ∈ itemRefs i,
        ∃ t, c.resolve r.1 r.2 = some t ∧
          ∃ f ∈ fs, f.pkg = targetPkg pkg i.target ∧ (t.file = f.name ∨ t.file ∈ f.deps) := by
  obtain ⟨im, hj, hinv⟩ := convertFile_ok_inv res path imports elems fs h
  obtain ⟨im', hj', hfiles⟩ := convertFile_files res path imports elems fs h
  have him : im' = im := by rw [hj] at hj'; exact (Outcome.ok.inj hj').symm
  subst him
  refine ⟨im', hj, ?_⟩
  simp only [] at hinv hfiles ⊢
  obtain ⟨hclean, herrs, _⟩ := hinv
  obtain ⟨subs, hfs, _, hsub, hall⟩ := hfiles
  intro i hi r hr
  -- the steps of the item are clean and record no error
  have hsteps : ∀ s ∈ convItem { resolve := resolveTypeNoImport im' res } i,
      s.eff.panic = false ∧ s.eff.errs = 0 := by
    intro s hs
    have hmem : s ∈ fileSteps { resolve := resolveTypeNoImport im' res }
        (packageFromFilename (path ++ b!".proto")) elems :=
      List.mem_flatMap.mpr ⟨i, hi, hs⟩
    refine ⟨(hclean s hmem).1, ?_⟩
    have hsum := (rootInv_run (path ++ b!".proto") (packageFromFilename (path ++ b!".proto"))
      (fileSteps { resolve := resolveTypeNoImport im' res }
        (packageFromFilename (path ++ b!".proto")) elems)).errs
    rw [hsum] at herrs
    exact sum_eq_zero_mem herrs _ (List.mem_map_of_mem hmem)
  obtain ⟨t, hres, himp⟩ := convItem_refs _ i hsteps r hr
  refine ⟨t, hres, ?_⟩
  cases hts : i.target.sub with
  | none =>
    have hmain : i.target = .main := by
      cases hti : i.target <;> simp [hti, Target.sub] at hts; rfl
    refine ⟨_, by rw [hfs]; exact List.mem_cons_self, ?_, ?_⟩
    · simp [FileB.skel, targetFile, FileB.run_pkg, targetPkg, hts]
    · have := targetFile_deps_mem { resolve := resolveTypeNoImport im' res }
        { name := path ++ b!".proto", pkg := packageFromFilename (path ++ b!".proto") } .main _ i hi hmain _ himp
      simpa [FileB.skel, targetFile, FileB.run_name] using this
  | some k =>
    obtain ⟨kf, hkf, hk⟩ := List.mem_map.mp (hall i.target k hts ⟨i, hi, rfl⟩)
    obtain ⟨t', ht', _, he⟩ := hsub kf hkf
    have htt : t' = i.target := Target.sub_inj ht' (hk ▸ hts)
    subst htt
    refine ⟨kf.2.skel, by rw [hfs]; exact List.mem_cons_of_mem _ (List.mem_map_of_mem hkf), ?_, ?_⟩
    · rw [he]; simp [FileB.skel, targetFile, FileB.run_pkg, targetPkg, hts, subFresh, hk]
    · have := targetFile_deps_mem { resolve := resolveTypeNoImport im' res }
        (subFresh (path ++ b!".proto") (packageFromFilename (path ++ b!".proto")) kf.1) i.target _ i hi rfl _ himp
      rw [he]
      simpa [FileB.skel, targetFile, FileB.run_name] using this

end J5V.Compile
