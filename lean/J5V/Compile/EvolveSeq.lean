import J5V.Compile.AppendEdit
import J5V.Compile.AppendDeclPkg
/-!
# Relations between two compiles under append edits: a preorder (C13) — core only

`FileSkel.Le` (declaration appends: everything a prefix) and `FileSkel.LeEdit` (field / option
appends at the own list of a container: messages found again by membership, fields a prefix, nested
types kept) are both instances of `FileSkel.LeAny`, which also follows an edit *inside* a nested /
inline type (`MsgSkel.LeDeep`: the nested messages are found again, each grown at most, at any
depth). `LeAny` is reflexive and transitive, which is what a sequence of edits needs.

The recursion through the nested messages is indexed by a depth bound (`MsgLeN n`): `MsgSkel` is a
nested inductive type, and a bound avoids both a mutual inductive predicate and well-founded
recursion; `LeDeep` quantifies the bound away.
-/
namespace J5V.Compile

/-- `m'` is `m` grown by appends, looking at most `n` levels deep (`0`: equal) -/
def MsgLeN : Nat → MsgSkel → MsgSkel → Prop
  | 0, m, m' => m = m'
  | n + 1, m, m' =>
    m'.name = m.name ∧ m'.kind = m.kind ∧ m'.psm = m.psm ∧ m.fields <+: m'.fields ∧
      (∀ x ∈ m.msgs, ∃ x' ∈ m'.msgs, MsgLeN n x x') ∧ EnumsLe m.enums m'.enums

theorem EnumsLe.trans {a b c : List EnumSkel} (h1 : EnumsLe a b) (h2 : EnumsLe b c) : EnumsLe a c := by
  intro e he
  obtain ⟨e', he', hn, hv⟩ := h1 e he
  obtain ⟨e'', he'', hn', hv'⟩ := h2 e' he'
  exact ⟨e'', he'', hn'.trans hn, hv.trans hv'⟩

theorem EnumsLe.of_mem {a b : List EnumSkel} (h : ∀ e ∈ a, e ∈ b) : EnumsLe a b :=
  fun e he => ⟨e, h e he, rfl, List.prefix_refl _⟩

theorem MsgLeN.succ : ∀ (n : Nat) (m m' : MsgSkel), MsgLeN n m m' → MsgLeN (n + 1) m m'
  | 0, m, m', h => by
    simp only [MsgLeN] at h
    subst h
    exact ⟨rfl, rfl, rfl, List.prefix_refl _, fun x hx => ⟨x, hx, rfl⟩, EnumsLe.refl _⟩
  | n + 1, m, m', h => by
    obtain ⟨h1, h2, h3, h4, h5, h6⟩ := h
    refine ⟨h1, h2, h3, h4, ?_, h6⟩
    intro x hx
    obtain ⟨x', hx', hle⟩ := h5 x hx
    exact ⟨x', hx', MsgLeN.succ n x x' hle⟩

theorem MsgLeN.mono {n k : Nat} (hnk : n ≤ k) (m m' : MsgSkel) (h : MsgLeN n m m') :
    MsgLeN k m m' := by
  induction hnk with
  | refl => exact h
  | step _ ih => exact MsgLeN.succ _ _ _ ih

theorem MsgLeN.refl (n : Nat) (m : MsgSkel) : MsgLeN n m m :=
  MsgLeN.mono (Nat.zero_le n) m m rfl

theorem MsgLeN.trans : ∀ (n : Nat) (a b c : MsgSkel), MsgLeN n a b → MsgLeN n b c → MsgLeN n a c
  | 0, a, b, c, h1, h2 => by
    simp only [MsgLeN] at h1 h2 ⊢
    exact h1.trans h2
  | n + 1, a, b, c, h1, h2 => by
    obtain ⟨a1, a2, a3, a4, a5, a6⟩ := h1
    obtain ⟨b1, b2, b3, b4, b5, b6⟩ := h2
    refine ⟨b1.trans a1, b2.trans a2, b3.trans a3, a4.trans b4, ?_, a6.trans b6⟩
    intro x hx
    obtain ⟨x', hx', hle⟩ := a5 x hx
    obtain ⟨x'', hx'', hle'⟩ := b5 x' hx'
    exact ⟨x'', hx'', MsgLeN.trans n x x' x'' hle hle'⟩

/-- a message grows by appends at any depth: same name / kind / annotation, the fields a prefix,
every nested message found again (grown at most, recursively), every nested enum found again with
its values a prefix -/
def MsgSkel.LeDeep (m m' : MsgSkel) : Prop := ∃ n, MsgLeN n m m'

theorem MsgSkel.LeDeep.refl (m : MsgSkel) : m.LeDeep m := ⟨0, rfl⟩

theorem MsgSkel.LeDeep.trans {a b c : MsgSkel} (h1 : a.LeDeep b) (h2 : b.LeDeep c) : a.LeDeep c := by
  obtain ⟨n, hn⟩ := h1
  obtain ⟨k, hk⟩ := h2
  exact ⟨max n k, MsgLeN.trans _ a b c (MsgLeN.mono (Nat.le_max_left n k) _ _ hn)
    (MsgLeN.mono (Nat.le_max_right n k) _ _ hk)⟩

theorem MsgSkel.Le1.deep {m m' : MsgSkel} (h : m.Le1 m') : m.LeDeep m' := by
  obtain ⟨h1, h2, h3, h4, h5, h6⟩ := h
  exact ⟨1, h1, h2, h3, h4, fun x hx => ⟨x, h5 x hx, rfl⟩, EnumsLe.of_mem h6⟩

/-- one level of `LeDeep`, the way it is built up along an edit path -/
theorem MsgSkel.LeDeep.mk {m m' : MsgSkel} (h1 : m'.name = m.name) (h2 : m'.kind = m.kind)
    (h3 : m'.psm = m.psm) (h4 : m.fields <+: m'.fields)
    (h5 : ∀ x ∈ m.msgs, ∃ x' ∈ m'.msgs, x.LeDeep x') (h6 : EnumsLe m.enums m'.enums) :
    m.LeDeep m' := by
  -- a common bound for the finitely many nested messages
  have hb : ∀ (l : List MsgSkel), (∀ x ∈ l, ∃ x' ∈ m'.msgs, x.LeDeep x') →
      ∃ n, ∀ x ∈ l, ∃ x' ∈ m'.msgs, MsgLeN n x x' := by
    intro l
    induction l with
    | nil => intro _; exact ⟨0, fun x hx => by cases hx⟩
    | cons y ys ih =>
      intro h
      obtain ⟨n, hn⟩ := ih (fun x hx => h x (List.mem_cons_of_mem _ hx))
      obtain ⟨y', hy', k, hk⟩ := h y (by simp)
      refine ⟨max n k, ?_⟩
      intro x hx
      rcases List.mem_cons.mp hx with rfl | hx
      · exact ⟨y', hy', MsgLeN.mono (Nat.le_max_right n k) _ _ hk⟩
      · obtain ⟨x', hx', hle⟩ := hn x hx
        exact ⟨x', hx', MsgLeN.mono (Nat.le_max_left n k) _ _ hle⟩
  obtain ⟨n, hn⟩ := hb m.msgs h5
  exact ⟨n + 1, h1, h2, h3, h4, hn, h6⟩

/-- what `LeDeep` says, one level down -/
theorem MsgSkel.LeDeep.inv {m m' : MsgSkel} (h : m.LeDeep m') :
    m'.name = m.name ∧ m'.kind = m.kind ∧ m'.psm = m.psm ∧ m.fields <+: m'.fields ∧
      (∀ x ∈ m.msgs, ∃ x' ∈ m'.msgs, x.LeDeep x') ∧ EnumsLe m.enums m'.enums := by
  obtain ⟨n, hn⟩ := h
  obtain ⟨h1, h2, h3, h4, h5, h6⟩ := MsgLeN.succ n m m' hn
  exact ⟨h1, h2, h3, h4, fun x hx => (h5 x hx).imp fun x' hx' => ⟨hx'.1, n, hx'.2⟩, h6⟩

/-- every message is found again, grown at most (at any depth) -/
def MsgsLeDeep (a b : List MsgSkel) : Prop := ∀ m ∈ a, ∃ m' ∈ b, m.LeDeep m'

theorem MsgsLeDeep.refl (a : List MsgSkel) : MsgsLeDeep a a :=
  fun m h => ⟨m, h, MsgSkel.LeDeep.refl m⟩

theorem MsgsLeDeep.trans {a b c : List MsgSkel} (h1 : MsgsLeDeep a b) (h2 : MsgsLeDeep b c) :
    MsgsLeDeep a c := by
  intro m hm
  obtain ⟨m', hm', hle⟩ := h1 m hm
  obtain ⟨m'', hm'', hle'⟩ := h2 m' hm'
  exact ⟨m'', hm'', hle.trans hle'⟩

theorem MsgsLe.deep {a b : List MsgSkel} (h : MsgsLe a b) : MsgsLeDeep a b :=
  fun m hm => (h m hm).imp fun _ hx => ⟨hx.1, hx.2.deep⟩

theorem MsgsLeDeep.of_mem {a b : List MsgSkel} (h : ∀ m ∈ a, m ∈ b) : MsgsLeDeep a b :=
  fun m hm => ⟨m, h m hm, MsgSkel.LeDeep.refl m⟩

/-- a generated file after an append edit at any depth inside one of its declarations: same name and
package, the same services, every message found again grown at most (recursively), every enum found
again with its values as a prefix -/
def FileSkel.LeDeep (f f' : FileSkel) : Prop :=
  f'.name = f.name ∧ f'.pkg = f.pkg ∧ f.svcs = f'.svcs ∧ MsgsLeDeep f.msgs f'.msgs ∧
    EnumsLe f.enums f'.enums

theorem FileSkel.LeDeep.refl (f : FileSkel) : f.LeDeep f :=
  ⟨rfl, rfl, rfl, MsgsLeDeep.refl _, EnumsLe.refl _⟩

theorem FileSkel.LeEdit.deep {f f' : FileSkel} (h : f.LeEdit f') : f.LeDeep f' :=
  ⟨h.1, h.2.1, h.2.2.1, h.2.2.2.1.deep, h.2.2.2.2⟩

/-- the common relation of all append edits (fields, options, declarations, at any depth): same
name and package, the old services a prefix of the new ones, every message found again grown at
most, every enum found again with its values as a prefix -/
def FileSkel.LeAny (f f' : FileSkel) : Prop :=
  f'.name = f.name ∧ f'.pkg = f.pkg ∧ f.svcs <+: f'.svcs ∧ MsgsLeDeep f.msgs f'.msgs ∧
    EnumsLe f.enums f'.enums

theorem FileSkel.LeAny.refl (f : FileSkel) : f.LeAny f :=
  ⟨rfl, rfl, List.prefix_refl _, MsgsLeDeep.refl _, EnumsLe.refl _⟩

theorem FileSkel.LeAny.trans {a b c : FileSkel} (h1 : a.LeAny b) (h2 : b.LeAny c) : a.LeAny c :=
  ⟨h2.1.trans h1.1, h2.2.1.trans h1.2.1, h1.2.2.1.trans h2.2.2.1, h1.2.2.2.1.trans h2.2.2.2.1,
    h1.2.2.2.2.trans h2.2.2.2.2⟩

theorem FileSkel.LeDeep.any {f f' : FileSkel} (h : f.LeDeep f') : f.LeAny f' :=
  ⟨h.1, h.2.1, by rw [h.2.2.1]; exact List.prefix_refl _, h.2.2.2.1, h.2.2.2.2⟩

theorem FileSkel.LeDeep.trans {a b c : FileSkel} (h1 : a.LeDeep b) (h2 : b.LeDeep c) : a.LeDeep c :=
  ⟨h2.1.trans h1.1, h2.2.1.trans h1.2.1, h1.2.2.1.trans h2.2.2.1, h1.2.2.2.1.trans h2.2.2.2.1,
    h1.2.2.2.2.trans h2.2.2.2.2⟩

theorem FileSkel.LeEdit.any {f f' : FileSkel} (h : f.LeEdit f') : f.LeAny f' := h.deep.any

theorem FileSkel.Le.any {f f' : FileSkel} (h : f.Le f') : f.LeAny f' :=
  ⟨h.1, h.2.1, h.2.2.2.2, MsgsLeDeep.of_mem fun _ hm => h.2.2.1.subset hm,
    EnumsLe.of_mem fun _ he => h.2.2.2.1.subset he⟩

/-- the relation lifted to the file lists of two compiles -/
def FilesLeAny (fs fs' : List FileSkel) : Prop := ∀ f ∈ fs, ∃ f' ∈ fs', f.LeAny f'

theorem FilesLeAny.refl (fs : List FileSkel) : FilesLeAny fs fs :=
  fun f h => ⟨f, h, FileSkel.LeAny.refl f⟩

theorem FilesLeAny.trans {a b c : List FileSkel} (h1 : FilesLeAny a b) (h2 : FilesLeAny b c) :
    FilesLeAny a c := by
  intro f hf
  obtain ⟨f', hf', hle⟩ := h1 f hf
  obtain ⟨f'', hf'', hle'⟩ := h2 f' hf'
  exact ⟨f'', hf'', hle.trans hle'⟩

/-! ## sequences of edits -/

/-- every edit of the sequence is admissible (`Adm`) for the bundle it is applied to, and every
intermediate version compiles -/
def SeqOk (Adm : Bundle → Edit → Prop) (pkg : Str) : List Edit → Bundle → Prop
  | [], _ => True
  | e :: es, b => Adm b e ∧ ∀ b1, e.apply pkg b = some b1 →
      (es ≠ [] → (compilePkg b1 pkg).isOk = true) ∧ SeqOk Adm pkg es b1

/-- induction over the edit list: a relation that is a preorder and holds for every admissible
single edit holds from the first to the last version -/
theorem seq_rel (R : List FileSkel → List FileSkel → Prop) (hrefl : ∀ x, R x x)
    (htrans : ∀ x y z, R x y → R y z → R x z) (Adm : Bundle → Edit → Prop) (pkg : Str)
    (step : ∀ b e b' fs fs', Adm b e → e.apply pkg b = some b' → compilePkg b pkg = .ok fs →
      compilePkg b' pkg = .ok fs' → R fs fs') :
    ∀ (es : List Edit) (b b' : Bundle) (fs fs' : List FileSkel), SeqOk Adm pkg es b →
      applyEdits pkg es b = some b' → compilePkg b pkg = .ok fs → compilePkg b' pkg = .ok fs' →
      R fs fs' := by
  intro es
  induction es with
  | nil =>
    intro b b' fs fs' _ happ h h'
    simp only [applyEdits, Option.some.injEq] at happ
    subst happ
    rw [h] at h'
    cases h'
    exact hrefl fs
  | cons e es ih =>
    intro b b' fs fs' hok happ h h'
    simp only [applyEdits] at happ
    cases he : e.apply pkg b with
    | none => simp [he] at happ
    | some b1 =>
      simp only [he, Option.bind_some] at happ
      obtain ⟨hadm, hrest⟩ := hok
      obtain ⟨hmid, hseq⟩ := hrest b1 he
      cases es with
      | nil =>
        simp only [applyEdits, Option.some.injEq] at happ
        subst happ
        exact step b e b1 fs fs' hadm he h h'
      | cons e2 es2 =>
        have hc := hmid (by simp)
        cases hc1 : compilePkg b1 pkg with
        | err t => simp [hc1, Go.Outcome.isOk] at hc
        | panic w => simp [hc1, Go.Outcome.isOk] at hc
        | ok fs1 =>
          exact htrans fs fs1 fs' (step b e b1 fs fs1 hadm he h hc1)
            (ih b1 b' fs1 fs' hseq happ hc1 h')

end J5V.Compile
