import J5V.Go.Hex
import J5V.Compile.Link
import J5V.Compile.Evolve
import J5V.Compile.PackageSet
/-!
# Line protocol of the compile cluster: s-expressions ⇄ model types (core only)

Decoder for `harness/PROTOCOL-compile.md` §2 (the abstract package) and printer for §3 (the
canonical skeleton). Used by `Driver/Compile.lean`.
-/
namespace J5V.Compile
open J5V.Go

inductive Sexp where
  | atom (s : String)
  | list (l : List Sexp)
  deriving Inhabited

/-- close the atom being read (characters in reverse) -/
def flushTok (cur : List Char) (acc : List String) : List String :=
  if cur.isEmpty then acc else String.ofList cur.reverse :: acc

/-- tokens: `(`, `)`, atoms. The atom is only materialised where it ends (a strict `let` in front of the
branches cost one `String.ofList` per CHARACTER: quadratic in the length of an atom, 0.6 s for the hex text of a
source file) -/
def sexpTokens (s : String) : List String :=
  let rec go : List Char → List Char → List String → List String
    | [], cur, acc => (flushTok cur acc).reverse
    | c :: rest, cur, acc =>
      if c = '(' then go rest [] ("(" :: flushTok cur acc)
      else if c = ')' then go rest [] (")" :: flushTok cur acc)
      else if c = ' ' || c = '\t' || c = '\r' || c = '\n' then go rest [] (flushTok cur acc)
      else go rest (c :: cur) acc
  go s.toList [] []

/-- parse a token list into a sequence of s-expressions; `stack` holds the open lists -/
partial def parseSexps : List String → List (List Sexp) → List Sexp → Option (List Sexp)
  | [], [], cur => some cur.reverse
  | [], _ :: _, _ => none
  | "(" :: rest, stack, cur => parseSexps rest (cur :: stack) []
  | ")" :: rest, parent :: stack, cur => parseSexps rest stack (Sexp.list cur.reverse :: parent)
  | ")" :: _, [], _ => none
  | a :: rest, stack, cur => parseSexps rest stack (Sexp.atom a :: cur)

def parseLine (s : String) : Option (String × List Sexp) :=
  match sexpTokens s with
  | op :: rest => if op = "(" || op = ")" then none else (parseSexps rest [] []).map fun l => (op, l)
  | [] => none

/-! ## decoding -/

def dStr : Sexp → Option Str
  | .atom a => fromHex a
  | _ => none

def dNat : Sexp → Option Nat
  | .atom a => a.toNat?
  | _ => none

def dBool : Sexp → Option Bool
  | .atom "0" => some false
  | .atom "1" => some true
  | _ => none

def dOptStr : Sexp → Option (Option Str)
  | .list [.atom "none"] => some none
  | .list [.atom "some", s] => (dStr s).map some
  | _ => none

def dLit : Sexp → Option Lit
  | .list [.atom "i", n] => (dNat n).map .int
  | .list [.atom "neg", n] => (dNat n).map .neg
  | .list [.atom "s", s] => (dStr s).map .str
  | .list [.atom "b", b] => (dBool b).map .bool
  | .list (.atom "strs" :: l) => (l.mapM dStr).map .strs
  | _ => none

def dRules : Sexp → Option Rules
  | .list (.atom "rules" :: l) => l.mapM fun r =>
    match r with
    | .list [.atom "r", n, lit] => do some { name := ← dStr n, lit := ← dLit lit }
    | _ => none
  | _ => none

def dIntFmt : Sexp → Option IntFmt
  | .atom "int32" => some .int32 | .atom "int64" => some .int64
  | .atom "uint32" => some .uint32 | .atom "uint64" => some .uint64
  | _ => none

def dFloatFmt : Sexp → Option FloatFmt
  | .atom "float32" => some .float32 | .atom "float64" => some .float64
  | _ => none

def dKeyFmt : Sexp → Option KeyFmt
  | .atom "none" => some .none | .atom "informal" => some .informal
  | .atom "uuid" => some .uuid | .atom "id62" => some .id62
  | .list [.atom "custom", p] => (dStr p).map .custom
  | _ => none

def dEntKey : Sexp → Option EntKey
  | .list [.atom "nokey"] => some .nokey
  | .list [.atom "ek", kind, tenant] => do
    let k ← match kind with
      | .list [.atom "plain"] => some EntKeyKind.plain
      | .list [.atom "primary", b] => (dBool b).map .primary
      | .list [.atom "foreign", p, e] => do some (.foreign (← dStr p) (← dStr e))
      | _ => none
    some (.ek k (← dOptStr tenant))
  | _ => none

def dOpts : Sexp → Option (List Str)
  | .list (.atom "opts" :: l) => l.mapM fun o =>
    match o with
    | .list [.atom "o", n] => dStr n
    -- the number written on the option (`option X { number = 5 }`) is carried by the source definition and
    -- never read by the compiler: options are numbered by position
    | .list [.atom "o", n, k] => do let _ ← dNat k; dStr n
    | _ => none
  | _ => none

/-- an entity status: a bare name, or `(o NAME N)` when the source states a number (ignored, as for options) -/
def dStatus : Sexp → Option Str
  | .list [.atom "o", n, k] => do let _ ← dNat k; dStr n
  | s => dStr s

def dPsm : Sexp → Option Psm
  | .list [.atom "psm", e, .atom p] => do
    let part ← match p with
      | "keys" => some EntityPart.keys | "state" => some .state | "event" => some .event | "data" => some .data
      | _ => none
    some { entity := ← dStr e, part := part }
  | _ => none

def dEnum (name pfx opts : Sexp) : Option EnumDecl := do
  some { name := ← dStr name, pfx := ← dStr pfx, opts := ← dOpts opts }

def dEnumField (t r : Sexp) (lr : Option (List Str)) : Option Field := do
  let r ← dRules r
  match t with
  | .list [.atom "ref", p, s] => some (.enumRef (← dStr p) (← dStr s) r lr)
  | .list [.atom "inlenum", n, pfx, opts] => some (.enumInl (← dEnum n pfx opts) r lr)
  | _ => none

mutual
partial def dField : Sexp → Option Field
  | .list [.atom "string", r] => do some (.string (← dRules r) false)
  | .list [.atom "bool", r] => do some (.bool (← dRules r) false)
  | .list [.atom "bytes", r] => do some (.bytes (← dRules r))
  | .list [.atom "date", r] => do some (.date (← dRules r) false)
  | .list [.atom "decimal", r] => do some (.decimal (← dRules r) false)
  | .list [.atom "timestamp", r] => do some (.timestamp (← dRules r))
  | .list [.atom "any"] => some .any
  | .list [.atom "integer", f, r] => do some (.integer (← dIntFmt f) (← dRules r) false)
  | .list [.atom "float", f, r] => do some (.float (← dFloatFmt f) (← dRules r) false)
  | .list [.atom "key", f, ek, r] => do some (.key (← dKeyFmt f) (← dEntKey ek) (← dRules r) false)
  | .list [.atom "object", t, fl, r] => do
    let fl ← dBool fl
    let r ← dRules r
    match t with
    | .list [.atom "ref", p, s] => some (.objectRef (← dStr p) (← dStr s) fl r)
    | .list [.atom "inlobj", n, ps] => some (.objectInl (← dStr n) (← dProps "props" ps) fl r)
    | _ => none
  | .list [.atom "oneof", t, r] => do
    let r ← dRules r
    match t with
    | .list [.atom "ref", p, s] => some (.oneofRef (← dStr p) (← dStr s) r false)
    | .list [.atom "inloneof", n, ps] => some (.oneofInl (← dStr n) (← dProps "props" ps) r false)
    | _ => none
  | .list [.atom "enum", t, r] => dEnumField t r none
  | .list [.atom "enum", t, r, .list (.atom "lr" :: fs)] => do dEnumField t r (some (← fs.mapM dStr))
  | .list [.atom "array", f, r] => do some (.array (← dField f) (← dRules r))
  | .list [.atom "map", f, r] => do some (.map (← dField f) (← dRules r))
  | _ => none
partial def dProp : Sexp → Option Property
  | .list [.atom "p", n, req, opt, f] => do
    some (.mk (← dStr n) (← dBool req) (← dBool opt) (← dField f))
  | _ => none
/-- `(HEAD prop*)` -/
partial def dProps (head : String) : Sexp → Option (List Property)
  | .list (.atom h :: l) => if h = head then l.mapM dProp else none
  | _ => none
end

mutual
partial def dObjDecl (name props nested : Sexp) (psm : Option Psm := none) : Option ObjDecl := do
  let nested ← match nested with
    | .list (.atom "nested" :: l) => l.mapM dNested
    | _ => none
  some (.mk (← dStr name) (← dProps "props" props) nested psm)
partial def dNested : Sexp → Option Nested
  | .list [.atom "object", n, ps, ne] => (dObjDecl n ps ne).map .object
  | .list [.atom "object", n, ps, ne, psm] => do some (.object (← dObjDecl n ps ne (some (← dPsm psm))))
  | .list [.atom "oneof", n, ps, ne] => (dObjDecl n ps ne).map .oneof
  | .list [.atom "enum", n, pfx, opts] => (dEnum n pfx opts).map .enum
  | _ => none
end

def dVerb : Sexp → Option Verb
  | .atom "get" => some .get | .atom "post" => some .post | .atom "put" => some .put
  | .atom "patch" => some .patch | .atom "delete" => some .delete
  | _ => none

def dMethod : Sexp → Option Method
  | .list [.atom "method", n, v, p, req, res] => do
    let res ← match res with
      | .list [.atom "none"] => some none
      | .list (.atom "some" :: l) => (l.mapM dProp).map some
      | _ => none
    some { name := ← dStr n, verb := ← dVerb v, path := ← dStr p,
           request := some (← dProps "req" req), response := res }
  | _ => none

def dService : Sexp → Option Service
  | .list [.atom "service", n, bp, .list (.atom "methods" :: ms)] => do
    let name ← dStr n
    some { name := if name = [] then none else some name, basePath := ← dOptStr bp,
           methods := ← ms.mapM dMethod }
  | _ => none

def dTMsg : Sexp → Option TopicMsg
  | .list [.atom "msg", n, ps] => do some { name := ← dOptStr n, props := ← dProps "props" ps }
  | _ => none

def dTopic : Sexp → Option Topic
  | .list [.atom "topic", n, tt] => do
    let ty ← match tt with
      | .list (.atom "publish" :: ms) => (ms.mapM dTMsg).map .publish
      | .list [.atom "reqres", .list (.atom "reqs" :: a), .list (.atom "reps" :: b)] => do
        some (.reqres (← a.mapM dTMsg) (← b.mapM dTMsg))
      | .list [.atom "upsert", m] => (dTMsg m).map (.upsert [])
      | _ => none
    some { name := ← dStr n, type := ty }
  | _ => none

def dEntity : Sexp → Option Entity
  | .list [.atom "entity", n, base, .list (.atom "keys" :: ks), data,
      .list (.atom "statuses" :: sts), .list (.atom "events" :: evs),
      .list (.atom "commands" :: cmds), .list (.atom "summaries" :: sums), q,
      .list (.atom "nested" :: ne)] => do
    let keys ← ks.mapM fun k =>
      match k with
      | .list [.atom "k", p, sh] => do some ({ prop := ← dProp p, shard := ← dBool sh } : EntityKeyDecl)
      | _ => none
    let events ← evs.mapM fun e =>
      match e with
      | .list [.atom "object", n, ps, ne] => dObjDecl n ps ne
      | _ => none
    let summaries ← sums.mapM fun s =>
      match s with
      | .list [.atom "summary", n, ps] => do some ({ name := ← dStr n, props := ← dProps "props" ps } : Summary)
      | _ => none
    let query ← match q with
      | .list [.atom "noquery"] => some none
      | .list [.atom "query", eg, .list (.atom "filters" :: fs)] => do
        some (some ({ eventsInGet := ← dBool eg, filters := ← fs.mapM dStr } : EntityQuery))
      | _ => none
    some { name := ← dStr n, baseUrl := ← dStr base, keys := keys, data := ← dProps "data" data,
           statuses := ← sts.mapM dStatus, events := events, commands := ← cmds.mapM dService,
           summaries := summaries, query := query, nested := ← ne.mapM dNested }
  | _ => none

def dElem : Sexp → Option Elem
  | .list [.atom "object", n, ps, ne] => (dObjDecl n ps ne).map .object
  | .list [.atom "object", n, ps, ne, psm] => do some (.object (← dObjDecl n ps ne (some (← dPsm psm))))
  | .list [.atom "oneof", n, ps, ne] => (dObjDecl n ps ne).map .oneof
  | .list [.atom "enum", n, pfx, opts] => (dEnum n pfx opts).map .enum
  | s@(.list (.atom "service" :: _)) => (dService s).map .service
  | s@(.list (.atom "topic" :: _)) => (dTopic s).map .topic
  | s@(.list (.atom "entity" :: _)) => (dEntity s).map .entity
  | _ => none

def dJ5s (p : Sexp) (imps els : List Sexp) (decl : Str) : Option SrcFile := do
  let imports ← imps.mapM fun i =>
    match i with
    | .list [.atom "import", p, a] => do some ({ path := ← dStr p, alias := ← dStr a } : Import)
    | _ => none
  some (.j5s (← dStr p) imports (← els.mapM dElem) decl)

/-- `pkg`: name of the enclosing `(pkg NAME …)`, which the printer writes as the file's `package`
declaration unless the file carries its own `(decl NAME)` -/
def dFile (pkg : Str) : Sexp → Option SrcFile
  | .list [.atom "j5s", p, .list (.atom "imports" :: imps), .list (.atom "elems" :: els)] =>
    dJ5s p imps els pkg
  | .list [.atom "j5s", p, .list (.atom "imports" :: imps), .list (.atom "elems" :: els),
      .list [.atom "decl", d]] => do dJ5s p imps els (← dStr d)
  | .list [.atom "proto", p, .list (.atom "msgs" :: ms), .list (.atom "enums" :: es)] => do
    let enums ← es.mapM fun e =>
      match e with
      | .list (.atom "penum" :: n :: vals) => do some (← dStr n, ← vals.mapM dStr)
      | _ => none
    some (.proto (← dStr p) (← ms.mapM dStr) enums)
  | _ => none

def dBundle : Sexp → Option Bundle
  | .list (.atom "bundle" :: pkgs) => do
    let pkgs ← pkgs.mapM fun p =>
      match p with
      | .list (.atom "pkg" :: n :: files) => do
        let name ← dStr n
        some ({ name := name, files := ← files.mapM (dFile name) } : Pkg)
      | _ => none
    some { pkgs := pkgs }
  | _ => none

/-! ## edits and variants -/

def dStep : Sexp → Option PStep
  | .list [.atom "el", i] => (dNat i).map .el
  | .list [.atom "prop", i] => (dNat i).map .prop
  | .list [.atom "nest", i] => (dNat i).map .nest
  | .list [.atom "method", i] => (dNat i).map .method
  | .list [.atom "req"] => some .req
  | .list [.atom "res"] => some .res
  | .list [.atom "msg", i] => (dNat i).map .msg
  | .list [.atom "reqm", i] => (dNat i).map .reqm
  | .list [.atom "repm", i] => (dNat i).map .repm
  | .list [.atom "edata"] => some .edata
  | .list [.atom "estatus"] => some .estatus
  | .list [.atom "event", i] => (dNat i).map .event
  | .list [.atom "command", i] => (dNat i).map .command
  | .list [.atom "summary", i] => (dNat i).map .summary
  | _ => none

def dPath : Sexp → Option (List PStep)
  | .list (.atom "path" :: steps) => if steps.isEmpty then none else steps.mapM dStep
  | _ => none

def dEdits : Sexp → Option (List Edit)
  | .list (.atom "edits" :: es) => es.mapM fun e =>
    match e with
    | .list [.atom "appendfield", f, p, prop] => do
      some (.appendField (← dNat f) (← dPath p) (← dProp prop))
    | .list [.atom "appendoption", f, p, n] => do
      some (.appendOption (← dNat f) (← dPath p) (← dStr n))
    | .list [.atom "appendoption", f, p, n, k] => do
      let _ ← dNat k
      some (.appendOption (← dNat f) (← dPath p) (← dStr n))
    | .list [.atom "appenddecl", f, el] => do some (.appendDecl (← dNat f) (← dElem el))
    | _ => none
  | _ => none

structure Variant where
  pkgs : List Nat
  files : List (Nat × List Nat)
  calls : List Nat
  reuse : Bool

def dVariant (b : Bundle) : Sexp → Option Variant
  | .list [.atom "variant", .list (.atom "pkgs" :: ps), .list (.atom "files" :: fos),
      .list (.atom "calls" :: cs), reuse] => do
    let pkgs ← ps.mapM dNat
    if !isPermOf pkgs b.pkgs.length then none
    let files ← fos.mapM fun fo =>
      match fo with
      | .list (.atom "fo" :: pi :: perm) => do
        let pi ← dNat pi
        let perm ← perm.mapM dNat
        let p ← b.pkgs[pi]?
        if !isPermOf perm p.files.length then none
        some (pi, perm)
      | _ => none
    let calls ← cs.mapM dNat
    if calls.any (· ≥ b.pkgs.length) then none
    some { pkgs := pkgs, files := files, calls := calls, reuse := ← dBool reuse }
  | _ => none

/-! ## printing the canonical skeleton (strings raw) -/

def raw (s : Str) : String := s.toString
def rawOr (s : Str) : String := if s = [] then "-" else s.toString

def ptypeName : PType → String
  | .string => "string" | .bool => "bool" | .bytes => "bytes" | .message => "message"
  | .enum => "enum" | .int32 => "int32" | .int64 => "int64" | .uint32 => "uint32"
  | .uint64 => "uint64" | .float => "float" | .double => "double"

def partName : EntityPart → String
  | .keys => "keys" | .state => "state" | .event => "event" | .data => "data"

def b01 (b : Bool) : String := if b then "1" else "0"

def fieldStr (f : FieldSkel) : String :=
  s!"(f {raw f.name} {rawOr f.jsonName} {f.number} {ptypeName f.type} " ++
  s!"{if f.repeated then "repeated" else "optional"} {b01 f.p3opt} {rawOr f.typeName} " ++
  s!"{match f.oneof with | some i => toString i | none => "-"} {b01 f.req} {rawOr f.ext})"

def enumStr (e : EnumSkel) : String :=
  "(enum " ++ raw e.name ++ String.join (e.values.map fun (n, k) => s!" (v {raw n} {k})") ++ ")"

def kindName : MsgKind → String
  | .object => "object" | .oneof => "oneof" | .mapentry => "mapentry" | .none => "none"

partial def msgStr : MsgSkel → String
  | .mk name kind psm fields msgs enums =>
    let psmS := match psm with
      | some p => raw p.entity ++ ":" ++ partName p.part
      | none => "-"
    s!"(msg {raw name} {kindName kind} {psmS} (fields" ++
      String.join (fields.map fun f => " " ++ fieldStr f) ++ ") (msgs" ++
      String.join (msgs.map fun m => " " ++ msgStr m) ++ ") (enums" ++
      String.join (enums.map fun e => " " ++ enumStr e) ++ "))"

def verbName : Verb → String
  | .get => "get" | .post => "post" | .put => "put" | .patch => "patch" | .delete => "delete"
  | .unspecified => "none"

def roleName : Role → String
  | .publish => "publish" | .request => "request" | .reply => "reply" | .upsert => "upsert"
  | .event => "event"

def svcStr (s : SvcSkel) : String :=
  let opt := match s.sopt with
    | .none => "-"
    | .query e => "query:" ++ raw e
    | .command e => "command:" ++ raw e
    | .topic t r e => "topic:" ++ raw t ++ ":" ++ roleName r ++ (if e = [] then "" else ":" ++ raw e)
  "(svc " ++ raw s.name ++ " " ++ opt ++
    String.join (s.methods.map fun m =>
      let http := match m.http with
        | some h => verbName h.verb ++ ":" ++ raw h.path ++ ":" ++ rawOr h.body
        | none => "-"
      let mo := match m.mopt with
        | .none => "-" | .get => "get" | .list => "list" | .events => "events"
      s!" (m {raw m.name} {raw m.input} {raw m.output} {http} {mo})") ++ ")"

def fileStr (f : FileSkel) : String :=
  s!"(file {raw f.name} {raw f.pkg} (deps" ++ String.join (f.deps.map fun d => " " ++ raw d) ++
    ") (msgs" ++ String.join (f.msgs.map fun m => " " ++ msgStr m) ++
    ") (enums" ++ String.join (f.enums.map fun e => " " ++ enumStr e) ++
    ") (svcs" ++ String.join (f.svcs.map fun s => " " ++ svcStr s) ++ "))"

def skelStr (fs : List FileSkel) : String := " ".intercalate (fs.map fileStr)

end J5V.Compile
