import J5V.Compile.SourceDef
/-!
# FileSkel — what the compile model produces (core only)

The skeleton of a `descriptorpb.FileDescriptorProto` as j5convert builds it, *before* linking:
type names are the strings j5convert writes (absolute `.pkg.Name` for references, relative
`Outer.Inner` for inline types, map entries and service request / response types).
`Compile.Link` resolves them the way protocompile's linker does.
-/
namespace J5V.Compile

inductive PType where
  | string | bool | bytes | message | enum
  | int32 | int64 | uint32 | uint64 | float | double
  deriving Repr, DecidableEq, Inhabited

structure FieldSkel where
  name : Str
  jsonName : Str
  number : Nat
  type : PType
  repeated : Bool
  p3opt : Bool
  typeName : Str            -- `[]` = unset
  oneof : Option Nat
  req : Bool                -- (buf.validate.field).required
  ext : Str                 -- set member of (j5.ext.v1.field).type (+ "+flatten"); `[]` = unset
  deriving Repr, DecidableEq, Inhabited

inductive MsgKind where
  | object | oneof | mapentry | none
  deriving Repr, DecidableEq, Inhabited

structure EnumSkel where
  name : Str
  values : List (Str × Nat)
  deriving Repr, DecidableEq, Inhabited

inductive MsgSkel where
  | mk (name : Str) (kind : MsgKind) (psm : Option Psm) (fields : List FieldSkel)
      (msgs : List MsgSkel) (enums : List EnumSkel)

instance : Inhabited MsgSkel := ⟨.mk [] .none none [] [] []⟩

def MsgSkel.name : MsgSkel → Str | .mk n _ _ _ _ _ => n
def MsgSkel.kind : MsgSkel → MsgKind | .mk _ k _ _ _ _ => k
def MsgSkel.psm : MsgSkel → Option Psm | .mk _ _ p _ _ _ => p
def MsgSkel.fields : MsgSkel → List FieldSkel | .mk _ _ _ f _ _ => f
def MsgSkel.msgs : MsgSkel → List MsgSkel | .mk _ _ _ _ m _ => m
def MsgSkel.enums : MsgSkel → List EnumSkel | .mk _ _ _ _ _ e => e

/-- `google.api.http` pattern + body -/
structure HttpSkel where
  verb : Verb
  path : Str
  body : Str                -- `*` or `[]`
  deriving Repr, DecidableEq, Inhabited

structure MethodSkel where
  name : Str
  input : Str
  output : Str
  http : Option HttpSkel
  mopt : MOpt
  deriving Repr, DecidableEq, Inhabited

/-- `(j5.messaging.v1.service)` role -/
inductive Role where
  | publish | request | reply | upsert | event
  deriving Repr, DecidableEq, Inhabited

inductive SvcOpt where
  | none
  | query (entity : Str)
  | command (entity : Str)
  | topic (topicName : Str) (role : Role) (entityName : Str)   -- entityName `[]` for publish/request/reply
  deriving Repr, DecidableEq, Inhabited

structure SvcSkel where
  name : Str
  sopt : SvcOpt
  methods : List MethodSkel
  deriving Repr, DecidableEq, Inhabited

structure FileSkel where
  name : Str
  pkg : Str
  deps : List Str
  msgs : List MsgSkel
  enums : List EnumSkel
  svcs : List SvcSkel
  /-- files whose extensions are set somewhere in this file's options (not part of the
  descriptor; the link model checks them against `deps`) -/
  uses : List Str := []

instance : Inhabited FileSkel := ⟨⟨[], [], [], [], [], [], []⟩⟩

end J5V.Compile
