import J5V.Compile.ConvertProofs
import J5V.Compile.File
/-!
# Shape of services and topics (core only)
-/
namespace J5V.Compile

/-- the HTTP path of a method: base path joined with the method path (`path.Join`), `:name` parts
rewritten -/
def resolvedPath (bp : Option Str) (m : Method) : Str :=
  match bp with
  | some b => pathJoin [b, m.path]
  | none => m.path

/-- what `visitServiceMethodNode` emits for a method with a request and a supported verb -/
def methodSkelOf (bp : Option Str) (m : Method) : MethodSkel :=
  { name := m.name, input := m.name ++ b!"Request",
    output := (match m.response with
      | some _ => m.name ++ b!"Response"
      | none => b!"google.api.HttpBody"),
    http := some { verb := m.verb,
                   path := (rewritePath (m.request.getD []) (resolvedPath bp m)).1,
                   body := verbBody m.verb },
    mopt := m.mopt }

theorem walkMethod_node (c : Ctx) (bp : Option Str) (m : Method) (req : List Property)
    (hr : m.request = some req) :
    (walkMethod c bp m).node =
      some (m, m.name ++ b!"Request",
        (match m.response with | some _ => m.name ++ b!"Response" | none => b!"google.api.HttpBody"),
        resolvedPath bp m) := by
  unfold walkMethod resolvedPath
  simp only [hr]
  cases m.response <;> cases bp <;> rfl

theorem convMethod_skel (bp : Option Str) (m : Method) (req : List Property)
    (hr : m.request = some req) (hv : m.verb ≠ .unspecified) :
    (convMethod (m, m.name ++ b!"Request",
        (match m.response with | some _ => m.name ++ b!"Response" | none => b!"google.api.HttpBody"),
        resolvedPath bp m)).2 = some (methodSkelOf bp m) := by
  unfold convMethod methodSkelOf
  simp only [hr, hv, if_false, Option.getD]

theorem built_methods (c : Ctx) (bp : Option Str) (ms : List Method)
    (hreq : ∀ m ∈ ms, m.request.isSome = true) (hv : ∀ m ∈ ms, m.verb ≠ .unspecified) :
    (((ms.map (walkMethod c bp)).filterMap (·.node)).map convMethod).filterMap (·.2) =
      ms.map (methodSkelOf bp) := by
  induction ms with
  | nil => rfl
  | cons m rest ih =>
    have hm := hreq m (by simp)
    cases hr : m.request with
    | none => simp [hr] at hm
    | some req =>
      have h1 := walkMethod_node c bp m req hr
      have h2 := convMethod_skel bp m req hr (hv m (by simp))
      simp only [List.map_cons, List.filterMap_cons, h1, h2]
      rw [ih (fun x hx => hreq x (List.mem_cons_of_mem _ hx)) (fun x hx => hv x (List.mem_cons_of_mem _ hx))]

/-- **shape of a service** -/
theorem convService_shape (c : Ctx) (s : Service) (name : Str) (hn : s.name = some name)
    (hreq : ∀ m ∈ s.methods, m.request.isSome = true)
    (hv : ∀ m ∈ s.methods, m.verb ≠ .unspecified) :
    (convService c s).target = .service ∧ (convService c s).hard = false ∧
    (convService c s).svcs =
      [{ name := name ++ b!"Service", sopt := soptSkel s.sopt,
         methods := s.methods.map (methodSkelOf s.basePath) }] := by
  unfold convService
  simp only [hn, built_methods c s.basePath s.methods hreq hv, and_self]

/-- the request / response objects of every method are emitted in the service file, named
`<Method>Request` / `<Method>Response` -/
theorem walkMethod_msgs (c : Ctx) (bp : Option Str) (m : Method) (req : List Property)
    (hr : m.request = some req) :
    (declMsg c [] false [] (m.name ++ b!"Request") req [] none) ∈ (walkMethod c bp m).eff.msgs ∧
    ∀ res, m.response = some res →
      (declMsg c [] false [] (m.name ++ b!"Response") res [] none) ∈ (walkMethod c bp m).eff.msgs := by
  unfold walkMethod
  simp only [hr]
  constructor
  · cases m.response <;>
      simp [convVirtual, convDecl_msgs, Eff.add]
  · intro res hres
    simp [hres, convVirtual, convDecl_msgs, Eff.add]

/-! ## topics -/

/-- **shape of a topic**: when every message has a resolvable name, the steps are one message
object per message (virtual prepends first) and a final service `<CamelCase(name)>Topic` with one
method per message: input `<Name>Message`, output `google.protobuf.Empty`, no HTTP rule -/
theorem acceptTopic_shape (c : Ctx) (t : TopicNode)
    (hnames : ∀ m ∈ t.msgs, (topicMethodName t m).isSome = true) :
    (∀ s ∈ acceptTopic c t, s.target = .topic ∧ s.hard = false) ∧
    ∃ last, (acceptTopic c t).getLast? = some last ∧
      last.svcs =
        [{ name := toCamel t.name ++ b!"Topic", sopt := .topic t.topicName t.role t.entityName,
           methods := t.msgs.filterMap fun m => (topicMethodName t m).map fun n =>
             { name := n, input := n ++ b!"Message", output := googleProtoEmptyType, http := none,
               mopt := .none } }] := by
  constructor
  · intro s hs
    simp only [acceptTopic, List.mem_append, List.mem_map, List.mem_singleton] at hs
    rcases hs with ⟨m, hm, rfl⟩ | rfl
    · have := hnames m hm
      cases hmn : topicMethodName t m with
      | none => rw [hmn] at this; cases this
      | some n => exact ⟨rfl, rfl⟩
    · exact ⟨rfl, rfl⟩
  · refine ⟨{ target := .topic,
              eff := Eff.use messagingAnnotationsImport ++ Eff.imp messagingAnnotationsImport
                      ++ Eff.imp googleProtoEmptyImport,
              svcs := [{ name := toCamel t.name ++ b!"Topic",
                         sopt := .topic t.topicName t.role t.entityName,
                         methods := t.msgs.filterMap fun m => (topicMethodName t m).map fun n =>
                           { name := n, input := n ++ b!"Message", output := googleProtoEmptyType,
                             http := none, mopt := .none } }] }, ?_, rfl⟩
    simp only [acceptTopic, List.getLast?_append, List.getLast?_singleton]
    rfl

end J5V.Compile
