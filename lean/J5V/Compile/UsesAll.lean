import J5V.Compile.UsesFile
import J5V.Compile.ExactProofs
/-!
# Every generated file imports the file of every extension it sets (core only)

`proto.SetExtension` on an option message makes the generated file *use* the file that defines the
extension; the link step (`markExtensionImportsUsed`) looks each of them up among the file's
imports. Here: in every file `ConvertJ5File` returns, each used file is the file itself or one of
its dependencies — for objects, oneofs, enums, services, topics and entities, any nesting depth,
any rules. (The import facts of extractor E5, as a theorem about the model.)

Side condition: a *plain* service declaration carries no `(j5.ext.v1.service)` annotation (the
parser never produces one; only entity expansion annotates services, and it always emits the query
service — which imports the annotation file — into the same sub-package file).
-/
namespace J5V.Compile
open J5V.Go

/-- the uses of a service: imported by the service itself, except the service annotation, which
relies on some request object of the same file -/
theorem convService_uses (c : Ctx) (s : Service) :
    ∀ u ∈ (convService c s).eff.uses,
      u ∈ (convService c s).eff.imports ∨ (u = j5ExtImport ∧ s.sopt ≠ .none) := by
  have hwalk : EffClosed ((s.methods.map (walkMethod c s.basePath)).foldl (fun e w => e ++ w.eff) ({} : Eff)) :=
    effClosed_foldl (fun w : MethodWalk => w.eff) _ _ EffClosed.empty
      (by intro w hw; obtain ⟨m, _, rfl⟩ := List.mem_map.mp hw; exact walkMethod_closed c _ m)
  unfold convService
  cases hn : s.name with
  | none =>
    intro u hu
    exact Or.inl (hwalk u hu)
  | some name =>
    intro u hu
    simp only [Eff.uses_append, Eff.imports_append, List.mem_append] at hu ⊢
    rcases hu with ((hu | hu) | hu) | hu
    · exact Or.inl (Or.inl (Or.inl (Or.inl (hwalk u hu))))
    · -- an option of some rpc
      rcases uses_foldl_mem (fun b : Eff × Option MethodSkel => b.1) _ _ u hu with h0 | ⟨b, hb, hub⟩
      · simp at h0
      · obtain ⟨node, hnode, rfl⟩ := List.mem_map.mp hb
        rcases convMethod_usesOk node u hub with h1 | h1
        · exact Or.inl (Or.inl (Or.inl (Or.inr (imports_foldl_mem (fun b : Eff × Option MethodSkel => b.1) _ _ _ hb u h1))))
        · -- the method annotation: the request object of that method imports the file
          subst h1
          obtain ⟨w, hw, hwn⟩ := List.mem_filterMap.mp hnode
          obtain ⟨m, hm, rfl⟩ := List.mem_map.mp hw
          have himp : j5ExtImport ∈ (walkMethod c s.basePath m).eff.imports := by
            unfold walkMethod at hwn ⊢
            cases hr : m.request with
            | none => simp [hr] at hwn
            | some req =>
              simp only [Eff.imports_append, List.mem_append]
              exact Or.inl (convVirtual_imports_ext c _ _ _ _)
          exact Or.inl (Or.inl (Or.inl (Or.inl (imports_foldl_mem (fun w : MethodWalk => w.eff) _ _ _ hw _ himp))))
    · cases hu
    · by_cases hs : s.sopt = .none
      · simp [hs, Compile.when] at hu
      · simp only [hs, ne_eq, not_false_eq_true, decide_true, Compile.when, if_true, Eff.use,
          List.mem_singleton] at hu
        exact Or.inr ⟨hu, hs⟩

theorem acceptTopic_closed (c : Ctx) (tn : TopicNode) : ∀ s ∈ acceptTopic c tn, EffClosed s.eff := by
  intro s hs
  simp only [acceptTopic, List.mem_append, List.mem_map, List.mem_singleton] at hs
  rcases hs with ⟨m, _, rfl⟩ | rfl
  · cases topicMethodName tn m with
    | none => exact EffClosed.empty
    | some n => exact convVirtual_closed c _ _ _ _
  · intro u hu
    have hu' : u = messagingAnnotationsImport := by simpa [Eff.use, Eff.imp, Eff.add] using hu
    subst hu'
    simp [Eff.use, Eff.imp, Eff.add]

/-- uses of the steps of an item are imported by steps of the same item, except annotated services -/
theorem convItem_uses (c : Ctx) (i : Item) :
    ∀ u ∈ (convItem c i).flatMap (·.eff.uses),
      u ∈ (convItem c i).flatMap (·.eff.imports) ∨
        (u = j5ExtImport ∧ ∃ ss, i = .serviceFile ss ∧ ∃ s ∈ ss, s.sopt ≠ .none) := by
  intro u hu
  obtain ⟨st, hst, hus⟩ := List.mem_flatMap.mp hu
  cases i with
  | object o =>
    simp only [convItem, List.mem_singleton] at hst; subst hst
    exact Or.inl (List.mem_flatMap.mpr ⟨{ target := .main, eff := convDecl c [] false [] o },
      by simp [convItem], convDecl_uses_imported c [] false [] o u hus⟩)
  | oneof o =>
    simp only [convItem, List.mem_singleton] at hst; subst hst
    exact Or.inl (List.mem_flatMap.mpr ⟨{ target := .main, eff := convDecl c [] true [] o },
      by simp [convItem], convDecl_uses_imported c [] true [] o u hus⟩)
  | enum e => simp only [convItem, List.mem_singleton] at hst; subst hst; simp at hus
  | abort => simp only [convItem, List.mem_singleton] at hst; subst hst; simp at hus
  | serviceFile ss =>
    simp only [convItem, convServiceFile, List.mem_cons, List.mem_map] at hst
    rcases hst with rfl | ⟨s, hs, rfl⟩
    · simp at hus
    · rcases convService_uses c s u hus with h | ⟨h1, h2⟩
      · exact Or.inl (List.mem_flatMap.mpr ⟨convService c s, by
          simp only [convItem, convServiceFile, List.mem_cons, List.mem_map]
          exact Or.inr ⟨s, hs, rfl⟩, h⟩)
      · exact Or.inr ⟨h1, ss, rfl, s, hs, h2⟩
  | topicFile ts =>
    simp only [convItem, convTopicFile, convTopic, List.mem_cons, List.mem_flatMap] at hst
    rcases hst with rfl | ⟨t, ht, tn, htn, hst⟩
    · simp at hus
    · exact Or.inl (List.mem_flatMap.mpr ⟨st, by
        simp only [convItem, convTopicFile, convTopic, List.mem_cons, List.mem_flatMap]
        exact Or.inr ⟨t, ht, tn, htn, hst⟩, acceptTopic_closed c tn st hst u hus⟩)

/-- the query service of an entity imports `j5/ext/v1/annotations.proto` (request object of Get) -/
theorem queryService_imports_ext (c : Ctx) (pkg : Str) (e : Entity) :
    j5ExtImport ∈ (convItem c (.serviceFile [Entity.queryService pkg e])).flatMap (·.eff.imports) := by
  refine List.mem_flatMap.mpr ⟨convService c (Entity.queryService pkg e), by simp [convItem, convServiceFile], ?_⟩
  have hw : j5ExtImport ∈ (walkMethod c (Entity.queryService pkg e).basePath (Entity.getMethod e)).eff.imports := by
    unfold walkMethod
    simp only [Entity.getMethod, Eff.imports_append, List.mem_append]
    exact Or.inl (convVirtual_imports_ext c _ _ _ _)
  have hm : walkMethod c (Entity.queryService pkg e).basePath (Entity.getMethod e) ∈
      (Entity.queryService pkg e).methods.map (walkMethod c (Entity.queryService pkg e).basePath) :=
    List.mem_map_of_mem (by simp [Entity.queryService])
  have := imports_foldl_mem (fun w : MethodWalk => w.eff) _ ({} : Eff) _ hm _ hw
  unfold convService
  simp only [Entity.queryService] at this ⊢
  simp only [Eff.imports_append, List.mem_append]
  exact Or.inl (Or.inl (Or.inl this))

/-- annotated services only come from entities, next to the entity's query service -/
theorem annotated_has_query (pkg : Str) (elems : List Elem)
    (hplain : ∀ s, Elem.service s ∈ elems → s.sopt = .none) (ss : List Service)
    (hi : Item.serviceFile ss ∈ elems.flatMap (itemsOfElem pkg)) (s : Service) (hs : s ∈ ss)
    (hann : s.sopt ≠ .none) :
    ∃ e, Item.serviceFile [Entity.queryService pkg e] ∈ elems.flatMap (itemsOfElem pkg) := by
  obtain ⟨el, hel, hiel⟩ := List.mem_flatMap.mp hi
  cases el with
  | object o => simp [itemsOfElem] at hiel
  | oneof o => simp [itemsOfElem] at hiel
  | enum e => simp [itemsOfElem] at hiel
  | topic t => simp [itemsOfElem] at hiel
  | service s' =>
    simp only [itemsOfElem, List.mem_singleton, Item.serviceFile.injEq] at hiel
    subst hiel
    simp only [List.mem_singleton] at hs
    subst hs
    exact absurd (hplain _ hel) hann
  | entity e =>
    refine ⟨e, List.mem_flatMap.mpr ⟨.entity e, hel, ?_⟩⟩
    simp [itemsOfElem, Entity.expand]

theorem fresh_usesOk (c : Ctx) (f0 : FileB) (h0 : f0.uses = []) (t : Target) (items : List Item)
    (hann : ∀ ss, Item.serviceFile ss ∈ items → ∀ s ∈ ss, s.sopt ≠ .none →
      ∃ i ∈ items, i.target = .service ∧ j5ExtImport ∈ (convItem c i).flatMap (·.eff.imports)) :
    (targetFile c f0 t items).UsesOk := by
  intro u hu
  by_cases hown : u = (targetFile c f0 t items).name
  · exact Or.inl hown
  right
  rw [targetFile, FileB.run_name] at hown
  rw [targetFile, FileB.run_uses, h0, List.nil_append, stepsOf_flatMap, flatMap_flatMap'] at hu
  rw [targetFile, FileB.run_deps, mem_foldl_ensureImport, stepsOf_flatMap, flatMap_flatMap']
  refine Or.inr ⟨?_, hown⟩
  obtain ⟨i, hi, hui⟩ := List.mem_flatMap.mp hu
  obtain ⟨himem, hit⟩ := List.mem_filter.mp hi
  rcases convItem_uses c i u hui with h | ⟨h1, ss, rfl, s, hs, hsn⟩
  · exact List.mem_flatMap.mpr ⟨i, hi, h⟩
  · obtain ⟨j, hj, hjt, hjimp⟩ := hann ss himem s hs hsn
    have htt : t = .service := by
      have : Item.target (.serviceFile ss) = t := by simpa using hit
      exact this.symm
    subst htt
    rw [h1]
    exact List.mem_flatMap.mpr ⟨j, List.mem_filter.mpr ⟨hj, by simpa using hjt⟩, hjimp⟩

/-- **every file `ConvertJ5File` returns imports the file of every extension it sets** -/
theorem convertFile_uses_imported (res : Resolver) (path : Str) (imports : List Import)
    (elems : List Elem) (fs : List FileSkel) (h : convertFile res path imports elems = .ok fs)
    (hplain : ∀ s, Elem.service s ∈ elems → s.sopt = .none) :
    ∀ f ∈ fs, ∀ u ∈ f.uses, u = f.name ∨ u ∈ f.deps := by
  obtain ⟨im, hj, hfiles⟩ := convertFile_files res path imports elems fs h
  simp only [] at hfiles
  obtain ⟨subs, hfs, _, hsub, _⟩ := hfiles
  have hann : ∀ ss, Item.serviceFile ss ∈ elems.flatMap (itemsOfElem (packageFromFilename (path ++ b!".proto"))) →
      ∀ s ∈ ss, s.sopt ≠ .none →
      ∃ i ∈ elems.flatMap (itemsOfElem (packageFromFilename (path ++ b!".proto"))), i.target = .service ∧
        j5ExtImport ∈ (convItem { resolve := resolveTypeNoImport im res } i).flatMap (·.eff.imports) := by
    intro ss hi s hs hsn
    obtain ⟨e, he⟩ := annotated_has_query _ elems hplain ss hi s hs hsn
    exact ⟨_, he, rfl, queryService_imports_ext _ _ e⟩
  intro f hf
  rw [hfs] at hf
  rcases List.mem_cons.mp hf with rfl | hf
  · exact fresh_usesOk _ _ rfl .main _ hann
  · obtain ⟨kf, hkf, rfl⟩ := List.mem_map.mp hf
    obtain ⟨t, _, _, he⟩ := hsub kf hkf
    rw [he]
    exact fresh_usesOk _ _ rfl t _ hann

end J5V.Compile
