import J5V.Compile.NoPanic
import J5V.Compile.Walk
/-!
# Every extension a conversion sets is imported (core only)

`uses` records the files whose extensions are set on option messages; `imports` the
`ensureImport` calls. For every field, the files used are imported by the same branch, except
`j5/ext/v1/annotations.proto`, which the enclosing message imports. Hence for every declared
object / oneof (at any nesting depth) `uses ⊆ imports` — the link step's extension lookup
(`markExtensionImportsUsed`) cannot fail on what the conversion emitted.
-/
namespace J5V.Compile

/-- every used file is imported, up to the message-level import of the j5 extension file -/
def UsesOk (e : Eff) : Prop := ∀ u ∈ e.uses, u ∈ e.imports ∨ u = j5ExtImport

theorem UsesOk.empty : UsesOk {} := by intro u hu; simp at hu

theorem UsesOk.add {a b : Eff} (ha : UsesOk a) (hb : UsesOk b) : UsesOk (a ++ b) := by
  intro u hu
  simp only [Eff.add_def, Eff.add, List.mem_append] at hu ⊢
  rcases hu with h | h
  · rcases ha u h with h1 | h1
    · exact Or.inl (Or.inl h1)
    · exact Or.inr h1
  · rcases hb u h with h1 | h1
    · exact Or.inl (Or.inr h1)
    · exact Or.inr h1

theorem UsesOk.imp (p : Str) : UsesOk (Eff.imp p) := by intro u hu; simp [Eff.imp] at hu
theorem UsesOk.err : UsesOk Eff.err := by intro u hu; simp [Eff.err] at hu
theorem UsesOk.useExt : UsesOk (Eff.use j5ExtImport) := by
  intro u hu; simp [Eff.use] at hu; exact Or.inr hu
theorem UsesOk.j5Ext : UsesOk j5Ext := UsesOk.add (UsesOk.imp _) UsesOk.useExt
theorem UsesOk.when (b : Bool) {e : Eff} (h : UsesOk e) : UsesOk (when b e) := by
  cases b <;> simp [Compile.when, h, UsesOk.empty]
theorem UsesOk.listRules (lr : Bool) : UsesOk (listRulesEff lr) := by
  apply UsesOk.when
  intro u hu
  simp [Eff.add, Eff.imp, Eff.use] at hu ⊢
  exact Or.inl hu
theorem UsesOk.validate (b : Bool) : UsesOk (validateWithImport b) := by
  apply UsesOk.when
  intro u hu
  simp [Eff.add, Eff.imp, Eff.use] at hu ⊢
  exact Or.inl hu

theorem refField_usesOk (c : Ctx) (pkg schema : Str) (we : Bool) : UsesOk (refField c pkg schema we).1 := by
  unfold refField
  cases c.resolve pkg schema with
  | none => exact UsesOk.empty
  | some t => simp only []; split <;> exact UsesOk.imp _

theorem msgRefField_usesOk (c : Ctx) (pkg schema ext : Str) (rules : Rules) (lr : Bool) :
    UsesOk (msgRefField c pkg schema ext rules lr).eff ∧ UsesOk (msgRefField c pkg schema ext rules lr).walk := by
  unfold msgRefField
  have := refField_usesOk c pkg schema false
  cases h : refField c pkg schema false with
  | mk e o =>
    rw [h] at this
    cases o with
    | none => exact ⟨this, UsesOk.empty⟩
    | some t =>
      exact ⟨((this.add UsesOk.j5Ext).add (UsesOk.validate _)).add (UsesOk.listRules _), UsesOk.empty⟩

theorem enumFieldWith_usesOk (pre walk : Eff) (tn pfx : Str) (names : List Str) (rules : Rules)
    (lr : Option (List Str)) (h1 : UsesOk pre) (h2 : UsesOk walk) :
    UsesOk (enumFieldWith pre walk tn pfx names rules lr).eff ∧
      UsesOk (enumFieldWith pre walk tn pfx names rules lr).walk := by
  unfold enumFieldWith
  split
  · exact ⟨h1.add UsesOk.j5Ext, h2⟩
  split
  · exact ⟨(h1.add UsesOk.j5Ext).add (UsesOk.validate _), h2⟩
  · exact ⟨((h1.add UsesOk.j5Ext).add (UsesOk.validate _)).add (UsesOk.listRules _), h2⟩

theorem scalarField_usesOk (f : Field) (b : BF) (h : scalarField f = some b) :
    UsesOk b.eff ∧ UsesOk b.walk := by
  cases f <;> simp only [scalarField, Option.some.injEq, reduceCtorEq] at h
  case string rules lr =>
    subst h; exact ⟨(UsesOk.j5Ext.add (UsesOk.validate _)).add (UsesOk.listRules _), UsesOk.empty⟩
  case bool rules lr =>
    subst h; exact ⟨(UsesOk.j5Ext.add (UsesOk.validate _)).add (UsesOk.listRules _), UsesOk.empty⟩
  case bytes rules =>
    subst h; exact ⟨UsesOk.j5Ext.add (UsesOk.validate _), UsesOk.empty⟩
  case date rules lr =>
    subst h
    exact ⟨((UsesOk.imp _).add (UsesOk.when _ UsesOk.j5Ext)).add (UsesOk.listRules _), UsesOk.empty⟩
  case decimal rules lr =>
    subst h
    exact ⟨((UsesOk.imp _).add (UsesOk.when _ UsesOk.j5Ext)).add (UsesOk.listRules _), UsesOk.empty⟩
  case timestamp rules =>
    subst h; exact ⟨((UsesOk.imp _).add UsesOk.j5Ext).add (UsesOk.validate _), UsesOk.empty⟩
  case any =>
    subst h; exact ⟨(UsesOk.imp _).add UsesOk.useExt, UsesOk.empty⟩
  case integer fmt rules lr =>
    split at h <;> (simp only [Option.some.injEq] at h; subst h)
    · exact ⟨UsesOk.j5Ext, UsesOk.empty⟩
    · exact ⟨(UsesOk.j5Ext.add (UsesOk.validate _)).add (UsesOk.listRules _), UsesOk.empty⟩
  case float fmt rules lr =>
    split at h <;> (simp only [Option.some.injEq] at h; subst h)
    · exact ⟨UsesOk.empty, UsesOk.empty⟩
    · exact ⟨UsesOk.j5Ext.add (UsesOk.listRules _), UsesOk.empty⟩
  case key fmt ek rules lr =>
    subst h
    exact ⟨(((UsesOk.imp _).add UsesOk.j5Ext).add (UsesOk.listRules _)).add (UsesOk.validate _),
      UsesOk.empty⟩

/-- the effect of an inline message: its own `msgEff` plus the effects of its properties -/
theorem inlineEff_usesOk (msgs : List MsgSkel) (inner : Eff) (h : UsesOk inner) :
    UsesOk { msgs := msgs, imports := (msgEff none).imports ++ inner.imports, errs := inner.errs,
             panic := inner.panic, uses := (msgEff none).uses ++ inner.uses } := by
  intro u hu
  simp only [List.mem_append] at hu ⊢
  rcases hu with h1 | h1
  · right
    simpa [msgEff, Compile.when, Eff.add, Eff.imp, Eff.use] using h1
  · rcases h u h1 with h2 | h2
    · exact Or.inl (Or.inr h2)
    · exact Or.inr h2

theorem finishProperty_usesOk (name : Str) (req opt : Bool) (number : Nat) (io : Bool) (pre : Eff)
    (entries : List MsgSkel) (r : FieldRes) (rep : Bool) (h : UsesOk pre) :
    UsesOk (finishProperty name req opt number io pre entries r rep).eff := by
  unfold finishProperty
  simp only []
  have hreq : UsesOk (if (req || r.primaryKey) = true then
      validateWithImport true ++ Eff.imp j5ExtImport else {}) := by
    split
    · exact (UsesOk.validate _).add (UsesOk.imp _)
    · exact UsesOk.empty
  split
  · exact (h.add hreq).add UsesOk.err
  · exact h.add hreq

/-- `buildProperty` for a schema that is neither a map nor an array -/
theorem bProperty_usesOk_default (c : Ctx) (np : List Str) (io : Bool) (n : Nat) (name : Str)
    (req opt : Bool) (f : Field) (h : UsesOk (bField c np (toCamel name) f).eff)
    (hm : ∀ (i : Field) (r : Rules), f = .map i r → False)
    (ha : ∀ (i : Field) (r : Rules), f = .array i r → False) :
    UsesOk (bProperty c np io n (.mk name req opt f)).eff := by
  rw [bProperty]
  · cases hr : (bField c np (toCamel name) f).res with
    | none => exact h.add UsesOk.err
    | some r => exact finishProperty_usesOk _ _ _ _ _ _ _ _ _ h
  · exact hm
  · exact ha

mutual
theorem bField_usesOk (c : Ctx) (np : List Str) (d : Str) :
    ∀ f : Field, UsesOk (bField c np d f).eff ∧ UsesOk (bField c np d f).walk
  | .objectRef pkg schema fl rules => by rw [bField]; exact msgRefField_usesOk c _ _ _ _ _
  | .oneofRef pkg schema rules lr => by rw [bField]; exact msgRefField_usesOk c _ _ _ _ _
  | .enumRef pkg schema rules lr => by
    rw [bField]
    have := refField_usesOk c pkg schema true
    cases h : refField c pkg schema true with
    | mk e o =>
      rw [h] at this
      cases o with
      | none => exact ⟨this, UsesOk.empty⟩
      | some t =>
        simp only []
        cases t.kind with
        | enum pfx names => exact enumFieldWith_usesOk _ _ _ _ _ _ _ this UsesOk.empty
        | message o => exact ⟨this, UsesOk.empty⟩
  | .objectInl name props fl rules => by
    rw [bField]
    have ih := bProps_usesOk c (np ++ [if name = [] then d else name]) false 1 props
    have he := inlineEff_usesOk
      [mkMsg (if name = [] then d else name) false none
        (bProps c (np ++ [if name = [] then d else name]) false 1 props).flds
        (bProps c (np ++ [if name = [] then d else name]) false 1 props).eff.msgs
        (bProps c (np ++ [if name = [] then d else name]) false 1 props).eff.enums] _ ih
    exact ⟨((he.add UsesOk.j5Ext).add (UsesOk.validate _)).add (UsesOk.listRules _), he⟩
  | .oneofInl name props rules lr => by
    rw [bField]
    have ih := bProps_usesOk c (np ++ [if name = [] then d else name]) true 1 props
    have he := inlineEff_usesOk
      ((bProps c (np ++ [if name = [] then d else name]) true 1 props).entries ++
        [mkMsg (if name = [] then d else name) true none
          (bProps c (np ++ [if name = [] then d else name]) true 1 props).flds
          (bProps c (np ++ [if name = [] then d else name]) true 1 props).eff.msgs
          (bProps c (np ++ [if name = [] then d else name]) true 1 props).eff.enums]) _ ih
    exact ⟨((he.add UsesOk.j5Ext).add (UsesOk.validate _)).add (UsesOk.listRules _), he⟩
  | .enumInl e rules lr => by
    rw [bField]
    simp only [enumTKind]
    exact enumFieldWith_usesOk _ _ _ _ _ _ _ (by intro u hu; simp at hu) (by intro u hu; simp at hu)
  | .array items rules => by
    rw [bField]
    have ih := bField_usesOk c np d items
    exact ⟨ih.2, ih.2⟩
  | .map items rules => by
    rw [bField]
    have ih := bField_usesOk c np d items
    exact ⟨ih.2, ih.2⟩
  | .string rules lr => by
    rw [bField_scalar c np d (.string rules lr) _ rfl]; exact scalarField_usesOk (.string rules lr) _ rfl
  | .bool rules lr => by
    rw [bField_scalar c np d (.bool rules lr) _ rfl]; exact scalarField_usesOk (.bool rules lr) _ rfl
  | .bytes rules => by
    rw [bField_scalar c np d (.bytes rules) _ rfl]; exact scalarField_usesOk (.bytes rules) _ rfl
  | .date rules lr => by
    rw [bField_scalar c np d (.date rules lr) _ rfl]; exact scalarField_usesOk (.date rules lr) _ rfl
  | .decimal rules lr => by
    rw [bField_scalar c np d (.decimal rules lr) _ rfl]; exact scalarField_usesOk (.decimal rules lr) _ rfl
  | .timestamp rules => by
    rw [bField_scalar c np d (.timestamp rules) _ rfl]; exact scalarField_usesOk (.timestamp rules) _ rfl
  | .any => by
    rw [bField_scalar c np d .any _ rfl]; exact scalarField_usesOk .any _ rfl
  | .integer fmt rules lr => by
    cases h : scalarField (.integer fmt rules lr) with
    | none => simp only [scalarField] at h; split at h <;> simp at h
    | some b => rw [bField_scalar c np d _ b h]; exact scalarField_usesOk _ b h
  | .float fmt rules lr => by
    cases h : scalarField (.float fmt rules lr) with
    | none => simp only [scalarField] at h; split at h <;> simp at h
    | some b => rw [bField_scalar c np d _ b h]; exact scalarField_usesOk _ b h
  | .key fmt ek rules lr => by
    rw [bField_scalar c np d (.key fmt ek rules lr) _ rfl]
    exact scalarField_usesOk (.key fmt ek rules lr) _ rfl

theorem bProperty_usesOk (c : Ctx) (np : List Str) (io : Bool) (n : Nat) :
    ∀ p : Property, UsesOk (bProperty c np io n p).eff
  | .mk name req opt schema => by
    cases schema with
    | map items rules =>
      have ih := bField_usesOk c np (toCamel name) items
      rw [bProperty]
      cases hr : (bField c np (toCamel name) items).res with
      | none => exact ih.1.add UsesOk.err
      | some r =>
        exact finishProperty_usesOk _ _ _ _ _ _ _ _ _ ((ih.1.add UsesOk.j5Ext).add (UsesOk.validate _))
    | array items rules =>
      have ih := bField_usesOk c np (toCamel name) items
      rw [bProperty]
      cases hr : (bField c np (toCamel name) items).res with
      | none => exact ih.1.add UsesOk.err
      | some r =>
        exact finishProperty_usesOk _ _ _ _ _ _ _ _ _ ((ih.1.add UsesOk.j5Ext).add (UsesOk.validate _))
    | string rules lr => exact bProperty_usesOk_default c np io n name req opt _ (bField_usesOk c np _ _).1 (by intro i r h; cases h) (by intro i r h; cases h)
    | bool rules lr => exact bProperty_usesOk_default c np io n name req opt _ (bField_usesOk c np _ _).1 (by intro i r h; cases h) (by intro i r h; cases h)
    | bytes rules => exact bProperty_usesOk_default c np io n name req opt _ (bField_usesOk c np _ _).1 (by intro i r h; cases h) (by intro i r h; cases h)
    | date rules lr => exact bProperty_usesOk_default c np io n name req opt _ (bField_usesOk c np _ _).1 (by intro i r h; cases h) (by intro i r h; cases h)
    | decimal rules lr => exact bProperty_usesOk_default c np io n name req opt _ (bField_usesOk c np _ _).1 (by intro i r h; cases h) (by intro i r h; cases h)
    | timestamp rules => exact bProperty_usesOk_default c np io n name req opt _ (bField_usesOk c np _ _).1 (by intro i r h; cases h) (by intro i r h; cases h)
    | any => exact bProperty_usesOk_default c np io n name req opt _ (bField_usesOk c np _ _).1 (by intro i r h; cases h) (by intro i r h; cases h)
    | integer fmt rules lr => exact bProperty_usesOk_default c np io n name req opt _ (bField_usesOk c np _ _).1 (by intro i r h; cases h) (by intro i r h; cases h)
    | float fmt rules lr => exact bProperty_usesOk_default c np io n name req opt _ (bField_usesOk c np _ _).1 (by intro i r h; cases h) (by intro i r h; cases h)
    | key fmt ek rules lr => exact bProperty_usesOk_default c np io n name req opt _ (bField_usesOk c np _ _).1 (by intro i r h; cases h) (by intro i r h; cases h)
    | objectRef pkg sc fl rules => exact bProperty_usesOk_default c np io n name req opt _ (bField_usesOk c np _ _).1 (by intro i r h; cases h) (by intro i r h; cases h)
    | objectInl nm props fl rules => exact bProperty_usesOk_default c np io n name req opt _ (bField_usesOk c np _ _).1 (by intro i r h; cases h) (by intro i r h; cases h)
    | oneofRef pkg sc rules lr => exact bProperty_usesOk_default c np io n name req opt _ (bField_usesOk c np _ _).1 (by intro i r h; cases h) (by intro i r h; cases h)
    | oneofInl nm props rules lr => exact bProperty_usesOk_default c np io n name req opt _ (bField_usesOk c np _ _).1 (by intro i r h; cases h) (by intro i r h; cases h)
    | enumRef pkg sc rules lr => exact bProperty_usesOk_default c np io n name req opt _ (bField_usesOk c np _ _).1 (by intro i r h; cases h) (by intro i r h; cases h)
    | enumInl e rules lr => exact bProperty_usesOk_default c np io n name req opt _ (bField_usesOk c np _ _).1 (by intro i r h; cases h) (by intro i r h; cases h)

theorem bProps_usesOk (c : Ctx) (np : List Str) (io : Bool) (n : Nat) :
    ∀ ps : List Property, UsesOk (bProps c np io n ps).eff
  | [] => by rw [bProps_nil]; exact UsesOk.empty
  | p :: ps => by
    have a := bProperty_usesOk c np io n p
    have b := bProps_usesOk c np io (n + 1) ps
    rw [bProps_cons]
    cases io
    · simp only [Bool.false_eq_true, if_false]
      refine UsesOk.add ?_ b
      intro u hu
      exact a u hu
    · simp only [if_true]
      exact a.add b
end

end J5V.Compile

namespace J5V.Compile

theorem msgEff_uses (psm : Option Psm) : (msgEff psm).uses = [j5ExtImport] := by
  cases psm <;> simp [msgEff, Compile.when, Eff.add, Eff.imp, Eff.use]

theorem msgEff_imports_mem (psm : Option Psm) : j5ExtImport ∈ (msgEff psm).imports := by
  cases psm <;> simp [msgEff, Compile.when, Eff.add, Eff.imp, Eff.use]

mutual
/-- **a declared object / oneof imports the file of every extension it sets**, at any depth -/
theorem convDecl_uses_imported (c : Ctx) (np : List Str) (io : Bool) (virt : List Property) :
    ∀ o : ObjDecl, ∀ u ∈ (convDecl c np io virt o).uses, u ∈ (convDecl c np io virt o).imports
  | .mk name props nested psm => by
    intro u hu
    rw [convDecl] at hu ⊢
    simp only [List.mem_append] at hu ⊢
    have hj : j5ExtImport ∈ (if io = true then msgEff none else msgEff psm).imports := by
      split <;> exact msgEff_imports_mem _
    have hv := bProps_usesOk c (np ++ [name]) io 1 virt
    have hp := bProps_usesOk c (np ++ [name]) io (1 + virt.length) props
    rcases hu with ((hu | hu) | hu) | hu
    · rw [msgEff_uses] at hu
      simp only [List.mem_singleton] at hu
      subst hu
      exact Or.inl (Or.inl (Or.inl hj))
    · rcases hv u hu with h | h
      · exact Or.inl (Or.inl (Or.inr h))
      · subst h; exact Or.inl (Or.inl (Or.inl hj))
    · rcases hp u hu with h | h
      · exact Or.inl (Or.inr h)
      · subst h; exact Or.inl (Or.inl (Or.inl hj))
    · exact Or.inr (convNested_uses_imported c (np ++ [name]) nested u hu)
theorem convNested_uses_imported (c : Ctx) (np : List Str) :
    ∀ ns : List Nested, ∀ u ∈ (convNested c np ns).uses, u ∈ (convNested c np ns).imports
  | [] => by intro u hu; simp [convNested] at hu
  | .object o :: rest => by
    intro u hu
    rw [convNested] at hu ⊢
    simp only [Eff.add_def, Eff.add, List.mem_append] at hu ⊢
    rcases hu with h | h
    · exact Or.inl (convDecl_uses_imported c np false [] o u h)
    · exact Or.inr (convNested_uses_imported c np rest u h)
  | .oneof o :: rest => by
    intro u hu
    rw [convNested] at hu ⊢
    simp only [Eff.add_def, Eff.add, List.mem_append] at hu ⊢
    rcases hu with h | h
    · exact Or.inl (convDecl_uses_imported c np true [] o u h)
    · exact Or.inr (convNested_uses_imported c np rest u h)
  | .enum e :: rest => by
    intro u hu
    rw [convNested] at hu ⊢
    simp only [Eff.add_def, Eff.add, List.nil_append] at hu ⊢
    exact convNested_uses_imported c np rest u hu
end

end J5V.Compile
