import J5V.Compile.LinkImports
import J5V.Compile.ValidPkg
/-!
# Link bridge "no import cycle" (core only)

`linkFiles` first checks that no file handed to the linker lies on an import cycle
(`searchLinker`'s `CircularDependencyError`). Package-level acyclicity (`rankOk`, part of
`ValidBundle`) is not enough: two files of ONE package that refer to each other's types import
each other. The source-level condition is a rank on generated file names (`fileRankOk`, a `Bool`):
import constants have rank 0, every main file a positive rank below its `service` / `topic`
sub-package files, and every reference occurring in a source file resolves — in the resolver
computed from the sources — into the file itself or into a file of smaller rank.
-/
namespace J5V.Compile
open J5V.Go

/-! ## cycles and ranks -/

theorem reachesSelf_rank (univ : List LFile) (rk : Str → Nat)
    (h : ∀ g ∈ univ, ∀ d ∈ g.deps, rk d < rk g.name) (start : Str) :
    ∀ (fuel : Nat) (cur : Str), reachesSelf univ start fuel cur = true → rk start < rk cur := by
  intro fuel
  induction fuel with
  | zero => intro cur hc; simp [reachesSelf] at hc
  | succ n ih =>
    intro cur hc
    rw [reachesSelf] at hc
    cases hf : univ.find? (·.name = cur) with
    | none => simp [hf] at hc
    | some f =>
      rw [hf] at hc
      simp only [List.any_eq_true, Bool.or_eq_true, decide_eq_true_eq] at hc
      obtain ⟨d, hd, hcase⟩ := hc
      have hfm : f ∈ univ := List.mem_of_find?_eq_some hf
      have hfn : f.name = cur := by simpa using List.find?_some hf
      have hlt := h f hfm d hd
      rw [hfn] at hlt
      rcases hcase with rfl | hr
      · exact hlt
      · exact Nat.lt_trans (ih d hr) hlt

/-- a universe with a rank that decreases along every import has no cycle -/
theorem no_cycle_of_rank (univ : List LFile) (rk : Str → Nat)
    (h : ∀ g ∈ univ, ∀ d ∈ g.deps, rk d < rk g.name) (files : List FileSkel) (n : Nat) :
    files.any (fun f => reachesSelf univ f.name n f.name) = false := by
  rw [Bool.eq_false_iff]
  intro hany
  obtain ⟨f, _, hf⟩ := List.any_eq_true.mp hany
  exact Nat.lt_irrefl _ (reachesSelf_rank univ rk h f.name n f.name hf)

/-! ## the source-level rank condition -/

def fileRankOkSrc (b : Bundle) (rk : Str → Nat) (p : Pkg) : SrcFile → Bool
  | .proto _ _ _ => true
  | .j5s path imports elems _ =>
    let main := path ++ b!".proto"
    let pkg := packageFromFilename main
    match j5Imports pkg imports with
    | .ok im =>
      decide (0 < rk main) && decide (rk main < rk (subPackageFileName main b!"service")) &&
        decide (rk main < rk (subPackageFileName main b!"topic")) &&
        (fileRefs pkg elems).all fun r =>
          match resolveTypeNoImport im (resolverOf b p) r.1 r.2 with
          | some t => decide (t.file = main) || decide (rk t.file < rk main)
          | none => true
    | _ => true

/-- decidable, on the sources alone: `rk` is a file rank for the bundle -/
def fileRankOk (b : Bundle) (rk : Str → Nat) : Bool :=
  constImports.all (fun i => rk i = 0) && b.pkgs.all fun p => p.files.all (fileRankOkSrc b rk p)

/-- a generated file of the bundle: some file `ConvertJ5File` returns for some source file of some
package, under the resolver computed from the sources -/
def GenBy (b : Bundle) (g : FileSkel) : Prop :=
  ∃ q ∈ b.pkgs, ∃ path imports elems decl, SrcFile.j5s path imports elems decl ∈ q.files ∧
    ∃ fs, convertFile (resolverOf b q) path imports elems = .ok fs ∧ g ∈ fs

/-- along every import of a generated file the rank decreases -/
theorem genBy_rank (b : Bundle) (rk : Str → Nat) (hrk : fileRankOk b rk = true) (g : FileSkel)
    (hg : GenBy b g) : ∀ d ∈ g.deps, rk d < rk g.name := by
  obtain ⟨q, hq, path, imports, elems, decl, hsrc, fs, hconv, hgfs⟩ := hg
  simp only [fileRankOk, Bool.and_eq_true, List.all_eq_true, decide_eq_true_eq] at hrk
  obtain ⟨hconst, hpk⟩ := hrk
  have hsrcok := hpk q hq _ hsrc
  obtain ⟨im, hj, hfrom⟩ := convertFile_deps_from (resolverOf b q) path imports elems fs hconv
  obtain ⟨hname, hself⟩ := convertFile_names (resolverOf b q) path imports elems fs hconv g hgfs
  simp only [fileRankOkSrc, hj, Bool.and_eq_true, decide_eq_true_eq, List.all_eq_true] at hsrcok
  obtain ⟨⟨⟨hpos, hsvc⟩, htop⟩, hrefs⟩ := hsrcok
  have hmainle : rk (path ++ b!".proto") ≤ rk g.name := by
    rcases hname with h | h | h <;> rw [h]
    · exact Nat.le_refl _
    · exact Nat.le_of_lt hsvc
    · exact Nat.le_of_lt htop
  intro d hd
  rcases hfrom g hgfs d hd with hc | ⟨pkg, schema, t, href, hres, rfl⟩
  · rw [hconst d hc]
    exact Nat.lt_of_lt_of_le hpos hmainle
  · have := hrefs (pkg, schema) href
    simp only [hres, Bool.or_eq_true, decide_eq_true_eq] at this
    rcases this with h | h
    · -- the reference points into the main file: `g` is a sub-package file
      rcases hname with hn | hn | hn
      · exact absurd (by rw [hn, ← h]; exact hd) hself
      · rw [hn, h]; exact hsvc
      · rw [hn, h]; exact htop
    · exact Nat.lt_of_lt_of_le h hmainle

/-! ## every linked file of a valid bundle is a generated file of the bundle -/

/-- loading a package of a valid bundle: as `load_accepts`, and every file the loaded package
carries (its own and those of its transitive dependencies) is a generated file of the bundle -/
theorem load_genBy (b : Bundle) (r : Str → Nat) (hv : ValidBundle b r) :
    ∀ (f : Nat) (chain : List Str) (n : Str), r n < f → (∀ c ∈ chain, r n < r c) →
      ((b.find n).isSome = true ∨ builtinPkgs.contains n = true) →
      ∃ l, loadPkg b f chain n = .ok l ∧ l.name = n ∧ l.exports = exportsOf b n ∧
        ∀ g ∈ l.files ++ l.depFiles, GenBy b g := by
  obtain ⟨hr, _, hb, hpk⟩ := hv
  intro f
  induction f with
  | zero => intro chain n h; omega
  | succ k ih =>
    intro chain n hf hc hloc
    rw [loadPkg]
    have hnc : chain.contains n = false := by
      cases h : chain.contains n with
      | false => rfl
      | true => have := hc n (by simpa using h); omega
    simp only [hnc, Bool.false_eq_true, if_false]
    cases hfind : b.find n with
    | none =>
      simp only [hfind, Option.isSome_none, Bool.false_eq_true, false_or] at hloc
      simp only [hloc, if_true]
      exact ⟨_, rfl, rfl, by simp [exportsOf, hfind], by intro g hg; simp at hg⟩
    | some pkg =>
      simp only []
      have hmem : pkg ∈ b.pkgs := List.mem_of_find?_eq_some hfind
      have hname : pkg.name = n := by simpa using List.find?_some hfind
      obtain ⟨_, hok⟩ := hpk pkg hmem
      simp only [okPkg, Bool.and_eq_true, List.all_eq_true, Bool.or_eq_true] at hok
      obtain ⟨hfiles, hdeps⟩ := hok
      have hs : summaries pkg.files = .ok (pkgSums pkg) :=
        summaries_of_all_ok pkg.files (fun f hf' => fileSummary_accepts b hb pkg hmem f (hfiles f hf'))
      simp only [hs]
      have hrank := rankOk_dep b r hr n pkg (pkgSums pkg) hfind hs
      have hload : ∀ d ∈ depNamesOf n (pkgSums pkg),
          loadPkg b k (chain ++ [n]) d = .ok (loadOf b k (chain ++ [n]) d) ∧
          (loadOf b k (chain ++ [n]) d).name = d ∧
          (loadOf b k (chain ++ [n]) d).exports = exportsOf b d ∧
          ∀ g ∈ (loadOf b k (chain ++ [n]) d).files ++ (loadOf b k (chain ++ [n]) d).depFiles, GenBy b g := by
        intro d hd
        have hdr := hrank d hd
        obtain ⟨l, hl, h1, h2, h3⟩ := ih (chain ++ [n]) d (by omega)
          (by
            intro c hcm
            rcases List.mem_append.mp hcm with h | h
            · have := hc c h; omega
            · simp only [List.mem_singleton] at h; subst h; exact hdr)
          (hdeps d (hname ▸ hd))
        have : loadOf b k (chain ++ [n]) d = l := by simp [loadOf, hl]
        rw [this]
        exact ⟨hl, h1, h2, h3⟩
      rw [seqLoad_of_all_ok _ _ (loadOf b k (chain ++ [n])) (fun d hd => (hload d hd).1)]
      simp only []
      have hresolver : mkResolver n (pkgSums pkg) ((depNamesOf n (pkgSums pkg)).map (loadOf b k (chain ++ [n]))) =
          resolverOf b pkg := by
        simp only [mkResolver, resolverOf, hname, List.map_map]
        congr 1
        apply List.map_congr_left
        intro d hd
        simp only [Function.comp, (hload d hd).2.1, (hload d hd).2.2.1]
      rw [hresolver]
      have hconv : ∀ f ∈ pkg.files, convOk (resolverOf b pkg) f := by
        intro f hf'
        cases f with
        | proto path msgs enums => trivial
        | j5s path imports elems decl =>
          have hokf := hfiles _ hf'
          simp only [okSrcFile, Bool.and_eq_true, decide_eq_true_eq] at hokf
          exact convertFile_accepts (resolverOf b pkg) path imports elems (resolverOf_wf b hb pkg hmem)
            hokf.1.2 hokf.2
      rw [convertAll_of_all_ok _ _ hconv]
      refine ⟨_, rfl, rfl, by simp [mkLoaded, exportsOf, hfind], ?_⟩
      intro g hg
      simp only [mkLoaded, List.mem_append, List.mem_flatMap, List.mem_map] at hg
      rcases hg with ⟨src, hsrc, hgs⟩ | ⟨l', ⟨d, hd, rfl⟩, hgl⟩
      · cases src with
        | proto path msgs enums => simp [convOf] at hgs
        | j5s path imports elems decl =>
          obtain ⟨fs, hfs⟩ := hconv _ hsrc
          simp only [convOf, hfs] at hgs
          exact ⟨pkg, hmem, path, imports, elems, decl, hsrc, fs, hfs, hgs⟩
      · exact (hload d hd).2.2.2 g (List.mem_append.mpr hgl)

/-- **no import cycle.** In a valid bundle with a file rank, the cycle check of `linkFiles` passes
for every package: no file handed to the linker reaches itself through imports. -/
theorem link_acyclic (b : Bundle) (r : Str → Nat) (hv : ValidBundle b r) (rk : Str → Nat)
    (hrk : fileRankOk b rk = true) (p : Pkg) (hp : p ∈ b.pkgs) :
    ∃ l, loadPkg b (b.pkgs.length + 1) [] p.name = .ok l ∧
      ∀ n, (sortFiles l.files).any (fun f =>
        reachesSelf ((sortFiles l.files).map (·.lfile) ++ (l.depFiles.map (·.lfile) ++ l.protos.map protoLFile)
          ++ builtinFiles) f.name n f.name) = false := by
  obtain ⟨l, hl, _, _, hgen⟩ := load_genBy b r hv (b.pkgs.length + 1) [] p.name (hv.2.1 _)
    (by intro c hc; cases hc) (Or.inl (by rw [(hv.2.2.2 p hp).1]; rfl))
  refine ⟨l, hl, fun n => no_cycle_of_rank _ rk ?_ _ n⟩
  intro g hg d hd
  simp only [List.mem_append, List.mem_map] at hg
  rcases hg with ((⟨f, hf, rfl⟩ | ⟨f, hf, rfl⟩ | ⟨pr, _, rfl⟩) | hbi)
  · exact genBy_rank b rk hrk f (hgen f (List.mem_append.mpr (Or.inl
      ((sortFiles_perm_self l.files).mem_iff.mp hf)))) d hd
  · exact genBy_rank b rk hrk f (hgen f (List.mem_append.mpr (Or.inr hf))) d hd
  · obtain ⟨a, b', c', d'⟩ := pr
    simp [protoLFile] at hd
  · have : ∀ g ∈ builtinFiles, g.deps = [] := by decide
    rw [this g hbi] at hd
    cases hd

end J5V.Compile
