import J5V.Compile.AppendDecl
import J5V.Compile.Congr
import J5V.Compile.PermFiles
/-!
# Appending a declaration, at package level (C13) — core only

`CompilePackage` before and after a declaration is appended to one file of the package. The
export table (and possibly the dependency table) of the package changes with the edit; what is
needed is only that the references of the *existing* declarations resolve as before
(`AgreeOn`, true when the names the edit introduces are fresh). Then every generated file of the
old compile is still generated, with the old messages / enums / services as a prefix.
-/
namespace J5V.Compile
open J5V.Go

/-- the resolver a loaded package offered to its own files -/
def Loaded.resolver (l : Loaded) : Resolver :=
  { pkgName := l.name, exports := l.exports, deps := l.deps }

/-- what a successful load of a local package consists of -/
theorem loadPkg_ok_inv (b : Bundle) (fuel : Nat) (chain : List Str) (name : Str) (p : Pkg)
    (l : Loaded) (hf : b.find name = some p) (h : loadPkg b (fuel + 1) chain name = .ok l) :
    l.files = p.files.flatMap (convOf l.resolver) ∧ ∀ f ∈ p.files, convOk l.resolver f := by
  rw [loadPkg] at h
  split at h
  · cases h
  · simp only [hf] at h
    cases hs : summaries p.files with
    | err t => simp [hs] at h
    | panic w => simp [hs] at h
    | ok sums =>
      simp only [hs] at h
      cases hl : seqLoad (fun d => loadPkg b fuel (chain ++ [name]) d) (depNamesOf name sums) with
      | err t => simp [hl] at h
      | panic w => simp [hl] at h
      | ok ls =>
        simp only [hl] at h
        cases hc : convertAll (mkResolver name sums ls) p.files with
        | err t => simp [hc] at h
        | panic w => simp [hc] at h
        | ok files =>
          simp only [hc, Outcome.ok.injEq] at h
          subst h
          exact convertAll_ok _ p.files files hc

/-- references of one source file -/
def srcFileRefs : SrcFile → List (Str × Str)
  | .proto _ _ _ => []
  | .j5s path _ elems _ => fileRefs (packageFromFilename (path ++ b!".proto")) elems

/-- two resolvers agree on the references of a source file, looked up through the file's own
import map -/
def AgreeFile (res res' : Resolver) : SrcFile → Prop
  | .proto _ _ _ => True
  | .j5s path imports elems _ =>
    ∀ im, j5Imports (packageFromFilename (path ++ b!".proto")) imports = .ok im →
      AgreeOn { resolve := resolveTypeNoImport im res } { resolve := resolveTypeNoImport im res' }
        (fileRefs (packageFromFilename (path ++ b!".proto")) elems)

theorem convOf_congr (res res' : Resolver) (f : SrcFile) (h : AgreeFile res res' f) :
    convOf res f = convOf res' f := by
  cases f with
  | proto path msgs enums => rfl
  | j5s path imports elems decl =>
    simp only [convOf]
    rw [convertFile_congr' res res' path imports elems h]

/-- extension relation between generated files -/
def FileSkel.Le (f f' : FileSkel) : Prop :=
  f'.name = f.name ∧ f'.pkg = f.pkg ∧ f.msgs <+: f'.msgs ∧ f.enums <+: f'.enums ∧ f.svcs <+: f'.svcs

theorem FileSkel.Le.refl (f : FileSkel) : f.Le f :=
  ⟨rfl, rfl, List.prefix_refl _, List.prefix_refl _, List.prefix_refl _⟩

/-- **Append a declaration, package level.** -/
theorem append_decl_pkg (b b' : Bundle) (name : Str) (p p' : Pkg) (l l' : Loaded)
    (fuel fuel' : Nat) (chain chain' : List Str)
    (hf : b.find name = some p) (hf' : b'.find name = some p')
    (hl : loadPkg b (fuel + 1) chain name = .ok l)
    (hl' : loadPkg b' (fuel' + 1) chain' name = .ok l')
    (pre post : List SrcFile) (path : Str) (imports : List Import) (elems : List Elem) (decl : Str)
    (e : Elem)
    (hp : p.files = pre ++ [.j5s path imports elems decl] ++ post)
    (hp' : p'.files = pre ++ [.j5s path imports (elems ++ [e]) decl] ++ post)
    (hagree : ∀ f ∈ p.files, AgreeFile l.resolver l'.resolver f) :
    ∀ f ∈ l.files, ∃ f' ∈ l'.files, f.Le f' := by
  obtain ⟨hfiles, _⟩ := loadPkg_ok_inv b fuel chain name p l hf hl
  obtain ⟨hfiles', hok'⟩ := loadPkg_ok_inv b' fuel' chain' name p' l' hf' hl'
  rw [hfiles, hp]
  rw [hfiles', hp']
  intro f hfm
  simp only [List.flatMap_append, List.flatMap_cons, List.flatMap_nil, List.append_nil,
    List.mem_append] at hfm ⊢
  have hmem : ∀ g, g ∈ pre ∨ g ∈ post → g ∈ p.files := by
    intro g hg
    rw [hp]
    rcases hg with h | h
    · simp [h]
    · simp [h]
  rcases hfm with (hfm | hfm) | hfm
  · -- a file before the edited one: converted identically
    obtain ⟨g, hg, hfg⟩ := List.mem_flatMap.mp hfm
    rw [convOf_congr _ _ g (hagree g (hmem g (Or.inl hg)))] at hfg
    exact ⟨f, Or.inl (Or.inl (List.mem_flatMap.mpr ⟨g, hg, hfg⟩)), FileSkel.Le.refl f⟩
  · -- the edited file
    have hag := hagree (.j5s path imports elems decl) (by rw [hp]; simp)
    rw [convOf_congr _ _ _ hag] at hfm
    -- both conversions under the new resolver succeed
    have hok2 : convOk l'.resolver (.j5s path imports (elems ++ [e]) decl) :=
      hok' _ (by rw [hp']; simp)
    obtain ⟨fs', hfs'⟩ := hok2
    simp only [convOf] at hfm
    cases hc : convertFile l'.resolver path imports elems with
    | err t => simp [hc] at hfm
    | panic w => simp [hc] at hfm
    | ok fs =>
      simp only [hc] at hfm
      obtain ⟨f', hf'm, h1, h2, h3, h4, h5⟩ :=
        convertFile_append_decl l'.resolver path imports elems e fs fs' hc hfs' f hfm
      refine ⟨f', Or.inl (Or.inr ?_), ⟨h1, h2, h3, h4, h5⟩⟩
      simp only [convOf, hfs']
      exact hf'm
  · obtain ⟨g, hg, hfg⟩ := List.mem_flatMap.mp hfm
    rw [convOf_congr _ _ g (hagree g (hmem g (Or.inr hg)))] at hfg
    exact ⟨f, Or.inr (List.mem_flatMap.mpr ⟨g, hg, hfg⟩), FileSkel.Le.refl f⟩

end J5V.Compile
