import J5V.Compile.EvolveSeq
import J5V.Compile.AppendEditSvc
/-!
# A field appended at any depth (C13) — core only, conversion level

`editProps (.field prop) path ps = some ps'` walks `path` through inline objects / oneofs (through
array and map items) and appends `prop` at the end of the property list it reaches. For the same
conversion context the results of `bProps` are related by `PRsLe`: the fields of the list itself a
prefix (equal when the path is not empty), every nested message found again grown at most
(`MsgSkel.LeDeep`, recursively), enums and map entries kept.
-/
namespace J5V.Compile

/-- results of a property list before / after an append somewhere below it -/
def PRsLe (r r' : PRs) : Prop :=
  r.flds <+: r'.flds ∧ MsgsLeDeep r.eff.msgs r'.eff.msgs ∧ (∀ e ∈ r.eff.enums, e ∈ r'.eff.enums) ∧
    (∀ m ∈ r.entries, m ∈ r'.entries)

/-- results of `buildFieldNode` + `buildField` before / after -/
def BFLe (b b' : BF) : Prop :=
  b'.res = b.res ∧ MsgsLeDeep b.eff.msgs b'.eff.msgs ∧ b'.eff.enums = b.eff.enums ∧
    MsgsLeDeep b.walk.msgs b'.walk.msgs ∧ b'.walk.enums = b.walk.enums

/-- results of one property before / after -/
def PRLe (r r' : PR) : Prop :=
  r'.fld = r.fld ∧ r'.entries = r.entries ∧ MsgsLeDeep r.eff.msgs r'.eff.msgs ∧
    r'.eff.enums = r.eff.enums

theorem MsgsLeDeep.append {a a' b b' : List MsgSkel} (h1 : MsgsLeDeep a a') (h2 : MsgsLeDeep b b') :
    MsgsLeDeep (a ++ b) (a' ++ b') := by
  intro m hm
  rcases List.mem_append.mp hm with hm | hm
  · obtain ⟨m', hm', hle⟩ := h1 m hm
    exact ⟨m', List.mem_append_left _ hm', hle⟩
  · obtain ⟨m', hm', hle⟩ := h2 m hm
    exact ⟨m', List.mem_append_right _ hm', hle⟩

theorem MsgsLeDeep.append_right_new {a a' : List MsgSkel} (b : List MsgSkel) (h1 : MsgsLeDeep a a') :
    MsgsLeDeep a (a' ++ b) := by
  intro m hm
  obtain ⟨m', hm', hle⟩ := h1 m hm
  exact ⟨m', List.mem_append_left _ hm', hle⟩

theorem PRsLe.refl (r : PRs) : PRsLe r r :=
  ⟨List.prefix_refl _, MsgsLeDeep.refl _, fun _ h => h, fun _ h => h⟩

/-! ## inline objects / oneofs -/


theorem msgInlField_parts (inner : Eff) (tn ext : Str) (rules : Rules) (lr : Bool) :
    (msgInlField inner tn ext rules lr).eff.msgs = inner.msgs ∧
    (msgInlField inner tn ext rules lr).eff.enums = inner.enums ∧
    (msgInlField inner tn ext rules lr).walk = inner ∧
    (msgInlField inner tn ext rules lr).res =
      some { type := .message, typeName := tn, ext := ext, hasValidate := !rules.isEmpty } := by
  simp [msgInlField, Eff.add_msgs, Eff.add_enums]

theorem mkMsg_deep (nm : Str) (io : Bool) (psm : Option Psm) (r r' : PRs) (X X' : List MsgSkel)
    (Y Y' : List EnumSkel) (h : PRsLe r r') (hX : MsgsLeDeep X X') (hY : EnumsLe Y Y') :
    (mkMsg nm io psm r.flds (r.eff.msgs ++ X) (r.eff.enums ++ Y)).LeDeep
      (mkMsg nm io psm r'.flds (r'.eff.msgs ++ X') (r'.eff.enums ++ Y')) := by
  apply MsgSkel.LeDeep.mk
  · rfl
  · rfl
  · rfl
  · exact h.1
  · exact MsgsLeDeep.append h.2.1 hX
  · intro e he
    simp only [mkMsg, MsgSkel.enums, List.mem_append] at he ⊢
    rcases he with he | he
    · exact ⟨e, Or.inl (h.2.2.1 e he), rfl, List.prefix_refl _⟩
    · obtain ⟨e', he', hh⟩ := hY e he
      exact ⟨e', Or.inr he', hh⟩

theorem mkMsg_deep0 (nm : Str) (io : Bool) (psm : Option Psm) (r r' : PRs) (h : PRsLe r r') :
    (mkMsg nm io psm r.flds r.eff.msgs r.eff.enums).LeDeep
      (mkMsg nm io psm r'.flds r'.eff.msgs r'.eff.enums) := by
  have := mkMsg_deep nm io psm r r' [] [] [] [] h (MsgsLeDeep.refl _) (EnumsLe.refl _)
  simpa using this

/-- **inline types**: the field's own result does not depend on the inner property list; the
message of the inline type grows -/
theorem bField_inline_deep (c : Ctx) :
    ∀ (f : Field) (qs : List Property) (k : List Property → Field), inlineProps f = some (qs, k) →
      ∀ qs' : List Property, (∀ np io n, PRsLe (bProps c np io n qs) (bProps c np io n qs')) →
      ∀ np d, BFLe (bField c np d f) (bField c np d (k qs'))
  | .objectInl name ps fl rules, qs, k, h, qs', ih, np, d => by
    simp only [inlineProps, Option.some.injEq, Prod.mk.injEq] at h
    obtain ⟨rfl, rfl⟩ := h
    rw [bField, bField]
    have hle := ih (np ++ [if name = [] then d else name]) false 1
    have hm := mkMsg_deep0 (if name = [] then d else name) false none _ _ hle
    refine ⟨?_, ?_, ?_, ?_, ?_⟩
    · rw [(msgInlField_parts _ _ _ _ _).2.2.2, (msgInlField_parts _ _ _ _ _).2.2.2]
    · rw [(msgInlField_parts _ _ _ _ _).1, (msgInlField_parts _ _ _ _ _).1]
      intro m hm'
      simp only [List.mem_singleton] at hm'
      subst hm'
      exact ⟨_, by simp, hm⟩
    · rw [(msgInlField_parts _ _ _ _ _).2.1, (msgInlField_parts _ _ _ _ _).2.1]
    · rw [(msgInlField_parts _ _ _ _ _).2.2.1, (msgInlField_parts _ _ _ _ _).2.2.1]
      intro m hm'
      simp only [List.mem_singleton] at hm'
      subst hm'
      exact ⟨_, by simp, hm⟩
    · rw [(msgInlField_parts _ _ _ _ _).2.2.1, (msgInlField_parts _ _ _ _ _).2.2.1]
  | .oneofInl name ps rules lr, qs, k, h, qs', ih, np, d => by
    simp only [inlineProps, Option.some.injEq, Prod.mk.injEq] at h
    obtain ⟨rfl, rfl⟩ := h
    rw [bField, bField]
    have hle := ih (np ++ [if name = [] then d else name]) true 1
    have hm := mkMsg_deep0 (if name = [] then d else name) true none _ _ hle
    have hmsgs : MsgsLeDeep
        ((bProps c (np ++ [if name = [] then d else name]) true 1 ps).entries ++
          [mkMsg (if name = [] then d else name) true none
            (bProps c (np ++ [if name = [] then d else name]) true 1 ps).flds
            (bProps c (np ++ [if name = [] then d else name]) true 1 ps).eff.msgs
            (bProps c (np ++ [if name = [] then d else name]) true 1 ps).eff.enums])
        ((bProps c (np ++ [if name = [] then d else name]) true 1 qs').entries ++
          [mkMsg (if name = [] then d else name) true none
            (bProps c (np ++ [if name = [] then d else name]) true 1 qs').flds
            (bProps c (np ++ [if name = [] then d else name]) true 1 qs').eff.msgs
            (bProps c (np ++ [if name = [] then d else name]) true 1 qs').eff.enums]) := by
      apply MsgsLeDeep.append
      · exact MsgsLeDeep.of_mem hle.2.2.2
      · intro m hm'
        simp only [List.mem_singleton] at hm'
        subst hm'
        exact ⟨_, by simp, hm⟩
    refine ⟨?_, ?_, ?_, ?_, ?_⟩
    · rw [(msgInlField_parts _ _ _ _ _).2.2.2, (msgInlField_parts _ _ _ _ _).2.2.2]
    · rw [(msgInlField_parts _ _ _ _ _).1, (msgInlField_parts _ _ _ _ _).1]
      exact hmsgs
    · rw [(msgInlField_parts _ _ _ _ _).2.1, (msgInlField_parts _ _ _ _ _).2.1]
    · rw [(msgInlField_parts _ _ _ _ _).2.2.1, (msgInlField_parts _ _ _ _ _).2.2.1]
      exact hmsgs
    · rw [(msgInlField_parts _ _ _ _ _).2.2.1, (msgInlField_parts _ _ _ _ _).2.2.1]
  | .array items r, qs, k, h, qs', ih, np, d => by
    simp only [inlineProps] at h
    cases hi : inlineProps items with
    | none => simp [hi] at h
    | some pk =>
      obtain ⟨qs0, k0⟩ := pk
      simp only [hi, Option.map_some, Option.some.injEq, Prod.mk.injEq] at h
      obtain ⟨rfl, rfl⟩ := h
      have := bField_inline_deep c items qs0 k0 hi qs' ih np d
      rw [bField, bField]
      exact ⟨rfl, this.2.2.2.1, this.2.2.2.2, this.2.2.2.1, this.2.2.2.2⟩
  | .map items r, qs, k, h, qs', ih, np, d => by
    simp only [inlineProps] at h
    cases hi : inlineProps items with
    | none => simp [hi] at h
    | some pk =>
      obtain ⟨qs0, k0⟩ := pk
      simp only [hi, Option.map_some, Option.some.injEq, Prod.mk.injEq] at h
      obtain ⟨rfl, rfl⟩ := h
      have := bField_inline_deep c items qs0 k0 hi qs' ih np d
      rw [bField, bField]
      exact ⟨rfl, this.2.2.2.1, this.2.2.2.2, this.2.2.2.1, this.2.2.2.2⟩
  | .string _ _, _, _, h, _, _, _, _ => by simp [inlineProps] at h
  | .bool _ _, _, _, h, _, _, _, _ => by simp [inlineProps] at h
  | .bytes _, _, _, h, _, _, _, _ => by simp [inlineProps] at h
  | .date _ _, _, _, h, _, _, _, _ => by simp [inlineProps] at h
  | .decimal _ _, _, _, h, _, _, _, _ => by simp [inlineProps] at h
  | .timestamp _, _, _, h, _, _, _, _ => by simp [inlineProps] at h
  | .any, _, _, h, _, _, _, _ => by simp [inlineProps] at h
  | .integer _ _ _, _, _, h, _, _, _, _ => by simp [inlineProps] at h
  | .float _ _ _, _, _, h, _, _, _, _ => by simp [inlineProps] at h
  | .key _ _ _ _, _, _, h, _, _, _, _ => by simp [inlineProps] at h
  | .objectRef _ _ _ _, _, _, h, _, _, _, _ => by simp [inlineProps] at h
  | .oneofRef _ _ _ _, _, _, h, _, _, _, _ => by simp [inlineProps] at h
  | .enumRef _ _ _ _, _, _, h, _, _, _, _ => by simp [inlineProps] at h
  | .enumInl _ _ _, _, _, h, _, _, _, _ => by simp [inlineProps] at h

/-! ## one property -/

theorem finishProperty_fld_indep (name : Str) (req opt : Bool) (number : Nat) (io : Bool)
    (pre pre' : Eff) (entries entries' : List MsgSkel) (r : FieldRes) (rep : Bool) :
    (finishProperty name req opt number io pre entries r rep).fld =
      (finishProperty name req opt number io pre' entries' r rep).fld := by
  unfold finishProperty
  dsimp only
  split <;> rfl

theorem finishProperty_entries (name : Str) (req opt : Bool) (number : Nat) (io : Bool)
    (pre : Eff) (entries : List MsgSkel) (r : FieldRes) (rep : Bool) :
    (finishProperty name req opt number io pre entries r rep).entries = entries := by
  unfold finishProperty
  dsimp only
  split <;> rfl

/-- the tail of `buildProperty` (error, or `finishProperty`) for two field results related by `BFLe` -/
theorem propTail_le (b b' : BF) (hb : BFLe b b') (nm : Str) (r o : Bool) (n : Nat) (io : Bool)
    (pre pre' : FieldRes → Eff)
    (hpre : ∀ r0, MsgsLeDeep (pre r0).msgs (pre' r0).msgs ∧ (pre' r0).enums = (pre r0).enums)
    (E : FieldRes → List MsgSkel) (F : FieldRes → FieldRes) (rep : Bool) :
    PRLe (match b.res with
          | none => ({ eff := b.eff ++ Eff.err } : PR)
          | some r0 => finishProperty nm r o n io (pre r0) (E r0) (F r0) rep)
         (match b'.res with
          | none => ({ eff := b'.eff ++ Eff.err } : PR)
          | some r0 => finishProperty nm r o n io (pre' r0) (E r0) (F r0) rep) := by
  obtain ⟨hres, hmsgs, henums, -, -⟩ := hb
  rw [hres]
  cases b.res with
  | none =>
    refine ⟨rfl, rfl, ?_, ?_⟩
    · simpa [Eff.err] using hmsgs
    · simp [Eff.err, henums]
  | some r0 =>
    refine ⟨finishProperty_fld_indep _ _ _ _ _ _ _ _ _ _ _, ?_, ?_, ?_⟩
    · rw [finishProperty_entries, finishProperty_entries]
    · rw [finishProperty_msgs, finishProperty_msgs]; exact (hpre r0).1
    · rw [finishProperty_enums, finishProperty_enums]; exact (hpre r0).2

theorem bProperty_inline_deep (c : Ctx) (f : Field) (qs : List Property) (k : List Property → Field)
    (h : inlineProps f = some (qs, k)) (qs' : List Property)
    (ih : ∀ np io n, PRsLe (bProps c np io n qs) (bProps c np io n qs'))
    (np : List Str) (io : Bool) (n : Nat) (nm : Str) (r o : Bool) :
    PRLe (bProperty c np io n (.mk nm r o f)) (bProperty c np io n (.mk nm r o (k qs'))) := by
  cases f with
  | objectInl name ps fl rules =>
    have hb := bField_inline_deep c _ qs k h qs' ih np (toCamel nm)
    simp only [inlineProps, Option.some.injEq, Prod.mk.injEq] at h
    obtain ⟨rfl, rfl⟩ := h
    simp only [bProperty]
    exact propTail_le _ _ hb nm r o n io (fun _ => _) (fun _ => _) (fun _ => ⟨hb.2.1, hb.2.2.1⟩)
      (fun _ => []) (fun r0 => r0) false
  | oneofInl name ps rules lr =>
    have hb := bField_inline_deep c _ qs k h qs' ih np (toCamel nm)
    simp only [inlineProps, Option.some.injEq, Prod.mk.injEq] at h
    obtain ⟨rfl, rfl⟩ := h
    simp only [bProperty]
    exact propTail_le _ _ hb nm r o n io (fun _ => _) (fun _ => _) (fun _ => ⟨hb.2.1, hb.2.2.1⟩)
      (fun _ => []) (fun r0 => r0) false
  | array items ar =>
    simp only [inlineProps] at h
    cases hi : inlineProps items with
    | none => simp [hi] at h
    | some pk =>
      obtain ⟨qs0, k0⟩ := pk
      simp only [hi, Option.map_some, Option.some.injEq, Prod.mk.injEq] at h
      obtain ⟨rfl, rfl⟩ := h
      have hb := bField_inline_deep c items qs0 k0 hi qs' ih np (toCamel nm)
      simp only [bProperty]
      exact propTail_le _ _ hb nm r o n io
        (fun r0 => (bField c np (toCamel nm) items).eff ++ j5Ext ++
          validateWithImport (r0.hasValidate || !ar.isEmpty))
        (fun r0 => (bField c np (toCamel nm) (k0 qs')).eff ++ j5Ext ++
          validateWithImport (r0.hasValidate || !ar.isEmpty))
        (fun r0 => by simp [hb.2.1, hb.2.2.1])
        (fun _ => []) (fun r0 => { r0 with ext := b!"array", hasValidate := r0.hasValidate || !ar.isEmpty }) true
  | map items mr =>
    simp only [inlineProps] at h
    cases hi : inlineProps items with
    | none => simp [hi] at h
    | some pk =>
      obtain ⟨qs0, k0⟩ := pk
      simp only [hi, Option.map_some, Option.some.injEq, Prod.mk.injEq] at h
      obtain ⟨rfl, rfl⟩ := h
      have hb := bField_inline_deep c items qs0 k0 hi qs' ih np (toCamel nm)
      simp only [bProperty]
      exact propTail_le _ _ hb nm r o n io
        (fun r0 => (bField c np (toCamel nm) items).eff ++ j5Ext ++
          validateWithImport (r0.hasValidate || !mr.isEmpty))
        (fun r0 => (bField c np (toCamel nm) (k0 qs')).eff ++ j5Ext ++
          validateWithImport (r0.hasValidate || !mr.isEmpty))
        (fun r0 => by simp [hb.2.1, hb.2.2.1])
        (fun r0 => [mkEntry (mapName (toSnake nm)) r0])
        (fun r0 => { type := .message, typeName := mapName (toSnake nm), ext := b!"map",
                     hasValidate := r0.hasValidate || !mr.isEmpty }) true
  | string _ _ => simp [inlineProps] at h
  | bool _ _ => simp [inlineProps] at h
  | bytes _ => simp [inlineProps] at h
  | date _ _ => simp [inlineProps] at h
  | decimal _ _ => simp [inlineProps] at h
  | timestamp _ => simp [inlineProps] at h
  | any => simp [inlineProps] at h
  | integer _ _ _ => simp [inlineProps] at h
  | float _ _ _ => simp [inlineProps] at h
  | key _ _ _ _ => simp [inlineProps] at h
  | objectRef _ _ _ _ => simp [inlineProps] at h
  | oneofRef _ _ _ _ => simp [inlineProps] at h
  | enumRef _ _ _ _ => simp [inlineProps] at h
  | enumInl _ _ _ => simp [inlineProps] at h

/-! ## the property list -/

theorem bProps_replace_le (c : Ctx) (np : List Str) (io : Bool) (n : Nat) (P1 P2 : List Property)
    (pr pr' : Property)
    (h : PRLe (bProperty c np io (n + P1.length) pr) (bProperty c np io (n + P1.length) pr')) :
    PRsLe (bProps c np io n (P1 ++ [pr] ++ P2)) (bProps c np io n (P1 ++ [pr'] ++ P2)) := by
  obtain ⟨hfld, hent, hmsgs, henums⟩ := h
  refine ⟨?_, ?_, ?_, ?_⟩
  · simp only [bProps_append_flds, bProps_cons, bProps_nil, List.length_append, List.length_cons,
      List.length_nil, hfld]
    exact List.prefix_refl _
  · simp only [bProps_append_eff, bProps_cons, bProps_nil, List.length_append, List.length_cons,
      List.length_nil, Eff.add_def, Eff.add_msgs, Eff.add_empty]
    apply MsgsLeDeep.append
    · apply MsgsLeDeep.append (MsgsLeDeep.refl _)
      cases io
      · simp only [Bool.false_eq_true, if_false, hent]
        exact MsgsLeDeep.append hmsgs (MsgsLeDeep.refl _)
      · simpa using hmsgs
    · exact MsgsLeDeep.refl _
  · intro e he
    simp only [bProps_append_eff, bProps_cons, bProps_nil, List.length_append, List.length_cons,
      List.length_nil, Eff.add_def, Eff.add_enums, Eff.add_empty] at he ⊢
    cases io
    · simpa [henums] using he
    · simpa [henums] using he
  · intro m hm
    simp only [bProps_append_entries, bProps_cons, bProps_nil, List.length_append, List.length_cons,
      List.length_nil, hent] at hm ⊢
    exact hm

theorem bProps_append_le (c : Ctx) (np : List Str) (io : Bool) (n : Nat) (ps extra : List Property) :
    PRsLe (bProps c np io n ps) (bProps c np io n (ps ++ extra)) := by
  refine ⟨?_, ?_, ?_, ?_⟩
  · rw [bProps_append_flds]; exact List.prefix_append _ _
  · rw [bProps_append_eff]
    exact MsgsLeDeep.of_mem fun m hm => List.mem_append_left _ hm
  · intro e he
    rw [bProps_append_eff]
    exact List.mem_append_left _ he
  · intro m hm
    rw [bProps_append_entries]
    exact List.mem_append_left _ hm

/-- **A field appended at any depth, same context.** -/
theorem editProps_deep (c : Ctx) (prop : Property) :
    ∀ (path : List PStep) (ps ps' : List Property), editProps (.field prop) path ps = some ps' →
      ∀ np io n, PRsLe (bProps c np io n ps) (bProps c np io n ps') := by
  intro path
  induction path with
  | nil =>
    intro ps ps' h np io n
    simp only [editProps, Option.some.injEq] at h
    subst h
    exact bProps_append_le c np io n ps [prop]
  | cons st rest ih =>
    intro ps ps' h np io n
    cases st with
    | prop j =>
      simp only [editProps] at h
      obtain ⟨a, a', h1, hf, h2, h3⟩ := setAt_some _ _ _ _ h
      cases a with
      | mk nm r o f =>
        simp only [] at hf
        cases hin : inlineProps f with
        | none =>
          exfalso
          simp only [hin] at hf
          cases rest <;> simp at hf
        | some pk =>
          obtain ⟨qs, k⟩ := pk
          simp only [hin] at hf
          obtain ⟨qs', hq, rfl⟩ := Option.map_eq_some_iff.mp hf
          have hle := bProperty_inline_deep c f qs k hin qs' (ih qs qs' hq) np io
            (n + (ps.take j).length) nm r o
          rw [h1, h2]
          exact bProps_replace_le c np io n _ _ _ _ hle
    | el i => simp [editProps] at h
    | nest k => simp [editProps] at h
    | method m => simp [editProps] at h
    | req => simp [editProps] at h
    | res => simp [editProps] at h
    | msg m => simp [editProps] at h
    | reqm m => simp [editProps] at h
    | repm m => simp [editProps] at h
    | edata => simp [editProps] at h
    | estatus => simp [editProps] at h
    | event k => simp [editProps] at h
    | command c => simp [editProps] at h
    | summary s => simp [editProps] at h

end J5V.Compile
