import J5V.Compile.Link
/-!
# Link bridge "relative names resolve" — the scoping lemma on the link model (core only)

j5convert refers to inline types, map entries and rpc messages by RELATIVE names. On the link
model: a relative name whose full form `<pkg>.<name>` is a type symbol of the file resolves to that
symbol from inside any stack of enclosing messages, provided no enclosing message has a child named
like the FIRST segment of the name (the capture condition — the recorded finding is exactly a
violation of it) and the first segment is itself a message of the package (or the whole name).
Stated on the symbol table of the generated file; the bridge from the sources (which symbols a
declaration emits, `SymProofs.declared_types_link`; which scopes enclose which reference) is the
open part.
-/
namespace J5V.Compile

theorem splitOnByte_ne_nil (c : Nat) (s : Str) : splitOnByte c s ≠ [] := by
  induction s with
  | nil => simp [splitOnByte]
  | cons v rest ih =>
    unfold splitOnByte
    split
    · simp
    · split <;> simp

theorem joinWith_splitOnByte (c : Nat) (s : Str) : joinWith [c] (splitOnByte c s) = s := by
  induction s with
  | nil => simp [splitOnByte, joinWith]
  | cons v rest ih =>
    unfold splitOnByte
    split
    · rename_i hv
      cases hs : splitOnByte c rest with
      | nil => exact absurd hs (splitOnByte_ne_nil c rest)
      | cons p ps =>
        rw [hs] at ih
        simp only [joinWith, List.nil_append, List.singleton_append, ih, hv]
    · cases hs : splitOnByte c rest with
      | nil => exact absurd hs (splitOnByte_ne_nil c rest)
      | cons p ps =>
        rw [hs] at ih
        simp only []
        cases ps with
        | nil => simp only [joinWith] at ih ⊢; rw [ih]
        | cons q qs => simp only [joinWith, List.cons_append] at ih ⊢; rw [ih]

/-- the longest package prefix comes first -/
theorem prefixList_head (pkg : Str) (h : pkg ≠ []) : ∃ rest, prefixList pkg = pkg :: rest := by
  unfold prefixList
  simp only [h, if_false]
  have hne := splitOnByte_ne_nil 46 pkg
  cases hl : (splitOnByte 46 pkg).length with
  | zero => exact absurd (List.eq_nil_of_length_eq_zero hl) hne
  | succ n =>
    refine ⟨((List.range' 1 n).map fun i =>
      joinWith b!"." ((splitOnByte 46 pkg).take (n + 1 - i))) ++ [[]], ?_⟩
    rw [List.range_succ_eq_map, List.map_cons, List.cons_append]
    congr 1
    · have : (splitOnByte 46 pkg).take (n + 1 - 0) = splitOnByte 46 pkg := by
        rw [Nat.sub_zero, ← hl]; exact List.take_length
      rw [this]
      exact joinWith_splitOnByte 46 pkg
    · rw [List.map_map, List.range'_eq_map_range]
      simp [List.map_map, Function.comp, Nat.add_comm]

theorem findSome?_append_none {α β : Type} (f : α → Option β) (l1 l2 : List α)
    (h : ∀ a ∈ l1, f a = none) : (l1 ++ l2).findSome? f = l2.findSome? f := by
  induction l1 with
  | nil => rfl
  | cons a rest ih =>
    simp only [List.cons_append, List.findSome?_cons, h a (by simp)]
    exact ih (fun x hx => h x (List.mem_cons_of_mem _ hx))

/-- **scoped resolution of a relative type name** on the link model -/
theorem resolveName_relative (self : LFile) (deps : List LFile) (scopes : List Str) (name : Str)
    (k k1 : SymKind) (hk : k = .msg ∨ k = .enum)
    (hrel : ∀ rest, name ≠ 46 :: rest) (hpkg : self.pkg ≠ [])
    (hsym : self.syms.lookup (qual self.pkg name) = some k)
    (hfirst : self.syms.lookup (qual self.pkg (firstPart name)) = some k1)
    (hagg : k1 = .msg ∨ firstPart name = name)
    (hnocap : ∀ m ∈ scopes, self.find (qual m (firstPart name)) = none) :
    resolveName self (self :: deps) scopes name = some (.sym (qual self.pkg name) k) := by
  have htype : (Found.sym (qual self.pkg name) k).isType = true := by
    rcases hk with rfl | rfl <;> rfl
  unfold resolveName
  split
  · rename_i abs; exact absurd rfl (hrel abs)
  · simp only []
    rw [findSome?_append_none]
    · -- file scope, longest prefix first
      obtain ⟨rest, hpl⟩ := prefixList_head self.pkg hpkg
      have hq1 : findVisible (self :: deps) (qual self.pkg (firstPart name)) =
          some (.sym (qual self.pkg (firstPart name)) k1) := by
        simp [findVisible, List.findSome?_cons, LFile.find, hfirst]
      have hq : findVisible (self :: deps) (qual self.pkg name) = some (.sym (qual self.pkg name) k) := by
        simp [findVisible, List.findSome?_cons, LFile.find, hsym]
      have hrr : resolveRelative (findVisible (self :: deps)) (qual self.pkg (firstPart name))
          (qual self.pkg name) = some (.sym (qual self.pkg name) k) := by
        unfold resolveRelative
        rw [hq1]
        simp only []
        by_cases he : qual self.pkg (firstPart name) = qual self.pkg name
        · rw [if_pos he]
          rw [he] at hfirst
          have : k1 = k := by rw [hsym] at hfirst; exact (Option.some.inj hfirst).symm
          rw [he, this]
        · rw [if_neg he]
          have hk1 : k1 = .msg := by
            rcases hagg with h | h
            · exact h
            · exact absurd (by rw [h]) he
          subst hk1
          simp only [Found.isAggregate, decide_true, Bool.true_or, Bool.not_true, Bool.false_eq_true,
            if_false, hq]
      simp only [List.findSome?_cons, List.findSome?_nil, hpl, hrr, htype, Bool.true_or, if_true]
    · intro r hr
      obtain ⟨m, hm, rfl⟩ := List.mem_map.mp hr
      have := hnocap m (List.mem_reverse.mp hm)
      simp [resolveRelative, this]

/-- …hence `resolveType` returns the fully-qualified name -/
theorem resolveType_relative (self : LFile) (deps : List LFile) (scopes : List Str) (name : Str)
    (k k1 : SymKind) (hk : k = .msg ∨ k = .enum)
    (hrel : ∀ rest, name ≠ 46 :: rest) (hpkg : self.pkg ≠ [])
    (hsym : self.syms.lookup (qual self.pkg name) = some k)
    (hfirst : self.syms.lookup (qual self.pkg (firstPart name)) = some k1)
    (hagg : k1 = .msg ∨ firstPart name = name)
    (hnocap : ∀ m ∈ scopes, self.find (qual m (firstPart name)) = none) :
    resolveType self (self :: deps) scopes k name = some (b!"." ++ qual self.pkg name) := by
  unfold resolveType
  rw [resolveName_relative self deps scopes name k k1 hk hrel hpkg hsym hfirst hagg hnocap]
  simp

/-- **resolution of an absolute type name** (`.pkg.Name`, what j5convert writes for references and
well-known types): the first visible file that knows the name decides; it is found when every file
visible before it neither declares the name nor has a package namespace matching it -/
theorem resolveType_absolute (self : LFile) (before after : List LFile) (g : LFile) (scopes : List Str)
    (abs : Str) (k : SymKind)
    (hbefore : ∀ f ∈ before, f.find abs = none)
    (hsym : g.syms.lookup abs = some k) :
    resolveType self (before ++ g :: after) scopes k (46 :: abs) = some (b!"." ++ abs) := by
  unfold resolveType resolveName
  simp only [findVisible]
  rw [findSome?_append_none _ _ _ hbefore]
  simp [List.findSome?_cons, LFile.find, hsym]

end J5V.Compile
