import J5V.Compile.DepsFrom
import J5V.Compile.UsesAll
import J5V.Compile.Congr
/-!
# Where the dependencies of a generated file come from (core only)

Lifts `convDecl_impFrom` through services, topics, entities (they expand to the same items), the
step machinery and `ensureImport` to whole files: every dependency of every file `ConvertJ5File`
returns — main file, `.service` and `.topic` sub-package files — is one of the import constants or
the file of a type that `resolveTypeNoImport` resolves in the file's context.
-/
namespace J5V.Compile
open J5V.Go

theorem ImpFrom.mono {c : Ctx} {R R' : Str → Str → Prop} {e : Eff} (h : ImpFrom c R e)
    (hRR : ∀ a b, R a b → R' a b) : ImpFrom c R' e := by
  intro i hi
  rcases h i hi with h1 | ⟨pkg, schema, t, hR, h2, h3⟩
  · exact Or.inl h1
  · exact Or.inr ⟨pkg, schema, t, hRR _ _ hR, h2, h3⟩

theorem impFrom_foldl {α : Type} (c : Ctx) (R : Str → Str → Prop) (f : α → Eff) (l : List α) (init : Eff)
    (hi : ImpFrom c R init)
    (h : ∀ a ∈ l, ImpFrom c R (f a)) : ImpFrom c R (l.foldl (fun e a => e ++ f a) init) := by
  induction l generalizing init with
  | nil => simpa using hi
  | cons a as ih =>
    simp only [List.foldl_cons]
    exact ih _ (hi.add (h a (by simp))) (fun b hb => h b (List.mem_cons_of_mem _ hb))

theorem convVirtual_impFrom (c : Ctx) (R : Str → Str → Prop) (name : Str) (virt props : List Property)
    (psm : Option Psm) (hR : ∀ r ∈ refsProps (virt ++ props), R r.1 r.2) :
    ImpFrom c R (convVirtual c name virt props psm) := by
  unfold convVirtual
  apply convDecl_impFrom c R [] false virt _
  intro r hr
  apply hR
  simpa [refsDecl, refsNested, refsProps_append] using hr

theorem walkMethod_impFrom (c : Ctx) (R : Str → Str → Prop) (bp : Option Str) (m : Method)
    (hR : ∀ o ∈ serviceObjects ({ name := none, basePath := bp, methods := [m] } : Service),
      ∀ r ∈ refsProps o.2, R r.1 r.2) :
    ImpFrom c R (walkMethod c bp m).eff := by
  unfold walkMethod
  cases hq : m.request with
  | none => intro u hu; simp [Eff.panicked] at hu
  | some req =>
    simp only []
    have h1 : ∀ r ∈ refsProps ([] ++ req), R r.1 r.2 := by
      intro r hr
      exact hR (m.name ++ b!"Request", req) (by simp [serviceObjects, hq]) r (by simpa using hr)
    cases hp : m.response with
    | none => exact (convVirtual_impFrom c R _ _ _ _ h1).add (ImpFrom.empty c R)
    | some res =>
      have h2 : ∀ r ∈ refsProps ([] ++ res), R r.1 r.2 := by
        intro r hr
        exact hR (m.name ++ b!"Response", res) (by simp [serviceObjects, hq, hp]) r (by simpa using hr)
      exact (convVirtual_impFrom c R _ _ _ _ h1).add (convVirtual_impFrom c R _ _ _ _ h2)

theorem impFrom_errs (c : Ctx) (R : Str → Str → Prop) (n : Nat) : ImpFrom c R ({ errs := n } : Eff) := by
  intro u hu; simp at hu

theorem convMethod_impFrom (c : Ctx) (R : Str → Str → Prop) (node : Method × Str × Str × Str) :
    ImpFrom c R (convMethod node).1 := by
  obtain ⟨m, input, output, resolved⟩ := node
  unfold convMethod
  simp only []
  have h0 : ImpFrom c R (Eff.imp googleApiAnnotationsImport) := ImpFrom.imp c R _ (by decide)
  cases m.request with
  | none => exact h0.add (ImpFrom.err c R)
  | some req =>
    simp only []
    have h1 : ImpFrom c R (when (output = b!"google.api.HttpBody") (Eff.imp googleApiHttpBodyImport)) :=
      ImpFrom.when c R _ (ImpFrom.imp c R _ (by decide))
    split
    · exact ((h0.add h1).add (impFrom_errs c R _)).add (ImpFrom.err c R)
    · exact ((h0.add h1).add (impFrom_errs c R _)).add
        ((ImpFrom.use c R _).add (ImpFrom.when c R _ (ImpFrom.use c R _)))

theorem convService_impFrom (c : Ctx) (R : Str → Str → Prop) (s : Service)
    (hR : ∀ o ∈ serviceObjects s, ∀ r ∈ refsProps o.2, R r.1 r.2) :
    ImpFrom c R (convService c s).eff := by
  have hwalk : ImpFrom c R ((s.methods.map (walkMethod c s.basePath)).foldl (fun e w => e ++ w.eff) ({} : Eff)) :=
    impFrom_foldl c R (fun w : MethodWalk => w.eff) _ _ (ImpFrom.empty c R)
      (by
        intro w hw
        obtain ⟨m, hm, rfl⟩ := List.mem_map.mp hw
        apply walkMethod_impFrom c R _ m
        intro o ho
        apply hR o
        simp only [serviceObjects, List.flatMap_cons, List.flatMap_nil, List.append_nil] at ho
        exact List.mem_flatMap.mpr ⟨m, hm, ho⟩)
  unfold convService
  cases hn : s.name with
  | none => exact hwalk
  | some name =>
    simp only []
    refine ((hwalk.add ?_).add (impFrom_errs c R _)).add (ImpFrom.when c R _ (ImpFrom.use c R _))
    exact impFrom_foldl c R (fun b : Eff × Option MethodSkel => b.1) _ _ (ImpFrom.empty c R)
      (by intro b hb; obtain ⟨node, _, rfl⟩ := List.mem_map.mp hb; exact convMethod_impFrom c R node)

theorem acceptTopic_impFrom (c : Ctx) (R : Str → Str → Prop) (tn : TopicNode)
    (hR : ∀ m ∈ tn.msgs, (topicMethodName tn m).isSome = true → ∀ r ∈ refsProps (tn.prepend ++ m.props), R r.1 r.2) :
    ∀ s ∈ acceptTopic c tn, ImpFrom c R s.eff := by
  intro s hs
  simp only [acceptTopic, List.mem_append, List.mem_map, List.mem_singleton] at hs
  rcases hs with ⟨m, hm, rfl⟩ | rfl
  · cases hq : topicMethodName tn m with
    | none => exact ImpFrom.empty c R
    | some n => exact convVirtual_impFrom c R _ _ _ _ (hR m hm (by simp [hq]))
  · exact ((ImpFrom.use c R _).add (ImpFrom.imp c R _ (by decide))).add (ImpFrom.imp c R _ (by decide))

/-- every step of every item imports only constants and files that a reference OF THAT ITEM
(`itemRefs`, what `SourceSummary` collects) resolves to -/
theorem convItem_impFrom (c : Ctx) (i : Item) :
    ∀ st ∈ convItem c i, ImpFrom c (fun a b => (a, b) ∈ itemRefs i) st.eff := by
  intro st hst
  cases i with
  | object o =>
    simp only [convItem, List.mem_singleton] at hst; subst hst
    exact convDecl_impFrom c _ [] false [] o (by intro r hr; simpa [itemRefs, refsProps] using hr)
  | oneof o =>
    simp only [convItem, List.mem_singleton] at hst; subst hst
    exact convDecl_impFrom c _ [] true [] o (by intro r hr; simpa [itemRefs, refsProps] using hr)
  | enum e =>
    simp only [convItem, List.mem_singleton] at hst; subst hst
    intro u hu; simp at hu
  | abort =>
    simp only [convItem, List.mem_singleton] at hst; subst hst
    intro u hu; simp at hu
  | serviceFile ss =>
    simp only [convItem, convServiceFile, List.mem_cons, List.mem_map] at hst
    rcases hst with rfl | ⟨s, hs, rfl⟩
    · intro u hu; simp at hu
    · apply convService_impFrom c _ s
      intro o ho r hr
      simp only [itemRefs, List.mem_flatMap]
      exact ⟨o, ⟨s, hs, ho⟩, hr⟩
  | topicFile ts =>
    simp only [convItem, convTopicFile, convTopic, List.mem_cons, List.mem_flatMap] at hst
    rcases hst with rfl | ⟨t, ht, tn, htn, hst⟩
    · intro u hu; simp at hu
    · apply acceptTopic_impFrom c _ tn _ st hst
      intro m hm hsome r hr
      simp only [itemRefs, List.mem_flatMap]
      obtain ⟨n, hn⟩ := Option.isSome_iff_exists.mp hsome
      refine ⟨(n ++ b!"Message", tn.prepend ++ m.props), ⟨t, ht, ?_⟩, hr⟩
      simp only [topicObjects, List.mem_flatMap, List.mem_filterMap]
      exact ⟨tn, htn, m, hm, by simp [hn]⟩

/-- the dependencies of a file built from the items of one target -/
theorem targetFile_deps_from (c : Ctx) (f0 : FileB) (t : Target) (items : List Item) :
    ∀ d ∈ (targetFile c f0 t items).deps,
      d ∈ f0.deps ∨ ImpSrc c (fun a b => (a, b) ∈ items.flatMap itemRefs) d := by
  intro d hd
  rw [targetFile, FileB.run_deps, mem_foldl_ensureImport] at hd
  rcases hd with h | ⟨h, _⟩
  · exact Or.inl h
  · right
    obtain ⟨st, hst, hds⟩ := List.mem_flatMap.mp h
    have hst' : st ∈ items.flatMap (convItem c) := (List.mem_filter.mp hst).1
    obtain ⟨i, hi, hsti⟩ := List.mem_flatMap.mp hst'
    exact ((convItem_impFrom c i st hsti).mono (fun a b hab => List.mem_flatMap.mpr ⟨i, hi, hab⟩)) d hds

/-- **where the dependencies of every generated file come from**: an import constant of j5convert
or the file that a reference of the SOURCE FILE (`fileRefs`: every reference `SourceSummary`
collects — fields at any depth, request / response / topic messages, entity parts) resolves to in
the file's context -/
theorem convertFile_deps_from (res : Resolver) (path : Str) (imports : List Import) (elems : List Elem)
    (fs : List FileSkel) (h : convertFile res path imports elems = .ok fs) :
    ∃ im, j5Imports (packageFromFilename (path ++ b!".proto")) imports = .ok im ∧
      ∀ f ∈ fs, ∀ d ∈ f.deps, d ∈ constImports ∨
        ∃ pkg schema t, (pkg, schema) ∈ fileRefs (packageFromFilename (path ++ b!".proto")) elems ∧
          resolveTypeNoImport im res pkg schema = some t ∧ t.file = d := by
  obtain ⟨im, hj, hfiles⟩ := convertFile_files res path imports elems fs h
  refine ⟨im, hj, ?_⟩
  simp only [] at hfiles
  obtain ⟨subs, hfs, _, hsub, _⟩ := hfiles
  intro f hf
  rw [hfs] at hf
  rcases List.mem_cons.mp hf with rfl | hf
  · intro d hd
    rcases targetFile_deps_from _ _ .main _ d hd with h0 | h1
    · simp at h0
    · exact h1
  · obtain ⟨kf, hkf, rfl⟩ := List.mem_map.mp hf
    obtain ⟨t, _, _, he⟩ := hsub kf hkf
    intro d hd
    rw [he] at hd
    rcases targetFile_deps_from _ _ t _ d hd with h0 | h1
    · simp [subFresh] at h0
    · exact h1

theorem targetFile_not_self (c : Ctx) (f0 : FileB) (t : Target) (items : List Item) (h0 : f0.deps = []) :
    (targetFile c f0 t items).name ∉ (targetFile c f0 t items).deps := by
  intro hd
  rw [targetFile, FileB.run_deps, mem_foldl_ensureImport, h0, FileB.run_name] at hd
  rcases hd with h | ⟨_, h⟩
  · cases h
  · exact h rfl

/-- the names of the files `ConvertJ5File` returns: the main file `<path>.proto`, or the
`service` / `topic` sub-package file of it; and no file depends on itself -/
theorem convertFile_names (res : Resolver) (path : Str) (imports : List Import) (elems : List Elem)
    (fs : List FileSkel) (h : convertFile res path imports elems = .ok fs) :
    ∀ f ∈ fs, (f.name = path ++ b!".proto" ∨
        f.name = subPackageFileName (path ++ b!".proto") b!"service" ∨
        f.name = subPackageFileName (path ++ b!".proto") b!"topic") ∧ f.name ∉ f.deps := by
  obtain ⟨im, hj, hfiles⟩ := convertFile_files res path imports elems fs h
  simp only [] at hfiles
  obtain ⟨subs, hfs, _, hsub, _⟩ := hfiles
  intro f hf
  rw [hfs] at hf
  rcases List.mem_cons.mp hf with rfl | hf
  · refine ⟨Or.inl ?_, ?_⟩
    · simp [targetFile, FileB.run_name, FileB.skel]
    · exact targetFile_not_self _ _ .main _ rfl
  · obtain ⟨kf, hkf, rfl⟩ := List.mem_map.mp hf
    obtain ⟨t, ht, _, he⟩ := hsub kf hkf
    rw [he]
    refine ⟨Or.inr ?_, ?_⟩
    · cases t with
      | main => simp [Target.sub] at ht
      | service =>
        left
        simp only [Target.sub, Option.some.injEq] at ht
        simp [targetFile, FileB.run_name, FileB.skel, subFresh, ← ht]
      | topic =>
        right
        simp only [Target.sub, Option.some.injEq] at ht
        simp [targetFile, FileB.run_name, FileB.skel, subFresh, ← ht]
    · exact targetFile_not_self _ _ t _ (by simp [subFresh])

end J5V.Compile
