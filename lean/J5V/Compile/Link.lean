import J5V.Compile.Package
/-!
# Link — a model-level `links` predicate (core only; spec + differential)

protocompile's linker is not part of /repo and is not mirrored line by line. This file states what
"the emitted descriptors link" means for the descriptors j5convert produces, following
`bufbuild/protocompile@v0.14.1/linker/resolve.go` for name resolution:

* every import of a file exists (a file of a local package, or a built-in of the Go registry);
* every type name resolves, by protobuf scoping (absolute names directly; relative names from
  the innermost enclosing message outwards, then through the package prefixes of the file), to a
  symbol of the right kind that is visible (own file or a direct import);
* every extension set on an option message is defined in a visible file
  (`markExtensionImportsUsed` of `protobuild/linker.go`);
* no symbol is declared twice among the files linked by one `CompilePackage` call;
* files do not import each other in a cycle (`CircularDependencyError` of `searchLinker`).

`linkFiles` also produces the *resolved* skeleton (fully-qualified type names), which is what the
Go side prints.
-/
namespace J5V.Compile
open J5V.Go

inductive SymKind where
  | msg | enum | svc | other
  deriving Repr, DecidableEq, Inhabited

/-- a file as the linker sees it -/
structure LFile where
  name : Str
  pkg : Str
  deps : List Str
  syms : List (Str × SymKind)      -- fully-qualified names without leading dot

def qual (pfx name : Str) : Str := if pfx = [] then name else pfx ++ b!"." ++ name

def enumSyms (pfx : Str) (e : EnumSkel) : List (Str × SymKind) :=
  (qual pfx e.name, .enum) :: e.values.map fun (v, _) => (qual pfx v, SymKind.other)

mutual
def msgSyms (pfx : Str) : MsgSkel → List (Str × SymKind)
  | .mk name kind _ fields msgs enums =>
    let full := qual pfx name
    (full, .msg) ::
      fields.map (fun f => (qual full f.name, SymKind.other)) ++
      (if kind = .oneof then [(qual full b!"type", SymKind.other)] else []) ++
      (fields.filter (·.p3opt)).map (fun f => (qual full (b!"_" ++ f.name), SymKind.other)) ++
      msgsSyms full msgs ++ enums.flatMap (enumSyms full)
def msgsSyms (pfx : Str) : List MsgSkel → List (Str × SymKind)
  | [] => []
  | m :: rest => msgSyms pfx m ++ msgsSyms pfx rest
end

def svcSyms (pfx : Str) (s : SvcSkel) : List (Str × SymKind) :=
  (qual pfx s.name, .svc) :: s.methods.map fun m => (qual (qual pfx s.name) m.name, SymKind.other)

def FileSkel.lfile (f : FileSkel) : LFile :=
  { name := f.name, pkg := f.pkg, deps := f.deps,
    syms := msgsSyms f.pkg f.msgs ++ f.enums.flatMap (enumSyms f.pkg) ++ f.svcs.flatMap (svcSyms f.pkg) }

/-- built-in files j5convert can import, with the symbols it can name -/
def builtinFiles : List LFile :=
  let f (name pkg : Str) (msgs : List Str) : LFile :=
    { name := name, pkg := pkg, deps := [], syms := msgs.map fun m => (qual pkg m, SymKind.msg) }
  [ f bufValidateImport b!"buf.validate" [],
    f j5ExtImport b!"j5.ext.v1" [],
    f j5DateImport b!"j5.types.date.v1" [b!"Date"],
    f j5DecimalImport b!"j5.types.decimal.v1" [b!"Decimal"],
    f j5ListAnnotationsImport b!"j5.list.v1" [],
    f pbTimestampImport b!"google.protobuf" [b!"Timestamp"],
    f j5AnyImport b!"j5.types.any.v1" [b!"Any"],
    f googleApiHttpBodyImport b!"google.api" [b!"HttpBody"],
    f googleApiAnnotationsImport b!"google.api" [],
    f googleProtoEmptyImport b!"google.protobuf" [b!"Empty"],
    f messagingAnnotationsImport b!"j5.messaging.v1" [],
    f b!"j5/state/v1/metadata.proto" b!"j5.state.v1"
      [b!"StateMetadata", b!"EventMetadata", b!"EventPublishMetadata"],
    f b!"j5/list/v1/page.proto" b!"j5.list.v1" [b!"PageRequest", b!"PageResponse"],
    f b!"j5/list/v1/query.proto" b!"j5.list.v1" [b!"QueryRequest"],
    f b!"j5/messaging/v1/upsert.proto" b!"j5.messaging.v1" [b!"UpsertMetadata"],
    f b!"j5/messaging/v1/reqres.proto" b!"j5.messaging.v1" [b!"RequestMetadata"] ]

/-- `matchesPkgNamespace` -/
def matchesPkgNamespace (fqn pkg : Str) : Bool :=
  pkg ≠ [] && (fqn = pkg ||
    (pkg.length > fqn.length && hasPrefix fqn pkg && pkg.getD fqn.length 0 = 46))

/-- what a symbol query returns -/
inductive Found where
  | sym (full : Str) (k : SymKind)
  | ns                   -- sentinel: a package namespace
  | missing              -- sentinel: qualified name whose first part matched but the rest did not
  deriving Repr, DecidableEq

def Found.isAggregate : Found → Bool
  | .sym _ k => k = .msg || k = .enum || k = .svc
  | .ns => true
  | .missing => true

def Found.isType : Found → Bool
  | .sym _ k => k = .msg || k = .enum
  | _ => false

/-- `resolveElementInFile` -/
def LFile.find (f : LFile) (n : Str) : Option Found :=
  match f.syms.lookup n with
  | some k => some (.sym n k)
  | none => if matchesPkgNamespace n f.pkg then some .ns else none

/-- `result.resolveElement`: this file first, then its direct imports -/
def findVisible (vis : List LFile) (n : Str) : Option Found := vis.findSome? (·.find n)

/-- `resolveElementRelative` -/
def resolveRelative (query : Str → Option Found) (n1 n : Str) : Option Found :=
  match query n1 with
  | none => none
  | some d =>
    if n1 = n then some d
    else if !d.isAggregate then none
    else match query n with
      | none => some .missing
      | some d' => some d'

/-- package prefixes, longest first, then the empty prefix (`CreatePrefixList`) -/
def prefixList (pkg : Str) : List Str :=
  if pkg = [] then [[]] else
  let parts := splitOnByte 46 pkg
  ((List.range parts.length).map fun i => joinWith b!"." (parts.take (parts.length - i))) ++ [[]]

def firstPart (name : Str) : Str := (splitOnByte 46 name).headD []

/-- `result.resolve` for a type reference (`onlyTypes = true`): `scopes` are the full names of
the enclosing messages, outermost first -/
def resolveName (self : LFile) (vis : List LFile) (scopes : List Str) (name : Str) : Option Found :=
  match name with
  | 46 :: abs => findVisible vis abs
  | _ =>
    let first := firstPart name
    let accept (d : Found) : Bool := d.isType || first ≠ name
    let msgScope (m : Str) : Option Found := resolveRelative self.find (qual m first) (qual m name)
    let fileScope : Option Found :=
      (prefixList self.pkg).findSome? fun p => resolveRelative (findVisible vis) (qual p first) (qual p name)
    (scopes.reverse.map msgScope ++ [fileScope]).findSome? fun r =>
      match r with
      | some d => if accept d then some d else none
      | none => none

/-- resolve a type name to a fully-qualified one of the wanted kind -/
def resolveType (self : LFile) (vis : List LFile) (scopes : List Str) (want : SymKind) (name : Str) :
    Option Str :=
  match resolveName self vis scopes name with
  | some (.sym full k) => if k = want then some (b!"." ++ full) else none
  | _ => none

def resolveField (self : LFile) (vis : List LFile) (scopes : List Str) (f : FieldSkel) :
    Option FieldSkel :=
  match f.type with
  | .message => (resolveType self vis scopes .msg f.typeName).map fun t => { f with typeName := t }
  | .enum => (resolveType self vis scopes .enum f.typeName).map fun t => { f with typeName := t }
  | _ => some f

mutual
def resolveMsg (self : LFile) (vis : List LFile) (scopes : List Str) (pfx : Str) :
    MsgSkel → Option MsgSkel
  | .mk name kind psm fields msgs enums =>
    let full := qual pfx name
    match fields.mapM (resolveField self vis (scopes ++ [full])), resolveMsgs self vis (scopes ++ [full]) full msgs with
    | some fs, some ms => some (.mk name kind psm fs ms enums)
    | _, _ => none
def resolveMsgs (self : LFile) (vis : List LFile) (scopes : List Str) (pfx : Str) :
    List MsgSkel → Option (List MsgSkel)
  | [] => some []
  | m :: rest =>
    match resolveMsg self vis scopes pfx m, resolveMsgs self vis scopes pfx rest with
    | some m', some rest' => some (m' :: rest')
    | _, _ => none
end

def resolveSvc (self : LFile) (vis : List LFile) (s : SvcSkel) : Option SvcSkel :=
  (s.methods.mapM fun (m : MethodSkel) =>
    match resolveType self vis [] .msg m.input, resolveType self vis [] .msg m.output with
    | some i, some o => some { m with input := i, output := o }
    | _, _ => none).map fun ms => { s with methods := ms }

def hasDup : List Str → Bool
  | [] => false
  | a :: rest => rest.contains a || hasDup rest

/-- link one file against the univ of files; `none` = the link step reports an error -/
def linkFile (univ : List LFile) (f : FileSkel) : Option FileSkel :=
  let self := f.lfile
  match f.deps.mapM fun d => univ.find? (·.name = d) with
  | none => none                                   -- import not found
  | some deps =>
    let vis := self :: deps
    if hasDup (self.syms.map (·.1)) then none
    else if !(f.uses.all fun u => u = f.name || f.deps.contains u) then none
    else
      match resolveMsgs self vis [] f.pkg f.msgs, f.svcs.mapM (resolveSvc self vis) with
      | some ms, some ss => some { f with msgs := ms, svcs := ss }
      | _, _ => none

/-- is `name` on an import cycle of the univ (bounded depth-first search) -/
def reachesSelf (univ : List LFile) (start : Str) : Nat → Str → Bool
  | 0, _ => false
  | fuel + 1, cur =>
    match univ.find? (·.name = cur) with
    | none => false
    | some f => f.deps.any fun d => d = start || reachesSelf univ start fuel d

/-- names of the files reached through imports from the work list (depth-first, bounded: every
pop costs one unit of fuel); `seen` accumulates in visit order -/
def reachNames (univ : List LFile) : Nat → List Str → List Str → List Str
  | 0, _, seen => seen
  | _ + 1, [], seen => seen
  | fuel + 1, n :: rest, seen =>
    if seen.contains n then reachNames univ fuel rest seen
    else
      match univ.find? (·.name = n) with
      | none => reachNames univ fuel rest (seen ++ [n])
      | some f => reachNames univ fuel (f.deps ++ rest) (seen ++ [n])

/-- every file the link of `files` pulls in (`searchLinker.resolveFile` walks the imports and
links each file into ONE `linker.Symbols`): the files themselves, then the imported files that
are not among them -/
def linkedSet (univ : List LFile) (files : List FileSkel) : List LFile :=
  let fuel := (files.flatMap (·.deps)).length + (univ.flatMap (·.deps)).length + 1
  let reach := reachNames univ fuel (files.flatMap (·.deps)) []
  files.map (·.lfile) ++
    reach.filterMap fun n => if files.any (·.name = n) then none else univ.find? (·.name = n)

/-- the link step of `CompilePackage` for the files of one package.
`others` = files of the other local packages reachable from it (already converted): they are
symbol tables here (their own type names are not re-resolved), but their symbols take part in the
duplicate check like those of every linked file. -/
def linkFiles (others : List LFile) (files : List FileSkel) : Outcome (List FileSkel) :=
  let univ := files.map (·.lfile) ++ others ++ builtinFiles
  if files.any (fun f => reachesSelf univ f.name univ.length f.name) then .err "import-cycle"
  else if hasDup ((linkedSet univ files).flatMap fun f => f.syms.map (·.1)) then .err "duplicate-symbol"
  else match files.mapM (linkFile univ) with
    | none => .err "link"
    | some fs => .ok fs

def protoLFile (p : Str × Str × List Str × List (Str × List Str)) : LFile :=
  let (path, pkg, msgs, enums) := p
  { name := path, pkg := pkg, deps := [],
    syms := msgs.map (fun m => (qual pkg m, SymKind.msg)) ++
      enums.flatMap fun (n, vals) => (qual pkg n, SymKind.enum) :: vals.map fun v => (qual pkg v, SymKind.other) }

/-- `CompilePackage`: load, sort the file names, link -/
def compileLinked (b : Bundle) (name : Str) : Outcome (List FileSkel) :=
  match loadPkg b (b.pkgs.length + 1) [] name with
  | .err t => .err t
  | .panic w => .panic w
  | .ok l => linkFiles (l.depFiles.map (·.lfile) ++ l.protos.map protoLFile) (sortFiles l.files)

end J5V.Compile
