import J5V.Compile.NoPanic
import J5V.Compile.File
/-!
# Conversion depends on the resolver only at the references it contains (core only)

If two conversion contexts resolve every reference that occurs in a property list (at any depth)
to the same `TypeRef`, the conversions of that list coincide. This is what lets the per-container
C13 theorems survive the change of the package's export table that an edit causes.
-/
namespace J5V.Compile

/-- the two contexts agree on a list of references -/
def AgreeOn (c c' : Ctx) (refs : List (Str × Str)) : Prop :=
  ∀ r ∈ refs, c.resolve r.1 r.2 = c'.resolve r.1 r.2

theorem AgreeOn.append_left {c c' : Ctx} {a b : List (Str × Str)} (h : AgreeOn c c' (a ++ b)) :
    AgreeOn c c' a := fun r hr => h r (List.mem_append_left _ hr)

theorem AgreeOn.append_right {c c' : Ctx} {a b : List (Str × Str)} (h : AgreeOn c c' (a ++ b)) :
    AgreeOn c c' b := fun r hr => h r (List.mem_append_right _ hr)

theorem refField_congr (c c' : Ctx) (pkg schema : Str) (we : Bool)
    (h : c.resolve pkg schema = c'.resolve pkg schema) :
    refField c pkg schema we = refField c' pkg schema we := by
  unfold refField; rw [h]

mutual
theorem bField_congr (c c' : Ctx) (np : List Str) (d : Str) :
    ∀ f : Field, AgreeOn c c' (refsField f) → bField c np d f = bField c' np d f
  | .objectRef pkg schema fl rules, h => by
    rw [bField, bField]; unfold msgRefField
    rw [refField_congr c c' pkg schema false (h (pkg, schema) (by simp [refsField]))]
  | .oneofRef pkg schema rules lr, h => by
    rw [bField, bField]; unfold msgRefField
    rw [refField_congr c c' pkg schema false (h (pkg, schema) (by simp [refsField]))]
  | .enumRef pkg schema rules lr, h => by
    rw [bField, bField]
    rw [refField_congr c c' pkg schema true (h (pkg, schema) (by simp [refsField]))]
  | .objectInl name props fl rules, h => by
    rw [bField, bField]
    rw [bProps_congr c c' (np ++ [if name = [] then d else name]) false 1 props
      (by simpa [refsField] using h)]
  | .oneofInl name props rules lr, h => by
    rw [bField, bField]
    rw [bProps_congr c c' (np ++ [if name = [] then d else name]) true 1 props
      (by simpa [refsField] using h)]
  | .enumInl e rules lr, _ => by rw [bField, bField]
  | .array items rules, h => by
    rw [bField, bField, bField_congr c c' np d items (by simpa [refsField] using h)]
  | .map items rules, h => by
    rw [bField, bField, bField_congr c c' np d items (by simpa [refsField] using h)]
  | .string rules lr, _ => by
    rw [bField_scalar c np d (.string rules lr) _ rfl, bField_scalar c' np d (.string rules lr) _ rfl]
  | .bool rules lr, _ => by
    rw [bField_scalar c np d (.bool rules lr) _ rfl, bField_scalar c' np d (.bool rules lr) _ rfl]
  | .bytes rules, _ => by
    rw [bField_scalar c np d (.bytes rules) _ rfl, bField_scalar c' np d (.bytes rules) _ rfl]
  | .date rules lr, _ => by
    rw [bField_scalar c np d (.date rules lr) _ rfl, bField_scalar c' np d (.date rules lr) _ rfl]
  | .decimal rules lr, _ => by
    rw [bField_scalar c np d (.decimal rules lr) _ rfl, bField_scalar c' np d (.decimal rules lr) _ rfl]
  | .timestamp rules, _ => by
    rw [bField_scalar c np d (.timestamp rules) _ rfl, bField_scalar c' np d (.timestamp rules) _ rfl]
  | .any, _ => by
    rw [bField_scalar c np d .any _ rfl, bField_scalar c' np d .any _ rfl]
  | .integer fmt rules lr, _ => by
    cases h : scalarField (.integer fmt rules lr) with
    | none => simp only [scalarField] at h; split at h <;> simp at h
    | some b => rw [bField_scalar c np d _ b h, bField_scalar c' np d _ b h]
  | .float fmt rules lr, _ => by
    cases h : scalarField (.float fmt rules lr) with
    | none => simp only [scalarField] at h; split at h <;> simp at h
    | some b => rw [bField_scalar c np d _ b h, bField_scalar c' np d _ b h]
  | .key fmt ek rules lr, _ => by
    rw [bField_scalar c np d (.key fmt ek rules lr) _ rfl,
      bField_scalar c' np d (.key fmt ek rules lr) _ rfl]

theorem bProperty_congr (c c' : Ctx) (np : List Str) (io : Bool) (n : Nat) :
    ∀ p : Property, AgreeOn c c' (refsProperty p) → bProperty c np io n p = bProperty c' np io n p
  | .mk name req opt schema, h => by
    have hs : AgreeOn c c' (refsField schema) := by simpa [refsProperty] using h
    cases schema with
    | map items rules =>
      rw [bProperty, bProperty, bField_congr c c' np (toCamel name) items (by simpa [refsField] using hs)]
    | array items rules =>
      rw [bProperty, bProperty, bField_congr c c' np (toCamel name) items (by simpa [refsField] using hs)]
    | string rules lr => simp only [bProperty, bField_congr c c' np (toCamel name) _ hs]
    | bool rules lr => simp only [bProperty, bField_congr c c' np (toCamel name) _ hs]
    | bytes rules => simp only [bProperty, bField_congr c c' np (toCamel name) _ hs]
    | date rules lr => simp only [bProperty, bField_congr c c' np (toCamel name) _ hs]
    | decimal rules lr => simp only [bProperty, bField_congr c c' np (toCamel name) _ hs]
    | timestamp rules => simp only [bProperty, bField_congr c c' np (toCamel name) _ hs]
    | any => simp only [bProperty, bField_congr c c' np (toCamel name) _ hs]
    | integer fmt rules lr => simp only [bProperty, bField_congr c c' np (toCamel name) _ hs]
    | float fmt rules lr => simp only [bProperty, bField_congr c c' np (toCamel name) _ hs]
    | key fmt ek rules lr => simp only [bProperty, bField_congr c c' np (toCamel name) _ hs]
    | objectRef pkg sc fl rules => simp only [bProperty, bField_congr c c' np (toCamel name) _ hs]
    | objectInl nm props fl rules => simp only [bProperty, bField_congr c c' np (toCamel name) _ hs]
    | oneofRef pkg sc rules lr => simp only [bProperty, bField_congr c c' np (toCamel name) _ hs]
    | oneofInl nm props rules lr => simp only [bProperty, bField_congr c c' np (toCamel name) _ hs]
    | enumRef pkg sc rules lr => simp only [bProperty, bField_congr c c' np (toCamel name) _ hs]
    | enumInl e rules lr => simp only [bProperty, bField_congr c c' np (toCamel name) _ hs]

theorem bProps_congr (c c' : Ctx) (np : List Str) (io : Bool) (n : Nat) :
    ∀ ps : List Property, AgreeOn c c' (refsProps ps) → bProps c np io n ps = bProps c' np io n ps
  | [], _ => by simp [bProps_nil]
  | p :: ps, h => by
    have h1 : AgreeOn c c' (refsProperty p) := by
      intro r hr; exact h r (by simp [refsProps, hr])
    have h2 : AgreeOn c c' (refsProps ps) := by
      intro r hr; exact h r (by simp [refsProps, hr])
    rw [bProps_cons, bProps_cons, bProperty_congr c c' np io n p h1,
      bProps_congr c c' np io (n + 1) ps h2]
end

end J5V.Compile

namespace J5V.Compile
open J5V.Go

mutual
theorem convDecl_congr (c c' : Ctx) (np : List Str) (io : Bool) (virt : List Property)
    (hv : AgreeOn c c' (refsProps virt)) :
    ∀ o : ObjDecl, AgreeOn c c' (refsDecl o) → convDecl c np io virt o = convDecl c' np io virt o
  | .mk name props nested psm, h => by
    have h1 : AgreeOn c c' (refsProps props) := by
      intro r hr; exact h r (by simp [refsDecl, hr])
    have h2 : AgreeOn c c' (refsNested nested) := by
      intro r hr; exact h r (by simp [refsDecl, hr])
    rw [convDecl, convDecl, bProps_congr c c' (np ++ [name]) io 1 virt hv,
      bProps_congr c c' (np ++ [name]) io (1 + virt.length) props h1,
      convNested_congr c c' (np ++ [name]) nested h2]
theorem convNested_congr (c c' : Ctx) (np : List Str) :
    ∀ ns : List Nested, AgreeOn c c' (refsNested ns) → convNested c np ns = convNested c' np ns
  | [], _ => by simp [convNested]
  | .object o :: rest, h => by
    have h1 : AgreeOn c c' (refsDecl o) := fun r hr => h r (by simp [refsNested, hr])
    have h2 : AgreeOn c c' (refsNested rest) := fun r hr => h r (by simp [refsNested, hr])
    rw [convNested, convNested,
      convDecl_congr c c' np false [] (by intro r hr; simp [refsProps] at hr) o h1,
      convNested_congr c c' np rest h2]
  | .oneof o :: rest, h => by
    have h1 : AgreeOn c c' (refsDecl o) := fun r hr => h r (by simp [refsNested, hr])
    have h2 : AgreeOn c c' (refsNested rest) := fun r hr => h r (by simp [refsNested, hr])
    rw [convNested, convNested,
      convDecl_congr c c' np true [] (by intro r hr; simp [refsProps] at hr) o h1,
      convNested_congr c c' np rest h2]
  | .enum e :: rest, h => by
    have h2 : AgreeOn c c' (refsNested rest) := fun r hr => h r (by simpa [refsNested] using hr)
    rw [convNested, convNested, convNested_congr c c' np rest h2]
end

theorem refsProps_append (a b : List Property) : refsProps (a ++ b) = refsProps a ++ refsProps b := by
  induction a with
  | nil => simp [refsProps]
  | cons p ps ih => simp [refsProps, ih]

theorem convVirtual_congr (c c' : Ctx) (name : Str) (virt props : List Property) (psm : Option Psm)
    (h : AgreeOn c c' (refsProps (virt ++ props))) :
    convVirtual c name virt props psm = convVirtual c' name virt props psm := by
  rw [refsProps_append] at h
  unfold convVirtual
  exact convDecl_congr c c' [] false virt h.append_left _
    (by intro r hr; exact h.append_right r (by simpa [refsDecl, refsNested] using hr))

end J5V.Compile

namespace J5V.Compile
open J5V.Go

theorem flatMap_congr_mem {α β : Type} (f g : α → List β) (l : List α)
    (h : ∀ a ∈ l, f a = g a) : l.flatMap f = l.flatMap g := by
  induction l with
  | nil => rfl
  | cons a rest ih =>
    simp only [List.flatMap_cons]
    rw [h a (by simp), ih (fun x hx => h x (List.mem_cons_of_mem _ hx))]

theorem walkMethod_congr (c c' : Ctx) (bp : Option Str) (m : Method)
    (h : AgreeOn c c' ((serviceObjects { name := none, basePath := none, methods := [m] }).flatMap
      fun x => refsProps x.2)) :
    walkMethod c bp m = walkMethod c' bp m := by
  unfold walkMethod
  cases hr : m.request with
  | none => rfl
  | some req =>
    simp only []
    have h1 : AgreeOn c c' (refsProps ([] ++ req)) := by
      intro r hrr
      apply h r
      simp only [serviceObjects, List.flatMap_cons, List.flatMap_nil, hr, List.append_nil,
        List.mem_append, List.mem_flatMap]
      exact ⟨(m.name ++ b!"Request", req), Or.inl (by simp), by simpa using hrr⟩
    rw [convVirtual_congr c c' _ [] req none h1]
    cases hs : m.response with
    | none => rfl
    | some res =>
      have h2 : AgreeOn c c' (refsProps ([] ++ res)) := by
        intro r hrr
        apply h r
        simp only [serviceObjects, List.flatMap_cons, List.flatMap_nil, hr, hs, List.append_nil,
          List.mem_flatMap]
        exact ⟨(m.name ++ b!"Response", res), by simp, by simpa using hrr⟩
      simp only []
      rw [convVirtual_congr c c' _ [] res none h2]

theorem serviceObjects_methods (s : Service) :
    serviceObjects s = s.methods.flatMap fun m =>
      serviceObjects { name := none, basePath := none, methods := [m] } := by
  simp [serviceObjects]

theorem isListRequest_congr (c c' : Ctx) (req : List Property) (h : AgreeOn c c' (refsProps req)) :
    isListRequest c req = isListRequest c' req := by
  unfold isListRequest
  induction req with
  | nil => rfl
  | cons p rest ih =>
    have h1 : AgreeOn c c' (refsProperty p) := fun r hr => h r (by simp [refsProps, hr])
    have h2 : AgreeOn c c' (refsProps rest) := fun r hr => h r (by simp [refsProps, hr])
    simp only [List.any_cons, ih h2]
    congr 1
    cases p with
    | mk name req opt schema =>
      cases schema <;> simp only [Property.schema]
      case objectRef pkg sc fl rules =>
        rw [h1 (pkg, sc) (by simp [refsProperty, refsField])]

theorem listMethodErr_congr (c c' : Ctx) (m : Method)
    (h : AgreeOn c c' ((serviceObjects { name := none, basePath := none, methods := [m] }).flatMap
      fun x => refsProps x.2)) :
    listMethodErr c m = listMethodErr c' m := by
  unfold listMethodErr
  cases hr : m.request with
  | none => rfl
  | some req =>
    simp only []
    rw [isListRequest_congr c c' req]
    intro r hrr
    apply h r
    simp only [serviceObjects, List.flatMap_cons, List.flatMap_nil, hr, List.append_nil,
      List.mem_append, List.mem_flatMap]
    exact ⟨(m.name ++ b!"Request", req), Or.inl (by simp), by simpa using hrr⟩

theorem convService_congr (c c' : Ctx) (s : Service)
    (h : AgreeOn c c' ((serviceObjects s).flatMap fun x => refsProps x.2)) :
    convService c s = convService c' s := by
  have hw : s.methods.map (walkMethod c s.basePath) = s.methods.map (walkMethod c' s.basePath) := by
    apply List.map_congr_left
    intro m hm
    apply walkMethod_congr
    intro r hr
    apply h r
    rw [serviceObjects_methods]
    simp only [List.mem_flatMap] at hr ⊢
    obtain ⟨x, hx, hrx⟩ := hr
    exact ⟨x, ⟨m, hm, hx⟩, hrx⟩
  have hl : s.methods.map (listMethodErr c) = s.methods.map (listMethodErr c') := by
    apply List.map_congr_left
    intro m hm
    apply listMethodErr_congr
    intro r hr
    apply h r
    rw [serviceObjects_methods]
    simp only [List.mem_flatMap] at hr ⊢
    obtain ⟨x, hx, hrx⟩ := hr
    exact ⟨x, ⟨m, hm, hx⟩, hrx⟩
  unfold convService
  rw [hw, hl]

theorem acceptTopic_congr (c c' : Ctx) (t : TopicNode)
    (h : AgreeOn c c' ((t.msgs.filterMap fun m =>
      (topicMethodName t m).map fun n => (n ++ b!"Message", t.prepend ++ m.props)).flatMap
        fun x => refsProps x.2)) :
    acceptTopic c t = acceptTopic c' t := by
  unfold acceptTopic
  simp only []
  congr 1
  apply List.map_congr_left
  intro m hm
  cases hn : topicMethodName t m with
  | none => rfl
  | some n =>
    simp only []
    rw [convVirtual_congr c c' _ t.prepend m.props none]
    intro r hr
    apply h r
    simp only [List.mem_flatMap, List.mem_filterMap]
    exact ⟨(n ++ b!"Message", t.prepend ++ m.props), ⟨m, hm, by simp [hn]⟩, hr⟩

/-- **conversion of a visited item depends on the resolver only at the item's references** -/
theorem convItem_congr (c c' : Ctx) (i : Item) (h : AgreeOn c c' (itemRefs i)) :
    convItem c i = convItem c' i := by
  cases i with
  | object o =>
    simp only [convItem]
    rw [convDecl_congr c c' [] false [] (by intro r hr; simp [refsProps] at hr) o h]
  | oneof o =>
    simp only [convItem]
    rw [convDecl_congr c c' [] true [] (by intro r hr; simp [refsProps] at hr) o h]
  | enum e => rfl
  | abort => rfl
  | serviceFile ss =>
    simp only [convItem, convServiceFile]
    congr 1
    apply List.map_congr_left
    intro s hs
    apply convService_congr
    intro r hr
    apply h r
    simp only [itemRefs, List.mem_flatMap] at hr ⊢
    obtain ⟨x, hx, hrx⟩ := hr
    exact ⟨x, ⟨s, hs, hx⟩, hrx⟩
  | topicFile ts =>
    simp only [convItem, convTopicFile]
    congr 1
    apply flatMap_congr_mem
    intro t ht
    unfold convTopic
    apply flatMap_congr_mem
    intro tn htn
    apply acceptTopic_congr
    intro r hr
    apply h r
    simp only [itemRefs, topicObjects, List.mem_flatMap] at hr ⊢
    obtain ⟨x, hx, hrx⟩ := hr
    exact ⟨x, ⟨t, ht, tn, htn, hx⟩, hrx⟩

/-- references of a whole file, as `SourceSummary` collects them -/
def fileRefs (pkg : Str) (elems : List Elem) : List (Str × Str) :=
  (elems.flatMap (itemsOfElem pkg)).flatMap itemRefs

/-- **`ConvertJ5File` depends on the resolver only at the references of the file**, looked up
through the file's own import map -/
theorem convertFile_congr' (res res' : Resolver) (path : Str) (imports : List Import)
    (elems : List Elem)
    (h : ∀ im, j5Imports (packageFromFilename (path ++ b!".proto")) imports = .ok im →
      AgreeOn { resolve := resolveTypeNoImport im res } { resolve := resolveTypeNoImport im res' }
        (fileRefs (packageFromFilename (path ++ b!".proto")) elems)) :
    convertFile res path imports elems = convertFile res' path imports elems := by
  unfold convertFile
  simp only []
  cases hj : j5Imports (packageFromFilename (path ++ b!".proto")) imports with
  | err t => rfl
  | panic w => rfl
  | ok im =>
    have h : ∀ _ : ImportMap, AgreeOn { resolve := resolveTypeNoImport im res }
        { resolve := resolveTypeNoImport im res' }
        (fileRefs (packageFromFilename (path ++ b!".proto")) elems) := fun _ => h im hj
    simp only []
    have : (elems.flatMap (itemsOfElem (packageFromFilename (path ++ b!".proto")))).flatMap
        (convItem { resolve := resolveTypeNoImport im res }) =
        (elems.flatMap (itemsOfElem (packageFromFilename (path ++ b!".proto")))).flatMap
        (convItem { resolve := resolveTypeNoImport im res' }) := by
      apply flatMap_congr_mem
      intro i hi
      apply convItem_congr
      intro r hr
      apply h im r
      unfold fileRefs
      exact List.mem_flatMap.mpr ⟨i, hi, hr⟩
    rw [this]

theorem convertFile_congr (res res' : Resolver) (path : Str) (imports : List Import)
    (elems : List Elem)
    (h : ∀ im, AgreeOn { resolve := resolveTypeNoImport im res } { resolve := resolveTypeNoImport im res' }
      (fileRefs (packageFromFilename (path ++ b!".proto")) elems)) :
    convertFile res path imports elems = convertFile res' path imports elems :=
  convertFile_congr' res res' path imports elems (fun im _ => h im)

end J5V.Compile
