import J5V.Compile.DepsFromFile
import J5V.Compile.Link
import J5V.Compile.AppendDeclPkg
import J5V.Compile.AppendEdit
import J5V.Compile.NoPanicPkg
/-!
# Link bridge "imports found" (core only)

For a package that LOADS (no hypothesis beyond that), every dependency of every generated file is
the name of a file of the link universe `CompilePackage` hands to the linker: the package's own
generated files, the generated files and hand-written protos of the (transitively) loaded
dependency packages, or a built-in file. Hence the first failure arm of `linkFile`
("import not found") is never taken.
-/
namespace J5V.Compile
open J5V.Go

/-- every import constant is a built-in file of the link universe -/
theorem constImports_builtin : ∀ i ∈ constImports, ∃ g ∈ builtinFiles, g.name = i := by decide

/-- the file of every implicit import is a built-in file of the link universe -/
theorem implicit_builtin : ∀ pe ∈ implicitImports, ∀ t ∈ pe.2, ∃ g ∈ builtinFiles, g.name = t.file := by
  decide

theorem implicitRef_builtin (pkg schema : Str) (t : TypeRef) (h : implicitRef pkg schema = some t) :
    ∃ g ∈ builtinFiles, g.name = t.file := by
  unfold implicitRef at h
  cases hl : implicitImports.lookup pkg with
  | none => simp [hl] at h
  | some ex =>
    rw [hl] at h
    exact implicit_builtin (pkg, ex) (lookup_mem _ _ _ hl) t (List.mem_of_find?_eq_some h)

/-- the files a loaded package itself brings: its generated files and its hand-written protos -/
def ExportsIn (l : Loaded) : Prop :=
  ∀ kt ∈ l.exports, kt.2.file ∈ l.files.map (·.name) ∨ kt.2.file ∈ l.protos.map (·.1)

/-- the exports of the direct dependencies live in files the package carries along -/
def DepsIn (l : Loaded) : Prop :=
  ∀ de ∈ l.deps, ∀ kt ∈ de.2, kt.2.file ∈ l.depFiles.map (·.name) ∨ kt.2.file ∈ l.protos.map (·.1)

/-- the main file is among the files `ConvertJ5File` returns -/
theorem convertFile_has_main (res : Resolver) (path : Str) (imports : List Import) (elems : List Elem)
    (fs : List FileSkel) (h : convertFile res path imports elems = .ok fs) :
    path ++ b!".proto" ∈ fs.map (·.name) := by
  obtain ⟨im, _, hfiles⟩ := convertFile_files res path imports elems fs h
  simp only [] at hfiles
  obtain ⟨subs, hfs, _⟩ := hfiles
  rw [hfs]
  simp [targetFile, FileB.run_name, FileB.skel]

theorem loadPkg_files_in (b : Bundle) : ∀ (fuel : Nat) (chain : List Str) (name : Str) (l : Loaded),
    loadPkg b fuel chain name = .ok l → ExportsIn l ∧ DepsIn l := by
  intro fuel
  induction fuel with
  | zero => intro chain name l h; simp [loadPkg] at h
  | succ fuel ih =>
    intro chain name l h
    rw [loadPkg] at h
    split at h
    · cases h
    · cases hf : b.find name with
      | none =>
        simp only [hf] at h
        split at h
        · simp only [Outcome.ok.injEq] at h
          subst h
          exact ⟨by intro kt hkt; simp at hkt, by intro de hde; simp at hde⟩
        · cases h
      | some p =>
        simp only [hf] at h
        cases hs : summaries p.files with
        | err t => simp [hs] at h
        | panic w => simp [hs] at h
        | ok sums =>
          simp only [hs] at h
          cases hl : seqLoad (fun d => loadPkg b fuel (chain ++ [name]) d) (depNamesOf name sums) with
          | err t => simp [hl] at h
          | panic w => simp [hl] at h
          | ok ls =>
            simp only [hl] at h
            cases hc : convertAll (mkResolver name sums ls) p.files with
            | err t => simp [hc] at h
            | panic w => simp [hc] at h
            | ok files =>
              simp only [hc, Outcome.ok.injEq] at h
              subst h
              obtain ⟨hsums, hsumok⟩ := summaries_ok p.files sums hs
              obtain ⟨hfiles, hconv⟩ := convertAll_ok _ p.files files hc
              obtain ⟨hls, hlsok⟩ := seqLoad_ok _ _ ls hl
              constructor
              · -- own exports
                intro kt hkt
                simp only [mkLoaded, List.mem_flatMap] at hkt
                obtain ⟨s, hs', hk⟩ := hkt
                rw [hsums] at hs'
                obtain ⟨f, hfm, rfl⟩ := List.mem_map.mp hs'
                have hfs := hsumok f hfm
                cases f with
                | proto path msgs enums =>
                  right
                  simp only [fileSummary, Outcome.ok.injEq] at hfs
                  rw [← hfs] at hk
                  have hfile : kt.2.file = path := by
                    simp only [List.mem_append, List.mem_map] at hk
                    rcases hk with ⟨n, _, rfl⟩ | ⟨nv, _, rfl⟩ <;> rfl
                  rw [hfile]
                  simp only [mkLoaded, List.map_append, List.mem_append, List.mem_map]
                  left
                  refine ⟨(path, packageFromFilename path, msgs, enums), ?_, rfl⟩
                  simp only [protoFilesOf, List.mem_filterMap]
                  exact ⟨_, hfm, rfl⟩
                | j5s path imports elems decl =>
                  left
                  simp only [fileSummary] at hfs
                  split at hfs
                  · cases hfs
                  · obtain ⟨im, ex, _, _, hexp, _⟩ := sourceSummary_ok_inv path imports elems _ hfs
                    rw [hexp] at hk
                    obtain ⟨x, _, rfl⟩ := List.mem_map.mp hk
                    simp only []
                    obtain ⟨fs, hfsok⟩ := hconv _ hfm
                    have hmain := convertFile_has_main _ path imports elems fs hfsok
                    obtain ⟨g, hg, hgn⟩ := List.mem_map.mp hmain
                    simp only [mkLoaded]
                    rw [hfiles]
                    refine List.mem_map.mpr ⟨g, List.mem_flatMap.mpr ⟨_, hfm, ?_⟩, hgn⟩
                    simp only [convOf, hfsok]
                    exact hg
              · -- exports of the dependencies
                intro de hde kt hkt
                simp only [mkLoaded, List.mem_map] at hde
                obtain ⟨l', hl', rfl⟩ := hde
                simp only [] at hkt
                have hl'ok : ∃ d, loadPkg b fuel (chain ++ [name]) d = .ok l' := by
                  rw [hls] at hl'
                  obtain ⟨d, hd, rfl⟩ := List.mem_map.mp hl'
                  exact ⟨d, hlsok d hd⟩
                obtain ⟨d, hd⟩ := hl'ok
                have hin := (ih _ _ _ hd).1 kt hkt
                simp only [mkLoaded, List.map_append, List.mem_append, List.map_flatMap, List.mem_flatMap]
                rcases hin with h1 | h1
                · left
                  obtain ⟨g, hg, hgn⟩ := List.mem_map.mp h1
                  exact ⟨l', hl', Or.inl (List.mem_map.mpr ⟨g, hg, hgn⟩)⟩
                · right; right
                  exact ⟨l', hl', h1⟩

/-- **imports found.** For a local package that loads, every dependency of every generated file is
the name of a file of the link universe of `compileLinked` (own files, files of the loaded
dependencies, hand-written protos, built-ins). -/
theorem loadPkg_imports_found (b : Bundle) (fuel : Nat) (chain : List Str) (name : Str) (p : Pkg)
    (l : Loaded) (hf : b.find name = some p) (hl : loadPkg b (fuel + 1) chain name = .ok l) :
    ∀ f ∈ l.files, ∀ d ∈ f.deps,
      ∃ g ∈ (sortFiles l.files).map (·.lfile) ++ (l.depFiles.map (·.lfile) ++ l.protos.map protoLFile)
              ++ builtinFiles, g.name = d := by
  obtain ⟨hexp, hdep⟩ := loadPkg_files_in b _ _ _ _ hl
  obtain ⟨hfiles, hok⟩ := loadPkg_ok_inv b fuel chain name p l hf hl
  have hown : ∀ n, n ∈ l.files.map (·.name) →
      ∃ g ∈ (sortFiles l.files).map (·.lfile) ++ (l.depFiles.map (·.lfile) ++ l.protos.map protoLFile)
              ++ builtinFiles, g.name = n := by
    intro n hn
    obtain ⟨g, hg, rfl⟩ := List.mem_map.mp hn
    refine ⟨g.lfile, ?_, rfl⟩
    simp only [List.mem_append, List.mem_map]
    exact Or.inl (Or.inl ⟨g, (sortFiles_perm_self l.files).mem_iff.mpr hg, rfl⟩)
  have hdepf : ∀ n, n ∈ l.depFiles.map (·.name) →
      ∃ g ∈ (sortFiles l.files).map (·.lfile) ++ (l.depFiles.map (·.lfile) ++ l.protos.map protoLFile)
              ++ builtinFiles, g.name = n := by
    intro n hn
    obtain ⟨g, hg, rfl⟩ := List.mem_map.mp hn
    refine ⟨g.lfile, ?_, rfl⟩
    simp only [List.mem_append, List.mem_map]
    exact Or.inl (Or.inr (Or.inl ⟨g, hg, rfl⟩))
  have hproto : ∀ n, n ∈ l.protos.map (·.1) →
      ∃ g ∈ (sortFiles l.files).map (·.lfile) ++ (l.depFiles.map (·.lfile) ++ l.protos.map protoLFile)
              ++ builtinFiles, g.name = n := by
    intro n hn
    obtain ⟨g, hg, rfl⟩ := List.mem_map.mp hn
    refine ⟨protoLFile g, ?_, ?_⟩
    · simp only [List.mem_append, List.mem_map]
      exact Or.inl (Or.inr (Or.inr ⟨g, hg, rfl⟩))
    · obtain ⟨a, b', c', d'⟩ := g
      rfl
  have hbuiltin : ∀ n, (∃ g ∈ builtinFiles, g.name = n) →
      ∃ g ∈ (sortFiles l.files).map (·.lfile) ++ (l.depFiles.map (·.lfile) ++ l.protos.map protoLFile)
              ++ builtinFiles, g.name = n := by
    rintro n ⟨g, hg, hgn⟩
    exact ⟨g, List.mem_append.mpr (Or.inr hg), hgn⟩
  intro f hfm d hd
  rw [hfiles] at hfm
  obtain ⟨src, hsrc, hfs⟩ := List.mem_flatMap.mp hfm
  cases src with
  | proto path msgs enums => simp [convOf] at hfs
  | j5s path imports elems decl =>
    obtain ⟨fs, hconv⟩ := hok _ hsrc
    simp only [convOf, hconv] at hfs
    obtain ⟨im, _, hfrom⟩ := convertFile_deps_from l.resolver path imports elems fs hconv
    rcases hfrom f hfs d hd with hc | ⟨pkg, schema, t, _, hres, rfl⟩
    · exact hbuiltin d (constImports_builtin d hc)
    · unfold resolveTypeNoImport at hres
      cases hex : im.expand pkg schema with
      | none => simp [hex] at hres
      | some e =>
        rw [hex] at hres
        cases e with
        | implicit t' =>
          simp only [Option.some.injEq] at hres
          subst hres
          -- an implicit reference comes out of `implicitRef`
          have : ∃ pk sc, implicitRef pk sc = some t' := by
            unfold ImportMap.expand at hex
            split at hex
            · cases hex
            · cases h1 : implicitRef pkg schema with
              | some t1 =>
                rw [h1] at hex
                simp only [Option.some.injEq, Expanded.implicit.injEq] at hex
                exact ⟨pkg, schema, hex ▸ h1⟩
              | none =>
                rw [h1] at hex
                cases h2 : mapGet im.vals pkg with
                | none => simp [h2] at hex
                | some full =>
                  simp only [h2] at hex
                  cases h3 : implicitRef full schema with
                  | some t3 =>
                    rw [h3] at hex
                    simp only [Option.some.injEq, Expanded.implicit.injEq] at hex
                    exact ⟨full, schema, hex ▸ h3⟩
                  | none => simp [h3] at hex
          obtain ⟨pk, sc, hir⟩ := this
          exact hbuiltin _ (implicitRef_builtin pk sc t' hir)
        | ref p' s' =>
          simp only [Resolver.resolveType, Loaded.resolver] at hres
          by_cases hpn : p' = l.name
          · simp only [hpn, ↓reduceIte] at hres
            rcases hexp _ (mapGet_mem _ _ _ hres) with h1 | h1
            · exact hown _ h1
            · exact hproto _ h1
          · simp only [hpn, ↓reduceIte] at hres
            cases hm : mapGet l.deps p' with
            | none => simp [hm] at hres
            | some ex =>
              rw [hm] at hres
              rcases hdep _ (mapGet_mem _ _ _ hm) _ (mapGet_mem _ _ _ hres) with h1 | h1
              · exact hdepf _ h1
              · exact hproto _ h1

theorem mapM_find_isSome (univ : List LFile) (ds : List Str)
    (h : ∀ d ∈ ds, ∃ g ∈ univ, g.name = d) :
    (ds.mapM fun d => univ.find? (·.name = d)).isSome = true := by
  induction ds with
  | nil => rfl
  | cons d rest ih =>
    obtain ⟨g, hg, hgn⟩ := h d (by simp)
    have hsome : (univ.find? (·.name = d)).isSome = true := by
      rw [List.find?_isSome]
      exact ⟨g, hg, by simpa using hgn⟩
    have ih' := ih (fun d' hd' => h d' (List.mem_cons_of_mem _ hd'))
    cases hq : univ.find? (·.name = d) with
    | none => rw [hq] at hsome; cases hsome
    | some x =>
      cases hr : rest.mapM fun d => univ.find? (·.name = d) with
      | none => rw [hr] at ih'; cases ih'
      | some ys => simp [List.mapM_cons, hq, hr]

/-- in `linkFile`'s own terms: the import lookup of every generated file succeeds -/
theorem loadPkg_imports_lookup (b : Bundle) (fuel : Nat) (chain : List Str) (name : Str) (p : Pkg)
    (l : Loaded) (hf : b.find name = some p) (hl : loadPkg b (fuel + 1) chain name = .ok l) :
    ∀ f ∈ sortFiles l.files,
      (f.deps.mapM fun d =>
        ((sortFiles l.files).map (·.lfile) ++ (l.depFiles.map (·.lfile) ++ l.protos.map protoLFile)
          ++ builtinFiles).find? (·.name = d)).isSome = true := by
  intro f hfm
  have hfm' : f ∈ l.files := (sortFiles_perm_self l.files).mem_iff.mp hfm
  exact mapM_find_isSome _ _ (loadPkg_imports_found b fuel chain name p l hf hl f hfm')

end J5V.Compile
