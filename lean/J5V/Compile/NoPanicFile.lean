import J5V.Compile.NoPanic
import J5V.Compile.File
/-!
# `ConvertJ5File` never panics on well-formed sources (core only)

`WfElems` is the decidable predicate on a parsed file that excludes the two nil dereferences of
the walk: a oneof without a name (`ww.field.name` with `ww.field == nil`) and a method without a
request (`method.Request.Properties`). j5parse never produces either (names are mandatory tags,
`request` is a required child), so the predicate holds for every file that comes from text.
-/
namespace J5V.Compile
open J5V.Go

mutual
def WfDecl (isOneof : Bool) : ObjDecl → Bool
  | .mk name _ nested _ => (!isOneof || name ≠ []) && WfNested nested
def WfNested : List Nested → Bool
  | [] => true
  | .object o :: rest => WfDecl false o && WfNested rest
  | .oneof o :: rest => WfDecl true o && WfNested rest
  | .enum _ :: rest => WfNested rest
end

def WfService (s : Service) : Bool := s.methods.all (·.request.isSome)

def WfElem : Elem → Bool
  | .object o => WfDecl false o
  | .oneof o => WfDecl true o
  | .enum _ => true
  | .service s => WfService s
  | .topic _ => true
  | .entity e => e.events.all (WfDecl false) && e.commands.all WfService && WfNested e.nested

def WfElems (elems : List Elem) : Bool := elems.all WfElem

mutual
theorem convDecl_no_panic (c : Ctx) (hc : WfCtx c) (np : List Str) (io : Bool)
    (virt : List Property) :
    ∀ o : ObjDecl, WfDecl io o = true → (convDecl c np io virt o).panic = false
  | .mk name props nested psm, h => by
    rw [convDecl]
    simp only [WfDecl, Bool.and_eq_true, Bool.or_eq_true, Bool.not_eq_true', decide_eq_true_eq] at h
    have h1 := bProps_no_panic c hc (np ++ [name]) io 1 virt
    have h2 := bProps_no_panic c hc (np ++ [name]) io (1 + virt.length) props
    have h3 := convNested_no_panic c hc (np ++ [name]) nested h.2
    simp only [h1, h2, h3, Bool.false_or, Bool.and_eq_false_imp]
    intro hio
    rcases h.1 with h0 | h0
    · simp [h0] at hio
    · simpa using h0
theorem convNested_no_panic (c : Ctx) (hc : WfCtx c) (np : List Str) :
    ∀ ns : List Nested, WfNested ns = true → (convNested c np ns).panic = false
  | [], _ => by simp [convNested]
  | .object o :: rest, h => by
    simp only [WfNested, Bool.and_eq_true] at h
    rw [convNested]
    simp [convDecl_no_panic c hc np false [] o h.1, convNested_no_panic c hc np rest h.2]
  | .oneof o :: rest, h => by
    simp only [WfNested, Bool.and_eq_true] at h
    rw [convNested]
    simp [convDecl_no_panic c hc np true [] o h.1, convNested_no_panic c hc np rest h.2]
  | .enum e :: rest, h => by
    simp only [WfNested] at h
    rw [convNested]
    simp [convNested_no_panic c hc np rest h]
end

theorem convVirtual_no_panic (c : Ctx) (hc : WfCtx c) (name : Str) (virt props : List Property)
    (psm : Option Psm) : (convVirtual c name virt props psm).panic = false := by
  unfold convVirtual
  exact convDecl_no_panic c hc [] false virt _ (by simp [WfDecl, WfNested])

theorem foldl_eff_panic {α : Type} (f : α → Eff) (l : List α) (init : Eff)
    (hi : init.panic = false) (h : ∀ a ∈ l, (f a).panic = false) :
    (l.foldl (fun e a => e ++ f a) init).panic = false := by
  induction l generalizing init with
  | nil => simpa using hi
  | cons a as ih =>
    simp only [List.foldl_cons]
    apply ih
    · simp [hi, h a (by simp)]
    · intro b hb; exact h b (List.mem_cons_of_mem _ hb)

theorem walkMethod_no_panic (c : Ctx) (hc : WfCtx c) (bp : Option Str) (m : Method)
    (h : m.request.isSome = true) : (walkMethod c bp m).eff.panic = false := by
  unfold walkMethod
  cases hr : m.request with
  | none => simp [hr] at h
  | some req =>
    simp only []
    cases m.response with
    | none => simp [convVirtual_no_panic c hc]
    | some res => simp [convVirtual_no_panic c hc]

@[simp] theorem bad_googleApiAnnotations : badImport googleApiAnnotationsImport = false := by decide
@[simp] theorem bad_googleApiHttpBody : badImport googleApiHttpBodyImport = false := by decide
@[simp] theorem bad_messagingAnnotations : badImport messagingAnnotationsImport = false := by decide
@[simp] theorem bad_googleProtoEmpty : badImport googleProtoEmptyImport = false := by decide

theorem convMethod_no_panic (node : Method × Str × Str × Str) : (convMethod node).1.panic = false := by
  obtain ⟨m, input, output, resolved⟩ := node
  unfold convMethod
  simp only []
  cases m.request with
  | none => simp [Eff.imp_panic]
  | some req =>
    simp only []
    split <;> simp [Eff.imp_panic]

theorem convService_no_panic (c : Ctx) (hc : WfCtx c) (s : Service) (h : WfService s = true) :
    (convService c s).eff.panic = false := by
  unfold convService
  have hw : (List.foldl (fun e w => e ++ w.eff) ({} : Eff)
      (s.methods.map (walkMethod c s.basePath))).panic = false := by
    apply foldl_eff_panic (fun w : MethodWalk => w.eff) _ _ rfl
    intro w hw
    obtain ⟨m, hm, rfl⟩ := List.mem_map.mp hw
    exact walkMethod_no_panic c hc _ m (by simpa [WfService] using (List.all_eq_true.mp h) m hm)
  cases s.name with
  | none => simpa using hw
  | some name =>
    simp only []
    have hb : (List.foldl (fun e (b : Eff × Option MethodSkel) => e ++ b.1) ({} : Eff)
        ((List.filterMap (·.node) (s.methods.map (walkMethod c s.basePath))).map convMethod)).panic
        = false := by
      apply foldl_eff_panic (fun b : Eff × Option MethodSkel => b.1) _ _ rfl
      intro b hb
      obtain ⟨n, _, rfl⟩ := List.mem_map.mp hb
      exact convMethod_no_panic n
    simp only [Eff.add_def] at hw hb
    simp only [Eff.add_def, Eff.add_panic, hw, hb, when_panic, Eff.use_panic, Bool.and_false,
      Bool.or_false]

/-- every step of a list has a panic-free effect -/
def StepsOk (steps : List Step) : Prop := ∀ s ∈ steps, s.eff.panic = false

theorem runSteps_no_panic (steps : List Step) (h : StepsOk steps) (r : Root) :
    (runSteps steps r).isPanic = false := by
  induction steps generalizing r with
  | nil => rfl
  | cons s rest ih =>
    have hs := h s (by simp)
    simp only [runSteps, hs, Bool.false_eq_true, if_false]
    split
    · rfl
    · exact ih (fun t ht => h t (List.mem_cons_of_mem _ ht)) _

theorem convServiceFile_ok (c : Ctx) (hc : WfCtx c) (ss : List Service)
    (h : ss.all WfService = true) : StepsOk (convServiceFile c ss) := by
  intro s hs
  simp only [convServiceFile, List.mem_cons, List.mem_map] at hs
  rcases hs with rfl | ⟨sv, hsv, rfl⟩
  · rfl
  · exact convService_no_panic c hc sv ((List.all_eq_true.mp h) sv hsv)

theorem acceptTopic_ok (c : Ctx) (hc : WfCtx c) (t : TopicNode) : StepsOk (acceptTopic c t) := by
  intro s hs
  simp only [acceptTopic, List.mem_append, List.mem_map, List.mem_singleton] at hs
  rcases hs with ⟨m, _, rfl⟩ | rfl
  · split
    · rfl
    · exact convVirtual_no_panic c hc _ _ _ _
  · simp [Eff.imp_panic]

theorem stepsOk_append {a b : List Step} (ha : StepsOk a) (hb : StepsOk b) : StepsOk (a ++ b) := by
  intro s hs
  rcases List.mem_append.mp hs with h | h
  · exact ha s h
  · exact hb s h

theorem convTopic_ok (c : Ctx) (hc : WfCtx c) (t : Topic) : StepsOk (convTopic c t) := by
  intro s hs
  unfold convTopic at hs
  obtain ⟨tn, _, hst⟩ := List.mem_flatMap.mp hs
  exact acceptTopic_ok c hc tn s hst

theorem convTopicFile_ok (c : Ctx) (hc : WfCtx c) (ts : List Topic) : StepsOk (convTopicFile c ts) := by
  intro s hs
  simp only [convTopicFile, List.mem_cons, List.mem_flatMap] at hs
  rcases hs with rfl | ⟨t, _, hst⟩
  · rfl
  · exact convTopic_ok c hc t s hst

/-- well-formedness of what the file visitor receives -/
def WfItem : Item → Bool
  | .object o => WfDecl false o
  | .oneof o => WfDecl true o
  | .enum _ => true
  | .serviceFile ss => ss.all WfService
  | .topicFile _ => true
  | .abort => true

theorem convItem_ok (c : Ctx) (hc : WfCtx c) (i : Item) (h : WfItem i = true) :
    StepsOk (convItem c i) := by
  cases i with
  | object o =>
    intro s hs; simp only [convItem, List.mem_singleton] at hs; subst hs
    exact convDecl_no_panic c hc [] false [] o h
  | oneof o =>
    intro s hs; simp only [convItem, List.mem_singleton] at hs; subst hs
    exact convDecl_no_panic c hc [] true [] o h
  | enum e => intro s hs; simp only [convItem, List.mem_singleton] at hs; subst hs; rfl
  | serviceFile ss => exact convServiceFile_ok c hc ss h
  | topicFile ts => exact convTopicFile_ok c hc ts
  | abort => intro s hs; simp only [convItem, List.mem_singleton] at hs; subst hs; rfl

theorem toCamel_suffix_ne_nil (a suf : Str) (h : suf ≠ []) : a ++ suf ≠ [] := by
  cases a <;> simp [h]

theorem nestedItems_wf (ns : List Nested) (h : WfNested ns = true) :
    (ns.map Entity.nestedItem).all WfItem = true := by
  induction ns with
  | nil => rfl
  | cons n rest ih =>
    cases n with
    | object o =>
      simp only [WfNested, Bool.and_eq_true] at h
      simp [Entity.nestedItem, WfItem, h.1, ih h.2]
    | oneof o =>
      simp only [WfNested, Bool.and_eq_true] at h
      simp [Entity.nestedItem, WfItem, h.1, ih h.2]
    | enum en =>
      simp only [WfNested] at h
      simp [Entity.nestedItem, WfItem, ih h]

theorem wfNested_events (evs : List ObjDecl) (h : evs.all (WfDecl false) = true) :
    WfNested (evs.map Nested.object) = true := by
  induction evs with
  | nil => rfl
  | cons o os ih =>
    simp only [List.all_cons, Bool.and_eq_true] at h
    simp [WfNested, h.1, ih h.2]

/-- the entity expansion only produces well-formed items (its oneof is always named) -/
theorem expand_wf (pkg : Str) (e : Entity)
    (h : (e.events.all (WfDecl false) && e.commands.all WfService && WfNested e.nested) = true) :
    ∀ i ∈ Entity.expand pkg e, WfItem i = true := by
  simp only [Bool.and_eq_true] at h
  obtain ⟨⟨hev, hcmd⟩, hne⟩ := h
  have hETne : Entity.eventTypeName e ≠ [] := by
    simp only [Entity.eventTypeName, Entity.componentName]
    exact toCamel_suffix_ne_nil _ _ (by decide)
  have hcmds : (e.commands.map (Entity.commandService pkg e)).all WfService = true := by
    simp only [List.all_map]
    apply List.all_eq_true.mpr
    intro s hs
    have := (List.all_eq_true.mp hcmd) s hs
    simpa [Function.comp, Entity.commandService, WfService] using this
  have hall : (Entity.expand pkg e).all WfItem = true := by
    simp only [Entity.expand, List.all_append, List.all_cons, List.all_nil, Bool.and_true,
      Bool.and_eq_true]
    refine ⟨⟨⟨⟨⟨?_, ?_, ?_⟩, ?_⟩, ?_, ?_, ?_, ?_, ?_⟩, ?_⟩, nestedItems_wf e.nested hne⟩
    · simp [WfItem, Entity.keysObject, WfDecl, WfNested]
    · simp [WfItem, Entity.dataObject, WfDecl, WfNested]
    · rfl
    · split <;> simp [WfItem, Entity.stateObject, WfDecl, WfNested]
    · simp only [WfItem, Entity.eventOneof, WfDecl, wfNested_events e.events hev, Bool.and_true]
      simpa using hETne
    · simp [WfItem, Entity.eventObject, WfDecl, WfNested]
    · simp [WfItem, Entity.queryService, WfService, Entity.getMethod, Entity.listMethod,
        Entity.eventsMethod]
    · exact hcmds
    · rfl
    · split <;> simp [WfItem]
  exact fun i hi => (List.all_eq_true.mp hall) i hi

theorem itemsOfElem_wf (pkg : Str) (el : Elem) (h : WfElem el = true) :
    ∀ i ∈ itemsOfElem pkg el, WfItem i = true := by
  cases el with
  | object o => intro i hi; simp only [itemsOfElem, List.mem_singleton] at hi; subst hi; exact h
  | oneof o => intro i hi; simp only [itemsOfElem, List.mem_singleton] at hi; subst hi; exact h
  | enum e => intro i hi; simp only [itemsOfElem, List.mem_singleton] at hi; subst hi; rfl
  | service s =>
    intro i hi; simp only [itemsOfElem, List.mem_singleton] at hi; subst hi
    simpa [WfItem, WfElem] using h
  | topic t => intro i hi; simp only [itemsOfElem, List.mem_singleton] at hi; subst hi; rfl
  | entity e => exact expand_wf pkg e h

/-- **`ConvertJ5File` never panics** on a well-formed file, for any well-formed resolver -/
theorem convertFile_no_panic (res : Resolver) (path : Str) (imports : List Import)
    (elems : List Elem)
    (hres : ∀ im, WfCtx { resolve := resolveTypeNoImport im res })
    (h : WfElems elems = true) :
    (convertFile res path imports elems).isPanic = false := by
  unfold convertFile
  simp only []
  cases hj : j5Imports (packageFromFilename (path ++ b!".proto")) imports with
  | err t => rfl
  | panic w =>
    exfalso
    unfold j5Imports at hj
    split at hj
    · cases hj
    · split at hj <;> cases hj
  | ok im =>
    simp only []
    have hsteps : StepsOk ((elems.flatMap (itemsOfElem (packageFromFilename (path ++ b!".proto")))).flatMap
        (convItem { resolve := resolveTypeNoImport im res })) := by
      intro s hs
      obtain ⟨i, hi, hsi⟩ := List.mem_flatMap.mp hs
      obtain ⟨el, hel, hiel⟩ := List.mem_flatMap.mp hi
      have hwel := (List.all_eq_true.mp h) el hel
      exact convItem_ok _ (hres im) i (itemsOfElem_wf _ el hwel i hiel) s hsi
    have := runSteps_no_panic _ hsteps
      { main := { name := path ++ b!".proto", pkg := packageFromFilename (path ++ b!".proto") } }
    cases hr : runSteps _ _ with
    | ok r => simp only []; split <;> rfl
    | err t => rfl
    | panic w => rw [hr] at this; cases this

end J5V.Compile
