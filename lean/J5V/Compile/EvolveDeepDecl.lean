import J5V.Compile.EvolveDeep
/-!
# A field appended at any depth of a declared object / oneof (C13) — core only

`editDecl (.field prop) path o = some o'`: the path walks through nested declarations (`nest k`) and
then through inline types (`prop j`). Conversion level (`convDecl`), the export list (one fresh
block inserted) and the references (none lost).
-/
namespace J5V.Compile

/-! ## conversion -/

theorem PRsLe_append_left (c : Ctx) (np : List Str) (io : Bool) (n : Nat) (a ps ps' : List Property)
    (h : PRsLe (bProps c np io (n + a.length) ps) (bProps c np io (n + a.length) ps')) :
    PRsLe (bProps c np io n (a ++ ps)) (bProps c np io n (a ++ ps')) := by
  obtain ⟨h1, h2, h3, h4⟩ := h
  refine ⟨?_, ?_, ?_, ?_⟩
  · rw [bProps_append_flds, bProps_append_flds]
    exact (List.prefix_append_right_inj _).mpr h1
  · rw [bProps_append_eff, bProps_append_eff]
    exact MsgsLeDeep.append (MsgsLeDeep.refl _) h2
  · intro e he
    rw [bProps_append_eff] at he ⊢
    simp only [Eff.add_enums, List.mem_append] at he ⊢
    exact he.imp id (h3 e)
  · intro m hm
    rw [bProps_append_entries] at hm ⊢
    simp only [List.mem_append] at hm ⊢
    exact hm.imp id (h4 m)

theorem convNested_append (c : Ctx) (np : List Str) (a b : List Nested) :
    convNested c np (a ++ b) = Eff.add (convNested c np a) (convNested c np b) := by
  induction a with
  | nil => simp [convNested, Eff.empty_add]
  | cons x xs ih =>
    cases x <;> simp only [List.cons_append, convNested, ih, Eff.add_def, Eff.add_assoc]

/-- what a declaration adds to its parent, before / after -/
def DeclLe (e e' : Eff) : Prop := MsgsLeDeep e.msgs e'.msgs ∧ e'.enums = e.enums

theorem convDecl_props_le (c : Ctx) (np : List Str) (io : Bool) (virt : List Property) (n : Str)
    (ps ps' : List Property) (ne ne' : List Nested) (psm : Option Psm)
    (hp : PRsLe (bProps c (np ++ [n]) io 1 (virt ++ ps)) (bProps c (np ++ [n]) io 1 (virt ++ ps')))
    (hn : DeclLe (convNested c (np ++ [n]) ne) (convNested c (np ++ [n]) ne')) :
    DeclLe (convDecl c np io virt (.mk n ps ne psm)) (convDecl c np io virt (.mk n ps' ne' psm)) := by
  refine ⟨?_, by rw [convDecl_enums, convDecl_enums]⟩
  rw [convDecl_msgs, convDecl_msgs]
  apply MsgsLeDeep.append (MsgsLeDeep.of_mem hp.2.2.2)
  intro m hm
  simp only [List.mem_singleton] at hm
  subst hm
  refine ⟨declMsg c np io virt n ps' ne' psm, by simp, ?_⟩
  simp only [declMsg]
  exact mkMsg_deep n io psm _ _ _ _ _ _ hp hn.1 (by rw [hn.2]; exact EnumsLe.refl _)

theorem DeclLe.refl (e : Eff) : DeclLe e e := ⟨MsgsLeDeep.refl _, rfl⟩

/-- **A field appended at any depth of a declaration, same context.** -/
theorem editDecl_deep (c : Ctx) (prop : Property) :
    ∀ (path : List PStep) (o o' : ObjDecl), editDecl (.field prop) path o = some o' →
      ∀ np io virt, DeclLe (convDecl c np io virt o) (convDecl c np io virt o') := by
  intro path
  induction path with
  | nil =>
    intro o o' h np io virt
    cases o with
    | mk n ps ne psm =>
      simp only [editDecl] at h
      obtain ⟨ps', hq, rfl⟩ := Option.map_eq_some_iff.mp h
      exact convDecl_props_le c np io virt n ps ps' ne ne psm
        (PRsLe_append_left c _ io 1 virt ps ps' (editProps_deep c prop [] ps ps' hq _ io _))
        (DeclLe.refl _)
  | cons st rest ih =>
    intro o o' h np io virt
    cases o with
    | mk n ps ne psm =>
      cases st with
      | prop j =>
        simp only [editDecl] at h
        obtain ⟨ps', hq, rfl⟩ := Option.map_eq_some_iff.mp h
        exact convDecl_props_le c np io virt n ps ps' ne ne psm
          (PRsLe_append_left c _ io 1 virt ps ps' (editProps_deep c prop _ ps ps' hq _ io _))
          (DeclLe.refl _)
      | nest k =>
        simp only [editDecl] at h
        obtain ⟨ne', hq, rfl⟩ := Option.map_eq_some_iff.mp h
        obtain ⟨x, x', h1, hf, h2, _⟩ := setAt_some _ _ _ _ hq
        apply convDecl_props_le c np io virt n ps ps ne ne' psm (PRsLe.refl _)
        rw [h1, h2]
        simp only [convNested_append]
        have hmid : DeclLe (convNested c (np ++ [n]) [x]) (convNested c (np ++ [n]) [x']) := by
          cases x with
          | object o1 =>
            simp only [] at hf
            obtain ⟨o1', ho, rfl⟩ := Option.map_eq_some_iff.mp hf
            simp only [convNested, Eff.add_def, Eff.add_empty]
            exact ih o1 o1' ho _ false []
          | oneof o1 =>
            simp only [] at hf
            obtain ⟨o1', ho, rfl⟩ := Option.map_eq_some_iff.mp hf
            simp only [convNested, Eff.add_def, Eff.add_empty]
            exact ih o1 o1' ho _ true []
          | enum e =>
            simp only [] at hf
            cases rest <;> simp [editEnum] at hf
        constructor
        · simp only [Eff.add_msgs]
          exact MsgsLeDeep.append (MsgsLeDeep.append (MsgsLeDeep.refl _) hmid.1) (MsgsLeDeep.refl _)
        · simp only [Eff.add_enums, hmid.2]
      | el i => simp [editDecl] at h
      | method m => simp [editDecl] at h
      | req => simp [editDecl] at h
      | res => simp [editDecl] at h
      | msg m => simp [editDecl] at h
      | reqm m => simp [editDecl] at h
      | repm m => simp [editDecl] at h
      | edata => simp [editDecl] at h
      | estatus => simp [editDecl] at h
      | event k => simp [editDecl] at h
      | command c => simp [editDecl] at h
      | summary s => simp [editDecl] at h

/-! ## where the new property lands: the nest path of its owner -/

/-- name of the inline type below a field (through array / map items) -/
def inlineName (d : Str) : Field → Option Str
  | .objectInl name _ _ _ => some (if name = [] then d else name)
  | .oneofInl name _ _ _ => some (if name = [] then d else name)
  | .array items _ => inlineName d items
  | .map items _ => inlineName d items
  | _ => none

/-- `NestPath()` of the inline type a `prop j …` path ends in (`np` = nest path of the owner of
`ps`) -/
def propsNestPath : List PStep → List Str → List Property → List Str
  | .prop j :: rest, np, ps =>
    match ps[j]? with
    | some (.mk nm _ _ f) =>
      match inlineName (toCamel nm) f, inlineProps f with
      | some n, some (qs, _) => propsNestPath rest (np ++ [n]) qs
      | _, _ => np
    | none => np
  | _, np, _ => np

/-- `NestPath()` of the object / oneof the path ends in (`np` = the declaration's parent path) -/
def declNestPath : List PStep → List Str → ObjDecl → List Str
  | .nest k :: rest, np, .mk n _ ne _ =>
    match ne[k]? with
    | some (.object o) => declNestPath rest (np ++ [n]) o
    | some (.oneof o) => declNestPath rest (np ++ [n]) o
    | _ => np
  | path, np, .mk n ps _ _ => propsNestPath path (np ++ [n]) ps

/-! ## exports and references -/

/-- the export list gets one block inserted, no reference is lost -/
def ExpIns (N : List (Str × TKind)) (ex ex' : List (Str × TKind)) (rf rf' : List (Str × Str)) : Prop :=
  (∃ A C, ex = A ++ C ∧ ex' = A ++ N ++ C) ∧ ∀ r ∈ rf, r ∈ rf'

theorem ExpIns.wrap {N ex ex' : List (Str × TKind)} {rf rf' : List (Str × Str)}
    (h : ExpIns N ex ex' rf rf') (X Y : List (Str × TKind)) (R S : List (Str × Str)) :
    ExpIns N (X ++ ex ++ Y) (X ++ ex' ++ Y) (R ++ rf ++ S) (R ++ rf' ++ S) := by
  obtain ⟨⟨A, C, rfl, rfl⟩, hr⟩ := h
  refine ⟨⟨X ++ A, C ++ Y, by simp, by simp⟩, ?_⟩
  intro r hm
  simp only [List.mem_append] at hm ⊢
  rcases hm with (hm | hm) | hm
  · exact Or.inl (Or.inl hm)
  · exact Or.inl (Or.inr (hr r hm))
  · exact Or.inr hm

theorem exportsField_inline (np : List Str) (d : Str) :
    ∀ (f : Field) (qs : List Property) (k : List Property → Field), inlineProps f = some (qs, k) →
      ∃ nm hd, inlineName d f = some nm ∧
        exportsField np d f = hd :: exportsProps (np ++ [nm]) qs ∧ refsField f = refsProps qs ∧
        ∀ qs', exportsField np d (k qs') = hd :: exportsProps (np ++ [nm]) qs' ∧
          refsField (k qs') = refsProps qs'
  | .objectInl name ps fl rules, qs, k, h => by
    simp only [inlineProps, Option.some.injEq, Prod.mk.injEq] at h
    obtain ⟨rfl, rfl⟩ := h
    exact ⟨(if name = [] then d else name), (relName np (if name = [] then d else name), .message false),
      rfl, by simp [exportsField], by simp [refsField],
      fun qs' => ⟨by simp [exportsField], by simp [refsField]⟩⟩
  | .oneofInl name ps rules lr, qs, k, h => by
    simp only [inlineProps, Option.some.injEq, Prod.mk.injEq] at h
    obtain ⟨rfl, rfl⟩ := h
    exact ⟨(if name = [] then d else name), (relName np (if name = [] then d else name), .message true),
      rfl, by simp [exportsField], by simp [refsField],
      fun qs' => ⟨by simp [exportsField], by simp [refsField]⟩⟩
  | .array items r, qs, k, h => by
    simp only [inlineProps] at h
    cases hi : inlineProps items with
    | none => simp [hi] at h
    | some pk =>
      obtain ⟨qs0, k0⟩ := pk
      simp only [hi, Option.map_some, Option.some.injEq, Prod.mk.injEq] at h
      obtain ⟨rfl, rfl⟩ := h
      obtain ⟨nm, hd, h1, h2, h3, h4⟩ := exportsField_inline np d items qs0 k0 hi
      exact ⟨nm, hd, by simpa [inlineName] using h1, by simpa [exportsField] using h2,
        by simpa [refsField] using h3,
        fun qs' => ⟨by simpa [exportsField] using (h4 qs').1, by simpa [refsField] using (h4 qs').2⟩⟩
  | .map items r, qs, k, h => by
    simp only [inlineProps] at h
    cases hi : inlineProps items with
    | none => simp [hi] at h
    | some pk =>
      obtain ⟨qs0, k0⟩ := pk
      simp only [hi, Option.map_some, Option.some.injEq, Prod.mk.injEq] at h
      obtain ⟨rfl, rfl⟩ := h
      obtain ⟨nm, hd, h1, h2, h3, h4⟩ := exportsField_inline np d items qs0 k0 hi
      exact ⟨nm, hd, by simpa [inlineName] using h1, by simpa [exportsField] using h2,
        by simpa [refsField] using h3,
        fun qs' => ⟨by simpa [exportsField] using (h4 qs').1, by simpa [refsField] using (h4 qs').2⟩⟩
  | .string _ _, _, _, h => by simp [inlineProps] at h
  | .bool _ _, _, _, h => by simp [inlineProps] at h
  | .bytes _, _, _, h => by simp [inlineProps] at h
  | .date _ _, _, _, h => by simp [inlineProps] at h
  | .decimal _ _, _, _, h => by simp [inlineProps] at h
  | .timestamp _, _, _, h => by simp [inlineProps] at h
  | .any, _, _, h => by simp [inlineProps] at h
  | .integer _ _ _, _, _, h => by simp [inlineProps] at h
  | .float _ _ _, _, _, h => by simp [inlineProps] at h
  | .key _ _ _ _, _, _, h => by simp [inlineProps] at h
  | .objectRef _ _ _ _, _, _, h => by simp [inlineProps] at h
  | .oneofRef _ _ _ _, _, _, h => by simp [inlineProps] at h
  | .enumRef _ _ _ _, _, _, h => by simp [inlineProps] at h
  | .enumInl _ _ _, _, _, h => by simp [inlineProps] at h

theorem exportsProps_single (np : List Str) (p : Property) :
    exportsProps np [p] = exportsProperty np p := by simp [exportsProps]

theorem refsProps_single (p : Property) : refsProps [p] = refsProperty p := by simp [refsProps]

theorem editProps_exports (prop : Property) :
    ∀ (path : List PStep) (ps ps' : List Property), editProps (.field prop) path ps = some ps' →
      ∀ np, ExpIns (exportsProps (propsNestPath path np ps) [prop]) (exportsProps np ps)
        (exportsProps np ps') (refsProps ps) (refsProps ps') := by
  intro path
  induction path with
  | nil =>
    intro ps ps' h np
    simp only [editProps, Option.some.injEq] at h
    subst h
    refine ⟨⟨exportsProps np ps, [], by simp, ?_⟩, ?_⟩
    · simp [exportsProps_append, propsNestPath]
    · intro r hr
      rw [refsProps_append]
      exact List.mem_append_left _ hr
  | cons st rest ih =>
    intro ps ps' h np
    cases st with
    | prop j =>
      simp only [editProps] at h
      obtain ⟨a, a', h1, hf, h2, h3⟩ := setAt_some _ _ _ _ h
      have hget : ps[j]? = some a := by
        rw [h1]
        have : j = (List.take j ps).length := h3.symm
        rw [List.append_assoc, List.getElem?_append_right (by omega)]
        simp [h3]
      cases a with
      | mk nm r o f =>
        simp only [] at hf
        cases hin : inlineProps f with
        | none =>
          exfalso
          simp only [hin] at hf
          cases rest <;> simp at hf
        | some pk =>
          obtain ⟨qs, k⟩ := pk
          simp only [hin] at hf
          obtain ⟨qs', hq, rfl⟩ := Option.map_eq_some_iff.mp hf
          obtain ⟨inm, hd, hn1, hn2, hn3, hn4⟩ := exportsField_inline np (toCamel nm) f qs k hin
          have hpath : propsNestPath (.prop j :: rest) np ps = propsNestPath rest (np ++ [inm]) qs := by
            simp only [propsNestPath, hget, hn1, hin]
          rw [hpath]
          have hinner := ih qs qs' hq (np ++ [inm])
          have hmid : ExpIns (exportsProps (propsNestPath rest (np ++ [inm]) qs) [prop])
              (exportsProperty np (.mk nm r o f)) (exportsProperty np (.mk nm r o (k qs')))
              (refsProperty (.mk nm r o f)) (refsProperty (.mk nm r o (k qs'))) := by
            simp only [exportsProperty, refsProperty, hn2, hn3, (hn4 qs').1, (hn4 qs').2]
            have := hinner.wrap [hd] [] [] []
            simpa using this
          have := hmid.wrap (exportsProps np (ps.take j)) (exportsProps np (ps.drop (j + 1)))
            (refsProps (ps.take j)) (refsProps (ps.drop (j + 1)))
          rw [h1, h2]
          simpa only [exportsProps_append, refsProps_append, exportsProps_single, refsProps_single] using this
    | el i => simp [editProps] at h
    | nest k => simp [editProps] at h
    | method m => simp [editProps] at h
    | req => simp [editProps] at h
    | res => simp [editProps] at h
    | msg m => simp [editProps] at h
    | reqm m => simp [editProps] at h
    | repm m => simp [editProps] at h
    | edata => simp [editProps] at h
    | estatus => simp [editProps] at h
    | event k => simp [editProps] at h
    | command c => simp [editProps] at h
    | summary s => simp [editProps] at h

theorem exportsNested_append (np : List Str) (a b : List Nested) :
    exportsNested np (a ++ b) = exportsNested np a ++ exportsNested np b := by
  induction a with
  | nil => simp [exportsNested]
  | cons x xs ih => cases x <;> simp [exportsNested, ih]

theorem refsNested_append (a b : List Nested) : refsNested (a ++ b) = refsNested a ++ refsNested b := by
  induction a with
  | nil => simp [refsNested]
  | cons x xs ih => cases x <;> simp [refsNested, ih]

theorem editDecl_exports (prop : Property) :
    ∀ (path : List PStep) (o o' : ObjDecl), editDecl (.field prop) path o = some o' →
      ∀ np io, ExpIns (exportsProps (declNestPath path np o) [prop]) (exportsDecl np io o)
        (exportsDecl np io o') (refsDecl o) (refsDecl o') := by
  intro path
  induction path with
  | nil =>
    intro o o' h np io
    cases o with
    | mk n ps ne psm =>
      simp only [editDecl] at h
      obtain ⟨ps', hq, rfl⟩ := Option.map_eq_some_iff.mp h
      have := (editProps_exports prop [] ps ps' hq (np ++ [n])).wrap [(relName np n, .message io)]
        (exportsNested (np ++ [n]) ne) [] (refsNested ne)
      simpa [exportsDecl, refsDecl, declNestPath] using this
  | cons st rest ih =>
    intro o o' h np io
    cases o with
    | mk n ps ne psm =>
      cases st with
      | prop j =>
        simp only [editDecl] at h
        obtain ⟨ps', hq, rfl⟩ := Option.map_eq_some_iff.mp h
        have := (editProps_exports prop _ ps ps' hq (np ++ [n])).wrap [(relName np n, .message io)]
          (exportsNested (np ++ [n]) ne) [] (refsNested ne)
        simpa [exportsDecl, refsDecl, declNestPath] using this
      | nest k =>
        simp only [editDecl] at h
        obtain ⟨ne', hq, rfl⟩ := Option.map_eq_some_iff.mp h
        obtain ⟨x, x', h1, hf, h2, h3⟩ := setAt_some _ _ _ _ hq
        generalize List.take k ne = L1 at h1 h2 h3
        generalize List.drop (k + 1) ne = L2 at h1 h2
        subst h1
        subst h2
        have hget : (L1 ++ [x] ++ L2)[k]? = some x := by
          rw [List.append_assoc, List.getElem?_append_right (by omega)]
          simp [h3]
        have hmid : ExpIns (exportsProps (declNestPath (.nest k :: rest) np (.mk n ps (L1 ++ [x] ++ L2) psm)) [prop])
            (exportsNested (np ++ [n]) [x]) (exportsNested (np ++ [n]) [x'])
            (refsNested [x]) (refsNested [x']) := by
          cases x with
          | object o1 =>
            simp only [] at hf
            obtain ⟨o1', ho, rfl⟩ := Option.map_eq_some_iff.mp hf
            have := ih o1 o1' ho (np ++ [n]) false
            have hg : (L1 ++ Nested.object o1 :: L2)[k]? = some (Nested.object o1) := by simpa using hget
            simpa [exportsNested, refsNested, declNestPath, hg] using this
          | oneof o1 =>
            simp only [] at hf
            obtain ⟨o1', ho, rfl⟩ := Option.map_eq_some_iff.mp hf
            have := ih o1 o1' ho (np ++ [n]) true
            have hg : (L1 ++ Nested.oneof o1 :: L2)[k]? = some (Nested.oneof o1) := by simpa using hget
            simpa [exportsNested, refsNested, declNestPath, hg] using this
          | enum e =>
            simp only [] at hf
            cases rest <;> simp [editEnum] at hf
        have e1 : ∀ y, exportsNested (np ++ [n]) (L1 ++ [y] ++ L2) =
            exportsNested (np ++ [n]) L1 ++ exportsNested (np ++ [n]) [y] ++ exportsNested (np ++ [n]) L2 := by
          intro y; rw [exportsNested_append, exportsNested_append]
        have r1 : ∀ y, refsNested (L1 ++ [y] ++ L2) = refsNested L1 ++ refsNested [y] ++ refsNested L2 := by
          intro y; rw [refsNested_append, refsNested_append]
        have := (hmid.wrap (exportsNested (np ++ [n]) L1) (exportsNested (np ++ [n]) L2)
          (refsNested L1) (refsNested L2)).wrap
          ((relName np n, .message io) :: exportsProps (np ++ [n]) ps) [] (refsProps ps) []
        generalize exportsProps (declNestPath (.nest k :: rest) np (.mk n ps (L1 ++ [x] ++ L2) psm)) [prop] = N at this ⊢
        simp only [exportsDecl, refsDecl, e1, r1]
        simp only [List.append_assoc, List.cons_append, List.nil_append, List.append_nil] at this ⊢
        exact this
      | el i => simp [editDecl] at h
      | method m => simp [editDecl] at h
      | req => simp [editDecl] at h
      | res => simp [editDecl] at h
      | msg m => simp [editDecl] at h
      | reqm m => simp [editDecl] at h
      | repm m => simp [editDecl] at h
      | edata => simp [editDecl] at h
      | estatus => simp [editDecl] at h
      | event k => simp [editDecl] at h
      | command c => simp [editDecl] at h
      | summary s => simp [editDecl] at h

end J5V.Compile
