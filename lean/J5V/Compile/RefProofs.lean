import J5V.Compile.ConvertProofs
/-!
# References, imports, aliases (core only)
-/
namespace J5V.Compile
open J5V.Go

/-- the map entries one `import` statement contributes (`j5Imports`) -/
def importEntries (imp : Import) : List (Str × Str) :=
  if containsByte 47 imp.path then
    [(packageFromFilename imp.path, packageFromFilename imp.path)]
  else if imp.alias ≠ [] then [(imp.alias, imp.path)]
  else
    let parts := splitOnByte 46 imp.path
    if parts.length < 2 then []
    else [(parts.getD (parts.length - 2) [], imp.path), (imp.path, imp.path)]

/-- an import the loop of `j5Imports` counts as an error (`invalid package name`) -/
def importBad (imp : Import) : Bool :=
  !containsByte 47 imp.path && imp.alias = [] && (splitOnByte 46 imp.path).length < 2

theorem j5ImportsGo_eq (imports : List Import) (h : ∀ imp ∈ imports, imp.path ≠ []) :
    j5ImportsGo imports =
      some (imports.flatMap importEntries, (imports.filter importBad).length) := by
  induction imports with
  | nil => rfl
  | cons imp rest ih =>
    have hp := h imp (by simp)
    have ihr := ih (fun x hx => h x (List.mem_cons_of_mem _ hx))
    simp only [j5ImportsGo, hp, if_false, ihr, List.flatMap_cons, List.filter_cons]
    by_cases hs : containsByte 47 imp.path = true
    · simp [hs, importEntries, importBad]
    · by_cases ha : imp.alias = []
      · by_cases hl : (splitOnByte 46 imp.path).length < 2
        · simp [hs, ha, hl, importEntries, importBad]
        · simp [hs, ha, hl, importEntries, importBad]
      · simp [hs, ha, importEntries, importBad]

/-- **`j5Imports`**: succeeds iff no import has an empty path and none is a bare single-segment
package without alias; the map then holds, in order, the entries of every import -/
theorem j5Imports_ok (pkg : Str) (imports : List Import) (h : ∀ imp ∈ imports, imp.path ≠ [])
    (hb : ∀ imp ∈ imports, importBad imp = false) :
    j5Imports pkg imports = .ok ⟨imports.flatMap importEntries, pkg⟩ := by
  unfold j5Imports
  rw [j5ImportsGo_eq imports h]
  have : (imports.filter importBad).length = 0 := by
    simp only [List.length_eq_zero_iff, List.filter_eq_nil_iff]
    intro a ha; simpa using hb a ha
  simp [this]

/-- the three ways to name an imported package -/
theorem importEntries_package (path : Str) (h1 : containsByte 47 path = false)
    (h2 : 2 ≤ (splitOnByte 46 path).length) :
    importEntries ⟨path, []⟩ =
      [((splitOnByte 46 path).getD ((splitOnByte 46 path).length - 2) [], path), (path, path)] := by
  have : ¬ (splitOnByte 46 path).length < 2 := by omega
  simp [importEntries, h1, this]

theorem importEntries_alias (path alias : Str) (h1 : containsByte 47 path = false)
    (h2 : alias ≠ []) : importEntries ⟨path, alias⟩ = [(alias, path)] := by
  simp [importEntries, h1, h2]

theorem importEntries_file (path alias : Str) (h1 : containsByte 47 path = true) :
    importEntries ⟨path, alias⟩ = [(packageFromFilename path, packageFromFilename path)] := by
  simp [importEntries, h1]

/-- **local references**: an empty package or the file's own package resolves in the package's own
export table -/
theorem resolve_local (im : ImportMap) (r : Resolver) (pkg schema : Str)
    (h : pkg = [] ∨ pkg = im.thisPackage) (hp : im.thisPackage = r.pkgName) :
    resolveTypeNoImport im r pkg schema = mapGet r.exports schema := by
  have hc : pkg = [] ∨ pkg = r.pkgName := by rw [← hp]; exact h
  simp [resolveTypeNoImport, ImportMap.expand, Resolver.resolveType, hp, hc]

/-- **imported references**: a key of the import map (alias, last-but-one segment, full package,
package of an imported file) that is neither the own package nor an implicit import resolves in
the export table of the package it maps to -/
theorem resolve_imported (im : ImportMap) (r : Resolver) (spec full schema : Str)
    (hne : spec ≠ [] ∧ spec ≠ im.thisPackage) (hk : mapGet im.vals spec = some full)
    (hi1 : implicitRef spec schema = none) (hi2 : implicitRef full schema = none)
    (hfull : full ≠ r.pkgName) :
    resolveTypeNoImport im r spec schema =
      match mapGet r.deps full with
      | none => none
      | some ex => mapGet ex schema := by
  have hc : (spec = [] || spec = im.thisPackage) = false := by simp [hne.1, hne.2]
  simp [resolveTypeNoImport, ImportMap.expand, hc, hi1, hk, hi2, Resolver.resolveType, hfull]
  rfl

/-- **a resolved message reference**: the field gets the absolute type name of the declared type
and the file that declares it is imported -/
theorem bField_objectRef_resolved (c : Ctx) (np : List Str) (d pkg schema : Str) (fl : Bool)
    (rules : Rules) (t : TypeRef) (h : c.resolve pkg schema = some t)
    (hm : t.kind.isMessage = true) :
    (∃ r, (bField c np d (.objectRef pkg schema fl rules)).res = some r ∧
      r.typeName = t.protoTypeName ∧ r.type = .message) ∧
    t.file ∈ (bField c np d (.objectRef pkg schema fl rules)).eff.imports := by
  rw [bField]
  simp only [msgRefField, refField, h, hm, Bool.not_false]
  simp only [if_true]
  refine ⟨⟨_, rfl, rfl, rfl⟩, ?_⟩
  simp [Eff.add, Eff.imp]

/-- in an object, map entries land in the message itself: nothing is handed to the outer context -/
theorem bProps_entries_object (c : Ctx) (np : List Str) (n : Nat) (ps : List Property) :
    (bProps c np false n ps).entries = [] := by
  induction ps generalizing n with
  | nil => simp [bProps_nil]
  | cons p ps ih => rw [bProps_cons]; simp [ih]

/-- a property contributes at most one outer message, and it is a map entry -/
theorem bProperty_entries_shape (c : Ctx) (np : List Str) (n : Nat) (name : Str) (req opt : Bool)
    (schema : Field) :
    (bProperty c np true n (.mk name req opt schema)).entries = [] ∨
      ∃ nm r', (bProperty c np true n (.mk name req opt schema)).entries = [mkEntry nm r'] := by
  unfold bProperty
  cases schema with
  | map items rules =>
    dsimp only
    split
    · simp
    · rename_i r _
      right
      exact ⟨mapName (toSnake name), r, by
        cases opt <;> cases req <;> simp [finishProperty]⟩
  | _ =>
    dsimp only
    split
    · simp
    · left
      rename_i r _
      cases opt <;> cases req <;> cases hpk : r.primaryKey <;> simp [finishProperty, hpk]

/-- everything a oneof hands to its outer context is a map entry -/
theorem bProps_entries_kind (c : Ctx) (np : List Str) (io : Bool) (n : Nat) (ps : List Property) :
    ∀ m ∈ (bProps c np io n ps).entries, m.kind = .mapentry := by
  induction ps generalizing n with
  | nil => intro m hm; simp [bProps_nil] at hm
  | cons p ps ih =>
    intro m hm
    rw [bProps_cons] at hm
    simp only [List.mem_append] at hm
    rcases hm with hm | hm
    · cases io with
      | false => simp at hm
      | true =>
        simp only [if_true] at hm
        cases p with
        | mk name req opt schema =>
          rcases bProperty_cases c np true n name req opt schema with ⟨e, he⟩ | ⟨pre, en, r, rp, he⟩
          · rw [he] at hm; simp at hm
          · have hen := bProperty_entries_shape c np n name req opt schema
            rcases hen with h0 | ⟨nm, r', h1⟩
            · rw [h0] at hm; simp at hm
            · rw [h1] at hm
              simp only [List.mem_singleton] at hm
              subst hm; rfl
    · exact ih (n + 1) m hm

theorem protoTypeName_abs (t : TypeRef) (h : t.pkg ≠ []) :
    t.protoTypeName = b!"." ++ t.pkg ++ b!"." ++ t.name := by
  simp [TypeRef.protoTypeName, h]

end J5V.Compile
