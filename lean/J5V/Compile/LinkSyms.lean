import J5V.Compile.Link
/-!
# Shape of the symbol table of a message tree (core only)

Every symbol a message contributes to the link model — itself, its fields, the synthetic oneof,
the `_name` oneofs of optional fields, nested messages and enums with their values, at any depth —
is named `<pfx>.<message name>` or `<pfx>.<message name>.<something>`. First step towards the two
open link bridges (duplicate symbols across different top-level declarations; "no enclosing scope
has a child named …" for relative-name resolution): the symbols of two messages with different
names under the same non-empty prefix can only collide if one name extends the other by a dot.
-/
namespace J5V.Compile

theorem qual_ne (pfx name : Str) (h : pfx ≠ []) : qual pfx name = pfx ++ b!"." ++ name := by
  simp [qual, h]

theorem qual_ne_nil (pfx name : Str) (h : pfx ≠ []) : qual pfx name ≠ [] := by
  rw [qual_ne pfx name h]
  cases pfx with
  | nil => exact absurd rfl h
  | cons a rest => simp

/-- `k` is the name `base` or a dotted extension of it -/
def Under (base k : Str) : Prop := k = base ∨ ∃ rest, k = base ++ b!"." ++ rest

theorem Under.trans_ext (base mid k : Str) (hm : ∃ r, mid = base ++ b!"." ++ r) (hk : Under mid k) :
    ∃ rest, k = base ++ b!"." ++ rest := by
  obtain ⟨r, rfl⟩ := hm
  rcases hk with rfl | ⟨r2, rfl⟩
  · exact ⟨r, rfl⟩
  · exact ⟨r ++ b!"." ++ r2, by simp [List.append_assoc]⟩

theorem enumSyms_under (full : Str) (hf : full ≠ []) (e : EnumSkel) :
    ∀ kv ∈ enumSyms full e, ∃ rest, kv.1 = full ++ b!"." ++ rest := by
  intro kv hkv
  simp only [enumSyms, List.mem_cons, List.mem_map] at hkv
  rcases hkv with rfl | ⟨v, _, rfl⟩
  · exact ⟨e.name, qual_ne full _ hf⟩
  · exact ⟨v.1, qual_ne full _ hf⟩

mutual
theorem msgSyms_under (pfx : Str) (hp : pfx ≠ []) :
    ∀ m : MsgSkel, ∀ kv ∈ msgSyms pfx m, Under (qual pfx m.name) kv.1
  | .mk name kind psm fields msgs enums => by
    intro kv hkv
    have hfull : qual pfx name ≠ [] := qual_ne_nil pfx name hp
    rw [msgSyms] at hkv
    simp only [MsgSkel.name, List.mem_cons, List.mem_append, List.mem_map, List.mem_flatMap] at hkv ⊢
    rcases hkv with ((((rfl | ⟨f, _, rfl⟩) | hone) | ⟨f, _, rfl⟩) | hn) | ⟨e, _, he⟩
    · exact Or.inl rfl
    · exact Or.inr ⟨f.name, qual_ne _ _ hfull⟩
    · split at hone
      · simp only [List.mem_singleton] at hone
        subst hone
        exact Or.inr ⟨b!"type", qual_ne _ _ hfull⟩
      · cases hone
    · exact Or.inr ⟨b!"_" ++ f.name, qual_ne _ _ hfull⟩
    · obtain ⟨m', _, hu⟩ := msgsSyms_under (qual pfx name) hfull msgs kv hn
      exact Or.inr (Under.trans_ext _ _ _ ⟨m'.name, qual_ne _ _ hfull⟩ hu)
    · exact Or.inr (enumSyms_under _ hfull e kv he)
theorem msgsSyms_under (pfx : Str) (hp : pfx ≠ []) :
    ∀ ms : List MsgSkel, ∀ kv ∈ msgsSyms pfx ms, ∃ m ∈ ms, Under (qual pfx m.name) kv.1
  | [] => by intro kv hkv; simp [msgsSyms] at hkv
  | m :: rest => by
    intro kv hkv
    rw [msgsSyms] at hkv
    rcases List.mem_append.mp hkv with h | h
    · exact ⟨m, by simp, msgSyms_under pfx hp m kv h⟩
    · obtain ⟨m', hm', hu⟩ := msgsSyms_under pfx hp rest kv h
      exact ⟨m', List.mem_cons_of_mem _ hm', hu⟩
end

/-- a dotless name followed by nothing or by a dotted tail determines the name -/
theorem dotless_prefix_eq (a b t1 t2 : Str) (ha : 46 ∉ a) (hb : 46 ∉ b)
    (h1 : t1 = [] ∨ ∃ r, t1 = 46 :: r) (h2 : t2 = [] ∨ ∃ r, t2 = 46 :: r)
    (h : a ++ t1 = b ++ t2) : a = b := by
  induction a generalizing b with
  | nil =>
    cases b with
    | nil => rfl
    | cons y ys =>
      simp only [List.nil_append, List.cons_append] at h
      rcases h1 with rfl | ⟨r, rfl⟩
      · cases h
      · simp only [List.cons.injEq] at h
        exact absurd (by simp [← h.1]) hb
  | cons x xs ih =>
    cases b with
    | nil =>
      simp only [List.nil_append, List.cons_append] at h
      rcases h2 with rfl | ⟨r, rfl⟩
      · cases h
      · simp only [List.cons.injEq] at h
        exact absurd (by simp [h.1]) ha
    | cons y ys =>
      simp only [List.cons_append, List.cons.injEq] at h
      have := ih ys (fun hm => ha (List.mem_cons_of_mem _ hm)) (fun hm => hb (List.mem_cons_of_mem _ hm)) h.2
      rw [h.1, this]

/-- **differently named dotless siblings have disjoint symbol subtrees** -/
theorem under_siblings_disjoint (pfx n1 n2 k : Str) (hp : pfx ≠ []) (h1 : 46 ∉ n1) (h2 : 46 ∉ n2)
    (hne : n1 ≠ n2) (u1 : Under (qual pfx n1) k) (u2 : Under (qual pfx n2) k) : False := by
  rw [qual_ne pfx n1 hp] at u1
  rw [qual_ne pfx n2 hp] at u2
  have key : ∃ t1 t2, (t1 = [] ∨ ∃ r, t1 = 46 :: r) ∧ (t2 = [] ∨ ∃ r, t2 = 46 :: r) ∧
      n1 ++ t1 = n2 ++ t2 := by
    rcases u1 with rfl | ⟨r1, rfl⟩ <;> rcases u2 with h | ⟨r2, h⟩
    · exact ⟨[], [], Or.inl rfl, Or.inl rfl, by simpa using h⟩
    · exact ⟨[], 46 :: r2, Or.inl rfl, Or.inr ⟨r2, rfl⟩, by simpa [List.append_assoc] using h⟩
    · exact ⟨46 :: r1, [], Or.inr ⟨r1, rfl⟩, Or.inl rfl, by simpa [List.append_assoc] using h⟩
    · exact ⟨46 :: r1, 46 :: r2, Or.inr ⟨r1, rfl⟩, Or.inr ⟨r2, rfl⟩, by simpa [List.append_assoc] using h⟩
  obtain ⟨t1, t2, ht1, ht2, he⟩ := key
  exact hne (dotless_prefix_eq n1 n2 t1 t2 h1 h2 ht1 ht2 he)

end J5V.Compile
