import J5V.Compile.OrderProofs
/-!
# `compilePkg` is invariant under permutation of a package's file listing (core only)

The three sequential loops of `loadLocalPackage` (summaries, dependencies, conversion) are
`mapM`-like: when they succeed, their result is the image of the input list under a *function*, so
a permuted input gives a permuted result. The export table and the dependency table are Go maps
with distinct keys (`mapGet_perm`); the generated file list is sorted (`sortFiles_perm`).
-/
namespace J5V.Compile
open J5V.Go

instance : Inhabited Summary' := ⟨⟨[], [], [], []⟩⟩

def sumOf (f : SrcFile) : Summary' :=
  match fileSummary f with
  | .ok s => s
  | _ => default

theorem summaries_ok (files : List SrcFile) (sums : List Summary')
    (h : summaries files = .ok sums) :
    sums = files.map sumOf ∧ ∀ f ∈ files, fileSummary f = .ok (sumOf f) := by
  induction files generalizing sums with
  | nil =>
    simp only [summaries, Outcome.ok.injEq] at h
    subst h; exact ⟨rfl, fun f hf => by simp at hf⟩
  | cons f rest ih =>
    unfold summaries at h
    cases hf : fileSummary f with
    | err t => simp [hf] at h
    | panic w => simp [hf] at h
    | ok s =>
      simp only [hf] at h
      cases hr : summaries rest with
      | err t => simp [hr] at h
      | panic w => simp [hr] at h
      | ok ss =>
        simp only [hr, Outcome.ok.injEq] at h
        subst h
        obtain ⟨e1, e2⟩ := ih ss hr
        have hsf : sumOf f = s := by simp [sumOf, hf]
        refine ⟨by simp [hsf, e1], ?_⟩
        intro g hg
        rcases List.mem_cons.mp hg with rfl | hg'
        · rw [hsf]; exact hf
        · exact e2 g hg'

theorem summaries_of_all_ok (files : List SrcFile)
    (h : ∀ f ∈ files, fileSummary f = .ok (sumOf f)) : summaries files = .ok (files.map sumOf) := by
  induction files with
  | nil => rfl
  | cons f rest ih =>
    unfold summaries
    rw [h f (by simp)]
    simp only []
    rw [ih (fun g hg => h g (List.mem_cons_of_mem _ hg))]
    rfl

/-- the descriptors one source file converts to (empty for `.proto` files and on failure) -/
def convOf (res : Resolver) : SrcFile → List FileSkel
  | .proto _ _ _ => []
  | .j5s path imports elems _ =>
    match convertFile res path imports elems with
    | .ok fs => fs
    | _ => []

def convOk (res : Resolver) : SrcFile → Prop
  | .proto _ _ _ => True
  | .j5s path imports elems _ => ∃ fs, convertFile res path imports elems = .ok fs

theorem convertAll_ok (res : Resolver) (files : List SrcFile) (out : List FileSkel)
    (h : convertAll res files = .ok out) :
    out = files.flatMap (convOf res) ∧ ∀ f ∈ files, convOk res f := by
  induction files generalizing out with
  | nil =>
    simp only [convertAll, Outcome.ok.injEq] at h
    subst h; exact ⟨rfl, fun f hf => by simp at hf⟩
  | cons f rest ih =>
    cases f with
    | proto path msgs enums =>
      simp only [convertAll] at h
      obtain ⟨e1, e2⟩ := ih out h
      refine ⟨by simp [convOf, e1], ?_⟩
      intro g hg
      rcases List.mem_cons.mp hg with rfl | hg'
      · trivial
      · exact e2 g hg'
    | j5s path imports elems decl =>
      unfold convertAll at h
      cases hc : convertFile res path imports elems with
      | err t => simp [hc] at h
      | panic w => simp [hc] at h
      | ok fs =>
        simp only [hc] at h
        cases hr : convertAll res rest with
        | err t => simp [hr] at h
        | panic w => simp [hr] at h
        | ok more =>
          simp only [hr, Outcome.ok.injEq] at h
          subst h
          obtain ⟨e1, e2⟩ := ih more hr
          refine ⟨by simp [convOf, hc, e1], ?_⟩
          intro g hg
          rcases List.mem_cons.mp hg with rfl | hg'
          · exact ⟨fs, hc⟩
          · exact e2 g hg'

theorem convertAll_of_all_ok (res : Resolver) (files : List SrcFile)
    (h : ∀ f ∈ files, convOk res f) : convertAll res files = .ok (files.flatMap (convOf res)) := by
  induction files with
  | nil => rfl
  | cons f rest ih =>
    have ihr := ih (fun g hg => h g (List.mem_cons_of_mem _ hg))
    cases f with
    | proto path msgs enums => simpa [convertAll, convOf] using ihr
    | j5s path imports elems decl =>
      obtain ⟨fs, hfs⟩ := h (.j5s path imports elems decl) (by simp)
      unfold convertAll
      simp only [hfs, ihr]
      simp [convOf, hfs]

instance : Inhabited Loaded := ⟨⟨[], [], [], [], [], []⟩⟩

def loadOf (b : Bundle) (fuel : Nat) (chain : List Str) (d : Str) : Loaded :=
  match loadPkg b fuel chain d with
  | .ok l => l
  | _ => default

theorem seqLoad_ok (load : Str → Outcome Loaded) (ds : List Str) (ls : List Loaded)
    (h : seqLoad load ds = .ok ls) :
    ls = ds.map (fun d => match load d with | .ok l => l | _ => default) ∧
      ∀ d ∈ ds, load d = .ok (match load d with | .ok l => l | _ => default) := by
  induction ds generalizing ls with
  | nil =>
    simp only [seqLoad, Outcome.ok.injEq] at h
    subst h; exact ⟨rfl, fun d hd => by simp at hd⟩
  | cons d rest ih =>
    rw [seqLoad] at h
    cases hl : load d with
    | err t => simp [hl] at h
    | panic w => simp [hl] at h
    | ok l =>
      simp only [hl] at h
      cases hr : seqLoad load rest with
      | err t => simp [hr] at h
      | panic w => simp [hr] at h
      | ok more =>
        simp only [hr, Outcome.ok.injEq] at h
        subst h
        obtain ⟨e1, e2⟩ := ih more hr
        refine ⟨by simp [hl, e1], ?_⟩
        intro g hg
        rcases List.mem_cons.mp hg with rfl | hg'
        · simp [hl]
        · exact e2 g hg'

theorem seqLoad_of_all_ok (load : Str → Outcome Loaded) (ds : List Str) (g : Str → Loaded)
    (h : ∀ d ∈ ds, load d = .ok (g d)) : seqLoad load ds = .ok (ds.map g) := by
  induction ds with
  | nil => simp [seqLoad]
  | cons d rest ih =>
    rw [seqLoad, h d (by simp)]
    simp only []
    rw [ih (fun x hx => h x (List.mem_cons_of_mem _ hx))]
    rfl

theorem seqLoad_congr (load load' : Str → Outcome Loaded) (ds : List Str)
    (h : ∀ d, load d = load' d) : seqLoad load ds = seqLoad load' ds := by
  have : load = load' := funext h
  rw [this]

def withFilesMap (name : Str) (files' : List SrcFile) (q : Pkg) : Pkg :=
  if q.name = name then { q with files := files' } else q

/-- the bundle in which the files of package `name` are listed as `files'` -/
def Bundle.withFiles (b : Bundle) (name : Str) (files' : List SrcFile) : Bundle :=
  { pkgs := b.pkgs.map (withFilesMap name files') }

theorem find_withFiles_other (pkgs : List Pkg) (name : Str) (files' : List SrcFile) (d : Str)
    (h : d ≠ name) :
    (pkgs.map (withFilesMap name files')).find? (·.name = d) = pkgs.find? (·.name = d) := by
  induction pkgs with
  | nil => rfl
  | cons q rest ih =>
    simp only [List.map_cons, List.find?_cons]
    by_cases hq : q.name = name
    · have h1 : decide (q.name = d) = false := by
        simp only [decide_eq_false_iff_not]; intro e; exact h (e ▸ hq)
      have h3 : (withFilesMap name files' q).name = q.name := by simp [withFilesMap, hq]
      simp only [h3, h1]
      exact ih
    · have h3 : withFilesMap name files' q = q := by simp [withFilesMap, hq]
      rw [h3]
      by_cases hqd : q.name = d <;> simp [hqd, ih]

theorem find_withFiles_self (pkgs : List Pkg) (name : Str) (files' : List SrcFile) (p : Pkg)
    (h : pkgs.find? (·.name = name) = some p) :
    (pkgs.map (withFilesMap name files')).find? (·.name = name) = some { p with files := files' } := by
  induction pkgs with
  | nil => simp at h
  | cons q rest ih =>
    simp only [List.map_cons, List.find?_cons] at h ⊢
    by_cases hq : q.name = name
    · have hd : decide (q.name = name) = true := by simpa using hq
      rw [hd] at h
      simp only [Option.some.injEq] at h
      subst h
      simp [withFilesMap, hq]
    · have hd : decide (q.name = name) = false := by simpa using hq
      rw [hd] at h
      have h3 : withFilesMap name files' q = q := by simp [withFilesMap, hq]
      rw [h3, hd]
      exact ih h

theorem withFiles_find_other (b : Bundle) (name : Str) (files' : List SrcFile) (d : Str)
    (h : d ≠ name) : (b.withFiles name files').find d = b.find d :=
  find_withFiles_other b.pkgs name files' d h

theorem withFiles_find_self (b : Bundle) (name : Str) (files' : List SrcFile) (p : Pkg)
    (h : b.find name = some p) :
    (b.withFiles name files').find name = some { p with files := files' } :=
  find_withFiles_self b.pkgs name files' p h

/-- once `name` is on the chain, loading never looks at the files of `name` -/
theorem loadPkg_withFiles_chain (b : Bundle) (name : Str) (files' : List SrcFile) :
    ∀ (fuel : Nat) (chain : List Str) (d : Str), chain.contains name = true →
      loadPkg (b.withFiles name files') fuel chain d = loadPkg b fuel chain d := by
  intro fuel
  induction fuel with
  | zero => intro chain d _; simp [loadPkg]
  | succ fuel ih =>
    intro chain d hc
    rw [loadPkg, loadPkg]
    by_cases hcd : chain.contains d = true
    · simp only [hcd, if_true]
    · have hdn : d ≠ name := by intro e; subst e; exact hcd hc
      simp only [hcd, Bool.false_eq_true, if_false, withFiles_find_other b name files' d hdn]
      have hfun : (fun x => loadPkg (b.withFiles name files') fuel (chain ++ [d]) x) =
          (fun x => loadPkg b fuel (chain ++ [d]) x) := by
        funext x
        exact ih (chain ++ [d]) x (by simpa using Or.inl (by simpa using hc))
      rw [hfun]

end J5V.Compile

namespace J5V.Compile
open J5V.Go

theorem mem_dedup (l : List Str) (a : Str) : a ∈ dedup l ↔ a ∈ l := by
  induction l with
  | nil => simp [dedup]
  | cons x xs ih =>
    simp only [dedup]
    by_cases hx : xs.contains x = true
    · simp only [hx, if_true, ih, List.mem_cons]
      constructor
      · exact Or.inr
      · rintro (rfl | h)
        · simpa using hx
        · exact h
    · simp only [hx, Bool.false_eq_true, if_false, List.mem_cons, ih]

theorem dedup_nodup (l : List Str) : (dedup l).Nodup := by
  induction l with
  | nil => simp [dedup]
  | cons x xs ih =>
    simp only [dedup]
    by_cases hx : xs.contains x = true
    · simp only [hx, if_true]; exact ih
    · simp only [hx, Bool.false_eq_true, if_false, List.nodup_cons]
      refine ⟨?_, ih⟩
      rw [mem_dedup]
      simpa using hx

/-- the dependency list of `loadLocalPackage`: distinct, and a permutation when the summaries
are permuted -/
theorem depNames_perm (name : Str) (sums sums' : List Summary') (h : sums.Perm sums') :
    (depNamesOf name sums).Perm (depNamesOf name sums') ∧ (depNamesOf name sums).Nodup := by
  have hn1 : (depNamesOf name sums).Nodup := List.Pairwise.filter _ (dedup_nodup _)
  have hn2 : (depNamesOf name sums').Nodup := List.Pairwise.filter _ (dedup_nodup _)
  refine ⟨(List.perm_ext_iff_of_nodup hn1 hn2).mpr ?_, hn1⟩
  intro a
  simp only [depNamesOf, List.mem_filter, mem_dedup]
  rw [(h.flatMap_right (·.depPkgs)).mem_iff]

theorem loadPkg_name (b : Bundle) (fuel : Nat) (chain : List Str) (d : Str) (l : Loaded)
    (h : loadPkg b fuel chain d = .ok l) : l.name = d := by
  cases fuel with
  | zero => simp [loadPkg] at h
  | succ fuel =>
    rw [loadPkg] at h
    split at h
    · cases h
    · cases hf : b.find d with
      | none =>
        simp only [hf] at h
        split at h
        · simp only [Outcome.ok.injEq] at h; subst h; rfl
        · cases h
      | some pkg =>
        simp only [hf] at h
        cases hs : summaries pkg.files with
        | err t => simp [hs] at h
        | panic w => simp [hs] at h
        | ok sums =>
          simp only [hs] at h
          cases hl : seqLoad (fun x => loadPkg b fuel (chain ++ [d]) x) (depNamesOf d sums) with
          | err t => simp [hl] at h
          | panic w => simp [hl] at h
          | ok ls =>
            simp only [hl] at h
            cases hc : convertAll (mkResolver d sums ls) pkg.files with
            | err t => simp [hc] at h
            | panic w => simp [hc] at h
            | ok files =>
              simp only [hc, Outcome.ok.injEq] at h
              subst h; rfl

/-- **Permuting the file listing of the compiled package** gives the same exports (as a map), the
same dependencies and a permutation of the same generated files — hence, after sorting, the same
result. Hypotheses: export names distinct across the files of the package. -/
theorem loadPkg_perm_files (b : Bundle) (name : Str) (p : Pkg) (files' : List SrcFile)
    (hfind : b.find name = some p) (hperm : p.files.Perm files') (fuel : Nat) (l : Loaded)
    (h : loadPkg b (fuel + 1) [] name = .ok l)
    (hdist : (l.exports.map (·.1)).Nodup) :
    ∃ l', loadPkg (b.withFiles name files') (fuel + 1) [] name = .ok l' ∧
      l'.files.Perm l.files := by
  rw [loadPkg] at h
  simp only [List.contains_nil, Bool.false_eq_true, if_false, hfind, List.nil_append] at h
  cases hs : summaries p.files with
  | err t => simp [hs] at h
  | panic w => simp [hs] at h
  | ok sums =>
    simp only [hs] at h
    cases hl : seqLoad (fun d => loadPkg b fuel [name] d) (depNamesOf name sums) with
    | err t => simp [hl] at h
    | panic w => simp [hl] at h
    | ok ls =>
      simp only [hl] at h
      cases hc : convertAll (mkResolver name sums ls) p.files with
      | err t => simp [hc] at h
      | panic w => simp [hc] at h
      | ok files =>
        simp only [hc, Outcome.ok.injEq] at h
        subst h
        simp only [mkLoaded] at hdist
        -- summaries of the permuted listing
        obtain ⟨hsums, hsok⟩ := summaries_ok p.files sums hs
        have hs' : summaries files' = .ok (files'.map sumOf) :=
          summaries_of_all_ok files' (fun f hf => hsok f (hperm.mem_iff.mpr hf))
        have hsperm : sums.Perm (files'.map sumOf) := by rw [hsums]; exact hperm.map sumOf
        -- dependencies
        obtain ⟨hdperm, hdnodup⟩ := depNames_perm name sums (files'.map sumOf) hsperm
        obtain ⟨hls, hlok⟩ := seqLoad_ok _ _ ls hl
        let ls' := (depNamesOf name (files'.map sumOf)).map (loadOf b fuel [name])
        have hl' : seqLoad (fun d => loadPkg (b.withFiles name files') fuel [name] d)
            (depNamesOf name (files'.map sumOf)) = .ok ls' := by
          apply seqLoad_of_all_ok
          intro d hd
          rw [loadPkg_withFiles_chain b name files' fuel [name] d (by simp)]
          exact hlok d (hdperm.mem_iff.mpr hd)
        have hlsperm : ls.Perm ls' := by rw [hls]; exact hdperm.map _
        -- dependency table: distinct keys
        have hkeys : ((ls.map fun l => (l.name, l.exports)).map (·.1)).Nodup := by
          have : (ls.map fun l => (l.name, l.exports)).map (·.1) = depNamesOf name sums := by
            rw [hls]
            simp only [List.map_map]
            conv => rhs; rw [← List.map_id (depNamesOf name sums)]
            apply List.map_congr_left
            intro d hd
            simp only [Function.comp, id]
            exact loadPkg_name b fuel [name] d _ (hlok d hd)
          rw [this]; exact hdnodup
        -- conversion of the permuted listing against the permuted tables
        obtain ⟨hfiles, hcok⟩ := convertAll_ok _ p.files files hc
        have hconv : ∀ path imports elems,
            convertFile (mkResolver name (files'.map sumOf) ls') path imports elems =
              convertFile (mkResolver name sums ls) path imports elems := by
          intro path imports elems
          unfold convertFile
          simp only []
          cases j5Imports (packageFromFilename (path ++ b!".proto")) imports with
          | err t => rfl
          | panic w => rfl
          | ok im =>
            have hfun : resolveTypeNoImport im (mkResolver name (files'.map sumOf) ls') =
                resolveTypeNoImport im (mkResolver name sums ls) := by
              funext pkg sch
              unfold resolveTypeNoImport
              cases im.expand pkg sch with
              | none => rfl
              | some e =>
                cases e with
                | implicit t => rfl
                | ref pk s =>
                  simp only [Resolver.resolveType, mkResolver]
                  rw [mapGet_perm (hsperm.flatMap_right (·.exports)) hdist s,
                    mapGet_perm (hlsperm.map fun l => (l.name, l.exports)) hkeys pk]
                  rfl
            simp only [hfun]
        have hcok' : ∀ f ∈ files', convOk (mkResolver name (files'.map sumOf) ls') f := by
          intro f hf
          have := hcok f (hperm.mem_iff.mpr hf)
          cases f with
          | proto path msgs enums => trivial
          | j5s path imports elems decl =>
            obtain ⟨fs, hfs⟩ := this
            exact ⟨fs, by rw [hconv]; exact hfs⟩
        have hc' := convertAll_of_all_ok (mkResolver name (files'.map sumOf) ls') files' hcok'
        have hcof : ∀ f, convOf (mkResolver name (files'.map sumOf) ls') f =
            convOf (mkResolver name sums ls) f := by
          intro f
          cases f with
          | proto path msgs enums => rfl
          | j5s path imports elems decl => simp only [convOf, hconv]
        refine ⟨mkLoaded name { p with files := files' } (files'.map sumOf) ls'
          (files'.flatMap (convOf (mkResolver name (files'.map sumOf) ls'))), ?_, ?_⟩
        · rw [loadPkg]
          simp only [List.contains_nil, Bool.false_eq_true, if_false, List.nil_append,
            withFiles_find_self b name files' p hfind, hs', hl', hc']
        · simp only [mkLoaded]
          rw [hfiles]
          have : convOf (mkResolver name (files'.map sumOf) ls') =
              convOf (mkResolver name sums ls) := funext hcof
          rw [this]
          exact (hperm.flatMap_right (convOf (mkResolver name sums ls))).symm

/-- **`compilePkg` does not depend on the order in which the file source lists the files of the
package** (distinct export names, distinct generated file names) -/
theorem compilePkg_perm_files (b : Bundle) (name : Str) (p : Pkg) (files' : List SrcFile)
    (hfind : b.find name = some p) (hperm : p.files.Perm files') (l : Loaded)
    (h : loadPkg b (b.pkgs.length + 1) [] name = .ok l)
    (hdist : (l.exports.map (·.1)).Nodup) (hnames : (l.files.map (·.name)).Nodup) :
    compilePkg (b.withFiles name files') name = compilePkg b name := by
  obtain ⟨l', hl', hp⟩ := loadPkg_perm_files b name p files' hfind hperm _ l h hdist
  unfold compilePkg
  have hlen : (b.withFiles name files').pkgs.length = b.pkgs.length := by
    simp [Bundle.withFiles]
  rw [hlen, hl', h]
  simp only []
  congr 1
  exact sortFiles_perm hp ((hp.map (·.name)).nodup_iff.mpr hnames)

end J5V.Compile
