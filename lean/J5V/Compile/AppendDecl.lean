import J5V.Compile.File
/-!
# Appending a top-level declaration (C13) — core only

`builders.go` appends messages, enums and services to their file in visit order, and the walk
visits the elements of a file in declaration order. So everything the existing declarations
produced stays where it was when a declaration is added at the end of the file: each generated
file of the old compile is a prefix-wise sub-file of the new compile.
-/
namespace J5V.Compile
open J5V.Go

/-- `f'` extends `f`: same name and package, old content is a prefix -/
def FileB.Le (f f' : FileB) : Prop :=
  f'.name = f.name ∧ f'.pkg = f.pkg ∧ f.msgs <+: f'.msgs ∧ f.enums <+: f'.enums ∧ f.svcs <+: f'.svcs

theorem FileB.Le.refl (f : FileB) : f.Le f :=
  ⟨rfl, rfl, List.prefix_refl _, List.prefix_refl _, List.prefix_refl _⟩

theorem FileB.Le.trans {a b c : FileB} (h1 : a.Le b) (h2 : b.Le c) : a.Le c :=
  ⟨h2.1.trans h1.1, h2.2.1.trans h1.2.1, h1.2.2.1.trans h2.2.2.1, h1.2.2.2.1.trans h2.2.2.2.1,
    h1.2.2.2.2.trans h2.2.2.2.2⟩

theorem FileB.le_apply (f : FileB) (e : Eff) (svcs : List SvcSkel) : f.Le (f.apply e svcs) :=
  ⟨rfl, rfl, List.prefix_append _ _, List.prefix_append _ _, List.prefix_append _ _⟩

/-- `r'` extends `r`: the main file and every sub-package file of `r` are extended in `r'` -/
def Root.Le (r r' : Root) : Prop :=
  r.main.Le r'.main ∧ ∀ kf ∈ r.subs, ∃ kf' ∈ r'.subs, kf'.1 = kf.1 ∧ kf.2.Le kf'.2

theorem Root.Le.refl (r : Root) : r.Le r :=
  ⟨FileB.Le.refl _, fun kf h => ⟨kf, h, rfl, FileB.Le.refl _⟩⟩

theorem Root.Le.trans {a b c : Root} (h1 : a.Le b) (h2 : b.Le c) : a.Le c := by
  refine ⟨h1.1.trans h2.1, ?_⟩
  intro kf hkf
  obtain ⟨kf', hkf', hk, hle⟩ := h1.2 kf hkf
  obtain ⟨kf'', hkf'', hk', hle'⟩ := h2.2 kf' hkf'
  exact ⟨kf'', hkf'', hk'.trans hk, hle.trans hle'⟩

theorem Root.le_apply (r : Root) (s : Step) : r.Le (r.apply s) := by
  unfold Root.apply
  cases hs : s.target.sub with
  | none =>
    simp only []
    exact ⟨FileB.le_apply _ _ _, fun kf h => ⟨kf, h, rfl, FileB.Le.refl _⟩⟩
  | some sub =>
    simp only []
    refine ⟨FileB.Le.refl _, ?_⟩
    intro kf hkf
    -- the file is still there (possibly with more content)
    let g : Str × FileB → Str × FileB := fun kf =>
      if kf.2.pkg = r.main.pkg ++ b!"." ++ sub then (kf.1, kf.2.apply s.eff s.svcs) else kf
    have hg : ∀ x : Str × FileB, (g x).1 = x.1 ∧ x.2.Le (g x).2 := by
      intro x
      simp only [g]
      split
      · exact ⟨rfl, FileB.le_apply _ _ _⟩
      · exact ⟨rfl, FileB.Le.refl _⟩
    refine ⟨g kf, ?_, (hg kf).1, (hg kf).2⟩
    have hmem : kf ∈ (if r.subs.any (fun x => x.2.pkg = r.main.pkg ++ b!"." ++ sub) then r.subs
        else r.subs ++ [(sub, { name := subPackageFileName r.main.name sub,
                                pkg := r.main.pkg ++ b!"." ++ sub })]) := by
      split
      · exact hkf
      · exact List.mem_append_left _ hkf
    have := List.mem_map_of_mem (f := fun (x : Str × FileB) =>
      if x.2.pkg = r.main.pkg ++ b!"." ++ sub then (x.1, x.2.apply s.eff s.svcs) else (x.1, x.2)) hmem
    simpa [g] using this

theorem runSteps_le (steps : List Step) (r r' : Root) (h : runSteps steps r = .ok r') : r.Le r' := by
  induction steps generalizing r with
  | nil =>
    simp only [runSteps, Outcome.ok.injEq] at h
    subst h; exact Root.Le.refl _
  | cons s rest ih =>
    rw [runSteps] at h
    split at h
    · cases h
    · split at h
      · cases h
      · exact (Root.le_apply r s).trans (ih _ h)

theorem runSteps_append (a b : List Step) (r : Root) :
    runSteps (a ++ b) r =
      match runSteps a r with
      | .ok r1 => runSteps b r1
      | .err t => .err t
      | .panic w => .panic w := by
  induction a generalizing r with
  | nil => rfl
  | cons s rest ih =>
    simp only [List.cons_append, runSteps]
    split
    · rfl
    · split
      · rfl
      · exact ih _

/-- the files of a finished walk: the main file first, then the sub-package files -/
def Root.files (r : Root) : List FileSkel := r.main.skel :: r.subs.map (·.2.skel)

/-- **Append a declaration**: when a file compiles before and after a declaration is added at its
end (same resolver), every file generated before is still generated, under the same name and
package, and its messages, enums and services are a prefix of the new ones — nothing that the
existing declarations produced moves or changes. -/
theorem convertFile_append_decl (res : Resolver) (path : Str) (imports : List Import)
    (elems : List Elem) (e : Elem) (fs fs' : List FileSkel)
    (h : convertFile res path imports elems = .ok fs)
    (h' : convertFile res path imports (elems ++ [e]) = .ok fs') :
    ∀ f ∈ fs, ∃ f' ∈ fs', f'.name = f.name ∧ f'.pkg = f.pkg ∧
      f.msgs <+: f'.msgs ∧ f.enums <+: f'.enums ∧ f.svcs <+: f'.svcs := by
  unfold convertFile at h h'
  simp only [] at h h'
  cases hj : j5Imports (packageFromFilename (path ++ b!".proto")) imports with
  | err t => simp [hj] at h
  | panic w => simp [hj] at h
  | ok im =>
    simp only [hj, List.flatMap_append, List.flatMap_cons, List.flatMap_nil, List.append_nil] at h h'
    rw [runSteps_append] at h'
    cases hr : runSteps ((elems.flatMap (itemsOfElem (packageFromFilename (path ++ b!".proto")))).flatMap
        (convItem { resolve := resolveTypeNoImport im res }))
        { main := { name := path ++ b!".proto", pkg := packageFromFilename (path ++ b!".proto") } } with
    | err t => simp [hr] at h
    | panic w => simp [hr] at h
    | ok r1 =>
      simp only [hr] at h h'
      cases hr2 : runSteps ((itemsOfElem (packageFromFilename (path ++ b!".proto")) e).flatMap
          (convItem { resolve := resolveTypeNoImport im res })) r1 with
      | err t => simp [hr2] at h'
      | panic w => simp [hr2] at h'
      | ok r2 =>
        simp only [hr2] at h'
        have hle := runSteps_le _ r1 r2 hr2
        split at h
        · cases h
        · split at h'
          · cases h'
          · simp only [Outcome.ok.injEq] at h h'
            subst h; subst h'
            intro f hf
            rcases List.mem_cons.mp hf with rfl | hf
            · refine ⟨r2.main.skel, by simp, ?_⟩
              obtain ⟨a, b, c, d, e'⟩ := hle.1
              exact ⟨a, b, c, d, e'⟩
            · obtain ⟨kf, hkf, rfl⟩ := List.mem_map.mp hf
              obtain ⟨kf', hkf', _, hl⟩ := hle.2 kf hkf
              refine ⟨kf'.2.skel, ?_, ?_⟩
              · exact List.mem_cons_of_mem _ (List.mem_map_of_mem hkf')
              · obtain ⟨a, b, c, d, e'⟩ := hl
                exact ⟨a, b, c, d, e'⟩

end J5V.Compile
