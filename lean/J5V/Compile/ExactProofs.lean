import J5V.Compile.FileProofs
import J5V.Compile.ShapeProofs
import J5V.Compile.RefProofs
import J5V.Compile.Congr
/-!
# Exactness: what each generated file holds, item by item (core only)

From `FileProofs`: the files of a successful `ConvertJ5File` are folds of the step list. Here the
step list is unfolded per visited item: which target an item's steps go to, and which messages,
enums and services they add. Together: a list equation for every component of every generated file
in terms of the declarations of the source file — nothing else is emitted.
-/
namespace J5V.Compile
open J5V.Go

/-! ## folds of effects -/

theorem foldl_eff_msgs {α : Type} (f : α → Eff) (l : List α) (init : Eff) :
    (l.foldl (fun e a => e ++ f a) init).msgs = init.msgs ++ l.flatMap fun a => (f a).msgs := by
  induction l generalizing init with
  | nil => simp
  | cons a rest ih =>
    simp only [List.foldl_cons, List.flatMap_cons]
    rw [ih]
    show (Eff.add init (f a)).msgs ++ _ = _
    simp [Eff.add]

theorem foldl_eff_enums {α : Type} (f : α → Eff) (l : List α) (init : Eff) :
    (l.foldl (fun e a => e ++ f a) init).enums = init.enums ++ l.flatMap fun a => (f a).enums := by
  induction l generalizing init with
  | nil => simp
  | cons a rest ih =>
    simp only [List.foldl_cons, List.flatMap_cons]
    rw [ih]
    show (Eff.add init (f a)).enums ++ _ = _
    simp [Eff.add]

theorem foldl_eff_errs {α : Type} (f : α → Eff) (l : List α) (init : Eff) :
    (l.foldl (fun e a => e ++ f a) init).errs = init.errs + (l.map fun a => (f a).errs).sum := by
  induction l generalizing init with
  | nil => simp
  | cons a rest ih =>
    simp only [List.foldl_cons, List.map_cons, List.sum_cons]
    rw [ih]
    show (Eff.add init (f a)).errs + _ = _
    simp [Eff.add, Nat.add_assoc]

/-! ## targets of the steps of an item -/

theorem convService_target (c : Ctx) (s : Service) : (convService c s).target = .service := by
  unfold convService
  cases s.name <;> rfl

theorem convServiceFile_target (c : Ctx) (ss : List Service) :
    ∀ s ∈ convServiceFile c ss, s.target = .service := by
  intro s hs
  simp only [convServiceFile, List.mem_cons, List.mem_map] at hs
  rcases hs with rfl | ⟨x, _, rfl⟩
  · rfl
  · exact convService_target c x

theorem acceptTopic_target (c : Ctx) (t : TopicNode) : ∀ s ∈ acceptTopic c t, s.target = .topic := by
  intro s hs
  simp only [acceptTopic, List.mem_append, List.mem_map, List.mem_singleton] at hs
  rcases hs with ⟨m, _, rfl⟩ | rfl
  · cases topicMethodName t m <;> rfl
  · rfl

theorem convTopicFile_target (c : Ctx) (ts : List Topic) :
    ∀ s ∈ convTopicFile c ts, s.target = .topic := by
  intro s hs
  simp only [convTopicFile, List.mem_cons, List.mem_flatMap, convTopic] at hs
  rcases hs with rfl | ⟨t, _, tn, _, hs⟩
  · rfl
  · exact acceptTopic_target c tn s hs

/-- the target every step of an item goes to -/
def Item.target : Item → Target
  | .serviceFile _ => .service
  | .topicFile _ => .topic
  | _ => .main

theorem convItem_target (c : Ctx) (i : Item) : ∀ s ∈ convItem c i, s.target = i.target := by
  intro s hs
  cases i with
  | object o => simp only [convItem, List.mem_singleton] at hs; subst hs; rfl
  | oneof o => simp only [convItem, List.mem_singleton] at hs; subst hs; rfl
  | enum e => simp only [convItem, List.mem_singleton] at hs; subst hs; rfl
  | abort => simp only [convItem, List.mem_singleton] at hs; subst hs; rfl
  | serviceFile ss => exact convServiceFile_target c ss s hs
  | topicFile ts => exact convTopicFile_target c ts s hs

theorem filter_all_eq {α : Type} (p : α → Bool) (l : List α) (h : ∀ a ∈ l, p a = true) :
    l.filter p = l := List.filter_eq_self.mpr h

theorem filter_all_ne {α : Type} (p : α → Bool) (l : List α) (h : ∀ a ∈ l, p a = false) :
    l.filter p = [] := by
  rw [List.filter_eq_nil_iff]
  intro a ha; simp [h a ha]

theorem stepsOf_convItem (c : Ctx) (t : Target) (i : Item) :
    stepsOf t (convItem c i) = if i.target = t then convItem c i else [] := by
  unfold stepsOf
  split
  · rename_i h
    apply filter_all_eq
    intro s hs; simp [convItem_target c i s hs, h]
  · rename_i h
    apply filter_all_ne
    intro s hs; simp [convItem_target c i s hs, h]

theorem stepsOf_flatMap (c : Ctx) (t : Target) (items : List Item) :
    stepsOf t (items.flatMap (convItem c)) =
      (items.filter (·.target = t)).flatMap (convItem c) := by
  induction items with
  | nil => rfl
  | cons i rest ih =>
    simp only [List.flatMap_cons, stepsOf_append, stepsOf_convItem, ih, List.filter_cons]
    by_cases h : i.target = t <;> simp [h]

/-- the sub-package file of a target exists iff an item of that target is visited
(`ServiceFileNode.Accept` creates the file before looking at the services) -/
theorem convItem_ne_nil (c : Ctx) (i : Item) : convItem c i ≠ [] := by
  cases i <;> simp [convItem, convServiceFile, convTopicFile]

theorem stepsOf_ne_nil_iff (c : Ctx) (t : Target) (items : List Item) :
    stepsOf t (items.flatMap (convItem c)) ≠ [] ↔ ∃ i ∈ items, i.target = t := by
  rw [stepsOf_flatMap]
  constructor
  · intro h
    cases hf : items.filter (·.target = t) with
    | nil => rw [hf] at h; exact absurd rfl h
    | cons i rest =>
      have : i ∈ items.filter (·.target = t) := by rw [hf]; simp
      obtain ⟨hi, ht⟩ := List.mem_filter.mp this
      exact ⟨i, hi, by simpa using ht⟩
  · rintro ⟨i, hi, ht⟩ h
    have hm : i ∈ items.filter (·.target = t) := List.mem_filter.mpr ⟨hi, by simpa using ht⟩
    have := List.flatMap_eq_nil_iff.mp h i hm
    exact convItem_ne_nil c i this

/-! ## what an item adds to its file -/

/-- messages an item adds to its target file, in order -/
def itemMsgs (c : Ctx) (i : Item) : List MsgSkel := (convItem c i).flatMap (·.eff.msgs)
/-- enums an item adds to its target file -/
def itemEnums (c : Ctx) (i : Item) : List EnumSkel := (convItem c i).flatMap (·.eff.enums)
/-- services an item adds to its target file -/
def itemSvcs (c : Ctx) (i : Item) : List SvcSkel := (convItem c i).flatMap (·.svcs)

theorem convDecl_enums (c : Ctx) (np : List Str) (io : Bool) (virt : List Property) (o : ObjDecl) :
    (convDecl c np io virt o).enums = [] := by
  cases o with
  | mk name props nested psm => rw [convDecl]

/-- a declared object: exactly its message; its map entries, inline and nested types are inside -/
theorem itemMsgs_object (c : Ctx) (o : ObjDecl) :
    itemMsgs c (.object o) = [declMsgOf c [] false [] o] := by
  cases o with
  | mk name props nested psm =>
    simp only [itemMsgs, convItem, List.flatMap_cons, List.flatMap_nil, List.append_nil]
    rw [convDecl_msgs, bProps_entries_object]
    rfl

/-- a declared oneof: its message, preceded only by the map entries of its options -/
theorem itemMsgs_oneof (c : Ctx) (o : ObjDecl) :
    ∃ entries, itemMsgs c (.oneof o) = entries ++ [declMsgOf c [] true [] o] ∧
      ∀ m ∈ entries, m.kind = .mapentry := by
  cases o with
  | mk name props nested psm =>
    refine ⟨(bProps c ([] ++ [name]) true 1 ([] ++ props)).entries, ?_, bProps_entries_kind _ _ _ _ _⟩
    simp only [itemMsgs, convItem, List.flatMap_cons, List.flatMap_nil, List.append_nil]
    rw [convDecl_msgs]
    rfl

theorem itemMsgs_enum (c : Ctx) (e : EnumDecl) : itemMsgs c (.enum e) = [] := rfl

theorem itemEnums_object (c : Ctx) (o : ObjDecl) : itemEnums c (.object o) = [] := by
  simp [itemEnums, convItem, convDecl_enums]

theorem itemEnums_oneof (c : Ctx) (o : ObjDecl) : itemEnums c (.oneof o) = [] := by
  simp [itemEnums, convItem, convDecl_enums]

theorem itemEnums_enum (c : Ctx) (e : EnumDecl) : itemEnums c (.enum e) = [convEnum e] := rfl

theorem itemSvcs_main (c : Ctx) (i : Item) (h : i.target = .main) : itemSvcs c i = [] := by
  cases i <;> simp [Item.target] at h <;> rfl

/-- request / response objects of one method -/
def methodMsgs (c : Ctx) (m : Method) : List MsgSkel :=
  (match m.request with
    | some req => [declMsg c [] false [] (m.name ++ b!"Request") req [] none]
    | none => []) ++
  (match m.request, m.response with
    | some _, some res => [declMsg c [] false [] (m.name ++ b!"Response") res [] none]
    | _, _ => [])

theorem convVirtual_msgs (c : Ctx) (name : Str) (virt props : List Property) (psm : Option Psm) :
    (convVirtual c name virt props psm).msgs = [declMsg c [] false virt name props [] psm] := by
  unfold convVirtual
  rw [convDecl_msgs, bProps_entries_object]
  rfl

theorem convVirtual_enums (c : Ctx) (name : Str) (virt props : List Property) (psm : Option Psm) :
    (convVirtual c name virt props psm).enums = [] := convDecl_enums _ _ _ _ _

theorem walkMethod_msgs_eq (c : Ctx) (bp : Option Str) (m : Method) :
    (walkMethod c bp m).eff.msgs = methodMsgs c m := by
  unfold walkMethod methodMsgs
  cases hr : m.request with
  | none => rfl
  | some req =>
    cases hs : m.response with
    | none =>
      simp only []
      show (Eff.add _ _).msgs = _
      simp [Eff.add, convVirtual_msgs]
    | some res =>
      simp only []
      show (Eff.add _ _).msgs = _
      simp [Eff.add, convVirtual_msgs]

theorem walkMethod_enums (c : Ctx) (bp : Option Str) (m : Method) :
    (walkMethod c bp m).eff.enums = [] := by
  unfold walkMethod
  cases hr : m.request with
  | none => rfl
  | some req =>
    cases hs : m.response with
    | none =>
      simp only []
      show (Eff.add _ _).enums = _
      simp [Eff.add, convVirtual_enums]
    | some res =>
      simp only []
      show (Eff.add _ _).enums = _
      simp [Eff.add, convVirtual_enums]

@[simp] theorem Eff.msgs_append (a b : Eff) : (a ++ b).msgs = a.msgs ++ b.msgs := rfl
@[simp] theorem Eff.enums_append (a b : Eff) : (a ++ b).enums = a.enums ++ b.enums := rfl
@[simp] theorem Eff.errs_append (a b : Eff) : (a ++ b).errs = a.errs + b.errs := rfl
@[simp] theorem Eff.imports_append (a b : Eff) : (a ++ b).imports = a.imports ++ b.imports := rfl
@[simp] theorem Eff.uses_append (a b : Eff) : (a ++ b).uses = a.uses ++ b.uses := rfl

@[simp] theorem Eff.add_msgs (a b : Eff) : (Eff.add a b).msgs = a.msgs ++ b.msgs := rfl
@[simp] theorem Eff.add_enums (a b : Eff) : (Eff.add a b).enums = a.enums ++ b.enums := rfl
theorem when_msgs_eq (b : Bool) (e : Eff) : (Compile.when b e).msgs = if b then e.msgs else [] := by
  cases b <;> rfl
theorem when_enums_eq (b : Bool) (e : Eff) : (Compile.when b e).enums = if b then e.enums else [] := by
  cases b <;> rfl

theorem when_msgs (b : Bool) (e : Eff) (h : e.msgs = []) : (Compile.when b e).msgs = [] := by
  cases b <;> simp [Compile.when, h]
theorem when_enums (b : Bool) (e : Eff) (h : e.enums = []) : (Compile.when b e).enums = [] := by
  cases b <;> simp [Compile.when, h]

theorem convMethod_msgs (node : Method × Str × Str × Str) :
    (convMethod node).1.msgs = [] ∧ (convMethod node).1.enums = [] := by
  obtain ⟨m, input, output, resolved⟩ := node
  unfold convMethod
  simp only []
  cases m.request with
  | none => exact ⟨rfl, rfl⟩
  | some req =>
    simp only []
    split <;>
      simp [Eff.imp, Eff.err, Eff.use, when_msgs_eq, when_enums_eq]

/-- a service: the request / response objects of its methods, nothing else -/
theorem convService_msgs (c : Ctx) (s : Service) :
    (convService c s).eff.msgs = s.methods.flatMap (methodMsgs c) ∧
    (convService c s).eff.enums = [] := by
  unfold convService
  have hw : ((s.methods.map (walkMethod c s.basePath)).foldl (fun e w => e ++ w.eff) ({} : Eff)).msgs =
      s.methods.flatMap (methodMsgs c) := by
    rw [foldl_eff_msgs (fun w : MethodWalk => w.eff)]
    simp only [List.flatMap_map, walkMethod_msgs_eq]
    rfl
  have hwe : ((s.methods.map (walkMethod c s.basePath)).foldl (fun e w => e ++ w.eff) ({} : Eff)).enums = [] := by
    rw [foldl_eff_enums (fun w : MethodWalk => w.eff)]
    simp only [List.flatMap_map, walkMethod_enums]
    simp
  cases s.name with
  | none => exact ⟨hw, hwe⟩
  | some name =>
    simp only []
    have hb : ∀ l : List (Eff × Option MethodSkel), (∀ x ∈ l, x.1.msgs = [] ∧ x.1.enums = []) →
        (l.foldl (fun e b => e ++ b.1) ({} : Eff)).msgs = [] ∧
        (l.foldl (fun e b => e ++ b.1) ({} : Eff)).enums = [] := by
      intro l hl
      rw [foldl_eff_msgs (fun b : Eff × Option MethodSkel => b.1),
        foldl_eff_enums (fun b : Eff × Option MethodSkel => b.1)]
      constructor
      · simp only [List.nil_append, List.flatMap_eq_nil_iff]
        intro x hx; exact (hl x hx).1
      · simp only [List.nil_append, List.flatMap_eq_nil_iff]
        intro x hx; exact (hl x hx).2
    have hbuilt := hb (((s.methods.map (walkMethod c s.basePath)).filterMap (·.node)).map convMethod)
      (by intro x hx; obtain ⟨n, _, rfl⟩ := List.mem_map.mp hx; exact convMethod_msgs n)
    simp only [Eff.msgs_append, Eff.enums_append, hw, hwe, hbuilt.1, hbuilt.2, List.append_nil,
      when_msgs _ _ (show (Eff.use j5ExtImport).msgs = [] from rfl),
      when_enums _ _ (show (Eff.use j5ExtImport).enums = [] from rfl), and_self]

/-- the services a service declaration emits: one when it is named -/
theorem convService_svcs_len (c : Ctx) (s : Service) : (convService c s).svcs.length ≤ 1 := by
  unfold convService
  cases s.name <;> simp

theorem itemMsgs_serviceFile (c : Ctx) (ss : List Service) :
    itemMsgs c (.serviceFile ss) = ss.flatMap fun s => s.methods.flatMap (methodMsgs c) := by
  simp only [itemMsgs, convItem, convServiceFile, List.flatMap_cons, List.flatMap_map]
  show ([] : List MsgSkel) ++ _ = _
  simp only [List.nil_append]
  apply flatMap_congr_mem
  intro s _
  exact (convService_msgs c s).1

end J5V.Compile
