import J5V.Compile.FileProofs
import J5V.Compile.ShapeProofs
import J5V.Compile.RefProofs
import J5V.Compile.Congr
import J5V.Compile.AppendDeclPkg
/-!
# Exactness: what each generated file holds, item by item (core only)

From `FileProofs`: the files of a successful `ConvertJ5File` are folds of the step list. Here the
step list is unfolded per visited item: which target an item's steps go to, and which messages,
enums and services they add. Together: a list equation for every component of every generated file
in terms of the declarations of the source file — nothing else is emitted.
-/
namespace J5V.Compile
open J5V.Go

/-! ## folds of effects -/

theorem foldl_eff_msgs {α : Type} (f : α → Eff) (l : List α) (init : Eff) :
    (l.foldl (fun e a => e ++ f a) init).msgs = init.msgs ++ l.flatMap fun a => (f a).msgs := by
  induction l generalizing init with
  | nil => simp
  | cons a rest ih =>
    simp only [List.foldl_cons, List.flatMap_cons]
    rw [ih]
    show (Eff.add init (f a)).msgs ++ _ = _
    simp [Eff.add]

theorem foldl_eff_enums {α : Type} (f : α → Eff) (l : List α) (init : Eff) :
    (l.foldl (fun e a => e ++ f a) init).enums = init.enums ++ l.flatMap fun a => (f a).enums := by
  induction l generalizing init with
  | nil => simp
  | cons a rest ih =>
    simp only [List.foldl_cons, List.flatMap_cons]
    rw [ih]
    show (Eff.add init (f a)).enums ++ _ = _
    simp [Eff.add]

theorem foldl_eff_errs {α : Type} (f : α → Eff) (l : List α) (init : Eff) :
    (l.foldl (fun e a => e ++ f a) init).errs = init.errs + (l.map fun a => (f a).errs).sum := by
  induction l generalizing init with
  | nil => simp
  | cons a rest ih =>
    simp only [List.foldl_cons, List.map_cons, List.sum_cons]
    rw [ih]
    show (Eff.add init (f a)).errs + _ = _
    simp [Eff.add, Nat.add_assoc]

/-! ## targets of the steps of an item -/

theorem convService_target (c : Ctx) (s : Service) : (convService c s).target = .service := by
  unfold convService
  cases s.name <;> rfl

theorem convServiceFile_target (c : Ctx) (ss : List Service) :
    ∀ s ∈ convServiceFile c ss, s.target = .service := by
  intro s hs
  simp only [convServiceFile, List.mem_cons, List.mem_map] at hs
  rcases hs with rfl | ⟨x, _, rfl⟩
  · rfl
  · exact convService_target c x

theorem acceptTopic_target (c : Ctx) (t : TopicNode) : ∀ s ∈ acceptTopic c t, s.target = .topic := by
  intro s hs
  simp only [acceptTopic, List.mem_append, List.mem_map, List.mem_singleton] at hs
  rcases hs with ⟨m, _, rfl⟩ | rfl
  · cases topicMethodName t m <;> rfl
  · rfl

theorem convTopicFile_target (c : Ctx) (ts : List Topic) :
    ∀ s ∈ convTopicFile c ts, s.target = .topic := by
  intro s hs
  simp only [convTopicFile, List.mem_cons, List.mem_flatMap, convTopic] at hs
  rcases hs with rfl | ⟨t, _, tn, _, hs⟩
  · rfl
  · exact acceptTopic_target c tn s hs

/-- the target every step of an item goes to -/
def Item.target : Item → Target
  | .serviceFile _ => .service
  | .topicFile _ => .topic
  | _ => .main

theorem convItem_target (c : Ctx) (i : Item) : ∀ s ∈ convItem c i, s.target = i.target := by
  intro s hs
  cases i with
  | object o => simp only [convItem, List.mem_singleton] at hs; subst hs; rfl
  | oneof o => simp only [convItem, List.mem_singleton] at hs; subst hs; rfl
  | enum e => simp only [convItem, List.mem_singleton] at hs; subst hs; rfl
  | abort => simp only [convItem, List.mem_singleton] at hs; subst hs; rfl
  | serviceFile ss => exact convServiceFile_target c ss s hs
  | topicFile ts => exact convTopicFile_target c ts s hs

theorem filter_all_eq {α : Type} (p : α → Bool) (l : List α) (h : ∀ a ∈ l, p a = true) :
    l.filter p = l := List.filter_eq_self.mpr h

theorem filter_all_ne {α : Type} (p : α → Bool) (l : List α) (h : ∀ a ∈ l, p a = false) :
    l.filter p = [] := by
  rw [List.filter_eq_nil_iff]
  intro a ha; simp [h a ha]

theorem stepsOf_convItem (c : Ctx) (t : Target) (i : Item) :
    stepsOf t (convItem c i) = if i.target = t then convItem c i else [] := by
  unfold stepsOf
  split
  · rename_i h
    apply filter_all_eq
    intro s hs; simp [convItem_target c i s hs, h]
  · rename_i h
    apply filter_all_ne
    intro s hs; simp [convItem_target c i s hs, h]

theorem stepsOf_flatMap (c : Ctx) (t : Target) (items : List Item) :
    stepsOf t (items.flatMap (convItem c)) =
      (items.filter (·.target = t)).flatMap (convItem c) := by
  induction items with
  | nil => rfl
  | cons i rest ih =>
    simp only [List.flatMap_cons, stepsOf_append, stepsOf_convItem, ih, List.filter_cons]
    by_cases h : i.target = t <;> simp [h]

/-- the sub-package file of a target exists iff an item of that target is visited
(`ServiceFileNode.Accept` creates the file before looking at the services) -/
theorem convItem_ne_nil (c : Ctx) (i : Item) : convItem c i ≠ [] := by
  cases i <;> simp [convItem, convServiceFile, convTopicFile]

theorem stepsOf_ne_nil_iff (c : Ctx) (t : Target) (items : List Item) :
    stepsOf t (items.flatMap (convItem c)) ≠ [] ↔ ∃ i ∈ items, i.target = t := by
  rw [stepsOf_flatMap]
  constructor
  · intro h
    cases hf : items.filter (·.target = t) with
    | nil => rw [hf] at h; exact absurd rfl h
    | cons i rest =>
      have : i ∈ items.filter (·.target = t) := by rw [hf]; simp
      obtain ⟨hi, ht⟩ := List.mem_filter.mp this
      exact ⟨i, hi, by simpa using ht⟩
  · rintro ⟨i, hi, ht⟩ h
    have hm : i ∈ items.filter (·.target = t) := List.mem_filter.mpr ⟨hi, by simpa using ht⟩
    have := List.flatMap_eq_nil_iff.mp h i hm
    exact convItem_ne_nil c i this

/-! ## what an item adds to its file -/

/-- messages an item adds to its target file, in order -/
def itemMsgs (c : Ctx) (i : Item) : List MsgSkel := (convItem c i).flatMap (·.eff.msgs)
/-- enums an item adds to its target file -/
def itemEnums (c : Ctx) (i : Item) : List EnumSkel := (convItem c i).flatMap (·.eff.enums)
/-- services an item adds to its target file -/
def itemSvcs (c : Ctx) (i : Item) : List SvcSkel := (convItem c i).flatMap (·.svcs)

theorem convDecl_enums (c : Ctx) (np : List Str) (io : Bool) (virt : List Property) (o : ObjDecl) :
    (convDecl c np io virt o).enums = [] := by
  cases o with
  | mk name props nested psm => rw [convDecl]

/-- a declared object: exactly its message; its map entries, inline and nested types are inside -/
theorem itemMsgs_object (c : Ctx) (o : ObjDecl) :
    itemMsgs c (.object o) = [declMsgOf c [] false [] o] := by
  cases o with
  | mk name props nested psm =>
    simp only [itemMsgs, convItem, List.flatMap_cons, List.flatMap_nil, List.append_nil]
    rw [convDecl_msgs, bProps_entries_object]
    rfl

/-- a declared oneof: its message, preceded only by the map entries of its options -/
theorem itemMsgs_oneof (c : Ctx) (o : ObjDecl) :
    ∃ entries, itemMsgs c (.oneof o) = entries ++ [declMsgOf c [] true [] o] ∧
      ∀ m ∈ entries, m.kind = .mapentry := by
  cases o with
  | mk name props nested psm =>
    refine ⟨(bProps c ([] ++ [name]) true 1 ([] ++ props)).entries, ?_, bProps_entries_kind _ _ _ _ _⟩
    simp only [itemMsgs, convItem, List.flatMap_cons, List.flatMap_nil, List.append_nil]
    rw [convDecl_msgs]
    rfl

theorem itemMsgs_enum (c : Ctx) (e : EnumDecl) : itemMsgs c (.enum e) = [] := rfl

theorem itemEnums_object (c : Ctx) (o : ObjDecl) : itemEnums c (.object o) = [] := by
  simp [itemEnums, convItem, convDecl_enums]

theorem itemEnums_oneof (c : Ctx) (o : ObjDecl) : itemEnums c (.oneof o) = [] := by
  simp [itemEnums, convItem, convDecl_enums]

theorem itemEnums_enum (c : Ctx) (e : EnumDecl) : itemEnums c (.enum e) = [convEnum e] := rfl

theorem itemSvcs_main (c : Ctx) (i : Item) (h : i.target = .main) : itemSvcs c i = [] := by
  cases i <;> simp [Item.target] at h <;> rfl

/-- request / response objects of one method -/
def methodMsgs (c : Ctx) (m : Method) : List MsgSkel :=
  (match m.request with
    | some req => [declMsg c [] false [] (m.name ++ b!"Request") req [] none]
    | none => []) ++
  (match m.request, m.response with
    | some _, some res => [declMsg c [] false [] (m.name ++ b!"Response") res [] none]
    | _, _ => [])

theorem convVirtual_msgs (c : Ctx) (name : Str) (virt props : List Property) (psm : Option Psm) :
    (convVirtual c name virt props psm).msgs = [declMsg c [] false virt name props [] psm] := by
  unfold convVirtual
  rw [convDecl_msgs, bProps_entries_object]
  rfl

theorem convVirtual_enums (c : Ctx) (name : Str) (virt props : List Property) (psm : Option Psm) :
    (convVirtual c name virt props psm).enums = [] := convDecl_enums _ _ _ _ _

theorem walkMethod_msgs_eq (c : Ctx) (bp : Option Str) (m : Method) :
    (walkMethod c bp m).eff.msgs = methodMsgs c m := by
  unfold walkMethod methodMsgs
  cases hr : m.request with
  | none => rfl
  | some req =>
    cases hs : m.response with
    | none =>
      simp only []
      show (Eff.add _ _).msgs = _
      simp [Eff.add, convVirtual_msgs]
    | some res =>
      simp only []
      show (Eff.add _ _).msgs = _
      simp [Eff.add, convVirtual_msgs]

theorem walkMethod_enums (c : Ctx) (bp : Option Str) (m : Method) :
    (walkMethod c bp m).eff.enums = [] := by
  unfold walkMethod
  cases hr : m.request with
  | none => rfl
  | some req =>
    cases hs : m.response with
    | none =>
      simp only []
      show (Eff.add _ _).enums = _
      simp [Eff.add, convVirtual_enums]
    | some res =>
      simp only []
      show (Eff.add _ _).enums = _
      simp [Eff.add, convVirtual_enums]

@[simp] theorem Eff.msgs_append (a b : Eff) : (a ++ b).msgs = a.msgs ++ b.msgs := rfl
@[simp] theorem Eff.enums_append (a b : Eff) : (a ++ b).enums = a.enums ++ b.enums := rfl
@[simp] theorem Eff.errs_append (a b : Eff) : (a ++ b).errs = a.errs + b.errs := rfl
@[simp] theorem Eff.imports_append (a b : Eff) : (a ++ b).imports = a.imports ++ b.imports := rfl
@[simp] theorem Eff.uses_append (a b : Eff) : (a ++ b).uses = a.uses ++ b.uses := rfl

@[simp] theorem Eff.add_msgs (a b : Eff) : (Eff.add a b).msgs = a.msgs ++ b.msgs := rfl
@[simp] theorem Eff.add_enums (a b : Eff) : (Eff.add a b).enums = a.enums ++ b.enums := rfl
theorem when_msgs_eq (b : Bool) (e : Eff) : (Compile.when b e).msgs = if b then e.msgs else [] := by
  cases b <;> rfl
theorem when_enums_eq (b : Bool) (e : Eff) : (Compile.when b e).enums = if b then e.enums else [] := by
  cases b <;> rfl

theorem when_msgs (b : Bool) (e : Eff) (h : e.msgs = []) : (Compile.when b e).msgs = [] := by
  cases b <;> simp [Compile.when, h]
theorem when_enums (b : Bool) (e : Eff) (h : e.enums = []) : (Compile.when b e).enums = [] := by
  cases b <;> simp [Compile.when, h]

theorem convMethod_msgs (node : Method × Str × Str × Str) :
    (convMethod node).1.msgs = [] ∧ (convMethod node).1.enums = [] := by
  obtain ⟨m, input, output, resolved⟩ := node
  unfold convMethod
  simp only []
  cases m.request with
  | none => exact ⟨rfl, rfl⟩
  | some req =>
    simp only []
    split <;>
      simp [Eff.imp, Eff.err, Eff.use, when_msgs_eq, when_enums_eq]

/-- a service: the request / response objects of its methods, nothing else -/
theorem convService_msgs (c : Ctx) (s : Service) :
    (convService c s).eff.msgs = s.methods.flatMap (methodMsgs c) ∧
    (convService c s).eff.enums = [] := by
  unfold convService
  have hw : ((s.methods.map (walkMethod c s.basePath)).foldl (fun e w => e ++ w.eff) ({} : Eff)).msgs =
      s.methods.flatMap (methodMsgs c) := by
    rw [foldl_eff_msgs (fun w : MethodWalk => w.eff)]
    simp only [List.flatMap_map, walkMethod_msgs_eq]
    rfl
  have hwe : ((s.methods.map (walkMethod c s.basePath)).foldl (fun e w => e ++ w.eff) ({} : Eff)).enums = [] := by
    rw [foldl_eff_enums (fun w : MethodWalk => w.eff)]
    simp only [List.flatMap_map, walkMethod_enums]
    simp
  cases s.name with
  | none => exact ⟨hw, hwe⟩
  | some name =>
    simp only []
    have hb : ∀ l : List (Eff × Option MethodSkel), (∀ x ∈ l, x.1.msgs = [] ∧ x.1.enums = []) →
        (l.foldl (fun e b => e ++ b.1) ({} : Eff)).msgs = [] ∧
        (l.foldl (fun e b => e ++ b.1) ({} : Eff)).enums = [] := by
      intro l hl
      rw [foldl_eff_msgs (fun b : Eff × Option MethodSkel => b.1),
        foldl_eff_enums (fun b : Eff × Option MethodSkel => b.1)]
      constructor
      · simp only [List.nil_append, List.flatMap_eq_nil_iff]
        intro x hx; exact (hl x hx).1
      · simp only [List.nil_append, List.flatMap_eq_nil_iff]
        intro x hx; exact (hl x hx).2
    have hbuilt := hb (((s.methods.map (walkMethod c s.basePath)).filterMap (·.node)).map convMethod)
      (by intro x hx; obtain ⟨n, _, rfl⟩ := List.mem_map.mp hx; exact convMethod_msgs n)
    simp only [Eff.msgs_append, Eff.enums_append, hw, hwe, hbuilt.1, hbuilt.2, List.append_nil,
      when_msgs _ _ (show (Eff.use j5ExtImport).msgs = [] from rfl),
      when_enums _ _ (show (Eff.use j5ExtImport).enums = [] from rfl), and_self]

/-- the services a service declaration emits: one when it is named -/
theorem convService_svcs_len (c : Ctx) (s : Service) : (convService c s).svcs.length ≤ 1 := by
  unfold convService
  cases s.name <;> simp

theorem itemMsgs_serviceFile (c : Ctx) (ss : List Service) :
    itemMsgs c (.serviceFile ss) = ss.flatMap fun s => s.methods.flatMap (methodMsgs c) := by
  simp only [itemMsgs, convItem, convServiceFile, List.flatMap_cons, List.flatMap_map]
  show ([] : List MsgSkel) ++ _ = _
  simp only [List.nil_append]
  apply flatMap_congr_mem
  intro s _
  exact (convService_msgs c s).1

theorem itemEnums_serviceFile (c : Ctx) (ss : List Service) : itemEnums c (.serviceFile ss) = [] := by
  simp only [itemEnums, convItem, convServiceFile, List.flatMap_cons, List.flatMap_map]
  show ([] : List EnumSkel) ++ _ = _
  simp only [List.nil_append, List.flatMap_eq_nil_iff]
  intro s _
  exact (convService_msgs c s).2

/-- the rpc methods `visitServiceNode` builds for a service (methods whose conversion reported an
error are left out; on a file that converts there are none) -/
def builtMethods (c : Ctx) (s : Service) : List MethodSkel :=
  (((s.methods.map (walkMethod c s.basePath)).filterMap (·.node)).map convMethod).filterMap (·.2)

/-- the proto service of a service declaration: exactly one, when the service is named -/
def serviceSvcs (c : Ctx) (s : Service) : List SvcSkel :=
  match s.name with
  | none => []
  | some name => [{ name := name ++ b!"Service", sopt := soptSkel s.sopt, methods := builtMethods c s }]

theorem convService_svcs (c : Ctx) (s : Service) : (convService c s).svcs = serviceSvcs c s := by
  unfold convService serviceSvcs builtMethods
  cases s.name <;> rfl

theorem itemSvcs_serviceFile (c : Ctx) (ss : List Service) :
    itemSvcs c (.serviceFile ss) = ss.flatMap (serviceSvcs c) := by
  simp only [itemSvcs, convItem, convServiceFile, List.flatMap_cons, List.flatMap_map]
  show ([] : List SvcSkel) ++ _ = _
  simp only [List.nil_append]
  apply flatMap_congr_mem
  intro s _
  exact convService_svcs c s

/-- message objects of one topic node: one `<Name>Message` per message with a resolvable name,
the implicit leading fields first -/
def topicMsgs (c : Ctx) (tn : TopicNode) : List MsgSkel :=
  tn.msgs.filterMap fun m => (topicMethodName tn m).map fun n =>
    declMsg c [] false tn.prepend (n ++ b!"Message") m.props [] none

/-- the proto service of one topic node -/
def topicSvc (tn : TopicNode) : SvcSkel :=
  { name := toCamel tn.name ++ b!"Topic", sopt := .topic tn.topicName tn.role tn.entityName,
    methods := tn.msgs.filterMap fun m => (topicMethodName tn m).map fun n =>
      { name := n, input := n ++ b!"Message", output := googleProtoEmptyType, http := none,
        mopt := .none } }

theorem flatMap_eq_filterMap {α β : Type} (l : List α) (f : α → List β) (g : α → Option β)
    (h : ∀ a, f a = (g a).toList) : l.flatMap f = l.filterMap g := by
  induction l with
  | nil => rfl
  | cons a rest ih =>
    simp only [List.flatMap_cons, List.filterMap_cons, ih, h a]
    cases g a <;> rfl

theorem flatMap_eq_nil_of {α β : Type} (l : List α) (f : α → List β) (h : ∀ a, f a = []) :
    l.flatMap f = [] := by
  induction l with
  | nil => rfl
  | cons a rest ih => simp [List.flatMap_cons, ih, h a]

theorem acceptTopic_msgs (c : Ctx) (tn : TopicNode) :
    (acceptTopic c tn).flatMap (·.eff.msgs) = topicMsgs c tn ∧
    (acceptTopic c tn).flatMap (·.eff.enums) = [] ∧
    (acceptTopic c tn).flatMap (·.svcs) = [topicSvc tn] := by
  unfold acceptTopic topicMsgs topicSvc
  simp only [List.flatMap_append, List.flatMap_cons, List.flatMap_nil, List.append_nil,
    List.flatMap_map]
  have hB : (Eff.use messagingAnnotationsImport ++ Eff.imp messagingAnnotationsImport ++
      Eff.imp googleProtoEmptyImport).msgs = [] := rfl
  have hE : (Eff.use messagingAnnotationsImport ++ Eff.imp messagingAnnotationsImport ++
      Eff.imp googleProtoEmptyImport).enums = [] := rfl
  refine ⟨?_, ?_, ?_⟩
  · rw [hB, List.append_nil]
    apply flatMap_eq_filterMap
    intro m
    cases topicMethodName tn m with
    | none => rfl
    | some n => simp [convVirtual_msgs]
  · rw [hE, List.append_nil]
    apply flatMap_eq_nil_of
    intro m
    cases topicMethodName tn m with
    | none => rfl
    | some n => simp [convVirtual_enums]
  · have : (tn.msgs.flatMap fun m => (match topicMethodName tn m with
          | none => ({ target := .topic, hard := true } : Step)
          | some n => { target := .topic,
                        eff := convVirtual c (n ++ b!"Message") tn.prepend m.props }).svcs) = [] := by
      apply flatMap_eq_nil_of
      intro m
      cases topicMethodName tn m <;> rfl
    refine Eq.trans (congrArg (· ++ _) ?_) (List.nil_append _)
    apply flatMap_eq_nil_of
    intro m
    cases topicMethodName tn m <;> rfl

theorem flatMap_flatMap' {α β γ : Type} (l : List α) (f : α → List β) (g : β → List γ) :
    (l.flatMap f).flatMap g = l.flatMap fun a => (f a).flatMap g := by
  induction l with
  | nil => rfl
  | cons a rest ih => simp [List.flatMap_cons, List.flatMap_append, ih]

theorem itemMsgs_topicFile (c : Ctx) (ts : List Topic) :
    itemMsgs c (.topicFile ts) = ts.flatMap fun t => (topicNodes t).flatMap (topicMsgs c) := by
  simp only [itemMsgs, convItem, convTopicFile, List.flatMap_cons, convTopic, flatMap_flatMap']
  show ([] : List MsgSkel) ++ _ = _
  simp only [List.nil_append]
  apply flatMap_congr_mem
  intro t _
  apply flatMap_congr_mem
  intro tn _
  exact (acceptTopic_msgs c tn).1

theorem itemEnums_topicFile (c : Ctx) (ts : List Topic) : itemEnums c (.topicFile ts) = [] := by
  simp only [itemEnums, convItem, convTopicFile, List.flatMap_cons, convTopic, flatMap_flatMap']
  show ([] : List EnumSkel) ++ _ = _
  simp only [List.nil_append]
  apply flatMap_eq_nil_of
  intro t
  apply flatMap_eq_nil_of
  intro tn
  exact (acceptTopic_msgs c tn).2.1

theorem itemSvcs_topicFile (c : Ctx) (ts : List Topic) :
    itemSvcs c (.topicFile ts) = ts.flatMap fun t => (topicNodes t).map topicSvc := by
  simp only [itemSvcs, convItem, convTopicFile, List.flatMap_cons, convTopic, flatMap_flatMap']
  show ([] : List SvcSkel) ++ _ = _
  simp only [List.nil_append]
  apply flatMap_congr_mem
  intro t _
  have : ∀ l : List TopicNode, (l.flatMap fun tn => (acceptTopic c tn).flatMap (·.svcs)) = l.map topicSvc := by
    intro l
    induction l with
    | nil => rfl
    | cons tn rest ih => simp [List.flatMap_cons, ih, (acceptTopic_msgs c tn).2.2]
  exact this _

/-! ## the generated files -/

/-- content of the file of target `t` after visiting `items` -/
def targetFile (c : Ctx) (f0 : FileB) (t : Target) (items : List Item) : FileB :=
  f0.run (stepsOf t (items.flatMap (convItem c)))

theorem targetFile_msgs (c : Ctx) (f0 : FileB) (t : Target) (items : List Item) :
    (targetFile c f0 t items).msgs = f0.msgs ++ (items.filter (·.target = t)).flatMap (itemMsgs c) := by
  simp only [targetFile, FileB.run_msgs, stepsOf_flatMap, flatMap_flatMap']
  rfl

theorem targetFile_enums (c : Ctx) (f0 : FileB) (t : Target) (items : List Item) :
    (targetFile c f0 t items).enums = f0.enums ++ (items.filter (·.target = t)).flatMap (itemEnums c) := by
  simp only [targetFile, FileB.run_enums, stepsOf_flatMap, flatMap_flatMap']
  rfl

theorem targetFile_svcs (c : Ctx) (f0 : FileB) (t : Target) (items : List Item) :
    (targetFile c f0 t items).svcs = f0.svcs ++ (items.filter (·.target = t)).flatMap (itemSvcs c) := by
  simp only [targetFile, FileB.run_svcs, stepsOf_flatMap, flatMap_flatMap']
  rfl

/-- **the files `ConvertJ5File` returns**: the main file, then at most one file per sub-package,
each the fold of the items of its target; a sub-package file exists iff an item targets it -/
theorem convertFile_files (res : Resolver) (path : Str) (imports : List Import) (elems : List Elem)
    (fs : List FileSkel) (h : convertFile res path imports elems = .ok fs) :
    ∃ im, j5Imports (packageFromFilename (path ++ b!".proto")) imports = .ok im ∧
      let c : Ctx := { resolve := resolveTypeNoImport im res }
      let pkg := packageFromFilename (path ++ b!".proto")
      let name := path ++ b!".proto"
      let items := elems.flatMap (itemsOfElem pkg)
      ∃ subs : List (Str × FileB),
        fs = (targetFile c { name := name, pkg := pkg } .main items).skel :: subs.map (·.2.skel) ∧
        (subs.map (·.1)).Nodup ∧
        (∀ kf ∈ subs, ∃ t : Target, t.sub = some kf.1 ∧ (∃ i ∈ items, i.target = t) ∧
          kf.2 = targetFile c (subFresh name pkg kf.1) t items) ∧
        (∀ (t : Target) (k : Str), t.sub = some k → (∃ i ∈ items, i.target = t) →
          k ∈ subs.map (·.1)) := by
  obtain ⟨im, hj, hrest⟩ := convertFile_ok_inv res path imports elems fs h
  refine ⟨im, hj, ?_⟩
  simp only [] at hrest ⊢
  obtain ⟨_, _, hfs⟩ := hrest
  have hinv := rootInv_run (path ++ b!".proto") (packageFromFilename (path ++ b!".proto"))
    (fileSteps { resolve := resolveTypeNoImport im res } (packageFromFilename (path ++ b!".proto")) elems)
  refine ⟨_, ?_, hinv.keys, ?_, ?_⟩
  · rw [hfs, Root.files, hinv.main]
    rfl
  · intro kf hkf
    obtain ⟨t, ht, hne, he⟩ := hinv.sub kf hkf
    exact ⟨t, ht, (stepsOf_ne_nil_iff _ t _).mp hne, he⟩
  · intro t k ht hex
    exact hinv.all t k ht ((stepsOf_ne_nil_iff _ t _).mpr hex)

theorem itemEnums_sub (c : Ctx) (i : Item) (h : i.target ≠ .main) : itemEnums c i = [] := by
  cases i with
  | serviceFile ss => exact itemEnums_serviceFile c ss
  | topicFile ts => exact itemEnums_topicFile c ts
  | object o => exact absurd rfl h
  | oneof o => exact absurd rfl h
  | enum e => exact absurd rfl h
  | abort => exact absurd rfl h

theorem flatMap_filter_nil {α β : Type} (l : List α) (p : α → Bool) (f : α → List β)
    (h : ∀ a, p a = true → f a = []) : (l.filter p).flatMap f = [] := by
  rw [List.flatMap_eq_nil_iff]
  intro a ha
  exact h a (List.mem_filter.mp ha).2

theorem nodup_map_of_inj {α β : Type} (f : α → β) (hinj : ∀ a b, f a = f b → a = b) (l : List α)
    (h : l.Nodup) : (l.map f).Nodup := by
  induction l with
  | nil => simp
  | cons a rest ih =>
    rw [List.nodup_cons] at h
    rw [List.map_cons, List.nodup_cons]
    refine ⟨?_, ih h.2⟩
    intro hm
    obtain ⟨b, hb, hab⟩ := List.mem_map.mp hm
    exact h.1 (hinj _ _ hab ▸ hb)

/-- **exactness of one converted file**, component by component -/
theorem convertFile_exact (res : Resolver) (path : Str) (imports : List Import) (elems : List Elem)
    (fs : List FileSkel) (h : convertFile res path imports elems = .ok fs) :
    ∃ im, j5Imports (packageFromFilename (path ++ b!".proto")) imports = .ok im ∧
      let c : Ctx := { resolve := resolveTypeNoImport im res }
      let pkg := packageFromFilename (path ++ b!".proto")
      let name := path ++ b!".proto"
      let items := elems.flatMap (itemsOfElem pkg)
      ∃ (main : FileSkel) (subs : List FileSkel), fs = main :: subs ∧
        main.name = name ∧ main.pkg = pkg ∧ main.svcs = [] ∧
        main.msgs = (items.filter (·.target = .main)).flatMap (itemMsgs c) ∧
        main.enums = (items.filter (·.target = .main)).flatMap (itemEnums c) ∧
        (subs.map (·.pkg)).Nodup ∧
        (∀ f ∈ subs, ∃ (t : Target) (k : Str), t.sub = some k ∧ (∃ i ∈ items, i.target = t) ∧
          f.name = subPackageFileName name k ∧ f.pkg = pkg ++ b!"." ++ k ∧
          f.msgs = (items.filter (·.target = t)).flatMap (itemMsgs c) ∧ f.enums = [] ∧
          f.svcs = (items.filter (·.target = t)).flatMap (itemSvcs c)) ∧
        (∀ (t : Target) (k : Str), t.sub = some k → (∃ i ∈ items, i.target = t) →
          ∃ f ∈ subs, f.pkg = pkg ++ b!"." ++ k) := by
  obtain ⟨im, hj, hrest⟩ := convertFile_files res path imports elems fs h
  refine ⟨im, hj, ?_⟩
  simp only [] at hrest ⊢
  obtain ⟨subs, hfs, hnodup, hsub, hall⟩ := hrest
  refine ⟨_, _, hfs, ?_, ?_, ?_, ?_, ?_, ?_, ?_, ?_⟩
  · simp [FileB.skel, targetFile, FileB.run_name]
  · simp [FileB.skel, targetFile, FileB.run_pkg]
  · simp only [FileB.skel, targetFile_svcs, List.nil_append]
    apply flatMap_filter_nil
    intro i hi
    exact itemSvcs_main _ i (by simpa using hi)
  · simp [FileB.skel, targetFile_msgs]
  · simp [FileB.skel, targetFile_enums]
  · -- distinct keys give distinct packages
    rw [List.map_map]
    have hpk : ∀ kf ∈ subs, (FileB.skel kf.2).pkg =
        packageFromFilename (path ++ b!".proto") ++ b!"." ++ kf.1 := by
      intro kf hkf
      obtain ⟨t, _, _, he⟩ := hsub kf hkf
      rw [he]; simp [FileB.skel, targetFile, FileB.run_pkg, subFresh]
    have : subs.map ((fun x => x.pkg) ∘ fun x => x.2.skel) =
        (subs.map (·.1)).map (fun k => packageFromFilename (path ++ b!".proto") ++ b!"." ++ k) := by
      rw [List.map_map]
      apply List.map_congr_left
      intro kf hkf
      exact hpk kf hkf
    rw [this]
    exact nodup_map_of_inj _ (fun a b hab => List.append_cancel_left hab) _ hnodup
  · intro f hf
    obtain ⟨kf, hkf, rfl⟩ := List.mem_map.mp hf
    obtain ⟨t, ht, hex, he⟩ := hsub kf hkf
    refine ⟨t, kf.1, ht, hex, ?_, ?_, ?_, ?_, ?_⟩
    · rw [he]; simp [FileB.skel, targetFile, FileB.run_name, subFresh]
    · rw [he]; simp [FileB.skel, targetFile, FileB.run_pkg, subFresh]
    · rw [he]; simp [FileB.skel, targetFile_msgs, subFresh]
    · rw [he]
      simp only [FileB.skel, targetFile_enums, subFresh, List.nil_append]
      apply flatMap_filter_nil
      intro i hi
      have hit : i.target = t := by simpa using hi
      exact itemEnums_sub _ i (by rw [hit]; exact Target.sub_main ht)
    · rw [he]; simp [FileB.skel, targetFile_svcs, subFresh]
  · intro t k ht hex
    obtain ⟨kf, hkf, hk⟩ := List.mem_map.mp (hall t k ht hex)
    refine ⟨kf.2.skel, List.mem_map_of_mem hkf, ?_⟩
    obtain ⟨t', _, _, he⟩ := hsub kf hkf
    rw [he, ← hk]; simp [FileB.skel, targetFile, FileB.run_pkg, subFresh]

/-! ## the package -/

theorem insFile_perm (f : FileSkel) (l : List FileSkel) : (insFile f l).Perm (f :: l) := by
  induction l with
  | nil => exact List.Perm.refl _
  | cons g rest ih =>
    simp only [insFile]
    split
    · exact List.Perm.refl _
    · exact (List.Perm.cons g ih).trans (List.Perm.swap f g rest)

theorem sortFiles_perm_self (fs : List FileSkel) : (sortFiles fs).Perm fs := by
  have : ∀ (l acc : List FileSkel),
      (l.foldl (fun acc f => insFile f acc) acc).Perm (l ++ acc) := by
    intro l
    induction l with
    | nil => intro acc; exact List.Perm.refl _
    | cons f rest ih =>
      intro acc
      simp only [List.foldl_cons, List.cons_append]
      refine (ih (insFile f acc)).trans ?_
      refine (List.Perm.append_left rest (insFile_perm f acc)).trans ?_
      exact List.perm_middle
  simpa [sortFiles] using this fs []

/-- names ascending (byte order), no two equal -/
def FilesSorted : List FileSkel → Prop
  | [] => True
  | f :: rest => (∀ g ∈ rest, strLt g.name f.name = false) ∧ FilesSorted rest

end J5V.Compile
