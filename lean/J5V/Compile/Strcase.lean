import J5V.Compile.Str
/-!
# `iancoleman/strcase` v0.3.0, byte level (core only)

Mirrors `camel.go` (`toCamelInitCase`) and `snake.go` (`ToScreamingDelimited` with delimiter `_`
and an empty `ignore` set). The global acronym map is empty in j5 (nobody calls
`ConfigureAcronym`), so `hasAcronym` is always false.

Not mirrored: `strings.TrimSpace` on non-ASCII white space (U+0085, U+00A0, …). The model trims
the six ASCII white-space bytes only; j5s names are identifiers, the correspondence stream feeds
ASCII names.

Also here: `mapName` of `j5convert/fields.go` (the protoc map-entry name rule) on ASCII names, and
`path.Clean`/`path.Join` of the Go standard library as used by `sourcewalk/service.go`.
-/
namespace J5V.Compile

def isCap (v : Nat) : Bool := decide (65 ≤ v) && decide (v ≤ 90)
def isLow (v : Nat) : Bool := decide (97 ≤ v) && decide (v ≤ 122)
def isNum (v : Nat) : Bool := decide (48 ≤ v) && decide (v ≤ 57)
/-- `_`, space, `-`, `.` -/
def isSep (v : Nat) : Bool := v == 95 || v == 32 || v == 45 || v == 46
/-- ASCII white space as trimmed by `strings.TrimSpace`: `\t \n \v \f \r` and space -/
def isSpace (v : Nat) : Bool := (decide (9 ≤ v) && decide (v ≤ 13)) || v == 32

def trimLeft : Str → Str
  | [] => []
  | v :: rest => if isSpace v then trimLeft rest else v :: rest

def trimSpace (s : Str) : Str := (trimLeft (trimLeft s).reverse).reverse

/-- the loop of `toCamelInitCase`; `first` ⇔ `i == 0`, `capNext`, `prevIsCap` are the loop state -/
def camelGo : Bool → Bool → Bool → Str → Str
  | _, _, _, [] => []
  | first, capNext, prevIsCap, v :: rest =>
    let w :=
      if capNext then (if isLow v then v - 32 else v)
      else if first then (if isCap v then v + 32 else v)
      else if prevIsCap && isCap v then v + 32 else v
    if isCap v || isLow v then w :: camelGo false false (isCap v) rest
    else if isNum v then w :: camelGo false true false rest
    else camelGo false (isSep v) false rest

def toCamelInit (initCase : Bool) (s : Str) : Str :=
  camelGo true initCase false (trimSpace s)

/-- `strcase.ToCamel` -/
def toCamel (s : Str) : Str := toCamelInit true s
/-- `strcase.ToLowerCamel` -/
def toLowerCamel (s : Str) : Str := toCamelInit false s

/-- the loop of `ToScreamingDelimited(s, '_', "", screaming)`; `prev` is `s[i-1]` -/
def snakeGo (scream : Bool) : Option Nat → Str → Str
  | _, [] => []
  | prev, v :: rest =>
    let w := if isLow v && scream then v - 32 else if isCap v && !scream then v + 32 else v
    let plain := (if isSep v then 95 else w) :: snakeGo scream (some v) rest
    match rest with
    | [] => plain
    | next :: _ =>
      if (isCap v && (isLow next || isNum next)) || (isLow v && (isCap next || isNum next))
          || (isNum v && (isCap next || isLow next)) then
        let pre := if isCap v && isLow next && (match prev with | some p => isCap p | none => false)
          then [95] else []
        let post := if isLow v || isNum v || isNum next then [95] else []
        pre ++ [w] ++ post ++ snakeGo scream (some v) rest
      else plain

/-- `strcase.ToSnake` -/
def toSnake (s : Str) : Str := snakeGo false none (trimSpace s)
/-- `strcase.ToScreamingSnake` -/
def toScreamingSnake (s : Str) : Str := snakeGo true none (trimSpace s)

/-! ## `mapName` (`j5convert/fields.go`) — ASCII names -/

def upperAscii (v : Nat) : Nat := if isLow v then v - 32 else v

def mapNameGo : Bool → Str → Str
  | _, [] => []
  | nextUpper, v :: rest =>
    if v = 95 then mapNameGo true rest
    else if nextUpper then upperAscii v :: mapNameGo false rest
    else v :: mapNameGo false rest

def mapName (s : Str) : Str := mapNameGo true s ++ b!"Entry"

/-! ## `path.Clean`, `path.Join` -/

/-- process the components of a path; `stack` is kept reversed -/
def cleanGo (rooted : Bool) : List Str → List Str → List Str
  | stack, [] => stack.reverse
  | stack, c :: cs =>
    if c = [] || c = b!"." then cleanGo rooted stack cs
    else if c = b!".." then
      match stack with
      | top :: below =>
        if top = b!".." then cleanGo rooted (c :: stack) cs else cleanGo rooted below cs
      | [] => if rooted then cleanGo rooted [] cs else cleanGo rooted [c] cs
    else cleanGo rooted (c :: stack) cs

/-- `path.Clean` -/
def pathClean (p : Str) : Str :=
  if p = [] then b!"." else
  let rooted := p.head? = some 47
  let body := joinWith b!"/" (cleanGo rooted [] (splitOnByte 47 p))
  let out := (if rooted then b!"/" else []) ++ body
  if out = [] then b!"." else out

/-- `path.Join`: empty elements are ignored; the result is cleaned; all-empty gives `""` -/
def pathJoin (elems : List Str) : Str :=
  match elems.filter (· ≠ []) with
  | [] => []
  | ne => pathClean (joinWith b!"/" ne)

/-- `path.Split`: `(dir, file)` split after the final slash -/
def pathSplit (p : Str) : Str × Str :=
  let r := p.reverse
  let file := (r.takeWhile (· ≠ 47)).reverse
  (p.take (p.length - file.length), file)

end J5V.Compile
