/-!
# Byte strings for the compile model (core only)

Go strings are byte sequences; `iancoleman/strcase` works on bytes. Every name in the compile
model is a `Str = List Nat` (bytes, each `< 256` on the wire). `b!"…"` is a literal: it expands at
elaboration time to an explicit list of numerals, so `decide`/`rfl` see plain data.
-/
namespace J5V.Compile

abbrev Str := List Nat

open Lean in
/-- `b!"abc"` = `[97, 98, 99]` (UTF-8 bytes of the literal). -/
macro:max "b!" s:str : term => do
  let bytes := s.getString.toUTF8.toList
  let elems ← bytes.toArray.mapM fun b => `($(quote b.toNat))
  `(([$elems,*] : List Nat))

def Str.toString (s : Str) : String :=
  String.ofList (s.map fun b => Char.ofNat b)

/-- join with a separator byte string (`strings.Join`) -/
def joinWith (sep : Str) : List Str → Str
  | [] => []
  | [a] => a
  | a :: rest => a ++ sep ++ joinWith sep rest

/-- `strings.Split(s, sep)` for a one-byte separator: always at least one part. -/
def splitOnByte (c : Nat) : Str → List Str
  | [] => [[]]
  | v :: rest =>
    if v = c then [] :: splitOnByte c rest
    else match splitOnByte c rest with
      | [] => [[v]]
      | p :: ps => (v :: p) :: ps

def hasPrefix (p s : Str) : Bool := p.isPrefixOf s
def hasSuffix (p s : Str) : Bool := p.isSuffixOf s

/-- `strings.TrimSuffix` -/
def trimSuffix (s suf : Str) : Str :=
  if suf.isSuffixOf s then s.take (s.length - suf.length) else s

def containsByte (c : Nat) (s : Str) : Bool := s.contains c

end J5V.Compile
